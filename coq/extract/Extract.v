(* Extraction of the executable model (and later the monitors) to OCaml.
   ExtrOcamlBasic only: N stays the extracted inductive datatype, never OCaml int. *)
From Coq Require Import Extraction ExtrOcamlBasic NArith List.
From Arimaa Require Import Types U64 Board Zobrist Engine Safety Notation Display Trace Cells Rules Monitors.
Extraction Language OCaml.
Extraction "extract/model.ml"
  observe run_parser run_printer run_square_maps take_action dec_action enc_action
  initial parse_state dec_state state_of_new enc_state
  mon_block mon_ghost mon_trans trans_state_eq ghost_init mon_parse mon_print mon_square run_from_bit_board mon_from_bit_board inv_exec_blk get queries_safe apply_safe.
