(* u64 arithmetic on N with explicit wrap-around. *)
From Coq Require Import NArith List Bool.
Import ListNotations.
Open Scope N_scope.

Definition M64 : N := 18446744073709551615.   (* 2^64 - 1 *)
Definition P64 : N := 18446744073709551616.   (* 2^64 *)
Definition bnot (x : N) : N := N.ldiff M64 x.
Definition shl (x k : N) : N := N.land (N.shiftl x k) M64.
Definition shr (x k : N) : N := N.shiftr x k.
Definition wadd (x y : N) : N := (x + y) mod P64.      (* release-mode wrapping add on usize/u64 *)

(* the 64 square indices, in increasing order *)
Definition sq64 : list N :=
  [0;1;2;3;4;5;6;7;8;9;10;11;12;13;14;15;16;17;18;19;20;21;22;23;24;25;26;27;28;29;30;31;
   32;33;34;35;36;37;38;39;40;41;42;43;44;45;46;47;48;49;50;51;52;53;54;55;56;57;58;59;60;61;62;63].

(* set bits of a u64 in increasing order: behaviourally the loop
   `while b != 0 { push(trailing_zeros(b)); b ^= 1 << tz }` of map_bit_board_to_squares *)
Definition bits_of (b : N) : list N := filter (N.testbit b) sq64.
Definition count_ones (b : N) : N := N.of_nat (length (bits_of b)).
(* u64::trailing_zeros: 64 for 0 *)
Definition ctz64 (b : N) : N := match bits_of b with i :: _ => i | [] => 64 end.
(* (b as u128).trailing_zeros(): 128 for 0 *)
Definition ctz128 (b : N) : N := match bits_of b with i :: _ => i | [] => 128 end.

(* `1u64 << k` for a shift amount k held in a u8/u32/usize: debug builds panic when k >= 64,
   release builds mask the amount to its low 6 bits.  The model returns the release value;
   the panic condition is `64 <=? k` (model/Safety.v). *)
Definition one_shl (k : N) : N := N.shiftl 1 (k mod 64).

Fixpoint forall_below (n : nat) (p : N -> bool) : bool :=
  match n with O => true | S k => p (N.of_nat k) && forall_below k p end.
