(* Text notation of squares, pieces, directions and actions (square.rs, piece.rs, direction.rs,
   action.rs) on lists of Unicode code points.  Outcomes are explicit: Ok v | Err | Panic.
   `dbg` selects the build profile: true = overflow checks on (debug), false = wrapping (release). *)
From Coq Require Import NArith List Bool DecimalN Decimal.
From Arimaa Require Import Types U64 GenMasks GenEnums Board Engine.
Import ListNotations.
Open Scope N_scope.

Inductive outcome (A : Type) := Ok (a : A) | Err | Panic.
Arguments Ok {A} a. Arguments Err {A}. Arguments Panic {A}.

Definition text := list N.

Definition utf8_len (c : N) : N :=
  if c <? 128 then 1 else if c <? 2048 then 2 else if c <? 65536 then 3 else 4.

(* ---- decimal printing (core::fmt for unsigned integers) ---- *)
Fixpoint uint_digits (u : Decimal.uint) : list N :=
  match u with
  | Nil => []
  | D0 r => 48 :: uint_digits r | D1 r => 49 :: uint_digits r | D2 r => 50 :: uint_digits r
  | D3 r => 51 :: uint_digits r | D4 r => 52 :: uint_digits r | D5 r => 53 :: uint_digits r
  | D6 r => 54 :: uint_digits r | D7 r => 55 :: uint_digits r | D8 r => 56 :: uint_digits r
  | D9 r => 57 :: uint_digits r
  end.
Definition print_dec (n : N) : text := uint_digits (N.to_uint n).

(* ---- printing ---- *)
Definition print_piece (k : piece) : text := [piece_letter k].
Definition print_dir (d : dir) : text := [dir_letter d].
Definition print_square (s : square) : text := sq_column_char s :: print_dec (sq_row s).
Definition print_action (a : action) : text :=
  match a with
  | Move s d => print_square s ++ print_dir d
  | Pass => [112]                        (* "p" *)
  | Place k => print_piece k
  end.

(* ---- parsing ---- *)
Fixpoint assoc {A} (c : N) (t : list (N * A)) : option A :=
  match t with
  | [] => None
  | (c', v) :: r => if c =? c' then Some v else assoc c r
  end.

Definition parse_piece (t : text) : outcome piece :=
  match t with
  | [c] => match assoc c piece_of_letter_table with Some k => Ok k | None => Err end
  | _ => Err
  end.

Definition parse_dir (t : text) : outcome dir :=
  match t with
  | [c] => match assoc c dir_of_letter_table with Some d => Ok d | None => Err end
  | _ => Err
  end.

Definition is_ascii_digit (c : N) : bool := (48 <=? c) && (c <=? 57).

(* Square::from_str.  VERIF-MODEL-OF: square.rs FromStr (see model/SquareParse variants below). *)
Definition parse_square_orig (dbg : bool) (t : text) : outcome square :=
  match t with
  | [column; row] =>
    if is_ascii_digit row then           (* row.to_string().parse::<usize>() is Ok *)
      let r := row - 48 in
      let cu := column mod 256 in        (* column as u8 *)
      if dbg && (cu <? ASCII_LETTER_A) then Panic                 (* u8 subtraction underflow *)
      else
        let c1 := (cu + 256 - ASCII_LETTER_A) mod 256 in
        if dbg && (c1 =? 255) then Panic                            (* + 1 overflow (unreachable: needs cu = 96) *)
        else
          let num := (c1 + 1) mod 256 in
          if (1 <=? num) && (num <=? BOARD_WIDTH mod 256) && (1 <=? r) && (r <=? BOARD_HEIGHT)
          then Ok (sq_new column r) else Err
    else Err
  | _ => Err
  end.

(* the repaired code: the column is range-checked as a char before any u8 arithmetic *)
Definition parse_square_fixed (t : text) : outcome square :=
  match t with
  | [column; row] =>
    if is_ascii_digit row then
      let r := row - 48 in
      if (ASCII_LETTER_A <=? column) && (column <? ASCII_LETTER_A + BOARD_WIDTH) && (1 <=? r) && (r <=? BOARD_HEIGHT)
      then Ok (sq_new column r) else Err
    else Err
  | _ => Err
  end.

(* Action::from_str, original: byte slicing s[..2] / s[2..] on a 3-char string *)
Definition parse_action_orig (dbg : bool) (t : text) : outcome action :=
  match t with
  | [c] =>
    if c =? 112 then Ok Pass
    else match parse_piece [c] with Ok k => Ok (Place k) | _ => Err end
  | [c0; c1; c2] =>
    let l0 := utf8_len c0 in
    let l1 := utf8_len c1 in
    if (l0 =? 2) then Err                                    (* s[..2] is the single first char: not a square *)
    else if (l0 =? 1) && (l1 =? 1) then
      match parse_square_orig dbg [c0; c1] with
      | Ok s => match parse_dir [c2] with Ok d => Ok (Move s d) | Err => Err | Panic => Panic end
      | Err => Err
      | Panic => Panic
      end
    else Panic                                               (* byte index 2 is not a char boundary *)
  | _ => Err
  end.

Definition parse_action_fixed (t : text) : outcome action :=
  match t with
  | [c] =>
    if c =? 112 then Ok Pass
    else match parse_piece [c] with Ok k => Ok (Place k) | _ => Err end
  | [c0; c1; c2] =>
    match parse_square_fixed [c0; c1] with
    | Ok s => match parse_dir [c2] with Ok d => Ok (Move s d) | _ => Err end
    | _ => Err
    end
  | _ => Err
  end.
