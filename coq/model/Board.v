(* PieceBoardState and its accessors (engine.rs:41-119), squares (square.rs). *)
From Coq Require Import NArith List Bool.
From Arimaa Require Import Types U64 GenMasks GenEnums.
Import ListNotations.
Open Scope N_scope.

Record pbs := mkpbs {
  p1 : N; allp : N; el : N; ca : N; ho : N; dg : N; ct : N; rb : N }.

Definition pbs_eqb (a b : pbs) : bool :=
  (p1 a =? p1 b) && (allp a =? allp b) && (el a =? el b) && (ca a =? ca b) &&
  (ho a =? ho b) && (dg a =? dg b) && (ct a =? ct b) && (rb a =? rb b).

Definition empty_board : pbs := mkpbs 0 0 0 0 0 0 0 0.

(* PieceBoard::new *)
Definition pb_new (p1_ e m h d c r : N) : pbs :=
  mkpbs p1_ (N.lor (N.lor (N.lor (N.lor (N.lor e m) h) d) c) r) e m h d c r.

Definition player_piece_mask (b : pbs) (p1side : bool) : N :=
  if p1side then p1 b else N.land (bnot (p1 b)) (allp b).

Definition bits_by_piece_type (b : pbs) (k : piece) : N :=
  match k with
  | Elephant => el b | Camel => ca b | Horse => ho b | Dog => dg b | Cat => ct b | Rabbit => rb b
  end.

Definition bits_for_piece (b : pbs) (k : piece) (p1side : bool) : N :=
  N.land (bits_by_piece_type b k) (player_piece_mask b p1side).

(* ---- squares (square.rs) ---- *)
Definition square := N.           (* the u8 inside Square *)

Definition sq_as_bit_board (s : square) : N := one_shl s.       (* 1 << self.0 *)
Definition sq_from_bit_board (b : N) : square := (ctz128 b) mod 256.
Definition sq_index (s : square) : N := s.
Definition sq_column_char (s : square) : N := (ASCII_LETTER_A + (s mod BOARD_WIDTH) mod 256) mod 256.
Definition sq_row (s : square) : N := ((BOARD_HEIGHT + P64 - s / BOARD_WIDTH) mod P64) mod 256.
(* Square::new(column, row): (column as u8 - 97) + (8 - row) as u8 * 8, release (wrapping) value *)
Definition sq_new (column row : N) : square :=
  (((column mod 256) + 256 - ASCII_LETTER_A) mod 256 + (((BOARD_HEIGHT + P64 - row mod P64) mod P64) mod 256) * 8) mod 256.

(* first_set_bit (bit_manip.rs): 1 << trailing_zeros(bits) *)
Definition first_set_bit (bits : N) : N := one_shl (ctz64 bits).

(* ---- shift macros (bit_manip.rs), parameterised by the regenerated macro table ---- *)
Definition apply_shift (sh : bool * N) (x : N) : N :=
  if fst sh then shl x (snd sh) else shr x (snd sh).

Definition shift_up x := apply_shift SHIFT_UP x.
Definition shift_right x := apply_shift SHIFT_RIGHT x.
Definition shift_down x := apply_shift SHIFT_DOWN x.
Definition shift_left x := apply_shift SHIFT_LEFT x.
Definition shift_pieces_up x := apply_shift SHIFT_PIECES_UP_INNER (N.land x (bnot SHIFT_PIECES_UP_MASK)).
Definition shift_pieces_right x := apply_shift SHIFT_PIECES_RIGHT_INNER (N.land x (bnot SHIFT_PIECES_RIGHT_MASK)).
Definition shift_pieces_down x := apply_shift SHIFT_PIECES_DOWN_INNER (N.land x (bnot SHIFT_PIECES_DOWN_MASK)).
Definition shift_pieces_left x := apply_shift SHIFT_PIECES_LEFT_INNER (N.land x (bnot SHIFT_PIECES_LEFT_MASK)).

Definition shift_in_direction (bits : N) (d : dir) : N :=
  match d with Up => shift_up bits | Right => shift_right bits | Down => shift_down bits | Left => shift_left bits end.
Definition shift_pieces_in_direction (bits : N) (d : dir) : N :=
  match d with
  | Up => shift_pieces_up bits | Right => shift_pieces_right bits
  | Down => shift_pieces_down bits | Left => shift_pieces_left bits end.
Definition shift_pieces_in_opp_direction (bits : N) (d : dir) : N :=
  match d with
  | Up => shift_pieces_down bits | Right => shift_pieces_left bits
  | Down => shift_pieces_up bits | Left => shift_pieces_right bits end.

Definition shift_piece_in_direction (pb src : N) (d : dir) : N :=
  N.lor (shift_in_direction (N.land pb src) d) (N.land pb (bnot src)).

Definition influenced_squares (x : N) : N :=
  N.lor (N.lor (N.lor (shift_pieces_up x) (shift_pieces_right x)) (shift_pieces_down x)) (shift_pieces_left x).

Definition supported_pieces (x : N) : N :=
  N.lor (N.lor (N.lor (N.land x (shift_pieces_up x)) (N.land x (shift_pieces_right x)))
               (N.land x (shift_pieces_down x))) (N.land x (shift_pieces_left x)).

Definition both_player_supported_pieces (b : pbs) : N :=
  N.lor (supported_pieces (p1 b)) (supported_pieces (N.land (allp b) (bnot (p1 b)))).
Definition both_player_unsupported_piece_bits (b : pbs) : N :=
  N.land (allp b) (bnot (both_player_supported_pieces b)).
Definition animal_is_on_trap (b : pbs) : bool := negb (N.land (allp b) TRAP_MASK =? 0).

Definition trapped_piece_bits (b : pbs) : N :=
  if animal_is_on_trap b then N.land (both_player_unsupported_piece_bits b) TRAP_MASK else 0.

Definition piece_type_at_bit (bit : N) (b : pbs) : piece :=
  if negb (N.land (rb b) bit =? 0) then Rabbit
  else if negb (N.land (el b) bit =? 0) then Elephant
  else if negb (N.land (ca b) bit =? 0) then Camel
  else if negb (N.land (ho b) bit =? 0) then Horse
  else if negb (N.land (dg b) bit =? 0) then Dog
  else Cat.

Definition piece_type_at_square (b : pbs) (s : square) : option piece :=
  let bit := sq_as_bit_board s in
  if negb (N.land bit (allp b) =? 0) then Some (piece_type_at_bit bit b) else None.

Definition placement_bit (b : pbs) : N :=
  let mask := if N.land (p1 b) P1_PLACEMENT_MASK =? P1_PLACEMENT_MASK then P2_PLACEMENT_MASK else P1_PLACEMENT_MASK in
  first_set_bit (N.land (bnot (allp b)) mask).

(* PieceBoard::move_piece *)
Definition pb_move_piece (b : pbs) (s : square) (d : dir) : pbs :=
  let src := sq_as_bit_board s in
  mkpbs (shift_piece_in_direction (p1 b) src d) (shift_piece_in_direction (allp b) src d)
        (shift_piece_in_direction (el b) src d) (shift_piece_in_direction (ca b) src d)
        (shift_piece_in_direction (ho b) src d) (shift_piece_in_direction (dg b) src d)
        (shift_piece_in_direction (ct b) src d) (shift_piece_in_direction (rb b) src d).

(* PieceBoard::remove_trapped_pieces *)
Definition pb_remove_trapped (b : pbs) : pbs * bool :=
  let t := trapped_piece_bits b in
  if negb (t =? 0) then
    let u := bnot t in
    (mkpbs (N.land (p1 b) u) (N.land (allp b) u) (N.land (el b) u) (N.land (ca b) u)
           (N.land (ho b) u) (N.land (dg b) u) (N.land (ct b) u) (N.land (rb b) u), true)
  else (b, false).

(* PieceBoard::take_action for Action::Move *)
Definition pb_take_move (b : pbs) (s : square) (d : dir) : pbs * bool :=
  pb_remove_trapped (pb_move_piece b s d).

Definition can_move_in_direction (d : dir) (b : pbs) : N :=
  shift_pieces_in_opp_direction (bnot (allp b)) d.

Definition piece_gtb (a b : piece) : bool := piece_rank b <? piece_rank a.
