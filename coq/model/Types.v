(* Basic enumerations shared by the generated data and the hand-written model. *)
From Coq Require Import NArith List String Bool.
Import ListNotations.

Inductive piece := Rabbit | Cat | Dog | Horse | Camel | Elephant.
Inductive dir := Up | Right | Down | Left.

Definition piece_eqb (a b : piece) : bool :=
  match a, b with
  | Rabbit, Rabbit | Cat, Cat | Dog, Dog | Horse, Horse | Camel, Camel | Elephant, Elephant => true
  | _, _ => false
  end.
Definition dir_eqb (a b : dir) : bool :=
  match a, b with
  | Up, Up | Right, Right | Down, Down | Left, Left => true
  | _, _ => false
  end.

Lemma piece_eqb_spec a b : reflect (a = b) (piece_eqb a b).
Proof. destruct a, b; simpl; constructor; congruence. Qed.
Lemma dir_eqb_spec a b : reflect (a = b) (dir_eqb a b).
Proof. destruct a, b; simpl; constructor; congruence. Qed.

(* Rust type structure (for C18/C20): a small AST of field types. *)
Inductive rty :=
| TPrim (name : string)
| TParam (name : string)
| TRef (t : rty)
| TRefMut (t : rty)
| TRawPtr
| TApp (head : string) (args : list rty).

Inductive recv := RecvRef | RecvMut | RecvOwned | RecvNone.
