(* Property monitors: boolean predicates of the properties C01..C16, C19 evaluated on what the
   IMPLEMENTATION did (its own observation blocks, decoded from the trace), used as the search
   for a concrete failing input.  A monitor returns a list of (property number, reason code).
   Two kinds of comparison are made:
     - "self" monitors relate several observations of the implementation to each other or to the
       square-level rules of spec/Rules.v, without the engine model;
     - "local" monitors compare one observation of the implementation with the model's answer
       computed from the implementation's OWN decoded state (so a divergence is localised to the
       first state at which a public function answers differently). *)
From Coq Require Import NArith List Bool.
From Arimaa Require Import Types U64 GenMasks GenEnums GenZobrist Board Zobrist Engine Notation Display Trace Cells Rules Safety.
Import ListNotations.
Open Scope N_scope.

Definition blk := list (N * list N).

Fixpoint get (t : N) (b : blk) : option (list N) :=
  match b with [] => None | (t', v) :: r => if t =? t' then Some v else get t r end.
Definition get_all (t : N) (b : blk) : list (list N) :=
  map snd (filter (fun x => fst x =? t) b).
Definition tagX := 88.

Fixpoint list_eqb (a b : list N) : bool :=
  match a, b with
  | [], [] => true
  | x :: a', y :: b' => (x =? y) && list_eqb a' b'
  | _, _ => false
  end.
Definition memN (x : N) (l : list N) : bool := existsb (N.eqb x) l.
Definition subsetN (a b : list N) : bool := forallb (fun x => memN x b) a.
Definition set_eqN (a b : list N) : bool := subsetN a b && subsetN b a.
Fixpoint nodupN (l : list N) : bool :=
  match l with [] => true | x :: r => negb (memN x r) && nodupN r end.

Definition fails (p c : N) (ok : bool) : list (N * N) := if ok then [] else [(p, c)].

Definition cells_eqb (c c' : cellf) : bool := forallb (fun i => cell_eqb (c i) (c' i)) sq64.

Definition sstatus_of (p : pps) : sstatus :=
  match p with PPNone => SNone | PossiblePull s k => SPull s k | MustCompletePush s k => SPush s k end.

Definition enc_result (r : option result) : N := match r with None => 0 | Some RGold => 1 | Some RSilver => 2 end.

(* all (square, direction) pairs as encoded Move actions, in increasing code order *)
Definition all_move_codes : list N := flat_map (fun s => map (fun d => enc_action (Move s d)) dirs4) sq64.

Definition spec_offered_moves (c : cellf) (mover : bool) (step : N) (st : sstatus) : list N :=
  filter (fun code => match dec_action code with
                      | Some (Move s d) => spec_move_ok c mover step st s d
                      | _ => false end) all_move_codes.

Definition count_kind (b : pbs) (k : piece) (o : bool) : N := count_ones (bits_for_piece b k o).
Definition complement (k : piece) : N :=
  match k with Elephant => 1 | Camel => 1 | Horse => 2 | Dog => 2 | Cat => 2 | Rabbit => 8 end.
Definition all_kinds : list piece := [Elephant; Camel; Horse; Dog; Cat; Rabbit].
Definition within_complement (b : pbs) : bool :=
  forallb (fun k => (count_kind b k true <=? complement k) && (count_kind b k false <=? complement k)) all_kinds.
Definition material_le (b' b : pbs) : bool :=
  forallb (fun k => (count_kind b' k true <=? count_kind b k true) && (count_kind b' k false <=? count_kind b k false)) all_kinds.
Definition no_trap_violation (b : pbs) : bool :=
  forallb (fun i => negb (unsupported_on_trap (cell b) i)) sq64.

(* executable form of the invariant under which the `inv`-level clauses are theorems (proofs/InvExec.v:
   inv_exec s = true -> exists pp, HashInv s pp): well-formed boards, at most three earlier boards, a pending status
   names an empty on-board square and occurs only after the first step, the hash is the from-scratch hash *)
Definition inv_exec (s : state) : bool :=
  match ph s with
  | PlayPhase pp =>
    wfb_exec (board s) && forallb wfb_exec (prev pp) && (step_of pp <=? 3) &&
    (match pstate pp with
     | PPNone => true
     | PossiblePull sq _ | MustCompletePush sq _ => (sq <? 64) && negb (occupied (cell (board s)) sq) && (1 <=? step_of pp)
     end) &&
    (hash s =? z_from_piece_board (board s) (side s) (step_of pp))
  | PlacePhase => false
  end.

(* the assembled root state of a case passes the executable invariant (decided once per case by the driver;
   successors of offered actions then satisfy the invariant by hash_preserved - which is what the clauses check) *)
Definition inv_exec_blk (b : blk) : bool :=
  match get tagS b with
  | Some sl => match dec_state sl with Some s => inv_exec s | None => false end
  | None => false
  end.

(* ------------------------------------------------------------------------------------------
   per-state monitors.  `reach` = the state was produced from a start state through offered
   actions only (false for states assembled with the public constructors).  `inv` = reach, or the state was assembled
   (or produced by offered actions from a state assembled) with a well-formed legal board, step <= 3 earlier boards,
   a status naming an empty square next to a fitting piece, and from-scratch hash: the play invariant of the proofs
   holds there, only the repetition history / turn-start hash / earlier boards are synthetic.  `nopanic` = reach, or
   the state was parsed from a diagram in which a piece stands unsupported on a trap (accepted by the parser; the
   no-panic theorem C19 covers every parsed start, the capture theorems assume a position without trap violations).  Clauses that are
   theorems under the play invariant alone are evaluated under `inv`; clauses about histories need `reach`. *)
Definition mon_block (dbg reach inv nopanic : bool) (b : blk) : list (N * N) :=
  match get tagS b with
  | None => if nopanic then [(19, tagS)] else []          (* the state could not even be read: a panic *)
  | Some sl =>
  match dec_state sl with
  | None => [(0, 1)]
  | Some s =>
    (* the no-panic guard of model/Safety.v is a function of the state alone: where it holds on an assembled state
       that passed the executable invariant, a panic of a query is a failing input of C19 as well *)
    let nopanic := nopanic || (inv && queries_safe s) in
    let m := observe dbg s in
    let gm t := match get t m with Some v => v | None => [] end in
    let c := cell (board s) in
    let xs := get_all tagX b in
    fails 19 1 (negb nopanic || match xs with [] => true | _ => false end) ++
    fails 10 1 (negb inv || wfb_exec (board s)) ++
    match ph s with
    | PlacePhase =>
      (match get tagN b, get tagV b with
       | Some n, Some v =>
         fails 9 1 (set_eqN n (gm tagN) && nodupN n) ++ fails 9 2 (list_eqb n v) ++
         fails 7 1 (match v with [] => false | _ => true end)
       | _, _ => []
       end) ++
      (match get tagT b with
       | Some [t; hm; cp; cpn] => fails 4 3 (t =? 0) ++ fails 7 2 ((hm =? 0) && (cp =? 0) && (cpn =? 0))
       | _ => []
       end) ++
      fails 10 3 (negb reach || within_complement (board s))
    | PlayPhase pp =>
      let stp := step_of pp in
      let st := sstatus_of (pstate pp) in
      fails 3 1 (negb inv || (stp <=? 3)) ++
      fails 12 2 (negb inv || negb (stp =? 0) || pps_eqb (pstate pp) PPNone) ++
      (match get tagN b with
       | Some n =>
         let moves := filter (fun x => negb (x =? 0)) n in
         fails 1 1 (set_eqN n (gm tagN)) ++
         fails 1 2 (nodupN n) ++
         fails 1 3 (negb inv || Bool.eqb (memN 0 n) (spec_pass_ok stp st)) ++
         fails 1 4 (negb inv || set_eqN moves (spec_offered_moves c (side s) stp st)) ++
         fails 12 3 (negb reach || negb (is_mcp (pstate pp)) || match n with [] => false | _ => true end) ++
         fails 12 4 (negb inv || negb (is_mcp (pstate pp)) || set_eqN n (spec_offered_moves c (side s) stp st)) ++
         (match get tagV b with
          | Some v =>
            let mv := gm tagV in
            fails 6 1 (list_eqb v (filter (fun a => memN a mv) n)) ++
            (match get tagT b with
             | Some [t; hm; cp; cpn] =>
               let vempty := match v with [] => true | _ => false end in
               fails 7 3 (Bool.eqb (hm =? 0) (negb vempty)) ++
               fails 7 4 (Bool.eqb (negb (cp =? 0)) (memN 0 v)) ++
               fails 7 5 (Bool.eqb (negb (cpn =? 0)) (memN 0 n)) ++
               fails 7 6 (negb (t =? 0) || negb vempty) ++
               fails 7 7 ((stp =? 0) || (Bool.eqb (negb (t =? 0)) vempty &&
                                         ((t =? 0) || (t =? enc_terminal (Some (loss_for_mover s)))))) ++
               fails 4 1 (negb inv || (t =? enc_terminal (is_terminal s))) ++
               fails 4 2 (negb inv || negb (stp =? 0) ||
                          (t =? enc_result (spec_result c (side s) (negb vempty))))
             | _ => []
             end)
          | None => []
          end) ++
         (match get tagK b with
          | Some k => fails 13 1 (negb inv || list_eqb k (map (fun a => match dec_action a with
                                                       | Some act => enc_preview (trapped_animal_for_action s act)
                                                       | None => 0 end) n))
          | None => []
          end)
       | None => []
       end) ++
      (match get tagH b with
       | Some [h] => fails 8 1 (negb inv || (h =? N.lxor (from_scratch s)
                                  (N.lxor (hash s) (transposition_hash s)))) ++
                     fails 8 3 (negb inv || (hash s =? from_scratch s))
       | _ => []
       end) ++
      (match get tagF b with
       | Some [f] => fails 8 2 (f =? from_scratch s)
       | _ => []
       end) ++
      (match get tagL b with
       | Some l => fails 14 3 (list_eqb l sl)      (* clone_from onto another state = the source state, earlier boards included *)
       | None => []
       end) ++
      fails 14 1 (forallb (fun bl => match bl with
                                     | i :: w => list_eqb w (enc_pbs (piece_board_for_step s i))
                                                 && (if i =? stp then list_eqb w (enc_pbs (board s)) else true)
                                     | [] => false end) (get_all tagB b)
                  && (negb inv || (N.of_nat (length (get_all tagB b)) =? stp + 1))) ++
      (match get tagD b with
       | Some d =>
         fails 10 2 (negb (wfb_exec (board s)) || list_eqb d (print_state s)) ++
         (match get tagR b with
          | Some (2 :: rs) =>
            match dec_state rs with
            | Some s' =>
              fails 15 1 (negb (wfb_exec (board s)) ||
                          (pbs_eqb (board s') (board s) && Bool.eqb (side s') (side s) && (move_no s' =? move_no s))) ++
              fails 15 2 (match ph s' with
                          | PlayPhase pp' => (step_of pp' =? 0) && pps_eqb (pstate pp') PPNone &&
                                             list_eqb (hist pp') [hash s'] && (init_hash pp' =? hash s') &&
                                             negb (trapped pp')
                          | PlacePhase => false end) ++
              fails 15 3 (negb (wfb_exec (board s)) || list_eqb (print_state s') d) ++
              (match get tagE b with
               | Some [e; h'] =>
                 fails 15 4 (negb inv || negb (stp =? 0) ||
                             (negb (e =? 0) && (h' =? transposition_hash s)))
               | _ => []
               end)
            | None => [(0, 2)]
            end
          | Some [1] => [(15, 5)]
          | Some _ => fails 15 6 (negb (wfb_exec (board s)))
          | None => []
          end)
       | None => []
       end)
    end
  end
  end.

(* ------------------------------------------------------------------------------------------
   ghost history: the exact turn-start positions (board, side) of the game so far, newest first,
   never forgotten at captures; `since` counts how many of them lie after the last capture *)
Record ghost := mkghost { g_hist : list (pbs * bool); g_turn_start : pbs; g_since : nat }.

Definition ghost_init (s : state) : ghost :=
  match ph s with
  | PlayPhase _ => mkghost [(board s, side s)] (board s) 1
  | PlacePhase => mkghost [] (board s) 0
  end.

Definition count_pos (b : pbs) (sd : bool) (l : list (pbs * bool)) : nat :=
  length (filter (fun x => pbs_eqb (fst x) b && Bool.eqb (snd x) sd) l).

Definition is_turn_end (s : state) (a : action) : bool :=
  match ph s, a with
  | PlayPhase pp, Pass => true
  | PlayPhase pp, Move _ _ => 3 <=? step_of pp
  | _, _ => false
  end.

(* the rule of the property on exact boards: a turn-ending action is withheld iff its result equals
   the turn-start board or would be the third start-of-turn occurrence of (board, side) *)
Definition withheld_exact (g : ghost) (s : state) (a : action) : bool :=
  is_turn_end s a &&
  let nb := match a with Move sq d => fst (pb_take_move (board s) sq d) | _ => board s end in
  (pbs_eqb nb (g_turn_start g) || Nat.leb 2 (count_pos nb (negb (side s)) (g_hist g))).

Definition firstn_pos (n : nat) (l : list (pbs * bool)) := firstn n l.

(* monitors that need the ghost: evaluated on every watched state *)
Definition mon_ghost (g : ghost) (b : blk) : list (N * N) :=
  match get tagS b with
  | Some sl =>
    match dec_state sl with
    | Some s =>
      match ph s, get tagN b, get tagV b with
      | PlayPhase pp, Some n, Some v =>
        (* C06 exact rule: withheld <-> the exact-history rule says so *)
        fails 6 2 (forallb (fun code => match dec_action code with
                                        | Some a => Bool.eqb (negb (memN code v)) (withheld_exact g s a)
                                        | None => true end) n) ++
        (* forgetting at captures: the same verdict from the history since the last capture *)
        fails 6 3 (forallb (fun code => match dec_action code with
                                        | Some a => Bool.eqb (withheld_exact g s a)
                                                      (withheld_exact (mkghost (firstn_pos (g_since g) (g_hist g)) (g_turn_start g) (g_since g)) s a)
                                        | None => true end) n) ++
        (* C08: recorded turn-start hashes are the from-scratch hashes of the exact positions *)
        fails 8 4 (list_eqb (hist pp)
                     (if trapped pp then []
                      else map (fun x => z_from_piece_board (fst x) (snd x) 0) (firstn_pos (g_since g) (g_hist g)))) ++
        fails 8 5 (init_hash pp =? z_from_piece_board (g_turn_start g) (side s) 0)
      | _, _, _ => []
      end
    | None => []
    end
  | None => []
  end.

(* ------------------------------------------------------------------------------------------
   transition monitors: watched state, the action taken (offered there), next watched state *)
Definition mon_trans (hist_ok : bool) (g : ghost) (b : blk) (code : N) (b' : blk) : list (N * N) * ghost :=
  match get tagS b, get tagS b' with
  | Some sl, Some sl' =>
    match dec_state sl, dec_state sl', dec_action code with
    | Some s, Some s', Some a =>
      let m := take_action s a in
      let c := cell (board s) in
      let c' := cell (board s') in
      let offered_v := match get tagV b with Some v => memN code v | None => false end in
      let captured := negb (N.of_nat (length (bits_of (allp (board s')))) =? N.of_nat (length (bits_of (allp (board s))))) in
      let g' :=
        match ph s, ph s' with
        | PlacePhase, PlayPhase _ => mkghost [(board s', side s')] (board s') 1
        | PlacePhase, PlacePhase => mkghost [] (board s') 0
        | PlayPhase pp, _ =>
          let since := if captured || trapped pp then O else g_since g in
          if is_turn_end s a then mkghost ((board s', side s') :: g_hist g) (board s') (S since)
          else mkghost (g_hist g) (g_turn_start g) since
        end in
      let res :=
      match ph s, a with
      | PlayPhase pp, Move sq d =>
        let stp := step_of pp in
        let last := 3 <=? stp in
        (* C02: square-level effect of the step *)
        fails 2 1 (pbs_eqb (board s') (board m)) ++
        fails 2 2 (match spec_step c sq d with
                   | Some ex => occupied c sq && negb (match dst_of sq d with Some t => occupied c t | None => true end)
                                && cells_eqb ex c' && wfb_exec (board s')
                   | None => false end) ++
        fails 2 3 (material_le (board s') (board s)) ++
        fails 10 4 (no_trap_violation (board s')) ++
        (* C03 *)
        fails 3 2 (if last then Bool.eqb (side s') (negb (side s))
                               && (move_no s' =? (if side s then move_no s else move_no s + 1))
                   else Bool.eqb (side s') (side s) && (move_no s' =? move_no s)) ++
        fails 3 3 (match ph s' with
                   | PlayPhase pp' =>
                     if last then (step_of pp' =? 0) && pps_eqb (pstate pp') PPNone && negb (trapped pp')
                                  && (init_hash pp' =? hash s')
                     else (step_of pp' =? stp + 1) && (init_hash pp' =? init_hash pp)
                   | PlacePhase => false end) ++
        (* C12: the status describes this step *)
        fails 12 1 (last || match ph s' with
                           | PlayPhase pp' =>
                             match spec_next_status c (side s) (sstatus_of (pstate pp)) sq d, sstatus_of (pstate pp') with
                             | SNone, SNone => true
                             | SPull x k, SPull x' k' => (x =? x') && piece_eqb k k'
                             | SPush x k, SPush x' k' => (x =? x') && piece_eqb k k'
                             | _, _ => false end
                           | PlacePhase => false end) ++
        (* C13: the preview of the action taken against what was actually removed *)
        (match spec_step c sq d, dst_of sq d with
         | Some _, Some t =>
           let mv := moved c sq t in
           let removed := filter (fun i => occupied mv i && negb (occupied c' i)) sq64 in
           fails 13 2 (Nat.leb (length removed) 1) ++
           fails 13 3 (match trapped_animal_for_action s a, removed with
                       | None, [] => true
                       | Some (i, k, o), [j] => (i =? j) && cell_eqb (mv j) (Some (o, k))
                       | _, _ => false end) ++
           (match get tagK b, get tagN b with
            | Some ks, Some ns =>
              let fix find (ns ks : list N) : option N :=
                match ns, ks with
                | n :: ns', k :: ks' => if n =? code then Some k else find ns' ks'
                | _, _ => None end in
              fails 13 4 (match find ns ks, removed with
                          | Some 0, [] => true
                          | Some p, [j] => match mv j with
                                           | Some (o, k) => p =? enc_preview (Some (j, k, o))
                                           | None => false end
                          | None, _ => true
                          | _, _ => false end)
            | _, _ => []
            end)
         | _, _ => []
         end) ++
        (* C14: the record of earlier boards *)
        fails 14 2 (last || match ph s' with
                           | PlayPhase pp' => list_eqb (flat_map enc_pbs (prev pp')) (flat_map enc_pbs (prev pp ++ [board s]))
                           | PlacePhase => false end) ++
        (* C05: an offered turn end changes the board and does not create a third occurrence *)
        fails 5 1 (negb hist_ok || negb (last && offered_v) || negb (pbs_eqb (board s') (g_turn_start g))) ++
        fails 5 2 (negb hist_ok || negb (last && offered_v) || Nat.leb (count_pos (board s') (side s') (g_hist g)) 1)
      | PlayPhase pp, Pass =>
        fails 2 4 (pbs_eqb (board s') (board s)) ++
        fails 3 2 (Bool.eqb (side s') (negb (side s)) && (move_no s' =? (if side s then move_no s else move_no s + 1))) ++
        fails 3 3 (match ph s' with
                   | PlayPhase pp' => (step_of pp' =? 0) && pps_eqb (pstate pp') PPNone && negb (trapped pp')
                                      && (init_hash pp' =? hash s')
                   | PlacePhase => false end) ++
        fails 5 1 (negb hist_ok || negb offered_v || negb (pbs_eqb (board s') (g_turn_start g))) ++
        fails 5 2 (negb hist_ok || negb offered_v || Nat.leb (count_pos (board s') (side s') (g_hist g)) 1)
      | PlacePhase, Place k =>
        (* C09: the next free home square, in order, receives (mover, k); nothing else changes *)
        let n := N.of_nat (length (bits_of (allp (board s)))) in
        let target := if side s then 48 + n else n - 16 in
        fails 9 3 (cells_eqb c' (fun i => if i =? target then Some (side s, k) else c i) && wfb_exec (board s')) ++
        fails 9 4 (if n =? 15 then negb (side s') && match ph s' with PlacePhase => (move_no s' =? 1) | _ => false end
                   else if n =? 31 then side s' && (move_no s' =? 2) &&
                        match ph s' with
                        | PlayPhase pp' => (step_of pp' =? 0) && pps_eqb (pstate pp') PPNone && negb (trapped pp')
                                           && list_eqb (hist pp') [hash s'] && (init_hash pp' =? hash s')
                        | PlacePhase => false end
                   else Bool.eqb (side s') (side s) && match ph s' with PlacePhase => (move_no s' =? 1) | _ => false end) ++
        fails 10 3 (within_complement (board s'))
      | _, _ => [(0, 3)]
      end in
      (res, g')
    | _, _, _ => ([], g)
    end
  | _, _ => ([], g)
  end.

(* local correspondence of the whole successor state (reported separately, not a property monitor) *)
Definition trans_state_eq (b : blk) (code : N) (b' : blk) : bool :=
  match get tagS b, get tagS b' with
  | Some sl, Some sl' =>
    match dec_state sl, dec_action code with
    | Some s, Some a => list_eqb (enc_state (take_action s a)) sl'
    | _, _ => true
    end
  | _, _ => true
  end.

(* ---- string cases ---- *)
Definition up_ok (t : text) (pr : text) : bool :=
  list_eqb t pr || match t, pr with [c], [p] => (is_ascii_upper c) && (c + 32 =? p) | _, _ => false end.

(* which parser, input text, implementation outcome *)
Definition mon_parse (dbg : bool) (which : N) (t : text) (out : list N) : list (N * N) :=
  let p := if which =? 4 then 15 else 16 in
  fails p 7 (list_eqb out (run_parser dbg which t)) ++
  match out with
  | [1] => [(p, 5)]                                          (* the implementation panicked *)
  | 2 :: v =>
    match which, v with
    | 0, [code] => fails 16 3 (match dec_action code with
                               | Some a => match a with
                                           | Place _ => up_ok t (print_action a)
                                           | _ => list_eqb t (print_action a) end
                               | None => false end)
    | 1, [sq] => fails 16 3 (list_eqb t (print_square sq))
    | 2, [k] => fails 16 3 (match piece_of_code k with Some pc => up_ok t (print_piece pc) | None => false end)
    | 3, [d] => fails 16 3 (match dir_of_code d with Some dd => list_eqb t (print_dir dd) | None => false end)
    | _, _ => []
    end
  | _ => []
  end.

(* printed value parses back to the value: which, value code, implementation's printed text *)
Definition mon_print (dbg : bool) (which v : N) (printed : text) : list (N * N) :=
  fails 16 4 (list_eqb printed (run_printer which v)) ++
  fails 16 8 (match which with
              | 0 => match parse_action dbg printed with Ok a => enc_action a =? v | _ => false end
              | 1 => match parse_square dbg printed with Ok s => s =? v | _ => false end
              | 2 => match parse_piece printed with Ok k => piece_code k =? v | _ => false end
              | _ => match parse_dir printed with Ok d => dir_code d =? v | _ => false end
              end).

(* square maps: index i -> [as_bit_board; from_bit_board(bit); column_char; row; new(column,row)] *)
(* Square::from_bit_board on an arbitrary word (0, several bits): the lowest set bit, 128 for 0 *)
Definition run_from_bit_board (x : N) : list N := [2; sq_from_bit_board x].
Definition mon_from_bit_board (x : N) (out : list N) : list (N * N) :=
  fails 16 9 (list_eqb out (run_from_bit_board x)).

Definition mon_square (i : N) (out : list N) : list (N * N) :=
  match out with
  | [bb; back; col; row; nw] =>
    fails 16 5 ((bb =? N.shiftl 1 i) && (back =? i) && (col =? 97 + i mod 8) && (row =? 8 - i / 8) && (nw =? i))
  | [1] => [(16, 5)]
  | _ => [(16, 6)]
  end.
