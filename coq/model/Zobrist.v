(* zobrist.rs over the regenerated tables. *)
From Coq Require Import NArith List Bool.
From Arimaa Require Import Types U64 GenMasks GenEnums GenZobrist Board.
Import ListNotations.
Open Scope N_scope.

Definition nthN {A} (l : list A) (i : N) (d : A) : A := nth (N.to_nat i) l d.

Definition step_val (i : N) : N := nthN STEP_VALUES i 0.
Definition table2 (t : list (list N)) (i j : N) : N := nthN (nthN t i []) j 0.

Definition piece_value (s : square) (k : piece) (is_p1 : bool) : N :=
  match square_piece_idx k with
  | Some i => table2 SQUARE_VALUES (i + if is_p1 then SQUARE_P1_OFFSET else SQUARE_P2_OFFSET) (sq_index s)
  | None => 0
  end.
Definition push_piece_value (s : square) (k : piece) : N :=
  match push_piece_idx k with Some i => table2 PUSH_VALUES i (sq_index s) | None => 0 end.
Definition pull_piece_value (s : square) (k : piece) : N :=
  match pull_piece_idx k with Some i => table2 POSSIBLE_PULL_VALUES i (sq_index s) | None => 0 end.

Definition xor_all (l : list N) : N := fold_left N.lxor l 0.

(* the double loop `for is_p1 in [true,false] for piece in Piece::ALL for square in bits` *)
Definition sides : list bool := [true; false].
Definition board_fold (f : bool -> piece -> N) : N :=
  fold_left (fun acc side => fold_left (fun acc k => N.lxor acc (f side k)) PIECE_ALL acc) sides 0.

Definition z_from_piece_board (b : pbs) (is_p1_to_move : bool) (step : N) : N :=
  let h := INITIAL in
  let h := if is_p1_to_move then h else N.lxor h PLAYER_TO_MOVE in
  let h := N.lxor h (step_val step) in
  fold_left (fun acc side =>
    fold_left (fun acc k =>
      fold_left (fun acc sq => N.lxor acc (piece_value sq k side)) (bits_of (bits_for_piece b k side)) acc)
      PIECE_ALL acc) sides h.

Definition piece_board_value (pb nb : pbs) : N :=
  fold_left (fun acc side =>
    fold_left (fun acc k =>
      let diff := N.lxor (bits_for_piece pb k side) (bits_for_piece nb k side) in
      fold_left (fun acc sq => N.lxor acc (piece_value sq k side)) (bits_of diff) acc)
      PIECE_ALL acc) sides 0.

(* Zobrist::move_piece(&self, prev_game_state, new_piece_board, new_step, new_p1_turn_to_move) *)
Definition z_move_piece (h : N) (prev_side : bool) (prev_board : pbs) (prev_step : N)
           (new_board : pbs) (new_step : N) (new_side : bool) : N :=
  let ptm := if Bool.eqb prev_side new_side then 0 else PLAYER_TO_MOVE in
  N.lxor (N.lxor (N.lxor h ptm) (piece_board_value prev_board new_board))
         (N.lxor (step_val prev_step) (step_val new_step)).

Definition z_place_piece (h : N) (k : piece) (s : square) (place_is_p1 switch_players switch_phases : bool) : N :=
  let ptm := if switch_players || switch_phases then PLAYER_TO_MOVE else 0 in
  let sv := if switch_phases then step_val 0 else 0 in
  N.lxor (N.lxor (N.lxor h ptm) (piece_value s k place_is_p1)) sv.

Definition z_pass (h step : N) : N := N.lxor (N.lxor (N.lxor h PLAYER_TO_MOVE) (step_val 0)) (step_val step).
Definition z_exclude_step (h step : N) : N := N.lxor (N.lxor h (step_val 0)) (step_val step).
