(* The mirror of engine.rs: same functions, same order of list construction, same short-circuits.
   Panics of the Rust code are totalised here (a default value is returned); the exact panic
   conditions are the boolean guards of model/Safety.v. *)
From Coq Require Import NArith List Bool.
From Arimaa Require Import Types U64 GenMasks GenEnums GenZobrist Board Zobrist.
Import ListNotations.
Open Scope N_scope.

Inductive action := Place (k : piece) | Move (s : square) (d : dir) | Pass.

Definition action_eqb (a b : action) : bool :=
  match a, b with
  | Place k, Place k' => piece_eqb k k'
  | Move s d, Move s' d' => (s =? s') && dir_eqb d d'
  | Pass, Pass => true
  | _, _ => false
  end.

Inductive pps := PPNone | PossiblePull (s : square) (k : piece) | MustCompletePush (s : square) (k : piece).

Definition pps_eqb (a b : pps) : bool :=
  match a, b with
  | PPNone, PPNone => true
  | PossiblePull s k, PossiblePull s' k' => (s =? s') && piece_eqb k k'
  | MustCompletePush s k, MustCompletePush s' k' => (s =? s') && piece_eqb k k'
  | _, _ => false
  end.

Record play := mkplay {
  prev : list pbs;          (* previous_piece_boards_this_move, oldest first *)
  pstate : pps;             (* push_pull_state *)
  init_hash : N;            (* initial_hash_of_move *)
  hist : list N;            (* hash_history, newest first (List::append conses at the head) *)
  trapped : bool }.         (* piece_trapped_this_turn *)

Inductive phase := PlacePhase | PlayPhase (pp : play).

Record state := mkstate {
  side : bool;              (* p1_turn_to_move *)
  move_no : N;
  ph : phase;
  board : pbs;
  hash : N }.

Inductive terminal := GoldWin | SilverWin.

Definition play_initial (h : N) (hh : list N) : play := mkplay [] PPNone h hh false.
Definition step_of (pp : play) : N := N.of_nat (length (prev pp)).

Definition initial : state := mkstate true 1 PlacePhase empty_board INITIAL.

Definition is_mcp (p : pps) : bool := match p with MustCompletePush _ _ => true | _ => false end.

Definition as_play_phase (s : state) : option play := match ph s with PlayPhase pp => Some pp | PlacePhase => None end.
(* unwrap_play_phase: panics in setup; totalised with an empty record *)
Definition dummy_play : play := mkplay [] PPNone 0 [] false.
Definition unwrap_play_phase (s : state) : play := match ph s with PlayPhase pp => pp | PlacePhase => dummy_play end.
Definition current_step (s : state) : N := step_of (unwrap_play_phase s).

Definition curr_player_piece_mask (s : state) (b : pbs) : N :=
  if side s then p1 b else N.land (bnot (p1 b)) (allp b).
Definition opponent_piece_mask (s : state) (b : pbs) : N :=
  if side s then N.land (bnot (p1 b)) (allp b) else p1 b.

Definition threatened_pieces (predator prey : N) (b : pbs) : N :=
  let e_inf := influenced_squares (N.land (el b) predator) in
  let m_inf := influenced_squares (N.land (ca b) predator) in
  let h_inf := influenced_squares (N.land (ho b) predator) in
  let d_inf := influenced_squares (N.land (dg b) predator) in
  let c_inf := influenced_squares (N.land (ct b) predator) in
  let camel_threats := e_inf in
  let horse_threats := N.lor camel_threats m_inf in
  let dog_threats := N.lor horse_threats h_inf in
  let cat_threats := N.lor dog_threats d_inf in
  let rabbit_threats := N.lor cat_threats c_inf in
  let t := N.lor (N.lor (N.lor (N.lor (N.land (ca b) camel_threats) (N.land (ho b) horse_threats))
                               (N.land (dg b) dog_threats)) (N.land (ct b) cat_threats))
                 (N.land (rb b) rabbit_threats) in
  N.land t prey.

Definition curr_player_non_frozen_pieces (s : state) (b : pbs) : N :=
  let opp := opponent_piece_mask s b in
  let cur := N.land (bnot opp) (allp b) in
  let thr := threatened_pieces opp cur b in
  N.land cur (N.lor (bnot thr) (supported_pieces cur)).

Definition invalid_rabbit_moves (s : state) (d : dir) (b : pbs) : N :=
  let backward := if side s then Down else Up in
  if dir_eqb d backward then
    N.land (if side s then p1 b else bnot (p1 b)) (rb b)
  else 0.

Definition lesser_pieces (k : piece) (b : pbs) : N :=
  match k with
  | Rabbit => 0
  | Cat => rb b
  | Dog => N.lor (rb b) (ct b)
  | Horse => N.lor (N.lor (rb b) (ct b)) (dg b)
  | Camel => N.lor (N.lor (N.lor (rb b) (ct b)) (dg b)) (ho b)
  | Elephant => N.lor (N.lor (N.lor (N.lor (rb b) (ct b)) (dg b)) (ho b)) (ca b)
  end.

Definition moves_of (bits : N) (d : dir) : list action := map (fun sq => Move sq d) (bits_of bits).

Definition extend_with_valid_curr_player_piece_moves (s : state) (b : pbs) : list action :=
  let nf := curr_player_non_frozen_pieces s b in
  flat_map (fun d =>
    let v := N.land (N.land (can_move_in_direction d b) nf) (bnot (invalid_rabbit_moves s d b)) in
    moves_of v d) DIR_ALL.

Definition contains (l : list action) (a : action) : bool := existsb (action_eqb a) l.

(* appends to `acc` exactly as the Rust loop does (the `contains` test sees the actions already present) *)
Definition extend_with_pull_piece_actions (s : state) (b : pbs) (acc : list action) : list action :=
  match as_play_phase s with
  | Some pp =>
    match pstate pp with
    | PossiblePull sq k =>
      let lesser := N.land (lesser_pieces k b) (opponent_piece_mask s b) in
      let bit := sq_as_bit_board sq in
      fold_left (fun acc d =>
        if negb (N.land (shift_pieces_in_direction lesser d) bit =? 0) then
          let a := Move (sq_from_bit_board (shift_pieces_in_opp_direction bit d)) d in
          if contains acc a then acc else acc ++ [a]
        else acc) DIR_ALL acc
    | _ => acc
    end
  | None => acc
  end.

Definition extend_with_push_piece_actions (s : state) (b : pbs) : list action :=
  match as_play_phase s with
  | Some pp =>
    if negb (is_mcp (pstate pp)) && (step_of pp <? 3) then
      let pred := curr_player_non_frozen_pieces s b in
      let opp := opponent_piece_mask s b in
      let thr := threatened_pieces pred opp b in
      if negb (thr =? 0) then
        flat_map (fun d => moves_of (N.land (can_move_in_direction d b) thr) d) DIR_ALL
      else []
    else []
  | None => []
  end.

Definition must_complete_push_actions (s : state) (b : pbs) : list action :=
  match pstate (unwrap_play_phase s) with
  | MustCompletePush sq pushed =>
    let nf := curr_player_non_frozen_pieces s b in
    let bit := sq_as_bit_board sq in
    flat_map (fun d =>
      let pbit := N.land (shift_pieces_in_opp_direction bit d) nf in
      if negb (pbit =? 0) && piece_gtb (piece_type_at_bit pbit b) pushed
      then [Move (sq_from_bit_board pbit) d] else []) DIR_ALL
  | _ => []        (* panic!("Expected PushPullState to be MustCompletePush") *)
  end.

Definition count_hash (h : N) (l : list N) : nat := length (filter (N.eqb h) l).
Definition hash_history_contains_hash_twice (l : list N) (h : N) : bool := Nat.leb 2 (count_hash h l).

Definition can_pass (s : state) (check_rep : bool) : bool :=
  match as_play_phase s with
  | None => false
  | Some pp =>
    (1 <=? step_of pp) && negb (is_mcp (pstate pp)) &&
    (negb check_rep ||
     (negb (init_hash pp =? z_exclude_step (hash s) (step_of pp)) &&
      negb (hash_history_contains_hash_twice (hist pp) (z_pass (hash s) (step_of pp)))))
  end.

Definition is_passing_like_action (s : state) (a : action) : bool :=
  let pp := unwrap_play_phase s in
  match a with
  | Move sq d =>
    let nb := fst (pb_take_move (board s) sq d) in
    let h_same := z_move_piece (hash s) (side s) (board s) (current_step s) nb 0 (side s) in
    let h_switch := z_move_piece (hash s) (side s) (board s) (current_step s) nb 0 (negb (side s)) in
    (h_same =? init_hash pp) || hash_history_contains_hash_twice (hist pp) h_switch
  | _ => false
  end.

Definition remove_passing_like_actions (s : state) (l : list action) : list action :=
  let pp := unwrap_play_phase s in
  if (step_of pp =? 3) && negb (trapped pp) then filter (fun a => negb (is_passing_like_action s a)) l else l.

Definition has_non_passing_like_action (s : state) (l : list action) : bool :=
  match l with
  | [] => false
  | _ =>
    let pp := unwrap_play_phase s in
    if (step_of pp <? 3) || trapped pp then true
    else existsb (fun a => negb (is_passing_like_action s a)) l
  end.

Definition valid_placement (s : state) : list action :=
  let b := board s in
  let cur := curr_player_piece_mask s b in
  (if N.land (el b) cur =? 0 then [Place Elephant] else []) ++
  (if N.land (ca b) cur =? 0 then [Place Camel] else []) ++
  (if count_ones (N.land (ho b) cur) <? 2 then [Place Horse] else []) ++
  (if count_ones (N.land (dg b) cur) <? 2 then [Place Dog] else []) ++
  (if count_ones (N.land (ct b) cur) <? 2 then [Place Cat] else []) ++
  (if count_ones (N.land (rb b) cur) <? 8 then [Place Rabbit] else []).

Definition valid_actions_ (s : state) (check_rep : bool) : list action :=
  match ph s with
  | PlayPhase pp =>
    let b := board s in
    let va :=
      if is_mcp (pstate pp) then must_complete_push_actions s b
      else
        let v := extend_with_push_piece_actions s b in
        let v := extend_with_pull_piece_actions s b v in
        let v := v ++ extend_with_valid_curr_player_piece_moves s b in
        if can_pass s check_rep then v ++ [Pass] else v in
    if check_rep then remove_passing_like_actions s va else va
  | PlacePhase => valid_placement s
  end.

Definition valid_actions (s : state) := valid_actions_ s true.
Definition valid_actions_no_rep (s : state) := valid_actions_ s false.

Definition loss_for_mover (s : state) : terminal := if side s then SilverWin else GoldWin.

Definition has_move (s : state) (b : pbs) : option terminal :=
  let hm :=
    match ph s with
    | PlayPhase pp =>
      if is_mcp (pstate pp) then has_non_passing_like_action s (must_complete_push_actions s b)
      else if can_pass s true then true
      else if has_non_passing_like_action s (extend_with_valid_curr_player_piece_moves s b) then true
      else if has_non_passing_like_action s (extend_with_pull_piece_actions s b []) then true
      else if has_non_passing_like_action s (extend_with_push_piece_actions s b) then true
      else false
    | PlacePhase => true
    end in
  if hm then None else Some (loss_for_mover s).

Definition won_by (p1_won : bool) : terminal := if p1_won then GoldWin else SilverWin.

Definition rabbit_at_goal (s : state) (b : pbs) : option terminal :=
  let p1_met := negb (N.land (N.land (p1 b) (rb b)) P1_OBJECTIVE_MASK =? 0) in
  let p2_met := negb (N.land (N.land (bnot (p1 b)) (rb b)) P2_OBJECTIVE_MASK =? 0) in
  if p1_met || p2_met then
    let last_is_p1 := negb (side s) in
    let last_met := if last_is_p1 then p1_met else p2_met in
    Some (won_by (negb (xorb last_is_p1 last_met)))
  else None.

Definition lost_all_rabbits (s : state) (b : pbs) : option terminal :=
  let p1_lost := N.land (p1 b) (rb b) =? 0 in
  let p2_lost := N.land (bnot (p1 b)) (rb b) =? 0 in
  if p1_lost || p2_lost then
    let last_is_p1 := negb (side s) in
    let last_met := if last_is_p1 then p2_lost else p1_lost in
    Some (won_by (negb (xorb last_is_p1 last_met)))
  else None.

Definition or_else {A} (a : option A) (b : option A) : option A := match a with Some _ => a | None => b end.

Definition is_terminal (s : state) : option terminal :=
  match as_play_phase s with
  | None => None
  | Some pp =>
    let b := board s in
    if 0 <? step_of pp then has_move s b
    else or_else (rabbit_at_goal s b) (or_else (lost_all_rabbits s b) (has_move s b))
  end.

Definition is_their_piece (s : state) (bit : N) (b : pbs) : bool :=
  xorb (side s) (negb (N.land bit (p1 b) =? 0)).

Definition move_can_be_counted_as_pull (s : state) (new_bit : N) (d : dir) (b : pbs) : bool :=
  match pstate (unwrap_play_phase s) with
  | PossiblePull psq my_piece =>
    if sq_as_bit_board psq =? shift_in_direction new_bit d then
      piece_gtb my_piece (piece_type_at_bit new_bit b)
    else false
  | _ => false
  end.

Definition next_push_pull_state (s : state) (sq : square) (d : dir) : pps :=
  let bit := sq_as_bit_board sq in
  let b := board s in
  let opp := is_their_piece s bit b in
  let pp := unwrap_play_phase s in
  let k := piece_type_at_bit bit b in
  if opp && negb (move_can_be_counted_as_pull s bit d b) then MustCompletePush sq k
  else if negb opp && negb (is_mcp (pstate pp)) && negb (piece_eqb k Rabbit) then PossiblePull sq k
  else PPNone.

Definition place (s : state) (k : piece) : state :=
  let b := board s in
  let bit := placement_bit b in
  let add (t : piece) (x : N) := if piece_eqb k t then N.lor x bit else x in
  let np1 := N.lor (p1 b) (if side s then bit else 0) in
  let nb := pb_new np1 (add Elephant (el b)) (add Camel (ca b)) (add Horse (ho b))
                   (add Dog (dg b)) (add Cat (ct b)) (add Rabbit (rb b)) in
  let switch_players := bit =? LAST_P1_PLACEMENT_MASK in
  let switch_phases := bit =? LAST_P2_PLACEMENT_MASK in
  let nside := if switch_players then false else if switch_phases then true else side s in
  let nh := z_place_piece (hash s) k (sq_from_bit_board bit) (side s) switch_players switch_phases in
  let nph := if switch_phases then PlayPhase (play_initial nh [nh]) else PlacePhase in
  mkstate nside (if switch_phases then 2 else 1) nph nb nh.

Definition pass (s : state) : state :=
  let h := z_pass (hash s) (current_step s) in
  let pp := unwrap_play_phase s in
  let nh := (if trapped pp then [] else hist pp) in
  mkstate (negb (side s)) (wadd (move_no s) (if side s then 0 else 1))
          (PlayPhase (play_initial h (h :: nh))) (board s) h.

Definition move_piece (s : state) (sq : square) (d : dir) : state :=
  let pp := unwrap_play_phase s in
  let cs := current_step s in
  let last := 3 <=? cs in
  let '(nb, was_trapped) := pb_take_move (board s) sq d in
  let nside := if last then negb (side s) else side s in
  let nstep := if last then 0 else cs + 1 in
  let nmove := wadd (move_no s) (if last && nside then 1 else 0) in
  let nh := z_move_piece (hash s) (side s) (board s) cs nb nstep nside in
  let nhist := if was_trapped then [] else hist pp in
  let npp :=
    if last then play_initial nh (nh :: nhist)
    else mkplay (prev pp ++ [board s]) (next_push_pull_state s sq d) (init_hash pp) nhist
                (trapped pp || was_trapped) in
  mkstate nside nmove (PlayPhase npp) nb nh.

Definition take_action (s : state) (a : action) : state :=
  match a with
  | Pass => pass s
  | Place k => place s k
  | Move sq d => move_piece s sq d
  end.

Definition trapped_animal_for_action (s : state) (a : action) : option (square * piece * bool) :=
  match a with
  | Move sq d =>
    let b := pb_move_piece (board s) sq d in
    let t := trapped_piece_bits b in
    if negb (t =? 0) then
      let tsq := sq_from_bit_board t in
      (* piece_type_at_square(..).unwrap(): cannot fail since tsq is the lowest set bit of t ⊆ all_pieces *)
      let k := match piece_type_at_square b tsq with Some k => k | None => Cat end in
      Some (tsq, k, negb (N.land (bits_for_piece b k true) (sq_as_bit_board tsq) =? 0))
    else None
  | _ => None
  end.

Definition piece_board_for_step (s : state) (i : N) : pbs :=
  if i =? current_step s then board s
  else nth (N.to_nat i) (prev (unwrap_play_phase s)) empty_board.

Definition transposition_hash (s : state) : N :=
  match ph s with
  | PlayPhase pp =>
    N.lxor (hash s) (match pstate pp with
                     | MustCompletePush sq k => push_piece_value sq k
                     | PossiblePull sq k => pull_piece_value sq k
                     | PPNone => 0 end)
  | PlacePhase => hash s
  end.

(* impl PartialEq / Hash for GameState: both look only at the board-state hash *)
Definition state_eqb (a b : state) : bool := hash a =? hash b.
