(* One boolean guard per panic site of the crate; `*_safe` is their conjunction along each public call.
   Sites (file:line of /repo at the pinned commit, see DESIGN section 4, C19):
     square.rs   `1 << self.0`                      shift overflow (debug) when the index is >= 64
     bit_manip   `1 << trailing_zeros(bits)`        shift overflow when bits = 0 (placement_bit)
     zobrist.rs  STEP_VALUES[step]                  index out of bounds when step > 3
     zobrist.rs  SQUARE/PUSH/PULL_VALUES[..][sq]    index out of bounds when the square is >= 64
     zobrist.rs  push_piece_value(Elephant), pull_piece_value(Rabbit)   explicit panic!
     engine.rs   unwrap_play_phase / unwrap_must_complete_push / take_action(non-Move)   explicit panic / expect
     engine.rs   previous_piece_boards_this_move[i] index out of bounds when i >= step (and i <> step)
     engine.rs   move_number + 1                    overflow (debug) at usize::MAX        (finding F4) *)
From Coq Require Import NArith List Bool.
From Arimaa Require Import Types U64 GenMasks GenEnums Board Engine.
Import ListNotations.
Open Scope N_scope.

Definition status_safe (p : pps) : bool :=
  match p with
  | PPNone => true
  | PossiblePull s k => (s <? 64) && negb (piece_eqb k Rabbit)
  | MustCompletePush s k => (s <? 64) && negb (piece_eqb k Elephant)
  end.

Definition action_safe (a : action) : bool := match a with Move s _ => s <? 64 | _ => true end.

(* squares_to_place of placement_bit must be non-zero *)
Definition placement_safe (b : pbs) : bool :=
  let mask := if N.land (p1 b) P1_PLACEMENT_MASK =? P1_PLACEMENT_MASK then P2_PLACEMENT_MASK else P1_PLACEMENT_MASK in
  negb (N.land (bnot (allp b)) mask =? 0).

(* every query named in C19 (lists, result, can_pass, has_move, hashes, printing, previews of listed actions) *)
Definition queries_safe (s : state) : bool :=
  match ph s with
  | PlacePhase => true
  | PlayPhase pp => (step_of pp <=? 3) && status_safe (pstate pp)
  end.

(* applying action a *)
Definition apply_safe (s : state) (a : action) : bool :=
  match ph s, a with
  | PlacePhase, Place _ => placement_safe (board s)
  | PlayPhase pp, Move sq _ => (sq <? 64) && (step_of pp <=? 3) && status_safe (pstate pp) &&
                               ((step_of pp <? 3) || side s || (move_no s + 1 <? P64))
  | PlayPhase pp, Pass => (step_of pp <=? 3) && (side s || (move_no s + 1 <? P64))
  | _, _ => false          (* Place in play / Move, Pass in setup: unwrap_play_phase panics *)
  end.

(* piece_board_for_step(i) *)
Definition board_for_step_safe (s : state) (i : N) : bool :=
  match ph s with PlayPhase pp => i <=? step_of pp | PlacePhase => false end.
