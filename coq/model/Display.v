(* display.rs: the diagram printer and parser, on lists of Unicode code points. *)
From Coq Require Import NArith List Bool String Ascii.
From Arimaa Require Import Types U64 GenMasks GenEnums GenUnicode GenZobrist Board Zobrist Engine Notation.
Import ListNotations.
Open Scope N_scope.

Definition str (s : string) : text := map N_of_ascii (list_ascii_of_string s).

Definition in_ranges (c : N) (t : list (N * N)) : bool := existsb (fun r => (fst r <=? c) && (c <=? snd r)) t.
Definition is_space (c : N) : bool := in_ranges c WHITE_SPACE.      (* regex \s, Unicode mode *)
Definition is_digit (c : N) : bool := in_ranges c DECIMAL_NUMBER.   (* regex \d, Unicode mode *)

Definition to_ascii_lower (c : N) : N := if (65 <=? c) && (c <=? 90) then c + 32 else c.
Definition is_ascii_upper (c : N) : bool := (65 <=? c) && (c <=? 90).

Definition convert_piece_to_letter (k : piece) (is_p1 : bool) : N :=
  if is_p1 then diagram_upper_letter k else to_ascii_lower (diagram_upper_letter k).

Definition is_p1_piece (bit : N) (b : pbs) : bool := negb (N.land bit (player_piece_mask b true) =? 0).

Definition square_letter (b : pbs) (idx : N) : N :=
  match piece_type_at_square b idx with
  | Some k => convert_piece_to_letter k (is_p1_piece (sq_as_bit_board idx) b)
  | None => if existsb (N.eqb idx) DIAGRAM_TRAP_INDICES then 120 (* x *) else 32
  end.

Definition idx8 : list N := [0;1;2;3;4;5;6;7].

Definition print_row (b : pbs) (row_idx : N) : text :=
  print_dec (BOARD_HEIGHT - row_idx) ++ [124] ++
  flat_map (fun col_idx => [32; square_letter b ((row_idx * BOARD_WIDTH + col_idx) mod 256)]) idx8 ++
  str " |" ++ [10].

Definition border : text := str " +-----------------+" ++ [10].
Definition footer : text := str "   a b c d e f g h" ++ [10].

Definition print_state (s : state) : text :=
  print_dec (move_no s) ++ [if side s then 103 else 115] ++ [10] ++
  border ++ flat_map (print_row (board s)) idx8 ++ border ++ footer.

(* ---- parsing ---- *)
(* str::split('|'): always at least one segment *)
Fixpoint split_on (sep : N) (t : text) : list text :=
  match t with
  | [] => [[]]
  | c :: r =>
    if c =? sep then [] :: split_on sep r
    else match split_on sep r with
         | seg :: segs => (c :: seg) :: segs
         | [] => [[c]]     (* unreachable *)
         end
  end.

Fixpoint odd_elems {A} (l : list A) : list A :=       (* elements at indices 1, 3, 5, ... *)
  match l with
  | _ :: x :: r => x :: odd_elems r
  | _ => []
  end.

Fixpoint drop_while (p : N -> bool) (t : text) : text :=
  match t with c :: r => if p c then drop_while p r else t | [] => [] end.
Fixpoint take_while (p : N -> bool) (t : text) : text :=
  match t with c :: r => if p c then c :: take_while p r else [] | [] => [] end.

(* the matcher for ^\s*(\d+)([gswb]) : whitespace and digits are disjoint classes and the side
   letters are not digits, so greedy matching never needs to backtrack *)
Definition header_match (seg : text) : option (text * N) :=
  let t := drop_while is_space seg in
  let ds := take_while is_digit t in
  match ds with
  | [] => None
  | _ => match drop_while is_digit t with
         | c :: _ => if existsb (N.eqb c) [103; 115; 119; 98] then Some (ds, c) else None
         | [] => None
         end
  end.

(* str::parse::<usize>() of a non-empty run of \d characters: Err on a non-ASCII digit or on overflow *)
Definition parse_usize (ds : text) : option N :=
  if forallb is_ascii_digit ds then
    let v := fold_left (fun acc c => acc * 10 + (c - 48)) ds 0 in
    if v <? P64 then Some v else None
  else None.

Fixpoint enumerate_from {A} (i : N) (l : list A) : list (N * A) :=
  match l with [] => [] | x :: r => (i, x) :: enumerate_from (i + 1) r end.

Record acc7 := mkacc { a_p1 : N; a_e : N; a_m : N; a_h : N; a_d : N; a_c : N; a_r : N; a_panic : bool; a_oob : bool }.

Definition add_piece (a : acc7) (k : piece) (is_p1 : bool) (bit : N) : acc7 :=
  let f (t : piece) (x : N) := if piece_eqb k t then N.lor x bit else x in
  mkacc (if is_p1 then N.lor (a_p1 a) bit else a_p1 a)
        (f Elephant (a_e a)) (f Camel (a_m a)) (f Horse (a_h a)) (f Dog (a_d a)) (f Cat (a_c a)) (f Rabbit (a_r a))
        (a_panic a) (a_oob a).

Definition scan_cell (row_idx col_idx c : N) (a : acc7) : acc7 :=
  match assoc c diagram_piece_of_letter_table with
  | Some k =>
    let idx := (row_idx * BOARD_WIDTH + col_idx) mod 256 in
    let a' := add_piece a k (is_ascii_upper c) (sq_as_bit_board idx) in
    mkacc (a_p1 a') (a_e a') (a_m a') (a_h a') (a_d a') (a_c a') (a_r a')
          (a_panic a || (64 <=? idx))
          (a_oob a || (BOARD_HEIGHT <=? row_idx) || (BOARD_WIDTH <=? col_idx))
  | None => a
  end.

Definition scan_board (lines : list text) : acc7 :=
  fold_left (fun a rl =>
    fold_left (fun a cc => scan_cell (fst rl) (fst cc) (snd cc) a)
              (enumerate_from 0 (odd_elems (snd rl))) a)
    (enumerate_from 0 lines) (mkacc 0 0 0 0 0 0 0 false false).

Definition state_of_parse (p1_to_move : bool) (mv : N) (a : acc7) : state :=
  let b := pb_new (a_p1 a) (a_e a) (a_m a) (a_h a) (a_d a) (a_c a) (a_r a) in
  let h := z_from_piece_board b p1_to_move 0 in
  mkstate p1_to_move mv (PlayPhase (play_initial h [h])) b h.

(* GameState::from_str, original code *)
Definition parse_state_orig (dbg : bool) (t : text) : outcome state :=
  let segs := split_on 124 t in
  let lines := odd_elems segs in
  let hdr := match segs with s :: _ => s | [] => [] end in
  let header : outcome (N * bool) :=
    match header_match hdr with
    | None => Ok (DIAGRAM_DEFAULT_MOVE, DIAGRAM_DEFAULT_P1)
    | Some (ds, c) =>
      match parse_usize ds with
      | Some v => Ok (v, negb (existsb (N.eqb c) DIAGRAM_SILVER_LETTERS))
      | None => Panic                              (* .parse().unwrap() *)
      end
    end in
  match header with
  | Panic => Panic
  | Err => Err
  | Ok (mv, p1tm) =>
    let a := scan_board lines in
    if dbg && a_panic a then Panic                 (* 1 << idx with idx >= 64 *)
    else Ok (state_of_parse p1tm mv a)
  end.

(* the repaired code: parse errors are returned, pieces outside the 8x8 board are rejected *)
Definition parse_state_fixed (t : text) : outcome state :=
  let segs := split_on 124 t in
  let lines := odd_elems segs in
  let hdr := match segs with s :: _ => s | [] => [] end in
  let header : outcome (N * bool) :=
    match header_match hdr with
    | None => Ok (DIAGRAM_DEFAULT_MOVE, DIAGRAM_DEFAULT_P1)
    | Some (ds, c) =>
      match parse_usize ds with
      | Some v => Ok (v, negb (existsb (N.eqb c) DIAGRAM_SILVER_LETTERS))
      | None => Err
      end
    end in
  match header with
  | Panic => Panic
  | Err => Err
  | Ok (mv, p1tm) =>
    let a := scan_board lines in
    if a_oob a then Err else Ok (state_of_parse p1tm mv a)
  end.
