(* Numeric trace protocol shared by the Rust harness and the extracted model driver.
   Everything is a line: a tag character followed by numbers (printed in hex by both sides). *)
From Coq Require Import NArith List Bool.
From Arimaa Require Import Types U64 GenMasks GenEnums GenZobrist Board Zobrist Engine Notation Display.
Import ListNotations.
Open Scope N_scope.

(* fixed codes of the protocol (independent of declaration order in the crate) *)
Definition piece_code (k : piece) : N :=
  match k with Rabbit => 0 | Cat => 1 | Dog => 2 | Horse => 3 | Camel => 4 | Elephant => 5 end.
Definition piece_of_code (n : N) : option piece :=
  match n with 0 => Some Rabbit | 1 => Some Cat | 2 => Some Dog | 3 => Some Horse | 4 => Some Camel | 5 => Some Elephant | _ => None end.
Definition dir_code (d : dir) : N := match d with Up => 0 | Right => 1 | Down => 2 | Left => 3 end.
Definition dir_of_code (n : N) : option dir :=
  match n with 0 => Some Up | 1 => Some Right | 2 => Some Down | 3 => Some Left | _ => None end.

Definition enc_action (a : action) : N :=
  match a with
  | Pass => 0
  | Place k => 1 + piece_code k
  | Move s d => 16 + s * 4 + dir_code d
  end.
Definition dec_action (n : N) : option action :=
  if n =? 0 then Some Pass
  else if n <? 7 then option_map Place (piece_of_code (n - 1))
  else if n <? 16 then None
  else option_map (Move ((n - 16) / 4)) (dir_of_code ((n - 16) mod 4)).

Definition enc_bool (b : bool) : N := if b then 1 else 0.
Definition enc_pbs (b : pbs) : list N := [p1 b; allp b; el b; ca b; ho b; dg b; ct b; rb b].
Definition enc_pps (p : pps) : list N :=
  match p with
  | PPNone => [0; 0; 0]
  | PossiblePull s k => [1; s; piece_code k]
  | MustCompletePush s k => [2; s; piece_code k]
  end.
Definition enc_terminal (t : option terminal) : N :=
  match t with None => 0 | Some GoldWin => 1 | Some SilverWin => 2 end.

Definition enc_state (s : state) : list N :=
  enc_pbs (board s) ++ [enc_bool (side s); move_no s; hash s] ++
  match ph s with
  | PlacePhase => [0]
  | PlayPhase pp =>
    [1] ++ enc_pps (pstate pp) ++ [enc_bool (trapped pp); init_hash pp] ++
    [N.of_nat (length (prev pp))] ++ flat_map enc_pbs (prev pp) ++
    [N.of_nat (length (hist pp))] ++ hist pp
  end.

(* ---- decoding (for the monitors, which run on the implementation's own observations) ---- *)
Definition dec_pbs (l : list N) : option (pbs * list N) :=
  match l with
  | a :: b :: c :: d :: e :: f :: g :: h :: r => Some (mkpbs a b c d e f g h, r)
  | _ => None
  end.
Fixpoint dec_pbs_list (n : nat) (l : list N) : option (list pbs * list N) :=
  match n with
  | O => Some ([], l)
  | S n' => match dec_pbs l with
            | Some (b, r) => match dec_pbs_list n' r with Some (bs, r') => Some (b :: bs, r') | None => None end
            | None => None
            end
  end.
Definition dec_pps (k s p : N) : option pps :=
  match k with
  | 0 => Some PPNone
  | 1 => option_map (PossiblePull s) (piece_of_code p)
  | 2 => option_map (MustCompletePush s) (piece_of_code p)
  | _ => None
  end.
Definition dec_state (l : list N) : option state :=
  match dec_pbs l with
  | Some (b, sd :: mv :: h :: phs :: r) =>
    match phs with
    | 0 => Some (mkstate (negb (sd =? 0)) mv PlacePhase b h)
    | _ =>
      match r with
      | k :: s :: p :: tr :: ih :: np :: r2 =>
        match dec_pps k s p, dec_pbs_list (N.to_nat np) r2 with
        | Some st, Some (pv, nh :: hh) =>
          if N.of_nat (length hh) =? nh then
            Some (mkstate (negb (sd =? 0)) mv (PlayPhase (mkplay pv st ih hh (negb (tr =? 0)))) b h)
          else None
        | _, _ => None
        end
      | _ => None
      end
    end
  | _ => None
  end.

Definition enc_preview (p : option (square * piece * bool)) : N :=
  match p with
  | None => 0
  | Some (s, k, o) => 1 + (s * 8 + piece_code k) * 2 + enc_bool o
  end.

Definition enc_outcome {A} (f : A -> list N) (o : outcome A) : list N :=
  match o with Err => [0] | Panic => [1] | Ok a => 2 :: f a end.

(* which version of the text parsers describes the current /repo (see DESIGN §5) *)
(* /repo carries the fix: commits for F1-F3, so the repaired parsers are the model of the code;
   the `_orig` definitions are kept for the `_refuted` lemmas that document the findings *)
Definition parse_square (dbg : bool) := parse_square_fixed.
Definition parse_action (dbg : bool) := parse_action_fixed.
Definition parse_state (dbg : bool) := parse_state_fixed.

(* tags: S state, H transposition hash, F from-scratch hash, V valid_actions, N no-rep,
   T terminal/has_move/can_pass, K previews, B earlier boards, D diagram, R re-parse, E equality *)
Definition tagS := 83. Definition tagH := 72. Definition tagF := 70. Definition tagV := 86.
Definition tagN := 78. Definition tagT := 84. Definition tagK := 75. Definition tagB := 66. Definition tagW := 87. Definition tagL := 76.
Definition tagD := 68. Definition tagR := 82. Definition tagE := 69.

Definition from_scratch (s : state) : N :=
  z_from_piece_board (board s) (side s) (match ph s with PlayPhase pp => step_of pp | PlacePhase => 0 end).

Definition seqN (n : N) : list N := map N.of_nat (seq 0 (N.to_nat n)).

(* the public views of the board (PieceBoardState methods): both player masks, the twelve (kind, owner) boards, the six
   kind boards, the placement bit, the trapped-piece bits, and the kind on each of the 64 squares (0 = none) *)
Definition all_kinds : list piece := [Elephant; Camel; Horse; Dog; Cat; Rabbit].
Definition enc_views (b : pbs) (setup : bool) : list N :=
  [player_piece_mask b true; player_piece_mask b false] ++
  flat_map (fun k => [bits_for_piece b k true; bits_for_piece b k false]) all_kinds ++
  map (bits_by_piece_type b) all_kinds ++
  [(if setup then placement_bit b else 0); trapped_piece_bits b] ++      (* placement bit: only meaningful (and only observed) in setup *)
  map (fun i => match piece_type_at_square b i with Some k => 1 + piece_code k | None => 0 end) sq64.

Definition observe (dbg : bool) (s : state) : list (N * list N) :=
  let v := valid_actions s in
  let n := valid_actions_no_rep s in
  [ (tagS, enc_state s);
    (tagH, [transposition_hash s]);
    (tagF, [from_scratch s]);
    (tagV, map enc_action v);
    (tagN, map enc_action n);
    (tagT, [enc_terminal (is_terminal s); enc_terminal (has_move s (board s));
            enc_bool (can_pass s true); enc_bool (can_pass s false)]);
    (tagK, map (fun a => enc_preview (trapped_animal_for_action s a)) n);
    (tagW, enc_views (board s) (match ph s with PlacePhase => true | _ => false end)) ] ++
  (match ph s with
   | PlayPhase pp => map (fun i => (tagB, i :: enc_pbs (piece_board_for_step s i))) (seqN (step_of pp + 1))
   | PlacePhase => []
   end) ++
  let d := print_state s in
  let r := parse_state dbg d in
  [ (tagD, d);
    (tagR, enc_outcome enc_state r);
    (tagE, match r with Ok s' => [enc_bool (state_eqb s s'); transposition_hash s'] | _ => [] end);
    (* Clone::clone_from onto another state yields the source state, field by field *)
    (tagL, enc_state s) ].

(* ---- string cases: Q <parser> <code points> ---- *)
Definition enc_square_full (s : square) : list N := [s].
Definition run_parser (dbg : bool) (which : N) (t : text) : list N :=
  match which with
  | 0 => enc_outcome (fun a => [enc_action a]) (parse_action dbg t)
  | 1 => enc_outcome enc_square_full (parse_square dbg t)
  | 2 => enc_outcome (fun k => [piece_code k]) (parse_piece t)
  | 3 => enc_outcome (fun d => [dir_code d]) (parse_dir t)
  | _ => enc_outcome enc_state (parse_state dbg t)
  end.

(* printed forms, for the round trip on values: P <kind> <value> *)
Definition run_printer (which v : N) : list N :=
  match which with
  | 0 => match dec_action v with Some a => print_action a | None => [] end
  | 1 => print_square v
  | 2 => match piece_of_code v with Some k => print_piece k | None => [] end
  | _ => match dir_of_code v with Some d => print_dir d | None => [] end
  end.

(* square conversions: G <index> -> [as_bit_board; from_bit_board(as_bit_board); column_char; row; new(column,row)] *)
Definition run_square_maps (i : N) : list N :=
  [sq_as_bit_board i; sq_from_bit_board (sq_as_bit_board i); sq_column_char i; sq_row i;
   sq_new (sq_column_char i) (sq_row i)].

(* `I 2` lines: a state built through the public constructors (GameState::new, PlayPhase::new,
   PieceBoard::new) with from-scratch hashes: p1 e m h d c r side move_no step kind sq piece trapped *)
Fixpoint take_boards (n : nat) (l : list N) : list pbs * list N :=
  match n, l with
  | S n', wp1 :: we :: wm :: wh :: wd :: wc :: wr :: r =>
    let '(bs, rest) := take_boards n' r in (pb_new wp1 we wm wh wd wc wr :: bs, rest)
  | _, _ => ([], l)
  end.

Definition state_of_new (l : list N) : option state :=
  match l with
  | wp1 :: we :: wm :: wh :: wd :: wc :: wr :: sd :: mv :: stp :: k :: sq :: pc :: tr :: extra =>
    match dec_pps k sq pc with
    | Some st =>
      let b := pb_new wp1 we wm wh wd wc wr in
      let gold := negb (sd =? 0) in
      let h := z_from_piece_board b gold stp in
      let h0 := z_from_piece_board b gold 0 in
      (* optional tail: explicit turn-start hash; number of earlier boards and their 7 words each (oldest first;
         none = `step` copies of the board); then the repetition history, oldest first *)
      let '(ih, pv, hs) :=
        match extra with
        | [] => (h0, repeat b (N.to_nat stp), [h0])
        | [x] => (x, repeat b (N.to_nat stp), [])
        | x :: np :: r =>
          let boards := take_boards (N.to_nat np) r in
          (x, (if np =? 0 then repeat b (N.to_nat stp) else fst boards), rev (snd boards))
        end in
      Some (mkstate gold mv (PlayPhase (mkplay pv st ih hs (negb (tr =? 0)))) b h)
    | None => None
    end
  | _ => None
  end.
