
(** val xorb : bool -> bool -> bool **)

let xorb b1 b2 =
  if b1 then if b2 then false else true else b2

(** val negb : bool -> bool **)

let negb = function
| true -> false
| false -> true

type nat =
| O
| S of nat

(** val option_map : ('a1 -> 'a2) -> 'a1 option -> 'a2 option **)

let option_map f = function
| Some a -> Some (f a)
| None -> None

(** val fst : ('a1 * 'a2) -> 'a1 **)

let fst = function
| (x, _) -> x

(** val snd : ('a1 * 'a2) -> 'a2 **)

let snd = function
| (_, y) -> y

(** val length : 'a1 list -> nat **)

let rec length = function
| [] -> O
| _ :: l' -> S (length l')

(** val app : 'a1 list -> 'a1 list -> 'a1 list **)

let rec app l m =
  match l with
  | [] -> m
  | a :: l1 -> a :: (app l1 m)

type comparison =
| Eq
| Lt
| Gt

type uint =
| Nil
| D0 of uint
| D1 of uint
| D2 of uint
| D3 of uint
| D4 of uint
| D5 of uint
| D6 of uint
| D7 of uint
| D8 of uint
| D9 of uint

(** val revapp : uint -> uint -> uint **)

let rec revapp d d' =
  match d with
  | Nil -> d'
  | D0 d0 -> revapp d0 (D0 d')
  | D1 d0 -> revapp d0 (D1 d')
  | D2 d0 -> revapp d0 (D2 d')
  | D3 d0 -> revapp d0 (D3 d')
  | D4 d0 -> revapp d0 (D4 d')
  | D5 d0 -> revapp d0 (D5 d')
  | D6 d0 -> revapp d0 (D6 d')
  | D7 d0 -> revapp d0 (D7 d')
  | D8 d0 -> revapp d0 (D8 d')
  | D9 d0 -> revapp d0 (D9 d')

(** val rev : uint -> uint **)

let rev d =
  revapp d Nil

module Little =
 struct
  (** val double : uint -> uint **)

  let rec double = function
  | Nil -> Nil
  | D0 d0 -> D0 (double d0)
  | D1 d0 -> D2 (double d0)
  | D2 d0 -> D4 (double d0)
  | D3 d0 -> D6 (double d0)
  | D4 d0 -> D8 (double d0)
  | D5 d0 -> D0 (succ_double d0)
  | D6 d0 -> D2 (succ_double d0)
  | D7 d0 -> D4 (succ_double d0)
  | D8 d0 -> D6 (succ_double d0)
  | D9 d0 -> D8 (succ_double d0)

  (** val succ_double : uint -> uint **)

  and succ_double = function
  | Nil -> D1 Nil
  | D0 d0 -> D1 (double d0)
  | D1 d0 -> D3 (double d0)
  | D2 d0 -> D5 (double d0)
  | D3 d0 -> D7 (double d0)
  | D4 d0 -> D9 (double d0)
  | D5 d0 -> D1 (succ_double d0)
  | D6 d0 -> D3 (succ_double d0)
  | D7 d0 -> D5 (succ_double d0)
  | D8 d0 -> D7 (succ_double d0)
  | D9 d0 -> D9 (succ_double d0)
 end

module Coq__1 = struct
 (** val add : nat -> nat -> nat **)
 let rec add n0 m =
   match n0 with
   | O -> m
   | S p -> S (add p m)
end
include Coq__1

(** val leb : nat -> nat -> bool **)

let rec leb n0 m =
  match n0 with
  | O -> true
  | S n' -> (match m with
             | O -> false
             | S m' -> leb n' m')

type positive =
| XI of positive
| XO of positive
| XH

type n =
| N0
| Npos of positive

(** val eqb : bool -> bool -> bool **)

let eqb b1 b2 =
  if b1 then b2 else if b2 then false else true

module Pos =
 struct
  type mask =
  | IsNul
  | IsPos of positive
  | IsNeg
 end

module Coq_Pos =
 struct
  (** val succ : positive -> positive **)

  let rec succ = function
  | XI p -> XO (succ p)
  | XO p -> XI p
  | XH -> XO XH

  (** val add : positive -> positive -> positive **)

  let rec add x y =
    match x with
    | XI p ->
      (match y with
       | XI q -> XO (add_carry p q)
       | XO q -> XI (add p q)
       | XH -> XO (succ p))
    | XO p ->
      (match y with
       | XI q -> XI (add p q)
       | XO q -> XO (add p q)
       | XH -> XI p)
    | XH -> (match y with
             | XI q -> XO (succ q)
             | XO q -> XI q
             | XH -> XO XH)

  (** val add_carry : positive -> positive -> positive **)

  and add_carry x y =
    match x with
    | XI p ->
      (match y with
       | XI q -> XI (add_carry p q)
       | XO q -> XO (add_carry p q)
       | XH -> XI (succ p))
    | XO p ->
      (match y with
       | XI q -> XO (add_carry p q)
       | XO q -> XI (add p q)
       | XH -> XO (succ p))
    | XH ->
      (match y with
       | XI q -> XI (succ q)
       | XO q -> XO (succ q)
       | XH -> XI XH)

  (** val pred_double : positive -> positive **)

  let rec pred_double = function
  | XI p -> XI (XO p)
  | XO p -> XI (pred_double p)
  | XH -> XH

  (** val pred_N : positive -> n **)

  let pred_N = function
  | XI p -> Npos (XO p)
  | XO p -> Npos (pred_double p)
  | XH -> N0

  type mask = Pos.mask =
  | IsNul
  | IsPos of positive
  | IsNeg

  (** val succ_double_mask : mask -> mask **)

  let succ_double_mask = function
  | IsNul -> IsPos XH
  | IsPos p -> IsPos (XI p)
  | IsNeg -> IsNeg

  (** val double_mask : mask -> mask **)

  let double_mask = function
  | IsPos p -> IsPos (XO p)
  | x0 -> x0

  (** val double_pred_mask : positive -> mask **)

  let double_pred_mask = function
  | XI p -> IsPos (XO (XO p))
  | XO p -> IsPos (XO (pred_double p))
  | XH -> IsNul

  (** val sub_mask : positive -> positive -> mask **)

  let rec sub_mask x y =
    match x with
    | XI p ->
      (match y with
       | XI q -> double_mask (sub_mask p q)
       | XO q -> succ_double_mask (sub_mask p q)
       | XH -> IsPos (XO p))
    | XO p ->
      (match y with
       | XI q -> succ_double_mask (sub_mask_carry p q)
       | XO q -> double_mask (sub_mask p q)
       | XH -> IsPos (pred_double p))
    | XH -> (match y with
             | XH -> IsNul
             | _ -> IsNeg)

  (** val sub_mask_carry : positive -> positive -> mask **)

  and sub_mask_carry x y =
    match x with
    | XI p ->
      (match y with
       | XI q -> succ_double_mask (sub_mask_carry p q)
       | XO q -> double_mask (sub_mask p q)
       | XH -> IsPos (pred_double p))
    | XO p ->
      (match y with
       | XI q -> double_mask (sub_mask_carry p q)
       | XO q -> succ_double_mask (sub_mask_carry p q)
       | XH -> double_pred_mask p)
    | XH -> IsNeg

  (** val mul : positive -> positive -> positive **)

  let rec mul x y =
    match x with
    | XI p -> add y (XO (mul p y))
    | XO p -> XO (mul p y)
    | XH -> y

  (** val iter : ('a1 -> 'a1) -> 'a1 -> positive -> 'a1 **)

  let rec iter f x = function
  | XI n' -> f (iter f (iter f x n') n')
  | XO n' -> iter f (iter f x n') n'
  | XH -> f x

  (** val compare_cont : comparison -> positive -> positive -> comparison **)

  let rec compare_cont r x y =
    match x with
    | XI p ->
      (match y with
       | XI q -> compare_cont r p q
       | XO q -> compare_cont Gt p q
       | XH -> Gt)
    | XO p ->
      (match y with
       | XI q -> compare_cont Lt p q
       | XO q -> compare_cont r p q
       | XH -> Gt)
    | XH -> (match y with
             | XH -> r
             | _ -> Lt)

  (** val compare : positive -> positive -> comparison **)

  let compare =
    compare_cont Eq

  (** val eqb : positive -> positive -> bool **)

  let rec eqb p q =
    match p with
    | XI p0 -> (match q with
                | XI q0 -> eqb p0 q0
                | _ -> false)
    | XO p0 -> (match q with
                | XO q0 -> eqb p0 q0
                | _ -> false)
    | XH -> (match q with
             | XH -> true
             | _ -> false)

  (** val coq_Nsucc_double : n -> n **)

  let coq_Nsucc_double = function
  | N0 -> Npos XH
  | Npos p -> Npos (XI p)

  (** val coq_Ndouble : n -> n **)

  let coq_Ndouble = function
  | N0 -> N0
  | Npos p -> Npos (XO p)

  (** val coq_lor : positive -> positive -> positive **)

  let rec coq_lor p q =
    match p with
    | XI p0 ->
      (match q with
       | XI q0 -> XI (coq_lor p0 q0)
       | XO q0 -> XI (coq_lor p0 q0)
       | XH -> p)
    | XO p0 ->
      (match q with
       | XI q0 -> XI (coq_lor p0 q0)
       | XO q0 -> XO (coq_lor p0 q0)
       | XH -> XI p0)
    | XH -> (match q with
             | XO q0 -> XI q0
             | _ -> q)

  (** val coq_land : positive -> positive -> n **)

  let rec coq_land p q =
    match p with
    | XI p0 ->
      (match q with
       | XI q0 -> coq_Nsucc_double (coq_land p0 q0)
       | XO q0 -> coq_Ndouble (coq_land p0 q0)
       | XH -> Npos XH)
    | XO p0 ->
      (match q with
       | XI q0 -> coq_Ndouble (coq_land p0 q0)
       | XO q0 -> coq_Ndouble (coq_land p0 q0)
       | XH -> N0)
    | XH -> (match q with
             | XO _ -> N0
             | _ -> Npos XH)

  (** val ldiff : positive -> positive -> n **)

  let rec ldiff p q =
    match p with
    | XI p0 ->
      (match q with
       | XI q0 -> coq_Ndouble (ldiff p0 q0)
       | XO q0 -> coq_Nsucc_double (ldiff p0 q0)
       | XH -> Npos (XO p0))
    | XO p0 ->
      (match q with
       | XI q0 -> coq_Ndouble (ldiff p0 q0)
       | XO q0 -> coq_Ndouble (ldiff p0 q0)
       | XH -> Npos p)
    | XH -> (match q with
             | XO _ -> Npos XH
             | _ -> N0)

  (** val coq_lxor : positive -> positive -> n **)

  let rec coq_lxor p q =
    match p with
    | XI p0 ->
      (match q with
       | XI q0 -> coq_Ndouble (coq_lxor p0 q0)
       | XO q0 -> coq_Nsucc_double (coq_lxor p0 q0)
       | XH -> Npos (XO p0))
    | XO p0 ->
      (match q with
       | XI q0 -> coq_Nsucc_double (coq_lxor p0 q0)
       | XO q0 -> coq_Ndouble (coq_lxor p0 q0)
       | XH -> Npos (XI p0))
    | XH ->
      (match q with
       | XI q0 -> Npos (XO q0)
       | XO q0 -> Npos (XI q0)
       | XH -> N0)

  (** val shiftl : positive -> n -> positive **)

  let shiftl p = function
  | N0 -> p
  | Npos n1 -> iter (fun x -> XO x) p n1

  (** val testbit : positive -> n -> bool **)

  let rec testbit p n0 =
    match p with
    | XI p0 -> (match n0 with
                | N0 -> true
                | Npos n1 -> testbit p0 (pred_N n1))
    | XO p0 -> (match n0 with
                | N0 -> false
                | Npos n1 -> testbit p0 (pred_N n1))
    | XH -> (match n0 with
             | N0 -> true
             | Npos _ -> false)

  (** val iter_op : ('a1 -> 'a1 -> 'a1) -> positive -> 'a1 -> 'a1 **)

  let rec iter_op op p a =
    match p with
    | XI p0 -> op a (iter_op op p0 (op a a))
    | XO p0 -> iter_op op p0 (op a a)
    | XH -> a

  (** val to_nat : positive -> nat **)

  let to_nat x =
    iter_op Coq__1.add x (S O)

  (** val of_succ_nat : nat -> positive **)

  let rec of_succ_nat = function
  | O -> XH
  | S x -> succ (of_succ_nat x)

  (** val to_little_uint : positive -> uint **)

  let rec to_little_uint = function
  | XI p0 -> Little.succ_double (to_little_uint p0)
  | XO p0 -> Little.double (to_little_uint p0)
  | XH -> D1 Nil

  (** val to_uint : positive -> uint **)

  let to_uint p =
    rev (to_little_uint p)
 end

module N =
 struct
  (** val succ_double : n -> n **)

  let succ_double = function
  | N0 -> Npos XH
  | Npos p -> Npos (XI p)

  (** val double : n -> n **)

  let double = function
  | N0 -> N0
  | Npos p -> Npos (XO p)

  (** val add : n -> n -> n **)

  let add n0 m =
    match n0 with
    | N0 -> m
    | Npos p -> (match m with
                 | N0 -> n0
                 | Npos q -> Npos (Coq_Pos.add p q))

  (** val sub : n -> n -> n **)

  let sub n0 m =
    match n0 with
    | N0 -> N0
    | Npos n' ->
      (match m with
       | N0 -> n0
       | Npos m' ->
         (match Coq_Pos.sub_mask n' m' with
          | Coq_Pos.IsPos p -> Npos p
          | _ -> N0))

  (** val mul : n -> n -> n **)

  let mul n0 m =
    match n0 with
    | N0 -> N0
    | Npos p -> (match m with
                 | N0 -> N0
                 | Npos q -> Npos (Coq_Pos.mul p q))

  (** val compare : n -> n -> comparison **)

  let compare n0 m =
    match n0 with
    | N0 -> (match m with
             | N0 -> Eq
             | Npos _ -> Lt)
    | Npos n' -> (match m with
                  | N0 -> Gt
                  | Npos m' -> Coq_Pos.compare n' m')

  (** val eqb : n -> n -> bool **)

  let eqb n0 m =
    match n0 with
    | N0 -> (match m with
             | N0 -> true
             | Npos _ -> false)
    | Npos p -> (match m with
                 | N0 -> false
                 | Npos q -> Coq_Pos.eqb p q)

  (** val leb : n -> n -> bool **)

  let leb x y =
    match compare x y with
    | Gt -> false
    | _ -> true

  (** val ltb : n -> n -> bool **)

  let ltb x y =
    match compare x y with
    | Lt -> true
    | _ -> false

  (** val div2 : n -> n **)

  let div2 = function
  | N0 -> N0
  | Npos p0 -> (match p0 with
                | XI p -> Npos p
                | XO p -> Npos p
                | XH -> N0)

  (** val pos_div_eucl : positive -> n -> n * n **)

  let rec pos_div_eucl a b =
    match a with
    | XI a' ->
      let (q, r) = pos_div_eucl a' b in
      let r' = succ_double r in
      if leb b r' then ((succ_double q), (sub r' b)) else ((double q), r')
    | XO a' ->
      let (q, r) = pos_div_eucl a' b in
      let r' = double r in
      if leb b r' then ((succ_double q), (sub r' b)) else ((double q), r')
    | XH ->
      (match b with
       | N0 -> (N0, (Npos XH))
       | Npos p -> (match p with
                    | XH -> ((Npos XH), N0)
                    | _ -> (N0, (Npos XH))))

  (** val div_eucl : n -> n -> n * n **)

  let div_eucl a b =
    match a with
    | N0 -> (N0, N0)
    | Npos na -> (match b with
                  | N0 -> (N0, a)
                  | Npos _ -> pos_div_eucl na b)

  (** val div : n -> n -> n **)

  let div a b =
    fst (div_eucl a b)

  (** val modulo : n -> n -> n **)

  let modulo a b =
    snd (div_eucl a b)

  (** val coq_lor : n -> n -> n **)

  let coq_lor n0 m =
    match n0 with
    | N0 -> m
    | Npos p -> (match m with
                 | N0 -> n0
                 | Npos q -> Npos (Coq_Pos.coq_lor p q))

  (** val coq_land : n -> n -> n **)

  let coq_land n0 m =
    match n0 with
    | N0 -> N0
    | Npos p -> (match m with
                 | N0 -> N0
                 | Npos q -> Coq_Pos.coq_land p q)

  (** val ldiff : n -> n -> n **)

  let ldiff n0 m =
    match n0 with
    | N0 -> N0
    | Npos p -> (match m with
                 | N0 -> n0
                 | Npos q -> Coq_Pos.ldiff p q)

  (** val coq_lxor : n -> n -> n **)

  let coq_lxor n0 m =
    match n0 with
    | N0 -> m
    | Npos p -> (match m with
                 | N0 -> n0
                 | Npos q -> Coq_Pos.coq_lxor p q)

  (** val shiftl : n -> n -> n **)

  let shiftl a n0 =
    match a with
    | N0 -> N0
    | Npos a0 -> Npos (Coq_Pos.shiftl a0 n0)

  (** val shiftr : n -> n -> n **)

  let shiftr a = function
  | N0 -> a
  | Npos p -> Coq_Pos.iter div2 a p

  (** val testbit : n -> n -> bool **)

  let testbit a n0 =
    match a with
    | N0 -> false
    | Npos p -> Coq_Pos.testbit p n0

  (** val to_nat : n -> nat **)

  let to_nat = function
  | N0 -> O
  | Npos p -> Coq_Pos.to_nat p

  (** val of_nat : nat -> n **)

  let of_nat = function
  | O -> N0
  | S n' -> Npos (Coq_Pos.of_succ_nat n')

  (** val to_uint : n -> uint **)

  let to_uint = function
  | N0 -> D0 Nil
  | Npos p -> Coq_Pos.to_uint p
 end

(** val nth : nat -> 'a1 list -> 'a1 -> 'a1 **)

let rec nth n0 l default =
  match n0 with
  | O -> (match l with
          | [] -> default
          | x :: _ -> x)
  | S m -> (match l with
            | [] -> default
            | _ :: t -> nth m t default)

(** val map : ('a1 -> 'a2) -> 'a1 list -> 'a2 list **)

let rec map f = function
| [] -> []
| a :: t -> (f a) :: (map f t)

(** val flat_map : ('a1 -> 'a2 list) -> 'a1 list -> 'a2 list **)

let rec flat_map f = function
| [] -> []
| x :: t -> app (f x) (flat_map f t)

(** val fold_left : ('a1 -> 'a2 -> 'a1) -> 'a2 list -> 'a1 -> 'a1 **)

let rec fold_left f l a0 =
  match l with
  | [] -> a0
  | b :: t -> fold_left f t (f a0 b)

(** val existsb : ('a1 -> bool) -> 'a1 list -> bool **)

let rec existsb f = function
| [] -> false
| a :: l0 -> (||) (f a) (existsb f l0)

(** val forallb : ('a1 -> bool) -> 'a1 list -> bool **)

let rec forallb f = function
| [] -> true
| a :: l0 -> (&&) (f a) (forallb f l0)

(** val filter : ('a1 -> bool) -> 'a1 list -> 'a1 list **)

let rec filter f = function
| [] -> []
| x :: l0 -> if f x then x :: (filter f l0) else filter f l0

(** val seq : nat -> nat -> nat list **)

let rec seq start = function
| O -> []
| S len0 -> start :: (seq (S start) len0)

(** val repeat : 'a1 -> nat -> 'a1 list **)

let rec repeat x = function
| O -> []
| S k -> x :: (repeat x k)

type ascii =
| Ascii of bool * bool * bool * bool * bool * bool * bool * bool

(** val n_of_digits : bool list -> n **)

let rec n_of_digits = function
| [] -> N0
| b :: l' ->
  N.add (if b then Npos XH else N0) (N.mul (Npos (XO XH)) (n_of_digits l'))

(** val n_of_ascii : ascii -> n **)

let n_of_ascii = function
| Ascii (a0, a1, a2, a3, a4, a5, a6, a7) ->
  n_of_digits
    (a0 :: (a1 :: (a2 :: (a3 :: (a4 :: (a5 :: (a6 :: (a7 :: []))))))))

type string =
| EmptyString
| String of ascii * string

(** val list_ascii_of_string : string -> ascii list **)

let rec list_ascii_of_string = function
| EmptyString -> []
| String (ch, s0) -> ch :: (list_ascii_of_string s0)

type piece =
| Rabbit
| Cat
| Dog
| Horse
| Camel
| Elephant

type dir =
| Up
| Right
| Down
| Left

(** val piece_eqb : piece -> piece -> bool **)

let piece_eqb a b =
  match a with
  | Rabbit -> (match b with
               | Rabbit -> true
               | _ -> false)
  | Cat -> (match b with
            | Cat -> true
            | _ -> false)
  | Dog -> (match b with
            | Dog -> true
            | _ -> false)
  | Horse -> (match b with
              | Horse -> true
              | _ -> false)
  | Camel -> (match b with
              | Camel -> true
              | _ -> false)
  | Elephant -> (match b with
                 | Elephant -> true
                 | _ -> false)

(** val dir_eqb : dir -> dir -> bool **)

let dir_eqb a b =
  match a with
  | Up -> (match b with
           | Up -> true
           | _ -> false)
  | Right -> (match b with
              | Right -> true
              | _ -> false)
  | Down -> (match b with
             | Down -> true
             | _ -> false)
  | Left -> (match b with
             | Left -> true
             | _ -> false)

(** val m64 : n **)

let m64 =
  Npos (XI (XI (XI (XI (XI (XI (XI (XI (XI (XI (XI (XI (XI (XI (XI (XI (XI
    (XI (XI (XI (XI (XI (XI (XI (XI (XI (XI (XI (XI (XI (XI (XI (XI (XI (XI
    (XI (XI (XI (XI (XI (XI (XI (XI (XI (XI (XI (XI (XI (XI (XI (XI (XI (XI
    (XI (XI (XI (XI (XI (XI (XI (XI (XI (XI
    XH)))))))))))))))))))))))))))))))))))))))))))))))))))))))))))))))

(** val p64 : n **)

let p64 =
  Npos (XO (XO (XO (XO (XO (XO (XO (XO (XO (XO (XO (XO (XO (XO (XO (XO (XO
    (XO (XO (XO (XO (XO (XO (XO (XO (XO (XO (XO (XO (XO (XO (XO (XO (XO (XO
    (XO (XO (XO (XO (XO (XO (XO (XO (XO (XO (XO (XO (XO (XO (XO (XO (XO (XO
    (XO (XO (XO (XO (XO (XO (XO (XO (XO (XO (XO
    XH))))))))))))))))))))))))))))))))))))))))))))))))))))))))))))))))

(** val bnot : n -> n **)

let bnot x =
  N.ldiff m64 x

(** val shl : n -> n -> n **)

let shl x k =
  N.coq_land (N.shiftl x k) m64

(** val shr : n -> n -> n **)

let shr =
  N.shiftr

(** val wadd : n -> n -> n **)

let wadd x y =
  N.modulo (N.add x y) p64

(** val sq64 : n list **)

let sq64 =
  N0 :: ((Npos XH) :: ((Npos (XO XH)) :: ((Npos (XI XH)) :: ((Npos (XO (XO
    XH))) :: ((Npos (XI (XO XH))) :: ((Npos (XO (XI XH))) :: ((Npos (XI (XI
    XH))) :: ((Npos (XO (XO (XO XH)))) :: ((Npos (XI (XO (XO XH)))) :: ((Npos
    (XO (XI (XO XH)))) :: ((Npos (XI (XI (XO XH)))) :: ((Npos (XO (XO (XI
    XH)))) :: ((Npos (XI (XO (XI XH)))) :: ((Npos (XO (XI (XI
    XH)))) :: ((Npos (XI (XI (XI XH)))) :: ((Npos (XO (XO (XO (XO
    XH))))) :: ((Npos (XI (XO (XO (XO XH))))) :: ((Npos (XO (XI (XO (XO
    XH))))) :: ((Npos (XI (XI (XO (XO XH))))) :: ((Npos (XO (XO (XI (XO
    XH))))) :: ((Npos (XI (XO (XI (XO XH))))) :: ((Npos (XO (XI (XI (XO
    XH))))) :: ((Npos (XI (XI (XI (XO XH))))) :: ((Npos (XO (XO (XO (XI
    XH))))) :: ((Npos (XI (XO (XO (XI XH))))) :: ((Npos (XO (XI (XO (XI
    XH))))) :: ((Npos (XI (XI (XO (XI XH))))) :: ((Npos (XO (XO (XI (XI
    XH))))) :: ((Npos (XI (XO (XI (XI XH))))) :: ((Npos (XO (XI (XI (XI
    XH))))) :: ((Npos (XI (XI (XI (XI XH))))) :: ((Npos (XO (XO (XO (XO (XO
    XH)))))) :: ((Npos (XI (XO (XO (XO (XO XH)))))) :: ((Npos (XO (XI (XO (XO
    (XO XH)))))) :: ((Npos (XI (XI (XO (XO (XO XH)))))) :: ((Npos (XO (XO (XI
    (XO (XO XH)))))) :: ((Npos (XI (XO (XI (XO (XO XH)))))) :: ((Npos (XO (XI
    (XI (XO (XO XH)))))) :: ((Npos (XI (XI (XI (XO (XO XH)))))) :: ((Npos (XO
    (XO (XO (XI (XO XH)))))) :: ((Npos (XI (XO (XO (XI (XO XH)))))) :: ((Npos
    (XO (XI (XO (XI (XO XH)))))) :: ((Npos (XI (XI (XO (XI (XO
    XH)))))) :: ((Npos (XO (XO (XI (XI (XO XH)))))) :: ((Npos (XI (XO (XI (XI
    (XO XH)))))) :: ((Npos (XO (XI (XI (XI (XO XH)))))) :: ((Npos (XI (XI (XI
    (XI (XO XH)))))) :: ((Npos (XO (XO (XO (XO (XI XH)))))) :: ((Npos (XI (XO
    (XO (XO (XI XH)))))) :: ((Npos (XO (XI (XO (XO (XI XH)))))) :: ((Npos (XI
    (XI (XO (XO (XI XH)))))) :: ((Npos (XO (XO (XI (XO (XI XH)))))) :: ((Npos
    (XI (XO (XI (XO (XI XH)))))) :: ((Npos (XO (XI (XI (XO (XI
    XH)))))) :: ((Npos (XI (XI (XI (XO (XI XH)))))) :: ((Npos (XO (XO (XO (XI
    (XI XH)))))) :: ((Npos (XI (XO (XO (XI (XI XH)))))) :: ((Npos (XO (XI (XO
    (XI (XI XH)))))) :: ((Npos (XI (XI (XO (XI (XI XH)))))) :: ((Npos (XO (XO
    (XI (XI (XI XH)))))) :: ((Npos (XI (XO (XI (XI (XI XH)))))) :: ((Npos (XO
    (XI (XI (XI (XI XH)))))) :: ((Npos (XI (XI (XI (XI (XI
    XH)))))) :: [])))))))))))))))))))))))))))))))))))))))))))))))))))))))))))))))

(** val bits_of : n -> n list **)

let bits_of b =
  filter (N.testbit b) sq64

(** val count_ones : n -> n **)

let count_ones b =
  N.of_nat (length (bits_of b))

(** val ctz64 : n -> n **)

let ctz64 b =
  match bits_of b with
  | [] -> Npos (XO (XO (XO (XO (XO (XO XH))))))
  | i :: _ -> i

(** val ctz128 : n -> n **)

let ctz128 b =
  match bits_of b with
  | [] -> Npos (XO (XO (XO (XO (XO (XO (XO XH)))))))
  | i :: _ -> i

(** val one_shl : n -> n **)

let one_shl k =
  N.shiftl (Npos XH) (N.modulo k (Npos (XO (XO (XO (XO (XO (XO XH))))))))

(** val lEFT_COLUMN_MASK : n **)

let lEFT_COLUMN_MASK =
  Npos (XI (XO (XO (XO (XO (XO (XO (XO (XI (XO (XO (XO (XO (XO (XO (XO (XI
    (XO (XO (XO (XO (XO (XO (XO (XI (XO (XO (XO (XO (XO (XO (XO (XI (XO (XO
    (XO (XO (XO (XO (XO (XI (XO (XO (XO (XO (XO (XO (XO (XI (XO (XO (XO (XO
    (XO (XO (XO XH))))))))))))))))))))))))))))))))))))))))))))))))))))))))

(** val rIGHT_COLUMN_MASK : n **)

let rIGHT_COLUMN_MASK =
  Npos (XO (XO (XO (XO (XO (XO (XO (XI (XO (XO (XO (XO (XO (XO (XO (XI (XO
    (XO (XO (XO (XO (XO (XO (XI (XO (XO (XO (XO (XO (XO (XO (XI (XO (XO (XO
    (XO (XO (XO (XO (XI (XO (XO (XO (XO (XO (XO (XO (XI (XO (XO (XO (XO (XO
    (XO (XO (XI (XO (XO (XO (XO (XO (XO (XO
    XH)))))))))))))))))))))))))))))))))))))))))))))))))))))))))))))))

(** val tOP_ROW_MASK : n **)

let tOP_ROW_MASK =
  Npos (XI (XI (XI (XI (XI (XI (XI XH)))))))

(** val bOTTOM_ROW_MASK : n **)

let bOTTOM_ROW_MASK =
  Npos (XO (XO (XO (XO (XO (XO (XO (XO (XO (XO (XO (XO (XO (XO (XO (XO (XO
    (XO (XO (XO (XO (XO (XO (XO (XO (XO (XO (XO (XO (XO (XO (XO (XO (XO (XO
    (XO (XO (XO (XO (XO (XO (XO (XO (XO (XO (XO (XO (XO (XO (XO (XO (XO (XO
    (XO (XO (XO (XI (XI (XI (XI (XI (XI (XI
    XH)))))))))))))))))))))))))))))))))))))))))))))))))))))))))))))))

(** val p1_PLACEMENT_MASK : n **)

let p1_PLACEMENT_MASK =
  Npos (XO (XO (XO (XO (XO (XO (XO (XO (XO (XO (XO (XO (XO (XO (XO (XO (XO
    (XO (XO (XO (XO (XO (XO (XO (XO (XO (XO (XO (XO (XO (XO (XO (XO (XO (XO
    (XO (XO (XO (XO (XO (XO (XO (XO (XO (XO (XO (XO (XO (XI (XI (XI (XI (XI
    (XI (XI (XI (XI (XI (XI (XI (XI (XI (XI
    XH)))))))))))))))))))))))))))))))))))))))))))))))))))))))))))))))

(** val p2_PLACEMENT_MASK : n **)

let p2_PLACEMENT_MASK =
  Npos (XI (XI (XI (XI (XI (XI (XI (XI (XI (XI (XI (XI (XI (XI (XI
    XH)))))))))))))))

(** val lAST_P1_PLACEMENT_MASK : n **)

let lAST_P1_PLACEMENT_MASK =
  Npos (XO (XO (XO (XO (XO (XO (XO (XO (XO (XO (XO (XO (XO (XO (XO (XO (XO
    (XO (XO (XO (XO (XO (XO (XO (XO (XO (XO (XO (XO (XO (XO (XO (XO (XO (XO
    (XO (XO (XO (XO (XO (XO (XO (XO (XO (XO (XO (XO (XO (XO (XO (XO (XO (XO
    (XO (XO (XO (XO (XO (XO (XO (XO (XO (XO
    XH)))))))))))))))))))))))))))))))))))))))))))))))))))))))))))))))

(** val lAST_P2_PLACEMENT_MASK : n **)

let lAST_P2_PLACEMENT_MASK =
  Npos (XO (XO (XO (XO (XO (XO (XO (XO (XO (XO (XO (XO (XO (XO (XO
    XH)))))))))))))))

(** val tRAP_MASK : n **)

let tRAP_MASK =
  Npos (XO (XO (XO (XO (XO (XO (XO (XO (XO (XO (XO (XO (XO (XO (XO (XO (XO
    (XO (XI (XO (XO (XI (XO (XO (XO (XO (XO (XO (XO (XO (XO (XO (XO (XO (XO
    (XO (XO (XO (XO (XO (XO (XO (XI (XO (XO
    XH)))))))))))))))))))))))))))))))))))))))))))))

(** val p1_OBJECTIVE_MASK : n **)

let p1_OBJECTIVE_MASK =
  Npos (XI (XI (XI (XI (XI (XI (XI XH)))))))

(** val p2_OBJECTIVE_MASK : n **)

let p2_OBJECTIVE_MASK =
  Npos (XO (XO (XO (XO (XO (XO (XO (XO (XO (XO (XO (XO (XO (XO (XO (XO (XO
    (XO (XO (XO (XO (XO (XO (XO (XO (XO (XO (XO (XO (XO (XO (XO (XO (XO (XO
    (XO (XO (XO (XO (XO (XO (XO (XO (XO (XO (XO (XO (XO (XO (XO (XO (XO (XO
    (XO (XO (XO (XI (XI (XI (XI (XI (XI (XI
    XH)))))))))))))))))))))))))))))))))))))))))))))))))))))))))))))))

(** val bOARD_WIDTH : n **)

let bOARD_WIDTH =
  Npos (XO (XO (XO XH)))

(** val bOARD_HEIGHT : n **)

let bOARD_HEIGHT =
  Npos (XO (XO (XO XH)))

(** val aSCII_LETTER_A : n **)

let aSCII_LETTER_A =
  Npos (XI (XO (XO (XO (XO (XI XH))))))

(** val sHIFT_UP : bool * n **)

let sHIFT_UP =
  (false, bOARD_WIDTH)

(** val sHIFT_RIGHT : bool * n **)

let sHIFT_RIGHT =
  (true, (Npos XH))

(** val sHIFT_DOWN : bool * n **)

let sHIFT_DOWN =
  (true, bOARD_WIDTH)

(** val sHIFT_LEFT : bool * n **)

let sHIFT_LEFT =
  (false, (Npos XH))

(** val sHIFT_PIECES_UP_INNER : bool * n **)

let sHIFT_PIECES_UP_INNER =
  sHIFT_UP

(** val sHIFT_PIECES_UP_MASK : n **)

let sHIFT_PIECES_UP_MASK =
  tOP_ROW_MASK

(** val sHIFT_PIECES_RIGHT_INNER : bool * n **)

let sHIFT_PIECES_RIGHT_INNER =
  sHIFT_RIGHT

(** val sHIFT_PIECES_RIGHT_MASK : n **)

let sHIFT_PIECES_RIGHT_MASK =
  rIGHT_COLUMN_MASK

(** val sHIFT_PIECES_DOWN_INNER : bool * n **)

let sHIFT_PIECES_DOWN_INNER =
  sHIFT_DOWN

(** val sHIFT_PIECES_DOWN_MASK : n **)

let sHIFT_PIECES_DOWN_MASK =
  bOTTOM_ROW_MASK

(** val sHIFT_PIECES_LEFT_INNER : bool * n **)

let sHIFT_PIECES_LEFT_INNER =
  sHIFT_LEFT

(** val sHIFT_PIECES_LEFT_MASK : n **)

let sHIFT_PIECES_LEFT_MASK =
  lEFT_COLUMN_MASK

(** val piece_rank : piece -> n **)

let piece_rank = function
| Rabbit -> N0
| Cat -> Npos XH
| Dog -> Npos (XO XH)
| Horse -> Npos (XI XH)
| Camel -> Npos (XO (XO XH))
| Elephant -> Npos (XI (XO XH))

(** val pIECE_ALL : piece list **)

let pIECE_ALL =
  Rabbit :: (Cat :: (Dog :: (Horse :: (Camel :: (Elephant :: [])))))

(** val dIR_ALL : dir list **)

let dIR_ALL =
  Up :: (Right :: (Down :: (Left :: [])))

(** val piece_letter : piece -> n **)

let piece_letter = function
| Rabbit -> Npos (XO (XI (XO (XO (XI (XI XH))))))
| Cat -> Npos (XI (XI (XO (XO (XO (XI XH))))))
| Dog -> Npos (XO (XO (XI (XO (XO (XI XH))))))
| Horse -> Npos (XO (XO (XO (XI (XO (XI XH))))))
| Camel -> Npos (XI (XO (XI (XI (XO (XI XH))))))
| Elephant -> Npos (XI (XO (XI (XO (XO (XI XH))))))

(** val dir_letter : dir -> n **)

let dir_letter = function
| Up -> Npos (XO (XI (XI (XI (XO (XI XH))))))
| Right -> Npos (XI (XO (XI (XO (XO (XI XH))))))
| Down -> Npos (XI (XI (XO (XO (XI (XI XH))))))
| Left -> Npos (XI (XI (XI (XO (XI (XI XH))))))

(** val piece_of_letter_table : (n * piece) list **)

let piece_of_letter_table =
  ((Npos (XI (XO (XI (XO (XO (XO XH))))))), Elephant) :: (((Npos (XI (XO (XI
    (XO (XO (XI XH))))))), Elephant) :: (((Npos (XI (XO (XI (XI (XO (XO
    XH))))))), Camel) :: (((Npos (XI (XO (XI (XI (XO (XI XH))))))),
    Camel) :: (((Npos (XO (XO (XO (XI (XO (XO XH))))))), Horse) :: (((Npos
    (XO (XO (XO (XI (XO (XI XH))))))), Horse) :: (((Npos (XO (XO (XI (XO (XO
    (XO XH))))))), Dog) :: (((Npos (XO (XO (XI (XO (XO (XI XH))))))),
    Dog) :: (((Npos (XI (XI (XO (XO (XO (XO XH))))))), Cat) :: (((Npos (XI
    (XI (XO (XO (XO (XI XH))))))), Cat) :: (((Npos (XO (XI (XO (XO (XI (XO
    XH))))))), Rabbit) :: (((Npos (XO (XI (XO (XO (XI (XI XH))))))),
    Rabbit) :: [])))))))))))

(** val dir_of_letter_table : (n * dir) list **)

let dir_of_letter_table =
  ((Npos (XO (XI (XI (XI (XO (XI XH))))))), Up) :: (((Npos (XI (XO (XI (XO
    (XO (XI XH))))))), Right) :: (((Npos (XI (XI (XO (XO (XI (XI XH))))))),
    Down) :: (((Npos (XI (XI (XI (XO (XI (XI XH))))))), Left) :: [])))

(** val diagram_piece_of_letter_table : (n * piece) list **)

let diagram_piece_of_letter_table =
  ((Npos (XI (XO (XI (XO (XO (XO XH))))))), Elephant) :: (((Npos (XI (XO (XI
    (XO (XO (XI XH))))))), Elephant) :: (((Npos (XI (XO (XI (XI (XO (XO
    XH))))))), Camel) :: (((Npos (XI (XO (XI (XI (XO (XI XH))))))),
    Camel) :: (((Npos (XO (XO (XO (XI (XO (XO XH))))))), Horse) :: (((Npos
    (XO (XO (XO (XI (XO (XI XH))))))), Horse) :: (((Npos (XO (XO (XI (XO (XO
    (XO XH))))))), Dog) :: (((Npos (XO (XO (XI (XO (XO (XI XH))))))),
    Dog) :: (((Npos (XI (XI (XO (XO (XO (XO XH))))))), Cat) :: (((Npos (XI
    (XI (XO (XO (XO (XI XH))))))), Cat) :: (((Npos (XO (XI (XO (XO (XI (XO
    XH))))))), Rabbit) :: (((Npos (XO (XI (XO (XO (XI (XI XH))))))),
    Rabbit) :: [])))))))))))

(** val diagram_upper_letter : piece -> n **)

let diagram_upper_letter = function
| Rabbit -> Npos (XO (XI (XO (XO (XI (XO XH))))))
| Cat -> Npos (XI (XI (XO (XO (XO (XO XH))))))
| Dog -> Npos (XO (XO (XI (XO (XO (XO XH))))))
| Horse -> Npos (XO (XO (XO (XI (XO (XO XH))))))
| Camel -> Npos (XI (XO (XI (XI (XO (XO XH))))))
| Elephant -> Npos (XI (XO (XI (XO (XO (XO XH))))))

(** val dIAGRAM_TRAP_INDICES : n list **)

let dIAGRAM_TRAP_INDICES =
  (Npos (XO (XI (XO (XO XH))))) :: ((Npos (XI (XO (XI (XO XH))))) :: ((Npos
    (XO (XI (XO (XI (XO XH)))))) :: ((Npos (XI (XO (XI (XI (XO
    XH)))))) :: [])))

(** val dIAGRAM_DEFAULT_MOVE : n **)

let dIAGRAM_DEFAULT_MOVE =
  Npos (XO XH)

(** val dIAGRAM_DEFAULT_P1 : bool **)

let dIAGRAM_DEFAULT_P1 =
  true

(** val dIAGRAM_SILVER_LETTERS : n list **)

let dIAGRAM_SILVER_LETTERS =
  (Npos (XI (XI (XO (XO (XI (XI XH))))))) :: ((Npos (XO (XI (XO (XO (XO (XI
    XH))))))) :: [])

(** val square_piece_idx : piece -> n option **)

let square_piece_idx = function
| Rabbit -> Some (Npos (XI (XO XH)))
| Cat -> Some (Npos (XO (XO XH)))
| Dog -> Some (Npos (XI XH))
| Horse -> Some (Npos (XO XH))
| Camel -> Some (Npos XH)
| Elephant -> Some N0

(** val sQUARE_P1_OFFSET : n **)

let sQUARE_P1_OFFSET =
  N0

(** val sQUARE_P2_OFFSET : n **)

let sQUARE_P2_OFFSET =
  Npos (XO (XI XH))

(** val push_piece_idx : piece -> n option **)

let push_piece_idx = function
| Rabbit -> Some (Npos (XO (XO XH)))
| Cat -> Some (Npos (XI XH))
| Dog -> Some (Npos (XO XH))
| Horse -> Some (Npos XH)
| Camel -> Some N0
| Elephant -> None

(** val pull_piece_idx : piece -> n option **)

let pull_piece_idx = function
| Rabbit -> None
| Cat -> Some (Npos (XO (XO XH)))
| Dog -> Some (Npos (XI XH))
| Horse -> Some (Npos (XO XH))
| Camel -> Some (Npos XH)
| Elephant -> Some N0

type pbs = { p1 : n; allp : n; el : n; ca : n; ho : n; dg : n; ct : n; rb : n }

(** val empty_board : pbs **)

let empty_board =
  { p1 = N0; allp = N0; el = N0; ca = N0; ho = N0; dg = N0; ct = N0; rb = N0 }

(** val pb_new : n -> n -> n -> n -> n -> n -> n -> pbs **)

let pb_new p1_ e m h d c r =
  { p1 = p1_; allp =
    (N.coq_lor (N.coq_lor (N.coq_lor (N.coq_lor (N.coq_lor e m) h) d) c) r);
    el = e; ca = m; ho = h; dg = d; ct = c; rb = r }

(** val player_piece_mask : pbs -> bool -> n **)

let player_piece_mask b = function
| true -> b.p1
| false -> N.coq_land (bnot b.p1) b.allp

(** val bits_by_piece_type : pbs -> piece -> n **)

let bits_by_piece_type b = function
| Rabbit -> b.rb
| Cat -> b.ct
| Dog -> b.dg
| Horse -> b.ho
| Camel -> b.ca
| Elephant -> b.el

(** val bits_for_piece : pbs -> piece -> bool -> n **)

let bits_for_piece b k p1side =
  N.coq_land (bits_by_piece_type b k) (player_piece_mask b p1side)

type square = n

(** val sq_as_bit_board : square -> n **)

let sq_as_bit_board =
  one_shl

(** val sq_from_bit_board : n -> square **)

let sq_from_bit_board b =
  N.modulo (ctz128 b) (Npos (XO (XO (XO (XO (XO (XO (XO (XO XH)))))))))

(** val sq_index : square -> n **)

let sq_index s =
  s

(** val sq_column_char : square -> n **)

let sq_column_char s =
  N.modulo
    (N.add aSCII_LETTER_A
      (N.modulo (N.modulo s bOARD_WIDTH) (Npos (XO (XO (XO (XO (XO (XO (XO
        (XO XH))))))))))) (Npos (XO (XO (XO (XO (XO (XO (XO (XO XH)))))))))

(** val sq_row : square -> n **)

let sq_row s =
  N.modulo
    (N.modulo (N.sub (N.add bOARD_HEIGHT p64) (N.div s bOARD_WIDTH)) p64)
    (Npos (XO (XO (XO (XO (XO (XO (XO (XO XH)))))))))

(** val sq_new : n -> n -> square **)

let sq_new column row =
  N.modulo
    (N.add
      (N.modulo
        (N.sub
          (N.add
            (N.modulo column (Npos (XO (XO (XO (XO (XO (XO (XO (XO
              XH)))))))))) (Npos (XO (XO (XO (XO (XO (XO (XO (XO XH))))))))))
          aSCII_LETTER_A) (Npos (XO (XO (XO (XO (XO (XO (XO (XO XH))))))))))
      (N.mul
        (N.modulo
          (N.modulo (N.sub (N.add bOARD_HEIGHT p64) (N.modulo row p64)) p64)
          (Npos (XO (XO (XO (XO (XO (XO (XO (XO XH)))))))))) (Npos (XO (XO
        (XO XH)))))) (Npos (XO (XO (XO (XO (XO (XO (XO (XO XH)))))))))

(** val first_set_bit : n -> n **)

let first_set_bit bits =
  one_shl (ctz64 bits)

(** val apply_shift : (bool * n) -> n -> n **)

let apply_shift sh x =
  if fst sh then shl x (snd sh) else shr x (snd sh)

(** val shift_up : n -> n **)

let shift_up x =
  apply_shift sHIFT_UP x

(** val shift_right : n -> n **)

let shift_right x =
  apply_shift sHIFT_RIGHT x

(** val shift_down : n -> n **)

let shift_down x =
  apply_shift sHIFT_DOWN x

(** val shift_left : n -> n **)

let shift_left x =
  apply_shift sHIFT_LEFT x

(** val shift_pieces_up : n -> n **)

let shift_pieces_up x =
  apply_shift sHIFT_PIECES_UP_INNER (N.coq_land x (bnot sHIFT_PIECES_UP_MASK))

(** val shift_pieces_right : n -> n **)

let shift_pieces_right x =
  apply_shift sHIFT_PIECES_RIGHT_INNER
    (N.coq_land x (bnot sHIFT_PIECES_RIGHT_MASK))

(** val shift_pieces_down : n -> n **)

let shift_pieces_down x =
  apply_shift sHIFT_PIECES_DOWN_INNER
    (N.coq_land x (bnot sHIFT_PIECES_DOWN_MASK))

(** val shift_pieces_left : n -> n **)

let shift_pieces_left x =
  apply_shift sHIFT_PIECES_LEFT_INNER
    (N.coq_land x (bnot sHIFT_PIECES_LEFT_MASK))

(** val shift_in_direction : n -> dir -> n **)

let shift_in_direction bits = function
| Up -> shift_up bits
| Right -> shift_right bits
| Down -> shift_down bits
| Left -> shift_left bits

(** val shift_pieces_in_direction : n -> dir -> n **)

let shift_pieces_in_direction bits = function
| Up -> shift_pieces_up bits
| Right -> shift_pieces_right bits
| Down -> shift_pieces_down bits
| Left -> shift_pieces_left bits

(** val shift_pieces_in_opp_direction : n -> dir -> n **)

let shift_pieces_in_opp_direction bits = function
| Up -> shift_pieces_down bits
| Right -> shift_pieces_left bits
| Down -> shift_pieces_up bits
| Left -> shift_pieces_right bits

(** val shift_piece_in_direction : n -> n -> dir -> n **)

let shift_piece_in_direction pb src d =
  N.coq_lor (shift_in_direction (N.coq_land pb src) d)
    (N.coq_land pb (bnot src))

(** val influenced_squares : n -> n **)

let influenced_squares x =
  N.coq_lor
    (N.coq_lor (N.coq_lor (shift_pieces_up x) (shift_pieces_right x))
      (shift_pieces_down x)) (shift_pieces_left x)

(** val supported_pieces : n -> n **)

let supported_pieces x =
  N.coq_lor
    (N.coq_lor
      (N.coq_lor (N.coq_land x (shift_pieces_up x))
        (N.coq_land x (shift_pieces_right x)))
      (N.coq_land x (shift_pieces_down x)))
    (N.coq_land x (shift_pieces_left x))

(** val both_player_supported_pieces : pbs -> n **)

let both_player_supported_pieces b =
  N.coq_lor (supported_pieces b.p1)
    (supported_pieces (N.coq_land b.allp (bnot b.p1)))

(** val both_player_unsupported_piece_bits : pbs -> n **)

let both_player_unsupported_piece_bits b =
  N.coq_land b.allp (bnot (both_player_supported_pieces b))

(** val animal_is_on_trap : pbs -> bool **)

let animal_is_on_trap b =
  negb (N.eqb (N.coq_land b.allp tRAP_MASK) N0)

(** val trapped_piece_bits : pbs -> n **)

let trapped_piece_bits b =
  if animal_is_on_trap b
  then N.coq_land (both_player_unsupported_piece_bits b) tRAP_MASK
  else N0

(** val piece_type_at_bit : n -> pbs -> piece **)

let piece_type_at_bit bit b =
  if negb (N.eqb (N.coq_land b.rb bit) N0)
  then Rabbit
  else if negb (N.eqb (N.coq_land b.el bit) N0)
       then Elephant
       else if negb (N.eqb (N.coq_land b.ca bit) N0)
            then Camel
            else if negb (N.eqb (N.coq_land b.ho bit) N0)
                 then Horse
                 else if negb (N.eqb (N.coq_land b.dg bit) N0)
                      then Dog
                      else Cat

(** val piece_type_at_square : pbs -> square -> piece option **)

let piece_type_at_square b s =
  let bit = sq_as_bit_board s in
  if negb (N.eqb (N.coq_land bit b.allp) N0)
  then Some (piece_type_at_bit bit b)
  else None

(** val placement_bit : pbs -> n **)

let placement_bit b =
  let mask0 =
    if N.eqb (N.coq_land b.p1 p1_PLACEMENT_MASK) p1_PLACEMENT_MASK
    then p2_PLACEMENT_MASK
    else p1_PLACEMENT_MASK
  in
  first_set_bit (N.coq_land (bnot b.allp) mask0)

(** val pb_move_piece : pbs -> square -> dir -> pbs **)

let pb_move_piece b s d =
  let src = sq_as_bit_board s in
  { p1 = (shift_piece_in_direction b.p1 src d); allp =
  (shift_piece_in_direction b.allp src d); el =
  (shift_piece_in_direction b.el src d); ca =
  (shift_piece_in_direction b.ca src d); ho =
  (shift_piece_in_direction b.ho src d); dg =
  (shift_piece_in_direction b.dg src d); ct =
  (shift_piece_in_direction b.ct src d); rb =
  (shift_piece_in_direction b.rb src d) }

(** val pb_remove_trapped : pbs -> pbs * bool **)

let pb_remove_trapped b =
  let t = trapped_piece_bits b in
  if negb (N.eqb t N0)
  then let u = bnot t in
       ({ p1 = (N.coq_land b.p1 u); allp = (N.coq_land b.allp u); el =
       (N.coq_land b.el u); ca = (N.coq_land b.ca u); ho =
       (N.coq_land b.ho u); dg = (N.coq_land b.dg u); ct =
       (N.coq_land b.ct u); rb = (N.coq_land b.rb u) }, true)
  else (b, false)

(** val pb_take_move : pbs -> square -> dir -> pbs * bool **)

let pb_take_move b s d =
  pb_remove_trapped (pb_move_piece b s d)

(** val can_move_in_direction : dir -> pbs -> n **)

let can_move_in_direction d b =
  shift_pieces_in_opp_direction (bnot b.allp) d

(** val piece_gtb : piece -> piece -> bool **)

let piece_gtb a b =
  N.ltb (piece_rank b) (piece_rank a)

(** val iNITIAL : n **)

let iNITIAL =
  Npos (XI (XO (XO (XI (XO (XI (XI (XO (XI (XI (XI (XI (XO (XI (XO (XO (XO
    (XO (XO (XO (XO (XI (XO (XO (XI (XI (XO (XI (XO (XO (XO (XI (XI (XI (XI
    (XO (XO (XI (XO (XO (XO (XO (XI (XO (XO (XI (XI (XO (XI (XO (XI (XI (XO
    (XO (XO (XI (XO (XO (XO (XI (XO (XI (XO
    XH)))))))))))))))))))))))))))))))))))))))))))))))))))))))))))))))

(** val pLAYER_TO_MOVE : n **)

let pLAYER_TO_MOVE =
  Npos (XO (XO (XI (XI (XI (XI (XO (XO (XI (XI (XI (XI (XO (XI (XO (XI (XI
    (XO (XI (XO (XI (XI (XO (XO (XO (XO (XO (XO (XI (XI (XI (XI (XI (XO (XO
    (XI (XO (XO (XI (XI (XI (XI (XO (XI (XO (XO (XO (XO (XI (XI (XI (XO (XO
    (XO (XO (XO (XI (XI (XI (XI (XO
    XH)))))))))))))))))))))))))))))))))))))))))))))))))))))))))))))

(** val sTEP_VALUES : n list **)

let sTEP_VALUES =
  (Npos (XO (XI (XO (XO (XO (XO (XO (XO (XO (XO (XO (XI (XO (XO (XI (XI (XO
    (XO (XO (XO (XO (XI (XI (XO (XO (XI (XI (XO (XI (XI (XI (XI (XO (XI (XO
    (XI (XI (XO (XI (XO (XI (XO (XI (XO (XO (XI (XI (XO (XI (XO (XO (XI (XI
    (XI (XO (XO (XI (XI (XI (XO (XO (XO (XO
    XH)))))))))))))))))))))))))))))))))))))))))))))))))))))))))))))))) :: ((Npos
    (XI (XI (XI (XI (XI (XO (XI (XI (XO (XI (XO (XO (XI (XO (XI (XO (XI (XI
    (XI (XO (XO (XO (XI (XI (XI (XI (XI (XI (XO (XI (XI (XI (XO (XO (XO (XI
    (XI (XI (XO (XI (XO (XO (XO (XI (XI (XO (XO (XI (XO (XI (XO (XI (XI (XI
    (XO (XI (XO (XI (XI (XI (XI (XI (XI
    XH)))))))))))))))))))))))))))))))))))))))))))))))))))))))))))))))) :: ((Npos
    (XO (XO (XO (XO (XI (XO (XO (XI (XO (XI (XI (XO (XI (XO (XI (XI (XO (XO
    (XO (XO (XI (XI (XO (XO (XO (XO (XO (XI (XI (XI (XI (XI (XO (XI (XI (XO
    (XO (XI (XO (XO (XO (XI (XO (XI (XI (XO (XO (XI (XI (XI (XI (XO (XO (XI
    (XO (XO (XO (XI (XI (XO
    XH))))))))))))))))))))))))))))))))))))))))))))))))))))))))))))) :: ((Npos
    (XI (XI (XI (XI (XO (XO (XI (XO (XI (XI (XO (XI (XO (XI (XI (XO (XI (XO
    (XI (XO (XI (XO (XO (XI (XI (XI (XI (XI (XI (XI (XI (XI (XO (XI (XI (XO
    (XI (XI (XI (XI (XO (XO (XI (XI (XO (XI (XO (XI (XI (XO (XI (XI (XI (XO
    (XI (XI (XI (XI (XI (XI (XI (XI (XI
    XH)))))))))))))))))))))))))))))))))))))))))))))))))))))))))))))))) :: [])))

(** val sQUARE_VALUES : n list list **)

let sQUARE_VALUES =
  ((Npos (XO (XO (XI (XO (XI (XO (XI (XI (XI (XI (XI (XI (XO (XO (XI (XO (XI
    (XI (XI (XI (XI (XI (XI (XI (XO (XO (XO (XO (XO (XO (XI (XI (XI (XO (XO
    (XI (XO (XO (XO (XO (XI (XO (XO (XO (XO (XO (XI (XO (XI (XI (XI (XO (XI
    (XO (XO (XI (XO (XO (XI (XO (XO (XO
    XH))))))))))))))))))))))))))))))))))))))))))))))))))))))))))))))) :: ((Npos
    (XI (XI (XO (XO (XO (XO (XI (XO (XI (XO (XI (XO (XI (XI (XO (XI (XI (XI
    (XO (XI (XI (XI (XI (XI (XO (XO (XO (XO (XI (XO (XO (XO (XI (XO (XI (XI
    (XO (XI (XO (XI (XO (XI (XI (XI (XI (XO (XI (XI (XO (XO (XI (XO (XI (XI
    (XO (XO (XI (XI (XO (XO (XO (XO (XO
    XH)))))))))))))))))))))))))))))))))))))))))))))))))))))))))))))))) :: ((Npos
    (XI (XO (XI (XI (XO (XI (XI (XI (XO (XO (XI (XI (XI (XO (XI (XI (XO (XI
    (XO (XO (XO (XI (XO (XO (XI (XI (XO (XO (XO (XI (XI (XI (XO (XI (XI (XI
    (XI (XI (XI (XI (XO (XO (XI (XO (XI (XO (XO (XI (XO (XI (XI (XO (XI (XI
    (XO (XI (XI (XI (XI (XO (XO (XO
    XH))))))))))))))))))))))))))))))))))))))))))))))))))))))))))))))) :: ((Npos
    (XI (XO (XO (XO (XO (XI (XO (XI (XO (XO (XO (XI (XI (XO (XO (XO (XO (XI
    (XI (XO (XO (XI (XO (XI (XO (XO (XO (XI (XI (XI (XO (XI (XI (XI (XI (XO
    (XO (XI (XO (XO (XI (XO (XI (XI (XO (XO (XI (XO (XI (XO (XI (XO (XI (XO
    (XO (XO (XO (XO (XO
    XH)))))))))))))))))))))))))))))))))))))))))))))))))))))))))))) :: ((Npos
    (XI (XO (XI (XO (XI (XO (XI (XI (XI (XI (XO (XO (XO (XI (XI (XO (XI (XO
    (XI (XO (XI (XI (XI (XO (XI (XO (XO (XO (XO (XO (XI (XI (XO (XO (XI (XI
    (XO (XI (XO (XI (XO (XO (XO (XO (XO (XI (XI (XO (XI (XI (XI (XI (XI (XI
    (XI (XI (XI (XO (XO (XO (XI (XO (XO
    XH)))))))))))))))))))))))))))))))))))))))))))))))))))))))))))))))) :: ((Npos
    (XO (XI (XI (XO (XI (XI (XO (XO (XO (XI (XO (XO (XI (XO (XI (XI (XO (XO
    (XO (XI (XO (XO (XI (XO (XI (XO (XO (XO (XO (XO (XO (XI (XO (XI (XI (XI
    (XO (XO (XI (XO (XO (XO (XI (XO (XO (XO (XO (XO (XO (XO (XO (XO (XI (XI
    (XI (XI (XI (XO (XI (XI (XI (XO (XI
    XH)))))))))))))))))))))))))))))))))))))))))))))))))))))))))))))))) :: ((Npos
    (XO (XI (XI (XI (XI (XI (XO (XO (XO (XO (XI (XO (XO (XI (XO (XI (XO (XO
    (XI (XI (XO (XO (XI (XO (XO (XO (XI (XO (XI (XO (XO (XO (XO (XI (XI (XI
    (XI (XO (XI (XO (XI (XI (XO (XI (XO (XO (XO (XO (XO (XI (XO (XI (XO (XO
    (XO (XI (XO (XI (XI (XI (XI (XI (XI
    XH)))))))))))))))))))))))))))))))))))))))))))))))))))))))))))))))) :: ((Npos
    (XI (XO (XO (XI (XO (XI (XO (XO (XI (XI (XI (XI (XO (XO (XO (XO (XI (XO
    (XI (XO (XO (XO (XO (XI (XI (XO (XO (XI (XO (XO (XO (XI (XI (XO (XI (XI
    (XO (XI (XI (XO (XI (XI (XO (XI (XI (XO (XO (XO (XO (XO (XO (XI (XI (XI
    (XO (XO (XI (XI (XI (XI (XO (XO (XI
    XH)))))))))))))))))))))))))))))))))))))))))))))))))))))))))))))))) :: ((Npos
    (XO (XI (XI (XI (XI (XI (XO (XO (XO (XO (XO (XO (XO (XI (XI (XO (XO (XI
    (XO (XO (XO (XO (XI (XI (XI (XO (XO (XI (XO (XO (XI (XO (XI (XI (XI (XO
    (XO (XI (XO (XI (XI (XI (XO (XO (XI (XO (XI (XO (XI (XI (XO (XI (XO (XI
    (XO (XO (XI (XO (XI (XI (XO (XI (XO
    XH)))))))))))))))))))))))))))))))))))))))))))))))))))))))))))))))) :: ((Npos
    (XI (XO (XI (XO (XO (XO (XI (XO (XO (XO (XO (XO (XI (XI (XO (XI (XI (XO
    (XI (XO (XI (XI (XI (XO (XO (XO (XO (XI (XO (XI (XI (XO (XI (XO (XO (XI
    (XI (XI (XI (XO (XI (XO (XI (XO (XO (XO (XI (XO (XI (XI (XO (XO (XO (XI
    (XI (XO (XI (XI (XI (XO (XO (XI (XI
    XH)))))))))))))))))))))))))))))))))))))))))))))))))))))))))))))))) :: ((Npos
    (XO (XI (XI (XO (XI (XI (XO (XI (XI (XI (XI (XO (XO (XO (XI (XO (XO (XO
    (XI (XO (XI (XO (XO (XI (XO (XO (XI (XO (XO (XI (XO (XI (XI (XI (XO (XO
    (XI (XO (XO (XO (XI (XO (XI (XO (XO (XI (XO (XI (XO (XO (XI (XO (XO (XI
    (XO (XI (XI (XI (XO (XO
    XH))))))))))))))))))))))))))))))))))))))))))))))))))))))))))))) :: ((Npos
    (XI (XI (XO (XO (XO (XO (XO (XO (XO (XI (XO (XI (XI (XO (XO (XI (XO (XI
    (XI (XI (XO (XI (XO (XI (XI (XO (XO (XI (XO (XI (XI (XI (XI (XI (XO (XI
    (XI (XI (XI (XI (XI (XI (XO (XI (XI (XI (XI (XI (XO (XO (XI (XO (XI (XI
    (XO (XO (XO (XI (XO (XI (XI (XO
    XH))))))))))))))))))))))))))))))))))))))))))))))))))))))))))))))) :: ((Npos
    (XI (XI (XI (XO (XI (XO (XO (XO (XO (XO (XI (XO (XO (XI (XI (XO (XI (XI
    (XO (XO (XI (XI (XO (XI (XO (XO (XI (XI (XO (XO (XO (XI (XI (XI (XI (XI
    (XO (XO (XO (XI (XO (XI (XI (XI (XI (XI (XO (XO (XI (XI (XI (XO (XI (XO
    (XI (XI (XO (XI (XO (XO (XO (XO (XI
    XH)))))))))))))))))))))))))))))))))))))))))))))))))))))))))))))))) :: ((Npos
    (XI (XI (XI (XI (XI (XI (XI (XO (XO (XI (XI (XI (XO (XI (XI (XO (XO (XO
    (XO (XO (XO (XI (XO (XO (XI (XO (XI (XI (XO (XI (XI (XI (XI (XO (XI (XI
    (XI (XI (XI (XI (XI (XI (XO (XI (XO (XO (XO (XO (XI (XI (XI (XO (XO (XI
    (XI (XI (XO (XO (XO (XO (XO (XI (XO
    XH)))))))))))))))))))))))))))))))))))))))))))))))))))))))))))))))) :: ((Npos
    (XO (XI (XO (XO (XI (XI (XO (XO (XO (XO (XI (XO (XO (XI (XI (XI (XO (XO
    (XI (XO (XI (XI (XI (XO (XI (XO (XO (XI (XO (XI (XO (XO (XO (XO (XO (XI
    (XO (XI (XI (XO (XI (XO (XO (XI (XO (XI (XO (XI (XI (XI (XO (XI (XO (XI
    (XO (XO (XO (XI (XI (XI (XO (XO
    XH))))))))))))))))))))))))))))))))))))))))))))))))))))))))))))))) :: ((Npos
    (XO (XO (XI (XO (XI (XO (XI (XO (XO (XO (XO (XI (XI (XI (XO (XO (XI (XO
    (XO (XO (XO (XO (XO (XI (XO (XI (XO (XO (XO (XO (XO (XI (XO (XO (XO (XO
    (XI (XI (XO (XI (XI (XO (XO (XI (XO (XO (XO (XI (XO (XI (XO (XO (XI (XO
    (XO (XI (XO (XI (XO (XI (XO
    XH)))))))))))))))))))))))))))))))))))))))))))))))))))))))))))))) :: ((Npos
    (XO (XO (XO (XO (XI (XI (XO (XI (XI (XI (XI (XI (XO (XO (XO (XO (XI (XI
    (XI (XI (XI (XO (XO (XO (XI (XO (XO (XO (XI (XI (XO (XI (XI (XI (XO (XO
    (XO (XO (XO (XI (XO (XI (XI (XI (XI (XO (XI (XO (XI (XI (XO (XI (XI (XO
    (XI (XO (XO (XO (XI (XO (XI (XI (XI
    XH)))))))))))))))))))))))))))))))))))))))))))))))))))))))))))))))) :: ((Npos
    (XO (XO (XO (XI (XI (XI (XO (XI (XI (XI (XO (XO (XO (XO (XI (XO (XI (XI
    (XI (XO (XO (XI (XO (XI (XI (XO (XI (XI (XI (XO (XI (XO (XI (XO (XO (XI
    (XI (XI (XO (XI (XI (XO (XI (XO (XI (XI (XO (XO (XO (XI (XO (XO (XO (XO
    (XI (XI (XO (XO (XO (XO (XO
    XH)))))))))))))))))))))))))))))))))))))))))))))))))))))))))))))) :: ((Npos
    (XI (XI (XI (XI (XO (XO (XI (XI (XI (XO (XO (XI (XI (XI (XI (XO (XO (XI
    (XO (XI (XI (XO (XI (XO (XI (XO (XI (XI (XI (XI (XI (XI (XO (XO (XI (XI
    (XO (XO (XO (XO (XI (XO (XO (XO (XI (XI (XI (XI (XI (XO (XO (XI (XI (XI
    (XO (XO (XO (XI (XI (XO (XI (XO (XI
    XH)))))))))))))))))))))))))))))))))))))))))))))))))))))))))))))))) :: ((Npos
    (XO (XI (XO (XO (XO (XO (XI (XO (XI (XO (XI (XO (XI (XO (XO (XI (XO (XI
    (XO (XO (XO (XO (XO (XO (XO (XO (XO (XO (XO (XI (XO (XI (XI (XI (XO (XI
    (XI (XI (XI (XI (XI (XI (XI (XI (XI (XI (XI (XI (XI (XI (XO (XO (XI (XO
    (XI (XO (XI (XO (XI (XO (XO (XO (XO
    XH)))))))))))))))))))))))))))))))))))))))))))))))))))))))))))))))) :: ((Npos
    (XI (XO (XI (XO (XO (XI (XI (XO (XO (XO (XO (XI (XO (XO (XO (XO (XO (XI
    (XO (XI (XO (XI (XI (XI (XI (XI (XI (XO (XO (XO (XO (XO (XO (XO (XI (XO
    (XO (XO (XI (XO (XI (XO (XI (XO (XI (XI (XI (XI (XO (XI (XI (XI (XI (XO
    (XO (XO (XO (XI (XO (XI (XO (XO (XO
    XH)))))))))))))))))))))))))))))))))))))))))))))))))))))))))))))))) :: ((Npos
    (XI (XI (XO (XO (XO (XI (XI (XI (XI (XI (XI (XI (XI (XO (XO (XI (XO (XI
    (XI (XO (XO (XI (XI (XO (XI (XI (XO (XI (XI (XI (XI (XI (XO (XI (XO (XO
    (XO (XO (XI (XI (XO (XI (XO (XI (XO (XI (XI (XI (XI (XI (XO (XI (XI (XO
    (XO (XI (XO (XI (XO (XO (XO (XO (XO
    XH)))))))))))))))))))))))))))))))))))))))))))))))))))))))))))))))) :: ((Npos
    (XO (XO (XI (XO (XI (XO (XO (XI (XI (XI (XI (XI (XI (XO (XI (XO (XI (XO
    (XI (XI (XI (XO (XI (XO (XI (XO (XI (XI (XO (XI (XO (XO (XI (XI (XI (XI
    (XO (XI (XI (XI (XI (XO (XI (XO (XI (XI (XO (XO (XO (XO (XO (XO (XO (XI
    (XI (XI (XO (XI (XI (XO (XO (XO (XI
    XH)))))))))))))))))))))))))))))))))))))))))))))))))))))))))))))))) :: ((Npos
    (XO (XI (XI (XO (XI (XI (XI (XO (XO (XO (XO (XO (XI (XO (XI (XO (XO (XO
    (XO (XO (XI (XI (XI (XO (XI (XI (XI (XI (XO (XO (XI (XI (XO (XI (XO (XI
    (XI (XI (XO (XO (XO (XI (XI (XO (XO (XO (XO (XO (XI (XI (XI (XI (XO (XO
    (XI (XI (XO (XO (XI (XO (XI (XO (XO
    XH)))))))))))))))))))))))))))))))))))))))))))))))))))))))))))))))) :: ((Npos
    (XI (XO (XI (XI (XI (XI (XI (XI (XO (XI (XI (XI (XI (XI (XO (XI (XO (XI
    (XI (XI (XO (XI (XO (XI (XO (XO (XI (XO (XI (XI (XI (XO (XO (XI (XI (XO
    (XO (XI (XI (XI (XI (XO (XO (XI (XI (XO (XO (XI (XO (XI (XI (XO (XI (XO
    (XI (XO (XI (XI (XI (XI (XI (XI
    XH))))))))))))))))))))))))))))))))))))))))))))))))))))))))))))))) :: ((Npos
    (XI (XI (XI (XI (XI (XO (XO (XO (XI (XI (XI (XO (XO (XI (XO (XO (XO (XI
    (XO (XI (XO (XI (XI (XI (XI (XI (XI (XI (XI (XO (XO (XI (XI (XO (XO (XI
    (XO (XO (XI (XI (XI (XO (XO (XO (XI (XO (XO (XO (XI (XI (XO (XI (XI (XO
    (XI (XO (XO (XI (XI
    XH)))))))))))))))))))))))))))))))))))))))))))))))))))))))))))) :: ((Npos
    (XO (XI (XI (XI (XO (XO (XO (XI (XI (XO (XO (XO (XO (XO (XI (XO (XO (XI
    (XO (XO (XO (XO (XO (XO (XO (XI (XO (XO (XO (XI (XO (XI (XI (XO (XO (XO
    (XI (XI (XO (XI (XI (XI (XO (XI (XO (XI (XI (XO (XI (XI (XO (XO (XO (XO
    (XO (XO (XO (XI (XO (XI (XO (XO (XO
    XH)))))))))))))))))))))))))))))))))))))))))))))))))))))))))))))))) :: ((Npos
    (XO (XI (XO (XO (XI (XI (XO (XI (XO (XO (XI (XO (XI (XI (XO (XO (XO (XO
    (XI (XI (XO (XI (XI (XO (XI (XI (XI (XO (XI (XO (XI (XO (XI (XO (XI (XO
    (XI (XI (XI (XI (XO (XO (XO (XI (XO (XO (XO (XO (XO (XO (XI (XO (XI (XI
    (XO (XI (XO (XI (XO (XI (XI (XO (XO
    XH)))))))))))))))))))))))))))))))))))))))))))))))))))))))))))))))) :: ((Npos
    (XI (XO (XO (XO (XO (XO (XO (XO (XI (XO (XI (XI (XI (XI (XO (XI (XO (XO
    (XI (XI (XO (XI (XI (XI (XO (XO (XI (XI (XI (XO (XI (XI (XI (XI (XI (XI
    (XI (XO (XI (XI (XI (XO (XO (XO (XI (XO (XO (XO (XO (XI (XO (XI (XI (XO
    (XI (XO (XO (XI (XO (XI (XI (XI (XI
    XH)))))))))))))))))))))))))))))))))))))))))))))))))))))))))))))))) :: ((Npos
    (XO (XO (XO (XO (XO (XO (XI (XO (XI (XI (XI (XO (XI (XO (XI (XI (XI (XO
    (XI (XO (XI (XI (XI (XO (XI (XI (XI (XI (XI (XI (XI (XI (XO (XI (XO (XI
    (XO (XO (XO (XO (XO (XO (XO (XO (XO (XO (XO (XO (XO (XI (XO (XI (XO (XO
    (XO (XI (XO (XO (XO (XO (XO (XI
    XH))))))))))))))))))))))))))))))))))))))))))))))))))))))))))))))) :: ((Npos
    (XO (XI (XO (XO (XO (XO (XI (XO (XO (XO (XI (XI (XI (XO (XO (XO (XI (XO
    (XI (XI (XI (XI (XO (XI (XI (XI (XO (XO (XI (XI (XO (XI (XI (XI (XO (XI
    (XO (XO (XO (XI (XI (XO (XI (XO (XO (XI (XO (XI (XO (XO (XI (XI (XI (XO
    (XI (XI (XO (XO (XO (XI (XO (XI (XO
    XH)))))))))))))))))))))))))))))))))))))))))))))))))))))))))))))))) :: ((Npos
    (XO (XI (XI (XI (XI (XI (XI (XO (XO (XO (XI (XI (XO (XO (XI (XO (XO (XO
    (XO (XO (XI (XO (XI (XO (XI (XI (XI (XO (XO (XI (XO (XO (XO (XO (XI (XO
    (XI (XO (XO (XI (XI (XI (XO (XI (XO (XO (XO (XI (XO (XI (XI (XI (XO (XI
    (XO (XI (XO (XO (XO (XI (XO (XO (XI
    XH)))))))))))))))))))))))))))))))))))))))))))))))))))))))))))))))) :: ((Npos
    (XI (XI (XI (XO (XO (XO (XO (XO (XO (XI (XI (XO (XO (XO (XI (XI (XO (XO
    (XO (XI (XI (XO (XI (XO (XI (XO (XI (XO (XI (XI (XI (XO (XI (XI (XI (XO
    (XI (XI (XI (XI (XO (XI (XI (XO (XI (XO (XO (XI (XI (XI (XI (XI (XI (XI
    (XI (XI (XO (XI (XI (XI
    XH))))))))))))))))))))))))))))))))))))))))))))))))))))))))))))) :: ((Npos
    (XI (XI (XO (XO (XO (XO (XI (XO (XI (XI (XI (XO (XO (XI (XI (XO (XI (XO
    (XO (XO (XI (XO (XI (XI (XI (XO (XI (XO (XI (XO (XO (XO (XO (XO (XI (XO
    (XO (XO (XO (XO (XI (XI (XO (XI (XO (XO (XI (XI (XI (XO (XI (XO (XI (XO
    (XO (XI (XO (XO (XI (XO (XI (XI (XO
    XH)))))))))))))))))))))))))))))))))))))))))))))))))))))))))))))))) :: ((Npos
    (XO (XI (XI (XI (XI (XO (XO (XO (XO (XO (XO (XI (XI (XI (XI (XO (XO (XO
    (XI (XI (XI (XI (XI (XI (XI (XO (XI (XO (XI (XO (XO (XI (XI (XI (XI (XI
    (XI (XO (XI (XO (XI (XO (XI (XI (XO (XI (XI (XI (XO (XI (XI (XO (XO (XO
    (XI (XI (XI (XO (XO (XO (XO (XI
    XH))))))))))))))))))))))))))))))))))))))))))))))))))))))))))))))) :: ((Npos
    (XI (XO (XO (XI (XO (XI (XI (XI (XO (XO (XO (XO (XO (XO (XI (XO (XI (XI
    (XI (XI (XI (XO (XO (XI (XI (XO (XO (XI (XI (XI (XO (XI (XI (XI (XI (XO
    (XO (XI (XO (XI (XI (XI (XO (XO (XI (XO (XO (XO (XI (XI (XO (XI (XI (XI
    (XI (XO (XO (XI
    XH))))))))))))))))))))))))))))))))))))))))))))))))))))))))))) :: ((Npos
    (XO (XO (XI (XI (XO (XI (XO (XI (XI (XI (XI (XO (XI (XO (XI (XO (XI (XI
    (XO (XO (XO (XI (XO (XO (XO (XO (XI (XO (XO (XI (XI (XI (XI (XI (XI (XO
    (XI (XI (XI (XI (XO (XI (XI (XI (XO (XO (XO (XO (XI (XI (XI (XI (XO (XI
    (XI (XI (XI (XO (XO (XO (XI (XO
    XH))))))))))))))))))))))))))))))))))))))))))))))))))))))))))))))) :: ((Npos
    (XI (XI (XI (XI (XI (XI (XI (XO (XO (XI (XO (XI (XO (XO (XO (XO (XI (XO
    (XI (XO (XI (XO (XO (XO (XI (XI (XO (XO (XI (XI (XO (XO (XI (XO (XI (XI
    (XO (XO (XI (XI (XI (XO (XI (XI (XI (XO (XI (XO (XI (XI (XO (XI (XI (XI
    (XI (XO (XO (XO (XI (XI (XO
    XH)))))))))))))))))))))))))))))))))))))))))))))))))))))))))))))) :: ((Npos
    (XI (XO (XI (XO (XO (XI (XI (XI (XO (XO (XI (XO (XI (XO (XO (XO (XI (XI
    (XI (XO (XO (XO (XO (XI (XO (XI (XO (XO (XI (XI (XO (XI (XI (XI (XI (XI
    (XO (XI (XI (XI (XO (XO (XO (XI (XO (XO (XO (XI (XI (XO (XO (XO (XO (XO
    (XI (XO (XI (XO (XI
    XH)))))))))))))))))))))))))))))))))))))))))))))))))))))))))))) :: ((Npos
    (XO (XO (XO (XO (XO (XO (XI (XI (XI (XO (XO (XO (XI (XO (XI (XO (XI (XO
    (XO (XO (XI (XO (XI (XO (XO (XO (XI (XO (XI (XI (XI (XO (XO (XI (XO (XI
    (XI (XI (XI (XO (XO (XI (XI (XI (XI (XI (XO (XO (XI (XO (XI (XI (XI (XI
    (XO (XI (XI (XI (XO (XO (XI (XO (XO
    XH)))))))))))))))))))))))))))))))))))))))))))))))))))))))))))))))) :: ((Npos
    (XI (XI (XI (XO (XO (XO (XO (XI (XO (XO (XI (XI (XO (XO (XO (XO (XI (XO
    (XI (XO (XO (XI (XI (XI (XI (XI (XI (XI (XO (XO (XO (XO (XI (XO (XO (XI
    (XI (XO (XI (XI (XO (XI (XO (XO (XI (XO (XI (XO (XI (XO (XI (XI (XI (XO
    (XI (XO (XO (XO (XO (XI (XI (XO (XO
    XH)))))))))))))))))))))))))))))))))))))))))))))))))))))))))))))))) :: ((Npos
    (XO (XO (XO (XI (XI (XO (XO (XI (XO (XO (XO (XI (XI (XI (XO (XI (XO (XO
    (XI (XO (XI (XO (XI (XO (XI (XO (XO (XI (XI (XI (XO (XI (XO (XI (XO (XO
    (XO (XO (XI (XI (XI (XI (XI (XI (XI (XO (XI (XI (XI (XI (XI (XO (XO (XO
    (XI (XI (XI (XO (XI
    XH)))))))))))))))))))))))))))))))))))))))))))))))))))))))))))) :: ((Npos
    (XI (XO (XI (XI (XI (XO (XO (XO (XI (XO (XO (XO (XI (XI (XO (XO (XI (XI
    (XI (XI (XI (XO (XO (XO (XO (XO (XI (XI (XI (XO (XI (XO (XI (XI (XI (XO
    (XI (XI (XO (XI (XO (XO (XI (XI (XI (XI (XI (XO (XI (XO (XO (XI (XI (XI
    (XI (XO (XO (XO (XO (XI (XO (XO (XI
    XH)))))))))))))))))))))))))))))))))))))))))))))))))))))))))))))))) :: ((Npos
    (XI (XO (XO (XI (XO (XI (XO (XI (XI (XI (XI (XO (XO (XO (XI (XO (XO (XI
    (XO (XI (XI (XO (XI (XO (XI (XO (XO (XO (XI (XI (XI (XO (XO (XO (XO (XI
    (XO (XI (XI (XO (XO (XI (XO (XO (XO (XI (XO (XO (XO (XI (XO (XI (XO (XO
    (XO (XI (XO (XO (XO (XO (XO (XI (XI
    XH)))))))))))))))))))))))))))))))))))))))))))))))))))))))))))))))) :: ((Npos
    (XI (XO (XI (XI (XI (XI (XO (XI (XI (XO (XO (XI (XO (XO (XI (XO (XO (XI
    (XO (XI (XI (XO (XI (XI (XO (XI (XI (XI (XI (XO (XO (XI (XI (XO (XI (XI
    (XI (XI (XI (XO (XO (XI (XI (XO (XO (XI (XI (XI (XO (XI (XI (XI (XI (XI
    (XI (XI (XO (XO (XO (XO (XI (XO (XO
    XH)))))))))))))))))))))))))))))))))))))))))))))))))))))))))))))))) :: ((Npos
    (XI (XI (XO (XO (XO (XI (XI (XI (XO (XI (XI (XO (XO (XO (XI (XO (XI (XO
    (XO (XO (XO (XI (XI (XI (XO (XO (XI (XI (XI (XI (XI (XO (XO (XO (XO (XI
    (XO (XI (XO (XI (XI (XO (XI (XI (XI (XI (XI (XI (XI (XI (XO (XI (XI (XI
    (XO (XO (XO (XO (XI
    XH)))))))))))))))))))))))))))))))))))))))))))))))))))))))))))) :: ((Npos
    (XI (XI (XI (XI (XO (XO (XI (XO (XI (XO (XI (XO (XO (XI (XO (XI (XO (XO
    (XI (XI (XI (XI (XO (XO (XI (XI (XO (XI (XI (XI (XI (XO (XO (XI (XI (XO
    (XO (XO (XO (XI (XI (XO (XI (XI (XO (XI (XO (XO (XO (XI (XO (XI (XO (XI
    (XO (XI (XO (XO (XI (XI (XO (XI (XI
    XH)))))))))))))))))))))))))))))))))))))))))))))))))))))))))))))))) :: ((Npos
    (XO (XO (XI (XI (XI (XO (XO (XI (XI (XI (XI (XI (XO (XO (XI (XO (XI (XO
    (XO (XO (XO (XO (XI (XO (XI (XO (XO (XI (XO (XI (XO (XO (XI (XI (XI (XI
    (XI (XI (XI (XI (XI (XI (XI (XO (XI (XI (XI (XI (XI (XO (XO (XI (XI (XO
    (XI (XO (XO (XO (XO (XO (XI
    XH)))))))))))))))))))))))))))))))))))))))))))))))))))))))))))))) :: ((Npos
    (XO (XO (XI (XI (XI (XO (XO (XO (XO (XI (XI (XO (XI (XI (XI (XI (XI (XO
    (XO (XI (XI (XI (XO (XI (XO (XI (XO (XO (XO (XI (XO (XO (XI (XI (XO (XO
    (XI (XO (XI (XO (XO (XI (XO (XI (XO (XO (XI (XI (XO (XO (XO (XI (XI (XI
    (XI (XI (XI (XO (XO (XO (XI (XO (XO
    XH)))))))))))))))))))))))))))))))))))))))))))))))))))))))))))))))) :: ((Npos
    (XI (XO (XO (XO (XO (XI (XO (XI (XI (XI (XI (XO (XI (XO (XO (XO (XI (XO
    (XI (XI (XI (XI (XI (XO (XI (XI (XO (XO (XO (XO (XI (XI (XO (XO (XO (XI
    (XI (XO (XO (XI (XI (XO (XI (XI (XI (XO (XI (XO (XI (XO (XI (XO (XI (XI
    (XO (XI (XO (XI (XO (XO (XO
    XH)))))))))))))))))))))))))))))))))))))))))))))))))))))))))))))) :: ((Npos
    (XI (XO (XI (XO (XI (XI (XI (XI (XI (XO (XI (XO (XO (XI (XO (XI (XI (XO
    (XI (XO (XI (XI (XO (XI (XO (XO (XO (XO (XI (XI (XO (XI (XO (XI (XO (XI
    (XI (XO (XO (XI (XO (XO (XI (XO (XI (XI (XO (XI (XO (XI (XI (XI (XO (XI
    (XO (XO (XO (XO (XI (XO (XI (XI (XI
    XH)))))))))))))))))))))))))))))))))))))))))))))))))))))))))))))))) :: ((Npos
    (XI (XO (XI (XO (XI (XI (XI (XI (XI (XO (XI (XO (XO (XI (XO (XO (XO (XI
    (XI (XO (XI (XO (XO (XI (XI (XO (XI (XI (XI (XI (XO (XO (XI (XI (XO (XI
    (XO (XI (XO (XO (XI (XO (XI (XI (XO (XI (XO (XI (XI (XO (XI (XO (XI (XO
    (XO (XI (XO (XI (XO (XI (XO
    XH)))))))))))))))))))))))))))))))))))))))))))))))))))))))))))))) :: ((Npos
    (XO (XI (XI (XO (XI (XI (XO (XO (XO (XO (XI (XI (XO (XO (XO (XO (XI (XI
    (XI (XO (XI (XI (XO (XI (XI (XI (XO (XI (XO (XI (XI (XO (XO (XI (XO (XO
    (XI (XO (XI (XO (XI (XI (XI (XO (XO (XO (XI (XO (XI (XO (XI (XI (XO (XO
    (XO (XI (XI (XO (XO (XI (XO
    XH)))))))))))))))))))))))))))))))))))))))))))))))))))))))))))))) :: ((Npos
    (XI (XO (XI (XI (XI (XO (XO (XI (XO (XO (XO (XO (XO (XI (XI (XO (XI (XO
    (XO (XI (XO (XI (XO (XO (XO (XI (XI (XI (XI (XI (XI (XO (XO (XI (XO (XI
    (XI (XI (XI (XO (XO (XI (XI (XO (XI (XI (XO (XO (XO (XI (XI (XI (XI (XO
    (XO (XO (XI (XI (XO (XI (XI
    XH)))))))))))))))))))))))))))))))))))))))))))))))))))))))))))))) :: ((Npos
    (XI (XI (XI (XI (XI (XO (XI (XO (XO (XI (XI (XI (XI (XO (XI (XI (XI (XO
    (XI (XO (XO (XO (XO (XI (XO (XO (XO (XO (XO (XO (XO (XI (XO (XO (XO (XO
    (XI (XI (XO (XO (XI (XI (XI (XI (XO (XI (XI (XO (XO (XO (XI (XO (XO (XI
    (XO (XO (XI (XI (XO (XI (XO (XI
    XH))))))))))))))))))))))))))))))))))))))))))))))))))))))))))))))) :: ((Npos
    (XO (XI (XO (XO (XI (XI (XO (XO (XO (XO (XI (XO (XO (XO (XO (XO (XI (XO
    (XI (XI (XO (XO (XI (XO (XI (XO (XI (XI (XI (XO (XO (XO (XO (XI (XO (XO
    (XO (XO (XI (XO (XI (XI (XO (XI (XI (XI (XO (XO (XI (XI (XI (XI (XO (XI
    (XO (XI (XO (XI (XO (XO (XI (XI
    XH))))))))))))))))))))))))))))))))))))))))))))))))))))))))))))))) :: ((Npos
    (XO (XO (XI (XI (XO (XI (XO (XI (XI (XO (XO (XI (XO (XO (XO (XO (XO (XI
    (XO (XO (XI (XI (XO (XI (XI (XI (XI (XO (XO (XI (XO (XI (XI (XI (XO (XI
    (XI (XI (XO (XO (XI (XI (XO (XO (XI (XO (XI (XI (XO (XO (XI (XO (XO (XI
    (XO (XI (XO (XI (XO (XI (XO
    XH)))))))))))))))))))))))))))))))))))))))))))))))))))))))))))))) :: ((Npos
    (XO (XI (XI (XO (XO (XI (XO (XO (XI (XI (XI (XO (XO (XI (XI (XO (XO (XO
    (XI (XI (XO (XI (XI (XI (XO (XO (XI (XI (XO (XO (XI (XI (XI (XI (XI (XO
    (XO (XI (XI (XI (XI (XO (XI (XI (XO (XO (XI (XO (XI (XI (XO (XO (XO (XI
    (XI (XO (XO (XO (XI (XI (XO (XO (XO
    XH)))))))))))))))))))))))))))))))))))))))))))))))))))))))))))))))) :: ((Npos
    (XI (XO (XI (XI (XO (XO (XO (XO (XI (XO (XO (XO (XI (XO (XI (XI (XO (XO
    (XI (XO (XO (XI (XO (XO (XO (XI (XI (XO (XI (XI (XO (XI (XI (XI (XI (XO
    (XO (XI (XI (XO (XO (XI (XO (XO (XI (XO (XO (XO (XO (XO (XI (XI (XO (XI
    (XO (XI (XI (XO (XO (XO (XI (XI (XI
    XH)))))))))))))))))))))))))))))))))))))))))))))))))))))))))))))))) :: ((Npos
    (XI (XI (XI (XI (XO (XI (XI (XI (XI (XO (XO (XO (XI (XO (XI (XO (XO (XO
    (XI (XI (XO (XO (XO (XO (XO (XI (XO (XO (XO (XO (XO (XO (XI (XI (XI (XO
    (XI (XI (XO (XO (XI (XI (XO (XI (XO (XI (XI (XI (XI (XI (XI (XO (XO (XI
    (XO (XO (XI (XO (XO (XO (XO (XI (XO
    XH)))))))))))))))))))))))))))))))))))))))))))))))))))))))))))))))) :: ((Npos
    (XO (XI (XO (XI (XO (XI (XO (XI (XI (XO (XI (XO (XO (XI (XO (XO (XI (XI
    (XO (XO (XI (XI (XI (XI (XO (XO (XO (XI (XI (XO (XO (XI (XI (XI (XI (XI
    (XO (XO (XI (XO (XI (XI (XI (XO (XI (XO (XO (XI (XI (XI (XO (XO (XO (XI
    (XO (XO (XO (XO (XI (XO (XO (XO (XO
    XH)))))))))))))))))))))))))))))))))))))))))))))))))))))))))))))))) :: ((Npos
    (XI (XO (XO (XO (XO (XO (XI (XI (XO (XO (XO (XI (XI (XI (XI (XO (XO (XO
    (XO (XI (XO (XO (XI (XO (XO (XO (XO (XO (XO (XO (XO (XI (XO (XO (XI (XO
    (XO (XI (XI (XO (XO (XI (XI (XO (XO (XI (XI (XI (XI (XI (XI (XI (XO (XO
    (XO (XO (XI (XO (XI (XO (XI
    XH)))))))))))))))))))))))))))))))))))))))))))))))))))))))))))))) :: ((Npos
    (XO (XO (XI (XI (XO (XI (XO (XO (XO (XO (XO (XO (XI (XI (XO (XI (XI (XO
    (XI (XO (XI (XI (XO (XO (XO (XI (XI (XI (XI (XO (XI (XI (XI (XI (XI (XI
    (XO (XI (XI (XO (XI (XI (XI (XI (XI (XO (XO (XI (XO (XI (XO (XO (XI (XI
    (XI (XO (XO (XI (XI (XI (XO (XI (XI
    XH)))))))))))))))))))))))))))))))))))))))))))))))))))))))))))))))) :: ((Npos
    (XO (XI (XO (XO (XI (XO (XO (XI (XO (XO (XI (XO (XI (XI (XI (XO (XO (XO
    (XI (XI (XO (XO (XO (XI (XO (XO (XI (XI (XO (XI (XI (XI (XI (XI (XO (XI
    (XO (XI (XI (XI (XI (XO (XI (XO (XI (XO (XI (XI (XI (XO (XO (XI (XO (XI
    (XI (XI (XI (XI (XO (XI (XO (XI (XI
    XH)))))))))))))))))))))))))))))))))))))))))))))))))))))))))))))))) :: [])))))))))))))))))))))))))))))))))))))))))))))))))))))))))))))))) :: (((Npos
    (XO (XI (XO (XO (XI (XI (XI (XO (XI (XI (XI (XI (XI (XI (XI (XI (XI (XI
    (XO (XO (XO (XO (XO (XO (XO (XO (XO (XI (XO (XI (XO (XI (XO (XI (XI (XO
    (XO (XI (XO (XO (XI (XI (XI (XO (XI (XO (XI (XI (XO (XI (XI (XI (XI (XO
    (XO (XI (XO (XO (XO (XI (XO (XO
    XH))))))))))))))))))))))))))))))))))))))))))))))))))))))))))))))) :: ((Npos
    (XO (XO (XI (XO (XO (XI (XO (XI (XI (XI (XI (XI (XI (XO (XI (XI (XO (XO
    (XI (XI (XO (XO (XO (XI (XI (XI (XI (XO (XI (XO (XI (XI (XO (XI (XI (XI
    (XI (XO (XO (XO (XI (XO (XO (XI (XO (XO (XO (XI (XI (XO (XI (XI (XI (XO
    (XI (XO (XI (XO (XO (XI (XI (XI
    XH))))))))))))))))))))))))))))))))))))))))))))))))))))))))))))))) :: ((Npos
    (XI (XO (XO (XI (XI (XI (XO (XO (XI (XI (XI (XO (XI (XO (XO (XI (XI (XO
    (XO (XO (XI (XO (XO (XO (XI (XI (XO (XI (XO (XO (XI (XO (XI (XI (XI (XO
    (XO (XI (XO (XI (XO (XO (XI (XI (XI (XI (XO (XI (XI (XI (XO (XO (XO (XO
    (XO (XO (XI (XI (XI (XI (XO (XO (XO
    XH)))))))))))))))))))))))))))))))))))))))))))))))))))))))))))))))) :: ((Npos
    (XI (XI (XO (XO (XO (XO (XO (XO (XO (XO (XI (XO (XI (XO (XO (XO (XI (XI
    (XI (XO (XO (XO (XO (XO (XO (XI (XI (XO (XO (XI (XO (XO (XO (XO (XI (XO
    (XI (XI (XO (XI (XI (XI (XO (XO (XO (XI (XO (XO (XI (XI (XO (XO (XO (XO
    (XO (XO (XO (XO (XO (XO (XO (XO (XI
    XH)))))))))))))))))))))))))))))))))))))))))))))))))))))))))))))))) :: ((Npos
    (XO (XI (XO (XI (XO (XO (XI (XO (XO (XI (XI (XI (XI (XO (XI (XI (XO (XI
    (XO (XI (XI (XO (XO (XI (XI (XO (XI (XO (XO (XI (XI (XI (XI (XO (XI (XO
    (XI (XI (XI (XO (XO (XO (XO (XO (XI (XI (XI (XI (XI (XO (XI (XO (XO (XI
    (XI (XI (XO (XO (XI (XI (XI (XI (XO
    XH)))))))))))))))))))))))))))))))))))))))))))))))))))))))))))))))) :: ((Npos
    (XO (XO (XO (XO (XO (XI (XO (XI (XI (XO (XI (XI (XI (XO (XI (XI (XI (XO
    (XI (XO (XI (XO (XO (XO (XO (XO (XO (XI (XO (XI (XI (XO (XO (XO (XI (XO
    (XO (XI (XI (XI (XO (XO (XO (XO (XI (XI (XO (XI (XO (XI (XI (XO (XI (XO
    (XI (XO (XO (XI (XI (XI (XO (XO (XO
    XH)))))))))))))))))))))))))))))))))))))))))))))))))))))))))))))))) :: ((Npos
    (XI (XO (XI (XO (XO (XO (XO (XO (XO (XO (XO (XI (XI (XO (XO (XO (XO (XI
    (XO (XO (XO (XI (XO (XI (XO (XI (XI (XO (XO (XO (XI (XO (XI (XI (XO (XI
    (XI (XO (XO (XO (XI (XI (XO (XO (XI (XI (XI (XO (XI (XO (XI (XI (XI (XO
    (XO (XO (XI (XI (XI (XO (XI (XO (XO
    XH)))))))))))))))))))))))))))))))))))))))))))))))))))))))))))))))) :: ((Npos
    (XO (XO (XO (XO (XI (XI (XO (XO (XO (XO (XI (XO (XI (XI (XI (XO (XO (XI
    (XI (XO (XO (XI (XI (XI (XI (XO (XI (XO (XO (XI (XO (XI (XI (XO (XI (XO
    (XO (XO (XO (XO (XO (XI (XI (XO (XI (XI (XO (XI (XO (XO (XO (XI (XO (XO
    (XO (XO (XI (XO (XI (XO (XO
    XH)))))))))))))))))))))))))))))))))))))))))))))))))))))))))))))) :: ((Npos
    (XO (XO (XI (XI (XO (XO (XI (XO (XO (XO (XI (XI (XI (XO (XO (XO (XI (XO
    (XI (XI (XO (XI (XO (XO (XO (XO (XI (XI (XO (XI (XO (XO (XO (XI (XO (XI
    (XO (XI (XO (XI (XO (XI (XI (XO (XI (XO (XI (XI (XO (XO (XO (XO (XI (XO
    (XI (XO (XI (XI (XO (XI (XO (XI
    XH))))))))))))))))))))))))))))))))))))))))))))))))))))))))))))))) :: ((Npos
    (XI (XO (XI (XI (XO (XI (XO (XI (XO (XO (XO (XI (XI (XO (XI (XI (XO (XI
    (XI (XO (XO (XI (XO (XI (XI (XO (XI (XO (XI (XI (XI (XO (XO (XI (XO (XO
    (XI (XI (XO (XO (XO (XO (XI (XO (XI (XI (XO (XO (XI (XO (XI (XO (XO (XI
    (XO (XI (XO (XO (XO (XO (XI (XI
    XH))))))))))))))))))))))))))))))))))))))))))))))))))))))))))))))) :: ((Npos
    (XO (XO (XO (XI (XO (XI (XO (XI (XO (XI (XO (XI (XO (XI (XI (XI (XO (XI
    (XI (XI (XO (XI (XO (XO (XI (XO (XO (XI (XI (XI (XI (XI (XO (XI (XO (XO
    (XO (XO (XO (XI (XI (XI (XI (XO (XI (XO (XO (XI (XO (XI (XO (XO (XI (XO
    (XO (XO (XI (XI (XI (XI (XI
    XH)))))))))))))))))))))))))))))))))))))))))))))))))))))))))))))) :: ((Npos
    (XO (XI (XI (XI (XO (XI (XO (XI (XO (XI (XO (XO (XI (XO (XI (XO (XO (XO
    (XO (XI (XI (XI (XO (XI (XO (XO (XO (XI (XI (XO (XI (XO (XO (XO (XI (XO
    (XI (XO (XI (XO (XO (XI (XO (XO (XO (XO (XO (XO (XI (XI (XI (XO (XI (XI
    (XO (XO (XI (XI (XO (XI (XI (XO (XI
    XH)))))))))))))))))))))))))))))))))))))))))))))))))))))))))))))))) :: ((Npos
    (XI (XO (XI (XO (XI (XI (XO (XI (XI (XI (XI (XO (XO (XI (XI (XI (XO (XO
    (XI (XO (XO (XI (XI (XO (XO (XI (XO (XI (XO (XI (XI (XI (XI (XI (XI (XI
    (XI (XO (XI (XI (XO (XO (XI (XO (XO (XO (XO (XO (XO (XO (XI (XI (XO (XI
    (XO (XI (XI (XO (XI (XO
    XH))))))))))))))))))))))))))))))))))))))))))))))))))))))))))))) :: ((Npos
    (XI (XI (XO (XO (XI (XI (XI (XO (XI (XI (XO (XI (XO (XI (XO (XI (XI (XO
    (XI (XO (XO (XI (XO (XI (XO (XO (XO (XI (XO (XO (XI (XO (XI (XO (XI (XI
    (XI (XO (XO (XI (XI (XO (XO (XO (XI (XO (XI (XI (XI (XI (XO (XO (XO (XI
    (XI (XO (XI (XO (XO (XI (XI (XO
    XH))))))))))))))))))))))))))))))))))))))))))))))))))))))))))))))) :: ((Npos
    (XO (XI (XI (XO (XO (XO (XI (XI (XO (XO (XO (XI (XI (XO (XO (XI (XI (XO
    (XI (XO (XO (XI (XI (XO (XI (XI (XO (XO (XO (XO (XI (XO (XO (XI (XO (XO
    (XI (XO (XI (XI (XO (XO (XO (XI (XO (XI (XO (XI (XO (XO (XO (XO (XO (XO
    (XI (XI (XI (XI (XO (XI
    XH))))))))))))))))))))))))))))))))))))))))))))))))))))))))))))) :: ((Npos
    (XI (XO (XO (XI (XI (XI (XI (XO (XI (XO (XI (XI (XO (XI (XO (XO (XI (XO
    (XO (XO (XI (XO (XI (XO (XO (XI (XI (XO (XI (XI (XI (XI (XO (XO (XI (XI
    (XO (XI (XI (XI (XI (XO (XI (XO (XI (XO (XO (XI (XO (XI (XO (XO (XO (XI
    (XO (XI (XO (XO (XI (XI (XI (XO (XI
    XH)))))))))))))))))))))))))))))))))))))))))))))))))))))))))))))))) :: ((Npos
    (XO (XI (XO (XO (XO (XO (XO (XI (XI (XO (XO (XI (XO (XO (XO (XI (XO (XI
    (XI (XI (XO (XI (XI (XO (XI (XI (XI (XI (XI (XI (XO (XO (XI (XI (XI (XO
    (XO (XI (XO (XI (XO (XI (XO (XI (XO (XI (XI (XO (XI (XI (XO (XO (XI (XO
    (XI (XO (XO (XI (XO (XI (XI (XO (XI
    XH)))))))))))))))))))))))))))))))))))))))))))))))))))))))))))))))) :: ((Npos
    (XO (XI (XI (XI (XO (XO (XI (XO (XI (XO (XO (XI (XO (XI (XI (XO (XI (XO
    (XO (XI (XI (XO (XO (XO (XO (XO (XI (XI (XI (XI (XI (XI (XI (XI (XI (XI
    (XI (XO (XO (XI (XO (XI (XO (XO (XI (XO (XI (XO (XI (XI (XI (XO (XI (XI
    (XO (XO (XO (XI (XO (XO (XI (XI
    XH))))))))))))))))))))))))))))))))))))))))))))))))))))))))))))))) :: ((Npos
    (XI (XO (XO (XI (XI (XI (XI (XI (XI (XO (XO (XI (XI (XO (XI (XI (XO (XI
    (XO (XO (XO (XI (XI (XO (XO (XI (XI (XI (XI (XO (XI (XI (XI (XI (XO (XO
    (XI (XO (XI (XI (XO (XI (XI (XI (XI (XI (XI (XI (XI (XO (XO (XO (XI (XO
    (XI (XO (XO (XO (XO (XO (XO (XO
    XH))))))))))))))))))))))))))))))))))))))))))))))))))))))))))))))) :: ((Npos
    (XO (XI (XO (XO (XO (XO (XI (XI (XO (XI (XO (XI (XI (XO (XI (XO (XI (XO
    (XO (XI (XO (XI (XI (XI (XI (XO (XI (XO (XI (XI (XI (XI (XO (XI (XI (XO
    (XO (XO (XI (XI (XO (XO (XI (XO (XO (XO (XI (XO (XI (XO (XO (XI (XI (XO
    (XI (XO (XI (XI (XI (XI (XO (XI (XO
    XH)))))))))))))))))))))))))))))))))))))))))))))))))))))))))))))))) :: ((Npos
    (XO (XO (XO (XO (XO (XO (XO (XO (XI (XI (XI (XO (XO (XO (XI (XO (XO (XO
    (XO (XO (XI (XI (XO (XI (XO (XI (XI (XO (XI (XO (XI (XI (XI (XI (XO (XI
    (XO (XO (XI (XI (XO (XO (XO (XO (XI (XO (XO (XI (XO (XI (XI (XI (XO (XI
    (XI (XI (XI (XI (XI (XO (XO (XO
    XH))))))))))))))))))))))))))))))))))))))))))))))))))))))))))))))) :: ((Npos
    (XO (XO (XI (XI (XO (XO (XI (XI (XO (XI (XO (XI (XI (XO (XI (XI (XI (XO
    (XI (XO (XO (XI (XI (XI (XI (XO (XO (XO (XI (XI (XO (XI (XI (XO (XO (XO
    (XO (XI (XO (XI (XI (XO (XI (XO (XO (XO (XO (XI (XO (XI (XI (XO (XI (XI
    (XI (XO (XI (XI (XI (XI (XO
    XH)))))))))))))))))))))))))))))))))))))))))))))))))))))))))))))) :: ((Npos
    (XI (XO (XO (XI (XO (XI (XO (XI (XO (XI (XI (XO (XI (XI (XO (XI (XI (XI
    (XI (XO (XI (XI (XI (XI (XO (XI (XI (XO (XO (XI (XI (XI (XO (XO (XI (XO
    (XI (XI (XI (XI (XO (XO (XO (XI (XI (XO (XO (XO (XO (XO (XO (XO (XI (XO
    (XI (XO (XO (XO (XI (XI (XI (XI (XI
    XH)))))))))))))))))))))))))))))))))))))))))))))))))))))))))))))))) :: ((Npos
    (XO (XI (XI (XO (XI (XO (XI (XI (XO (XO (XI (XO (XI (XO (XO (XI (XI (XI
    (XO (XO (XI (XI (XI (XO (XO (XO (XO (XI (XO (XI (XI (XI (XI (XI (XO (XO
    (XO (XO (XO (XO (XO (XI (XO (XI (XI (XO (XI (XO (XI (XO (XO (XO (XI (XI
    (XO (XI (XO (XO (XI (XI (XO (XO (XO
    XH)))))))))))))))))))))))))))))))))))))))))))))))))))))))))))))))) :: ((Npos
    (XO (XO (XO (XO (XO (XO (XO (XI (XO (XI (XO (XO (XI (XI (XI (XI (XO (XO
    (XO (XI (XI (XI (XI (XO (XI (XI (XO (XI (XO (XI (XI (XO (XI (XI (XI (XI
    (XO (XI (XO (XI (XO (XO (XI (XO (XI (XI (XI (XI (XO (XO (XO (XO (XO (XO
    (XO (XO (XI (XI (XI (XI (XO (XO (XI
    XH)))))))))))))))))))))))))))))))))))))))))))))))))))))))))))))))) :: ((Npos
    (XI (XI (XO (XI (XO (XO (XO (XO (XO (XI (XI (XI (XO (XI (XO (XI (XO (XO
    (XO (XI (XI (XI (XO (XO (XO (XI (XO (XO (XO (XI (XI (XI (XO (XO (XI (XO
    (XI (XI (XO (XI (XO (XI (XO (XI (XI (XI (XO (XI (XO (XI (XO (XO (XI (XO
    (XI (XI (XI (XI (XO (XO (XI (XI (XI
    XH)))))))))))))))))))))))))))))))))))))))))))))))))))))))))))))))) :: ((Npos
    (XI (XI (XO (XO (XI (XI (XI (XI (XO (XI (XO (XI (XI (XI (XO (XI (XO (XI
    (XO (XI (XI (XI (XO (XI (XI (XO (XO (XO (XO (XO (XO (XO (XO (XO (XO (XI
    (XI (XO (XI (XO (XI (XO (XO (XO (XI (XO (XO (XI (XO (XI (XI (XI (XI (XI
    (XO (XI (XI (XI (XI (XI (XO (XI
    XH))))))))))))))))))))))))))))))))))))))))))))))))))))))))))))))) :: ((Npos
    (XI (XO (XI (XO (XO (XO (XO (XI (XI (XO (XI (XO (XI (XI (XI (XI (XO (XO
    (XO (XO (XO (XO (XI (XI (XI (XO (XO (XO (XO (XO (XI (XO (XO (XO (XI (XI
    (XO (XO (XI (XI (XI (XO (XI (XO (XI (XO (XO (XO (XO (XO (XI (XO (XO (XI
    (XO (XO (XI (XO (XI (XO (XO (XI (XI
    XH)))))))))))))))))))))))))))))))))))))))))))))))))))))))))))))))) :: ((Npos
    (XO (XI (XI (XO (XO (XO (XO (XI (XO (XO (XO (XI (XI (XO (XI (XI (XI (XI
    (XI (XI (XI (XO (XI (XO (XO (XO (XO (XI (XI (XO (XI (XO (XO (XO (XO (XI
    (XI (XO (XO (XI (XI (XO (XO (XO (XI (XO (XO (XO (XO (XI (XO (XO (XI (XO
    (XO (XI (XI (XI (XI (XO (XI (XO
    XH))))))))))))))))))))))))))))))))))))))))))))))))))))))))))))))) :: ((Npos
    (XI (XO (XI (XO (XO (XO (XO (XI (XI (XO (XO (XO (XO (XI (XO (XO (XI (XI
    (XI (XI (XO (XI (XI (XI (XI (XO (XO (XO (XI (XI (XI (XI (XO (XI (XO (XO
    (XO (XI (XI (XO (XO (XI (XO (XI (XI (XI (XI (XO (XI (XO (XO (XI (XI (XO
    (XO (XO (XI (XO (XO (XO (XO (XO (XI
    XH)))))))))))))))))))))))))))))))))))))))))))))))))))))))))))))))) :: ((Npos
    (XO (XI (XI (XO (XO (XO (XO (XO (XO (XO (XI (XI (XI (XI (XI (XO (XO (XI
    (XO (XO (XO (XI (XO (XI (XO (XI (XI (XO (XO (XI (XO (XO (XI (XO (XO (XI
    (XO (XO (XO (XI (XI (XO (XO (XO (XO (XO (XI (XO (XO (XO (XO (XI (XI (XI
    (XI (XO (XI (XI (XO (XI (XO
    XH)))))))))))))))))))))))))))))))))))))))))))))))))))))))))))))) :: ((Npos
    (XI (XI (XI (XI (XO (XI (XI (XO (XI (XI (XI (XO (XI (XI (XI (XO (XI (XO
    (XO (XI (XI (XI (XI (XO (XO (XI (XI (XI (XI (XO (XI (XI (XO (XI (XI (XO
    (XI (XI (XI (XI (XO (XO (XI (XI (XI (XI (XI (XI (XO (XI (XI (XO (XO (XI
    (XO (XO (XO (XI
    XH))))))))))))))))))))))))))))))))))))))))))))))))))))))))))) :: ((Npos
    (XO (XI (XI (XO (XO (XI (XO (XI (XO (XI (XO (XO (XO (XI (XI (XO (XO (XI
    (XO (XI (XI (XI (XI (XI (XO (XI (XO (XI (XI (XI (XO (XO (XO (XO (XI (XI
    (XI (XI (XO (XI (XI (XI (XO (XO (XI (XO (XO (XI (XI (XI (XO (XI (XO (XO
    (XO (XO (XO (XI (XO (XO (XI (XI
    XH))))))))))))))))))))))))))))))))))))))))))))))))))))))))))))))) :: ((Npos
    (XI (XO (XI (XO (XO (XO (XO (XO (XI (XI (XI (XI (XO (XI (XI (XO (XI (XI
    (XO (XI (XO (XI (XI (XI (XI (XO (XI (XO (XI (XI (XI (XI (XI (XO (XI (XO
    (XO (XO (XO (XI (XO (XO (XI (XO (XI (XI (XO (XI (XO (XI (XO (XI (XI (XI
    (XO (XI (XO (XI (XI (XI (XI (XO
    XH))))))))))))))))))))))))))))))))))))))))))))))))))))))))))))))) :: ((Npos
    (XO (XI (XI (XI (XO (XI (XI (XI (XI (XO (XO (XO (XO (XO (XI (XI (XI (XO
    (XO (XI (XO (XO (XO (XO (XI (XO (XO (XI (XO (XO (XO (XI (XO (XO (XI (XO
    (XO (XI (XI (XO (XI (XI (XO (XI (XI (XI (XO (XI (XI (XO (XO (XI (XI (XO
    (XI (XO (XI (XI (XO (XO (XI (XI (XI
    XH)))))))))))))))))))))))))))))))))))))))))))))))))))))))))))))))) :: ((Npos
    (XO (XI (XO (XO (XI (XI (XI (XO (XI (XO (XO (XI (XI (XO (XO (XO (XI (XI
    (XO (XO (XI (XI (XO (XO (XI (XO (XI (XO (XO (XI (XI (XO (XI (XO (XO (XO
    (XI (XO (XO (XI (XO (XO (XO (XO (XI (XI (XO (XI (XO (XI (XO (XI (XI (XI
    (XI (XI (XO (XI (XO (XI (XI
    XH)))))))))))))))))))))))))))))))))))))))))))))))))))))))))))))) :: ((Npos
    (XO (XO (XO (XO (XO (XO (XI (XI (XI (XO (XI (XO (XO (XO (XI (XO (XO (XI
    (XI (XI (XI (XO (XI (XO (XI (XI (XO (XO (XO (XI (XO (XO (XI (XI (XO (XI
    (XO (XO (XI (XI (XI (XO (XI (XI (XO (XO (XO (XI (XO (XI (XO (XI (XO (XO
    (XO (XI (XI (XI (XI (XI (XO
    XH)))))))))))))))))))))))))))))))))))))))))))))))))))))))))))))) :: ((Npos
    (XI (XI (XO (XO (XO (XO (XO (XI (XO (XO (XO (XI (XI (XO (XO (XI (XI (XI
    (XI (XO (XO (XI (XO (XO (XI (XI (XO (XO (XO (XO (XI (XO (XI (XI (XO (XI
    (XO (XI (XO (XO (XO (XO (XI (XI (XO (XO (XO (XO (XO (XO (XI (XI (XI (XI
    (XI (XO (XO (XO (XI (XI (XI (XI (XI
    XH)))))))))))))))))))))))))))))))))))))))))))))))))))))))))))))))) :: ((Npos
    (XO (XO (XI (XO (XO (XI (XI (XI (XI (XI (XO (XI (XI (XO (XI (XI (XI (XO
    (XI (XI (XO (XI (XI (XO (XO (XI (XO (XO (XO (XO (XO (XO (XO (XO (XO (XI
    (XI (XI (XO (XO (XI (XI (XO (XO (XO (XO (XI (XO (XO (XO (XI (XI (XO (XO
    (XI (XI (XI (XO (XO (XI (XO (XI
    XH))))))))))))))))))))))))))))))))))))))))))))))))))))))))))))))) :: ((Npos
    (XI (XO (XO (XI (XO (XO (XI (XI (XI (XO (XI (XO (XI (XO (XI (XO (XI (XO
    (XI (XO (XO (XO (XO (XI (XI (XI (XO (XI (XI (XI (XO (XO (XI (XI (XI (XI
    (XI (XI (XO (XO (XO (XI (XO (XI (XO (XI (XO (XI (XI (XI (XI (XO (XO (XO
    (XI (XI (XO (XI (XO (XO (XO
    XH)))))))))))))))))))))))))))))))))))))))))))))))))))))))))))))) :: ((Npos
    (XI (XI (XI (XO (XO (XO (XO (XO (XO (XO (XO (XO (XI (XO (XO (XO (XI (XI
    (XO (XI (XO (XI (XO (XI (XI (XI (XO (XI (XO (XO (XI (XI (XO (XO (XO (XO
    (XO (XO (XI (XI (XO (XI (XI (XI (XO (XO (XO (XO (XO (XI (XO (XI (XO (XO
    (XO (XO (XO (XO (XO (XO (XI (XI (XI
    XH)))))))))))))))))))))))))))))))))))))))))))))))))))))))))))))))) :: ((Npos
    (XI (XO (XI (XI (XO (XI (XI (XI (XI (XO (XI (XO (XI (XI (XI (XO (XI (XO
    (XO (XI (XO (XO (XI (XI (XO (XI (XO (XO (XO (XO (XO (XI (XO (XO (XO (XI
    (XO (XI (XO (XI (XO (XI (XI (XI (XI (XI (XO (XO (XI (XI (XO (XO (XO (XI
    (XI (XI (XI (XO (XO (XO (XI (XO
    XH))))))))))))))))))))))))))))))))))))))))))))))))))))))))))))))) :: ((Npos
    (XI (XI (XO (XO (XI (XO (XO (XO (XI (XO (XI (XO (XI (XO (XO (XI (XO (XO
    (XO (XI (XI (XI (XO (XI (XI (XO (XO (XO (XO (XI (XO (XO (XO (XO (XO (XO
    (XI (XI (XO (XO (XO (XI (XI (XI (XO (XO (XI (XO (XO (XI (XI (XI (XO (XI
    (XI (XO (XO (XO (XI (XO (XI
    XH)))))))))))))))))))))))))))))))))))))))))))))))))))))))))))))) :: ((Npos
    (XI (XI (XO (XI (XI (XI (XI (XI (XO (XO (XO (XO (XI (XO (XI (XI (XO (XI
    (XI (XO (XI (XI (XO (XI (XO (XI (XO (XO (XI (XO (XI (XI (XO (XI (XO (XI
    (XI (XO (XI (XI (XI (XI (XO (XO (XI (XI (XI (XI (XI (XO (XI (XO (XO (XI
    (XI (XO (XO (XI (XI (XO (XO (XO
    XH))))))))))))))))))))))))))))))))))))))))))))))))))))))))))))))) :: ((Npos
    (XO (XO (XI (XI (XI (XO (XO (XO (XO (XO (XO (XO (XO (XI (XO (XI (XI (XO
    (XO (XO (XI (XO (XO (XO (XO (XO (XI (XO (XI (XO (XI (XO (XO (XI (XI (XO
    (XO (XO (XO (XO (XI (XO (XO (XI (XO (XI (XO (XO (XI (XI (XO (XI (XO (XO
    (XI (XO (XO (XO (XI (XO (XO (XO
    XH))))))))))))))))))))))))))))))))))))))))))))))))))))))))))))))) :: ((Npos
    (XI (XI (XI (XI (XI (XO (XI (XO (XI (XO (XI (XO (XO (XI (XO (XO (XO (XI
    (XO (XI (XI (XI (XI (XI (XO (XO (XI (XI (XI (XI (XI (XI (XI (XI (XO (XO
    (XO (XI (XI (XO (XO (XI (XO (XO (XI (XI (XO (XI (XO (XO (XO (XI (XI (XO
    (XI (XI (XI (XI (XI (XI (XI (XI
    XH))))))))))))))))))))))))))))))))))))))))))))))))))))))))))))))) :: ((Npos
    (XI (XO (XI (XO (XO (XO (XI (XI (XI (XI (XO (XO (XO (XO (XI (XO (XO (XI
    (XO (XI (XO (XI (XI (XO (XO (XO (XI (XO (XO (XI (XO (XI (XO (XI (XI (XI
    (XO (XI (XO (XO (XI (XI (XI (XO (XI (XI (XO (XI (XO (XO (XO (XI (XO (XO
    (XO (XI (XO (XO (XI (XI (XI (XO
    XH))))))))))))))))))))))))))))))))))))))))))))))))))))))))))))))) :: ((Npos
    (XI (XO (XO (XI (XI (XO (XO (XO (XI (XI (XO (XI (XO (XI (XI (XI (XI (XO
    (XI (XO (XI (XO (XO (XO (XO (XO (XO (XI (XI (XI (XO (XI (XI (XI (XO (XO
    (XO (XI (XI (XO (XO (XO (XO (XI (XI (XO (XI (XO (XI (XO (XO (XO (XO (XI
    (XO (XI (XI (XI (XO (XI (XI (XO (XI
    XH)))))))))))))))))))))))))))))))))))))))))))))))))))))))))))))))) :: ((Npos
    (XO (XI (XI (XI (XO (XO (XI (XI (XI (XI (XO (XI (XO (XI (XI (XO (XO (XI
    (XO (XO (XI (XO (XI (XI (XI (XI (XI (XO (XO (XO (XI (XI (XO (XI (XO (XI
    (XI (XI (XO (XO (XI (XI (XO (XO (XI (XO (XI (XI (XI (XI (XI (XO (XO (XI
    (XO (XI (XI (XO (XO (XI (XO (XI (XO
    XH)))))))))))))))))))))))))))))))))))))))))))))))))))))))))))))))) :: ((Npos
    (XI (XI (XO (XO (XI (XI (XO (XO (XI (XO (XO (XI (XO (XI (XI (XO (XO (XO
    (XO (XO (XI (XO (XI (XO (XO (XO (XO (XI (XO (XO (XI (XI (XI (XO (XO (XI
    (XI (XO (XO (XI (XI (XI (XI (XI (XI (XO (XO (XI (XO (XO (XO (XO (XO (XO
    (XI (XI (XI (XO (XI (XI (XO (XI (XO
    XH)))))))))))))))))))))))))))))))))))))))))))))))))))))))))))))))) :: ((Npos
    (XI (XI (XI (XO (XI (XO (XO (XO (XI (XO (XI (XI (XO (XO (XI (XO (XI (XO
    (XI (XI (XO (XI (XO (XI (XI (XI (XI (XO (XI (XI (XI (XO (XI (XO (XO (XI
    (XI (XI (XO (XI (XI (XI (XI (XO (XI (XO (XO (XO (XI (XI (XO (XO (XO (XO
    (XO (XO (XI (XI (XO (XO (XI (XO (XI
    XH)))))))))))))))))))))))))))))))))))))))))))))))))))))))))))))))) :: ((Npos
    (XO (XI (XO (XI (XI (XI (XO (XO (XI (XO (XO (XO (XI (XI (XO (XO (XI (XI
    (XI (XO (XO (XO (XO (XO (XO (XO (XO (XO (XO (XI (XI (XO (XI (XI (XO (XO
    (XI (XO (XO (XI (XI (XO (XO (XI (XI (XO (XI (XO (XO (XO (XI (XI (XO (XI
    (XO (XO (XO (XI (XI (XI (XO (XO (XO
    XH)))))))))))))))))))))))))))))))))))))))))))))))))))))))))))))))) :: ((Npos
    (XO (XO (XO (XI (XI (XI (XI (XI (XO (XI (XI (XI (XO (XI (XO (XO (XI (XI
    (XI (XO (XO (XO (XI (XI (XI (XO (XI (XI (XI (XI (XO (XO (XI (XO (XI (XI
    (XI (XI (XO (XO (XO (XO (XO (XO (XI (XO (XO (XO (XI (XI (XO (XO (XI (XI
    (XI (XI (XO (XI (XI (XO (XO (XI
    XH))))))))))))))))))))))))))))))))))))))))))))))))))))))))))))))) :: ((Npos
    (XO (XI (XO (XO (XI (XO (XI (XO (XI (XO (XO (XI (XO (XI (XO (XI (XI (XI
    (XI (XI (XO (XO (XO (XO (XI (XO (XO (XO (XI (XI (XO (XO (XO (XI (XI (XO
    (XI (XO (XI (XO (XI (XI (XO (XO (XO (XI (XO (XO (XO (XO (XO (XI (XI (XI
    (XO (XI (XI (XO (XO (XI (XI (XO (XO
    XH)))))))))))))))))))))))))))))))))))))))))))))))))))))))))))))))) :: ((Npos
    (XO (XO (XO (XO (XI (XI (XI (XO (XO (XI (XI (XO (XI (XO (XI (XO (XO (XO
    (XO (XI (XO (XO (XI (XI (XI (XI (XO (XI (XO (XO (XO (XI (XO (XI (XI (XO
    (XI (XO (XI (XO (XI (XI (XO (XO (XO (XO (XO (XO (XO (XI (XO (XO (XI (XO
    (XO (XI (XI (XI (XO (XI (XI (XO (XO
    XH)))))))))))))))))))))))))))))))))))))))))))))))))))))))))))))))) :: ((Npos
    (XO (XI (XI (XO (XO (XO (XO (XI (XI (XI (XO (XO (XO (XI (XI (XI (XO (XO
    (XI (XO (XO (XI (XI (XI (XO (XI (XO (XO (XI (XO (XI (XO (XO (XO (XO (XI
    (XO (XI (XI (XI (XO (XI (XI (XI (XO (XI (XO (XI (XI (XO (XI (XI (XO (XO
    (XI (XO (XI (XI (XO (XI (XI (XI
    XH))))))))))))))))))))))))))))))))))))))))))))))))))))))))))))))) :: ((Npos
    (XO (XI (XI (XI (XI (XI (XO (XO (XI (XI (XI (XI (XI (XI (XO (XI (XO (XI
    (XO (XI (XI (XO (XO (XO (XO (XI (XI (XO (XO (XI (XI (XO (XO (XI (XI (XI
    (XO (XO (XO (XO (XI (XO (XO (XI (XI (XI (XI (XI (XI (XI (XO (XI (XO (XO
    (XO (XO (XI (XI (XO (XI (XI (XI
    XH))))))))))))))))))))))))))))))))))))))))))))))))))))))))))))))) :: ((Npos
    (XO (XI (XI (XI (XI (XI (XI (XI (XI (XI (XI (XI (XI (XO (XO (XO (XI (XI
    (XO (XI (XO (XO (XI (XO (XI (XI (XI (XO (XI (XO (XI (XI (XI (XI (XI (XI
    (XI (XI (XO (XO (XI (XI (XI (XO (XO (XO (XO (XI (XO (XI (XI (XI (XI (XI
    (XI (XI (XI (XI (XI
    XH)))))))))))))))))))))))))))))))))))))))))))))))))))))))))))) :: ((Npos
    (XI (XI (XI (XO (XO (XI (XI (XO (XI (XI (XO (XO (XO (XI (XO (XI (XO (XI
    (XI (XO (XI (XO (XO (XI (XO (XO (XI (XO (XI (XO (XO (XI (XO (XI (XO (XI
    (XO (XO (XO (XO (XI (XI (XO (XI (XI (XO (XO (XO (XI (XI (XO (XO (XO (XO
    (XI (XO (XI (XI (XI (XI (XI (XI (XI
    XH)))))))))))))))))))))))))))))))))))))))))))))))))))))))))))))))) :: ((Npos
    (XO (XO (XI (XI (XI (XI (XI (XI (XI (XI (XI (XO (XI (XI (XI (XO (XO (XO
    (XO (XO (XI (XO (XI (XI (XO (XI (XI (XO (XI (XI (XO (XO (XI (XO (XO (XI
    (XO (XO (XO (XI (XI (XO (XO (XI (XO (XO (XI (XI (XO (XI (XI (XI (XO (XO
    (XO (XI (XI (XO (XO (XI (XI (XO (XI
    XH)))))))))))))))))))))))))))))))))))))))))))))))))))))))))))))))) :: ((Npos
    (XO (XI (XO (XI (XO (XO (XO (XI (XO (XO (XI (XO (XO (XO (XI (XI (XI (XO
    (XI (XI (XO (XI (XI (XI (XO (XO (XI (XI (XI (XO (XO (XO (XO (XI (XO (XI
    (XI (XI (XI (XI (XI (XI (XO (XO (XO (XI (XO (XI (XO (XI (XO (XO (XI (XI
    (XI (XO (XO (XI (XI (XO (XI (XO (XO
    XH)))))))))))))))))))))))))))))))))))))))))))))))))))))))))))))))) :: ((Npos
    (XI (XI (XO (XO (XO (XO (XI (XO (XI (XI (XO (XI (XO (XI (XO (XI (XI (XI
    (XO (XO (XI (XO (XI (XO (XO (XO (XO (XI (XO (XO (XI (XO (XI (XI (XO (XO
    (XO (XI (XO (XO (XO (XI (XO (XI (XI (XO (XO (XO (XO (XI (XI (XO (XI (XI
    (XO (XO (XO (XI (XI (XI (XO (XO (XO
    XH)))))))))))))))))))))))))))))))))))))))))))))))))))))))))))))))) :: ((Npos
    (XO (XO (XO (XO (XI (XO (XO (XI (XO (XO (XI (XO (XO (XO (XI (XO (XO (XO
    (XI (XI (XO (XI (XI (XI (XI (XI (XO (XI (XO (XI (XI (XO (XI (XO (XO (XO
    (XI (XI (XI (XI (XO (XO (XI (XI (XO (XO (XO (XO (XO (XI (XI (XO (XO (XI
    (XI (XI (XO (XO (XI (XI (XI (XO (XI
    XH)))))))))))))))))))))))))))))))))))))))))))))))))))))))))))))))) :: ((Npos
    (XO (XO (XI (XO (XO (XI (XI (XO (XO (XI (XI (XI (XI (XI (XO (XI (XI (XI
    (XO (XO (XI (XO (XI (XI (XO (XI (XO (XI (XI (XO (XI (XI (XO (XO (XI (XI
    (XI (XO (XO (XI (XO (XI (XO (XO (XO (XI (XI (XI (XI (XO (XI (XO (XO (XI
    (XO (XI (XO (XO (XI (XO (XO (XO (XI
    XH)))))))))))))))))))))))))))))))))))))))))))))))))))))))))))))))) :: [])))))))))))))))))))))))))))))))))))))))))))))))))))))))))))))))) :: (((Npos
    (XI (XO (XI (XO (XI (XI (XO (XI (XI (XO (XO (XI (XO (XI (XO (XO (XO (XI
    (XO (XI (XO (XI (XI (XO (XO (XO (XO (XI (XI (XO (XO (XI (XO (XI (XI (XI
    (XO (XI (XO (XI (XI (XO (XI (XI (XO (XI (XI (XI (XO (XO (XI (XI (XO (XI
    (XO (XI (XO (XO (XO (XO (XI (XI (XO
    XH)))))))))))))))))))))))))))))))))))))))))))))))))))))))))))))))) :: ((Npos
    (XO (XO (XO (XI (XO (XO (XI (XI (XI (XO (XO (XO (XI (XO (XO (XI (XO (XO
    (XO (XO (XI (XI (XI (XI (XI (XI (XO (XO (XI (XO (XI (XO (XO (XO (XI (XO
    (XO (XO (XI (XI (XO (XO (XO (XO (XO (XO (XI (XI (XO (XI (XI (XI (XO (XI
    (XO (XO (XO (XO (XI (XI (XI (XI (XO
    XH)))))))))))))))))))))))))))))))))))))))))))))))))))))))))))))))) :: ((Npos
    (XI (XI (XO (XO (XI (XI (XO (XO (XO (XI (XO (XO (XI (XO (XO (XI (XO (XO
    (XO (XI (XI (XI (XI (XI (XO (XI (XI (XI (XI (XO (XO (XI (XI (XI (XO (XI
    (XO (XO (XI (XI (XO (XO (XO (XO (XI (XI (XO (XI (XO (XI (XO (XO (XO (XO
    (XO (XI (XI (XI (XO (XO (XI (XO (XO
    XH)))))))))))))))))))))))))))))))))))))))))))))))))))))))))))))))) :: ((Npos
    (XI (XI (XI (XO (XI (XO (XI (XI (XO (XI (XI (XI (XI (XI (XI (XI (XO (XI
    (XO (XO (XO (XO (XI (XO (XO (XI (XI (XI (XO (XO (XO (XO (XO (XO (XO (XO
    (XI (XO (XO (XO (XO (XI (XO (XO (XI (XO (XO (XI (XO (XO (XI (XI (XO (XI
    (XI (XI (XO (XO (XO (XI (XO
    XH)))))))))))))))))))))))))))))))))))))))))))))))))))))))))))))) :: ((Npos
    (XO (XI (XI (XO (XI (XO (XO (XI (XO (XO (XI (XI (XI (XO (XO (XO (XI (XI
    (XO (XO (XI (XO (XO (XO (XI (XI (XO (XI (XI (XO (XO (XI (XO (XO (XO (XO
    (XO (XO (XI (XO (XI (XI (XO (XI (XO (XO (XI (XO (XI (XI (XI (XO (XI (XI
    (XI (XO (XI (XI (XO (XO (XI (XI (XO
    XH)))))))))))))))))))))))))))))))))))))))))))))))))))))))))))))))) :: ((Npos
    (XO (XO (XO (XI (XO (XI (XO (XI (XI (XI (XO (XO (XI (XI (XO (XI (XI (XO
    (XO (XI (XO (XO (XO (XI (XO (XO (XI (XO (XO (XI (XI (XI (XO (XO (XO (XI
    (XO (XI (XI (XI (XO (XO (XO (XO (XI (XO (XO (XI (XI (XO (XI (XI (XO (XO
    (XI (XO (XI (XI (XO (XI (XO (XO
    XH))))))))))))))))))))))))))))))))))))))))))))))))))))))))))))))) :: ((Npos
    (XO (XO (XI (XO (XO (XI (XO (XI (XI (XO (XI (XO (XO (XO (XI (XO (XO (XO
    (XI (XO (XI (XO (XO (XI (XO (XO (XO (XI (XI (XO (XO (XI (XI (XO (XO (XI
    (XI (XO (XO (XI (XI (XI (XI (XO (XI (XI (XI (XO (XO (XI (XI (XI (XI (XO
    (XI (XI (XO (XI (XI (XI (XI (XI (XI
    XH)))))))))))))))))))))))))))))))))))))))))))))))))))))))))))))))) :: ((Npos
    (XI (XI (XI (XO (XO (XO (XO (XO (XI (XI (XI (XO (XO (XO (XI (XO (XO (XO
    (XO (XO (XO (XO (XO (XO (XI (XO (XO (XI (XI (XO (XI (XO (XO (XI (XO (XO
    (XO (XI (XO (XI (XI (XI (XI (XO (XO (XI (XI (XO (XO (XI (XO (XO (XI (XI
    (XO (XO (XO (XO (XI (XI (XI (XO (XO
    XH)))))))))))))))))))))))))))))))))))))))))))))))))))))))))))))))) :: ((Npos
    (XO (XO (XI (XI (XO (XI (XI (XO (XI (XI (XI (XO (XI (XO (XO (XI (XO (XO
    (XO (XI (XO (XI (XI (XO (XO (XO (XO (XO (XO (XI (XI (XO (XO (XO (XI (XI
    (XO (XI (XI (XO (XI (XO (XO (XI (XO (XI (XI (XI (XI (XI (XO (XO (XI (XO
    (XI (XI (XO (XI (XO (XO (XO (XI (XO
    XH)))))))))))))))))))))))))))))))))))))))))))))))))))))))))))))))) :: ((Npos
    (XO (XO (XI (XI (XO (XI (XI (XO (XI (XI (XI (XO (XO (XO (XI (XO (XI (XI
    (XO (XI (XI (XI (XI (XO (XO (XI (XO (XO (XO (XI (XI (XI (XO (XI (XO (XO
    (XO (XI (XO (XO (XO (XI (XI (XO (XO (XO (XO (XO (XO (XO (XO (XI (XI (XO
    (XI (XO (XO (XI (XO (XO (XO (XO
    XH))))))))))))))))))))))))))))))))))))))))))))))))))))))))))))))) :: ((Npos
    (XI (XI (XI (XO (XO (XO (XI (XO (XO (XO (XI (XO (XI (XI (XO (XI (XI (XO
    (XO (XI (XO (XO (XI (XO (XO (XI (XO (XI (XO (XI (XO (XI (XO (XO (XI (XO
    (XO (XO (XI (XI (XI (XO (XI (XI (XO (XI (XO (XI (XO (XO (XI (XO (XO (XI
    (XO (XO (XI (XO (XI (XI (XO (XO
    XH))))))))))))))))))))))))))))))))))))))))))))))))))))))))))))))) :: ((Npos
    (XI (XI (XO (XO (XI (XI (XI (XO (XI (XO (XO (XO (XO (XO (XI (XI (XI (XO
    (XI (XI (XI (XI (XO (XI (XO (XI (XI (XI (XI (XO (XO (XO (XI (XO (XO (XO
    (XI (XO (XI (XO (XI (XI (XO (XI (XI (XO (XO (XO (XO (XO (XI (XO (XO (XI
    (XI (XI (XO (XI (XI (XO (XO (XI
    XH))))))))))))))))))))))))))))))))))))))))))))))))))))))))))))))) :: ((Npos
    (XI (XO (XO (XO (XO (XI (XI (XO (XI (XO (XI (XO (XO (XO (XO (XO (XI (XI
    (XI (XO (XI (XI (XO (XO (XO (XI (XO (XO (XO (XO (XI (XO (XI (XI (XI (XO
    (XI (XO (XO (XO (XO (XI (XO (XO (XI (XO (XO (XO (XO (XO (XO (XI (XI (XI
    (XO (XO (XO (XI (XO (XO (XI (XO
    XH))))))))))))))))))))))))))))))))))))))))))))))))))))))))))))))) :: ((Npos
    (XO (XO (XO (XO (XO (XI (XO (XO (XO (XO (XI (XI (XO (XO (XO (XO (XO (XI
    (XO (XO (XI (XI (XI (XI (XO (XO (XO (XO (XO (XO (XI (XI (XO (XI (XI (XI
    (XI (XO (XI (XI (XI (XI (XO (XI (XI (XI (XO (XI (XO (XI (XO (XI (XI (XO
    (XO (XI (XO (XI (XI (XO (XO (XI (XO
    XH)))))))))))))))))))))))))))))))))))))))))))))))))))))))))))))))) :: ((Npos
    (XO (XO (XI (XO (XO (XO (XI (XO (XO (XI (XO (XI (XO (XI (XO (XO (XO (XI
    (XO (XO (XI (XI (XO (XI (XO (XO (XI (XO (XO (XI (XI (XO (XI (XI (XO (XO
    (XO (XI (XO (XI (XO (XO (XO (XO (XO (XI (XO (XI (XO (XO (XO (XI (XI (XI
    (XI (XI (XI (XI (XI (XO
    XH))))))))))))))))))))))))))))))))))))))))))))))))))))))))))))) :: ((Npos
    (XI (XO (XI (XO (XO (XI (XI (XI (XO (XO (XI (XI (XI (XO (XO (XI (XI (XI
    (XI (XI (XI (XI (XO (XI (XI (XO (XO (XO (XI (XI (XI (XI (XO (XO (XI (XI
    (XO (XI (XO (XI (XI (XI (XO (XI (XO (XO (XO (XO (XO (XO (XI (XI (XI (XO
    (XI (XI (XI (XI (XI (XO (XI (XI
    XH))))))))))))))))))))))))))))))))))))))))))))))))))))))))))))))) :: ((Npos
    (XI (XO (XO (XO (XO (XO (XO (XO (XO (XO (XI (XI (XO (XO (XO (XO (XI (XI
    (XI (XI (XO (XO (XO (XI (XO (XO (XI (XI (XI (XO (XI (XI (XO (XI (XO (XO
    (XO (XI (XI (XO (XO (XO (XI (XI (XO (XI (XI (XI (XO (XO (XI (XO (XI (XO
    (XO (XI (XI (XI (XO (XI (XO (XO
    XH))))))))))))))))))))))))))))))))))))))))))))))))))))))))))))))) :: ((Npos
    (XI (XI (XO (XI (XI (XI (XI (XO (XO (XI (XO (XO (XI (XI (XI (XI (XI (XO
    (XI (XO (XI (XI (XO (XO (XI (XI (XI (XI (XO (XI (XI (XO (XI (XI (XO (XI
    (XI (XI (XO (XI (XO (XI (XI (XO (XO (XI (XO (XO (XI (XO (XO (XI (XO (XO
    (XI (XO (XI (XO
    XH))))))))))))))))))))))))))))))))))))))))))))))))))))))))))) :: ((Npos
    (XI (XI (XI (XO (XI (XO (XI (XI (XI (XI (XI (XO (XI (XO (XI (XI (XO (XO
    (XI (XI (XO (XO (XO (XI (XO (XI (XI (XI (XI (XO (XI (XO (XO (XI (XO (XO
    (XI (XI (XI (XO (XI (XO (XI (XI (XI (XI (XO (XI (XO (XI (XO (XO (XO (XO
    (XO (XI (XO (XI (XI (XI (XI (XO (XO
    XH)))))))))))))))))))))))))))))))))))))))))))))))))))))))))))))))) :: ((Npos
    (XO (XI (XI (XO (XO (XI (XO (XI (XO (XI (XI (XO (XI (XO (XO (XO (XI (XO
    (XI (XI (XO (XI (XI (XI (XI (XI (XI (XO (XO (XI (XO (XO (XO (XO (XO (XO
    (XI (XO (XO (XI (XO (XI (XO (XO (XO (XI (XO (XI (XO (XI (XO (XO (XI (XO
    (XO (XI (XO (XO (XO
    XH)))))))))))))))))))))))))))))))))))))))))))))))))))))))))))) :: ((Npos
    (XI (XI (XI (XI (XI (XI (XO (XI (XO (XO (XI (XO (XI (XO (XI (XI (XO (XI
    (XO (XI (XI (XO (XO (XI (XO (XI (XO (XI (XO (XI (XI (XO (XO (XI (XO (XO
    (XI (XI (XI (XO (XI (XO (XI (XO (XI (XI (XI (XO (XO (XO (XI (XO (XI (XO
    (XO (XO (XO (XI (XO (XI (XO (XO (XO
    XH)))))))))))))))))))))))))))))))))))))))))))))))))))))))))))))))) :: ((Npos
    (XO (XO (XI (XO (XI (XI (XO (XO (XO (XO (XO (XI (XI (XI (XI (XO (XO (XO
    (XI (XO (XO (XI (XO (XO (XI (XI (XO (XI (XO (XI (XI (XO (XI (XO (XO (XO
    (XO (XI (XI (XO (XI (XO (XO (XO (XO (XI (XO (XO (XO (XI (XI (XI (XO (XI
    (XO (XO (XI (XI (XO (XI (XO (XO (XI
    XH)))))))))))))))))))))))))))))))))))))))))))))))))))))))))))))))) :: ((Npos
    (XI (XI (XI (XO (XI (XI (XO (XO (XI (XI (XI (XI (XI (XO (XI (XO (XI (XI
    (XO (XI (XI (XO (XO (XO (XI (XI (XO (XO (XO (XO (XI (XO (XO (XI (XO (XI
    (XI (XI (XI (XO (XI (XI (XO (XO (XI (XI (XI (XI (XI (XI (XI (XO (XO (XI
    (XO (XO (XI (XI (XO (XO (XI (XO (XO
    XH)))))))))))))))))))))))))))))))))))))))))))))))))))))))))))))))) :: ((Npos
    (XO (XO (XI (XO (XO (XI (XI (XO (XI (XI (XI (XO (XI (XO (XI (XI (XI (XI
    (XI (XO (XI (XO (XI (XO (XI (XI (XO (XI (XI (XO (XO (XO (XO (XI (XI (XI
    (XO (XI (XI (XI (XO (XO (XO (XO (XO (XI (XO (XI (XO (XO (XO (XI (XO (XO
    (XO (XO (XI (XI (XI (XI (XO (XO (XO
    XH)))))))))))))))))))))))))))))))))))))))))))))))))))))))))))))))) :: ((Npos
    (XI (XI (XO (XI (XI (XO (XI (XO (XO (XI (XI (XI (XO (XI (XO (XI (XI (XO
    (XI (XI (XI (XI (XI (XI (XO (XO (XO (XI (XO (XO (XI (XI (XO (XI (XI (XI
    (XI (XI (XO (XO (XO (XO (XI (XO (XO (XI (XI (XI (XI (XI (XO (XO (XI (XI
    (XI (XI (XI (XO (XO (XI (XI (XI
    XH))))))))))))))))))))))))))))))))))))))))))))))))))))))))))))))) :: ((Npos
    (XI (XO (XO (XI (XO (XO (XI (XO (XO (XI (XO (XO (XI (XI (XO (XO (XO (XI
    (XO (XI (XO (XO (XO (XO (XI (XO (XI (XO (XO (XI (XI (XO (XO (XO (XO (XI
    (XO (XO (XI (XO (XI (XO (XI (XI (XI (XI (XO (XI (XO (XO (XO (XO (XO (XI
    (XI (XO (XI (XO (XO (XI (XO (XO (XI
    XH)))))))))))))))))))))))))))))))))))))))))))))))))))))))))))))))) :: ((Npos
    (XI (XI (XI (XI (XI (XI (XI (XO (XO (XO (XI (XI (XI (XI (XI (XI (XO (XI
    (XO (XI (XI (XI (XI (XO (XI (XI (XO (XO (XO (XI (XO (XI (XI (XI (XO (XI
    (XI (XO (XO (XO (XO (XI (XI (XI (XI (XI (XO (XI (XO (XI (XO (XO (XO (XI
    (XI (XO (XO (XI (XI (XO (XO (XI (XO
    XH)))))))))))))))))))))))))))))))))))))))))))))))))))))))))))))))) :: ((Npos
    (XO (XI (XI (XO (XI (XI (XO (XO (XO (XO (XI (XO (XO (XO (XI (XI (XO (XI
    (XI (XI (XI (XI (XI (XO (XO (XO (XI (XI (XI (XI (XI (XO (XI (XI (XO (XI
    (XI (XO (XI (XI (XI (XI (XI (XI (XO (XI (XO (XO (XI (XI (XI (XO (XI (XO
    (XO (XI (XI (XI (XI (XO (XI (XI
    XH))))))))))))))))))))))))))))))))))))))))))))))))))))))))))))))) :: ((Npos
    (XI (XO (XO (XO (XI (XI (XO (XI (XO (XO (XO (XO (XI (XI (XO (XI (XO (XI
    (XI (XO (XO (XI (XI (XI (XI (XI (XI (XI (XI (XO (XO (XI (XO (XO (XI (XI
    (XO (XI (XO (XI (XI (XI (XO (XO (XO (XO (XO (XI (XO (XO (XO (XI (XO (XO
    (XI (XI (XI (XI (XI (XO (XI (XO (XI
    XH)))))))))))))))))))))))))))))))))))))))))))))))))))))))))))))))) :: ((Npos
    (XO (XI (XO (XO (XI (XI (XI (XO (XI (XO (XO (XO (XO (XI (XO (XI (XI (XI
    (XO (XI (XI (XO (XO (XO (XO (XI (XO (XI (XI (XO (XO (XI (XI (XI (XI (XO
    (XI (XI (XI (XI (XI (XI (XI (XI (XO (XI (XO (XI (XO (XO (XO (XI (XI (XO
    (XO (XI (XI (XI (XO (XI (XO (XI (XI
    XH)))))))))))))))))))))))))))))))))))))))))))))))))))))))))))))))) :: ((Npos
    (XO (XO (XI (XI (XO (XO (XO (XO (XO (XI (XI (XO (XO (XI (XI (XI (XO (XO
    (XI (XO (XO (XO (XI (XI (XO (XO (XI (XI (XO (XI (XI (XO (XI (XI (XI (XO
    (XO (XI (XI (XI (XI (XI (XO (XO (XI (XI (XI (XO (XI (XO (XI (XO (XO (XO
    (XI (XI (XI (XO (XO (XI (XI (XO
    XH))))))))))))))))))))))))))))))))))))))))))))))))))))))))))))))) :: ((Npos
    (XO (XO (XO (XI (XO (XI (XI (XO (XI (XI (XO (XI (XI (XO (XI (XI (XO (XI
    (XI (XI (XO (XI (XO (XI (XI (XI (XI (XO (XO (XO (XO (XO (XO (XI (XO (XO
    (XO (XI (XI (XO (XI (XO (XO (XI (XI (XO (XI (XI (XO (XI (XI (XO (XO (XO
    (XI (XO (XO (XI (XI (XO (XO (XO (XI
    XH)))))))))))))))))))))))))))))))))))))))))))))))))))))))))))))))) :: ((Npos
    (XO (XO (XO (XO (XO (XO (XI (XO (XI (XI (XI (XO (XO (XI (XI (XO (XI (XO
    (XO (XI (XO (XI (XO (XI (XI (XI (XO (XO (XO (XI (XI (XO (XI (XO (XO (XI
    (XI (XI (XO (XI (XI (XI (XO (XO (XO (XO (XI (XI (XO (XI (XO (XO (XI (XI
    (XI (XI (XI (XO (XO (XO (XO (XI
    XH))))))))))))))))))))))))))))))))))))))))))))))))))))))))))))))) :: ((Npos
    (XO (XO (XI (XI (XO (XI (XI (XO (XI (XO (XI (XO (XI (XO (XI (XI (XO (XI
    (XI (XI (XI (XO (XI (XI (XI (XI (XI (XI (XI (XO (XO (XO (XO (XO (XI (XI
    (XI (XI (XO (XO (XO (XO (XI (XO (XO (XO (XO (XI (XO (XI (XI (XI (XI (XO
    (XO (XI (XO (XO (XI
    XH)))))))))))))))))))))))))))))))))))))))))))))))))))))))))))) :: ((Npos
    (XO (XO (XO (XI (XO (XI (XO (XO (XO (XI (XO (XI (XO (XI (XI (XO (XI (XO
    (XI (XI (XO (XO (XI (XO (XO (XO (XO (XO (XI (XI (XO (XO (XO (XO (XI (XO
    (XO (XI (XO (XO (XO (XO (XO (XO (XI (XO (XO (XI (XO (XO (XI (XO (XI (XI
    (XO (XI (XI
    XH)))))))))))))))))))))))))))))))))))))))))))))))))))))))))) :: ((Npos
    (XO (XO (XI (XI (XO (XO (XO (XO (XO (XI (XO (XI (XI (XO (XO (XO (XI (XI
    (XI (XI (XI (XI (XO (XO (XI (XI (XO (XO (XI (XO (XO (XI (XO (XO (XO (XI
    (XI (XO (XO (XI (XO (XO (XO (XO (XO (XO (XO (XI (XO (XI (XO (XI (XO (XI
    (XO (XO (XI (XO (XO (XO (XO (XI (XO
    XH)))))))))))))))))))))))))))))))))))))))))))))))))))))))))))))))) :: ((Npos
    (XO (XO (XI (XO (XI (XI (XO (XO (XO (XO (XI (XO (XO (XI (XO (XO (XI (XO
    (XO (XO (XO (XO (XO (XO (XI (XI (XO (XI (XO (XI (XI (XI (XI (XO (XO (XI
    (XI (XI (XI (XI (XO (XI (XO (XO (XO (XO (XI (XI (XO (XO (XO (XI (XO (XI
    (XI (XI (XO (XI (XO (XO (XI (XO
    XH))))))))))))))))))))))))))))))))))))))))))))))))))))))))))))))) :: ((Npos
    (XI (XI (XO (XO (XO (XO (XO (XI (XI (XO (XO (XI (XO (XI (XO (XO (XO (XO
    (XI (XI (XI (XI (XO (XO (XO (XO (XI (XO (XI (XO (XO (XI (XO (XO (XI (XI
    (XI (XI (XI (XO (XI (XO (XO (XI (XI (XO (XI (XI (XO (XO (XO (XI (XI (XO
    (XI (XO (XO (XI (XI (XO (XO (XO (XI
    XH)))))))))))))))))))))))))))))))))))))))))))))))))))))))))))))))) :: ((Npos
    (XI (XI (XO (XO (XI (XO (XI (XI (XO (XI (XO (XO (XO (XI (XO (XI (XO (XO
    (XI (XI (XI (XI (XI (XO (XI (XI (XI (XI (XI (XO (XI (XO (XO (XI (XO (XI
    (XO (XO (XO (XO (XO (XI (XI (XO (XO (XO (XI (XO (XO (XO (XI (XO (XI (XI
    (XI (XI (XI (XI (XO (XO (XI (XO (XO
    XH)))))))))))))))))))))))))))))))))))))))))))))))))))))))))))))))) :: ((Npos
    (XO (XI (XO (XI (XI (XI (XO (XI (XO (XI (XI (XO (XI (XI (XI (XO (XO (XI
    (XI (XO (XI (XI (XI (XI (XI (XI (XI (XO (XI (XI (XO (XI (XO (XO (XI (XI
    (XO (XO (XI (XO (XI (XI (XI (XO (XI (XI (XO (XO (XO (XI (XI (XO (XO (XI
    (XI (XI (XI (XO (XI (XO (XI (XO (XI
    XH)))))))))))))))))))))))))))))))))))))))))))))))))))))))))))))))) :: ((Npos
    (XO (XI (XI (XO (XI (XO (XO (XO (XI (XO (XO (XI (XO (XI (XO (XI (XO (XI
    (XI (XI (XO (XI (XI (XI (XI (XO (XI (XI (XI (XO (XI (XO (XI (XI (XI (XI
    (XI (XI (XO (XI (XI (XO (XO (XO (XO (XI (XO (XO (XI (XI (XI (XO (XI (XO
    (XO (XI (XO (XO (XI (XI (XO (XO (XI
    XH)))))))))))))))))))))))))))))))))))))))))))))))))))))))))))))))) :: ((Npos
    (XO (XO (XI (XO (XO (XI (XI (XO (XI (XI (XI (XO (XI (XI (XI (XO (XO (XO
    (XI (XO (XO (XO (XI (XO (XO (XO (XI (XO (XI (XI (XO (XO (XO (XI (XO (XO
    (XO (XO (XI (XI (XO (XO (XO (XI (XI (XO (XI (XO (XI (XI (XO (XI (XI (XI
    (XI (XO (XI (XO (XO (XI (XO (XO
    XH))))))))))))))))))))))))))))))))))))))))))))))))))))))))))))))) :: ((Npos
    (XO (XO (XI (XI (XO (XO (XO (XO (XI (XO (XI (XI (XI (XI (XO (XO (XI (XO
    (XI (XO (XI (XO (XO (XO (XO (XI (XI (XO (XO (XO (XO (XI (XO (XO (XO (XI
    (XO (XO (XI (XO (XI (XO (XO (XI (XI (XI (XI (XO (XI (XI (XO (XI (XI (XO
    (XI (XO (XO (XO (XO (XI (XO (XO (XO
    XH)))))))))))))))))))))))))))))))))))))))))))))))))))))))))))))))) :: ((Npos
    (XI (XI (XI (XO (XI (XO (XO (XI (XO (XI (XI (XI (XI (XI (XI (XO (XO (XI
    (XI (XI (XI (XO (XO (XO (XI (XO (XI (XI (XI (XI (XI (XI (XO (XI (XI (XO
    (XI (XI (XO (XI (XO (XI (XO (XO (XO (XO (XI (XI (XO (XO (XI (XI (XO (XI
    (XI (XO (XO (XO (XI (XI (XO (XI (XO
    XH)))))))))))))))))))))))))))))))))))))))))))))))))))))))))))))))) :: ((Npos
    (XO (XO (XO (XI (XI (XO (XI (XI (XO (XO (XO (XI (XI (XO (XO (XI (XO (XO
    (XO (XI (XI (XI (XI (XO (XO (XO (XI (XI (XI (XO (XI (XO (XO (XO (XI (XO
    (XI (XO (XI (XI (XI (XI (XI (XO (XI (XO (XI (XI (XO (XO (XI (XI (XO (XI
    (XO (XI (XI (XO (XO (XI (XO (XI (XI
    XH)))))))))))))))))))))))))))))))))))))))))))))))))))))))))))))))) :: ((Npos
    (XO (XO (XO (XI (XI (XI (XO (XI (XO (XO (XO (XO (XO (XO (XO (XI (XO (XO
    (XO (XI (XI (XI (XO (XO (XO (XI (XI (XI (XO (XO (XO (XI (XO (XO (XI (XO
    (XI (XI (XI (XI (XI (XI (XI (XI (XI (XO (XO (XO (XO (XI (XI (XO (XI (XO
    (XI (XO (XO (XO (XI (XI (XI (XI
    XH))))))))))))))))))))))))))))))))))))))))))))))))))))))))))))))) :: ((Npos
    (XI (XO (XI (XI (XO (XO (XO (XO (XO (XI (XO (XI (XO (XO (XO (XI (XI (XI
    (XO (XO (XO (XI (XI (XO (XI (XI (XO (XI (XI (XO (XO (XO (XI (XI (XI (XO
    (XO (XI (XO (XO (XI (XI (XI (XI (XI (XO (XI (XI (XO (XI (XO (XO (XI (XI
    (XO (XI (XO (XI (XO (XO (XO (XO (XI
    XH)))))))))))))))))))))))))))))))))))))))))))))))))))))))))))))))) :: ((Npos
    (XO (XI (XI (XO (XO (XO (XO (XO (XO (XI (XI (XI (XI (XI (XO (XI (XO (XO
    (XI (XO (XI (XI (XI (XO (XI (XI (XI (XO (XO (XO (XI (XI (XO (XI (XI (XI
    (XI (XO (XI (XI (XI (XI (XO (XO (XI (XI (XO (XI (XO (XI (XO (XI (XI (XI
    (XI (XI (XO (XO (XI (XO (XI (XO (XI
    XH)))))))))))))))))))))))))))))))))))))))))))))))))))))))))))))))) :: ((Npos
    (XO (XI (XI (XI (XO (XO (XO (XI (XO (XO (XI (XI (XO (XO (XO (XO (XI (XI
    (XI (XI (XI (XI (XI (XI (XO (XO (XO (XO (XO (XO (XI (XI (XO (XO (XO (XI
    (XI (XO (XI (XI (XO (XO (XI (XO (XI (XI (XO (XI (XO (XO (XI (XI (XI (XI
    (XO (XO (XI (XI (XI (XI (XO (XO (XO
    XH)))))))))))))))))))))))))))))))))))))))))))))))))))))))))))))))) :: ((Npos
    (XI (XI (XO (XI (XO (XI (XI (XO (XI (XO (XO (XO (XO (XI (XO (XI (XO (XO
    (XO (XO (XI (XO (XI (XI (XO (XO (XI (XI (XO (XI (XO (XO (XO (XO (XO (XI
    (XI (XO (XO (XI (XI (XI (XI (XO (XI (XO (XO (XO (XO (XO (XI (XI (XI (XI
    (XI (XO (XI (XI (XO (XI (XO (XO (XI
    XH)))))))))))))))))))))))))))))))))))))))))))))))))))))))))))))))) :: ((Npos
    (XI (XO (XI (XO (XO (XO (XI (XO (XO (XI (XI (XI (XO (XO (XO (XO (XI (XO
    (XI (XI (XO (XO (XI (XO (XI (XO (XI (XO (XI (XI (XO (XO (XO (XO (XO (XI
    (XI (XI (XI (XO (XI (XI (XI (XI (XO (XO (XI (XI (XI (XO (XI (XO (XI (XO
    (XO (XI (XI (XO (XO (XO (XO (XI
    XH))))))))))))))))))))))))))))))))))))))))))))))))))))))))))))))) :: ((Npos
    (XI (XO (XO (XI (XI (XI (XO (XI (XO (XI (XI (XI (XO (XO (XI (XI (XI (XI
    (XO (XI (XO (XI (XO (XO (XI (XO (XI (XO (XI (XO (XO (XI (XI (XO (XO (XO
    (XO (XI (XO (XO (XO (XI (XO (XI (XI (XI (XI (XI (XI (XI (XO (XI (XO (XI
    (XO (XO (XI (XI (XO (XI (XI (XI (XI
    XH)))))))))))))))))))))))))))))))))))))))))))))))))))))))))))))))) :: ((Npos
    (XI (XO (XI (XI (XO (XI (XI (XO (XO (XO (XI (XI (XO (XI (XO (XI (XO (XO
    (XI (XI (XO (XI (XO (XO (XO (XI (XO (XI (XO (XO (XI (XO (XO (XO (XO (XI
    (XO (XO (XI (XO (XI (XO (XO (XI (XI (XO (XI (XI (XO (XI (XO (XI (XO (XI
    (XI (XO (XI (XO (XO
    XH)))))))))))))))))))))))))))))))))))))))))))))))))))))))))))) :: ((Npos
    (XI (XO (XO (XI (XI (XI (XI (XO (XI (XI (XI (XI (XO (XO (XO (XO (XI (XI
    (XI (XO (XI (XI (XI (XI (XO (XI (XI (XO (XI (XI (XI (XI (XI (XI (XO (XI
    (XO (XI (XI (XI (XO (XI (XI (XI (XI (XO (XO (XI (XO (XI (XI (XI (XI
    XH)))))))))))))))))))))))))))))))))))))))))))))))))))))) :: ((Npos (XO
    (XO (XI (XO (XO (XO (XO (XI (XO (XI (XI (XO (XO (XO (XI (XO (XI (XO (XO
    (XO (XI (XO (XI (XI (XI (XO (XO (XO (XO (XO (XO (XO (XO (XI (XO (XO (XO
    (XO (XI (XO (XO (XO (XO (XO (XI (XI (XO (XO (XO (XO (XI (XI (XO (XI (XO
    (XO (XI (XI (XO (XI (XI (XI (XI
    XH)))))))))))))))))))))))))))))))))))))))))))))))))))))))))))))))) :: ((Npos
    (XO (XI (XI (XO (XI (XI (XO (XI (XI (XI (XO (XO (XI (XO (XO (XO (XI (XI
    (XO (XO (XI (XO (XI (XO (XI (XO (XO (XO (XI (XO (XO (XO (XO (XO (XI (XI
    (XI (XI (XI (XO (XO (XI (XO (XI (XI (XO (XO (XI (XI (XI (XI (XO (XO (XI
    (XO (XI (XI (XO (XO
    XH)))))))))))))))))))))))))))))))))))))))))))))))))))))))))))) :: ((Npos
    (XI (XI (XO (XO (XI (XO (XI (XI (XO (XO (XO (XI (XO (XO (XO (XI (XI (XO
    (XI (XO (XI (XI (XO (XI (XO (XI (XO (XO (XI (XI (XO (XI (XO (XO (XO (XI
    (XO (XO (XI (XO (XO (XO (XO (XO (XO (XI (XO (XI (XO (XO (XI (XI (XI (XO
    (XO (XI (XO (XI (XO (XO (XO
    XH)))))))))))))))))))))))))))))))))))))))))))))))))))))))))))))) :: ((Npos
    (XI (XI (XO (XO (XI (XI (XO (XI (XO (XO (XI (XI (XO (XI (XO (XO (XI (XI
    (XI (XO (XO (XO (XO (XI (XI (XO (XO (XO (XI (XO (XI (XO (XI (XO (XO (XI
    (XI (XO (XO (XO (XO (XO (XI (XO (XO (XO (XI (XI (XI (XO (XI (XO (XO (XO
    (XI (XO (XO (XO (XO
    XH)))))))))))))))))))))))))))))))))))))))))))))))))))))))))))) :: ((Npos
    (XO (XI (XI (XI (XO (XI (XO (XI (XO (XO (XI (XI (XI (XO (XI (XO (XI (XO
    (XO (XI (XO (XI (XI (XI (XI (XI (XI (XO (XO (XO (XO (XI (XO (XI (XI (XO
    (XO (XO (XO (XO (XI (XI (XI (XO (XO (XO (XO (XI (XI (XO (XI (XO (XI (XI
    (XI (XI (XI (XO (XI (XO (XI (XO (XI
    XH)))))))))))))))))))))))))))))))))))))))))))))))))))))))))))))))) :: ((Npos
    (XI (XI (XO (XO (XI (XI (XI (XO (XO (XO (XI (XO (XO (XO (XO (XI (XO (XO
    (XI (XO (XI (XI (XI (XI (XI (XO (XI (XI (XO (XI (XI (XO (XI (XI (XI (XI
    (XO (XO (XO (XO (XI (XI (XI (XI (XI (XO (XI (XO (XI (XO (XI (XI (XI (XI
    (XI (XO (XO (XI (XI (XI (XO (XI (XI
    XH)))))))))))))))))))))))))))))))))))))))))))))))))))))))))))))))) :: ((Npos
    (XI (XI (XI (XI (XI (XI (XI (XI (XO (XO (XI (XI (XI (XI (XO (XO (XO (XO
    (XI (XI (XI (XI (XI (XO (XO (XI (XI (XI (XO (XO (XO (XO (XI (XI (XI (XI
    (XO (XI (XI (XI (XI (XI (XO (XO (XI (XO (XI (XO (XO (XI (XO (XO (XI (XO
    (XI (XI (XO (XO (XO (XO (XI (XI (XI
    XH)))))))))))))))))))))))))))))))))))))))))))))))))))))))))))))))) :: ((Npos
    (XI (XI (XO (XI (XO (XO (XI (XO (XO (XO (XI (XI (XO (XI (XO (XI (XI (XI
    (XO (XI (XI (XO (XI (XI (XO (XI (XI (XI (XO (XO (XO (XI (XO (XO (XO (XI
    (XO (XO (XI (XO (XO (XI (XI (XI (XO (XI (XO (XO (XO (XI (XI (XI (XI (XI
    (XO (XI (XO (XO (XO
    XH)))))))))))))))))))))))))))))))))))))))))))))))))))))))))))) :: ((Npos
    (XO (XO (XI (XI (XO (XI (XO (XO (XI (XO (XO (XI (XI (XI (XO (XO (XI (XI
    (XO (XI (XO (XI (XI (XI (XO (XI (XO (XI (XO (XI (XI (XI (XO (XI (XI (XI
    (XO (XO (XI (XI (XI (XI (XO (XI (XI (XO (XI (XO (XI (XO (XI (XI (XI (XI
    (XO (XO (XO (XO (XO (XI (XO (XI (XI
    XH)))))))))))))))))))))))))))))))))))))))))))))))))))))))))))))))) :: ((Npos
    (XI (XI (XI (XO (XO (XI (XO (XI (XO (XO (XI (XI (XI (XI (XO (XO (XO (XI
    (XO (XI (XI (XI (XO (XO (XI (XO (XO (XI (XO (XO (XO (XI (XO (XO (XO (XO
    (XI (XO (XI (XO (XO (XI (XO (XO (XO (XI (XO (XO (XI (XO (XO (XO (XO (XI
    (XI (XO (XO (XI (XO (XO (XO (XO (XI
    XH)))))))))))))))))))))))))))))))))))))))))))))))))))))))))))))))) :: [])))))))))))))))))))))))))))))))))))))))))))))))))))))))))))))))) :: (((Npos
    (XO (XI (XI (XO (XO (XI (XI (XO (XI (XO (XO (XO (XI (XI (XO (XO (XI (XO
    (XI (XI (XO (XO (XI (XI (XO (XO (XI (XI (XO (XO (XO (XI (XI (XI (XO (XI
    (XI (XI (XO (XO (XO (XI (XO (XO (XO (XO (XI (XO (XO (XO (XO (XO (XI (XI
    (XI (XI
    XH))))))))))))))))))))))))))))))))))))))))))))))))))))))))) :: ((Npos (XO
    (XI (XO (XI (XI (XI (XO (XO (XI (XI (XI (XO (XI (XI (XO (XO (XI (XO (XO
    (XI (XO (XI (XO (XI (XI (XO (XO (XI (XI (XO (XO (XI (XO (XO (XI (XI (XI
    (XI (XO (XI (XO (XI (XO (XI (XO (XO (XI (XO (XO (XO (XO (XO (XO (XO (XO
    (XI (XO (XO (XO (XO
    XH))))))))))))))))))))))))))))))))))))))))))))))))))))))))))))) :: ((Npos
    (XO (XI (XO (XI (XO (XI (XI (XI (XO (XO (XI (XO (XI (XO (XO (XO (XI (XI
    (XO (XO (XO (XI (XO (XO (XI (XO (XI (XI (XI (XI (XI (XO (XO (XI (XO (XO
    (XO (XI (XO (XI (XO (XI (XO (XO (XI (XI (XO (XO (XO (XO (XI (XO (XI (XO
    (XO (XI (XO (XO (XI (XI (XI
    XH)))))))))))))))))))))))))))))))))))))))))))))))))))))))))))))) :: ((Npos
    (XI (XO (XI (XI (XI (XI (XI (XO (XI (XI (XO (XI (XI (XO (XI (XO (XO (XO
    (XI (XO (XO (XI (XO (XO (XO (XI (XI (XI (XI (XO (XI (XO (XO (XO (XI (XO
    (XO (XO (XI (XO (XI (XI (XI (XO (XI (XO (XO (XI (XI (XO (XI (XI (XI (XI
    (XI (XO (XI (XI (XO (XO
    XH))))))))))))))))))))))))))))))))))))))))))))))))))))))))))))) :: ((Npos
    (XO (XI (XO (XI (XI (XO (XI (XI (XO (XO (XI (XI (XI (XO (XO (XO (XO (XI
    (XI (XI (XO (XO (XI (XO (XI (XO (XI (XO (XI (XI (XO (XI (XO (XI (XO (XI
    (XO (XO (XI (XO (XI (XI (XI (XO (XO (XI (XI (XO (XO (XI (XO (XI (XI (XI
    (XO (XO (XO (XI (XI (XI (XO (XO
    XH))))))))))))))))))))))))))))))))))))))))))))))))))))))))))))))) :: ((Npos
    (XO (XO (XO (XI (XI (XI (XI (XI (XO (XI (XI (XO (XI (XI (XI (XI (XI (XO
    (XO (XI (XO (XI (XI (XI (XI (XO (XI (XO (XI (XI (XO (XO (XO (XI (XI (XI
    (XI (XI (XI (XI (XI (XI (XO (XI (XO (XO (XO (XI (XI (XI (XO (XI (XO (XI
    (XO (XO (XO (XI (XI (XO (XI (XI
    XH))))))))))))))))))))))))))))))))))))))))))))))))))))))))))))))) :: ((Npos
    (XI (XI (XI (XO (XO (XI (XO (XI (XO (XI (XO (XO (XI (XI (XO (XI (XO (XI
    (XO (XO (XI (XI (XI (XI (XO (XO (XI (XO (XI (XI (XO (XO (XO (XO (XI (XO
    (XO (XO (XI (XO (XI (XI (XO (XO (XO (XO (XO (XI (XI (XO (XO (XO (XO (XO
    (XO (XO (XI (XI (XO (XI (XI (XO (XO
    XH)))))))))))))))))))))))))))))))))))))))))))))))))))))))))))))))) :: ((Npos
    (XI (XO (XO (XI (XO (XO (XO (XO (XO (XI (XO (XI (XO (XO (XI (XI (XI (XI
    (XO (XI (XO (XI (XO (XI (XI (XO (XI (XI (XO (XO (XO (XO (XI (XI (XI (XI
    (XI (XI (XO (XO (XO (XO (XO (XO (XI (XO (XI (XI (XI (XI (XO (XO (XO (XI
    (XI (XI (XI (XO (XO (XO (XI (XO
    XH))))))))))))))))))))))))))))))))))))))))))))))))))))))))))))))) :: ((Npos
    (XI (XI (XI (XO (XI (XO (XO (XI (XO (XO (XI (XI (XI (XO (XO (XO (XI (XI
    (XI (XO (XI (XI (XO (XO (XO (XI (XI (XO (XI (XI (XO (XI (XI (XI (XO (XO
    (XO (XI (XI (XO (XO (XO (XO (XI (XI (XO (XO (XI (XO (XO (XI (XO (XI (XO
    (XO (XO (XO (XI (XI (XI (XI (XO (XO
    XH)))))))))))))))))))))))))))))))))))))))))))))))))))))))))))))))) :: ((Npos
    (XO (XI (XO (XI (XI (XO (XO (XI (XI (XI (XO (XI (XI (XI (XI (XO (XO (XI
    (XI (XI (XO (XO (XO (XO (XO (XI (XO (XO (XO (XO (XO (XI (XI (XO (XO (XO
    (XO (XO (XO (XO (XI (XO (XO (XO (XO (XI (XI (XI (XI (XI (XI (XI (XI (XI
    (XO (XO (XI (XI (XI (XO (XI (XO
    XH))))))))))))))))))))))))))))))))))))))))))))))))))))))))))))))) :: ((Npos
    (XI (XO (XO (XI (XO (XI (XI (XO (XO (XI (XI (XI (XO (XO (XO (XI (XO (XO
    (XI (XO (XO (XO (XI (XI (XI (XI (XO (XI (XO (XO (XI (XI (XO (XI (XO (XO
    (XO (XO (XI (XO (XI (XI (XO (XI (XI (XO (XO (XI (XO (XO (XO (XI (XI (XO
    (XO (XI (XO (XO (XI (XO (XI (XO
    XH))))))))))))))))))))))))))))))))))))))))))))))))))))))))))))))) :: ((Npos
    (XO (XO (XI (XI (XO (XO (XO (XO (XI (XO (XO (XI (XO (XO (XO (XI (XO (XI
    (XI (XO (XO (XI (XI (XO (XI (XO (XO (XO (XI (XI (XO (XI (XO (XO (XO (XI
    (XO (XI (XI (XI (XI (XI (XO (XI (XI (XI (XI (XO (XI (XO (XO (XI (XO (XO
    (XI (XO (XI (XO (XO (XO (XO (XI (XI
    XH)))))))))))))))))))))))))))))))))))))))))))))))))))))))))))))))) :: ((Npos
    (XI (XO (XI (XI (XO (XO (XO (XO (XO (XI (XI (XO (XO (XI (XO (XI (XO (XO
    (XI (XO (XO (XO (XO (XO (XI (XO (XI (XI (XO (XI (XO (XO (XI (XI (XO (XI
    (XI (XO (XI (XO (XI (XO (XO (XI (XI (XI (XO (XO (XI (XI (XI (XI (XO (XO
    (XO (XO (XI (XO (XO (XO
    XH))))))))))))))))))))))))))))))))))))))))))))))))))))))))))))) :: ((Npos
    (XO (XI (XI (XO (XO (XI (XI (XO (XO (XI (XO (XI (XI (XI (XI (XO (XI (XO
    (XI (XO (XO (XO (XI (XO (XI (XO (XO (XO (XI (XO (XO (XI (XO (XI (XO (XO
    (XO (XO (XO (XI (XI (XO (XO (XO (XI (XO (XO (XO (XI (XO (XI (XI (XO (XI
    (XO (XI (XI (XI (XI (XI (XO (XI (XO
    XH)))))))))))))))))))))))))))))))))))))))))))))))))))))))))))))))) :: ((Npos
    (XI (XO (XI (XI (XO (XO (XO (XI (XI (XO (XI (XI (XO (XI (XI (XO (XO (XI
    (XI (XO (XO (XO (XI (XI (XO (XI (XI (XO (XI (XI (XI (XO (XO (XO (XO (XO
    (XO (XO (XI (XI (XI (XI (XO (XI (XO (XI (XO (XI (XI (XI (XO (XI (XI (XI
    (XO (XI (XO (XI (XI
    XH)))))))))))))))))))))))))))))))))))))))))))))))))))))))))))) :: ((Npos
    (XO (XO (XI (XO (XO (XI (XI (XI (XO (XI (XO (XI (XO (XI (XO (XI (XO (XO
    (XO (XI (XI (XI (XO (XI (XO (XO (XO (XI (XO (XI (XI (XO (XI (XI (XI (XO
    (XO (XO (XI (XI (XO (XI (XO (XI (XI (XI (XI (XI (XI (XI (XO (XO (XI (XI
    (XI (XO (XO (XO (XO (XI (XO
    XH)))))))))))))))))))))))))))))))))))))))))))))))))))))))))))))) :: ((Npos
    (XI (XO (XO (XO (XI (XO (XO (XO (XO (XO (XO (XI (XI (XO (XI (XO (XO (XO
    (XI (XO (XO (XI (XI (XO (XI (XO (XO (XO (XI (XO (XI (XI (XI (XO (XO (XI
    (XO (XI (XI (XO (XI (XI (XO (XI (XO (XO (XO (XO (XO (XO (XO (XI (XO (XO
    (XI (XI (XO (XI (XO (XI (XI (XO (XI
    XH)))))))))))))))))))))))))))))))))))))))))))))))))))))))))))))))) :: ((Npos
    (XO (XI (XI (XO (XI (XO (XO (XO (XI (XO (XO (XI (XI (XO (XO (XI (XI (XO
    (XI (XI (XO (XI (XO (XO (XO (XI (XO (XO (XO (XO (XO (XO (XI (XO (XI (XI
    (XI (XO (XO (XI (XI (XI (XO (XI (XI (XI (XI (XO (XI (XO (XO (XI (XO (XI
    (XO (XI (XI (XO (XO (XI (XO (XI (XO
    XH)))))))))))))))))))))))))))))))))))))))))))))))))))))))))))))))) :: ((Npos
    (XI (XO (XO (XO (XI (XI (XO (XI (XO (XI (XI (XI (XO (XI (XO (XO (XO (XI
    (XO (XI (XI (XI (XO (XI (XO (XO (XI (XI (XO (XI (XO (XO (XO (XO (XO (XO
    (XO (XO (XO (XI (XO (XO (XI (XO (XI (XO (XI (XO (XI (XI (XO (XO (XO (XI
    (XI (XO (XO (XO (XO (XO (XO (XI
    XH))))))))))))))))))))))))))))))))))))))))))))))))))))))))))))))) :: ((Npos
    (XO (XO (XI (XI (XO (XO (XO (XO (XI (XI (XO (XI (XI (XO (XI (XI (XO (XO
    (XO (XI (XI (XO (XO (XO (XI (XO (XO (XO (XI (XO (XO (XO (XO (XO (XO (XO
    (XI (XO (XI (XO (XI (XI (XI (XO (XI (XI (XO (XI (XO (XI (XI (XO (XI (XI
    (XI (XO (XO (XO (XO (XI (XI (XI
    XH))))))))))))))))))))))))))))))))))))))))))))))))))))))))))))))) :: ((Npos
    (XI (XO (XI (XO (XO (XO (XI (XI (XO (XO (XI (XI (XI (XI (XI (XO (XI (XO
    (XI (XI (XI (XI (XO (XI (XO (XI (XI (XO (XO (XI (XO (XI (XO (XI (XI (XI
    (XI (XI (XI (XI (XO (XI (XI (XO (XI (XO (XI (XO (XI (XI (XI (XO (XI (XI
    (XO (XO (XI (XO (XI (XI (XO (XI (XO
    XH)))))))))))))))))))))))))))))))))))))))))))))))))))))))))))))))) :: ((Npos
    (XO (XI (XO (XI (XO (XO (XO (XI (XI (XI (XI (XI (XI (XO (XI (XI (XO (XO
    (XI (XO (XO (XO (XO (XI (XO (XO (XI (XO (XI (XI (XO (XI (XO (XI (XI (XO
    (XO (XO (XO (XO (XO (XI (XO (XI (XI (XO (XO (XI (XO (XI (XO (XO (XI (XO
    (XI (XO (XO (XI (XO (XI (XI (XO (XI
    XH)))))))))))))))))))))))))))))))))))))))))))))))))))))))))))))))) :: ((Npos
    (XO (XO (XI (XI (XO (XO (XO (XI (XO (XI (XO (XI (XO (XO (XO (XO (XO (XO
    (XI (XO (XO (XO (XI (XO (XO (XI (XO (XO (XI (XI (XI (XO (XO (XI (XI (XI
    (XO (XO (XO (XI (XO (XO (XI (XO (XI (XI (XI (XI (XI (XI (XO (XO (XI (XI
    (XO (XI (XI (XO (XO (XI (XI (XO
    XH))))))))))))))))))))))))))))))))))))))))))))))))))))))))))))))) :: ((Npos
    (XI (XO (XI (XO (XI (XI (XO (XO (XO (XI (XO (XI (XO (XI (XO (XI (XI (XO
    (XO (XI (XO (XO (XI (XO (XI (XI (XO (XO (XO (XI (XI (XO (XO (XO (XO (XI
    (XO (XI (XO (XO (XO (XO (XO (XO (XI (XO (XO (XO (XI (XO (XI (XI (XI (XO
    (XI (XO (XO (XO (XI (XI (XI
    XH)))))))))))))))))))))))))))))))))))))))))))))))))))))))))))))) :: ((Npos
    (XI (XO (XO (XI (XI (XI (XI (XI (XI (XO (XI (XI (XI (XO (XO (XI (XI (XI
    (XI (XO (XI (XI (XO (XO (XI (XI (XO (XO (XO (XI (XO (XO (XO (XO (XO (XI
    (XI (XO (XI (XO (XI (XO (XO (XO (XI (XI (XI (XI (XO (XI (XO (XI (XO (XI
    (XO (XI (XO (XO (XO (XO (XO (XO
    XH))))))))))))))))))))))))))))))))))))))))))))))))))))))))))))))) :: ((Npos
    (XO (XI (XI (XI (XO (XO (XO (XO (XO (XI (XO (XO (XO (XI (XI (XO (XO (XI
    (XO (XO (XI (XI (XO (XI (XI (XI (XO (XO (XO (XI (XI (XI (XI (XI (XO (XO
    (XO (XI (XI (XO (XI (XO (XI (XI (XI (XO (XO (XO (XI (XO (XI (XO (XO (XI
    (XO (XO (XI (XO (XI (XI (XO (XO
    XH))))))))))))))))))))))))))))))))))))))))))))))))))))))))))))))) :: ((Npos
    (XO (XI (XO (XI (XO (XI (XO (XO (XI (XO (XO (XO (XI (XO (XI (XO (XO (XI
    (XI (XI (XI (XO (XO (XI (XO (XO (XO (XI (XI (XO (XI (XO (XI (XI (XI (XI
    (XI (XI (XO (XO (XO (XI (XI (XO (XO (XO (XI (XO (XI (XO (XI (XI (XI (XI
    (XI (XI (XI (XO (XI (XO (XO (XI
    XH))))))))))))))))))))))))))))))))))))))))))))))))))))))))))))))) :: ((Npos
    (XO (XI (XI (XI (XO (XO (XI (XI (XI (XI (XO (XO (XI (XI (XI (XI (XO (XI
    (XO (XO (XO (XI (XO (XI (XO (XI (XI (XO (XI (XI (XI (XO (XI (XO (XO (XI
    (XI (XO (XO (XO (XO (XO (XO (XI (XI (XO (XI (XO (XO (XO (XI (XI (XO (XO
    (XO (XI (XO (XI (XI (XI (XI (XI
    XH))))))))))))))))))))))))))))))))))))))))))))))))))))))))))))))) :: ((Npos
    (XO (XI (XI (XI (XI (XI (XI (XO (XI (XI (XI (XO (XO (XO (XO (XO (XO (XI
    (XI (XI (XO (XO (XI (XO (XO (XI (XI (XI (XO (XO (XI (XO (XI (XI (XO (XI
    (XO (XO (XI (XO (XI (XO (XI (XI (XI (XO (XI (XI (XO (XI (XO (XI (XO (XI
    (XO (XO (XI (XO
    XH))))))))))))))))))))))))))))))))))))))))))))))))))))))))))) :: ((Npos
    (XO (XI (XI (XO (XI (XO (XO (XI (XO (XI (XO (XI (XI (XI (XI (XI (XO (XO
    (XO (XO (XI (XI (XI (XO (XO (XO (XO (XO (XO (XO (XI (XI (XO (XI (XI (XI
    (XO (XI (XI (XI (XO (XO (XO (XI (XO (XI (XO (XO (XI (XI (XO (XI (XI (XO
    (XO (XI (XI (XO (XO (XO (XI (XO
    XH))))))))))))))))))))))))))))))))))))))))))))))))))))))))))))))) :: ((Npos
    (XO (XI (XO (XI (XI (XO (XI (XI (XO (XI (XO (XI (XI (XI (XI (XI (XO (XI
    (XO (XO (XI (XO (XO (XI (XO (XO (XO (XO (XO (XI (XI (XI (XO (XO (XO (XO
    (XO (XI (XO (XI (XO (XO (XI (XO (XI (XO (XO (XI (XI (XI (XI (XI (XI (XO
    (XO (XI (XO (XO (XI (XO (XO (XO (XO
    XH)))))))))))))))))))))))))))))))))))))))))))))))))))))))))))))))) :: ((Npos
    (XO (XO (XO (XO (XI (XI (XI (XO (XO (XI (XO (XO (XI (XI (XO (XI (XO (XI
    (XI (XI (XI (XO (XO (XI (XI (XI (XI (XI (XI (XO (XI (XO (XI (XI (XO (XO
    (XO (XI (XI (XI (XO (XO (XI (XI (XO (XI (XI (XO (XO (XO (XO (XI (XI (XO
    (XO (XO (XO (XO (XO (XO (XO (XO (XO
    XH)))))))))))))))))))))))))))))))))))))))))))))))))))))))))))))))) :: ((Npos
    (XO (XO (XI (XO (XO (XO (XO (XO (XI (XI (XO (XI (XO (XO (XI (XO (XO (XO
    (XO (XI (XO (XO (XO (XI (XO (XO (XO (XO (XO (XO (XI (XO (XI (XI (XO (XO
    (XO (XI (XO (XI (XO (XO (XO (XO (XO (XI (XI (XO (XI (XO (XI (XI (XO (XO
    (XI (XI (XO (XO (XO (XO (XI
    XH)))))))))))))))))))))))))))))))))))))))))))))))))))))))))))))) :: ((Npos
    (XO (XI (XI (XI (XI (XO (XO (XO (XO (XI (XI (XO (XI (XO (XO (XO (XO (XI
    (XI (XI (XI (XO (XO (XI (XI (XO (XO (XO (XI (XI (XI (XI (XI (XI (XO (XO
    (XO (XI (XO (XI (XI (XO (XO (XO (XI (XI (XO (XO (XO (XO (XI (XO (XO (XO
    (XI (XO (XI (XI (XI (XO (XO (XI (XI
    XH)))))))))))))))))))))))))))))))))))))))))))))))))))))))))))))))) :: ((Npos
    (XO (XI (XI (XO (XI (XI (XO (XI (XO (XO (XO (XO (XI (XO (XI (XO (XI (XI
    (XI (XI (XI (XO (XO (XI (XI (XO (XI (XO (XI (XI (XI (XO (XI (XO (XI (XI
    (XI (XI (XI (XO (XO (XO (XI (XI (XI (XO (XO (XO (XO (XO (XO (XI (XO (XO
    (XI (XO (XO (XO (XO (XI (XO (XI
    XH))))))))))))))))))))))))))))))))))))))))))))))))))))))))))))))) :: ((Npos
    (XO (XO (XI (XI (XO (XI (XI (XO (XI (XO (XI (XO (XI (XI (XO (XI (XI (XI
    (XI (XI (XI (XI (XI (XO (XI (XO (XI (XO (XI (XI (XO (XI (XI (XI (XI (XI
    (XO (XI (XO (XI (XO (XI (XO (XO (XO (XI (XO (XO (XO (XI (XO (XI (XI (XI
    (XO (XI (XO (XO (XI (XO (XI
    XH)))))))))))))))))))))))))))))))))))))))))))))))))))))))))))))) :: ((Npos
    (XI (XO (XI (XO (XO (XI (XI (XI (XI (XO (XI (XI (XI (XI (XI (XO (XI (XI
    (XI (XI (XI (XI (XI (XI (XO (XI (XI (XI (XO (XO (XI (XO (XO (XO (XO (XO
    (XI (XO (XO (XI (XI (XI (XI (XO (XI (XI (XO (XI (XI (XO (XO (XI (XI (XI
    (XI (XO (XO (XI (XI (XI (XO (XO (XO
    XH)))))))))))))))))))))))))))))))))))))))))))))))))))))))))))))))) :: ((Npos
    (XI (XI (XI (XO (XO (XI (XO (XI (XO (XI (XI (XO (XO (XI (XO (XI (XI (XO
    (XI (XI (XI (XI (XO (XI (XI (XI (XI (XO (XO (XI (XI (XO (XI (XO (XO (XI
    (XO (XO (XO (XI (XO (XI (XO (XO (XI (XO (XI (XO (XI (XO (XI (XI (XI (XO
    (XI (XI (XO (XI (XO (XO (XI (XI (XO
    XH)))))))))))))))))))))))))))))))))))))))))))))))))))))))))))))))) :: ((Npos
    (XO (XI (XI (XO (XI (XO (XI (XO (XI (XI (XI (XO (XI (XI (XO (XI (XO (XI
    (XO (XI (XI (XO (XI (XI (XI (XI (XO (XO (XO (XI (XO (XO (XI (XI (XI (XI
    (XI (XO (XO (XO (XI (XO (XI (XI (XO (XO (XI (XI (XI (XO (XO (XI (XI (XO
    (XO (XI (XI (XI (XI (XI (XO (XI
    XH))))))))))))))))))))))))))))))))))))))))))))))))))))))))))))))) :: ((Npos
    (XO (XO (XI (XO (XI (XI (XO (XI (XI (XO (XI (XI (XO (XO (XI (XI (XO (XO
    (XI (XO (XI (XI (XI (XI (XO (XO (XI (XO (XI (XI (XO (XI (XO (XI (XI (XO
    (XI (XI (XO (XO (XI (XI (XO (XO (XO (XO (XI (XI (XI (XO (XO (XI (XI (XI
    (XI (XO (XO (XO (XI (XI (XO (XI
    XH))))))))))))))))))))))))))))))))))))))))))))))))))))))))))))))) :: ((Npos
    (XI (XO (XI (XO (XO (XI (XI (XI (XI (XI (XO (XI (XO (XI (XI (XI (XO (XO
    (XI (XI (XO (XI (XO (XI (XO (XO (XO (XI (XO (XO (XI (XI (XO (XI (XI (XI
    (XI (XO (XO (XI (XI (XI (XI (XO (XI (XI (XI (XO (XI (XO (XI (XI (XO (XO
    (XI (XI (XO (XI (XO (XO (XO
    XH)))))))))))))))))))))))))))))))))))))))))))))))))))))))))))))) :: ((Npos
    (XI (XO (XI (XO (XO (XI (XO (XO (XO (XI (XI (XO (XO (XO (XO (XI (XI (XO
    (XI (XO (XI (XO (XI (XO (XO (XI (XI (XI (XO (XI (XI (XO (XO (XO (XI (XO
    (XO (XO (XO (XO (XI (XO (XI (XO (XO (XI (XI (XI (XO (XO (XO (XO (XO (XO
    (XI (XI (XI (XI (XI (XO (XO (XI (XO
    XH)))))))))))))))))))))))))))))))))))))))))))))))))))))))))))))))) :: ((Npos
    (XI (XI (XO (XO (XI (XI (XI (XO (XO (XO (XO (XI (XO (XO (XI (XO (XI (XI
    (XI (XO (XI (XO (XI (XI (XO (XI (XO (XI (XO (XO (XI (XO (XI (XI (XO (XO
    (XI (XI (XI (XI (XO (XI (XI (XO (XI (XO (XO (XO (XI (XI (XO (XO (XO (XO
    (XI (XI (XO
    XH)))))))))))))))))))))))))))))))))))))))))))))))))))))))))) :: ((Npos
    (XI (XI (XO (XI (XI (XO (XI (XI (XO (XI (XI (XO (XI (XI (XI (XO (XI (XI
    (XO (XO (XI (XO (XO (XO (XI (XO (XI (XI (XI (XI (XI (XI (XI (XI (XO (XI
    (XI (XI (XO (XO (XI (XI (XO (XO (XI (XI (XO (XI (XI (XI (XI (XI (XO (XI
    (XI (XO (XI (XO (XI (XI (XI
    XH)))))))))))))))))))))))))))))))))))))))))))))))))))))))))))))) :: ((Npos
    (XO (XI (XO (XO (XI (XO (XO (XI (XO (XO (XI (XI (XO (XO (XI (XO (XI (XI
    (XI (XO (XO (XI (XO (XI (XI (XO (XO (XI (XO (XO (XO (XI (XI (XO (XI (XI
    (XI (XO (XI (XO (XI (XO (XI (XI (XO (XI (XI (XI (XO (XI (XI (XO (XO (XO
    (XO (XI (XI (XO (XI (XO (XO
    XH)))))))))))))))))))))))))))))))))))))))))))))))))))))))))))))) :: ((Npos
    (XO (XI (XI (XO (XO (XI (XO (XO (XO (XO (XO (XI (XO (XO (XO (XI (XI (XO
    (XI (XI (XO (XI (XO (XI (XI (XI (XI (XI (XI (XO (XO (XI (XO (XI (XI (XO
    (XI (XI (XI (XO (XI (XI (XI (XO (XO (XO (XI (XO (XO (XO (XO (XI (XI (XO
    (XI (XO (XO (XI (XO (XI (XI (XO (XO
    XH)))))))))))))))))))))))))))))))))))))))))))))))))))))))))))))))) :: ((Npos
    (XI (XO (XO (XI (XO (XO (XI (XO (XI (XI (XO (XO (XO (XO (XI (XI (XI (XI
    (XI (XI (XI (XI (XO (XO (XI (XO (XI (XI (XI (XO (XO (XI (XO (XI (XO (XO
    (XI (XI (XO (XO (XI (XO (XI (XO (XI (XI (XO (XO (XI (XO (XO (XI (XO (XO
    (XI (XI (XO (XO (XO (XO (XI (XI (XI
    XH)))))))))))))))))))))))))))))))))))))))))))))))))))))))))))))))) :: ((Npos
    (XO (XI (XO (XO (XI (XO (XI (XO (XI (XI (XO (XO (XI (XO (XO (XI (XI (XI
    (XI (XI (XI (XI (XO (XO (XI (XI (XI (XO (XO (XO (XI (XI (XO (XI (XO (XO
    (XO (XO (XI (XI (XI (XI (XI (XI (XI (XI (XO (XI (XO (XO (XO (XO (XO (XI
    (XO (XO (XO (XO (XI (XO (XO (XI
    XH))))))))))))))))))))))))))))))))))))))))))))))))))))))))))))))) :: ((Npos
    (XI (XO (XI (XO (XO (XI (XI (XO (XO (XO (XI (XI (XI (XI (XO (XI (XI (XO
    (XO (XI (XI (XI (XI (XO (XI (XO (XI (XI (XO (XI (XO (XO (XO (XO (XI (XI
    (XO (XI (XI (XO (XO (XO (XI (XO (XO (XI (XO (XO (XO (XI (XI (XO (XO (XO
    (XO (XI (XO (XI (XI (XO (XO (XO
    XH))))))))))))))))))))))))))))))))))))))))))))))))))))))))))))))) :: ((Npos
    (XI (XO (XI (XO (XI (XI (XO (XI (XO (XO (XI (XO (XI (XI (XI (XO (XI (XO
    (XI (XO (XO (XI (XO (XI (XO (XI (XO (XO (XI (XO (XI (XO (XI (XO (XI (XI
    (XI (XI (XI (XO (XO (XO (XO (XI (XI (XI (XO (XO (XO (XO (XI (XO (XO (XI
    (XI (XO (XI (XO (XO (XO (XO
    XH)))))))))))))))))))))))))))))))))))))))))))))))))))))))))))))) :: ((Npos
    (XO (XO (XO (XO (XI (XI (XO (XI (XO (XO (XO (XI (XO (XO (XI (XI (XO (XI
    (XO (XO (XI (XO (XO (XO (XI (XI (XO (XO (XO (XI (XI (XO (XO (XI (XI (XI
    (XI (XO (XO (XI (XO (XO (XO (XI (XI (XI (XO (XO (XI (XO (XI (XO (XO (XO
    (XI (XI (XO (XI (XI (XI (XI
    XH)))))))))))))))))))))))))))))))))))))))))))))))))))))))))))))) :: ((Npos
    (XI (XO (XO (XO (XO (XO (XO (XI (XI (XI (XI (XO (XI (XI (XI (XI (XI (XI
    (XI (XO (XO (XI (XI (XO (XI (XO (XI (XO (XO (XI (XI (XO (XO (XO (XO (XO
    (XI (XO (XI (XI (XO (XI (XO (XO (XI (XI (XO (XO (XO (XI (XO (XI (XO (XO
    (XO (XI (XO (XI (XO (XO (XO
    XH)))))))))))))))))))))))))))))))))))))))))))))))))))))))))))))) :: ((Npos
    (XO (XI (XO (XO (XO (XI (XO (XI (XO (XI (XO (XI (XO (XI (XI (XO (XI (XI
    (XO (XO (XO (XO (XI (XO (XO (XO (XO (XI (XO (XO (XO (XI (XO (XO (XO (XI
    (XI (XI (XO (XI (XI (XO (XO (XO (XI (XI (XO (XI (XO (XI (XO (XO (XI (XO
    (XO (XI (XO (XO (XI (XO (XO (XO
    XH))))))))))))))))))))))))))))))))))))))))))))))))))))))))))))))) :: ((Npos
    (XO (XO (XO (XO (XI (XI (XO (XO (XO (XO (XO (XI (XI (XI (XI (XO (XO (XO
    (XO (XO (XI (XO (XI (XI (XO (XO (XO (XO (XO (XI (XO (XO (XO (XO (XI (XI
    (XI (XO (XI (XO (XO (XO (XI (XI (XO (XI (XI (XI (XO (XO (XO (XI (XO (XI
    (XI (XO (XO (XI (XI (XI (XI (XI (XO
    XH)))))))))))))))))))))))))))))))))))))))))))))))))))))))))))))))) :: ((Npos
    (XI (XI (XO (XI (XO (XI (XI (XO (XO (XI (XI (XI (XI (XI (XO (XO (XI (XI
    (XI (XO (XI (XI (XI (XI (XO (XI (XI (XI (XI (XO (XI (XI (XO (XO (XO (XO
    (XI (XO (XI (XO (XI (XO (XI (XI (XO (XO (XO (XO (XO (XI (XO (XI (XO (XO
    (XI (XI (XO (XI (XI (XO (XO (XO (XI
    XH)))))))))))))))))))))))))))))))))))))))))))))))))))))))))))))))) :: ((Npos
    (XI (XI (XO (XI (XO (XI (XI (XI (XO (XO (XO (XO (XO (XI (XI (XO (XO (XO
    (XI (XO (XO (XI (XO (XO (XI (XI (XI (XO (XO (XI (XI (XI (XI (XI (XI (XI
    (XI (XO (XI (XI (XO (XI (XI (XO (XO (XI (XI (XI (XO (XI (XO (XO (XO (XO
    (XO (XI (XI (XO (XI (XO (XI (XI (XI
    XH)))))))))))))))))))))))))))))))))))))))))))))))))))))))))))))))) :: ((Npos
    (XI (XO (XO (XI (XI (XI (XO (XI (XI (XI (XI (XO (XI (XI (XI (XI (XO (XO
    (XI (XI (XO (XI (XO (XO (XI (XO (XI (XO (XI (XI (XI (XI (XI (XI (XI (XO
    (XI (XO (XI (XO (XI (XO (XO (XI (XO (XO (XI (XO (XO (XO (XO (XO (XO (XO
    (XO (XO (XO (XI (XO (XI (XI
    XH)))))))))))))))))))))))))))))))))))))))))))))))))))))))))))))) :: ((Npos
    (XO (XI (XO (XI (XO (XI (XI (XO (XO (XI (XO (XO (XO (XO (XI (XO (XI (XO
    (XO (XI (XO (XO (XI (XO (XI (XI (XI (XO (XI (XO (XI (XO (XO (XI (XO (XO
    (XO (XO (XO (XO (XO (XO (XI (XI (XI (XI (XI (XO (XO (XO (XO (XO (XI (XO
    (XI (XI (XI (XO (XO (XO (XO (XO (XO
    XH)))))))))))))))))))))))))))))))))))))))))))))))))))))))))))))))) :: ((Npos
    (XI (XO (XI (XO (XO (XO (XO (XI (XO (XI (XO (XI (XO (XI (XO (XO (XI (XI
    (XO (XO (XO (XO (XO (XO (XI (XO (XO (XI (XO (XO (XI (XI (XO (XO (XO (XI
    (XO (XO (XO (XI (XO (XO (XI (XO (XI (XI (XO (XO (XI (XI (XI (XO (XI (XO
    (XI (XO (XI (XI (XI (XI (XI (XI
    XH))))))))))))))))))))))))))))))))))))))))))))))))))))))))))))))) :: ((Npos
    (XO (XI (XO (XO (XO (XO (XO (XO (XO (XI (XO (XI (XI (XI (XI (XO (XI (XI
    (XO (XI (XO (XI (XO (XO (XO (XI (XI (XI (XO (XO (XO (XO (XI (XI (XO (XI
    (XI (XI (XO (XI (XI (XO (XI (XO (XI (XO (XO (XI (XO (XI (XI (XI (XO (XI
    (XO (XO (XO (XI (XO (XO (XO (XI (XO
    XH)))))))))))))))))))))))))))))))))))))))))))))))))))))))))))))))) :: ((Npos
    (XO (XO (XO (XI (XO (XI (XI (XO (XO (XO (XO (XI (XI (XI (XO (XI (XI (XO
    (XI (XI (XI (XO (XO (XI (XO (XO (XI (XI (XO (XO (XO (XO (XO (XO (XI (XO
    (XO (XI (XO (XO (XO (XO (XI (XI (XI (XI (XI (XO (XO (XI (XI (XO (XO (XO
    (XI (XI (XI (XO (XI (XI (XI (XO (XO
    XH)))))))))))))))))))))))))))))))))))))))))))))))))))))))))))))))) :: ((Npos
    (XO (XI (XI (XO (XI (XI (XO (XO (XI (XO (XO (XI (XI (XO (XI (XO (XI (XO
    (XO (XI (XO (XI (XO (XI (XI (XI (XI (XO (XO (XI (XO (XO (XO (XI (XI (XI
    (XI (XO (XO (XI (XO (XO (XO (XO (XI (XO (XO (XI (XI (XI (XI (XO (XO (XI
    (XI (XO (XI (XO (XI (XO (XO
    XH)))))))))))))))))))))))))))))))))))))))))))))))))))))))))))))) :: ((Npos
    (XI (XO (XI (XI (XO (XO (XI (XO (XO (XO (XI (XI (XI (XI (XO (XO (XI (XI
    (XO (XO (XI (XO (XO (XI (XI (XO (XI (XI (XO (XI (XI (XI (XI (XO (XO (XI
    (XO (XO (XO (XO (XI (XO (XI (XO (XO (XI (XO (XO (XI (XI (XO (XO (XO (XI
    (XO (XO (XI (XI (XI (XI (XO (XO (XI
    XH)))))))))))))))))))))))))))))))))))))))))))))))))))))))))))))))) :: ((Npos
    (XI (XO (XI (XO (XI (XO (XI (XI (XI (XI (XI (XI (XO (XO (XO (XO (XI (XI
    (XO (XI (XI (XO (XI (XO (XO (XO (XO (XI (XO (XO (XO (XI (XI (XO (XO (XI
    (XO (XI (XO (XI (XI (XI (XI (XI (XI (XO (XO (XO (XO (XO (XO (XI (XI (XO
    (XI (XI (XO (XI (XO (XI
    XH))))))))))))))))))))))))))))))))))))))))))))))))))))))))))))) :: [])))))))))))))))))))))))))))))))))))))))))))))))))))))))))))))))) :: (((Npos
    (XI (XI (XI (XO (XO (XI (XI (XI (XO (XO (XO (XO (XI (XO (XI (XI (XI (XO
    (XI (XO (XO (XI (XI (XI (XI (XI (XO (XO (XO (XO (XI (XO (XI (XO (XO (XI
    (XO (XO (XI (XO (XO (XI (XO (XO (XI (XO (XI (XI (XO (XO (XO (XI (XO (XO
    (XO (XI (XI (XI (XI (XO (XI (XO (XO
    XH)))))))))))))))))))))))))))))))))))))))))))))))))))))))))))))))) :: ((Npos
    (XI (XI (XO (XO (XO (XO (XO (XI (XI (XI (XO (XO (XI (XO (XO (XO (XO (XO
    (XO (XI (XI (XI (XI (XI (XO (XO (XI (XO (XI (XO (XO (XO (XO (XI (XO (XO
    (XI (XO (XI (XI (XO (XO (XI (XO (XI (XO (XO (XO (XI (XO (XO (XO (XO (XI
    (XO (XI (XO (XO (XO (XO (XI
    XH)))))))))))))))))))))))))))))))))))))))))))))))))))))))))))))) :: ((Npos
    (XO (XI (XO (XI (XO (XO (XO (XI (XO (XI (XI (XO (XI (XO (XI (XI (XO (XO
    (XI (XI (XO (XI (XO (XO (XI (XI (XI (XO (XI (XI (XI (XI (XO (XO (XI (XI
    (XO (XI (XO (XO (XO (XI (XI (XO (XO (XO (XI (XO (XO (XI (XI (XO (XO (XI
    (XO (XO (XO (XI (XO (XO (XO (XI (XO
    XH)))))))))))))))))))))))))))))))))))))))))))))))))))))))))))))))) :: ((Npos
    (XI (XI (XO (XO (XO (XI (XI (XO (XO (XI (XI (XO (XO (XI (XI (XO (XO (XI
    (XO (XI (XI (XO (XI (XO (XO (XO (XO (XO (XI (XO (XO (XO (XI (XI (XO (XO
    (XO (XO (XI (XO (XO (XO (XO (XI (XI (XO (XO (XI (XI (XI (XI (XO (XO (XO
    (XO (XI (XI (XI (XI (XO (XI
    XH)))))))))))))))))))))))))))))))))))))))))))))))))))))))))))))) :: ((Npos
    (XI (XI (XO (XO (XO (XI (XO (XO (XO (XO (XI (XO (XO (XO (XO (XO (XO (XO
    (XI (XO (XO (XI (XO (XO (XO (XO (XO (XI (XO (XO (XI (XO (XI (XI (XI (XO
    (XI (XI (XI (XO (XI (XI (XO (XO (XI (XO (XI (XO (XI (XO (XI (XO (XI (XO
    (XO (XO (XI (XO (XI (XO (XO (XO (XO
    XH)))))))))))))))))))))))))))))))))))))))))))))))))))))))))))))))) :: ((Npos
    (XI (XO (XO (XO (XO (XI (XI (XI (XI (XO (XO (XO (XO (XO (XI (XI (XO (XO
    (XI (XO (XI (XO (XI (XO (XO (XO (XO (XO (XO (XO (XO (XI (XI (XI (XI (XI
    (XO (XI (XI (XI (XO (XO (XI (XO (XO (XO (XI (XO (XI (XI (XO (XO (XI (XI
    (XI (XI (XI (XI (XI (XO (XO
    XH)))))))))))))))))))))))))))))))))))))))))))))))))))))))))))))) :: ((Npos
    (XO (XI (XO (XI (XI (XI (XI (XI (XO (XO (XI (XI (XO (XO (XI (XO (XI (XO
    (XO (XI (XI (XO (XO (XI (XI (XO (XO (XO (XI (XI (XI (XI (XO (XI (XO (XI
    (XO (XO (XI (XO (XI (XI (XI (XI (XO (XI (XI (XO (XI (XO (XO (XI (XO (XO
    (XI (XI (XO (XO (XI (XI (XO (XI (XO
    XH)))))))))))))))))))))))))))))))))))))))))))))))))))))))))))))))) :: ((Npos
    (XO (XO (XI (XI (XI (XO (XO (XI (XO (XI (XI (XI (XO (XO (XI (XO (XO (XO
    (XO (XO (XO (XI (XI (XO (XI (XO (XO (XO (XO (XO (XO (XI (XI (XO (XO (XI
    (XO (XI (XI (XI (XO (XI (XO (XO (XI (XI (XO (XO (XI (XI (XI (XO (XO (XO
    (XI (XO (XO (XI (XO (XO (XO (XI (XO
    XH)))))))))))))))))))))))))))))))))))))))))))))))))))))))))))))))) :: ((Npos
    (XO (XI (XO (XO (XI (XI (XO (XI (XO (XI (XI (XI (XI (XO (XO (XI (XO (XI
    (XO (XO (XI (XI (XI (XI (XI (XO (XI (XO (XI (XO (XO (XO (XI (XI (XO (XO
    (XO (XO (XO (XI (XI (XO (XI (XI (XO (XO (XI (XO (XI (XI (XI (XI (XO (XI
    (XO (XI (XO (XI (XO (XO (XI (XI
    XH))))))))))))))))))))))))))))))))))))))))))))))))))))))))))))))) :: ((Npos
    (XO (XI (XI (XI (XO (XI (XO (XI (XI (XO (XI (XI (XO (XO (XO (XI (XI (XO
    (XO (XI (XI (XI (XO (XO (XI (XO (XO (XI (XO (XI (XO (XI (XI (XO (XO (XO
    (XO (XI (XO (XI (XO (XI (XI (XI (XI (XI (XI (XO (XI (XO (XI (XI (XI (XO
    (XI (XI (XO (XO (XO (XI
    XH))))))))))))))))))))))))))))))))))))))))))))))))))))))))))))) :: ((Npos
    (XI (XO (XI (XI (XI (XI (XO (XO (XO (XO (XO (XI (XO (XI (XO (XI (XI (XI
    (XO (XI (XO (XO (XO (XI (XO (XI (XO (XI (XI (XO (XI (XO (XI (XO (XI (XO
    (XO (XI (XO (XI (XO (XI (XO (XI (XI (XO (XI (XO (XI (XI (XO (XI (XI (XI
    (XO (XO (XO (XI (XO (XI (XI (XI (XI
    XH)))))))))))))))))))))))))))))))))))))))))))))))))))))))))))))))) :: ((Npos
    (XI (XI (XO (XO (XO (XO (XI (XI (XI (XI (XO (XO (XI (XO (XI (XI (XI (XO
    (XI (XO (XO (XO (XO (XI (XI (XI (XI (XI (XO (XI (XI (XO (XO (XI (XO (XI
    (XO (XO (XI (XI (XI (XO (XO (XO (XI (XI (XO (XO (XO (XO (XO (XI (XO (XO
    (XO (XO (XI (XO (XO (XI (XI (XI (XI
    XH)))))))))))))))))))))))))))))))))))))))))))))))))))))))))))))))) :: ((Npos
    (XI (XO (XO (XI (XI (XO (XI (XO (XO (XO (XI (XO (XO (XO (XI (XO (XO (XO
    (XI (XI (XO (XO (XO (XI (XI (XI (XI (XO (XO (XI (XI (XI (XO (XI (XI (XO
    (XI (XO (XI (XO (XO (XI (XI (XO (XO (XI (XI (XO (XO (XO (XI (XI (XO (XO
    (XO (XI (XI (XI (XI (XI (XI (XI (XO
    XH)))))))))))))))))))))))))))))))))))))))))))))))))))))))))))))))) :: ((Npos
    (XO (XI (XO (XI (XO (XI (XI (XI (XO (XO (XI (XI (XI (XI (XO (XI (XI (XO
    (XO (XO (XO (XO (XI (XO (XO (XO (XO (XI (XI (XO (XI (XI (XI (XI (XO (XI
    (XI (XI (XO (XI (XO (XI (XO (XO (XI (XO (XO (XI (XI (XO (XI (XO (XO (XI
    (XO (XO (XI (XI (XO (XI (XO (XI
    XH))))))))))))))))))))))))))))))))))))))))))))))))))))))))))))))) :: ((Npos
    (XI (XI (XO (XI (XO (XI (XI (XI (XI (XO (XI (XI (XI (XO (XO (XI (XO (XI
    (XO (XI (XO (XI (XO (XO (XI (XI (XI (XI (XO (XO (XO (XI (XI (XO (XI (XI
    (XI (XO (XO (XO (XO (XO (XO (XO (XO (XO (XI (XI (XO (XO (XO (XI (XI (XO
    (XI (XI (XO (XI
    XH))))))))))))))))))))))))))))))))))))))))))))))))))))))))))) :: ((Npos
    (XI (XO (XO (XO (XO (XI (XO (XI (XO (XI (XO (XO (XI (XI (XO (XI (XI (XI
    (XI (XO (XO (XO (XI (XI (XO (XI (XI (XO (XO (XO (XO (XI (XI (XI (XI (XO
    (XI (XO (XO (XO (XO (XO (XO (XO (XO (XI (XO (XI (XO (XI (XI (XI (XI (XI
    (XI (XI (XO (XI (XI (XI (XI (XO (XO
    XH)))))))))))))))))))))))))))))))))))))))))))))))))))))))))))))))) :: ((Npos
    (XO (XI (XO (XO (XO (XI (XO (XO (XI (XI (XO (XO (XO (XO (XI (XI (XO (XI
    (XO (XI (XO (XI (XO (XI (XI (XI (XO (XI (XO (XI (XO (XO (XO (XO (XI (XO
    (XI (XI (XO (XI (XI (XI (XO (XI (XO (XI (XO (XI (XO (XI (XI (XO (XO (XO
    (XO (XI (XO (XO (XI (XO (XI (XO
    XH))))))))))))))))))))))))))))))))))))))))))))))))))))))))))))))) :: ((Npos
    (XI (XO (XO (XO (XI (XO (XI (XO (XI (XO (XO (XO (XI (XO (XI (XO (XO (XO
    (XI (XO (XO (XI (XI (XO (XO (XI (XO (XI (XI (XO (XI (XO (XO (XO (XO (XO
    (XO (XI (XO (XO (XO (XO (XO (XI (XI (XO (XO (XI (XO (XO (XI (XO (XI (XI
    (XI (XI (XO (XI (XO (XO (XO (XI
    XH))))))))))))))))))))))))))))))))))))))))))))))))))))))))))))))) :: ((Npos
    (XO (XI (XI (XI (XO (XI (XO (XI (XI (XO (XO (XI (XO (XI (XO (XO (XO (XO
    (XI (XI (XO (XO (XO (XO (XO (XI (XO (XI (XO (XO (XI (XI (XI (XO (XO (XI
    (XO (XI (XO (XO (XO (XI (XO (XO (XO (XO (XI (XI (XO (XO (XI (XO (XI (XI
    (XI (XI (XO (XO (XI (XO (XI (XO
    XH))))))))))))))))))))))))))))))))))))))))))))))))))))))))))))))) :: ((Npos
    (XO (XI (XO (XO (XI (XI (XO (XI (XI (XO (XI (XI (XO (XO (XI (XO (XI (XI
    (XI (XI (XO (XO (XI (XI (XO (XO (XO (XI (XO (XO (XI (XI (XI (XO (XI (XO
    (XI (XO (XO (XI (XO (XI (XI (XO (XI (XO (XI (XI (XI (XI (XO (XO (XO (XO
    (XI (XI (XO (XO (XO (XO (XO (XO (XI
    XH)))))))))))))))))))))))))))))))))))))))))))))))))))))))))))))))) :: ((Npos
    (XI (XO (XO (XO (XI (XO (XO (XI (XI (XO (XI (XI (XO (XI (XO (XI (XI (XI
    (XO (XO (XI (XI (XI (XI (XO (XO (XO (XI (XI (XI (XO (XO (XO (XO (XO (XI
    (XI (XO (XO (XI (XO (XI (XI (XI (XO (XI (XI (XO (XO (XI (XI (XI (XO (XI
    (XI (XI (XO (XI (XI (XO (XI
    XH)))))))))))))))))))))))))))))))))))))))))))))))))))))))))))))) :: ((Npos
    (XI (XI (XO (XO (XO (XO (XO (XO (XO (XI (XO (XO (XO (XI (XO (XI (XO (XI
    (XI (XO (XO (XI (XO (XI (XI (XO (XO (XO (XI (XO (XO (XO (XI (XI (XO (XO
    (XI (XO (XO (XO (XO (XI (XI (XI (XO (XI (XO (XI (XI (XO (XI (XO (XO (XO
    (XI (XO (XI (XI (XI
    XH)))))))))))))))))))))))))))))))))))))))))))))))))))))))))))) :: ((Npos
    (XI (XI (XI (XI (XI (XI (XO (XO (XO (XI (XI (XI (XO (XO (XI (XO (XO (XO
    (XI (XI (XI (XO (XO (XO (XI (XO (XO (XI (XO (XI (XI (XO (XO (XI (XO (XO
    (XO (XI (XI (XO (XO (XO (XI (XO (XO (XI (XI (XO (XO (XO (XI (XO (XO (XO
    (XO (XI (XI (XO (XI (XO (XI (XO
    XH))))))))))))))))))))))))))))))))))))))))))))))))))))))))))))))) :: ((Npos
    (XO (XI (XO (XI (XI (XO (XO (XI (XO (XO (XI (XI (XO (XO (XO (XO (XO (XI
    (XI (XO (XI (XO (XO (XI (XI (XO (XI (XI (XO (XI (XO (XI (XO (XO (XO (XI
    (XO (XO (XI (XO (XO (XO (XI (XI (XI (XI (XI (XO (XI (XO (XO (XI (XI (XI
    (XI (XI (XI (XO (XO (XO (XI (XO
    XH))))))))))))))))))))))))))))))))))))))))))))))))))))))))))))))) :: ((Npos
    (XI (XO (XO (XO (XI (XO (XO (XO (XI (XI (XI (XO (XO (XO (XI (XO (XI (XI
    (XI (XO (XO (XI (XI (XO (XO (XI (XO (XI (XO (XO (XI (XI (XI (XI (XO (XO
    (XO (XI (XO (XI (XO (XI (XO (XI (XO (XI (XO (XO (XO (XI (XO (XO (XO (XI
    (XO (XO (XO (XO (XO (XI
    XH))))))))))))))))))))))))))))))))))))))))))))))))))))))))))))) :: ((Npos
    (XI (XO (XO (XO (XO (XO (XO (XO (XI (XO (XO (XO (XI (XO (XI (XI (XO (XI
    (XI (XI (XI (XO (XO (XI (XI (XO (XO (XO (XI (XO (XI (XO (XI (XI (XO (XO
    (XO (XI (XO (XO (XI (XO (XI (XO (XO (XI (XI (XI (XO (XI (XI (XO (XO (XO
    (XO (XI (XO (XO (XO
    XH)))))))))))))))))))))))))))))))))))))))))))))))))))))))))))) :: ((Npos
    (XO (XI (XO (XO (XO (XO (XI (XI (XI (XO (XI (XI (XO (XI (XI (XO (XI (XI
    (XO (XI (XI (XO (XO (XO (XI (XI (XO (XI (XO (XO (XO (XO (XI (XI (XO (XO
    (XO (XI (XO (XI (XI (XI (XI (XO (XI (XI (XI (XO (XI (XO (XI (XI (XO (XI
    (XI (XI (XO (XO (XO (XO (XO
    XH)))))))))))))))))))))))))))))))))))))))))))))))))))))))))))))) :: ((Npos
    (XI (XO (XO (XO (XO (XI (XO (XI (XO (XO (XI (XO (XI (XO (XO (XI (XO (XI
    (XO (XI (XO (XI (XO (XI (XO (XI (XI (XO (XO (XO (XI (XO (XI (XO (XI (XO
    (XO (XI (XI (XO (XI (XI (XO (XO (XO (XO (XI (XO (XO (XO (XI (XI (XI (XI
    (XO (XO (XI (XO (XI (XI (XI (XO (XI
    XH)))))))))))))))))))))))))))))))))))))))))))))))))))))))))))))))) :: ((Npos
    (XO (XO (XI (XI (XI (XO (XO (XO (XO (XI (XO (XO (XO (XO (XI (XI (XO (XI
    (XO (XO (XO (XO (XI (XI (XO (XI (XI (XO (XO (XI (XI (XI (XI (XI (XI (XI
    (XI (XO (XI (XO (XO (XI (XO (XO (XO (XI (XI (XO (XO (XI (XO (XI (XO (XO
    (XI (XO (XO (XI (XO (XI (XI (XO (XI
    XH)))))))))))))))))))))))))))))))))))))))))))))))))))))))))))))))) :: ((Npos
    (XI (XO (XI (XI (XI (XI (XO (XI (XI (XI (XI (XO (XO (XO (XO (XI (XI (XO
    (XI (XI (XO (XO (XI (XO (XI (XO (XI (XI (XO (XO (XO (XI (XO (XO (XI (XO
    (XI (XO (XO (XI (XI (XO (XI (XI (XI (XI (XO (XO (XO (XO (XO (XO (XI (XO
    (XI (XI (XI (XO
    XH))))))))))))))))))))))))))))))))))))))))))))))))))))))))))) :: ((Npos
    (XI (XO (XI (XO (XI (XO (XI (XI (XO (XO (XO (XI (XI (XO (XI (XI (XO (XI
    (XO (XI (XI (XO (XO (XI (XO (XI (XO (XI (XO (XI (XO (XI (XI (XI (XI (XI
    (XI (XO (XO (XI (XI (XI (XO (XO (XI (XI (XI (XO (XI (XO (XO (XO (XI (XO
    (XI (XO (XO (XO (XI (XO (XO (XO (XI
    XH)))))))))))))))))))))))))))))))))))))))))))))))))))))))))))))))) :: ((Npos
    (XO (XI (XO (XI (XI (XI (XI (XO (XO (XO (XO (XO (XO (XI (XI (XO (XO (XI
    (XO (XO (XO (XO (XO (XO (XI (XI (XO (XI (XO (XO (XI (XO (XO (XI (XO (XO
    (XO (XO (XI (XI (XO (XO (XO (XI (XI (XO (XO (XO (XO (XO (XI (XO (XI (XO
    (XI (XO (XI (XO (XO (XO (XI (XI
    XH))))))))))))))))))))))))))))))))))))))))))))))))))))))))))))))) :: ((Npos
    (XI (XO (XO (XO (XI (XO (XI (XI (XI (XI (XI (XO (XO (XO (XI (XO (XI (XO
    (XO (XO (XO (XI (XI (XI (XI (XI (XI (XI (XO (XO (XI (XI (XI (XO (XI (XI
    (XI (XO (XO (XI (XI (XO (XI (XO (XI (XI (XO (XO (XI (XI (XO (XO (XO (XI
    (XI (XO (XO (XO (XO (XO (XI (XI (XI
    XH)))))))))))))))))))))))))))))))))))))))))))))))))))))))))))))))) :: ((Npos
    (XO (XI (XI (XO (XO (XO (XO (XI (XI (XO (XI (XI (XO (XO (XI (XI (XO (XI
    (XO (XO (XO (XO (XI (XO (XO (XO (XO (XI (XI (XI (XO (XI (XO (XI (XO (XO
    (XO (XI (XO (XI (XO (XI (XI (XO (XO (XI (XI (XI (XI (XI (XI (XO (XO (XI
    (XI (XO (XI (XO (XO (XO (XI (XO (XI
    XH)))))))))))))))))))))))))))))))))))))))))))))))))))))))))))))))) :: ((Npos
    (XO (XI (XI (XO (XI (XI (XI (XI (XI (XO (XI (XO (XI (XO (XO (XI (XI (XI
    (XO (XO (XI (XI (XI (XI (XI (XO (XO (XI (XI (XO (XO (XI (XO (XI (XO (XI
    (XO (XI (XO (XI (XI (XI (XO (XO (XO (XO (XO (XI (XO (XO (XO (XI (XI (XO
    (XO (XO (XO (XI (XI (XO (XO (XO (XO
    XH)))))))))))))))))))))))))))))))))))))))))))))))))))))))))))))))) :: ((Npos
    (XO (XI (XI (XO (XI (XO (XI (XO (XO (XI (XI (XI (XO (XI (XI (XO (XI (XO
    (XO (XO (XI (XO (XI (XO (XI (XO (XI (XO (XI (XI (XO (XI (XI (XI (XO (XO
    (XI (XI (XI (XO (XI (XO (XO (XI (XI (XI (XO (XI (XO (XO (XI (XO (XI (XO
    (XI (XO (XO (XI (XI (XO (XO (XI
    XH))))))))))))))))))))))))))))))))))))))))))))))))))))))))))))))) :: ((Npos
    (XO (XI (XO (XO (XI (XO (XI (XI (XO (XO (XI (XO (XO (XI (XO (XO (XI (XI
    (XO (XI (XI (XO (XO (XI (XO (XO (XI (XO (XO (XI (XO (XO (XI (XO (XI (XO
    (XI (XI (XO (XO (XI (XO (XI (XO (XO (XO (XO (XO (XO (XO (XO (XO (XO (XO
    (XI (XO (XI (XI (XI (XI (XO (XO
    XH))))))))))))))))))))))))))))))))))))))))))))))))))))))))))))))) :: ((Npos
    (XI (XI (XI (XI (XI (XO (XO (XI (XI (XO (XO (XO (XO (XO (XO (XI (XO (XI
    (XI (XO (XO (XI (XO (XO (XO (XI (XO (XI (XI (XI (XO (XO (XO (XO (XI (XI
    (XO (XO (XO (XO (XI (XO (XO (XI (XO (XO (XO (XO (XI (XI (XO (XI (XO (XI
    (XI (XO (XI (XO (XO (XI (XO (XI
    XH))))))))))))))))))))))))))))))))))))))))))))))))))))))))))))))) :: ((Npos
    (XO (XI (XI (XI (XI (XO (XO (XI (XO (XO (XO (XI (XO (XO (XO (XO (XO (XI
    (XO (XO (XI (XI (XI (XO (XO (XI (XO (XI (XI (XO (XO (XO (XO (XI (XI (XO
    (XO (XI (XO (XO (XO (XI (XO (XO (XO (XI (XI (XI (XO (XI (XO (XO (XO (XO
    (XI (XO (XO (XI (XO (XO (XO (XO (XI
    XH)))))))))))))))))))))))))))))))))))))))))))))))))))))))))))))))) :: ((Npos
    (XI (XO (XO (XO (XO (XI (XI (XO (XI (XI (XO (XO (XO (XO (XO (XO (XO (XO
    (XI (XI (XO (XO (XI (XO (XI (XO (XI (XI (XI (XI (XO (XI (XI (XI (XO (XO
    (XO (XO (XI (XO (XI (XI (XO (XO (XO (XI (XI (XI (XO (XO (XI (XO (XO (XO
    (XI (XO (XO (XO (XI (XI (XO (XI (XI
    XH)))))))))))))))))))))))))))))))))))))))))))))))))))))))))))))))) :: ((Npos
    (XO (XO (XO (XI (XI (XI (XO (XO (XO (XO (XI (XI (XO (XO (XI (XO (XI (XI
    (XI (XI (XI (XO (XI (XO (XI (XI (XI (XO (XI (XO (XI (XI (XO (XO (XO (XI
    (XI (XO (XI (XI (XI (XI (XI (XO (XO (XI (XO (XI (XO (XI (XO (XI (XO (XO
    (XO (XO (XO (XI (XI (XO (XI (XI (XI
    XH)))))))))))))))))))))))))))))))))))))))))))))))))))))))))))))))) :: ((Npos
    (XO (XI (XO (XI (XO (XO (XO (XI (XO (XO (XO (XO (XO (XI (XO (XI (XO (XO
    (XI (XI (XI (XI (XI (XO (XO (XO (XO (XO (XI (XO (XO (XO (XI (XO (XI (XO
    (XI (XI (XO (XI (XO (XI (XI (XO (XO (XI (XI (XO (XI (XI (XI (XI (XI (XO
    (XI (XO (XI (XI (XI (XO (XO (XO (XI
    XH)))))))))))))))))))))))))))))))))))))))))))))))))))))))))))))))) :: ((Npos
    (XO (XI (XO (XI (XI (XI (XO (XO (XO (XI (XO (XO (XI (XI (XI (XO (XI (XI
    (XI (XO (XO (XO (XI (XO (XI (XI (XO (XI (XI (XI (XI (XI (XI (XI (XO (XI
    (XI (XO (XO (XO (XO (XI (XO (XO (XO (XO (XO (XO (XO (XI (XI (XI (XO (XO
    (XI (XO (XO (XI (XO (XO (XO (XO
    XH))))))))))))))))))))))))))))))))))))))))))))))))))))))))))))))) :: ((Npos
    (XI (XI (XO (XI (XI (XO (XO (XI (XI (XI (XI (XI (XO (XI (XO (XO (XO (XO
    (XI (XI (XI (XI (XI (XO (XI (XI (XO (XO (XO (XI (XO (XO (XO (XO (XO (XI
    (XI (XO (XO (XO (XO (XO (XO (XI (XO (XI (XO (XO (XI (XO (XI (XI (XO (XI
    (XI (XO (XO (XI (XI (XI (XO
    XH)))))))))))))))))))))))))))))))))))))))))))))))))))))))))))))) :: ((Npos
    (XO (XO (XO (XI (XI (XO (XO (XO (XI (XI (XO (XO (XI (XI (XI (XO (XI (XO
    (XO (XI (XI (XI (XO (XO (XI (XO (XI (XI (XI (XI (XI (XI (XI (XI (XO (XI
    (XO (XO (XI (XI (XI (XI (XO (XO (XI (XI (XO (XO (XO (XO (XO (XO (XO (XI
    (XO (XO (XO (XI (XI
    XH)))))))))))))))))))))))))))))))))))))))))))))))))))))))))))) :: ((Npos
    (XI (XI (XO (XO (XI (XI (XI (XO (XO (XI (XI (XI (XI (XI (XI (XI (XO (XO
    (XI (XO (XO (XI (XO (XI (XO (XO (XO (XO (XI (XO (XI (XO (XI (XI (XO (XI
    (XI (XO (XO (XI (XO (XO (XO (XO (XO (XO (XI (XO (XO (XI (XI (XI (XI (XI
    (XI (XI (XI (XO (XI (XI
    XH))))))))))))))))))))))))))))))))))))))))))))))))))))))))))))) :: ((Npos
    (XI (XO (XI (XO (XI (XO (XI (XI (XO (XO (XO (XO (XO (XO (XO (XO (XO (XI
    (XO (XI (XI (XO (XO (XO (XI (XI (XI (XI (XO (XO (XI (XO (XO (XO (XO (XO
    (XO (XI (XO (XI (XI (XI (XO (XO (XO (XI (XO (XI (XI (XI (XO (XO (XO (XO
    (XI (XI (XO (XI (XI (XI (XO (XI (XO
    XH)))))))))))))))))))))))))))))))))))))))))))))))))))))))))))))))) :: ((Npos
    (XI (XI (XI (XI (XO (XO (XI (XO (XI (XI (XO (XI (XO (XO (XI (XO (XI (XI
    (XO (XO (XI (XO (XI (XO (XO (XO (XI (XI (XI (XO (XI (XI (XO (XI (XI (XI
    (XO (XO (XO (XO (XO (XO (XO (XI (XI (XO (XO (XO (XI (XI (XO (XO (XO (XI
    (XO (XI (XO (XI (XI (XI (XO (XI
    XH))))))))))))))))))))))))))))))))))))))))))))))))))))))))))))))) :: ((Npos
    (XO (XO (XI (XO (XI (XI (XI (XI (XI (XO (XI (XO (XI (XI (XO (XO (XI (XO
    (XO (XO (XO (XO (XO (XI (XO (XI (XI (XI (XI (XI (XO (XO (XI (XI (XO (XO
    (XI (XI (XI (XO (XI (XI (XI (XI (XI (XO (XO (XI (XI (XI (XO (XO (XI (XO
    (XO (XI (XO (XI (XI (XI (XI (XO (XI
    XH)))))))))))))))))))))))))))))))))))))))))))))))))))))))))))))))) :: ((Npos
    (XO (XO (XI (XO (XI (XO (XI (XO (XO (XO (XI (XI (XO (XI (XI (XO (XO (XI
    (XO (XO (XI (XI (XI (XI (XI (XO (XI (XO (XI (XO (XO (XO (XI (XI (XI (XO
    (XI (XI (XI (XO (XI (XO (XO (XI (XO (XO (XI (XO (XI (XO (XI (XO (XO (XI
    (XO (XO (XO (XI (XO (XI (XO (XI (XI
    XH)))))))))))))))))))))))))))))))))))))))))))))))))))))))))))))))) :: ((Npos
    (XO (XI (XI (XO (XI (XI (XI (XO (XI (XO (XI (XO (XO (XO (XI (XI (XI (XI
    (XI (XI (XO (XI (XI (XO (XO (XO (XO (XO (XO (XO (XO (XO (XO (XO (XO (XI
    (XO (XI (XO (XO (XI (XO (XI (XO (XO (XO (XI (XO (XO (XI (XI (XO (XO (XI
    (XO (XO (XO (XI (XO (XI (XI (XO (XI
    XH)))))))))))))))))))))))))))))))))))))))))))))))))))))))))))))))) :: ((Npos
    (XI (XI (XI (XO (XO (XI (XO (XI (XI (XO (XO (XI (XI (XI (XI (XI (XI (XI
    (XO (XO (XI (XI (XO (XI (XI (XI (XO (XO (XO (XI (XO (XI (XO (XO (XO (XI
    (XO (XI (XI (XO (XI (XO (XO (XO (XO (XI (XO (XO (XI (XI (XI (XO (XO (XI
    (XO (XI (XO (XO (XI (XI
    XH))))))))))))))))))))))))))))))))))))))))))))))))))))))))))))) :: ((Npos
    (XI (XI (XO (XI (XI (XO (XO (XI (XO (XI (XI (XI (XO (XI (XO (XI (XI (XO
    (XI (XI (XO (XI (XO (XO (XO (XO (XI (XO (XO (XI (XO (XI (XO (XI (XI (XO
    (XO (XO (XO (XO (XO (XI (XO (XO (XO (XI (XO (XI (XI (XO (XI (XO (XI (XO
    (XI (XI (XI (XI (XO (XI (XO
    XH)))))))))))))))))))))))))))))))))))))))))))))))))))))))))))))) :: ((Npos
    (XI (XI (XO (XO (XO (XO (XO (XO (XI (XI (XI (XI (XO (XO (XI (XI (XI (XO
    (XI (XO (XO (XO (XO (XI (XO (XO (XO (XI (XI (XI (XO (XO (XI (XI (XO (XI
    (XI (XI (XI (XI (XO (XI (XI (XO (XO (XI (XI (XI (XI (XO (XO (XO (XO (XI
    (XI (XI (XO (XI (XI (XO (XI (XO
    XH))))))))))))))))))))))))))))))))))))))))))))))))))))))))))))))) :: ((Npos
    (XO (XI (XO (XO (XO (XI (XI (XO (XI (XO (XI (XO (XI (XI (XI (XO (XI (XO
    (XI (XI (XO (XI (XO (XI (XO (XO (XI (XO (XO (XO (XI (XO (XI (XO (XI (XI
    (XI (XO (XI (XO (XI (XO (XI (XO (XI (XO (XI (XI (XI (XO (XO (XO (XO (XO
    (XI (XI (XI (XI (XI (XO (XO (XI (XO
    XH)))))))))))))))))))))))))))))))))))))))))))))))))))))))))))))))) :: ((Npos
    (XO (XI (XI (XO (XO (XI (XI (XI (XI (XO (XI (XI (XO (XI (XI (XO (XO (XI
    (XO (XI (XI (XI (XI (XI (XI (XI (XO (XO (XI (XO (XO (XI (XO (XO (XO (XI
    (XO (XI (XO (XI (XO (XO (XO (XO (XI (XI (XI (XO (XO (XI (XI (XI (XO (XI
    (XI (XO (XO (XI (XO (XI (XO (XO
    XH))))))))))))))))))))))))))))))))))))))))))))))))))))))))))))))) :: ((Npos
    (XI (XO (XI (XI (XO (XO (XI (XI (XI (XI (XI (XO (XI (XI (XO (XI (XO (XI
    (XI (XI (XI (XO (XO (XO (XI (XO (XI (XO (XI (XI (XO (XI (XI (XI (XO (XI
    (XI (XO (XO (XI (XO (XI (XO (XI (XI (XO (XI (XO (XI (XI (XI (XO (XI (XI
    (XI (XI (XI (XI (XO (XO (XI (XI (XO
    XH)))))))))))))))))))))))))))))))))))))))))))))))))))))))))))))))) :: ((Npos
    (XI (XO (XI (XI (XI (XO (XO (XO (XI (XI (XI (XO (XO (XI (XO (XI (XI (XO
    (XI (XI (XO (XI (XI (XO (XI (XI (XO (XI (XO (XI (XO (XO (XI (XI (XI (XO
    (XO (XO (XI (XI (XO (XI (XO (XO (XI (XI (XO (XO (XI (XI (XI (XO (XO (XO
    (XI (XO (XI (XI (XI (XI (XO (XI (XO
    XH)))))))))))))))))))))))))))))))))))))))))))))))))))))))))))))))) :: ((Npos
    (XI (XI (XI (XO (XI (XI (XI (XO (XI (XI (XI (XO (XO (XI (XO (XI (XO (XO
    (XO (XO (XO (XO (XI (XI (XO (XI (XI (XO (XI (XI (XO (XI (XI (XO (XI (XI
    (XI (XO (XO (XO (XI (XO (XI (XI (XO (XI (XI (XO (XO (XI (XO (XI (XI (XI
    (XI (XO (XI (XO (XO (XO (XI (XI (XO
    XH)))))))))))))))))))))))))))))))))))))))))))))))))))))))))))))))) :: ((Npos
    (XO (XI (XI (XI (XI (XI (XI (XO (XO (XO (XO (XI (XI (XO (XO (XO (XI (XO
    (XO (XO (XO (XI (XO (XI (XO (XO (XO (XI (XO (XO (XI (XI (XO (XO (XI (XO
    (XO (XO (XO (XO (XI (XO (XI (XO (XO (XI (XO (XO (XO (XI (XO (XI (XI (XI
    (XI (XO (XO (XO (XI (XO (XI
    XH)))))))))))))))))))))))))))))))))))))))))))))))))))))))))))))) :: ((Npos
    (XI (XO (XO (XI (XI (XO (XI (XO (XI (XO (XO (XO (XI (XI (XI (XO (XI (XI
    (XO (XI (XI (XO (XI (XO (XI (XI (XO (XO (XI (XI (XI (XO (XI (XO (XO (XI
    (XI (XI (XO (XO (XO (XO (XO (XO (XO (XO (XO (XO (XO (XI (XI (XI (XO (XI
    (XI (XO (XO (XI (XO (XO (XI (XI (XI
    XH)))))))))))))))))))))))))))))))))))))))))))))))))))))))))))))))) :: ((Npos
    (XO (XO (XO (XI (XO (XO (XI (XI (XO (XI (XO (XO (XO (XO (XO (XO (XO (XI
    (XI (XO (XO (XO (XO (XI (XO (XO (XI (XO (XO (XO (XI (XI (XI (XO (XI (XI
    (XO (XI (XI (XO (XI (XI (XI (XI (XI (XO (XO (XO (XO (XI (XI (XI (XO (XI
    (XI (XO (XI (XO (XI (XO (XI (XI (XO
    XH)))))))))))))))))))))))))))))))))))))))))))))))))))))))))))))))) :: ((Npos
    (XI (XI (XO (XO (XI (XI (XI (XO (XI (XI (XI (XO (XO (XI (XO (XO (XI (XI
    (XI (XO (XI (XI (XI (XI (XI (XI (XO (XI (XO (XI (XI (XI (XI (XO (XO (XI
    (XO (XI (XO (XO (XO (XO (XO (XO (XI (XI (XO (XI (XI (XI (XO (XO (XI (XI
    (XO (XO (XO (XO (XO (XO (XO (XO
    XH))))))))))))))))))))))))))))))))))))))))))))))))))))))))))))))) :: ((Npos
    (XO (XO (XI (XO (XI (XO (XO (XO (XO (XO (XI (XO (XI (XI (XO (XI (XI (XO
    (XO (XO (XI (XO (XO (XO (XI (XI (XI (XI (XO (XO (XI (XO (XO (XO (XO (XO
    (XI (XO (XI (XO (XO (XO (XI (XI (XI (XI (XO (XO (XI (XI (XI (XO (XI (XO
    (XO (XO (XO (XO (XI (XI (XI (XI
    XH))))))))))))))))))))))))))))))))))))))))))))))))))))))))))))))) :: [])))))))))))))))))))))))))))))))))))))))))))))))))))))))))))))))) :: (((Npos
    (XO (XO (XO (XO (XI (XI (XO (XO (XI (XO (XO (XO (XO (XO (XO (XI (XI (XO
    (XI (XO (XO (XI (XO (XO (XI (XI (XO (XO (XO (XI (XI (XI (XI (XI (XO (XO
    (XI (XO (XO (XO (XI (XO (XO (XI (XI (XO (XO (XO (XI (XI (XO (XO (XI (XI
    (XO (XO (XI (XO (XI (XO
    XH))))))))))))))))))))))))))))))))))))))))))))))))))))))))))))) :: ((Npos
    (XO (XI (XO (XO (XO (XO (XI (XI (XI (XO (XO (XO (XO (XO (XO (XO (XO (XI
    (XO (XI (XI (XO (XI (XI (XO (XO (XO (XI (XI (XO (XI (XI (XO (XI (XI (XO
    (XO (XO (XO (XI (XO (XI (XI (XO (XI (XI (XO (XI (XI (XI (XI (XI (XO (XI
    (XO (XO (XO (XI
    XH))))))))))))))))))))))))))))))))))))))))))))))))))))))))))) :: ((Npos
    (XO (XO (XI (XI (XO (XO (XI (XI (XI (XO (XI (XI (XI (XO (XO (XO (XO (XO
    (XO (XI (XI (XI (XO (XO (XI (XI (XI (XO (XI (XO (XI (XI (XO (XO (XO (XI
    (XO (XO (XI (XI (XI (XI (XO (XO (XI (XO (XO (XO (XI (XO (XI (XI (XO (XO
    (XI (XO (XI (XO (XO (XO (XO (XI (XI
    XH)))))))))))))))))))))))))))))))))))))))))))))))))))))))))))))))) :: ((Npos
    (XO (XO (XI (XO (XI (XI (XO (XI (XO (XO (XO (XI (XO (XO (XO (XI (XI (XO
    (XI (XO (XI (XI (XO (XI (XO (XO (XO (XO (XI (XI (XO (XI (XI (XO (XO (XI
    (XO (XI (XI (XO (XI (XO (XO (XI (XI (XI (XO (XI (XO (XO (XO (XI (XO (XI
    (XI (XI (XI (XO (XO (XI (XI (XI (XO
    XH)))))))))))))))))))))))))))))))))))))))))))))))))))))))))))))))) :: ((Npos
    (XI (XI (XO (XO (XI (XI (XI (XI (XI (XO (XI (XO (XI (XI (XO (XO (XO (XI
    (XI (XI (XO (XO (XI (XO (XI (XO (XI (XI (XI (XO (XI (XI (XI (XI (XO (XI
    (XI (XI (XO (XO (XI (XI (XI (XO (XI (XI (XI (XO (XO (XO (XI (XO (XO (XO
    (XI (XO (XO (XI (XO (XI (XO (XO (XI
    XH)))))))))))))))))))))))))))))))))))))))))))))))))))))))))))))))) :: ((Npos
    (XO (XO (XI (XI (XI (XI (XO (XO (XI (XI (XO (XI (XI (XO (XO (XI (XO (XO
    (XO (XI (XO (XI (XI (XI (XO (XO (XO (XI (XI (XI (XO (XO (XI (XI (XI (XI
    (XI (XO (XO (XO (XI (XO (XO (XO (XO (XI (XO (XI (XI (XI (XI (XO (XO (XI
    (XI (XI (XO (XI (XO (XI (XI (XO
    XH))))))))))))))))))))))))))))))))))))))))))))))))))))))))))))))) :: ((Npos
    (XO (XI (XO (XI (XI (XI (XI (XO (XI (XO (XO (XO (XO (XO (XO (XI (XI (XI
    (XO (XO (XO (XI (XI (XI (XI (XI (XO (XO (XO (XO (XO (XI (XI (XI (XI (XO
    (XI (XI (XI (XI (XO (XI (XI (XI (XI (XO (XI (XI (XO (XI (XI (XI (XI (XO
    (XI (XI (XI (XI (XO (XI (XO (XI
    XH))))))))))))))))))))))))))))))))))))))))))))))))))))))))))))))) :: ((Npos
    (XO (XO (XO (XO (XI (XO (XI (XI (XO (XO (XI (XO (XI (XI (XO (XO (XI (XO
    (XO (XO (XI (XI (XO (XO (XO (XO (XO (XI (XI (XI (XI (XO (XI (XO (XO (XO
    (XI (XO (XO (XO (XO (XO (XO (XO (XI (XI (XI (XO (XI (XO (XI (XO (XO (XO
    (XI (XO (XO (XO (XO (XI (XI (XO (XI
    XH)))))))))))))))))))))))))))))))))))))))))))))))))))))))))))))))) :: ((Npos
    (XO (XI (XI (XO (XO (XO (XO (XI (XO (XI (XO (XO (XI (XI (XO (XO (XO (XI
    (XI (XI (XI (XO (XI (XI (XO (XO (XO (XO (XI (XO (XI (XI (XO (XI (XO (XI
    (XO (XO (XI (XI (XO (XI (XO (XO (XI (XO (XI (XI (XI (XO (XO (XO (XO (XI
    (XI (XO (XI (XI (XO (XO (XO (XI (XI
    XH)))))))))))))))))))))))))))))))))))))))))))))))))))))))))))))))) :: ((Npos
    (XI (XO (XO (XO (XO (XO (XO (XO (XI (XI (XI (XO (XO (XI (XO (XI (XI (XO
    (XO (XO (XI (XO (XO (XI (XI (XI (XO (XO (XI (XO (XO (XI (XO (XO (XI (XO
    (XI (XO (XI (XI (XI (XI (XI (XI (XI (XO (XO (XO (XO (XI (XO (XI (XI (XI
    (XI (XI (XO (XO (XI (XI (XI (XI (XI
    XH)))))))))))))))))))))))))))))))))))))))))))))))))))))))))))))))) :: ((Npos
    (XO (XI (XO (XI (XI (XI (XI (XI (XO (XO (XI (XI (XO (XI (XI (XI (XO (XO
    (XI (XO (XI (XI (XI (XO (XI (XO (XO (XI (XO (XO (XI (XO (XI (XO (XO (XO
    (XO (XO (XO (XO (XI (XO (XI (XO (XI (XI (XI (XI (XI (XO (XI (XO (XI (XI
    (XI (XI (XI (XI (XO (XI (XI (XI
    XH))))))))))))))))))))))))))))))))))))))))))))))))))))))))))))))) :: ((Npos
    (XO (XI (XO (XI (XI (XO (XO (XI (XO (XI (XO (XI (XI (XI (XI (XI (XI (XO
    (XI (XI (XI (XI (XO (XO (XI (XO (XI (XI (XI (XO (XI (XI (XO (XO (XO (XO
    (XI (XO (XI (XO (XI (XO (XO (XO (XO (XI (XO (XI (XO (XI (XI (XI (XO (XO
    (XO (XI (XO (XO (XO (XI (XO (XI (XO
    XH)))))))))))))))))))))))))))))))))))))))))))))))))))))))))))))))) :: ((Npos
    (XI (XI (XO (XI (XO (XO (XO (XO (XI (XO (XO (XO (XI (XO (XO (XO (XO (XO
    (XI (XI (XI (XO (XO (XI (XI (XO (XI (XO (XI (XI (XO (XO (XI (XI (XI (XI
    (XI (XI (XO (XO (XI (XO (XI (XI (XO (XO (XO (XI (XO (XI (XI (XI (XO (XI
    (XI (XI (XO (XO (XI (XI (XO (XI (XI
    XH)))))))))))))))))))))))))))))))))))))))))))))))))))))))))))))))) :: ((Npos
    (XO (XO (XI (XO (XO (XO (XO (XI (XI (XI (XI (XO (XI (XI (XO (XI (XO (XO
    (XI (XI (XO (XO (XO (XO (XO (XI (XO (XO (XO (XO (XO (XI (XO (XI (XI (XI
    (XI (XO (XO (XI (XI (XO (XI (XI (XI (XO (XI (XI (XI (XO (XO (XI (XO (XO
    (XI (XI (XI (XO (XI (XO (XI (XI (XO
    XH)))))))))))))))))))))))))))))))))))))))))))))))))))))))))))))))) :: ((Npos
    (XI (XO (XI (XI (XO (XO (XO (XO (XO (XI (XO (XO (XI (XI (XO (XI (XO (XO
    (XI (XO (XO (XO (XI (XI (XI (XO (XI (XI (XI (XO (XI (XO (XI (XI (XI (XI
    (XI (XI (XI (XO (XI (XI (XO (XI (XO (XI (XI (XO (XO (XO (XI (XO (XO (XI
    (XO (XO (XI (XO (XO (XI (XI (XI (XI
    XH)))))))))))))))))))))))))))))))))))))))))))))))))))))))))))))))) :: ((Npos
    (XO (XI (XO (XI (XI (XO (XO (XI (XO (XO (XO (XI (XO (XI (XI (XO (XO (XI
    (XI (XO (XI (XI (XI (XI (XO (XI (XO (XI (XI (XI (XI (XI (XO (XO (XI (XI
    (XI (XO (XO (XI (XI (XO (XI (XO (XI (XI (XO (XO (XO (XI (XO (XI (XI (XO
    (XO (XI (XO (XI (XI (XO (XI (XI
    XH))))))))))))))))))))))))))))))))))))))))))))))))))))))))))))))) :: ((Npos
    (XI (XI (XO (XI (XO (XO (XO (XI (XI (XI (XI (XO (XI (XO (XO (XI (XO (XI
    (XI (XI (XO (XO (XO (XI (XI (XI (XO (XI (XO (XO (XI (XO (XI (XO (XO (XO
    (XO (XO (XI (XI (XO (XI (XO (XO (XI (XO (XI (XI (XO (XO (XO (XI (XI (XO
    (XO (XO (XI (XO (XI (XO (XO (XO (XI
    XH)))))))))))))))))))))))))))))))))))))))))))))))))))))))))))))))) :: ((Npos
    (XO (XI (XI (XI (XI (XI (XI (XO (XO (XO (XI (XO (XI (XO (XI (XI (XI (XO
    (XI (XI (XI (XI (XI (XI (XO (XI (XO (XO (XO (XO (XO (XO (XI (XI (XI (XI
    (XO (XI (XI (XO (XO (XI (XI (XO (XI (XO (XO (XO (XI (XI (XI (XO (XI (XO
    (XI (XO (XO (XO (XI (XO (XO (XI
    XH))))))))))))))))))))))))))))))))))))))))))))))))))))))))))))))) :: ((Npos
    (XI (XO (XO (XO (XI (XI (XO (XO (XI (XI (XI (XI (XI (XI (XO (XO (XI (XO
    (XI (XI (XI (XI (XI (XO (XI (XO (XO (XO (XI (XO (XI (XI (XI (XO (XO (XI
    (XI (XO (XO (XI (XI (XO (XI (XO (XI (XI (XI (XO (XI (XO (XI (XO (XI (XO
    (XI (XI (XI (XI (XI (XI (XI (XI (XI
    XH)))))))))))))))))))))))))))))))))))))))))))))))))))))))))))))))) :: ((Npos
    (XO (XO (XO (XI (XO (XI (XO (XO (XO (XO (XI (XO (XO (XI (XO (XI (XI (XO
    (XI (XI (XO (XO (XO (XI (XO (XI (XO (XO (XI (XI (XI (XO (XI (XI (XO (XO
    (XI (XO (XO (XO (XO (XI (XI (XO (XO (XI (XI (XO (XI (XO (XI (XI (XI (XO
    (XI (XO (XI (XO (XO (XI (XO (XI (XI
    XH)))))))))))))))))))))))))))))))))))))))))))))))))))))))))))))))) :: ((Npos
    (XI (XI (XI (XO (XI (XI (XO (XO (XI (XI (XI (XI (XI (XO (XO (XO (XO (XO
    (XI (XI (XO (XI (XI (XI (XO (XO (XI (XO (XI (XI (XI (XI (XO (XO (XO (XI
    (XI (XI (XO (XO (XI (XO (XI (XI (XO (XI (XI (XI (XI (XI (XO (XO (XI (XO
    (XO (XO (XO (XO (XI (XI (XI (XO (XO
    XH)))))))))))))))))))))))))))))))))))))))))))))))))))))))))))))))) :: ((Npos
    (XO (XI (XO (XO (XO (XI (XO (XI (XO (XI (XI (XI (XI (XI (XO (XI (XO (XI
    (XO (XI (XI (XO (XI (XO (XO (XI (XI (XI (XI (XI (XI (XO (XI (XO (XI (XO
    (XI (XI (XI (XO (XO (XI (XI (XI (XO (XI (XI (XO (XI (XO (XI (XO (XO (XO
    (XO (XI (XI
    XH)))))))))))))))))))))))))))))))))))))))))))))))))))))))))) :: ((Npos
    (XO (XI (XO (XO (XI (XO (XO (XO (XO (XO (XO (XI (XI (XO (XI (XI (XI (XO
    (XI (XI (XI (XO (XI (XO (XO (XO (XO (XI (XO (XI (XO (XO (XI (XI (XO (XI
    (XI (XO (XO (XO (XO (XI (XI (XO (XO (XO (XO (XI (XI (XI (XI (XO (XI (XO
    (XI (XI (XO (XO (XO (XI (XI
    XH)))))))))))))))))))))))))))))))))))))))))))))))))))))))))))))) :: ((Npos
    (XO (XO (XO (XI (XI (XO (XO (XI (XI (XO (XI (XO (XI (XI (XO (XO (XI (XI
    (XI (XO (XO (XO (XO (XO (XI (XO (XO (XI (XI (XI (XO (XO (XO (XO (XI (XO
    (XI (XO (XO (XO (XI (XI (XO (XI (XI (XO (XO (XI (XI (XO (XI (XI (XI (XI
    (XO (XI (XO (XI (XI (XI (XI (XI
    XH))))))))))))))))))))))))))))))))))))))))))))))))))))))))))))))) :: ((Npos
    (XI (XI (XI (XO (XI (XO (XO (XO (XI (XO (XI (XO (XI (XO (XI (XO (XI (XI
    (XO (XI (XO (XI (XO (XI (XO (XO (XI (XO (XI (XI (XI (XI (XO (XO (XO (XO
    (XI (XI (XI (XO (XO (XO (XI (XI (XI (XI (XI (XI (XI (XO (XI (XI (XI (XO
    (XO (XO (XI (XO (XI (XI (XI (XO
    XH))))))))))))))))))))))))))))))))))))))))))))))))))))))))))))))) :: ((Npos
    (XO (XI (XO (XI (XI (XI (XO (XI (XI (XI (XO (XO (XO (XI (XO (XO (XO (XI
    (XI (XO (XI (XI (XO (XO (XI (XI (XI (XO (XI (XI (XO (XI (XO (XO (XI (XO
    (XO (XO (XO (XI (XO (XO (XO (XO (XI (XI (XI (XO (XO (XI (XI (XI (XO (XO
    (XO (XI (XI (XI (XI (XI (XO
    XH)))))))))))))))))))))))))))))))))))))))))))))))))))))))))))))) :: ((Npos
    (XI (XO (XO (XI (XO (XO (XO (XI (XO (XO (XI (XO (XO (XO (XO (XI (XO (XO
    (XO (XI (XI (XI (XI (XI (XI (XO (XO (XO (XI (XO (XO (XI (XO (XO (XO (XI
    (XI (XI (XO (XI (XI (XI (XO (XO (XO (XO (XO (XO (XI (XI (XO (XO (XO (XI
    (XO (XI (XO (XO (XI (XI (XI (XO
    XH))))))))))))))))))))))))))))))))))))))))))))))))))))))))))))))) :: ((Npos
    (XO (XO (XI (XO (XO (XO (XO (XI (XO (XO (XO (XO (XI (XO (XO (XI (XI (XI
    (XO (XI (XI (XO (XI (XO (XO (XO (XI (XI (XO (XO (XI (XI (XO (XO (XI (XI
    (XI (XO (XI (XI (XI (XO (XO (XI (XO (XO (XI (XO (XO (XI (XI (XI (XI (XI
    (XO (XO (XO (XI (XI (XI (XI (XI
    XH))))))))))))))))))))))))))))))))))))))))))))))))))))))))))))))) :: ((Npos
    (XI (XI (XO (XO (XO (XO (XO (XI (XI (XI (XO (XI (XO (XI (XI (XI (XI (XI
    (XO (XI (XO (XI (XO (XI (XI (XO (XO (XI (XI (XI (XO (XO (XI (XI (XI (XO
    (XO (XO (XO (XI (XO (XI (XO (XI (XI (XO (XO (XI (XO (XO (XO (XI (XI (XO
    (XI (XO (XO (XI (XI (XO (XO (XI
    XH))))))))))))))))))))))))))))))))))))))))))))))))))))))))))))))) :: ((Npos
    (XI (XI (XO (XI (XI (XI (XO (XO (XI (XO (XO (XI (XO (XO (XI (XO (XI (XO
    (XI (XO (XI (XI (XO (XO (XI (XO (XI (XO (XI (XI (XI (XO (XI (XI (XO (XO
    (XI (XI (XO (XO (XO (XI (XI (XO (XI (XO (XO (XO (XO (XO (XO (XO (XI (XI
    (XO (XO (XI (XI (XI (XO (XI (XI
    XH))))))))))))))))))))))))))))))))))))))))))))))))))))))))))))))) :: ((Npos
    (XI (XI (XI (XI (XO (XO (XI (XO (XI (XI (XO (XO (XI (XO (XI (XI (XO (XI
    (XO (XO (XO (XI (XO (XO (XO (XI (XO (XO (XO (XI (XO (XI (XO (XI (XI (XI
    (XI (XO (XO (XO (XO (XO (XI (XO (XO (XI (XO (XI (XI (XO (XI (XI (XI (XO
    (XI (XO (XO (XO (XI (XO (XI (XI (XI
    XH)))))))))))))))))))))))))))))))))))))))))))))))))))))))))))))))) :: ((Npos
    (XO (XI (XO (XI (XI (XO (XI (XO (XI (XI (XO (XI (XI (XI (XO (XI (XI (XO
    (XO (XO (XI (XI (XO (XO (XO (XO (XI (XO (XO (XI (XO (XO (XI (XO (XI (XI
    (XI (XO (XI (XI (XO (XI (XO (XO (XO (XO (XI (XI (XO (XO (XO (XI (XI (XO
    (XI (XO (XI (XI (XO (XI (XI (XO
    XH))))))))))))))))))))))))))))))))))))))))))))))))))))))))))))))) :: ((Npos
    (XI (XI (XO (XI (XO (XO (XO (XO (XI (XI (XI (XO (XO (XI (XI (XI (XI (XO
    (XI (XO (XI (XO (XI (XO (XO (XO (XO (XI (XO (XI (XO (XO (XI (XO (XI (XO
    (XO (XO (XI (XI (XO (XI (XO (XO (XO (XI (XO (XI (XO (XO (XI (XO (XO (XO
    (XI (XI (XO (XI (XO (XI (XO (XO
    XH))))))))))))))))))))))))))))))))))))))))))))))))))))))))))))))) :: ((Npos
    (XI (XO (XO (XI (XI (XI (XO (XO (XO (XO (XI (XO (XO (XO (XO (XO (XO (XI
    (XI (XI (XO (XI (XI (XO (XO (XI (XI (XO (XO (XO (XO (XI (XI (XI (XI (XI
    (XO (XI (XO (XI (XO (XI (XI (XI (XI (XI (XI (XO (XI (XI (XO (XI (XI (XO
    (XI (XI (XO (XO (XO (XI (XO (XO (XO
    XH)))))))))))))))))))))))))))))))))))))))))))))))))))))))))))))))) :: ((Npos
    (XO (XO (XO (XI (XI (XO (XI (XI (XI (XI (XO (XI (XO (XO (XO (XI (XO (XI
    (XO (XI (XO (XI (XI (XI (XI (XO (XO (XI (XI (XI (XI (XI (XI (XI (XO (XO
    (XO (XO (XO (XI (XO (XO (XO (XI (XO (XO (XI (XO (XO (XI (XI (XO (XI (XI
    (XO (XI (XI (XO (XO (XO (XO (XO (XO
    XH)))))))))))))))))))))))))))))))))))))))))))))))))))))))))))))))) :: ((Npos
    (XO (XO (XO (XI (XI (XO (XO (XO (XI (XI (XI (XI (XI (XO (XO (XO (XO (XO
    (XO (XO (XI (XO (XO (XI (XI (XI (XO (XI (XO (XI (XO (XO (XI (XO (XI (XI
    (XO (XI (XI (XI (XO (XI (XI (XI (XI (XO (XO (XI (XO (XI (XI (XO (XI (XI
    (XI (XO (XO (XI (XO (XI (XI (XO
    XH))))))))))))))))))))))))))))))))))))))))))))))))))))))))))))))) :: ((Npos
    (XI (XI (XO (XI (XI (XO (XI (XO (XO (XO (XI (XI (XI (XI (XI (XO (XI (XO
    (XO (XO (XO (XO (XI (XO (XI (XI (XO (XI (XI (XI (XO (XI (XI (XO (XI (XO
    (XO (XI (XI (XO (XO (XO (XO (XO (XI (XI (XO (XO (XI (XI (XI (XO (XO (XI
    (XO (XO (XI (XO (XI (XO (XI
    XH)))))))))))))))))))))))))))))))))))))))))))))))))))))))))))))) :: ((Npos
    (XI (XO (XI (XI (XO (XI (XO (XI (XI (XO (XO (XO (XI (XI (XO (XI (XI (XI
    (XO (XO (XI (XI (XO (XO (XO (XO (XI (XI (XO (XI (XO (XI (XI (XO (XI (XO
    (XI (XO (XO (XI (XI (XI (XI (XO (XO (XI (XO (XI (XO (XO (XI (XI (XI (XO
    (XO (XO (XO (XI (XI (XI (XI (XI
    XH))))))))))))))))))))))))))))))))))))))))))))))))))))))))))))))) :: ((Npos
    (XO (XO (XI (XI (XO (XO (XI (XI (XI (XO (XO (XI (XO (XI (XO (XI (XO (XO
    (XO (XI (XI (XI (XI (XI (XI (XO (XI (XO (XO (XI (XO (XO (XO (XI (XO (XI
    (XI (XI (XO (XI (XO (XO (XO (XO (XO (XI (XI (XO (XO (XI (XI (XI (XO (XI
    (XI (XI (XI (XI (XO (XI (XO (XI (XI
    XH)))))))))))))))))))))))))))))))))))))))))))))))))))))))))))))))) :: ((Npos
    (XO (XO (XO (XO (XO (XO (XO (XI (XI (XO (XI (XI (XO (XI (XI (XI (XO (XI
    (XI (XI (XO (XI (XO (XO (XO (XI (XI (XO (XO (XO (XO (XO (XI (XO (XO (XO
    (XO (XO (XI (XO (XO (XO (XI (XI (XO (XI (XI (XI (XO (XI (XI (XI (XO (XO
    (XI (XO (XI (XO (XI (XO (XI (XI (XO
    XH)))))))))))))))))))))))))))))))))))))))))))))))))))))))))))))))) :: ((Npos
    (XO (XI (XO (XO (XI (XI (XO (XI (XI (XI (XO (XO (XO (XI (XI (XI (XO (XI
    (XI (XI (XO (XI (XO (XI (XO (XI (XO (XO (XI (XO (XO (XI (XO (XO (XO (XO
    (XI (XO (XI (XI (XI (XI (XO (XO (XO (XO (XI (XO (XI (XI (XO (XI (XI (XI
    (XI (XI (XO (XO (XI (XO (XI (XO
    XH))))))))))))))))))))))))))))))))))))))))))))))))))))))))))))))) :: ((Npos
    (XI (XI (XI (XI (XO (XO (XO (XI (XI (XI (XI (XO (XO (XI (XI (XI (XO (XO
    (XI (XO (XI (XO (XI (XI (XO (XI (XO (XI (XO (XI (XO (XO (XI (XO (XI (XI
    (XI (XO (XO (XI (XO (XI (XO (XI (XI (XI (XO (XO (XO (XI (XO (XO (XO (XI
    (XO (XO (XO (XO (XO (XO (XO (XO (XI
    XH)))))))))))))))))))))))))))))))))))))))))))))))))))))))))))))))) :: ((Npos
    (XI (XI (XO (XO (XI (XO (XO (XO (XO (XO (XI (XI (XI (XI (XO (XO (XI (XO
    (XI (XI (XO (XI (XI (XI (XO (XO (XO (XO (XI (XI (XO (XO (XO (XI (XO (XI
    (XO (XO (XO (XI (XO (XI (XI (XO (XO (XO (XI (XI (XI (XI (XI (XI (XO (XO
    (XI (XO (XI (XI (XO (XI (XI (XI (XO
    XH)))))))))))))))))))))))))))))))))))))))))))))))))))))))))))))))) :: ((Npos
    (XI (XO (XO (XO (XI (XI (XI (XI (XO (XO (XO (XI (XO (XO (XI (XI (XI (XO
    (XO (XI (XO (XI (XO (XI (XI (XI (XO (XO (XI (XO (XO (XI (XO (XO (XO (XO
    (XO (XI (XI (XO (XI (XI (XI (XO (XI (XO (XO (XI (XI (XO (XI (XO (XI (XO
    (XI (XO (XI (XO (XI (XO (XO (XO (XO
    XH)))))))))))))))))))))))))))))))))))))))))))))))))))))))))))))))) :: ((Npos
    (XO (XI (XO (XO (XO (XO (XO (XO (XI (XI (XO (XI (XI (XO (XO (XI (XO (XO
    (XI (XI (XO (XO (XO (XO (XO (XI (XO (XI (XI (XO (XO (XI (XI (XI (XO (XI
    (XO (XO (XO (XO (XO (XO (XO (XI (XO (XO (XO (XI (XO (XI (XO (XO (XI (XI
    (XO (XO (XI (XI (XO (XO (XO (XO
    XH))))))))))))))))))))))))))))))))))))))))))))))))))))))))))))))) :: ((Npos
    (XI (XO (XO (XI (XO (XI (XO (XI (XO (XI (XO (XO (XO (XO (XO (XO (XO (XI
    (XI (XO (XI (XI (XO (XI (XI (XO (XO (XI (XI (XI (XO (XO (XO (XI (XO (XI
    (XI (XI (XI (XI (XI (XO (XO (XO (XO (XI (XI (XI (XI (XI (XO (XO (XO (XO
    (XI (XI (XO (XI (XI (XO (XI (XO (XO
    XH)))))))))))))))))))))))))))))))))))))))))))))))))))))))))))))))) :: ((Npos
    (XI (XO (XO (XO (XO (XI (XI (XI (XI (XO (XI (XO (XI (XO (XI (XI (XI (XO
    (XO (XI (XO (XI (XI (XO (XO (XI (XI (XO (XI (XI (XO (XI (XI (XI (XO (XI
    (XI (XO (XO (XI (XO (XO (XO (XO (XO (XI (XI (XO (XI (XO (XO (XO (XO (XO
    (XO (XO (XO (XI (XI (XI (XI
    XH)))))))))))))))))))))))))))))))))))))))))))))))))))))))))))))) :: ((Npos
    (XI (XI (XO (XO (XO (XO (XO (XO (XO (XO (XO (XI (XI (XI (XO (XI (XO (XO
    (XO (XI (XI (XI (XO (XO (XI (XI (XI (XI (XO (XO (XO (XO (XO (XO (XO (XO
    (XO (XO (XI (XO (XI (XI (XI (XO (XO (XO (XO (XI (XO (XO (XI (XI (XI (XO
    (XO (XO (XO (XI (XI (XO (XI (XO (XI
    XH)))))))))))))))))))))))))))))))))))))))))))))))))))))))))))))))) :: ((Npos
    (XI (XO (XI (XO (XI (XI (XI (XO (XI (XI (XI (XO (XO (XO (XO (XO (XI (XO
    (XO (XI (XO (XI (XI (XO (XO (XO (XO (XO (XI (XO (XO (XO (XI (XO (XI (XI
    (XI (XO (XO (XI (XI (XO (XI (XO (XO (XI (XI (XO (XI (XI (XO (XI (XI (XO
    (XO (XI (XI (XO (XO (XO (XI (XI
    XH))))))))))))))))))))))))))))))))))))))))))))))))))))))))))))))) :: ((Npos
    (XO (XO (XI (XO (XI (XI (XI (XO (XO (XI (XI (XI (XI (XO (XO (XI (XI (XI
    (XO (XO (XI (XO (XI (XI (XI (XI (XO (XO (XI (XI (XO (XO (XO (XI (XI (XO
    (XI (XI (XI (XI (XI (XI (XO (XO (XO (XI (XI (XI (XI (XI (XI (XI (XI (XI
    (XO (XI (XO (XI (XI (XO (XI (XI (XO
    XH)))))))))))))))))))))))))))))))))))))))))))))))))))))))))))))))) :: ((Npos
    (XO (XI (XO (XI (XI (XO (XO (XI (XO (XI (XI (XO (XO (XI (XI (XI (XO (XO
    (XO (XO (XI (XI (XI (XI (XO (XI (XI (XO (XO (XI (XO (XO (XI (XO (XO (XO
    (XO (XO (XI (XO (XI (XI (XI (XO (XO (XO (XO (XO (XO (XO (XI (XI (XO (XO
    (XO (XO (XI (XI (XI (XO (XI (XI (XO
    XH)))))))))))))))))))))))))))))))))))))))))))))))))))))))))))))))) :: ((Npos
    (XO (XO (XI (XI (XI (XI (XO (XI (XI (XI (XO (XO (XO (XI (XO (XO (XO (XO
    (XO (XO (XI (XO (XO (XI (XI (XO (XI (XO (XO (XO (XO (XO (XO (XI (XI (XO
    (XO (XI (XI (XO (XI (XI (XO (XO (XI (XO (XO (XO (XI (XO (XO (XI (XO (XI
    (XI (XO (XO (XI (XI (XI (XO
    XH)))))))))))))))))))))))))))))))))))))))))))))))))))))))))))))) :: ((Npos
    (XI (XI (XI (XO (XI (XO (XI (XO (XO (XI (XO (XI (XO (XI (XI (XI (XO (XI
    (XI (XI (XI (XO (XO (XO (XO (XI (XO (XO (XI (XI (XO (XI (XI (XO (XI (XO
    (XI (XI (XO (XO (XO (XI (XO (XO (XO (XO (XI (XI (XI (XO (XO (XO (XO (XO
    (XI (XI (XI (XO (XI (XO (XI
    XH)))))))))))))))))))))))))))))))))))))))))))))))))))))))))))))) :: ((Npos
    (XI (XI (XI (XO (XI (XO (XO (XO (XI (XI (XO (XI (XO (XO (XO (XI (XO (XO
    (XO (XO (XI (XI (XO (XO (XI (XO (XI (XO (XO (XI (XO (XO (XO (XI (XI (XI
    (XO (XI (XI (XO (XI (XI (XO (XI (XI (XO (XO (XI (XI (XI (XI (XO (XI (XI
    (XI (XO (XI (XO (XI (XI (XI (XO (XI
    XH)))))))))))))))))))))))))))))))))))))))))))))))))))))))))))))))) :: ((Npos
    (XO (XI (XO (XO (XI (XO (XI (XO (XI (XI (XI (XI (XO (XO (XO (XI (XO (XO
    (XI (XI (XI (XI (XI (XO (XI (XI (XO (XO (XO (XI (XO (XO (XO (XO (XO (XO
    (XI (XO (XI (XO (XI (XO (XO (XI (XI (XO (XI (XI (XO (XI (XI (XO (XI (XI
    (XO (XO (XI (XO (XI (XO (XO (XO
    XH))))))))))))))))))))))))))))))))))))))))))))))))))))))))))))))) :: ((Npos
    (XI (XI (XI (XO (XO (XI (XO (XO (XI (XI (XI (XI (XI (XI (XI (XO (XI (XI
    (XI (XO (XI (XI (XI (XO (XI (XO (XO (XI (XO (XI (XO (XI (XO (XO (XO (XI
    (XI (XI (XI (XO (XO (XI (XI (XI (XO (XO (XI (XI (XI (XO (XI (XO (XO (XI
    (XI (XO (XI (XO (XI
    XH)))))))))))))))))))))))))))))))))))))))))))))))))))))))))))) :: ((Npos
    (XO (XI (XI (XO (XO (XI (XO (XO (XO (XO (XI (XI (XO (XI (XI (XI (XO (XI
    (XI (XO (XO (XO (XO (XO (XI (XO (XI (XO (XI (XI (XO (XI (XO (XO (XO (XO
    (XI (XI (XO (XI (XO (XI (XO (XI (XO (XI (XO (XO (XO (XO (XI (XI (XO (XI
    (XO (XI (XI (XO (XO (XO (XI (XI (XI
    XH)))))))))))))))))))))))))))))))))))))))))))))))))))))))))))))))) :: ((Npos
    (XO (XO (XI (XO (XI (XI (XI (XO (XI (XI (XO (XI (XI (XI (XO (XI (XI (XI
    (XO (XI (XI (XO (XO (XI (XI (XI (XI (XO (XI (XI (XO (XO (XI (XO (XO (XO
    (XI (XI (XI (XI (XI (XI (XO (XI (XO (XO (XO (XI (XO (XI (XI (XI (XO (XO
    (XO (XI (XI (XI (XI (XO (XO (XO (XO
    XH)))))))))))))))))))))))))))))))))))))))))))))))))))))))))))))))) :: ((Npos
    (XI (XI (XI (XI (XO (XI (XO (XI (XO (XI (XI (XO (XO (XI (XO (XI (XI (XI
    (XO (XI (XI (XO (XI (XI (XI (XI (XO (XO (XI (XO (XO (XO (XI (XI (XI (XO
    (XO (XI (XO (XI (XI (XO (XO (XO (XI (XO (XI (XI (XO (XO (XO (XO (XI (XI
    (XO (XI (XO (XO (XO (XI (XI (XI (XO
    XH)))))))))))))))))))))))))))))))))))))))))))))))))))))))))))))))) :: ((Npos
    (XI (XI (XI (XI (XO (XO (XI (XI (XO (XO (XI (XI (XI (XI (XI (XO (XI (XO
    (XI (XO (XO (XO (XI (XI (XO (XI (XO (XI (XI (XO (XO (XI (XI (XI (XO (XI
    (XO (XO (XI (XI (XO (XI (XO (XO (XI (XI (XO (XO (XO (XO (XI (XI (XI (XI
    (XI (XI (XI (XI (XO (XO (XI (XO (XO
    XH)))))))))))))))))))))))))))))))))))))))))))))))))))))))))))))))) :: ((Npos
    (XO (XI (XI (XO (XO (XI (XO (XO (XO (XI (XI (XO (XO (XI (XI (XI (XI (XI
    (XO (XI (XO (XO (XO (XI (XO (XO (XI (XI (XI (XI (XO (XO (XI (XI (XI (XI
    (XI (XO (XO (XI (XI (XO (XO (XO (XO (XO (XO (XO (XO (XI (XO (XO (XO (XI
    (XI (XI (XO (XO (XI (XI (XI (XO (XI
    XH)))))))))))))))))))))))))))))))))))))))))))))))))))))))))))))))) :: ((Npos
    (XO (XI (XO (XO (XI (XO (XI (XO (XO (XO (XI (XI (XI (XI (XO (XI (XI (XO
    (XO (XI (XO (XO (XO (XI (XO (XI (XI (XO (XO (XI (XO (XI (XI (XI (XI (XI
    (XI (XO (XO (XI (XI (XI (XI (XO (XO (XO (XO (XO (XI (XI (XI (XI (XO (XI
    (XO (XO (XI (XO (XI (XI (XI (XO (XI
    XH)))))))))))))))))))))))))))))))))))))))))))))))))))))))))))))))) :: ((Npos
    (XI (XI (XI (XO (XI (XO (XI (XI (XI (XO (XI (XO (XO (XO (XO (XO (XO (XO
    (XO (XI (XI (XI (XI (XO (XO (XO (XO (XI (XI (XI (XO (XO (XO (XI (XI (XO
    (XI (XO (XO (XI (XO (XO (XO (XI (XO (XO (XO (XO (XI (XO (XO (XO (XI (XO
    (XI (XO (XO (XO (XI (XI (XI (XI
    XH))))))))))))))))))))))))))))))))))))))))))))))))))))))))))))))) :: ((Npos
    (XI (XO (XO (XI (XO (XI (XO (XI (XI (XI (XO (XO (XI (XI (XO (XO (XI (XI
    (XO (XI (XO (XI (XO (XI (XO (XO (XO (XO (XI (XI (XI (XO (XI (XO (XI (XO
    (XI (XO (XI (XO (XO (XO (XO (XI (XO (XI (XI (XI (XO (XO (XO (XO (XI (XO
    (XO (XO (XO (XI (XI
    XH)))))))))))))))))))))))))))))))))))))))))))))))))))))))))))) :: [])))))))))))))))))))))))))))))))))))))))))))))))))))))))))))))))) :: (((Npos
    (XI (XO (XI (XO (XI (XI (XI (XI (XI (XI (XI (XO (XO (XI (XI (XI (XI (XI
    (XI (XI (XO (XO (XI (XO (XO (XI (XO (XI (XI (XI (XI (XO (XI (XO (XI (XO
    (XO (XO (XI (XO (XI (XO (XO (XO (XI (XI (XO (XO (XI (XI (XI (XO (XO (XI
    (XO (XO (XO (XO (XI (XO
    XH))))))))))))))))))))))))))))))))))))))))))))))))))))))))))))) :: ((Npos
    (XO (XI (XO (XO (XI (XO (XI (XI (XO (XO (XI (XO (XO (XI (XO (XI (XO (XO
    (XO (XI (XI (XO (XI (XO (XI (XO (XI (XO (XO (XI (XI (XI (XO (XO (XI (XI
    (XO (XO (XI (XO (XO (XI (XI (XO (XO (XO (XO (XI (XI (XI (XI (XO (XO (XO
    (XI (XO (XI (XI (XI (XO (XO (XI (XO
    XH)))))))))))))))))))))))))))))))))))))))))))))))))))))))))))))))) :: ((Npos
    (XO (XO (XO (XO (XI (XO (XI (XO (XI (XO (XI (XI (XO (XI (XI (XO (XI (XO
    (XI (XO (XO (XI (XO (XI (XO (XI (XI (XO (XO (XI (XI (XO (XO (XO (XO (XO
    (XI (XO (XO (XO (XI (XI (XI (XO (XO (XO (XI (XO (XO (XO (XO (XI (XI (XO
    (XO (XO (XI (XO (XO (XO (XO (XI (XO
    XH)))))))))))))))))))))))))))))))))))))))))))))))))))))))))))))))) :: ((Npos
    (XI (XO (XI (XO (XO (XI (XI (XI (XO (XO (XO (XO (XO (XO (XI (XI (XO (XO
    (XO (XO (XO (XI (XO (XI (XI (XI (XI (XO (XI (XI (XI (XO (XI (XO (XI (XO
    (XI (XI (XO (XO (XO (XO (XO (XI (XI (XO (XI (XI (XO (XI (XI (XO (XO (XI
    (XO (XO (XO (XI (XI (XO (XO (XI
    XH))))))))))))))))))))))))))))))))))))))))))))))))))))))))))))))) :: ((Npos
    (XO (XI (XO (XO (XO (XO (XI (XI (XO (XO (XO (XO (XI (XI (XO (XO (XI (XI
    (XO (XI (XI (XO (XI (XO (XO (XI (XO (XO (XO (XO (XI (XI (XO (XO (XI (XO
    (XO (XO (XO (XO (XI (XO (XI (XO (XI (XI (XI (XI (XO (XI (XO (XO (XO (XI
    (XO (XI (XI (XI (XI (XO (XI (XO
    XH))))))))))))))))))))))))))))))))))))))))))))))))))))))))))))))) :: ((Npos
    (XO (XO (XI (XI (XO (XO (XI (XI (XO (XO (XI (XO (XO (XO (XO (XO (XO (XI
    (XO (XO (XO (XI (XO (XI (XO (XO (XO (XO (XI (XI (XO (XI (XO (XO (XI (XI
    (XI (XI (XI (XI (XI (XO (XO (XO (XI (XI (XI (XI (XI (XO (XO (XI (XO (XI
    (XO (XI (XI (XI (XO (XI (XI (XI (XI
    XH)))))))))))))))))))))))))))))))))))))))))))))))))))))))))))))))) :: ((Npos
    (XI (XI (XO (XO (XO (XO (XI (XO (XO (XI (XO (XO (XO (XO (XI (XO (XI (XI
    (XO (XO (XO (XO (XO (XI (XI (XO (XO (XI (XI (XO (XO (XI (XI (XI (XO (XO
    (XO (XI (XO (XO (XO (XI (XO (XO (XO (XI (XI (XI (XO (XI (XO (XO (XO (XO
    (XI (XO (XI (XO (XO (XO (XO
    XH)))))))))))))))))))))))))))))))))))))))))))))))))))))))))))))) :: ((Npos
    (XO (XI (XO (XO (XI (XI (XI (XO (XO (XI (XO (XI (XI (XI (XO (XO (XI (XO
    (XO (XO (XI (XI (XO (XO (XO (XO (XI (XI (XI (XI (XI (XI (XO (XI (XI (XO
    (XI (XI (XO (XO (XO (XI (XO (XO (XO (XI (XI (XI (XI (XO (XO (XI (XO (XI
    (XI (XO (XI (XI (XI (XI (XI
    XH)))))))))))))))))))))))))))))))))))))))))))))))))))))))))))))) :: ((Npos
    (XI (XO (XO (XO (XO (XI (XO (XI (XO (XI (XO (XI (XI (XI (XI (XI (XI (XO
    (XO (XI (XO (XI (XI (XI (XO (XI (XI (XI (XI (XO (XI (XO (XI (XI (XO (XO
    (XI (XO (XO (XO (XI (XI (XI (XO (XO (XO (XI (XO (XO (XO (XI (XO (XI (XO
    (XI (XO (XO (XO (XI (XI (XI (XI (XO
    XH)))))))))))))))))))))))))))))))))))))))))))))))))))))))))))))))) :: ((Npos
    (XO (XI (XI (XO (XO (XO (XI (XO (XO (XO (XI (XI (XO (XO (XI (XI (XO (XI
    (XO (XO (XO (XI (XI (XO (XO (XO (XI (XI (XO (XO (XO (XO (XI (XO (XO (XO
    (XO (XI (XO (XO (XI (XO (XO (XI (XI (XO (XI (XI (XI (XO (XI (XO (XO (XO
    (XI (XO (XO (XO (XO
    XH)))))))))))))))))))))))))))))))))))))))))))))))))))))))))))) :: ((Npos
    (XO (XI (XO (XO (XO (XO (XO (XO (XO (XI (XI (XI (XI (XO (XO (XO (XI (XI
    (XI (XI (XI (XO (XI (XI (XO (XO (XI (XI (XI (XO (XI (XI (XO (XO (XI (XI
    (XO (XI (XO (XO (XO (XO (XO (XO (XO (XO (XO (XI (XO (XO (XI (XO (XI (XI
    (XI (XI (XO (XO (XO (XO (XI (XO
    XH))))))))))))))))))))))))))))))))))))))))))))))))))))))))))))))) :: ((Npos
    (XI (XO (XI (XO (XO (XI (XI (XI (XO (XI (XI (XI (XO (XI (XO (XI (XI (XO
    (XI (XI (XI (XO (XI (XI (XI (XI (XI (XO (XI (XI (XO (XO (XO (XO (XI (XO
    (XI (XO (XO (XI (XO (XO (XI (XI (XO (XI (XO (XI (XO (XO (XI (XO (XO (XO
    (XI (XO (XO (XI (XI (XO (XI (XO (XI
    XH)))))))))))))))))))))))))))))))))))))))))))))))))))))))))))))))) :: ((Npos
    (XO (XI (XO (XI (XI (XO (XI (XI (XI (XO (XO (XO (XI (XO (XI (XO (XI (XI
    (XO (XO (XO (XO (XI (XO (XO (XI (XO (XO (XI (XI (XI (XI (XO (XO (XO (XI
    (XI (XO (XI (XO (XI (XI (XI (XI (XI (XO (XI (XO (XO (XO (XI (XI (XO (XO
    (XO (XI (XO (XI (XO (XO (XO (XO (XI
    XH)))))))))))))))))))))))))))))))))))))))))))))))))))))))))))))))) :: ((Npos
    (XI (XI (XO (XI (XO (XO (XO (XO (XO (XO (XO (XO (XO (XI (XO (XI (XO (XO
    (XO (XI (XO (XI (XO (XI (XI (XO (XI (XO (XI (XI (XI (XO (XO (XO (XI (XI
    (XI (XI (XO (XI (XO (XI (XI (XO (XI (XI (XI (XI (XI (XO (XI (XO (XO (XI
    (XI (XO (XI (XI (XI (XI (XO (XI (XI
    XH)))))))))))))))))))))))))))))))))))))))))))))))))))))))))))))))) :: ((Npos
    (XO (XO (XI (XO (XI (XO (XO (XI (XO (XI (XI (XO (XO (XI (XO (XO (XO (XO
    (XI (XI (XO (XO (XI (XO (XI (XI (XO (XO (XI (XI (XI (XI (XO (XI (XO (XO
    (XO (XI (XI (XO (XO (XO (XO (XO (XO (XI (XI (XO (XI (XO (XO (XO (XI (XI
    (XO (XO (XO (XI (XI (XO (XO (XI (XO
    XH)))))))))))))))))))))))))))))))))))))))))))))))))))))))))))))))) :: ((Npos
    (XO (XO (XO (XI (XO (XO (XO (XI (XI (XO (XI (XO (XO (XO (XI (XI (XI (XO
    (XO (XI (XI (XI (XI (XO (XO (XO (XO (XO (XI (XO (XI (XO (XO (XI (XI (XO
    (XO (XO (XI (XI (XO (XO (XO (XO (XO (XI (XI (XI (XO (XO (XI (XI (XO (XO
    (XO (XO (XI (XI (XO (XO (XI (XI (XO
    XH)))))))))))))))))))))))))))))))))))))))))))))))))))))))))))))))) :: ((Npos
    (XO (XI (XO (XO (XO (XI (XI (XI (XI (XI (XI (XI (XI (XI (XO (XI (XO (XO
    (XO (XO (XI (XO (XO (XO (XO (XI (XI (XO (XI (XI (XO (XI (XO (XI (XO (XO
    (XI (XO (XO (XO (XI (XI (XO (XI (XI (XO (XI (XI (XI (XO (XI (XO (XO (XO
    (XO (XO (XO (XO (XI (XO (XI (XI (XI
    XH)))))))))))))))))))))))))))))))))))))))))))))))))))))))))))))))) :: ((Npos
    (XI (XI (XI (XI (XO (XI (XI (XO (XI (XI (XO (XI (XO (XO (XI (XI (XO (XI
    (XI (XO (XO (XO (XI (XO (XO (XI (XO (XI (XI (XI (XI (XI (XO (XO (XO (XI
    (XI (XO (XO (XO (XI (XI (XI (XI (XI (XO (XO (XO (XI (XO (XO (XO (XI (XI
    (XI (XO (XO (XO (XI
    XH)))))))))))))))))))))))))))))))))))))))))))))))))))))))))))) :: ((Npos
    (XO (XO (XI (XO (XO (XO (XO (XO (XO (XO (XO (XI (XI (XI (XO (XO (XI (XO
    (XO (XO (XO (XI (XO (XO (XO (XO (XI (XO (XI (XI (XI (XO (XI (XO (XO (XO
    (XI (XI (XO (XO (XO (XI (XO (XO (XI (XO (XO (XI (XO (XO (XI (XI (XI (XO
    (XO (XI (XO (XI (XO (XI (XO (XI (XI
    XH)))))))))))))))))))))))))))))))))))))))))))))))))))))))))))))))) :: ((Npos
    (XO (XO (XO (XI (XI (XI (XO (XO (XO (XI (XO (XI (XO (XI (XI (XI (XI (XI
    (XO (XO (XO (XI (XI (XI (XI (XI (XI (XI (XI (XO (XO (XI (XI (XO (XI (XI
    (XI (XO (XO (XO (XO (XI (XI (XI (XI (XO (XI (XO (XI (XI (XO (XO (XO (XI
    (XI (XI (XO (XO (XO
    XH)))))))))))))))))))))))))))))))))))))))))))))))))))))))))))) :: ((Npos
    (XI (XO (XI (XO (XO (XI (XI (XO (XI (XO (XO (XI (XI (XO (XI (XO (XO (XO
    (XI (XO (XI (XO (XI (XO (XI (XO (XI (XO (XO (XI (XI (XI (XI (XO (XO (XO
    (XI (XO (XI (XI (XI (XO (XI (XO (XO (XI (XO (XI (XI (XO (XO (XO (XI (XO
    (XI (XI (XI (XO (XO (XI
    XH))))))))))))))))))))))))))))))))))))))))))))))))))))))))))))) :: ((Npos
    (XI (XI (XO (XI (XI (XO (XI (XI (XI (XI (XI (XI (XI (XI (XO (XO (XO (XO
    (XI (XI (XO (XO (XO (XO (XO (XI (XI (XO (XI (XI (XO (XI (XO (XO (XO (XI
    (XO (XI (XI (XO (XI (XI (XO (XO (XO (XO (XO (XO (XO (XI (XI (XO (XO (XO
    (XO (XI (XO (XI (XI (XI (XI (XI (XO
    XH)))))))))))))))))))))))))))))))))))))))))))))))))))))))))))))))) :: ((Npos
    (XI (XI (XO (XO (XO (XI (XI (XO (XO (XI (XI (XO (XI (XI (XI (XO (XO (XO
    (XI (XO (XO (XI (XO (XI (XI (XI (XI (XI (XI (XO (XO (XI (XO (XO (XI (XO
    (XO (XO (XO (XO (XI (XO (XI (XI (XO (XI (XI (XI (XI (XI (XO (XO (XO (XO
    (XI (XO (XO (XI (XO (XO (XO (XI (XI
    XH)))))))))))))))))))))))))))))))))))))))))))))))))))))))))))))))) :: ((Npos
    (XI (XI (XI (XI (XO (XO (XI (XO (XI (XI (XO (XI (XO (XO (XI (XO (XI (XO
    (XI (XI (XO (XI (XO (XI (XI (XI (XO (XO (XI (XO (XI (XO (XI (XI (XI (XI
    (XI (XI (XI (XI (XI (XI (XI (XI (XI (XI (XI (XO (XO (XO (XO (XI (XO (XI
    (XI (XI (XI (XI (XI (XI (XI (XI (XO
    XH)))))))))))))))))))))))))))))))))))))))))))))))))))))))))))))))) :: ((Npos
    (XI (XO (XO (XI (XO (XI (XI (XI (XI (XO (XI (XI (XI (XI (XO (XI (XO (XI
    (XI (XI (XI (XO (XO (XI (XO (XO (XO (XI (XO (XI (XI (XO (XI (XI (XI (XI
    (XI (XI (XI (XO (XO (XO (XO (XO (XI (XI (XI (XO (XI (XI (XO (XI (XI (XI
    (XI (XI (XI (XO (XO (XI (XI (XI (XI
    XH)))))))))))))))))))))))))))))))))))))))))))))))))))))))))))))))) :: ((Npos
    (XI (XI (XI (XO (XI (XI (XI (XO (XO (XI (XI (XI (XO (XI (XI (XO (XI (XO
    (XI (XI (XI (XO (XI (XO (XO (XI (XI (XI (XI (XO (XO (XO (XI (XI (XI (XO
    (XI (XO (XI (XI (XO (XI (XO (XI (XI (XO (XI (XI (XI (XO (XO (XO (XO (XO
    (XI (XO (XO (XO (XO (XO (XO (XI (XI
    XH)))))))))))))))))))))))))))))))))))))))))))))))))))))))))))))))) :: ((Npos
    (XI (XO (XI (XO (XI (XO (XI (XI (XO (XO (XO (XI (XO (XO (XI (XI (XO (XO
    (XI (XO (XO (XO (XI (XI (XI (XO (XI (XO (XI (XI (XO (XI (XO (XI (XO (XI
    (XO (XO (XI (XO (XO (XI (XO (XI (XI (XI (XO (XI (XO (XI (XO (XO (XO (XI
    (XI (XO (XO (XO (XI (XI
    XH))))))))))))))))))))))))))))))))))))))))))))))))))))))))))))) :: ((Npos
    (XO (XI (XI (XO (XO (XO (XI (XO (XI (XO (XI (XO (XO (XI (XI (XI (XI (XO
    (XI (XO (XI (XO (XO (XI (XI (XO (XI (XO (XO (XO (XO (XI (XI (XI (XI (XI
    (XI (XI (XO (XI (XO (XI (XO (XI (XO (XI (XI (XO (XI (XI (XO (XO (XI (XO
    (XI (XI (XI (XO (XI (XI (XI (XO (XO
    XH)))))))))))))))))))))))))))))))))))))))))))))))))))))))))))))))) :: ((Npos
    (XI (XI (XO (XI (XO (XO (XO (XO (XI (XO (XO (XO (XI (XO (XI (XI (XI (XI
    (XI (XO (XO (XO (XO (XI (XI (XI (XO (XI (XI (XI (XI (XI (XO (XI (XO (XO
    (XI (XO (XO (XI (XI (XO (XO (XI (XO (XI (XO (XI (XO (XI (XI (XO (XO (XI
    (XO (XO (XO (XO (XI (XI (XO
    XH)))))))))))))))))))))))))))))))))))))))))))))))))))))))))))))) :: ((Npos
    (XI (XI (XI (XO (XO (XO (XI (XI (XI (XO (XI (XI (XI (XI (XI (XO (XO (XI
    (XI (XI (XO (XI (XI (XO (XO (XI (XI (XO (XI (XI (XI (XI (XO (XI (XO (XO
    (XI (XO (XO (XO (XO (XI (XI (XI (XI (XO (XI (XO (XO (XO (XI (XO (XO (XI
    (XI (XI (XI (XO (XI (XO (XI (XI (XO
    XH)))))))))))))))))))))))))))))))))))))))))))))))))))))))))))))))) :: ((Npos
    (XO (XI (XO (XI (XI (XI (XI (XI (XO (XO (XI (XI (XI (XI (XO (XO (XO (XI
    (XI (XI (XI (XI (XO (XO (XI (XI (XI (XO (XI (XO (XI (XI (XI (XO (XI (XO
    (XO (XO (XI (XO (XO (XO (XO (XO (XI (XI (XO (XO (XI (XI (XI (XO (XO (XI
    (XO (XO (XO (XI (XO (XI (XO
    XH)))))))))))))))))))))))))))))))))))))))))))))))))))))))))))))) :: ((Npos
    (XI (XO (XI (XO (XO (XO (XI (XI (XO (XI (XO (XI (XO (XO (XO (XI (XI (XI
    (XI (XI (XO (XI (XO (XI (XO (XO (XI (XI (XO (XI (XO (XO (XI (XI (XO (XO
    (XI (XO (XO (XI (XI (XI (XO (XO (XO (XO (XI (XI (XO (XO (XO (XI (XO (XI
    (XI (XO (XO (XI (XO (XO (XI (XI (XO
    XH)))))))))))))))))))))))))))))))))))))))))))))))))))))))))))))))) :: ((Npos
    (XO (XO (XI (XO (XI (XI (XO (XI (XI (XI (XO (XO (XI (XO (XO (XI (XO (XO
    (XI (XI (XI (XO (XI (XO (XO (XI (XO (XO (XI (XI (XI (XO (XO (XI (XI (XO
    (XO (XO (XO (XI (XO (XI (XI (XO (XO (XI (XI (XO (XI (XI (XI (XI (XI (XO
    (XO (XI (XI (XO (XO (XI (XI (XO (XI
    XH)))))))))))))))))))))))))))))))))))))))))))))))))))))))))))))))) :: ((Npos
    (XO (XO (XO (XO (XO (XI (XI (XO (XI (XO (XO (XO (XO (XI (XI (XO (XI (XO
    (XO (XI (XO (XI (XO (XI (XO (XI (XI (XO (XI (XO (XO (XI (XI (XI (XO (XI
    (XO (XI (XO (XO (XO (XI (XI (XI (XI (XO (XI (XI (XI (XO (XO (XO (XO (XO
    (XO (XI (XI (XO (XI (XO (XO (XO
    XH))))))))))))))))))))))))))))))))))))))))))))))))))))))))))))))) :: ((Npos
    (XI (XI (XO (XO (XI (XI (XI (XI (XI (XO (XI (XO (XI (XO (XI (XO (XI (XI
    (XI (XI (XO (XO (XO (XI (XI (XI (XO (XO (XI (XI (XI (XI (XO (XO (XI (XI
    (XI (XO (XO (XI (XO (XI (XI (XO (XO (XI (XI (XI (XI (XI (XO (XO (XO (XO
    (XO (XO (XI (XO (XI (XI
    XH))))))))))))))))))))))))))))))))))))))))))))))))))))))))))))) :: ((Npos
    (XO (XO (XO (XI (XO (XI (XO (XO (XO (XI (XI (XI (XO (XO (XI (XO (XI (XI
    (XO (XO (XO (XI (XI (XO (XO (XI (XO (XI (XO (XO (XO (XO (XO (XI (XO (XO
    (XO (XO (XI (XO (XO (XO (XI (XO (XI (XO (XO (XO (XO (XI (XI (XI (XI (XI
    (XO (XO (XO (XI (XO (XO (XO (XI (XO
    XH)))))))))))))))))))))))))))))))))))))))))))))))))))))))))))))))) :: ((Npos
    (XI (XO (XO (XO (XO (XI (XI (XI (XI (XO (XO (XO (XI (XI (XO (XO (XI (XI
    (XI (XI (XI (XO (XO (XI (XI (XO (XO (XI (XO (XO (XI (XO (XO (XI (XI (XO
    (XO (XI (XI (XO (XI (XI (XO (XO (XO (XO (XI (XO (XI (XI (XI (XI (XI (XI
    (XI (XI (XO (XI (XI (XI (XI (XO (XO
    XH)))))))))))))))))))))))))))))))))))))))))))))))))))))))))))))))) :: ((Npos
    (XI (XO (XI (XO (XI (XO (XI (XO (XI (XO (XI (XI (XO (XI (XO (XI (XI (XI
    (XO (XO (XI (XO (XO (XO (XO (XO (XO (XI (XI (XI (XO (XO (XO (XI (XI (XO
    (XI (XO (XO (XI (XO (XI (XO (XI (XI (XO (XI (XI (XI (XO (XI (XI (XI (XO
    (XO (XI (XO (XO (XI (XI (XI (XO (XO
    XH)))))))))))))))))))))))))))))))))))))))))))))))))))))))))))))))) :: ((Npos
    (XI (XI (XI (XO (XI (XO (XO (XI (XI (XI (XI (XO (XI (XI (XO (XI (XI (XO
    (XI (XI (XI (XO (XI (XI (XI (XI (XO (XI (XO (XI (XI (XI (XI (XI (XO (XO
    (XI (XO (XI (XI (XO (XO (XI (XO (XO (XI (XI (XO (XI (XO (XO (XO (XI (XO
    (XI (XO (XO (XI (XI (XO (XI
    XH)))))))))))))))))))))))))))))))))))))))))))))))))))))))))))))) :: ((Npos
    (XI (XI (XO (XO (XI (XO (XO (XI (XI (XO (XI (XO (XO (XO (XO (XI (XO (XI
    (XI (XI (XO (XI (XO (XI (XI (XO (XO (XO (XO (XI (XI (XI (XI (XI (XI (XO
    (XI (XI (XO (XI (XI (XI (XI (XO (XI (XI (XI (XO (XI (XO (XO (XI (XI (XO
    (XI (XI (XI (XO (XO (XI (XO (XO (XO
    XH)))))))))))))))))))))))))))))))))))))))))))))))))))))))))))))))) :: ((Npos
    (XI (XO (XO (XO (XO (XO (XI (XO (XI (XI (XI (XO (XI (XI (XI (XI (XO (XO
    (XO (XO (XI (XO (XI (XO (XI (XO (XO (XO (XI (XI (XI (XI (XI (XI (XO (XI
    (XI (XO (XO (XO (XI (XO (XI (XI (XI (XO (XO (XI (XI (XO (XI (XI (XO (XO
    (XI (XO (XI (XI (XI (XI (XO (XI (XI
    XH)))))))))))))))))))))))))))))))))))))))))))))))))))))))))))))))) :: ((Npos
    (XO (XO (XO (XO (XI (XI (XI (XI (XI (XO (XO (XI (XI (XI (XO (XI (XO (XO
    (XO (XI (XI (XO (XI (XO (XI (XO (XO (XO (XO (XI (XO (XI (XI (XI (XI (XI
    (XI (XI (XO (XO (XO (XO (XI (XI (XO (XO (XI (XO (XO (XO (XI (XI (XI (XO
    (XO (XI (XO (XO (XI (XI (XO (XO (XO
    XH)))))))))))))))))))))))))))))))))))))))))))))))))))))))))))))))) :: ((Npos
    (XI (XO (XI (XI (XI (XI (XI (XO (XI (XO (XO (XI (XO (XO (XI (XI (XI (XI
    (XI (XO (XO (XI (XO (XI (XI (XO (XO (XI (XI (XI (XI (XI (XI (XI (XI (XI
    (XO (XI (XO (XI (XO (XO (XO (XO (XI (XO (XO (XI (XI (XO (XI (XI (XI (XI
    (XI (XO (XO (XO (XI (XI
    XH))))))))))))))))))))))))))))))))))))))))))))))))))))))))))))) :: ((Npos
    (XO (XI (XO (XI (XI (XI (XI (XI (XO (XI (XO (XO (XI (XO (XI (XI (XI (XI
    (XI (XO (XO (XO (XI (XO (XI (XI (XI (XO (XO (XI (XO (XI (XI (XI (XO (XO
    (XI (XO (XO (XI (XO (XI (XI (XI (XO (XO (XI (XO (XO (XI (XO (XO (XO (XO
    (XI (XO (XI
    XH)))))))))))))))))))))))))))))))))))))))))))))))))))))))))) :: ((Npos
    (XI (XO (XI (XO (XI (XO (XI (XO (XI (XO (XI (XO (XI (XO (XI (XI (XO (XI
    (XO (XI (XO (XO (XI (XO (XO (XO (XO (XI (XI (XO (XI (XI (XO (XI (XI (XO
    (XO (XO (XO (XO (XI (XO (XO (XO (XI (XO (XO (XO (XO (XI (XI (XI (XI (XO
    (XI (XI (XI (XO (XO (XO (XO (XO (XO
    XH)))))))))))))))))))))))))))))))))))))))))))))))))))))))))))))))) :: ((Npos
    (XI (XI (XO (XO (XI (XI (XO (XI (XO (XI (XO (XI (XI (XI (XO (XI (XO (XI
    (XO (XO (XO (XI (XI (XO (XI (XO (XI (XO (XI (XO (XO (XI (XI (XI (XI (XI
    (XO (XO (XO (XI (XO (XO (XI (XO (XI (XO (XO (XO (XO (XI (XI (XI (XI (XO
    (XO (XI (XO (XO (XO (XO (XI
    XH)))))))))))))))))))))))))))))))))))))))))))))))))))))))))))))) :: ((Npos
    (XI (XI (XI (XO (XO (XI (XI (XI (XI (XI (XI (XI (XO (XI (XI (XO (XI (XO
    (XO (XO (XI (XI (XI (XO (XI (XO (XO (XI (XO (XI (XO (XO (XO (XO (XI (XI
    (XI (XO (XI (XI (XI (XO (XO (XI (XI (XO (XO (XO (XO (XO (XI (XI (XO (XI
    (XI (XO (XI (XO (XI (XO (XO (XI (XO
    XH)))))))))))))))))))))))))))))))))))))))))))))))))))))))))))))))) :: ((Npos
    (XO (XI (XO (XO (XO (XO (XO (XI (XI (XO (XI (XO (XO (XO (XO (XO (XI (XO
    (XO (XO (XI (XO (XO (XI (XO (XO (XI (XI (XI (XI (XO (XI (XI (XO (XO (XO
    (XI (XO (XI (XO (XO (XO (XO (XO (XI (XI (XI (XI (XI (XI (XO (XI (XO (XI
    (XI (XO (XI (XI (XO (XO (XO (XI (XI
    XH)))))))))))))))))))))))))))))))))))))))))))))))))))))))))))))))) :: ((Npos
    (XO (XI (XI (XO (XO (XI (XI (XI (XO (XO (XI (XO (XI (XO (XI (XI (XO (XI
    (XO (XI (XO (XO (XI (XO (XO (XO (XI (XI (XI (XI (XO (XI (XO (XO (XO (XI
    (XO (XO (XI (XI (XO (XI (XO (XI (XO (XI (XI (XI (XO (XO (XO (XO (XO (XI
    (XI (XO (XO (XI (XI (XI (XI (XI (XO
    XH)))))))))))))))))))))))))))))))))))))))))))))))))))))))))))))))) :: ((Npos
    (XO (XO (XO (XI (XI (XI (XI (XO (XI (XO (XO (XO (XI (XO (XO (XO (XO (XO
    (XO (XI (XI (XO (XO (XO (XO (XO (XI (XI (XO (XO (XI (XO (XI (XO (XI (XO
    (XO (XO (XO (XI (XI (XO (XI (XI (XO (XO (XI (XI (XI (XI (XI (XI (XO (XO
    (XO (XO (XI (XI (XO (XI (XO (XI (XO
    XH)))))))))))))))))))))))))))))))))))))))))))))))))))))))))))))))) :: ((Npos
    (XI (XO (XI (XI (XI (XO (XI (XO (XO (XO (XO (XI (XI (XI (XI (XO (XO (XI
    (XI (XI (XI (XI (XO (XI (XO (XO (XI (XO (XI (XO (XO (XI (XO (XI (XO (XO
    (XO (XO (XO (XI (XI (XI (XO (XO (XI (XI (XI (XO (XO (XI (XO (XI (XI (XO
    (XO (XI (XO (XI (XI (XO (XO (XO
    XH))))))))))))))))))))))))))))))))))))))))))))))))))))))))))))))) :: ((Npos
    (XO (XI (XI (XI (XO (XI (XI (XI (XI (XO (XO (XI (XI (XI (XO (XI (XO (XI
    (XI (XO (XI (XO (XI (XO (XO (XO (XO (XO (XO (XI (XI (XO (XI (XI (XO (XO
    (XI (XI (XO (XI (XI (XO (XI (XO (XO (XI (XI (XI (XI (XO (XI (XI (XI (XO
    (XO (XO (XO (XI (XI (XO (XO (XI (XO
    XH)))))))))))))))))))))))))))))))))))))))))))))))))))))))))))))))) :: ((Npos
    (XO (XI (XI (XO (XI (XI (XI (XI (XI (XI (XI (XI (XO (XO (XI (XO (XI (XI
    (XO (XO (XO (XI (XO (XI (XI (XO (XO (XI (XI (XO (XO (XI (XI (XI (XO (XO
    (XO (XO (XO (XO (XI (XI (XI (XO (XO (XO (XO (XI (XO (XI (XO (XI (XI (XI
    (XI (XO (XO (XI (XI (XO (XI (XO (XO
    XH)))))))))))))))))))))))))))))))))))))))))))))))))))))))))))))))) :: ((Npos
    (XO (XI (XI (XO (XI (XI (XI (XI (XO (XO (XI (XO (XO (XI (XI (XO (XO (XI
    (XI (XO (XI (XI (XO (XO (XO (XI (XI (XI (XI (XI (XI (XI (XO (XO (XO (XO
    (XO (XO (XO (XI (XI (XI (XO (XO (XI (XI (XO (XI (XO (XI (XO (XO (XI (XI
    (XI (XO (XI (XO (XI
    XH)))))))))))))))))))))))))))))))))))))))))))))))))))))))))))) :: ((Npos
    (XO (XI (XO (XO (XO (XO (XO (XO (XI (XO (XI (XO (XI (XO (XO (XI (XO (XI
    (XO (XO (XO (XO (XI (XI (XO (XO (XO (XO (XO (XI (XO (XO (XO (XO (XI (XI
    (XO (XI (XI (XO (XI (XO (XI (XI (XI (XI (XO (XO (XI (XI (XI (XO (XO (XO
    (XO (XO (XO (XO (XI (XI (XO
    XH)))))))))))))))))))))))))))))))))))))))))))))))))))))))))))))) :: ((Npos
    (XO (XO (XO (XI (XO (XO (XI (XI (XO (XI (XI (XO (XI (XI (XI (XI (XI (XI
    (XO (XO (XI (XI (XO (XI (XO (XI (XI (XO (XI (XO (XO (XI (XO (XO (XI (XO
    (XI (XI (XO (XI (XI (XO (XI (XO (XO (XI (XO (XO (XO (XI (XI (XI (XI (XI
    (XI (XO (XO (XI (XO (XO (XI (XI (XI
    XH)))))))))))))))))))))))))))))))))))))))))))))))))))))))))))))))) :: ((Npos
    (XO (XI (XI (XO (XI (XI (XO (XI (XO (XI (XI (XO (XI (XI (XI (XO (XI (XI
    (XO (XI (XO (XO (XI (XO (XI (XI (XO (XO (XO (XI (XO (XO (XO (XI (XI (XI
    (XI (XI (XO (XO (XI (XI (XI (XO (XO (XO (XO (XO (XO (XI (XO (XI (XO (XO
    (XO (XO (XI (XO (XI (XI (XO (XI (XO
    XH)))))))))))))))))))))))))))))))))))))))))))))))))))))))))))))))) :: ((Npos
    (XO (XI (XO (XI (XI (XO (XI (XO (XI (XO (XI (XI (XO (XO (XO (XO (XI (XI
    (XI (XO (XI (XI (XI (XO (XO (XI (XO (XI (XI (XI (XO (XO (XI (XO (XI (XI
    (XO (XO (XI (XI (XI (XI (XI (XI (XO (XO (XI (XO (XI (XO (XO (XO (XI (XO
    (XI (XO (XO (XO (XO (XO (XO (XO (XI
    XH)))))))))))))))))))))))))))))))))))))))))))))))))))))))))))))))) :: ((Npos
    (XO (XI (XI (XO (XI (XI (XO (XI (XI (XO (XO (XI (XI (XO (XI (XI (XI (XI
    (XO (XO (XI (XO (XI (XO (XO (XI (XO (XI (XO (XO (XI (XO (XI (XI (XI (XI
    (XI (XI (XI (XO (XI (XO (XI (XO (XI (XO (XI (XI (XO (XI (XO (XO (XI (XO
    (XI (XI (XO (XI (XI (XO (XI (XO (XI
    XH)))))))))))))))))))))))))))))))))))))))))))))))))))))))))))))))) :: ((Npos
    (XO (XI (XI (XI (XI (XO (XO (XO (XI (XI (XI (XO (XO (XI (XI (XO (XO (XO
    (XI (XO (XO (XI (XO (XO (XI (XO (XO (XO (XO (XO (XI (XO (XO (XO (XI (XI
    (XO (XI (XI (XO (XO (XI (XO (XO (XI (XI (XI (XO (XO (XO (XI (XO (XO (XI
    (XO (XO (XO (XI (XO (XI (XO (XI (XO
    XH)))))))))))))))))))))))))))))))))))))))))))))))))))))))))))))))) :: ((Npos
    (XO (XI (XI (XI (XI (XO (XO (XO (XI (XO (XO (XO (XI (XO (XO (XO (XO (XO
    (XI (XI (XI (XI (XI (XO (XI (XO (XO (XO (XI (XI (XI (XO (XO (XI (XI (XO
    (XI (XO (XI (XI (XI (XO (XO (XI (XI (XO (XO (XI (XO (XI (XI (XI (XI (XI
    (XO (XI (XI (XI (XO (XO (XI (XI
    XH))))))))))))))))))))))))))))))))))))))))))))))))))))))))))))))) :: ((Npos
    (XO (XI (XO (XI (XO (XO (XO (XO (XI (XI (XO (XI (XI (XO (XO (XI (XO (XI
    (XI (XO (XI (XO (XI (XO (XI (XI (XO (XO (XO (XO (XI (XO (XI (XI (XI (XI
    (XI (XO (XI (XI (XI (XO (XI (XI (XO (XI (XI (XO (XI (XO (XO (XO (XI (XI
    (XO (XO (XO (XI (XO (XI (XO (XO (XO
    XH)))))))))))))))))))))))))))))))))))))))))))))))))))))))))))))))) :: ((Npos
    (XO (XO (XO (XI (XI (XO (XI (XO (XO (XO (XI (XO (XO (XI (XI (XO (XO (XO
    (XI (XO (XI (XI (XI (XO (XO (XI (XI (XI (XI (XO (XO (XO (XO (XO (XO (XI
    (XO (XI (XO (XO (XO (XI (XI (XI (XO (XI (XO (XO (XI (XI (XI (XO (XI (XO
    (XO (XI (XO (XI (XO (XI (XI (XI
    XH))))))))))))))))))))))))))))))))))))))))))))))))))))))))))))))) :: ((Npos
    (XO (XI (XI (XI (XI (XI (XO (XO (XI (XO (XO (XI (XI (XI (XO (XO (XO (XO
    (XO (XI (XO (XI (XI (XI (XO (XI (XO (XI (XI (XI (XO (XI (XI (XO (XO (XO
    (XO (XI (XI (XO (XI (XI (XO (XO (XI (XO (XI (XO (XI (XO (XO (XI (XO (XI
    (XI (XO (XI (XI (XI (XO (XO (XO
    XH))))))))))))))))))))))))))))))))))))))))))))))))))))))))))))))) :: [])))))))))))))))))))))))))))))))))))))))))))))))))))))))))))))))) :: (((Npos
    (XI (XO (XO (XO (XI (XI (XI (XI (XI (XI (XI (XI (XO (XI (XI (XI (XI (XO
    (XO (XI (XI (XO (XI (XI (XO (XO (XO (XI (XI (XI (XO (XO (XI (XO (XO (XI
    (XO (XI (XO (XI (XI (XI (XO (XI (XO (XI (XI (XO (XI (XO (XO (XI (XO (XI
    (XI (XO (XI (XO (XO (XO (XI (XI (XI
    XH)))))))))))))))))))))))))))))))))))))))))))))))))))))))))))))))) :: ((Npos
    (XI (XI (XO (XI (XO (XO (XO (XO (XI (XO (XO (XO (XO (XI (XI (XO (XI (XO
    (XI (XI (XO (XO (XI (XO (XI (XO (XO (XI (XI (XI (XI (XO (XI (XO (XI (XO
    (XI (XO (XO (XI (XO (XI (XI (XI (XI (XO (XI (XI (XI (XI (XO (XI (XO (XI
    (XO (XO (XO (XI (XO (XI (XI (XO (XI
    XH)))))))))))))))))))))))))))))))))))))))))))))))))))))))))))))))) :: ((Npos
    (XI (XO (XI (XO (XI (XO (XO (XI (XO (XI (XO (XI (XO (XI (XI (XO (XI (XI
    (XI (XO (XO (XO (XI (XI (XI (XO (XO (XO (XI (XI (XO (XI (XI (XI (XO (XI
    (XI (XO (XO (XI (XO (XO (XO (XI (XO (XO (XI (XO (XI (XI (XI (XI (XO (XI
    (XO (XI (XO (XI (XI (XO
    XH))))))))))))))))))))))))))))))))))))))))))))))))))))))))))))) :: ((Npos
    (XO (XI (XO (XI (XO (XO (XO (XI (XI (XI (XO (XI (XO (XI (XO (XO (XI (XO
    (XI (XO (XI (XO (XI (XO (XO (XI (XO (XI (XI (XI (XO (XI (XI (XI (XO (XO
    (XO (XO (XO (XI (XI (XO (XO (XO (XI (XO (XO (XO (XO (XO (XI (XI (XI (XO
    (XO (XO (XO (XI (XI (XO (XI (XI
    XH))))))))))))))))))))))))))))))))))))))))))))))))))))))))))))))) :: ((Npos
    (XO (XO (XO (XI (XO (XO (XI (XI (XO (XI (XI (XI (XI (XO (XI (XI (XO (XO
    (XO (XI (XO (XO (XO (XO (XO (XI (XO (XO (XI (XI (XO (XI (XI (XO (XO (XO
    (XO (XI (XO (XI (XI (XO (XI (XO (XI (XI (XI (XO (XI (XO (XO (XI (XO (XI
    (XO (XI (XI (XI (XO
    XH)))))))))))))))))))))))))))))))))))))))))))))))))))))))))))) :: ((Npos
    (XI (XO (XI (XO (XI (XO (XO (XO (XO (XI (XI (XO (XI (XO (XI (XI (XO (XI
    (XO (XO (XO (XI (XO (XO (XI (XI (XI (XO (XI (XI (XO (XI (XO (XI (XI (XO
    (XI (XO (XI (XO (XO (XO (XO (XI (XO (XI (XI (XO (XO (XI (XI (XO (XI (XI
    (XI (XO (XI (XI (XI (XO (XI (XI
    XH))))))))))))))))))))))))))))))))))))))))))))))))))))))))))))))) :: ((Npos
    (XO (XO (XO (XI (XO (XI (XO (XI (XO (XO (XO (XI (XO (XO (XO (XO (XI (XO
    (XO (XI (XO (XI (XO (XI (XO (XI (XI (XO (XO (XI (XI (XO (XI (XI (XO (XI
    (XI (XO (XO (XI (XI (XO (XO (XO (XO (XI (XO (XI (XO (XO (XI (XI (XO (XO
    (XI (XO (XO (XI (XO (XI (XO (XI (XO
    XH)))))))))))))))))))))))))))))))))))))))))))))))))))))))))))))))) :: ((Npos
    (XI (XI (XI (XO (XI (XO (XO (XI (XO (XI (XO (XI (XO (XI (XO (XI (XI (XI
    (XO (XO (XI (XO (XI (XO (XO (XI (XI (XI (XO (XI (XI (XO (XO (XO (XO (XI
    (XO (XO (XI (XI (XO (XO (XO (XO (XI (XO (XI (XI (XI (XI (XI (XI (XI (XI
    (XO (XO (XO (XI (XI (XI
    XH))))))))))))))))))))))))))))))))))))))))))))))))))))))))))))) :: ((Npos
    (XI (XI (XO (XO (XI (XI (XI (XI (XO (XO (XI (XI (XI (XI (XO (XI (XO (XO
    (XI (XO (XI (XO (XO (XO (XO (XI (XI (XO (XI (XI (XO (XO (XO (XO (XI (XO
    (XI (XI (XI (XO (XO (XI (XO (XI (XO (XO (XI (XO (XI (XO (XI (XO (XO (XO
    (XO (XI (XO (XI (XI (XI (XI (XI (XO
    XH)))))))))))))))))))))))))))))))))))))))))))))))))))))))))))))))) :: ((Npos
    (XO (XO (XO (XO (XO (XI (XI (XI (XI (XI (XI (XI (XI (XO (XI (XO (XI (XI
    (XI (XI (XO (XO (XI (XI (XI (XI (XI (XI (XO (XO (XI (XO (XO (XO (XI (XO
    (XI (XI (XI (XI (XI (XI (XO (XI (XI (XO (XI (XO (XI (XO (XO (XI (XI (XO
    (XO (XO (XO (XI (XI (XO (XO (XO (XI
    XH)))))))))))))))))))))))))))))))))))))))))))))))))))))))))))))))) :: ((Npos
    (XI (XI (XO (XO (XI (XO (XI (XO (XI (XI (XI (XO (XI (XI (XI (XI (XO (XI
    (XI (XI (XI (XI (XI (XI (XI (XI (XO (XO (XO (XI (XI (XO (XI (XO (XI (XO
    (XI (XI (XI (XO (XI (XI (XO (XO (XI (XI (XO (XI (XO (XI (XO (XI (XO (XI
    (XO (XO (XO (XO (XO (XO (XO
    XH)))))))))))))))))))))))))))))))))))))))))))))))))))))))))))))) :: ((Npos
    (XI (XI (XI (XI (XI (XO (XI (XO (XO (XO (XI (XI (XO (XI (XI (XI (XO (XO
    (XO (XO (XI (XO (XI (XI (XI (XI (XI (XI (XI (XI (XO (XI (XI (XI (XI (XI
    (XO (XI (XO (XI (XO (XO (XO (XO (XO (XI (XI (XO (XI (XO (XI (XI (XO (XI
    (XI (XO (XI (XO (XI (XI (XO (XI
    XH))))))))))))))))))))))))))))))))))))))))))))))))))))))))))))))) :: ((Npos
    (XO (XI (XO (XI (XI (XI (XI (XO (XO (XO (XI (XI (XO (XI (XI (XI (XI (XI
    (XO (XO (XO (XI (XI (XI (XO (XI (XO (XO (XO (XO (XO (XI (XI (XI (XO (XI
    (XO (XI (XI (XO (XO (XI (XO (XI (XO (XO (XI (XO (XI (XI (XO (XO (XI (XO
    (XI (XI (XO (XO (XI (XI (XO (XO (XI
    XH)))))))))))))))))))))))))))))))))))))))))))))))))))))))))))))))) :: ((Npos
    (XO (XO (XO (XO (XO (XI (XO (XI (XO (XO (XO (XO (XI (XI (XO (XO (XO (XO
    (XI (XI (XI (XI (XI (XI (XI (XO (XI (XI (XI (XO (XI (XO (XI (XI (XO (XI
    (XI (XO (XI (XI (XO (XO (XO (XI (XI (XI (XO (XO (XI (XI (XO (XO (XO (XI
    (XI (XI (XO (XI (XO (XO (XI (XI
    XH))))))))))))))))))))))))))))))))))))))))))))))))))))))))))))))) :: ((Npos
    (XO (XI (XO (XI (XO (XO (XO (XI (XO (XO (XI (XO (XO (XI (XO (XO (XO (XI
    (XI (XO (XO (XO (XI (XI (XI (XO (XO (XI (XI (XI (XI (XO (XO (XI (XO (XI
    (XI (XO (XI (XO (XO (XO (XI (XI (XO (XO (XO (XI (XO (XO (XI (XO (XO (XO
    (XI (XO (XI (XO (XI (XI (XO (XI
    XH))))))))))))))))))))))))))))))))))))))))))))))))))))))))))))))) :: ((Npos
    (XO (XI (XO (XI (XI (XO (XI (XO (XI (XI (XO (XI (XO (XI (XO (XO (XI (XI
    (XO (XO (XO (XI (XO (XI (XI (XO (XO (XI (XO (XO (XI (XO (XI (XO (XI (XI
    (XO (XI (XI (XO (XI (XO (XI (XO (XO (XI (XI (XO (XO (XI (XI (XI (XI (XI
    (XO (XO (XO (XI (XI (XO (XI
    XH)))))))))))))))))))))))))))))))))))))))))))))))))))))))))))))) :: ((Npos
    (XI (XI (XO (XO (XI (XO (XI (XI (XO (XO (XO (XO (XO (XO (XO (XI (XI (XO
    (XO (XO (XO (XI (XI (XI (XI (XO (XO (XO (XI (XO (XO (XO (XO (XI (XO (XI
    (XI (XO (XI (XO (XI (XO (XO (XI (XI (XI (XO (XO (XO (XI (XO (XI (XI (XO
    (XI (XI (XI (XI (XO (XI
    XH))))))))))))))))))))))))))))))))))))))))))))))))))))))))))))) :: ((Npos
    (XO (XI (XO (XO (XO (XO (XO (XO (XI (XO (XI (XO (XI (XO (XI (XO (XI (XI
    (XO (XO (XO (XI (XO (XO (XI (XI (XO (XO (XI (XI (XO (XI (XI (XI (XO (XI
    (XI (XI (XO (XO (XO (XI (XO (XO (XO (XO (XI (XI (XO (XI (XO (XI (XO (XI
    (XI (XO (XO (XI (XO (XO (XO (XO (XI
    XH)))))))))))))))))))))))))))))))))))))))))))))))))))))))))))))))) :: ((Npos
    (XI (XO (XI (XI (XI (XO (XO (XO (XO (XO (XO (XO (XI (XI (XI (XI (XO (XI
    (XO (XO (XI (XI (XO (XI (XO (XI (XI (XI (XO (XI (XI (XI (XI (XO (XO (XO
    (XI (XO (XO (XI (XI (XO (XO (XO (XI (XO (XO (XI (XI (XO (XI (XO (XI (XI
    (XO (XO (XO (XI (XI (XI (XO (XI
    XH))))))))))))))))))))))))))))))))))))))))))))))))))))))))))))))) :: ((Npos
    (XO (XI (XO (XO (XI (XO (XO (XI (XO (XO (XO (XI (XO (XI (XO (XI (XI (XI
    (XI (XO (XO (XO (XO (XO (XO (XI (XI (XO (XO (XI (XI (XO (XI (XI (XI (XO
    (XO (XO (XI (XO (XI (XI (XI (XI (XO (XO (XO (XI (XI (XO (XI (XO (XO (XI
    (XO (XO (XI (XI (XI (XO (XI (XO (XI
    XH)))))))))))))))))))))))))))))))))))))))))))))))))))))))))))))))) :: ((Npos
    (XI (XO (XI (XI (XO (XI (XI (XI (XI (XI (XO (XI (XI (XO (XO (XI (XO (XO
    (XO (XO (XI (XO (XI (XI (XO (XO (XO (XO (XI (XI (XI (XO (XI (XO (XI (XO
    (XO (XI (XO (XO (XO (XI (XI (XO (XI (XI (XI (XO (XI (XI (XO (XO (XI (XI
    (XO (XO (XI (XO (XI (XO (XO (XO (XI
    XH)))))))))))))))))))))))))))))))))))))))))))))))))))))))))))))))) :: ((Npos
    (XI (XI (XO (XI (XO (XO (XI (XO (XO (XI (XO (XO (XO (XO (XO (XI (XI (XO
    (XO (XI (XI (XO (XI (XI (XO (XI (XI (XO (XO (XO (XO (XI (XI (XI (XI (XO
    (XI (XO (XI (XI (XO (XO (XI (XO (XO (XO (XI (XI (XI (XO (XO (XO (XI (XI
    (XO (XO (XI (XI (XO (XO (XI (XO (XI
    XH)))))))))))))))))))))))))))))))))))))))))))))))))))))))))))))))) :: ((Npos
    (XI (XO (XI (XO (XO (XI (XO (XO (XO (XO (XI (XI (XO (XO (XO (XI (XI (XO
    (XO (XI (XI (XO (XO (XO (XI (XO (XI (XO (XI (XO (XI (XO (XI (XO (XO (XI
    (XO (XO (XO (XO (XI (XI (XI (XO (XI (XI (XI (XO (XI (XI (XI (XO (XI (XO
    (XI (XI (XO (XO (XI (XI (XI (XO (XI
    XH)))))))))))))))))))))))))))))))))))))))))))))))))))))))))))))))) :: ((Npos
    (XO (XI (XO (XO (XI (XI (XI (XI (XI (XO (XO (XO (XI (XI (XO (XI (XO (XO
    (XI (XO (XO (XO (XO (XI (XO (XI (XO (XO (XO (XO (XI (XI (XO (XI (XI (XO
    (XO (XI (XO (XI (XI (XI (XO (XO (XO (XO (XI (XO (XI (XO (XO (XI (XO (XI
    (XO (XO (XO (XI (XI (XO (XI (XI (XO
    XH)))))))))))))))))))))))))))))))))))))))))))))))))))))))))))))))) :: ((Npos
    (XO (XI (XI (XI (XI (XO (XO (XI (XI (XO (XO (XO (XI (XO (XI (XO (XI (XO
    (XI (XO (XI (XI (XI (XI (XI (XO (XI (XI (XI (XI (XO (XO (XI (XI (XO (XO
    (XO (XI (XI (XI (XO (XI (XI (XO (XO (XI (XI (XO (XI (XO (XI (XI (XO (XO
    (XO (XI (XO (XO (XI (XI (XO (XI (XO
    XH)))))))))))))))))))))))))))))))))))))))))))))))))))))))))))))))) :: ((Npos
    (XI (XI (XI (XO (XO (XI (XI (XI (XO (XO (XO (XO (XI (XO (XI (XO (XO (XO
    (XI (XO (XI (XI (XI (XO (XI (XO (XO (XO (XI (XO (XI (XI (XO (XO (XO (XI
    (XO (XI (XO (XI (XO (XO (XI (XI (XI (XO (XO (XI (XO (XI (XO (XO (XO (XO
    (XO (XO (XO (XO (XO (XO (XI (XI
    XH))))))))))))))))))))))))))))))))))))))))))))))))))))))))))))))) :: ((Npos
    (XO (XO (XO (XO (XO (XI (XO (XO (XI (XO (XI (XI (XI (XO (XI (XI (XI (XI
    (XI (XO (XO (XI (XO (XO (XO (XI (XO (XO (XI (XO (XO (XO (XI (XO (XO (XO
    (XO (XO (XI (XO (XI (XO (XI (XO (XO (XI (XI (XI (XI (XO (XO (XI (XO (XO
    (XI (XI (XI (XI (XI (XO (XI (XI (XI
    XH)))))))))))))))))))))))))))))))))))))))))))))))))))))))))))))))) :: ((Npos
    (XO (XI (XI (XO (XO (XO (XI (XO (XI (XO (XO (XI (XO (XO (XO (XI (XI (XO
    (XO (XI (XI (XI (XI (XI (XO (XO (XO (XI (XO (XO (XI (XO (XO (XI (XI (XO
    (XI (XO (XI (XI (XO (XO (XO (XO (XI (XO (XI (XI (XO (XI (XO (XO (XO (XO
    (XO (XO (XI (XI (XO (XO (XO (XO (XI
    XH)))))))))))))))))))))))))))))))))))))))))))))))))))))))))))))))) :: ((Npos
    (XI (XO (XO (XI (XI (XI (XI (XI (XI (XO (XO (XI (XO (XI (XO (XO (XO (XO
    (XI (XI (XI (XI (XO (XO (XI (XO (XI (XO (XI (XO (XO (XI (XI (XI (XI (XO
    (XO (XO (XO (XI (XI (XO (XI (XI (XO (XO (XI (XO (XI (XI (XO (XO (XI (XO
    (XO (XI (XI (XI (XO (XO
    XH))))))))))))))))))))))))))))))))))))))))))))))))))))))))))))) :: ((Npos
    (XO (XO (XI (XI (XO (XI (XI (XO (XO (XO (XI (XI (XI (XO (XO (XI (XI (XO
    (XO (XI (XI (XI (XO (XO (XI (XO (XO (XO (XI (XO (XO (XO (XO (XO (XO (XI
    (XI (XI (XI (XI (XO (XO (XO (XO (XI (XI (XI (XO (XI (XO (XO (XO (XI (XO
    (XI (XI (XO (XO (XI (XO (XO (XI (XI
    XH)))))))))))))))))))))))))))))))))))))))))))))))))))))))))))))))) :: ((Npos
    (XO (XO (XI (XO (XI (XO (XO (XO (XO (XI (XO (XO (XI (XO (XO (XO (XO (XO
    (XI (XO (XI (XI (XI (XI (XO (XI (XI (XO (XI (XI (XI (XO (XO (XI (XI (XO
    (XI (XO (XO (XI (XO (XI (XI (XO (XO (XI (XI (XO (XI (XI (XI (XI (XO (XO
    (XI (XI (XI (XO (XI (XO (XI
    XH)))))))))))))))))))))))))))))))))))))))))))))))))))))))))))))) :: ((Npos
    (XI (XI (XI (XO (XO (XO (XO (XO (XO (XI (XI (XO (XI (XI (XO (XI (XO (XO
    (XO (XI (XI (XO (XO (XI (XI (XI (XI (XI (XO (XI (XO (XO (XO (XI (XO (XO
    (XI (XO (XO (XO (XI (XI (XI (XO (XI (XO (XI (XI (XI (XO (XI (XI (XO (XI
    (XI (XI (XI (XI (XI (XI (XO (XI
    XH))))))))))))))))))))))))))))))))))))))))))))))))))))))))))))))) :: ((Npos
    (XI (XI (XI (XO (XO (XI (XI (XO (XO (XO (XO (XI (XI (XI (XO (XI (XI (XI
    (XO (XI (XO (XO (XI (XO (XO (XO (XI (XI (XO (XO (XI (XO (XO (XO (XO (XO
    (XI (XO (XI (XO (XI (XO (XO (XI (XO (XO (XO (XO (XI (XI (XI (XO (XO (XI
    (XO (XI (XI (XI (XO (XI (XO (XI (XI
    XH)))))))))))))))))))))))))))))))))))))))))))))))))))))))))))))))) :: ((Npos
    (XI (XO (XI (XI (XI (XI (XI (XO (XI (XO (XI (XI (XI (XO (XI (XO (XO (XI
    (XO (XI (XO (XO (XO (XI (XO (XO (XI (XI (XI (XO (XO (XO (XI (XO (XO (XO
    (XO (XI (XO (XO (XO (XI (XI (XO (XO (XO (XO (XI (XO (XO (XO (XO (XO (XO
    (XI (XI (XO (XO (XO (XI (XI (XO (XI
    XH)))))))))))))))))))))))))))))))))))))))))))))))))))))))))))))))) :: ((Npos
    (XI (XI (XI (XI (XO (XO (XI (XO (XI (XI (XI (XO (XI (XI (XI (XI (XO (XO
    (XI (XO (XO (XO (XO (XO (XO (XI (XI (XO (XI (XI (XO (XI (XO (XI (XO (XO
    (XI (XO (XI (XI (XI (XO (XO (XO (XI (XI (XI (XO (XI (XO (XO (XO (XO (XO
    (XO (XI (XO (XO (XI (XO (XO (XO
    XH))))))))))))))))))))))))))))))))))))))))))))))))))))))))))))))) :: ((Npos
    (XO (XO (XO (XO (XO (XO (XI (XO (XO (XO (XI (XO (XO (XO (XO (XO (XO (XI
    (XI (XO (XI (XI (XO (XI (XO (XO (XI (XO (XI (XI (XI (XO (XI (XI (XO (XI
    (XO (XO (XI (XO (XI (XI (XI (XO (XI (XO (XO (XO (XI (XO (XO (XI (XI (XI
    (XO (XI (XI (XI (XI (XO
    XH))))))))))))))))))))))))))))))))))))))))))))))))))))))))))))) :: ((Npos
    (XI (XI (XO (XO (XI (XI (XO (XO (XO (XO (XO (XO (XO (XO (XI (XO (XO (XO
    (XO (XI (XI (XI (XI (XO (XI (XO (XI (XO (XI (XO (XI (XI (XO (XO (XO (XI
    (XI (XO (XO (XI (XO (XO (XO (XI (XO (XI (XO (XO (XO (XI (XO (XI (XO (XI
    (XI (XI (XI (XO (XO (XI (XI (XO (XI
    XH)))))))))))))))))))))))))))))))))))))))))))))))))))))))))))))))) :: ((Npos
    (XO (XO (XO (XO (XI (XI (XO (XO (XI (XO (XO (XO (XO (XO (XI (XO (XO (XO
    (XO (XO (XO (XO (XI (XO (XO (XI (XO (XO (XO (XO (XO (XO (XI (XI (XI (XI
    (XO (XO (XI (XO (XI (XO (XI (XI (XO (XI (XI (XO (XO (XI (XI (XI (XO (XO
    (XI (XO (XI (XO (XI (XO (XO (XO (XI
    XH)))))))))))))))))))))))))))))))))))))))))))))))))))))))))))))))) :: ((Npos
    (XO (XO (XI (XI (XO (XO (XO (XI (XI (XO (XI (XI (XI (XO (XI (XO (XO (XO
    (XO (XO (XO (XI (XO (XO (XI (XI (XI (XO (XI (XI (XI (XI (XO (XO (XI (XI
    (XI (XO (XO (XO (XI (XI (XO (XI (XI (XI (XI (XI (XO (XI (XI (XO (XO (XI
    (XO (XO (XI (XI (XI (XO (XO (XI (XI
    XH)))))))))))))))))))))))))))))))))))))))))))))))))))))))))))))))) :: ((Npos
    (XI (XO (XO (XO (XI (XO (XI (XO (XO (XO (XO (XO (XI (XO (XO (XI (XI (XI
    (XI (XI (XI (XO (XO (XO (XI (XI (XI (XI (XO (XO (XO (XI (XO (XI (XI (XI
    (XI (XI (XO (XI (XO (XI (XO (XI (XO (XO (XI (XI (XO (XO (XI (XO (XO (XI
    (XI (XI (XI (XO (XI (XO (XI (XI (XI
    XH)))))))))))))))))))))))))))))))))))))))))))))))))))))))))))))))) :: ((Npos
    (XO (XO (XI (XO (XI (XO (XO (XI (XI (XO (XO (XI (XO (XO (XO (XI (XO (XO
    (XO (XO (XO (XI (XI (XO (XI (XO (XO (XI (XI (XO (XI (XO (XO (XI (XO (XO
    (XI (XO (XI (XI (XI (XO (XO (XO (XO (XO (XO (XO (XI (XO (XO (XI (XO (XI
    (XI (XO (XO (XO (XI (XO (XI (XI
    XH))))))))))))))))))))))))))))))))))))))))))))))))))))))))))))))) :: ((Npos
    (XO (XO (XI (XO (XI (XO (XO (XO (XI (XI (XO (XI (XI (XO (XO (XI (XO (XI
    (XO (XO (XI (XI (XI (XI (XI (XI (XO (XO (XI (XO (XI (XO (XI (XO (XI (XO
    (XO (XO (XO (XI (XO (XI (XI (XI (XO (XO (XO (XI (XI (XI (XI (XO (XO (XI
    (XO (XI (XI (XI (XI (XI (XI (XI
    XH))))))))))))))))))))))))))))))))))))))))))))))))))))))))))))))) :: ((Npos
    (XO (XO (XI (XI (XI (XI (XO (XI (XO (XI (XO (XI (XO (XO (XO (XI (XO (XI
    (XI (XI (XI (XI (XI (XI (XO (XO (XI (XI (XO (XO (XO (XO (XO (XI (XI (XO
    (XO (XO (XO (XO (XI (XI (XO (XO (XI (XO (XI (XO (XI (XO (XO (XI (XI (XO
    (XO (XI (XI (XO (XI (XI (XO (XO (XO
    XH)))))))))))))))))))))))))))))))))))))))))))))))))))))))))))))))) :: ((Npos
    (XI (XO (XI (XI (XI (XI (XI (XI (XO (XI (XI (XI (XI (XI (XI (XO (XI (XI
    (XO (XO (XO (XI (XI (XI (XO (XI (XI (XI (XO (XI (XO (XO (XO (XO (XO (XO
    (XO (XO (XI (XO (XI (XO (XO (XI (XO (XI (XI (XI (XO (XI (XO (XI (XI (XO
    (XO (XI (XI (XO (XO (XO (XI (XI (XO
    XH)))))))))))))))))))))))))))))))))))))))))))))))))))))))))))))))) :: ((Npos
    (XO (XO (XI (XI (XI (XO (XI (XO (XI (XO (XO (XI (XI (XO (XO (XO (XO (XO
    (XI (XI (XO (XI (XI (XI (XO (XO (XO (XO (XO (XI (XI (XI (XI (XO (XI (XI
    (XO (XO (XO (XI (XO (XO (XO (XO (XI (XO (XO (XO (XO (XI (XO (XO (XI (XI
    (XI (XI (XO (XO (XI (XI (XI (XO
    XH))))))))))))))))))))))))))))))))))))))))))))))))))))))))))))))) :: ((Npos
    (XI (XO (XI (XO (XI (XI (XO (XI (XI (XI (XI (XI (XO (XI (XO (XO (XI (XI
    (XO (XO (XI (XO (XI (XI (XO (XO (XO (XO (XI (XO (XO (XO (XI (XO (XO (XI
    (XO (XO (XI (XI (XI (XI (XI (XI (XI (XO (XO (XI (XO (XO (XI (XO (XI (XO
    (XI (XI (XI (XI (XI (XO (XI
    XH)))))))))))))))))))))))))))))))))))))))))))))))))))))))))))))) :: ((Npos
    (XO (XI (XO (XI (XI (XO (XO (XI (XO (XI (XO (XO (XO (XI (XO (XO (XI (XO
    (XO (XO (XI (XO (XI (XO (XO (XO (XI (XI (XI (XO (XI (XO (XI (XO (XI (XI
    (XI (XI (XI (XO (XO (XI (XO (XI (XO (XO (XI (XO (XI (XI (XI (XI (XO (XO
    (XI (XO (XO (XO (XO (XO (XI (XO (XI
    XH)))))))))))))))))))))))))))))))))))))))))))))))))))))))))))))))) :: ((Npos
    (XO (XI (XI (XO (XI (XO (XO (XI (XO (XO (XO (XI (XO (XO (XO (XO (XI (XI
    (XI (XI (XI (XI (XO (XI (XI (XO (XO (XO (XI (XO (XO (XO (XO (XI (XO (XO
    (XO (XO (XO (XI (XI (XO (XO (XI (XO (XO (XI (XO (XI (XI (XO (XI (XO (XI
    (XI (XO (XI (XI (XI (XI (XI (XO
    XH))))))))))))))))))))))))))))))))))))))))))))))))))))))))))))))) :: ((Npos
    (XO (XI (XO (XI (XO (XI (XI (XO (XO (XI (XO (XI (XI (XI (XO (XO (XI (XO
    (XO (XI (XO (XI (XO (XO (XO (XO (XO (XI (XO (XI (XI (XI (XO (XO (XI (XO
    (XO (XO (XI (XO (XO (XI (XO (XI (XI (XO (XI (XI (XI (XI (XO (XO (XI (XO
    (XO (XI (XI (XO (XI (XI (XO (XI (XO
    XH)))))))))))))))))))))))))))))))))))))))))))))))))))))))))))))))) :: ((Npos
    (XI (XO (XO (XI (XI (XO (XO (XI (XO (XI (XI (XI (XI (XI (XO (XO (XI (XO
    (XI (XI (XI (XI (XO (XI (XO (XI (XO (XO (XO (XO (XI (XO (XO (XI (XO (XO
    (XO (XO (XO (XI (XI (XO (XO (XO (XO (XI (XI (XO (XI (XI (XO (XO (XI (XO
    (XI (XO (XI (XI (XO (XO (XI
    XH)))))))))))))))))))))))))))))))))))))))))))))))))))))))))))))) :: ((Npos
    (XI (XO (XI (XI (XO (XI (XI (XO (XO (XO (XO (XO (XI (XO (XO (XO (XO (XI
    (XI (XI (XI (XI (XO (XO (XO (XI (XI (XO (XI (XO (XO (XO (XI (XI (XO (XO
    (XO (XO (XO (XI (XO (XO (XI (XO (XI (XO (XI (XI (XI (XO (XO (XI (XI (XO
    (XO (XO (XI (XI (XI (XO (XO (XI (XO
    XH)))))))))))))))))))))))))))))))))))))))))))))))))))))))))))))))) :: ((Npos
    (XO (XO (XI (XI (XO (XI (XO (XI (XO (XO (XI (XO (XO (XO (XO (XO (XO (XI
    (XO (XI (XI (XO (XI (XI (XI (XI (XO (XO (XI (XO (XO (XI (XI (XI (XI (XI
    (XO (XI (XI (XI (XO (XO (XO (XI (XO (XO (XO (XO (XO (XO (XI (XI (XI (XI
    (XI (XI (XI (XI (XI (XO
    XH))))))))))))))))))))))))))))))))))))))))))))))))))))))))))))) :: ((Npos
    (XI (XO (XI (XO (XI (XI (XO (XI (XO (XO (XI (XI (XI (XO (XO (XI (XO (XO
    (XO (XO (XO (XO (XO (XI (XO (XO (XO (XO (XI (XO (XI (XO (XO (XO (XI (XI
    (XO (XO (XI (XI (XO (XO (XO (XI (XI (XI (XO (XO (XO (XI (XO (XO (XI (XO
    (XO (XI (XI (XO (XO (XI (XO (XI (XI
    XH)))))))))))))))))))))))))))))))))))))))))))))))))))))))))))))))) :: ((Npos
    (XI (XI (XI (XI (XI (XI (XO (XO (XI (XO (XO (XO (XI (XI (XI (XI (XI (XO
    (XO (XI (XO (XI (XI (XO (XO (XO (XO (XI (XI (XI (XO (XO (XO (XO (XO (XI
    (XO (XI (XO (XI (XO (XO (XO (XI (XO (XI (XI (XO (XI (XI (XI (XO (XO (XO
    (XI (XO (XI (XI (XI (XI (XO (XO
    XH))))))))))))))))))))))))))))))))))))))))))))))))))))))))))))))) :: ((Npos
    (XI (XO (XI (XO (XO (XO (XO (XO (XO (XI (XI (XI (XO (XO (XO (XO (XO (XO
    (XO (XI (XI (XO (XO (XO (XI (XO (XI (XI (XO (XI (XI (XI (XO (XO (XI (XO
    (XI (XO (XI (XI (XI (XO (XI (XI (XI (XI (XI (XO (XI (XI (XO (XI (XO (XI
    (XO (XI (XO (XO (XO (XI (XI (XO (XO
    XH)))))))))))))))))))))))))))))))))))))))))))))))))))))))))))))))) :: ((Npos
    (XI (XO (XO (XI (XI (XO (XI (XO (XI (XO (XI (XO (XO (XO (XO (XI (XO (XI
    (XI (XI (XO (XI (XO (XI (XI (XO (XI (XO (XI (XO (XI (XO (XO (XO (XO (XO
    (XO (XI (XO (XI (XI (XO (XI (XO (XO (XO (XI (XO (XI (XI (XI (XO (XO (XI
    (XI (XI (XO (XI (XO (XO (XO (XI (XO
    XH)))))))))))))))))))))))))))))))))))))))))))))))))))))))))))))))) :: ((Npos
    (XI (XI (XO (XI (XO (XO (XI (XO (XI (XO (XI (XO (XO (XI (XI (XO (XI (XO
    (XO (XO (XI (XO (XI (XO (XI (XI (XI (XO (XI (XI (XO (XO (XI (XI (XI (XI
    (XI (XI (XI (XO (XO (XI (XO (XI (XO (XI (XO (XO (XI (XI (XI (XO (XO (XO
    (XI (XI (XI (XI (XO (XI (XO (XI
    XH))))))))))))))))))))))))))))))))))))))))))))))))))))))))))))))) :: ((Npos
    (XI (XO (XO (XO (XI (XI (XI (XO (XO (XI (XI (XI (XI (XI (XO (XO (XI (XO
    (XO (XI (XI (XO (XO (XI (XO (XO (XO (XI (XI (XO (XI (XO (XI (XO (XO (XI
    (XO (XI (XO (XO (XO (XO (XI (XI (XI (XI (XI (XO (XO (XI (XO (XI (XI (XO
    (XO (XI (XI (XO (XO (XO (XO (XI (XO
    XH)))))))))))))))))))))))))))))))))))))))))))))))))))))))))))))))) :: ((Npos
    (XO (XI (XI (XI (XI (XO (XO (XO (XI (XI (XO (XO (XI (XI (XI (XO (XI (XO
    (XI (XI (XI (XI (XI (XO (XI (XO (XO (XI (XI (XO (XI (XO (XI (XI (XI (XI
    (XO (XO (XO (XO (XI (XO (XI (XO (XO (XI (XI (XO (XO (XI (XO (XI (XO (XO
    (XO (XO (XI (XO (XI (XI (XI (XO (XI
    XH)))))))))))))))))))))))))))))))))))))))))))))))))))))))))))))))) :: ((Npos
    (XO (XO (XI (XI (XI (XO (XO (XO (XI (XO (XO (XI (XI (XI (XO (XI (XO (XO
    (XI (XI (XI (XO (XO (XO (XO (XI (XO (XI (XO (XO (XI (XI (XO (XI (XI (XI
    (XI (XO (XI (XO (XI (XO (XI (XO (XI (XO (XI (XO (XO (XO (XI (XI (XO (XI
    (XI (XI (XO (XO (XI (XO
    XH))))))))))))))))))))))))))))))))))))))))))))))))))))))))))))) :: ((Npos
    (XO (XO (XI (XO (XI (XI (XO (XO (XI (XO (XO (XO (XO (XI (XI (XI (XI (XI
    (XI (XO (XI (XO (XI (XO (XI (XI (XI (XI (XI (XO (XI (XI (XI (XI (XI (XI
    (XI (XO (XI (XI (XI (XO (XO (XO (XI (XI (XI (XO (XI (XI (XI (XO (XI (XO
    (XO (XI (XO (XO (XO (XI (XI (XO
    XH))))))))))))))))))))))))))))))))))))))))))))))))))))))))))))))) :: ((Npos
    (XO (XO (XI (XI (XO (XI (XI (XI (XO (XI (XI (XO (XI (XI (XI (XO (XI (XO
    (XI (XI (XI (XO (XO (XI (XO (XI (XI (XI (XO (XO (XO (XI (XI (XI (XI (XI
    (XI (XO (XI (XI (XO (XI (XO (XO (XI (XO (XO (XI (XI (XO (XI (XO (XI (XI
    (XO (XI (XI (XI (XI (XI (XI (XI (XI
    XH)))))))))))))))))))))))))))))))))))))))))))))))))))))))))))))))) :: ((Npos
    (XO (XO (XI (XI (XI (XO (XI (XI (XI (XO (XO (XI (XO (XO (XO (XI (XI (XO
    (XO (XO (XO (XI (XI (XO (XO (XO (XI (XI (XI (XI (XO (XI (XO (XO (XO (XI
    (XO (XI (XI (XI (XO (XI (XO (XO (XI (XI (XO (XI (XI (XO (XI (XI (XO (XO
    (XI (XI (XI (XI (XI (XI (XO (XO
    XH))))))))))))))))))))))))))))))))))))))))))))))))))))))))))))))) :: ((Npos
    (XO (XI (XI (XI (XI (XO (XI (XO (XI (XI (XO (XI (XI (XI (XI (XO (XO (XO
    (XO (XI (XI (XO (XI (XI (XO (XI (XI (XI (XI (XI (XI (XI (XI (XO (XI (XO
    (XO (XO (XO (XI (XO (XI (XI (XI (XO (XO (XO (XI (XO (XI (XO (XI (XI (XI
    (XI (XI (XI (XI (XI (XO (XI (XO (XI
    XH)))))))))))))))))))))))))))))))))))))))))))))))))))))))))))))))) :: [])))))))))))))))))))))))))))))))))))))))))))))))))))))))))))))))) :: (((Npos
    (XI (XI (XI (XI (XI (XO (XI (XI (XO (XO (XI (XI (XO (XI (XO (XO (XO (XI
    (XI (XO (XO (XI (XI (XO (XI (XI (XO (XO (XO (XO (XO (XI (XI (XO (XO (XI
    (XO (XI (XO (XO (XI (XO (XI (XO (XO (XO (XO (XI (XO (XI (XO (XO (XO (XI
    (XO (XI (XO (XI (XI (XO (XI (XI (XO
    XH)))))))))))))))))))))))))))))))))))))))))))))))))))))))))))))))) :: ((Npos
    (XO (XO (XO (XO (XO (XI (XI (XI (XO (XI (XO (XI (XO (XO (XO (XI (XI (XO
    (XO (XI (XO (XI (XI (XO (XO (XO (XO (XI (XO (XI (XO (XI (XI (XI (XI (XI
    (XO (XI (XO (XI (XO (XO (XO (XO (XO (XO (XI (XO (XO (XI (XO (XI (XO (XO
    (XI (XO (XO (XI (XO (XO (XO (XI (XI
    XH)))))))))))))))))))))))))))))))))))))))))))))))))))))))))))))))) :: ((Npos
    (XI (XI (XI (XO (XI (XI (XI (XI (XO (XI (XO (XO (XO (XO (XI (XI (XI (XO
    (XO (XI (XI (XO (XI (XO (XO (XI (XI (XO (XI (XI (XI (XO (XO (XO (XO (XO
    (XO (XI (XI (XO (XI (XI (XI (XI (XO (XI (XI (XI (XI (XO (XO (XI (XO (XO
    (XO (XI (XO (XO (XO (XI (XO (XO (XO
    XH)))))))))))))))))))))))))))))))))))))))))))))))))))))))))))))))) :: ((Npos
    (XO (XO (XI (XI (XO (XO (XO (XO (XI (XI (XI (XO (XI (XI (XI (XI (XI (XO
    (XI (XO (XI (XI (XO (XO (XI (XO (XI (XI (XO (XO (XI (XO (XO (XI (XI (XI
    (XI (XI (XI (XI (XI (XO (XO (XI (XO (XO (XI (XI (XO (XO (XI (XO (XO (XI
    (XI (XI (XI (XO (XI (XI (XO (XO (XO
    XH)))))))))))))))))))))))))))))))))))))))))))))))))))))))))))))))) :: ((Npos
    (XI (XI (XI (XI (XI (XI (XO (XI (XO (XI (XO (XO (XI (XI (XO (XO (XO (XO
    (XI (XO (XO (XO (XO (XO (XI (XO (XI (XO (XO (XI (XO (XO (XO (XO (XI (XO
    (XO (XI (XO (XI (XI (XO (XO (XI (XO (XI (XI (XI (XI (XI (XO (XI (XO (XI
    (XI (XO (XI (XI (XI (XI (XO
    XH)))))))))))))))))))))))))))))))))))))))))))))))))))))))))))))) :: ((Npos
    (XI (XO (XO (XI (XO (XO (XI (XI (XI (XO (XI (XI (XI (XO (XO (XO (XO (XO
    (XI (XO (XI (XO (XI (XO (XO (XO (XO (XO (XO (XO (XO (XI (XI (XO (XO (XO
    (XO (XI (XO (XI (XO (XO (XO (XO (XO (XI (XI (XO (XO (XO (XO (XO (XI (XI
    (XO (XI (XI (XI (XO (XI (XI (XI
    XH))))))))))))))))))))))))))))))))))))))))))))))))))))))))))))))) :: ((Npos
    (XI (XO (XI (XO (XO (XO (XI (XI (XO (XO (XI (XO (XO (XO (XI (XO (XO (XO
    (XI (XI (XO (XI (XO (XO (XI (XI (XI (XI (XI (XO (XI (XI (XO (XO (XI (XI
    (XO (XO (XI (XI (XO (XI (XI (XO (XI (XO (XO (XO (XO (XO (XO (XO (XO (XI
    (XI (XI (XO (XO (XI (XI (XI (XO
    XH))))))))))))))))))))))))))))))))))))))))))))))))))))))))))))))) :: ((Npos
    (XI (XI (XO (XO (XO (XI (XI (XI (XO (XO (XO (XI (XI (XO (XI (XO (XO (XI
    (XO (XI (XI (XO (XI (XI (XO (XO (XI (XI (XO (XO (XI (XO (XO (XO (XI (XI
    (XO (XO (XI (XO (XO (XI (XI (XI (XI (XO (XO (XO (XI (XO (XI (XO (XO (XO
    (XI (XI (XI (XI (XI (XI (XI
    XH)))))))))))))))))))))))))))))))))))))))))))))))))))))))))))))) :: ((Npos
    (XO (XO (XI (XO (XI (XI (XI (XO (XO (XI (XO (XI (XO (XI (XO (XI (XO (XI
    (XO (XI (XO (XI (XI (XO (XO (XI (XI (XO (XI (XI (XO (XI (XI (XI (XO (XO
    (XO (XO (XI (XO (XO (XI (XO (XI (XI (XO (XI (XO (XO (XI (XI (XI (XI (XI
    (XI (XI (XI (XO (XI (XI (XI (XI (XO
    XH)))))))))))))))))))))))))))))))))))))))))))))))))))))))))))))))) :: ((Npos
    (XO (XO (XO (XO (XO (XI (XI (XO (XO (XI (XI (XO (XI (XI (XI (XI (XI (XI
    (XI (XI (XO (XO (XO (XO (XO (XI (XI (XI (XO (XO (XO (XO (XI (XO (XI (XI
    (XI (XO (XI (XO (XO (XO (XI (XI (XO (XI (XI (XO (XO (XO (XI (XO (XO (XO
    (XO (XO (XI (XO (XI (XI
    XH))))))))))))))))))))))))))))))))))))))))))))))))))))))))))))) :: ((Npos
    (XI (XI (XI (XO (XO (XI (XI (XI (XI (XI (XI (XI (XO (XI (XI (XI (XI (XO
    (XO (XO (XI (XI (XI (XI (XI (XO (XI (XI (XI (XI (XI (XO (XO (XO (XO (XO
    (XI (XO (XI (XI (XI (XO (XO (XI (XI (XI (XO (XI (XI (XO (XI (XO (XI (XI
    (XI (XI (XI (XI (XI (XI (XO
    XH)))))))))))))))))))))))))))))))))))))))))))))))))))))))))))))) :: ((Npos
    (XO (XO (XI (XO (XO (XO (XO (XI (XI (XO (XO (XI (XI (XI (XI (XO (XI (XO
    (XO (XO (XO (XO (XI (XO (XI (XI (XI (XI (XO (XI (XO (XO (XO (XO (XO (XO
    (XO (XO (XO (XO (XI (XI (XI (XO (XO (XI (XO (XI (XI (XI (XI (XO (XO (XI
    (XO (XI (XO (XO (XI (XI (XI (XI
    XH))))))))))))))))))))))))))))))))))))))))))))))))))))))))))))))) :: ((Npos
    (XI (XI (XO (XI (XI (XO (XO (XI (XI (XO (XI (XO (XI (XI (XO (XO (XO (XI
    (XI (XO (XI (XO (XO (XI (XO (XI (XI (XO (XI (XI (XO (XO (XO (XO (XO (XO
    (XO (XO (XI (XO (XI (XI (XI (XO (XO (XI (XI (XO (XO (XI (XO (XI (XO (XO
    (XI (XO (XO (XO (XO (XI
    XH))))))))))))))))))))))))))))))))))))))))))))))))))))))))))))) :: ((Npos
    (XI (XO (XI (XI (XI (XO (XI (XO (XO (XO (XI (XO (XO (XO (XI (XO (XI (XI
    (XO (XO (XI (XI (XO (XO (XI (XI (XI (XI (XI (XI (XO (XI (XI (XO (XI (XI
    (XO (XO (XO (XO (XI (XO (XO (XI (XO (XI (XO (XO (XO (XO (XI (XO (XI (XO
    (XI (XO (XO (XI (XO (XI (XI (XI
    XH))))))))))))))))))))))))))))))))))))))))))))))))))))))))))))))) :: ((Npos
    (XO (XO (XI (XI (XI (XO (XI (XI (XI (XI (XO (XO (XI (XO (XI (XO (XI (XO
    (XO (XI (XI (XO (XI (XI (XO (XO (XI (XO (XO (XI (XI (XI (XI (XI (XI (XI
    (XI (XI (XO (XO (XI (XO (XI (XO (XO (XO (XO (XI (XO (XI (XO (XO (XO (XI
    (XI (XO (XI (XO (XI (XI (XI (XO
    XH))))))))))))))))))))))))))))))))))))))))))))))))))))))))))))))) :: ((Npos
    (XI (XI (XI (XI (XO (XI (XO (XO (XI (XO (XI (XO (XO (XI (XO (XO (XI (XI
    (XO (XI (XO (XI (XI (XI (XI (XI (XI (XO (XO (XI (XO (XI (XI (XO (XO (XI
    (XO (XI (XI (XI (XO (XI (XO (XO (XO (XI (XI (XI (XO (XO (XI (XI (XI (XO
    (XO (XI (XI (XO (XI (XI (XO (XI (XI
    XH)))))))))))))))))))))))))))))))))))))))))))))))))))))))))))))))) :: ((Npos
    (XI (XI (XI (XI (XO (XI (XO (XI (XI (XO (XO (XO (XO (XO (XO (XI (XI (XO
    (XI (XI (XO (XO (XO (XO (XO (XI (XO (XI (XO (XO (XI (XI (XO (XO (XI (XO
    (XO (XO (XO (XO (XO (XI (XI (XI (XI (XO (XO (XO (XI (XO (XI (XI (XO (XI
    (XO (XO (XI (XI (XI (XI (XI (XI (XO
    XH)))))))))))))))))))))))))))))))))))))))))))))))))))))))))))))))) :: ((Npos
    (XO (XI (XI (XI (XO (XI (XO (XO (XI (XO (XI (XO (XI (XO (XI (XO (XI (XO
    (XO (XI (XI (XI (XO (XO (XI (XO (XO (XO (XO (XI (XO (XO (XO (XO (XI (XI
    (XO (XI (XI (XI (XO (XI (XI (XI (XI (XI (XI (XI (XI (XI (XI (XO (XO (XI
    (XI (XO (XO (XO (XO (XI (XO (XO
    XH))))))))))))))))))))))))))))))))))))))))))))))))))))))))))))))) :: ((Npos
    (XO (XI (XO (XI (XO (XI (XI (XO (XO (XI (XO (XI (XI (XO (XI (XI (XI (XO
    (XI (XO (XO (XO (XI (XO (XO (XI (XO (XO (XO (XO (XI (XO (XI (XI (XO (XI
    (XI (XO (XI (XO (XO (XO (XI (XI (XO (XO (XI (XO (XO (XI (XI (XO (XO (XO
    (XO (XI (XI (XO (XI (XO (XO
    XH)))))))))))))))))))))))))))))))))))))))))))))))))))))))))))))) :: ((Npos
    (XI (XI (XO (XI (XI (XI (XI (XI (XO (XO (XI (XI (XO (XI (XO (XI (XO (XI
    (XO (XO (XI (XI (XO (XI (XO (XO (XO (XI (XO (XO (XI (XO (XO (XO (XI (XI
    (XO (XO (XO (XI (XI (XI (XO (XO (XO (XO (XI (XI (XI (XI (XO (XI (XO (XI
    (XI (XO (XI (XO (XO (XO (XI (XI (XI
    XH)))))))))))))))))))))))))))))))))))))))))))))))))))))))))))))))) :: ((Npos
    (XO (XO (XO (XO (XO (XO (XI (XI (XO (XI (XI (XI (XI (XI (XO (XI (XO (XO
    (XO (XO (XO (XO (XO (XI (XO (XO (XI (XI (XI (XO (XI (XI (XI (XO (XI (XI
    (XI (XO (XO (XO (XI (XO (XI (XO (XI (XI (XO (XI (XI (XI (XI (XI (XI (XO
    (XO (XO (XI (XI (XI (XI (XI
    XH)))))))))))))))))))))))))))))))))))))))))))))))))))))))))))))) :: ((Npos
    (XO (XO (XI (XO (XO (XO (XI (XO (XO (XO (XO (XI (XO (XI (XO (XI (XO (XI
    (XI (XO (XI (XO (XI (XO (XO (XI (XO (XO (XI (XI (XO (XO (XI (XI (XO (XI
    (XO (XO (XI (XI (XO (XO (XO (XI (XO (XI (XO (XI (XI (XO (XI (XI (XI (XO
    (XI (XO (XO (XI (XI (XO (XI
    XH)))))))))))))))))))))))))))))))))))))))))))))))))))))))))))))) :: ((Npos
    (XO (XI (XO (XI (XI (XO (XI (XO (XI (XI (XI (XI (XI (XO (XI (XI (XI (XI
    (XO (XI (XO (XO (XI (XI (XO (XO (XI (XO (XO (XO (XO (XI (XI (XO (XO (XO
    (XO (XO (XI (XI (XO (XO (XO (XO (XI (XI (XO (XO (XO (XO (XI (XI (XO (XO
    (XO (XO (XI (XI (XO (XI (XI (XO (XO
    XH)))))))))))))))))))))))))))))))))))))))))))))))))))))))))))))))) :: ((Npos
    (XI (XO (XI (XO (XI (XI (XI (XO (XI (XI (XI (XI (XO (XO (XI (XO (XI (XO
    (XO (XO (XI (XO (XI (XI (XO (XI (XI (XI (XO (XI (XO (XO (XI (XO (XI (XI
    (XI (XI (XO (XI (XI (XI (XO (XI (XO (XO (XO (XO (XI (XO (XI (XI (XO (XI
    (XI (XI (XO (XI
    XH))))))))))))))))))))))))))))))))))))))))))))))))))))))))))) :: ((Npos
    (XI (XO (XO (XO (XI (XI (XO (XO (XI (XO (XI (XI (XI (XI (XI (XO (XO (XI
    (XI (XO (XI (XO (XI (XI (XO (XO (XI (XO (XI (XO (XO (XI (XI (XI (XO (XO
    (XO (XO (XO (XI (XO (XI (XO (XI (XI (XI (XO (XI (XI (XO (XI (XO (XO (XO
    (XO (XI (XI (XI (XO (XO (XO (XO
    XH))))))))))))))))))))))))))))))))))))))))))))))))))))))))))))))) :: ((Npos
    (XO (XO (XI (XI (XI (XO (XI (XI (XO (XI (XI (XI (XO (XO (XI (XI (XO (XI
    (XO (XO (XO (XO (XI (XO (XI (XI (XI (XO (XI (XO (XI (XI (XI (XI (XO (XI
    (XO (XO (XO (XI (XI (XI (XI (XI (XO (XI (XI (XI (XO (XI (XI (XO (XO (XO
    (XO (XI (XO (XI (XI (XI (XO (XO
    XH))))))))))))))))))))))))))))))))))))))))))))))))))))))))))))))) :: ((Npos
    (XO (XI (XO (XI (XI (XO (XI (XI (XI (XO (XI (XO (XI (XI (XO (XI (XI (XO
    (XI (XI (XI (XO (XO (XI (XO (XI (XI (XI (XI (XO (XO (XI (XI (XO (XO (XO
    (XO (XO (XI (XO (XI (XI (XI (XO (XI (XI (XO (XO (XO (XO (XO (XO (XO (XI
    (XO (XO (XO (XO (XO (XI (XO (XO (XI
    XH)))))))))))))))))))))))))))))))))))))))))))))))))))))))))))))))) :: ((Npos
    (XO (XO (XO (XO (XI (XO (XO (XO (XI (XI (XO (XO (XI (XO (XI (XI (XO (XI
    (XI (XO (XO (XI (XO (XO (XI (XI (XO (XI (XI (XO (XO (XI (XO (XO (XO (XO
    (XO (XI (XI (XO (XO (XI (XO (XO (XO (XO (XI (XI (XI (XI (XI (XO (XO (XI
    (XO (XI (XO (XO (XO (XI (XO (XI (XO
    XH)))))))))))))))))))))))))))))))))))))))))))))))))))))))))))))))) :: ((Npos
    (XO (XI (XO (XI (XO (XI (XO (XO (XI (XO (XO (XI (XO (XI (XO (XI (XI (XO
    (XI (XO (XI (XO (XO (XI (XO (XO (XI (XO (XO (XI (XO (XO (XO (XI (XI (XI
    (XI (XO (XO (XO (XO (XO (XI (XO (XO (XO (XI (XI (XI (XO (XI (XO (XI (XI
    (XO (XO (XI (XI (XO (XI (XO (XI (XI
    XH)))))))))))))))))))))))))))))))))))))))))))))))))))))))))))))))) :: ((Npos
    (XO (XO (XI (XO (XI (XO (XI (XI (XI (XO (XI (XI (XO (XO (XI (XI (XO (XO
    (XI (XO (XO (XO (XO (XI (XO (XI (XO (XO (XI (XI (XI (XO (XI (XI (XI (XO
    (XI (XI (XI (XI (XI (XI (XO (XO (XO (XO (XI (XI (XO (XO (XI (XO (XI (XI
    (XO (XO (XI (XI (XI (XO (XI (XO (XO
    XH)))))))))))))))))))))))))))))))))))))))))))))))))))))))))))))))) :: ((Npos
    (XI (XI (XI (XI (XI (XI (XO (XI (XI (XI (XO (XO (XO (XI (XI (XI (XI (XI
    (XI (XI (XO (XO (XI (XI (XO (XO (XO (XO (XO (XI (XI (XI (XO (XI (XO (XO
    (XO (XO (XI (XI (XI (XO (XO (XO (XO (XI (XO (XO (XO (XO (XI (XI (XO (XO
    (XO (XI (XO (XI (XI (XO (XO (XI
    XH))))))))))))))))))))))))))))))))))))))))))))))))))))))))))))))) :: ((Npos
    (XI (XI (XI (XO (XI (XI (XO (XO (XI (XI (XO (XI (XI (XO (XO (XO (XI (XO
    (XO (XO (XO (XI (XI (XO (XI (XO (XI (XO (XI (XO (XO (XO (XO (XI (XO (XI
    (XI (XI (XI (XO (XO (XI (XI (XO (XO (XO (XI (XI (XI (XI (XO (XO (XO (XO
    (XI (XI (XO (XO (XI (XO (XI
    XH)))))))))))))))))))))))))))))))))))))))))))))))))))))))))))))) :: ((Npos
    (XO (XO (XO (XI (XO (XI (XI (XO (XI (XO (XO (XO (XO (XI (XO (XO (XO (XI
    (XO (XO (XI (XO (XO (XO (XI (XI (XI (XO (XI (XI (XO (XO (XO (XO (XO (XI
    (XI (XI (XI (XO (XI (XI (XO (XO (XO (XI (XI (XO (XO (XO (XO (XO (XI (XO
    (XI (XO (XO (XO (XI (XO (XO (XI
    XH))))))))))))))))))))))))))))))))))))))))))))))))))))))))))))))) :: ((Npos
    (XO (XI (XO (XI (XO (XO (XI (XI (XO (XO (XO (XI (XO (XO (XO (XI (XO (XO
    (XO (XI (XO (XI (XI (XO (XO (XO (XO (XO (XI (XI (XO (XO (XO (XI (XI (XO
    (XI (XO (XO (XO (XI (XO (XO (XI (XI (XI (XI (XI (XI (XI (XI (XO (XO (XI
    (XI (XI (XI (XI (XO (XO (XO (XI
    XH))))))))))))))))))))))))))))))))))))))))))))))))))))))))))))))) :: ((Npos
    (XO (XI (XI (XI (XI (XO (XI (XO (XI (XI (XI (XI (XI (XO (XO (XI (XO (XO
    (XI (XI (XI (XI (XO (XI (XI (XI (XO (XO (XI (XI (XO (XO (XO (XO (XO (XO
    (XI (XI (XI (XI (XO (XO (XI (XI (XI (XI (XI (XI (XI (XO (XI (XI (XO (XI
    (XI (XI (XO (XO (XI (XO (XI
    XH)))))))))))))))))))))))))))))))))))))))))))))))))))))))))))))) :: ((Npos
    (XO (XI (XO (XI (XO (XI (XO (XI (XI (XI (XI (XO (XO (XI (XO (XI (XO (XI
    (XI (XI (XI (XO (XI (XO (XO (XO (XI (XO (XO (XO (XI (XO (XI (XI (XO (XO
    (XI (XO (XO (XO (XO (XI (XO (XO (XI (XO (XI (XI (XI (XO (XI (XI (XO (XO
    (XI (XO (XO (XO (XI (XO (XI (XO
    XH))))))))))))))))))))))))))))))))))))))))))))))))))))))))))))))) :: ((Npos
    (XI (XO (XI (XI (XI (XI (XI (XI (XO (XO (XO (XO (XI (XO (XO (XI (XO (XI
    (XI (XI (XO (XO (XO (XI (XI (XI (XI (XO (XI (XO (XO (XI (XO (XI (XO (XO
    (XO (XO (XO (XO (XO (XI (XI (XI (XO (XO (XO (XO (XO (XO (XI (XO (XI (XI
    (XO (XI (XO (XI (XI (XI (XO (XI (XO
    XH)))))))))))))))))))))))))))))))))))))))))))))))))))))))))))))))) :: ((Npos
    (XI (XI (XO (XO (XO (XI (XO (XI (XI (XI (XI (XO (XO (XI (XI (XI (XO (XI
    (XO (XI (XO (XO (XO (XO (XI (XI (XO (XO (XO (XO (XO (XI (XO (XO (XO (XI
    (XI (XO (XO (XI (XI (XO (XO (XO (XO (XI (XI (XI (XO (XO (XI (XO (XO (XI
    (XI (XI (XI (XO (XO (XO (XO
    XH)))))))))))))))))))))))))))))))))))))))))))))))))))))))))))))) :: ((Npos
    (XI (XI (XO (XO (XO (XI (XO (XI (XI (XI (XO (XO (XI (XO (XI (XI (XO (XO
    (XI (XI (XO (XI (XI (XO (XI (XI (XO (XI (XI (XO (XI (XO (XO (XO (XI (XI
    (XI (XI (XI (XI (XI (XO (XO (XI (XO (XO (XI (XI (XO (XI (XO (XO (XO (XO
    (XI (XI (XO (XO (XO (XO (XI (XI (XO
    XH)))))))))))))))))))))))))))))))))))))))))))))))))))))))))))))))) :: ((Npos
    (XI (XI (XI (XO (XI (XO (XO (XI (XO (XO (XO (XI (XI (XI (XI (XO (XI (XO
    (XO (XO (XI (XO (XI (XI (XO (XO (XO (XI (XI (XI (XO (XO (XO (XO (XI (XI
    (XO (XI (XO (XI (XO (XO (XI (XI (XO (XI (XO (XI (XI (XO (XO (XO (XI (XI
    (XI (XI (XI (XO (XI (XO (XO (XO
    XH))))))))))))))))))))))))))))))))))))))))))))))))))))))))))))))) :: ((Npos
    (XI (XO (XO (XI (XO (XO (XI (XI (XI (XI (XI (XO (XO (XI (XO (XI (XI (XI
    (XO (XO (XO (XO (XI (XO (XI (XO (XI (XO (XO (XO (XO (XO (XI (XO (XI (XI
    (XO (XI (XI (XO (XI (XO (XI (XI (XI (XO (XI (XO (XI (XO (XO (XI (XO (XI
    (XI (XI (XO (XO (XI (XO (XI
    XH)))))))))))))))))))))))))))))))))))))))))))))))))))))))))))))) :: ((Npos
    (XI (XO (XI (XO (XI (XI (XO (XO (XO (XO (XI (XO (XO (XI (XO (XO (XO (XO
    (XO (XI (XI (XI (XO (XO (XI (XO (XI (XI (XI (XI (XI (XO (XO (XI (XI (XI
    (XO (XO (XI (XI (XO (XI (XI (XO (XI (XO (XI (XI (XO (XO (XI (XI (XO (XI
    (XI (XI (XO (XO (XO (XO (XO (XI (XI
    XH)))))))))))))))))))))))))))))))))))))))))))))))))))))))))))))))) :: ((Npos
    (XI (XI (XI (XO (XO (XO (XO (XI (XO (XI (XO (XI (XO (XO (XO (XI (XO (XI
    (XO (XI (XI (XO (XO (XO (XI (XO (XO (XI (XO (XI (XO (XO (XI (XO (XO (XO
    (XI (XO (XO (XI (XO (XI (XO (XO (XI (XI (XI (XO (XO (XI (XO (XI (XI (XO
    (XO (XO (XO (XI (XO (XO (XO (XI (XO
    XH)))))))))))))))))))))))))))))))))))))))))))))))))))))))))))))))) :: ((Npos
    (XO (XI (XO (XI (XI (XO (XI (XI (XI (XO (XI (XO (XI (XI (XO (XI (XI (XO
    (XO (XO (XI (XO (XO (XI (XO (XI (XI (XI (XI (XO (XO (XI (XO (XI (XO (XI
    (XI (XI (XI (XO (XO (XI (XO (XO (XO (XO (XI (XO (XO (XO (XI (XO (XI (XO
    (XI (XO (XI (XI (XO (XO (XO (XI
    XH))))))))))))))))))))))))))))))))))))))))))))))))))))))))))))))) :: ((Npos
    (XI (XO (XI (XO (XI (XI (XO (XI (XI (XI (XO (XI (XO (XO (XO (XI (XI (XI
    (XI (XO (XO (XO (XO (XO (XO (XI (XO (XI (XO (XO (XI (XO (XO (XI (XI (XO
    (XI (XO (XI (XO (XI (XI (XI (XI (XO (XO (XO (XO (XO (XO (XI (XO (XO (XI
    (XO (XI (XO (XI (XI (XO (XI
    XH)))))))))))))))))))))))))))))))))))))))))))))))))))))))))))))) :: ((Npos
    (XI (XO (XO (XO (XI (XI (XO (XO (XO (XO (XO (XI (XI (XO (XO (XO (XI (XO
    (XO (XO (XI (XI (XO (XI (XI (XI (XI (XI (XO (XI (XO (XI (XO (XO (XO (XI
    (XO (XI (XO (XI (XO (XO (XI (XI (XI (XI (XO (XI (XO (XI (XO (XO (XO (XO
    (XI (XI (XI (XO (XO (XI
    XH))))))))))))))))))))))))))))))))))))))))))))))))))))))))))))) :: ((Npos
    (XO (XO (XI (XI (XI (XI (XO (XI (XO (XO (XO (XO (XI (XO (XO (XO (XO (XO
    (XI (XO (XO (XO (XI (XI (XO (XO (XO (XO (XI (XI (XO (XO (XO (XO (XO (XI
    (XO (XI (XO (XI (XI (XI (XO (XI (XO (XI (XI (XO (XO (XI (XI (XI (XO (XO
    (XO (XI (XI (XO (XO (XI (XI (XO
    XH))))))))))))))))))))))))))))))))))))))))))))))))))))))))))))))) :: ((Npos
    (XO (XI (XI (XO (XO (XI (XO (XI (XI (XI (XI (XO (XI (XO (XI (XO (XO (XO
    (XI (XO (XO (XI (XO (XO (XO (XI (XI (XI (XO (XI (XI (XO (XO (XO (XO (XO
    (XO (XI (XI (XO (XI (XI (XO (XO (XI (XI (XI (XI (XO (XO (XI (XI (XO (XO
    (XO (XO (XI (XO (XI (XI (XO (XO
    XH))))))))))))))))))))))))))))))))))))))))))))))))))))))))))))))) :: ((Npos
    (XI (XI (XI (XO (XO (XO (XO (XI (XI (XI (XI (XI (XI (XO (XO (XO (XI (XI
    (XO (XO (XI (XI (XO (XO (XI (XI (XO (XO (XO (XI (XI (XO (XO (XI (XI (XI
    (XI (XI (XI (XO (XO (XI (XI (XI (XO (XI (XI (XO (XO (XO (XI (XI (XO (XI
    (XO (XI (XO (XI (XO (XI
    XH))))))))))))))))))))))))))))))))))))))))))))))))))))))))))))) :: ((Npos
    (XI (XI (XO (XI (XI (XI (XI (XI (XI (XI (XO (XI (XI (XI (XO (XO (XO (XO
    (XI (XO (XI (XO (XI (XI (XI (XI (XO (XI (XO (XI (XO (XO (XI (XO (XO (XI
    (XI (XI (XI (XI (XO (XI (XO (XO (XI (XI (XO (XI (XI (XI (XO (XI (XO (XI
    (XI (XO (XO (XO (XO (XO (XI
    XH)))))))))))))))))))))))))))))))))))))))))))))))))))))))))))))) :: ((Npos
    (XI (XI (XO (XI (XO (XO (XI (XI (XI (XO (XO (XO (XI (XI (XI (XO (XO (XO
    (XI (XI (XO (XO (XI (XO (XI (XI (XO (XI (XI (XO (XO (XO (XI (XO (XI (XO
    (XO (XI (XO (XO (XO (XO (XO (XO (XO (XI (XO (XI (XI (XI (XO (XI (XO (XI
    (XI (XO (XO (XO (XO (XI (XO
    XH)))))))))))))))))))))))))))))))))))))))))))))))))))))))))))))) :: ((Npos
    (XI (XO (XO (XI (XI (XO (XO (XI (XO (XI (XO (XO (XO (XO (XO (XI (XO (XO
    (XI (XO (XI (XO (XI (XO (XI (XI (XI (XO (XI (XO (XO (XI (XO (XI (XI (XI
    (XI (XO (XI (XI (XI (XI (XI (XO (XI (XO (XI (XO (XO (XI (XO (XI (XO (XI
    (XO (XO (XO (XO (XO (XO (XO (XI (XI
    XH)))))))))))))))))))))))))))))))))))))))))))))))))))))))))))))))) :: ((Npos
    (XO (XI (XO (XO (XI (XO (XI (XO (XI (XI (XI (XO (XI (XI (XO (XI (XO (XO
    (XO (XI (XO (XI (XI (XO (XI (XO (XO (XI (XO (XO (XO (XI (XO (XI (XO (XO
    (XO (XI (XO (XI (XI (XI (XI (XI (XI (XI (XI (XO (XI (XI (XI (XI (XI (XI
    (XO (XI (XI (XI (XI (XI (XI (XO
    XH))))))))))))))))))))))))))))))))))))))))))))))))))))))))))))))) :: ((Npos
    (XO (XO (XO (XI (XI (XI (XI (XO (XI (XI (XI (XO (XO (XI (XI (XO (XI (XO
    (XI (XI (XO (XO (XI (XI (XO (XI (XI (XI (XI (XO (XI (XO (XO (XO (XI (XI
    (XI (XO (XO (XO (XO (XI (XO (XI (XO (XO (XI (XO (XO (XO (XO (XO (XO (XI
    (XI (XO (XO (XI (XO (XO (XO (XI (XI
    XH)))))))))))))))))))))))))))))))))))))))))))))))))))))))))))))))) :: ((Npos
    (XO (XI (XO (XO (XI (XO (XO (XO (XO (XO (XO (XO (XI (XO (XO (XI (XO (XO
    (XI (XI (XI (XI (XI (XO (XI (XI (XO (XO (XO (XO (XO (XI (XO (XO (XI (XI
    (XO (XI (XI (XO (XI (XO (XO (XI (XO (XI (XI (XI (XO (XO (XO (XO (XO (XI
    (XI (XO (XO (XI (XO (XO (XO (XI (XI
    XH)))))))))))))))))))))))))))))))))))))))))))))))))))))))))))))))) :: ((Npos
    (XO (XO (XI (XI (XO (XO (XI (XO (XI (XO (XO (XO (XO (XI (XO (XO (XI (XO
    (XI (XO (XO (XI (XI (XI (XO (XO (XO (XO (XO (XI (XO (XI (XI (XI (XI (XI
    (XI (XI (XO (XO (XI (XI (XI (XI (XO (XO (XO (XI (XI (XI (XO (XI (XO (XO
    (XO (XI (XO (XI (XI (XO (XO (XI (XO
    XH)))))))))))))))))))))))))))))))))))))))))))))))))))))))))))))))) :: ((Npos
    (XI (XO (XI (XO (XO (XO (XO (XI (XI (XO (XI (XI (XI (XO (XI (XO (XO (XI
    (XO (XO (XI (XI (XO (XI (XO (XO (XI (XO (XO (XO (XO (XI (XO (XI (XI (XI
    (XI (XI (XO (XO (XO (XI (XI (XO (XO (XI (XO (XI (XI (XI (XO (XO (XO (XO
    (XO (XO (XI (XI (XO (XI (XI (XI (XI
    XH)))))))))))))))))))))))))))))))))))))))))))))))))))))))))))))))) :: ((Npos
    (XI (XI (XI (XI (XI (XO (XI (XO (XO (XI (XO (XI (XO (XI (XI (XO (XO (XI
    (XI (XO (XI (XI (XO (XO (XO (XI (XO (XO (XI (XI (XO (XO (XO (XI (XO (XI
    (XO (XI (XO (XI (XO (XI (XO (XI (XO (XI (XI (XI (XO (XO (XO (XO (XI (XO
    (XO (XI (XI (XO (XI (XO (XI (XO (XI
    XH)))))))))))))))))))))))))))))))))))))))))))))))))))))))))))))))) :: ((Npos
    (XO (XI (XI (XI (XO (XO (XO (XI (XI (XI (XO (XO (XO (XO (XI (XI (XI (XI
    (XI (XO (XI (XO (XO (XI (XI (XO (XI (XO (XO (XI (XO (XI (XO (XO (XI (XO
    (XO (XO (XI (XO (XO (XI (XI (XO (XI (XO (XI (XO (XO (XO (XO (XI (XO (XO
    (XI (XI (XO (XI (XI (XO
    XH))))))))))))))))))))))))))))))))))))))))))))))))))))))))))))) :: ((Npos
    (XO (XO (XI (XO (XO (XO (XO (XI (XO (XO (XO (XI (XI (XO (XI (XI (XI (XO
    (XI (XO (XI (XO (XO (XI (XO (XO (XO (XI (XO (XO (XO (XI (XI (XI (XI (XO
    (XO (XI (XI (XO (XO (XI (XI (XI (XI (XI (XO (XO (XO (XO (XI (XO (XO (XO
    (XO (XI (XI (XO (XI (XI (XI (XI
    XH))))))))))))))))))))))))))))))))))))))))))))))))))))))))))))))) :: ((Npos
    (XI (XO (XI (XO (XO (XO (XI (XO (XO (XI (XI (XO (XI (XI (XO (XI (XI (XO
    (XO (XO (XO (XO (XO (XI (XI (XI (XO (XO (XI (XI (XO (XO (XO (XI (XO (XO
    (XI (XO (XI (XO (XI (XO (XO (XO (XI (XI (XI (XO (XO (XO (XI (XO (XO (XO
    (XO (XI (XI (XI (XO (XI (XO (XO (XI
    XH)))))))))))))))))))))))))))))))))))))))))))))))))))))))))))))))) :: ((Npos
    (XO (XO (XI (XI (XO (XO (XI (XI (XO (XO (XO (XO (XI (XO (XI (XI (XI (XO
    (XI (XO (XI (XI (XO (XI (XI (XI (XI (XO (XO (XI (XI (XO (XO (XI (XO (XO
    (XO (XI (XI (XI (XO (XI (XO (XO (XI (XO (XO (XI (XO (XI (XO (XO (XO (XI
    (XI (XI (XO (XI (XO (XI (XI
    XH)))))))))))))))))))))))))))))))))))))))))))))))))))))))))))))) :: ((Npos
    (XO (XO (XI (XO (XO (XI (XO (XI (XO (XI (XI (XO (XI (XI (XO (XI (XI (XO
    (XI (XI (XI (XI (XI (XO (XO (XI (XO (XO (XI (XO (XO (XI (XI (XO (XO (XO
    (XO (XO (XO (XO (XI (XO (XO (XI (XO (XO (XO (XI (XO (XO (XO (XO (XI (XO
    (XO (XO (XO (XI (XO (XI (XO (XO
    XH))))))))))))))))))))))))))))))))))))))))))))))))))))))))))))))) :: ((Npos
    (XO (XO (XO (XI (XI (XO (XO (XO (XI (XO (XI (XO (XI (XI (XI (XI (XO (XI
    (XO (XO (XO (XO (XI (XO (XO (XO (XI (XO (XI (XO (XI (XI (XI (XI (XO (XI
    (XI (XI (XO (XI (XO (XO (XI (XI (XO (XI (XI (XO (XI (XI (XI (XI (XO (XO
    (XO (XO (XI (XO (XO (XI (XO (XI (XO
    XH)))))))))))))))))))))))))))))))))))))))))))))))))))))))))))))))) :: [])))))))))))))))))))))))))))))))))))))))))))))))))))))))))))))))) :: (((Npos
    (XO (XI (XI (XI (XI (XO (XO (XO (XO (XO (XI (XI (XO (XO (XO (XI (XO (XO
    (XO (XO (XO (XO (XO (XO (XI (XI (XO (XI (XO (XO (XI (XI (XI (XO (XO (XI
    (XO (XO (XO (XI (XO (XI (XO (XI (XI (XI (XO (XI (XI (XI (XI (XO (XI (XO
    (XO (XI (XO (XI (XI (XI (XI (XO (XO
    XH)))))))))))))))))))))))))))))))))))))))))))))))))))))))))))))))) :: ((Npos
    (XI (XO (XI (XO (XO (XI (XO (XO (XO (XO (XI (XI (XI (XI (XO (XI (XO (XI
    (XI (XO (XI (XI (XO (XI (XI (XI (XI (XI (XI (XI (XI (XI (XI (XO (XI (XI
    (XI (XI (XI (XO (XI (XI (XI (XI (XI (XI (XO (XO (XO (XO (XI (XI (XI (XI
    (XI (XO (XO (XI (XO (XO (XI (XO
    XH))))))))))))))))))))))))))))))))))))))))))))))))))))))))))))))) :: ((Npos
    (XI (XI (XI (XO (XO (XO (XI (XO (XI (XI (XI (XI (XI (XO (XI (XI (XI (XO
    (XI (XO (XO (XI (XI (XO (XI (XO (XI (XI (XO (XO (XI (XO (XO (XO (XO (XO
    (XO (XO (XO (XI (XO (XI (XI (XO (XI (XI (XI (XI (XO (XI (XI (XO (XO (XI
    (XI (XO (XI (XO (XO (XO (XO (XO (XO
    XH)))))))))))))))))))))))))))))))))))))))))))))))))))))))))))))))) :: ((Npos
    (XO (XI (XO (XO (XI (XI (XI (XO (XO (XO (XI (XI (XO (XI (XO (XI (XO (XO
    (XI (XO (XI (XI (XO (XO (XO (XO (XO (XO (XI (XO (XI (XI (XI (XO (XO (XO
    (XI (XI (XO (XI (XI (XI (XO (XI (XI (XO (XO (XO (XO (XI (XI (XO (XO (XO
    (XI (XI (XI (XO (XO (XO (XO (XO (XI
    XH)))))))))))))))))))))))))))))))))))))))))))))))))))))))))))))))) :: ((Npos
    (XI (XI (XI (XO (XO (XI (XO (XI (XO (XO (XO (XO (XI (XI (XO (XO (XI (XO
    (XO (XO (XO (XI (XI (XI (XI (XO (XO (XO (XI (XO (XI (XO (XO (XO (XI (XO
    (XI (XO (XO (XO (XI (XO (XI (XO (XI (XO (XI (XI (XI (XO (XO (XI (XI (XI
    (XO (XO (XO (XO (XO (XO (XO (XO (XO
    XH)))))))))))))))))))))))))))))))))))))))))))))))))))))))))))))))) :: ((Npos
    (XO (XO (XO (XI (XI (XO (XO (XI (XO (XI (XI (XO (XO (XI (XI (XO (XI (XI
    (XI (XO (XO (XI (XI (XI (XO (XO (XI (XI (XI (XO (XO (XO (XI (XI (XI (XO
    (XI (XO (XO (XI (XO (XO (XO (XO (XI (XI (XI (XO (XI (XI (XO (XI (XO (XI
    (XI (XI (XI (XI (XO (XI
    XH))))))))))))))))))))))))))))))))))))))))))))))))))))))))))))) :: ((Npos
    (XO (XO (XO (XI (XI (XI (XI (XO (XO (XI (XI (XI (XO (XI (XO (XO (XI (XI
    (XO (XO (XO (XO (XO (XI (XO (XI (XO (XI (XO (XI (XO (XO (XI (XO (XI (XI
    (XI (XO (XI (XO (XO (XI (XO (XO (XO (XO (XI (XO (XO (XO (XO (XI (XO (XI
    (XO (XO (XO (XI (XO (XI (XO (XI
    XH))))))))))))))))))))))))))))))))))))))))))))))))))))))))))))))) :: ((Npos
    (XO (XO (XO (XO (XI (XO (XO (XO (XI (XI (XI (XO (XI (XI (XO (XI (XI (XO
    (XI (XO (XI (XI (XI (XI (XO (XO (XO (XO (XO (XO (XI (XO (XI (XO (XO (XI
    (XO (XI (XO (XI (XI (XO (XO (XI (XO (XI (XO (XO (XI (XI (XI (XI (XO (XI
    (XO (XO (XO (XI (XI (XI (XI (XO (XO
    XH)))))))))))))))))))))))))))))))))))))))))))))))))))))))))))))))) :: ((Npos
    (XO (XI (XO (XI (XI (XI (XO (XO (XI (XO (XO (XI (XO (XI (XO (XO (XI (XO
    (XI (XI (XO (XO (XO (XO (XI (XI (XO (XO (XO (XO (XI (XI (XO (XO (XO (XO
    (XO (XI (XI (XI (XI (XI (XO (XI (XO (XI (XI (XI (XI (XI (XI (XO (XO (XI
    (XI (XI (XI (XI (XO (XI (XI (XO (XI
    XH)))))))))))))))))))))))))))))))))))))))))))))))))))))))))))))))) :: ((Npos
    (XI (XI (XO (XI (XI (XO (XI (XO (XO (XO (XI (XI (XI (XI (XI (XI (XO (XI
    (XO (XO (XI (XI (XO (XI (XI (XO (XI (XO (XI (XO (XO (XI (XO (XI (XO (XI
    (XI (XO (XO (XO (XO (XO (XI (XI (XO (XO (XO (XI (XI (XO (XO (XO (XO (XI
    (XO (XO (XI (XI (XO (XI (XI (XI
    XH))))))))))))))))))))))))))))))))))))))))))))))))))))))))))))))) :: ((Npos
    (XO (XI (XI (XI (XI (XI (XO (XO (XO (XO (XO (XO (XI (XI (XI (XI (XO (XI
    (XI (XI (XO (XO (XI (XO (XI (XI (XO (XI (XI (XO (XO (XI (XO (XI (XI (XO
    (XI (XI (XO (XO (XO (XO (XO (XI (XO (XO (XI (XO (XO (XO (XI (XO (XI (XO
    (XO (XO (XI (XI (XO (XO (XI (XI (XI
    XH)))))))))))))))))))))))))))))))))))))))))))))))))))))))))))))))) :: ((Npos
    (XO (XO (XI (XO (XO (XI (XI (XO (XO (XO (XO (XO (XI (XO (XI (XO (XI (XO
    (XI (XO (XO (XI (XO (XI (XI (XI (XI (XO (XI (XO (XO (XO (XI (XO (XI (XI
    (XI (XI (XI (XI (XO (XO (XI (XI (XI (XO (XO (XO (XI (XO (XI (XI (XO (XI
    (XO (XO (XO (XI (XO (XO (XI (XO (XO
    XH)))))))))))))))))))))))))))))))))))))))))))))))))))))))))))))))) :: ((Npos
    (XI (XI (XO (XI (XO (XI (XO (XI (XO (XI (XI (XO (XI (XO (XO (XO (XO (XO
    (XO (XO (XI (XO (XI (XO (XO (XO (XI (XI (XO (XO (XI (XI (XO (XI (XI (XI
    (XI (XI (XI (XO (XI (XO (XI (XO (XO (XI (XI (XO (XO (XO (XI (XO (XO (XO
    (XI (XO (XO (XI (XO (XI (XO (XI (XO
    XH)))))))))))))))))))))))))))))))))))))))))))))))))))))))))))))))) :: ((Npos
    (XO (XI (XO (XI (XI (XO (XI (XO (XI (XI (XO (XO (XO (XI (XI (XI (XO (XO
    (XO (XO (XO (XI (XI (XO (XO (XO (XO (XI (XO (XI (XI (XO (XI (XI (XI (XO
    (XO (XI (XO (XI (XO (XO (XI (XI (XI (XO (XO (XI (XO (XO (XO (XO (XI (XI
    (XO (XO (XO (XI (XI
    XH)))))))))))))))))))))))))))))))))))))))))))))))))))))))))))) :: ((Npos
    (XO (XI (XI (XI (XI (XI (XO (XO (XI (XO (XI (XI (XO (XI (XI (XI (XI (XI
    (XO (XI (XO (XI (XO (XI (XI (XI (XI (XO (XO (XO (XI (XO (XI (XI (XO (XO
    (XO (XO (XO (XI (XI (XI (XI (XI (XI (XI (XI (XO (XO (XI (XO (XI (XI (XO
    (XI (XO (XO (XI (XO (XO (XI (XI (XO
    XH)))))))))))))))))))))))))))))))))))))))))))))))))))))))))))))))) :: ((Npos
    (XO (XO (XI (XO (XO (XO (XI (XO (XO (XO (XO (XI (XI (XI (XI (XO (XI (XI
    (XI (XI (XI (XO (XI (XO (XI (XO (XO (XO (XI (XI (XO (XI (XI (XI (XI (XI
    (XO (XO (XI (XO (XI (XO (XI (XI (XI (XI (XI (XO (XO (XO (XI (XO (XO (XO
    (XO (XI (XO (XO (XI (XO (XI (XO (XO
    XH)))))))))))))))))))))))))))))))))))))))))))))))))))))))))))))))) :: ((Npos
    (XI (XI (XI (XI (XI (XI (XO (XO (XO (XI (XO (XI (XO (XI (XI (XO (XI (XO
    (XI (XO (XO (XI (XO (XI (XO (XI (XI (XO (XI (XI (XO (XI (XI (XO (XO (XO
    (XI (XO (XO (XO (XO (XO (XO (XI (XO (XO (XI (XI (XO (XO (XO (XO (XO (XI
    (XI (XO (XO (XI (XO (XI (XI (XO (XI
    XH)))))))))))))))))))))))))))))))))))))))))))))))))))))))))))))))) :: ((Npos
    (XI (XI (XO (XO (XI (XO (XI (XO (XI (XI (XI (XI (XO (XO (XI (XI (XO (XO
    (XO (XO (XO (XI (XO (XI (XI (XO (XI (XI (XI (XI (XI (XI (XI (XI (XI (XI
    (XI (XI (XI (XI (XI (XI (XI (XO (XI (XI (XI (XI (XO (XO (XO (XI (XI (XO
    (XI (XI (XO
    XH)))))))))))))))))))))))))))))))))))))))))))))))))))))))))) :: ((Npos
    (XI (XI (XO (XO (XO (XO (XI (XI (XO (XO (XI (XO (XI (XO (XO (XO (XO (XO
    (XI (XO (XI (XO (XO (XO (XI (XO (XO (XI (XI (XO (XI (XO (XO (XO (XI (XO
    (XO (XI (XI (XI (XI (XO (XI (XI (XI (XI (XO (XI (XI (XI (XO (XO (XO (XO
    (XO (XI (XI (XI (XI (XI (XO (XI (XO
    XH)))))))))))))))))))))))))))))))))))))))))))))))))))))))))))))))) :: ((Npos
    (XO (XO (XO (XO (XI (XI (XI (XI (XO (XO (XO (XO (XI (XO (XI (XI (XO (XO
    (XI (XO (XO (XI (XO (XI (XI (XI (XI (XO (XI (XO (XO (XO (XO (XI (XI (XO
    (XI (XO (XI (XO (XI (XI (XO (XI (XI (XI (XO (XO (XO (XO (XI (XO (XO (XI
    (XI (XI (XO (XI (XI (XI (XO (XI (XO
    XH)))))))))))))))))))))))))))))))))))))))))))))))))))))))))))))))) :: ((Npos
    (XO (XO (XO (XO (XO (XO (XO (XO (XO (XI (XI (XO (XO (XO (XO (XI (XI (XI
    (XO (XI (XI (XI (XI (XO (XO (XI (XI (XO (XI (XO (XO (XO (XI (XO (XO (XO
    (XI (XO (XO (XI (XO (XI (XI (XI (XI (XI (XO (XO (XI (XI (XI (XO (XI (XI
    (XO (XI (XO (XO (XO (XI (XI (XI
    XH))))))))))))))))))))))))))))))))))))))))))))))))))))))))))))))) :: ((Npos
    (XO (XO (XI (XI (XO (XI (XO (XI (XO (XI (XI (XI (XO (XI (XO (XO (XI (XI
    (XO (XI (XO (XO (XO (XO (XO (XI (XO (XO (XO (XI (XI (XI (XO (XO (XO (XO
    (XO (XI (XO (XO (XO (XI (XO (XI (XO (XI (XO (XO (XI (XI (XI (XO (XI (XI
    (XI (XO (XI (XO (XO (XO (XI (XO (XO
    XH)))))))))))))))))))))))))))))))))))))))))))))))))))))))))))))))) :: ((Npos
    (XO (XI (XO (XO (XO (XO (XO (XO (XO (XO (XO (XO (XI (XO (XO (XI (XO (XO
    (XI (XI (XO (XI (XI (XO (XO (XI (XO (XI (XI (XI (XI (XI (XI (XO (XI (XI
    (XI (XI (XO (XI (XI (XI (XO (XI (XO (XI (XI (XI (XI (XO (XO (XI (XI (XO
    (XI (XI (XI (XO (XI (XI (XO (XO (XI
    XH)))))))))))))))))))))))))))))))))))))))))))))))))))))))))))))))) :: ((Npos
    (XI (XO (XO (XO (XI (XO (XI (XI (XO (XO (XO (XI (XO (XO (XO (XI (XO (XI
    (XO (XO (XO (XO (XO (XI (XO (XI (XO (XO (XI (XO (XO (XI (XO (XO (XO (XI
    (XI (XI (XO (XI (XO (XI (XI (XO (XO (XO (XI (XI (XI (XO (XO (XO (XI (XI
    (XI (XO (XO (XO (XO (XO (XI (XO
    XH))))))))))))))))))))))))))))))))))))))))))))))))))))))))))))))) :: ((Npos
    (XI (XO (XI (XI (XI (XO (XI (XO (XI (XO (XO (XI (XI (XI (XO (XI (XO (XI
    (XI (XI (XI (XI (XI (XI (XO (XI (XI (XI (XO (XO (XO (XO (XI (XI (XO (XO
    (XI (XI (XI (XI (XO (XO (XO (XI (XI (XO (XO (XI (XI (XO (XO (XI (XO (XI
    (XO (XO (XO (XI (XO (XI (XO (XI
    XH))))))))))))))))))))))))))))))))))))))))))))))))))))))))))))))) :: ((Npos
    (XO (XI (XO (XI (XO (XI (XI (XI (XI (XI (XI (XI (XO (XO (XO (XI (XO (XI
    (XO (XI (XO (XI (XO (XI (XO (XO (XI (XI (XO (XI (XO (XI (XI (XO (XO (XI
    (XI (XO (XO (XI (XO (XO (XI (XI (XI (XO (XI (XI (XO (XO (XI (XO (XI (XI
    (XI (XO (XI (XI (XI (XO (XI (XI
    XH))))))))))))))))))))))))))))))))))))))))))))))))))))))))))))))) :: ((Npos
    (XI (XI (XO (XI (XO (XO (XI (XO (XI (XO (XO (XO (XI (XI (XO (XO (XI (XO
    (XI (XO (XI (XO (XI (XI (XI (XO (XO (XI (XO (XO (XO (XO (XO (XO (XO (XI
    (XO (XI (XI (XO (XO (XO (XO (XI (XO (XO (XI (XI (XO (XO (XI (XO (XO (XO
    (XI (XI (XO (XO (XI (XI (XO (XI (XI
    XH)))))))))))))))))))))))))))))))))))))))))))))))))))))))))))))))) :: ((Npos
    (XI (XI (XO (XO (XI (XI (XO (XI (XI (XO (XI (XI (XI (XO (XO (XI (XI (XI
    (XO (XO (XO (XO (XO (XI (XO (XO (XO (XO (XO (XI (XO (XI (XO (XI (XO (XO
    (XI (XI (XI (XO (XO (XI (XI (XO (XO (XI (XO (XI (XO (XI (XO (XI (XI (XO
    (XI (XO (XO (XI (XI (XO (XO (XO
    XH))))))))))))))))))))))))))))))))))))))))))))))))))))))))))))))) :: ((Npos
    (XI (XO (XI (XO (XO (XO (XI (XI (XI (XI (XI (XO (XO (XI (XI (XO (XO (XI
    (XO (XO (XI (XI (XI (XI (XO (XO (XI (XO (XI (XO (XO (XO (XI (XO (XO (XO
    (XO (XO (XO (XO (XO (XI (XI (XI (XI (XI (XO (XO (XI (XI (XO (XO (XI (XO
    (XO (XO (XO (XO (XI (XO (XO (XI (XI
    XH)))))))))))))))))))))))))))))))))))))))))))))))))))))))))))))))) :: ((Npos
    (XO (XO (XO (XI (XI (XI (XI (XI (XO (XI (XO (XO (XO (XI (XO (XO (XO (XO
    (XO (XO (XI (XO (XO (XI (XI (XI (XO (XI (XO (XO (XI (XI (XI (XO (XI (XO
    (XO (XI (XI (XO (XO (XO (XO (XO (XI (XI (XO (XO (XO (XI (XI (XI (XI (XO
    (XI (XO (XO (XI (XO (XI (XO (XO
    XH))))))))))))))))))))))))))))))))))))))))))))))))))))))))))))))) :: ((Npos
    (XO (XO (XI (XO (XI (XO (XO (XI (XI (XO (XO (XI (XO (XO (XI (XO (XI (XO
    (XO (XI (XO (XI (XI (XO (XI (XI (XO (XO (XO (XI (XI (XI (XI (XI (XO (XO
    (XI (XI (XO (XO (XI (XO (XO (XO (XI (XI (XI (XI (XI (XI (XO (XI (XO (XO
    (XO (XO (XO (XO (XI (XI (XO (XO
    XH))))))))))))))))))))))))))))))))))))))))))))))))))))))))))))))) :: ((Npos
    (XI (XI (XI (XO (XI (XI (XO (XI (XO (XO (XI (XO (XO (XI (XI (XO (XO (XO
    (XO (XO (XO (XI (XO (XI (XO (XO (XI (XO (XI (XO (XI (XI (XI (XI (XO (XO
    (XI (XI (XO (XO (XI (XO (XO (XI (XO (XI (XO (XI (XI (XO (XO (XI (XO (XO
    (XI (XO (XO (XI (XI (XO (XI (XO
    XH))))))))))))))))))))))))))))))))))))))))))))))))))))))))))))))) :: ((Npos
    (XI (XI (XI (XI (XI (XI (XO (XO (XI (XO (XI (XO (XI (XI (XO (XO (XO (XO
    (XI (XI (XI (XO (XO (XI (XI (XO (XI (XO (XI (XO (XI (XO (XI (XO (XI (XO
    (XO (XI (XO (XI (XI (XO (XI (XI (XO (XI (XI (XO (XI (XO (XI (XO (XO (XO
    (XI (XO (XI (XO (XI (XO (XO (XO (XO
    XH)))))))))))))))))))))))))))))))))))))))))))))))))))))))))))))))) :: ((Npos
    (XI (XO (XO (XI (XO (XI (XI (XO (XI (XI (XO (XI (XI (XO (XO (XI (XO (XO
    (XO (XI (XO (XI (XO (XI (XO (XI (XI (XI (XI (XO (XO (XI (XO (XO (XI (XO
    (XI (XO (XO (XI (XO (XO (XI (XI (XI (XO (XO (XI (XI (XO (XI (XO (XO (XI
    (XO (XI (XI (XO (XO (XO (XI (XI (XO
    XH)))))))))))))))))))))))))))))))))))))))))))))))))))))))))))))))) :: ((Npos
    (XO (XO (XO (XO (XO (XI (XI (XI (XO (XI (XI (XO (XI (XI (XO (XO (XI (XO
    (XO (XO (XI (XO (XO (XI (XI (XO (XI (XI (XO (XI (XO (XI (XO (XO (XI (XO
    (XO (XO (XI (XO (XI (XO (XO (XO (XO (XI (XI (XI (XO (XI (XI (XI (XO (XO
    (XI (XO (XO (XI (XI (XI (XI (XI (XI
    XH)))))))))))))))))))))))))))))))))))))))))))))))))))))))))))))))) :: ((Npos
    (XO (XO (XO (XI (XO (XO (XO (XI (XO (XI (XO (XO (XI (XI (XO (XO (XO (XO
    (XO (XI (XI (XO (XI (XI (XO (XO (XI (XI (XO (XO (XI (XO (XI (XI (XO (XI
    (XO (XI (XO (XI (XI (XO (XO (XO (XO (XI (XI (XI (XI (XO (XI (XO (XI (XO
    (XI (XO (XI (XO (XI (XI (XI (XI
    XH))))))))))))))))))))))))))))))))))))))))))))))))))))))))))))))) :: ((Npos
    (XO (XO (XO (XI (XI (XI (XI (XI (XI (XI (XO (XI (XO (XO (XI (XO (XO (XO
    (XI (XI (XO (XI (XI (XI (XO (XI (XO (XO (XO (XO (XI (XO (XO (XO (XI (XI
    (XI (XI (XO (XO (XI (XI (XI (XI (XI (XI (XO (XO (XI (XO (XI (XO (XO (XI
    (XO (XI (XI (XI (XI (XI (XO (XI
    XH))))))))))))))))))))))))))))))))))))))))))))))))))))))))))))))) :: ((Npos
    (XO (XI (XI (XO (XO (XI (XI (XO (XI (XI (XO (XO (XI (XO (XI (XI (XO (XI
    (XO (XI (XO (XO (XI (XI (XO (XI (XO (XI (XO (XI (XI (XI (XO (XI (XO (XI
    (XI (XI (XO (XO (XI (XO (XO (XO (XI (XO (XI (XI (XI (XO (XI (XI (XI (XI
    (XI (XO (XO (XO (XI (XO (XO
    XH)))))))))))))))))))))))))))))))))))))))))))))))))))))))))))))) :: ((Npos
    (XO (XI (XI (XI (XO (XO (XO (XO (XO (XO (XO (XI (XO (XO (XO (XO (XO (XO
    (XI (XI (XI (XI (XI (XI (XI (XO (XO (XI (XO (XO (XI (XO (XO (XO (XI (XI
    (XO (XI (XI (XO (XO (XO (XO (XO (XO (XO (XI (XI (XO (XO (XO (XI (XI (XO
    (XO (XI (XO (XO (XO (XI (XI (XI (XO
    XH)))))))))))))))))))))))))))))))))))))))))))))))))))))))))))))))) :: ((Npos
    (XI (XI (XO (XI (XO (XI (XO (XI (XI (XO (XI (XO (XI (XI (XO (XO (XO (XO
    (XO (XO (XI (XI (XI (XI (XI (XO (XI (XO (XI (XI (XI (XI (XO (XO (XO (XI
    (XI (XO (XO (XO (XI (XI (XO (XI (XI (XI (XI (XI (XO (XO (XI (XI (XO (XO
    (XO (XO (XI (XO (XI (XI (XO (XO
    XH))))))))))))))))))))))))))))))))))))))))))))))))))))))))))))))) :: ((Npos
    (XO (XO (XO (XO (XI (XO (XI (XO (XI (XI (XO (XO (XI (XO (XI (XO (XI (XO
    (XO (XI (XI (XI (XO (XI (XI (XO (XI (XO (XO (XO (XI (XO (XO (XI (XI (XO
    (XO (XI (XO (XI (XO (XI (XI (XO (XO (XI (XO (XI (XI (XI (XO (XI (XO (XI
    (XI (XI (XO (XI (XO (XI (XI (XI (XI
    XH)))))))))))))))))))))))))))))))))))))))))))))))))))))))))))))))) :: ((Npos
    (XO (XO (XI (XO (XO (XO (XI (XI (XO (XI (XO (XI (XO (XI (XI (XI (XO (XI
    (XO (XI (XI (XI (XI (XO (XO (XI (XO (XO (XI (XO (XI (XO (XI (XI (XI (XI
    (XO (XO (XO (XI (XI (XO (XO (XO (XI (XO (XO (XI (XI (XI (XI (XO (XI (XI
    (XI (XO (XI (XO (XO (XI (XI
    XH)))))))))))))))))))))))))))))))))))))))))))))))))))))))))))))) :: ((Npos
    (XI (XO (XO (XO (XI (XI (XO (XI (XI (XI (XO (XI (XI (XI (XO (XI (XO (XO
    (XI (XO (XO (XI (XI (XO (XI (XI (XO (XI (XO (XI (XI (XO (XI (XO (XI (XO
    (XI (XO (XO (XO (XI (XO (XO (XO (XI (XO (XI (XO (XO (XI (XO (XO (XO (XO
    (XI (XO (XI (XO (XO (XI (XI (XO
    XH))))))))))))))))))))))))))))))))))))))))))))))))))))))))))))))) :: ((Npos
    (XO (XI (XO (XO (XI (XI (XI (XO (XI (XI (XI (XI (XI (XO (XO (XI (XI (XO
    (XI (XO (XI (XI (XI (XI (XI (XO (XO (XI (XO (XI (XO (XI (XI (XO (XO (XO
    (XO (XO (XO (XI (XO (XI (XO (XI (XI (XI (XI (XO (XO (XO (XI (XO (XO (XI
    (XO (XO (XI (XO (XI (XI (XO (XI (XO
    XH)))))))))))))))))))))))))))))))))))))))))))))))))))))))))))))))) :: ((Npos
    (XO (XI (XO (XO (XI (XO (XO (XI (XI (XO (XO (XI (XI (XI (XO (XO (XO (XI
    (XO (XO (XI (XI (XO (XO (XI (XI (XI (XO (XI (XI (XO (XO (XO (XI (XO (XO
    (XO (XI (XO (XI (XI (XO (XI (XI (XO (XI (XO (XI (XI (XO (XI (XO (XI (XO
    (XO (XI (XO (XO (XO (XO (XI (XO (XO
    XH)))))))))))))))))))))))))))))))))))))))))))))))))))))))))))))))) :: ((Npos
    (XO (XI (XI (XO (XO (XI (XO (XO (XI (XI (XO (XO (XI (XO (XO (XO (XO (XO
    (XO (XI (XI (XO (XO (XO (XI (XI (XI (XI (XO (XI (XI (XI (XO (XO (XI (XO
    (XI (XO (XI (XO (XO (XO (XO (XO (XO (XI (XO (XI (XI (XO (XI (XO (XI (XO
    (XO (XI (XO (XO (XI (XO (XO (XI (XI
    XH)))))))))))))))))))))))))))))))))))))))))))))))))))))))))))))))) :: ((Npos
    (XI (XO (XI (XI (XO (XI (XO (XO (XO (XO (XO (XO (XI (XO (XO (XI (XO (XO
    (XI (XO (XI (XO (XO (XI (XO (XO (XO (XO (XI (XO (XO (XI (XO (XI (XO (XO
    (XO (XI (XO (XI (XI (XI (XO (XO (XI (XO (XO (XO (XI (XO (XO (XO (XI (XI
    (XI (XO (XI (XI (XI (XI (XO
    XH)))))))))))))))))))))))))))))))))))))))))))))))))))))))))))))) :: ((Npos
    (XI (XO (XI (XO (XI (XI (XO (XO (XO (XO (XO (XI (XO (XI (XO (XO (XO (XI
    (XO (XO (XO (XO (XI (XI (XO (XI (XO (XO (XI (XI (XI (XO (XO (XO (XI (XI
    (XO (XI (XI (XI (XI (XO (XO (XO (XI (XO (XO (XO (XO (XO (XO (XO (XO (XO
    (XI (XI (XO (XI (XO (XO (XO (XI (XO
    XH)))))))))))))))))))))))))))))))))))))))))))))))))))))))))))))))) :: ((Npos
    (XO (XI (XI (XI (XI (XO (XI (XO (XO (XO (XO (XO (XO (XO (XO (XO (XI (XO
    (XO (XO (XO (XO (XI (XI (XO (XI (XI (XO (XI (XI (XI (XO (XO (XO (XO (XI
    (XI (XI (XO (XO (XO (XI (XO (XO (XI (XI (XO (XI (XI (XO (XO (XO (XI (XI
    (XI (XO (XO (XI (XO (XI
    XH))))))))))))))))))))))))))))))))))))))))))))))))))))))))))))) :: ((Npos
    (XI (XI (XI (XO (XI (XI (XO (XI (XO (XI (XI (XO (XI (XI (XI (XI (XI (XO
    (XO (XI (XI (XO (XI (XO (XI (XO (XI (XO (XI (XO (XO (XO (XO (XI (XO (XI
    (XO (XO (XI (XI (XI (XI (XI (XI (XI (XI (XO (XI (XO (XO (XO (XO (XO (XO
    (XO (XI (XI
    XH)))))))))))))))))))))))))))))))))))))))))))))))))))))))))) :: ((Npos
    (XO (XI (XI (XO (XI (XI (XI (XO (XO (XO (XI (XI (XO (XI (XI (XI (XI (XI
    (XO (XO (XO (XI (XO (XI (XI (XI (XI (XI (XO (XO (XO (XI (XI (XO (XI (XI
    (XI (XO (XI (XI (XI (XO (XO (XI (XO (XI (XI (XI (XO (XI (XI (XI (XO (XI
    (XO (XI (XO (XI (XO (XO (XO (XO (XI
    XH)))))))))))))))))))))))))))))))))))))))))))))))))))))))))))))))) :: ((Npos
    (XI (XO (XO (XO (XO (XI (XO (XI (XI (XI (XO (XO (XI (XO (XO (XI (XI (XO
    (XO (XI (XI (XI (XI (XO (XO (XO (XO (XO (XO (XO (XI (XI (XI (XO (XI (XO
    (XO (XI (XI (XO (XI (XO (XI (XO (XI (XO (XI (XO (XO (XO (XI (XO (XI (XI
    (XI (XI (XI (XI (XO (XO (XI (XO
    XH))))))))))))))))))))))))))))))))))))))))))))))))))))))))))))))) :: ((Npos
    (XO (XO (XI (XI (XO (XO (XO (XI (XO (XO (XI (XO (XO (XI (XO (XO (XI (XO
    (XO (XO (XO (XO (XI (XI (XI (XI (XO (XI (XI (XI (XI (XO (XO (XI (XI (XO
    (XI (XO (XO (XI (XO (XI (XI (XO (XO (XI (XO (XO (XI (XI (XI (XO (XO (XI
    (XO (XO (XI (XI (XO (XO
    XH))))))))))))))))))))))))))))))))))))))))))))))))))))))))))))) :: ((Npos
    (XO (XO (XO (XI (XO (XO (XI (XO (XO (XO (XI (XI (XI (XI (XO (XI (XO (XI
    (XI (XI (XI (XI (XI (XO (XO (XO (XI (XO (XO (XI (XO (XO (XI (XI (XI (XI
    (XO (XO (XO (XI (XO (XO (XI (XI (XI (XI (XI (XO (XO (XI (XO (XO (XI (XO
    (XO (XO (XO (XI (XO (XO (XO (XO (XO
    XH)))))))))))))))))))))))))))))))))))))))))))))))))))))))))))))))) :: ((Npos
    (XO (XO (XO (XO (XI (XI (XO (XO (XO (XO (XO (XI (XO (XI (XI (XO (XI (XO
    (XO (XI (XI (XI (XO (XI (XI (XI (XI (XO (XI (XI (XI (XO (XO (XI (XI (XI
    (XI (XI (XI (XO (XO (XO (XO (XI (XO (XO (XI (XI (XO (XI (XI (XO (XO (XI
    (XI (XI (XI (XO (XI (XI (XO (XO
    XH))))))))))))))))))))))))))))))))))))))))))))))))))))))))))))))) :: ((Npos
    (XO (XO (XO (XO (XO (XO (XO (XO (XO (XO (XI (XI (XI (XO (XI (XI (XO (XI
    (XI (XO (XI (XO (XO (XO (XI (XO (XO (XI (XO (XO (XO (XO (XO (XI (XO (XI
    (XI (XI (XO (XO (XI (XI (XI (XI (XO (XI (XO (XI (XO (XI (XI (XI (XI (XI
    (XO (XI (XI (XO (XI (XO (XO (XI
    XH))))))))))))))))))))))))))))))))))))))))))))))))))))))))))))))) :: ((Npos
    (XI (XO (XI (XO (XI (XO (XO (XO (XI (XI (XI (XO (XO (XI (XO (XI (XI (XO
    (XI (XI (XI (XI (XO (XI (XO (XI (XO (XI (XI (XO (XO (XO (XO (XO (XI (XO
    (XI (XO (XO (XI (XI (XO (XI (XO (XO (XI (XI (XI (XI (XO (XO (XI (XO (XI
    (XO (XO (XI (XI (XO (XI (XI (XO
    XH))))))))))))))))))))))))))))))))))))))))))))))))))))))))))))))) :: ((Npos
    (XI (XI (XI (XI (XO (XO (XO (XO (XO (XO (XI (XI (XI (XO (XO (XI (XI (XI
    (XO (XO (XI (XI (XO (XI (XO (XO (XO (XO (XI (XO (XO (XI (XI (XI (XI (XI
    (XI (XO (XI (XI (XI (XO (XO (XO (XO (XI (XI (XO (XO (XO (XO (XO (XI (XO
    (XO (XI (XO (XO (XI (XO (XI (XO (XI
    XH)))))))))))))))))))))))))))))))))))))))))))))))))))))))))))))))) :: ((Npos
    (XI (XI (XO (XO (XO (XO (XO (XO (XO (XO (XI (XO (XO (XO (XO (XI (XO (XI
    (XI (XO (XO (XI (XO (XO (XI (XO (XO (XO (XO (XI (XO (XO (XI (XO (XO (XO
    (XI (XI (XI (XO (XO (XO (XO (XO (XO (XI (XI (XI (XI (XO (XI (XI (XO (XI
    (XO (XO (XI (XI (XI (XO (XO (XO (XI
    XH)))))))))))))))))))))))))))))))))))))))))))))))))))))))))))))))) :: ((Npos
    (XI (XO (XO (XI (XI (XI (XI (XO (XO (XI (XI (XI (XI (XI (XI (XI (XI (XO
    (XI (XI (XI (XI (XO (XO (XI (XO (XO (XO (XO (XO (XI (XO (XO (XO (XO (XO
    (XI (XI (XI (XO (XO (XI (XO (XI (XI (XI (XI (XO (XI (XO (XO (XI (XI (XO
    (XO (XO (XO (XI (XO (XO (XI (XO (XI
    XH)))))))))))))))))))))))))))))))))))))))))))))))))))))))))))))))) :: ((Npos
    (XO (XI (XI (XO (XI (XO (XI (XO (XO (XO (XI (XI (XO (XI (XI (XI (XO (XI
    (XO (XI (XO (XO (XI (XO (XO (XI (XI (XO (XI (XO (XO (XO (XO (XI (XO (XO
    (XO (XO (XO (XO (XO (XI (XI (XI (XO (XO (XI (XI (XO (XO (XI (XO (XI (XI
    (XO (XI (XO (XO (XO
    XH)))))))))))))))))))))))))))))))))))))))))))))))))))))))))))) :: ((Npos
    (XI (XO (XO (XO (XO (XO (XI (XI (XI (XI (XI (XI (XI (XI (XO (XO (XO (XI
    (XO (XI (XO (XO (XO (XO (XO (XI (XO (XO (XI (XI (XO (XI (XO (XI (XI (XI
    (XI (XO (XI (XI (XI (XO (XO (XI (XO (XO (XI (XI (XO (XI (XO (XI (XO (XO
    (XO (XI (XI (XO (XO (XI (XI (XO (XI
    XH)))))))))))))))))))))))))))))))))))))))))))))))))))))))))))))))) :: ((Npos
    (XO (XI (XI (XI (XO (XO (XO (XI (XI (XI (XO (XI (XI (XO (XI (XO (XI (XO
    (XI (XI (XI (XI (XO (XI (XI (XI (XO (XI (XI (XO (XO (XI (XI (XI (XI (XO
    (XO (XO (XO (XO (XI (XI (XI (XI (XI (XI (XI (XO (XI (XI (XI (XO (XI (XI
    (XI (XO (XI (XI (XO (XO (XI (XI (XO
    XH)))))))))))))))))))))))))))))))))))))))))))))))))))))))))))))))) :: ((Npos
    (XO (XO (XO (XI (XO (XO (XI (XI (XO (XI (XO (XO (XI (XO (XO (XI (XI (XI
    (XI (XI (XO (XO (XI (XO (XO (XO (XI (XO (XO (XO (XI (XO (XI (XO (XI (XI
    (XO (XI (XI (XI (XI (XO (XI (XI (XI (XI (XI (XI (XO (XI (XO (XI (XO (XI
    (XO (XO (XI (XO (XO (XI (XO (XO (XI
    XH)))))))))))))))))))))))))))))))))))))))))))))))))))))))))))))))) :: [])))))))))))))))))))))))))))))))))))))))))))))))))))))))))))))))) :: (((Npos
    (XI (XO (XI (XO (XO (XI (XO (XO (XI (XO (XO (XO (XO (XO (XO (XO (XI (XI
    (XI (XI (XI (XI (XI (XO (XI (XI (XI (XO (XI (XO (XO (XO (XI (XI (XO (XO
    (XI (XO (XI (XO (XI (XI (XI (XI (XO (XO (XI (XO (XI (XI (XO (XI (XI (XI
    (XO (XO (XO (XO (XI (XI (XO (XO (XO
    XH)))))))))))))))))))))))))))))))))))))))))))))))))))))))))))))))) :: ((Npos
    (XO (XI (XI (XI (XO (XO (XI (XO (XI (XO (XI (XI (XI (XI (XI (XI (XI (XO
    (XI (XI (XI (XI (XO (XO (XI (XO (XI (XI (XI (XO (XO (XO (XI (XI (XI (XI
    (XI (XI (XI (XO (XI (XO (XI (XI (XI (XI (XO (XI (XO (XO (XI (XO (XO (XO
    (XI (XI (XI (XI (XO (XO (XO (XO (XI
    XH)))))))))))))))))))))))))))))))))))))))))))))))))))))))))))))))) :: ((Npos
    (XI (XI (XI (XO (XO (XI (XO (XI (XI (XI (XO (XI (XI (XI (XO (XO (XO (XO
    (XO (XO (XO (XI (XI (XI (XI (XO (XI (XI (XI (XI (XO (XO (XI (XO (XI (XO
    (XI (XI (XI (XI (XI (XI (XO (XI (XO (XI (XI (XO (XI (XI (XO (XI (XI (XI
    (XI (XI (XI (XI (XI (XI (XI (XI
    XH))))))))))))))))))))))))))))))))))))))))))))))))))))))))))))))) :: ((Npos
    (XI (XO (XO (XI (XI (XI (XO (XO (XO (XI (XI (XO (XO (XI (XO (XO (XI (XI
    (XO (XO (XO (XO (XI (XO (XI (XI (XO (XI (XI (XO (XI (XO (XI (XO (XI (XO
    (XI (XO (XO (XO (XI (XI (XI (XI (XI (XI (XI (XI (XI (XO (XO (XO (XO (XI
    (XI (XI (XO (XO (XO (XO (XI (XI (XO
    XH)))))))))))))))))))))))))))))))))))))))))))))))))))))))))))))))) :: ((Npos
    (XO (XI (XO (XI (XO (XO (XO (XO (XI (XO (XI (XI (XI (XO (XI (XO (XO (XI
    (XI (XO (XO (XO (XO (XO (XO (XO (XO (XO (XO (XI (XO (XO (XO (XI (XO (XO
    (XI (XI (XI (XO (XO (XO (XI (XI (XI (XO (XO (XO (XO (XO (XI (XO (XI (XI
    (XI (XO (XO (XO (XI (XI (XI (XO (XO
    XH)))))))))))))))))))))))))))))))))))))))))))))))))))))))))))))))) :: ((Npos
    (XO (XO (XO (XO (XI (XI (XI (XO (XI (XO (XO (XI (XO (XO (XI (XO (XI (XO
    (XI (XO (XO (XO (XO (XI (XO (XI (XI (XI (XO (XO (XO (XO (XI (XI (XO (XI
    (XO (XI (XO (XI (XI (XO (XO (XO (XO (XO (XO (XI (XO (XO (XO (XI (XI (XO
    (XI (XO (XI (XO (XO (XO (XO (XI (XI
    XH)))))))))))))))))))))))))))))))))))))))))))))))))))))))))))))))) :: ((Npos
    (XO (XI (XO (XI (XI (XI (XO (XI (XI (XI (XO (XI (XO (XI (XO (XO (XO (XI
    (XO (XI (XI (XI (XO (XO (XO (XO (XI (XO (XO (XO (XO (XI (XO (XO (XO (XI
    (XI (XI (XI (XI (XI (XO (XO (XO (XO (XO (XI (XI (XO (XI (XI (XI (XO (XO
    (XO (XI (XI (XO (XI (XI (XO (XO (XI
    XH)))))))))))))))))))))))))))))))))))))))))))))))))))))))))))))))) :: ((Npos
    (XO (XO (XI (XI (XO (XO (XI (XO (XO (XI (XI (XO (XO (XO (XI (XO (XI (XI
    (XI (XO (XI (XO (XI (XI (XO (XI (XI (XO (XO (XO (XO (XO (XO (XO (XI (XO
    (XO (XI (XO (XO (XO (XO (XI (XI (XI (XO (XO (XO (XI (XO (XO (XO (XO (XO
    (XO (XO (XO (XO (XO (XO (XO (XO
    XH))))))))))))))))))))))))))))))))))))))))))))))))))))))))))))))) :: ((Npos
    (XO (XO (XI (XO (XI (XI (XI (XI (XI (XO (XI (XI (XO (XO (XO (XI (XI (XO
    (XO (XI (XO (XO (XO (XO (XI (XI (XI (XI (XO (XO (XO (XO (XO (XI (XI (XO
    (XO (XI (XO (XI (XI (XO (XO (XI (XI (XO (XO (XO (XI (XO (XO (XI (XO (XI
    (XI (XO (XI (XI (XI (XI (XI (XO
    XH))))))))))))))))))))))))))))))))))))))))))))))))))))))))))))))) :: ((Npos
    (XO (XO (XO (XO (XI (XO (XO (XO (XI (XO (XI (XI (XO (XO (XI (XI (XI (XI
    (XI (XI (XO (XO (XI (XI (XO (XO (XI (XI (XI (XI (XI (XO (XI (XO (XO (XI
    (XO (XO (XO (XI (XI (XI (XO (XO (XO (XO (XO (XI (XI (XI (XO (XO (XO (XI
    (XI (XI (XI (XI (XO (XI (XI (XI (XI
    XH)))))))))))))))))))))))))))))))))))))))))))))))))))))))))))))))) :: ((Npos
    (XO (XO (XI (XI (XI (XI (XI (XI (XI (XO (XI (XI (XO (XI (XI (XO (XI (XO
    (XI (XO (XO (XO (XI (XI (XO (XO (XI (XI (XO (XO (XI (XO (XI (XO (XI (XI
    (XI (XI (XO (XI (XI (XO (XO (XO (XO (XI (XI (XI (XO (XO (XI (XI (XI (XO
    (XI (XO (XI (XI (XI (XI (XO
    XH)))))))))))))))))))))))))))))))))))))))))))))))))))))))))))))) :: ((Npos
    (XO (XO (XI (XO (XI (XO (XI (XO (XI (XO (XO (XI (XI (XO (XO (XI (XI (XI
    (XI (XI (XO (XO (XI (XO (XI (XO (XI (XI (XI (XO (XO (XO (XO (XI (XO (XI
    (XO (XO (XO (XI (XO (XI (XO (XO (XO (XI (XI (XO (XO (XI (XI (XO (XI (XO
    (XI (XO (XI (XI (XI (XO (XO (XI (XO
    XH)))))))))))))))))))))))))))))))))))))))))))))))))))))))))))))))) :: ((Npos
    (XI (XO (XI (XI (XO (XO (XI (XI (XI (XO (XO (XO (XI (XI (XO (XO (XI (XO
    (XI (XI (XI (XI (XI (XI (XI (XO (XO (XO (XO (XI (XO (XO (XI (XI (XO (XO
    (XI (XO (XO (XI (XO (XO (XO (XO (XI (XO (XI (XI (XO (XI (XI (XO (XI (XO
    (XO (XO (XI (XI (XI (XO
    XH))))))))))))))))))))))))))))))))))))))))))))))))))))))))))))) :: ((Npos
    (XI (XI (XI (XO (XO (XI (XO (XI (XO (XO (XI (XI (XI (XI (XI (XI (XI (XI
    (XO (XI (XI (XO (XO (XO (XI (XO (XI (XO (XI (XO (XI (XI (XO (XO (XO (XO
    (XO (XI (XO (XI (XI (XI (XI (XO (XI (XO (XI (XI (XO (XI (XI (XI (XO (XI
    (XI (XI (XI (XI (XO (XI (XO (XO (XO
    XH)))))))))))))))))))))))))))))))))))))))))))))))))))))))))))))))) :: ((Npos
    (XO (XI (XO (XI (XI (XO (XO (XI (XO (XI (XI (XI (XI (XO (XI (XI (XI (XI
    (XI (XI (XI (XI (XO (XO (XI (XO (XI (XI (XO (XI (XO (XO (XI (XI (XI (XO
    (XO (XI (XI (XI (XO (XO (XI (XI (XI (XI (XO (XO (XI (XI (XI (XI (XI (XI
    (XO (XI (XO (XO (XO (XI (XO (XO
    XH))))))))))))))))))))))))))))))))))))))))))))))))))))))))))))))) :: ((Npos
    (XO (XO (XI (XO (XI (XO (XI (XO (XO (XI (XI (XI (XI (XI (XI (XO (XI (XO
    (XI (XO (XO (XO (XI (XO (XI (XI (XO (XO (XO (XO (XI (XO (XO (XI (XO (XO
    (XI (XO (XO (XI (XI (XO (XI (XO (XI (XI (XI (XO (XO (XO (XO (XO (XI (XO
    (XO (XO (XI (XI (XI (XI (XI (XO (XI
    XH)))))))))))))))))))))))))))))))))))))))))))))))))))))))))))))))) :: ((Npos
    (XO (XO (XI (XO (XI (XI (XI (XI (XO (XO (XI (XO (XI (XO (XO (XI (XI (XO
    (XO (XO (XO (XO (XO (XI (XO (XI (XO (XO (XI (XO (XO (XO (XO (XI (XO (XO
    (XO (XI (XO (XO (XI (XO (XO (XI (XO (XI (XI (XO (XI (XI (XO (XO (XI (XO
    (XI (XO (XO (XI (XI (XO (XI (XI (XI
    XH)))))))))))))))))))))))))))))))))))))))))))))))))))))))))))))))) :: ((Npos
    (XI (XO (XI (XO (XO (XI (XO (XI (XI (XI (XO (XO (XI (XI (XI (XO (XI (XO
    (XO (XO (XO (XO (XO (XI (XO (XO (XO (XO (XO (XO (XI (XO (XO (XO (XO (XI
    (XI (XI (XO (XO (XO (XI (XI (XO (XO (XI (XO (XO (XI (XO (XO (XO (XI (XI
    (XO (XO (XI (XI (XO (XI (XO (XI (XI
    XH)))))))))))))))))))))))))))))))))))))))))))))))))))))))))))))))) :: ((Npos
    (XI (XO (XO (XI (XI (XO (XI (XI (XO (XI (XI (XI (XO (XI (XO (XO (XO (XI
    (XI (XI (XI (XI (XO (XO (XI (XI (XO (XI (XO (XO (XI (XI (XO (XO (XO (XO
    (XI (XO (XI (XO (XO (XI (XI (XI (XI (XO (XI (XO (XI (XO (XO (XI (XI (XO
    (XO (XO (XI (XO (XO (XI (XO (XO (XI
    XH)))))))))))))))))))))))))))))))))))))))))))))))))))))))))))))))) :: ((Npos
    (XO (XI (XO (XI (XO (XO (XO (XO (XI (XO (XO (XO (XI (XO (XO (XO (XI (XO
    (XI (XI (XO (XO (XI (XI (XO (XI (XI (XO (XI (XI (XI (XI (XI (XI (XO (XI
    (XO (XI (XO (XO (XO (XO (XO (XO (XI (XO (XO (XO (XI (XO (XI (XI (XI (XI
    (XI (XO (XO (XI (XI (XO (XI (XI (XO
    XH)))))))))))))))))))))))))))))))))))))))))))))))))))))))))))))))) :: ((Npos
    (XI (XI (XI (XO (XI (XI (XI (XI (XI (XO (XI (XI (XI (XO (XO (XO (XO (XO
    (XI (XO (XO (XO (XI (XO (XI (XI (XI (XI (XO (XO (XO (XI (XO (XI (XO (XI
    (XI (XO (XI (XI (XI (XI (XI (XO (XO (XI (XO (XO (XI (XI (XI (XO (XO (XO
    (XI (XI (XI (XI (XO (XI (XO (XI (XO
    XH)))))))))))))))))))))))))))))))))))))))))))))))))))))))))))))))) :: ((Npos
    (XI (XI (XI (XO (XI (XI (XO (XO (XO (XI (XI (XI (XO (XO (XI (XI (XO (XI
    (XI (XO (XI (XO (XO (XI (XI (XO (XO (XI (XI (XI (XI (XI (XI (XI (XI (XO
    (XO (XO (XI (XO (XI (XO (XO (XI (XI (XO (XI (XO (XO (XO (XI (XI (XI (XI
    (XI (XI (XI (XO (XO (XO (XO (XI (XO
    XH)))))))))))))))))))))))))))))))))))))))))))))))))))))))))))))))) :: ((Npos
    (XI (XI (XO (XI (XO (XO (XI (XO (XO (XI (XO (XO (XO (XI (XO (XO (XI (XI
    (XO (XO (XI (XI (XI (XO (XO (XO (XO (XO (XO (XO (XI (XO (XI (XI (XO (XI
    (XI (XI (XI (XO (XI (XO (XI (XO (XO (XI (XO (XI (XO (XO (XI (XI (XI (XO
    (XI (XO (XO (XO (XO (XI (XO (XI
    XH))))))))))))))))))))))))))))))))))))))))))))))))))))))))))))))) :: ((Npos
    (XO (XI (XO (XO (XO (XI (XI (XO (XI (XO (XI (XI (XO (XO (XI (XO (XO (XI
    (XI (XI (XI (XO (XI (XO (XO (XO (XI (XO (XO (XO (XI (XO (XI (XI (XO (XO
    (XI (XO (XI (XI (XI (XI (XI (XI (XI (XI (XI (XI (XI (XO (XI (XI (XI (XI
    (XI (XI (XO (XI (XI (XI (XO (XO
    XH))))))))))))))))))))))))))))))))))))))))))))))))))))))))))))))) :: ((Npos
    (XO (XO (XI (XI (XO (XO (XI (XI (XO (XI (XO (XI (XO (XO (XO (XO (XI (XO
    (XI (XO (XI (XI (XI (XI (XI (XO (XI (XI (XO (XO (XO (XO (XI (XI (XI (XO
    (XO (XO (XO (XI (XI (XO (XI (XI (XI (XI (XI (XI (XO (XI (XI (XO (XI (XI
    (XI (XO (XO (XI (XO (XI (XI (XO (XI
    XH)))))))))))))))))))))))))))))))))))))))))))))))))))))))))))))))) :: ((Npos
    (XI (XI (XI (XI (XO (XI (XO (XI (XI (XO (XO (XO (XO (XI (XO (XO (XI (XI
    (XI (XI (XO (XO (XI (XI (XO (XO (XO (XI (XO (XI (XO (XO (XI (XO (XI (XO
    (XI (XI (XO (XO (XI (XO (XI (XO (XI (XO (XO (XO (XO (XO (XI (XO (XI (XI
    (XO (XI (XO (XO (XI (XI (XI
    XH)))))))))))))))))))))))))))))))))))))))))))))))))))))))))))))) :: ((Npos
    (XO (XI (XO (XI (XI (XI (XI (XI (XO (XI (XO (XO (XI (XI (XI (XI (XO (XI
    (XO (XI (XO (XO (XO (XI (XO (XI (XO (XI (XO (XO (XI (XI (XO (XI (XI (XO
    (XI (XO (XI (XO (XO (XO (XI (XO (XO (XO (XO (XO (XO (XI (XO (XI (XO (XO
    (XI (XO (XO (XO (XI (XO (XI (XO (XI
    XH)))))))))))))))))))))))))))))))))))))))))))))))))))))))))))))))) :: ((Npos
    (XI (XO (XI (XO (XO (XI (XI (XO (XO (XO (XI (XO (XI (XO (XI (XI (XO (XI
    (XI (XO (XO (XI (XO (XO (XO (XI (XO (XO (XI (XI (XI (XI (XO (XI (XI (XO
    (XI (XI (XI (XO (XI (XI (XI (XO (XO (XI (XI (XI (XO (XI (XI (XO (XO (XO
    (XO (XI (XO (XI (XI (XI (XI
    XH)))))))))))))))))))))))))))))))))))))))))))))))))))))))))))))) :: ((Npos
    (XO (XO (XO (XO (XI (XI (XO (XI (XO (XO (XO (XO (XI (XI (XO (XI (XO (XI
    (XO (XO (XO (XO (XO (XO (XI (XI (XI (XI (XO (XI (XI (XI (XI (XI (XO (XO
    (XO (XI (XO (XO (XI (XI (XO (XO (XO (XI (XO (XI (XI (XI (XI (XI (XO (XO
    (XO (XO (XO (XI (XO (XO (XO (XO
    XH))))))))))))))))))))))))))))))))))))))))))))))))))))))))))))))) :: ((Npos
    (XO (XO (XO (XI (XO (XI (XI (XI (XO (XO (XO (XO (XI (XI (XI (XO (XI (XI
    (XI (XO (XI (XO (XO (XI (XI (XO (XI (XI (XO (XO (XO (XO (XI (XO (XI (XI
    (XI (XI (XI (XI (XO (XI (XI (XI (XI (XO (XO (XO (XI (XI (XO (XO (XI (XO
    (XO (XO (XI (XO (XI (XO (XI (XO (XO
    XH)))))))))))))))))))))))))))))))))))))))))))))))))))))))))))))))) :: ((Npos
    (XI (XO (XO (XO (XI (XI (XI (XI (XI (XI (XO (XO (XO (XI (XO (XO (XI (XO
    (XI (XO (XO (XI (XI (XI (XO (XO (XO (XI (XI (XO (XI (XO (XI (XO (XI (XI
    (XI (XI (XI (XI (XI (XO (XI (XI (XO (XO (XO (XI (XO (XI (XO (XO (XO (XI
    (XO (XI (XI (XO (XO (XO (XI (XI (XO
    XH)))))))))))))))))))))))))))))))))))))))))))))))))))))))))))))))) :: ((Npos
    (XI (XO (XI (XO (XO (XO (XO (XI (XI (XO (XO (XO (XI (XO (XO (XI (XI (XI
    (XO (XO (XO (XO (XI (XO (XO (XO (XO (XO (XI (XO (XI (XO (XI (XI (XO (XI
    (XO (XI (XO (XO (XO (XI (XO (XI (XI (XO (XO (XI (XO (XI (XO (XO (XI (XO
    (XO (XO (XO (XI (XI (XI (XI (XO (XI
    XH)))))))))))))))))))))))))))))))))))))))))))))))))))))))))))))))) :: ((Npos
    (XI (XI (XO (XI (XO (XI (XI (XI (XI (XO (XO (XI (XO (XO (XO (XI (XO (XO
    (XI (XO (XO (XI (XI (XI (XI (XI (XI (XO (XI (XO (XI (XO (XI (XI (XO (XO
    (XI (XO (XI (XI (XO (XO (XI (XI (XI (XO (XI (XO (XO (XO (XO (XI (XI (XO
    (XO (XI
    XH))))))))))))))))))))))))))))))))))))))))))))))))))))))))) :: ((Npos (XO
    (XI (XI (XO (XI (XI (XO (XO (XI (XI (XI (XI (XO (XO (XO (XO (XO (XO (XO
    (XO (XO (XI (XO (XO (XI (XO (XO (XO (XI (XI (XI (XI (XO (XI (XI (XI (XO
    (XI (XI (XO (XI (XO (XO (XI (XI (XI (XO (XI (XI (XI (XI (XI (XO (XO (XI
    (XO (XO (XI (XO (XO (XO (XI (XO
    XH)))))))))))))))))))))))))))))))))))))))))))))))))))))))))))))))) :: ((Npos
    (XO (XO (XO (XI (XO (XI (XI (XO (XO (XI (XI (XO (XO (XO (XO (XI (XO (XI
    (XO (XI (XO (XI (XI (XO (XO (XO (XO (XO (XO (XI (XI (XI (XO (XO (XO (XI
    (XO (XI (XI (XI (XO (XI (XI (XO (XI (XI (XO (XI (XO (XI (XI (XO (XO (XO
    (XI (XI (XI (XI (XO (XI (XO
    XH)))))))))))))))))))))))))))))))))))))))))))))))))))))))))))))) :: ((Npos
    (XO (XO (XI (XO (XI (XO (XI (XO (XO (XO (XI (XO (XO (XO (XI (XI (XI (XI
    (XI (XI (XO (XO (XO (XO (XO (XO (XO (XI (XI (XO (XO (XI (XO (XO (XO (XI
    (XO (XO (XO (XO (XI (XI (XI (XO (XI (XI (XI (XO (XI (XI (XI (XO (XI (XI
    (XO (XI (XO (XO (XO (XI
    XH))))))))))))))))))))))))))))))))))))))))))))))))))))))))))))) :: ((Npos
    (XI (XO (XI (XO (XO (XO (XO (XO (XO (XO (XI (XO (XI (XO (XO (XI (XO (XO
    (XI (XI (XO (XO (XO (XO (XO (XO (XI (XO (XI (XO (XI (XO (XI (XI (XI (XO
    (XI (XO (XO (XI (XI (XI (XO (XO (XO (XI (XO (XI (XI (XO (XO (XI (XI (XO
    (XI (XI (XO (XI
    XH))))))))))))))))))))))))))))))))))))))))))))))))))))))))))) :: ((Npos
    (XI (XO (XI (XI (XO (XI (XI (XO (XO (XI (XO (XO (XI (XO (XO (XO (XI (XI
    (XI (XI (XO (XO (XI (XI (XO (XI (XI (XI (XI (XO (XO (XO (XI (XI (XI (XI
    (XO (XI (XO (XO (XO (XI (XI (XO (XO (XI (XO (XI (XO (XI (XI (XO (XO (XO
    (XO (XO (XO (XI (XI (XI (XO
    XH)))))))))))))))))))))))))))))))))))))))))))))))))))))))))))))) :: ((Npos
    (XI (XO (XI (XO (XI (XO (XI (XI (XO (XO (XO (XO (XO (XO (XO (XO (XO (XO
    (XO (XO (XO (XO (XI (XO (XO (XO (XO (XI (XI (XO (XO (XO (XO (XI (XO (XI
    (XO (XO (XI (XI (XO (XO (XO (XO (XI (XI (XO (XO (XO (XO (XO (XO (XO (XO
    (XI (XO (XO (XO (XI (XO (XO (XI (XO
    XH)))))))))))))))))))))))))))))))))))))))))))))))))))))))))))))))) :: ((Npos
    (XI (XO (XO (XI (XI (XO (XI (XI (XO (XO (XI (XO (XI (XO (XI (XI (XO (XI
    (XO (XO (XI (XO (XI (XO (XO (XO (XI (XI (XI (XO (XI (XI (XO (XO (XO (XI
    (XI (XI (XI (XI (XO (XO (XI (XI (XO (XO (XI (XI (XO (XI (XI (XO (XI (XI
    (XI (XO (XI (XI (XI (XI (XO (XO (XO
    XH)))))))))))))))))))))))))))))))))))))))))))))))))))))))))))))))) :: ((Npos
    (XO (XI (XO (XI (XO (XO (XO (XI (XI (XI (XO (XI (XO (XI (XO (XO (XI (XO
    (XO (XI (XO (XO (XI (XI (XO (XO (XI (XI (XO (XO (XI (XI (XO (XO (XO (XO
    (XO (XI (XO (XO (XI (XO (XI (XI (XO (XI (XO (XO (XO (XI (XI (XI (XO (XO
    (XI (XO (XI (XO (XI (XO
    XH))))))))))))))))))))))))))))))))))))))))))))))))))))))))))))) :: ((Npos
    (XI (XI (XO (XI (XO (XO (XI (XO (XI (XO (XI (XI (XI (XO (XI (XO (XI (XI
    (XI (XO (XI (XO (XO (XI (XI (XO (XI (XO (XI (XO (XI (XI (XO (XI (XI (XI
    (XI (XI (XO (XO (XO (XI (XI (XO (XI (XO (XO (XO (XO (XO (XI (XO (XO (XO
    (XO (XI (XI (XO (XO (XO (XO (XI
    XH))))))))))))))))))))))))))))))))))))))))))))))))))))))))))))))) :: ((Npos
    (XI (XI (XO (XI (XI (XO (XO (XO (XI (XI (XO (XO (XI (XI (XI (XO (XI (XO
    (XI (XO (XI (XO (XO (XO (XO (XI (XO (XO (XI (XI (XI (XI (XO (XI (XO (XO
    (XO (XO (XI (XI (XO (XI (XO (XO (XI (XI (XO (XO (XI (XI (XO (XO (XI (XI
    (XO (XI (XI (XO (XI (XI (XO (XI
    XH))))))))))))))))))))))))))))))))))))))))))))))))))))))))))))))) :: ((Npos
    (XO (XI (XI (XO (XO (XI (XI (XI (XI (XO (XI (XO (XI (XO (XO (XI (XI (XI
    (XI (XO (XO (XI (XO (XI (XI (XI (XI (XO (XO (XI (XI (XO (XI (XI (XO (XO
    (XO (XO (XI (XO (XO (XI (XO (XI (XO (XI (XI (XO (XI (XO (XI (XI (XO (XO
    (XI (XI (XO (XI (XI (XI (XO (XI (XI
    XH)))))))))))))))))))))))))))))))))))))))))))))))))))))))))))))))) :: ((Npos
    (XO (XI (XI (XI (XI (XO (XI (XO (XI (XI (XI (XO (XI (XO (XO (XO (XI (XI
    (XO (XO (XO (XO (XO (XI (XI (XI (XO (XO (XO (XI (XI (XI (XI (XO (XI (XI
    (XO (XI (XO (XI (XO (XI (XO (XI (XO (XI (XO (XI (XI (XI (XO (XO (XI (XO
    (XI (XO (XI (XI
    XH))))))))))))))))))))))))))))))))))))))))))))))))))))))))))) :: ((Npos
    (XI (XI (XI (XO (XO (XO (XO (XI (XO (XO (XO (XO (XI (XO (XO (XO (XO (XI
    (XI (XO (XO (XI (XI (XO (XO (XO (XI (XI (XO (XO (XI (XO (XI (XO (XO (XI
    (XI (XO (XO (XI (XO (XI (XO (XO (XI (XI (XI (XO (XI (XO (XO (XI (XI (XO
    (XO (XO (XO (XO (XI (XO (XO (XI (XI
    XH)))))))))))))))))))))))))))))))))))))))))))))))))))))))))))))))) :: ((Npos
    (XO (XO (XO (XO (XI (XO (XI (XI (XO (XI (XO (XI (XI (XO (XI (XO (XI (XI
    (XI (XO (XO (XI (XI (XI (XO (XO (XO (XO (XO (XI (XI (XI (XO (XI (XO (XI
    (XI (XI (XO (XI (XI (XI (XI (XO (XO (XO (XI (XO (XI (XI (XO (XI (XO (XO
    (XO (XI (XI (XI (XO (XO (XI (XO (XO
    XH)))))))))))))))))))))))))))))))))))))))))))))))))))))))))))))))) :: ((Npos
    (XI (XI (XI (XO (XO (XO (XI (XO (XO (XO (XI (XI (XO (XI (XI (XI (XI (XI
    (XO (XO (XO (XI (XO (XI (XI (XO (XO (XI (XI (XO (XO (XO (XO (XI (XI (XI
    (XO (XO (XI (XO (XO (XO (XI (XO (XO (XO (XI (XI (XI (XO (XO (XI (XI (XI
    (XI (XO (XO (XO (XI (XI (XO (XI (XI
    XH)))))))))))))))))))))))))))))))))))))))))))))))))))))))))))))))) :: ((Npos
    (XO (XO (XI (XO (XI (XI (XI (XO (XI (XI (XO (XI (XO (XO (XO (XO (XO (XI
    (XI (XI (XO (XI (XI (XO (XI (XO (XI (XO (XO (XO (XO (XO (XI (XI (XO (XO
    (XI (XO (XO (XI (XO (XI (XO (XI (XI (XI (XO (XI (XO (XO (XO (XO (XI (XI
    (XO (XO (XI (XO (XI (XI (XO (XI (XO
    XH)))))))))))))))))))))))))))))))))))))))))))))))))))))))))))))))) :: ((Npos
    (XI (XO (XO (XO (XO (XO (XO (XI (XI (XI (XI (XI (XO (XI (XI (XO (XI (XO
    (XI (XI (XO (XI (XO (XI (XI (XO (XI (XO (XO (XI (XI (XI (XI (XI (XO (XI
    (XO (XO (XO (XI (XO (XO (XI (XI (XO (XO (XO (XO (XI (XO (XI (XO (XO (XO
    (XI (XI (XI (XI (XO (XI
    XH))))))))))))))))))))))))))))))))))))))))))))))))))))))))))))) :: ((Npos
    (XO (XI (XI (XI (XI (XO (XO (XI (XI (XI (XO (XO (XI (XO (XO (XI (XO (XI
    (XO (XO (XI (XI (XO (XO (XI (XO (XI (XI (XI (XI (XO (XO (XI (XI (XI (XI
    (XI (XO (XO (XI (XO (XO (XI (XI (XI (XO (XI (XI (XI (XI (XO (XI (XI (XO
    (XO (XI (XO (XI (XO (XO (XO (XO (XI
    XH)))))))))))))))))))))))))))))))))))))))))))))))))))))))))))))))) :: ((Npos
    (XO (XO (XI (XO (XI (XO (XO (XO (XI (XO (XI (XO (XI (XO (XO (XO (XO (XO
    (XI (XI (XO (XI (XI (XI (XI (XI (XO (XO (XO (XO (XI (XO (XI (XO (XI (XI
    (XO (XI (XO (XI (XO (XI (XI (XO (XI (XI (XO (XO (XI (XI (XI (XO (XI (XI
    (XO (XO (XI (XO (XO (XO
    XH))))))))))))))))))))))))))))))))))))))))))))))))))))))))))))) :: ((Npos
    (XI (XI (XO (XI (XO (XO (XO (XO (XO (XO (XI (XO (XI (XI (XO (XI (XO (XO
    (XI (XI (XI (XO (XI (XO (XO (XI (XI (XO (XI (XO (XI (XI (XI (XI (XO (XO
    (XO (XI (XO (XI (XO (XO (XI (XI (XI (XO (XO (XI (XI (XO (XO (XO (XO (XI
    (XI (XI (XI (XO (XO (XO (XI (XO (XO
    XH)))))))))))))))))))))))))))))))))))))))))))))))))))))))))))))))) :: ((Npos
    (XI (XO (XI (XO (XO (XO (XO (XO (XI (XI (XI (XI (XO (XI (XI (XI (XO (XI
    (XO (XI (XI (XI (XI (XI (XO (XI (XI (XO (XI (XI (XO (XI (XO (XO (XI (XI
    (XO (XI (XO (XO (XI (XI (XI (XI (XO (XO (XI (XO (XO (XI (XI (XO (XI (XO
    (XI (XO (XI (XI (XO (XI (XO (XI (XO
    XH)))))))))))))))))))))))))))))))))))))))))))))))))))))))))))))))) :: ((Npos
    (XO (XO (XI (XO (XI (XO (XI (XO (XI (XI (XO (XI (XI (XI (XO (XI (XI (XI
    (XI (XI (XO (XI (XI (XO (XO (XO (XI (XI (XO (XO (XI (XI (XO (XO (XO (XI
    (XO (XO (XI (XO (XI (XI (XO (XI (XO (XI (XI (XI (XI (XI (XI (XO (XI (XO
    (XI (XO (XI (XI (XO (XI (XO (XO
    XH))))))))))))))))))))))))))))))))))))))))))))))))))))))))))))))) :: ((Npos
    (XO (XO (XI (XO (XO (XI (XI (XI (XI (XI (XO (XO (XO (XO (XI (XO (XI (XI
    (XI (XI (XO (XI (XI (XO (XI (XO (XI (XI (XO (XI (XI (XI (XI (XO (XI (XI
    (XO (XO (XO (XO (XO (XO (XO (XI (XO (XO (XI (XI (XI (XI (XI (XI (XI (XI
    (XI (XI (XO (XI (XO (XO (XI (XI
    XH))))))))))))))))))))))))))))))))))))))))))))))))))))))))))))))) :: ((Npos
    (XO (XO (XI (XO (XO (XI (XI (XI (XO (XO (XO (XI (XO (XI (XO (XO (XO (XO
    (XO (XI (XO (XO (XO (XO (XI (XO (XO (XI (XI (XI (XI (XI (XO (XI (XI (XI
    (XI (XO (XI (XI (XO (XI (XI (XO (XO (XO (XI (XO (XI (XO (XO (XI (XO (XO
    (XI (XI (XI (XO (XI (XI (XO (XO (XO
    XH)))))))))))))))))))))))))))))))))))))))))))))))))))))))))))))))) :: ((Npos
    (XO (XI (XO (XO (XI (XO (XO (XO (XI (XI (XO (XO (XI (XO (XO (XO (XO (XO
    (XO (XO (XO (XO (XO (XO (XI (XI (XI (XI (XO (XI (XO (XI (XO (XO (XI (XO
    (XO (XO (XI (XI (XO (XO (XO (XO (XI (XO (XO (XI (XI (XO (XO (XI (XO (XO
    (XO (XO (XI (XI (XO (XI (XI (XO
    XH))))))))))))))))))))))))))))))))))))))))))))))))))))))))))))))) :: ((Npos
    (XO (XO (XO (XO (XO (XO (XI (XO (XO (XO (XI (XO (XI (XI (XI (XO (XO (XI
    (XI (XI (XO (XI (XO (XO (XO (XO (XI (XO (XI (XI (XI (XI (XI (XO (XO (XO
    (XO (XO (XO (XO (XO (XI (XO (XI (XO (XO (XO (XO (XI (XO (XO (XI (XO (XO
    (XI (XO (XO (XO (XO (XO (XO (XI
    XH))))))))))))))))))))))))))))))))))))))))))))))))))))))))))))))) :: ((Npos
    (XO (XO (XI (XI (XO (XO (XO (XI (XI (XI (XI (XO (XO (XI (XI (XO (XI (XI
    (XO (XO (XO (XO (XO (XO (XI (XO (XI (XO (XO (XI (XO (XI (XI (XI (XO (XI
    (XI (XO (XO (XO (XI (XI (XI (XO (XO (XI (XI (XI (XI (XI (XI (XO (XO (XO
    (XO (XO (XI (XI (XO (XO (XO (XI
    XH))))))))))))))))))))))))))))))))))))))))))))))))))))))))))))))) :: ((Npos
    (XO (XO (XO (XI (XO (XI (XO (XO (XI (XO (XI (XI (XO (XI (XO (XI (XI (XI
    (XI (XO (XI (XI (XI (XI (XI (XI (XI (XO (XI (XI (XI (XI (XI (XO (XO (XI
    (XO (XI (XI (XO (XO (XO (XI (XO (XI (XO (XO (XI (XI (XO (XI (XI (XI (XO
    (XO (XO (XI (XO (XO (XO (XO (XI (XO
    XH)))))))))))))))))))))))))))))))))))))))))))))))))))))))))))))))) :: ((Npos
    (XO (XI (XI (XO (XO (XO (XI (XI (XI (XO (XI (XI (XO (XO (XO (XO (XI (XI
    (XI (XI (XO (XO (XI (XO (XO (XI (XO (XI (XO (XO (XO (XI (XO (XI (XO (XI
    (XI (XO (XI (XO (XO (XI (XO (XI (XO (XO (XI (XI (XO (XO (XO (XI (XO (XO
    (XO (XO (XO (XI (XI (XO (XO (XO (XO
    XH)))))))))))))))))))))))))))))))))))))))))))))))))))))))))))))))) :: ((Npos
    (XO (XO (XO (XI (XO (XI (XI (XI (XO (XI (XO (XO (XO (XI (XO (XI (XI (XI
    (XI (XO (XO (XI (XO (XO (XI (XO (XI (XI (XI (XI (XO (XO (XI (XO (XO (XI
    (XO (XO (XI (XO (XI (XO (XO (XI (XI (XI (XI (XO (XI (XO (XI (XI (XO (XO
    (XO (XO (XI (XI (XI (XO (XO (XO (XI
    XH)))))))))))))))))))))))))))))))))))))))))))))))))))))))))))))))) :: ((Npos
    (XO (XO (XO (XI (XO (XO (XI (XI (XI (XI (XO (XI (XI (XO (XO (XO (XO (XO
    (XI (XO (XI (XO (XO (XI (XI (XI (XO (XO (XO (XO (XO (XI (XI (XO (XI (XI
    (XI (XO (XO (XI (XO (XO (XO (XO (XO (XO (XO (XO (XI (XO (XO (XI (XI (XO
    (XO (XO (XI (XO (XO (XI (XO (XO (XO
    XH)))))))))))))))))))))))))))))))))))))))))))))))))))))))))))))))) :: [])))))))))))))))))))))))))))))))))))))))))))))))))))))))))))))))) :: (((Npos
    (XI (XI (XO (XO (XI (XI (XO (XO (XO (XI (XI (XO (XI (XI (XO (XO (XI (XO
    (XO (XO (XO (XO (XO (XI (XI (XI (XO (XO (XI (XI (XO (XO (XO (XI (XI (XO
    (XI (XO (XI (XI (XO (XO (XI (XI (XO (XI (XO (XO (XO (XI (XI (XI (XI (XO
    (XO (XI (XI (XI (XO (XI (XI (XO (XI
    XH)))))))))))))))))))))))))))))))))))))))))))))))))))))))))))))))) :: ((Npos
    (XI (XI (XI (XO (XI (XO (XI (XO (XI (XI (XO (XO (XO (XO (XI (XO (XI (XO
    (XO (XO (XI (XI (XI (XI (XO (XI (XI (XI (XO (XI (XI (XO (XI (XI (XO (XO
    (XO (XI (XO (XO (XO (XI (XO (XI (XI (XI (XO (XO (XO (XO (XI (XI (XO (XI
    (XO (XO (XO (XO (XO (XO (XO
    XH)))))))))))))))))))))))))))))))))))))))))))))))))))))))))))))) :: ((Npos
    (XO (XO (XO (XI (XI (XO (XO (XO (XI (XO (XO (XI (XI (XI (XI (XI (XI (XI
    (XI (XO (XI (XO (XI (XI (XI (XI (XI (XI (XO (XO (XO (XI (XI (XI (XI (XI
    (XO (XO (XO (XI (XO (XO (XI (XI (XI (XI (XI (XI (XI (XO (XO (XO (XO (XO
    (XI (XO (XO (XO (XO (XI (XI (XI
    XH))))))))))))))))))))))))))))))))))))))))))))))))))))))))))))))) :: ((Npos
    (XI (XI (XO (XO (XI (XO (XI (XO (XO (XO (XO (XO (XO (XI (XI (XO (XO (XO
    (XO (XI (XI (XI (XO (XI (XI (XI (XI (XI (XO (XI (XO (XO (XI (XO (XI (XO
    (XI (XO (XI (XI (XO (XO (XI (XO (XI (XI (XO (XI (XI (XO (XO (XO (XI (XI
    (XO (XO (XI (XI (XO (XO (XO (XO
    XH))))))))))))))))))))))))))))))))))))))))))))))))))))))))))))))) :: ((Npos
    (XO (XO (XO (XI (XI (XI (XI (XO (XO (XI (XO (XI (XI (XO (XO (XO (XO (XI
    (XO (XI (XO (XI (XI (XO (XI (XO (XI (XI (XO (XI (XO (XO (XO (XO (XO (XI
    (XO (XO (XO (XO (XO (XI (XO (XI (XO (XI (XO (XO (XO (XO (XI (XO (XO (XI
    (XO (XI (XO (XI (XI (XO (XI (XO (XI
    XH)))))))))))))))))))))))))))))))))))))))))))))))))))))))))))))))) :: ((Npos
    (XO (XI (XO (XI (XI (XO (XI (XI (XI (XI (XO (XI (XI (XI (XI (XI (XO (XO
    (XO (XO (XI (XI (XI (XI (XI (XO (XO (XI (XO (XO (XI (XO (XO (XO (XO (XO
    (XI (XO (XI (XO (XI (XO (XO (XI (XO (XO (XI (XI (XI (XI (XO (XI (XO (XI
    (XI (XO (XI (XI (XI (XO (XI (XO (XO
    XH)))))))))))))))))))))))))))))))))))))))))))))))))))))))))))))))) :: ((Npos
    (XO (XO (XI (XO (XO (XI (XI (XI (XO (XI (XI (XO (XI (XI (XI (XI (XI (XI
    (XO (XI (XO (XI (XO (XO (XO (XI (XO (XI (XO (XI (XI (XI (XO (XI (XO (XO
    (XI (XI (XI (XI (XO (XO (XO (XO (XO (XO (XO (XI (XI (XO (XO (XI (XI (XO
    (XO (XI (XI (XI (XO (XO (XO (XI (XI
    XH)))))))))))))))))))))))))))))))))))))))))))))))))))))))))))))))) :: ((Npos
    (XI (XO (XO (XI (XI (XO (XI (XI (XO (XO (XO (XO (XO (XI (XI (XI (XO (XO
    (XO (XO (XO (XO (XI (XO (XO (XI (XI (XO (XI (XO (XO (XO (XO (XO (XI (XI
    (XO (XO (XI (XO (XI (XO (XI (XI (XI (XI (XO (XI (XO (XO (XI (XO (XI (XI
    (XI (XI (XO (XI (XO (XI (XI (XI (XO
    XH)))))))))))))))))))))))))))))))))))))))))))))))))))))))))))))))) :: ((Npos
    (XI (XO (XI (XO (XI (XI (XI (XO (XI (XI (XO (XO (XO (XO (XO (XO (XI (XO
    (XO (XI (XO (XI (XI (XI (XO (XI (XO (XI (XI (XI (XI (XO (XO (XI (XO (XI
    (XI (XI (XO (XI (XI (XI (XI (XO (XO (XI (XO (XO (XI (XI (XO (XO (XO (XI
    (XI (XI (XO (XO (XO (XI (XI (XO (XI
    XH)))))))))))))))))))))))))))))))))))))))))))))))))))))))))))))))) :: ((Npos
    (XO (XI (XI (XO (XI (XO (XI (XO (XO (XO (XI (XO (XO (XO (XI (XO (XI (XI
    (XO (XO (XI (XI (XO (XI (XO (XI (XI (XO (XI (XO (XO (XI (XI (XO (XO (XI
    (XO (XI (XI (XO (XI (XO (XI (XO (XO (XI (XO (XO (XO (XO (XO (XO (XI (XO
    (XI (XI (XO (XO (XO (XI
    XH))))))))))))))))))))))))))))))))))))))))))))))))))))))))))))) :: ((Npos
    (XI (XO (XO (XO (XO (XI (XO (XO (XI (XO (XO (XI (XI (XO (XO (XO (XI (XO
    (XI (XO (XI (XO (XI (XO (XI (XI (XI (XI (XO (XO (XO (XO (XO (XI (XO (XI
    (XI (XO (XO (XO (XI (XO (XI (XI (XI (XI (XI (XI (XI (XI (XO (XI (XI (XO
    (XO (XI (XI (XO (XI (XO (XI (XI (XO
    XH)))))))))))))))))))))))))))))))))))))))))))))))))))))))))))))))) :: ((Npos
    (XI (XO (XI (XI (XI (XO (XO (XI (XI (XO (XO (XO (XI (XI (XI (XI (XI (XI
    (XI (XI (XO (XO (XO (XO (XO (XI (XO (XI (XI (XI (XI (XI (XI (XI (XI (XI
    (XI (XO (XO (XI (XI (XI (XO (XI (XO (XO (XO (XO (XO (XI (XO (XO (XO (XO
    (XO (XI (XO (XO (XO (XO (XO
    XH)))))))))))))))))))))))))))))))))))))))))))))))))))))))))))))) :: ((Npos
    (XI (XO (XI (XI (XI (XI (XI (XI (XI (XI (XI (XO (XI (XO (XO (XO (XI (XI
    (XI (XO (XI (XO (XI (XI (XI (XO (XO (XO (XO (XI (XO (XI (XO (XO (XO (XI
    (XI (XI (XO (XO (XO (XI (XO (XO (XO (XI (XO (XO (XO (XI (XI (XO (XO (XO
    (XI (XI (XO (XO
    XH))))))))))))))))))))))))))))))))))))))))))))))))))))))))))) :: ((Npos
    (XI (XO (XI (XI (XO (XI (XO (XI (XI (XO (XO (XO (XI (XO (XI (XI (XI (XI
    (XO (XO (XO (XO (XO (XO (XI (XI (XI (XI (XI (XO (XI (XO (XO (XI (XO (XI
    (XI (XO (XI (XI (XI (XI (XO (XO (XO (XO (XO (XO (XI (XI (XI (XO (XO (XI
    (XO (XI (XO (XI (XO (XO (XI (XI (XI
    XH)))))))))))))))))))))))))))))))))))))))))))))))))))))))))))))))) :: ((Npos
    (XI (XI (XO (XO (XO (XI (XO (XI (XO (XI (XO (XO (XO (XO (XO (XO (XI (XO
    (XO (XO (XO (XO (XO (XO (XO (XO (XI (XI (XI (XI (XO (XO (XI (XI (XI (XI
    (XI (XO (XO (XO (XI (XO (XI (XI (XO (XO (XO (XI (XO (XI (XO (XI (XI (XI
    (XI (XO (XO (XI (XO (XO (XO (XO (XI
    XH)))))))))))))))))))))))))))))))))))))))))))))))))))))))))))))))) :: ((Npos
    (XO (XI (XO (XI (XI (XI (XI (XO (XO (XO (XI (XO (XO (XI (XI (XO (XI (XO
    (XI (XO (XO (XO (XO (XI (XO (XI (XI (XO (XI (XI (XI (XO (XO (XI (XO (XO
    (XO (XI (XO (XI (XI (XI (XI (XO (XI (XO (XI (XO (XI (XI (XO (XO (XI (XI
    (XO (XI (XO (XO (XI (XO (XO (XI (XI
    XH)))))))))))))))))))))))))))))))))))))))))))))))))))))))))))))))) :: ((Npos
    (XO (XI (XI (XI (XO (XO (XI (XO (XI (XI (XO (XI (XO (XI (XO (XI (XI (XI
    (XO (XO (XI (XO (XI (XI (XI (XO (XO (XO (XO (XI (XI (XI (XO (XO (XO (XI
    (XO (XO (XI (XO (XI (XI (XO (XO (XO (XI (XI (XO (XO (XI (XO (XO (XI (XO
    (XO (XO (XI (XI (XI (XI (XI
    XH)))))))))))))))))))))))))))))))))))))))))))))))))))))))))))))) :: ((Npos
    (XO (XO (XI (XI (XO (XI (XO (XO (XO (XO (XI (XO (XO (XI (XI (XO (XO (XO
    (XI (XO (XI (XO (XO (XI (XO (XI (XI (XO (XO (XI (XI (XI (XO (XI (XO (XI
    (XI (XI (XI (XO (XI (XO (XO (XO (XI (XO (XI (XO (XO (XI (XI (XO (XO (XI
    (XI (XI (XO (XI (XO (XI (XO (XI (XI
    XH)))))))))))))))))))))))))))))))))))))))))))))))))))))))))))))))) :: ((Npos
    (XI (XI (XO (XO (XI (XO (XI (XI (XO (XO (XI (XO (XO (XI (XO (XI (XO (XI
    (XO (XI (XO (XO (XI (XI (XO (XO (XO (XI (XI (XI (XO (XI (XO (XI (XI (XI
    (XO (XI (XI (XI (XO (XO (XI (XI (XI (XO (XO (XO (XI (XO (XO (XI (XO (XI
    (XI (XI (XI (XI (XI
    XH)))))))))))))))))))))))))))))))))))))))))))))))))))))))))))) :: ((Npos
    (XI (XI (XO (XO (XO (XO (XI (XI (XO (XI (XI (XI (XO (XO (XO (XI (XI (XO
    (XI (XI (XI (XI (XI (XI (XI (XO (XO (XO (XI (XO (XO (XO (XO (XO (XO (XI
    (XI (XO (XI (XO (XI (XO (XO (XO (XO (XO (XO (XI (XI (XO (XO (XI (XI (XI
    (XI (XO (XI (XI (XO (XO (XO (XO (XO
    XH)))))))))))))))))))))))))))))))))))))))))))))))))))))))))))))))) :: ((Npos
    (XO (XI (XI (XO (XI (XO (XI (XI (XI (XI (XO (XO (XO (XI (XO (XO (XI (XO
    (XO (XI (XO (XI (XI (XI (XO (XI (XO (XO (XO (XO (XO (XO (XI (XI (XI (XO
    (XO (XO (XI (XI (XO (XO (XO (XO (XO (XI (XO (XI (XI (XI (XO (XI (XI (XI
    (XO (XO (XI (XO (XO (XI (XI (XO (XI
    XH)))))))))))))))))))))))))))))))))))))))))))))))))))))))))))))))) :: ((Npos
    (XI (XO (XO (XO (XO (XI (XI (XI (XO (XO (XI (XO (XO (XO (XI (XO (XI (XI
    (XO (XI (XI (XO (XI (XI (XI (XO (XI (XI (XO (XI (XI (XI (XI (XI (XI (XO
    (XI (XO (XO (XO (XO (XI (XO (XI (XO (XO (XI (XO (XO (XO (XO (XI (XO (XO
    (XO (XI (XO (XO (XO (XO (XI (XO (XO
    XH)))))))))))))))))))))))))))))))))))))))))))))))))))))))))))))))) :: ((Npos
    (XO (XI (XO (XI (XI (XO (XI (XI (XO (XI (XI (XI (XI (XO (XI (XI (XI (XO
    (XO (XO (XI (XO (XI (XI (XO (XO (XI (XO (XI (XO (XO (XO (XO (XO (XI (XO
    (XI (XO (XI (XI (XI (XI (XI (XO (XO (XI (XO (XO (XO (XO (XI (XI (XI (XO
    (XO (XO (XI (XI (XO (XO (XI
    XH)))))))))))))))))))))))))))))))))))))))))))))))))))))))))))))) :: ((Npos
    (XI (XO (XO (XI (XI (XI (XO (XO (XO (XO (XI (XI (XO (XO (XO (XI (XO (XO
    (XI (XI (XI (XO (XI (XI (XO (XI (XO (XI (XI (XO (XO (XI (XI (XI (XI (XI
    (XI (XO (XI (XI (XO (XI (XI (XI (XO (XO (XO (XI (XO (XI (XI (XO (XO (XO
    (XO (XI (XO (XI (XI (XO (XI
    XH)))))))))))))))))))))))))))))))))))))))))))))))))))))))))))))) :: ((Npos
    (XO (XI (XI (XO (XO (XI (XI (XO (XO (XO (XI (XI (XO (XO (XO (XO (XI (XO
    (XI (XI (XI (XO (XI (XO (XI (XI (XI (XI (XI (XI (XO (XO (XO (XI (XO (XI
    (XO (XO (XO (XO (XO (XO (XO (XI (XO (XO (XO (XI (XO (XI (XO (XI (XO (XI
    (XO (XO (XO (XI (XO (XI (XO (XI (XO
    XH)))))))))))))))))))))))))))))))))))))))))))))))))))))))))))))))) :: ((Npos
    (XI (XI (XO (XI (XI (XO (XI (XO (XO (XI (XI (XI (XI (XO (XO (XO (XO (XI
    (XO (XI (XO (XI (XI (XO (XI (XI (XI (XO (XO (XI (XI (XI (XI (XO (XI (XI
    (XI (XO (XO (XO (XI (XI (XI (XO (XO (XI (XI (XI (XI (XO (XO (XI (XO (XO
    (XO (XI (XO (XO (XI (XI (XO (XO (XI
    XH)))))))))))))))))))))))))))))))))))))))))))))))))))))))))))))))) :: ((Npos
    (XI (XI (XO (XI (XO (XI (XO (XI (XO (XI (XI (XI (XO (XI (XO (XO (XO (XI
    (XO (XO (XI (XO (XI (XI (XO (XI (XI (XI (XI (XI (XI (XO (XO (XO (XO (XO
    (XO (XO (XI (XI (XI (XO (XI (XI (XI (XI (XO (XO (XO (XO (XI (XO (XI (XO
    (XI (XO (XI (XI (XO (XO (XI (XI (XO
    XH)))))))))))))))))))))))))))))))))))))))))))))))))))))))))))))))) :: ((Npos
    (XO (XI (XO (XI (XI (XI (XI (XI (XI (XO (XI (XI (XI (XO (XO (XI (XO (XO
    (XI (XI (XI (XO (XO (XI (XO (XO (XO (XO (XO (XI (XI (XI (XO (XI (XI (XI
    (XI (XO (XI (XO (XI (XO (XO (XI (XO (XO (XO (XO (XI (XO (XI (XO (XI (XO
    (XO (XI (XO (XI (XI (XO (XO
    XH)))))))))))))))))))))))))))))))))))))))))))))))))))))))))))))) :: ((Npos
    (XO (XO (XI (XI (XI (XI (XI (XO (XO (XO (XI (XI (XO (XI (XO (XI (XI (XO
    (XI (XO (XI (XI (XI (XI (XO (XO (XO (XI (XI (XI (XI (XI (XI (XI (XI (XO
    (XO (XI (XO (XI (XI (XI (XI (XO (XI (XO (XO (XO (XI (XO (XI (XO (XO (XO
    (XI (XO (XI (XI (XI (XO (XI (XI
    XH))))))))))))))))))))))))))))))))))))))))))))))))))))))))))))))) :: ((Npos
    (XI (XO (XI (XO (XI (XI (XO (XO (XO (XO (XO (XI (XO (XI (XO (XO (XI (XI
    (XO (XI (XO (XI (XI (XI (XO (XI (XO (XO (XI (XI (XI (XO (XI (XO (XO (XO
    (XI (XI (XI (XO (XI (XI (XO (XI (XI (XO (XO (XI (XI (XI (XO (XI (XO (XI
    (XI (XI (XO (XI (XI (XI (XO (XO
    XH))))))))))))))))))))))))))))))))))))))))))))))))))))))))))))))) :: ((Npos
    (XO (XI (XI (XI (XI (XI (XO (XO (XO (XO (XO (XI (XI (XO (XI (XI (XI (XI
    (XO (XO (XO (XI (XI (XO (XI (XI (XI (XO (XI (XI (XI (XO (XO (XI (XO (XO
    (XO (XO (XO (XI (XI (XO (XO (XO (XI (XO (XO (XO (XO (XI (XI (XI (XI (XI
    (XO (XO (XI (XI (XO (XI (XI (XI
    XH))))))))))))))))))))))))))))))))))))))))))))))))))))))))))))))) :: ((Npos
    (XI (XO (XI (XI (XI (XI (XI (XO (XI (XO (XI (XI (XO (XO (XI (XI (XO (XO
    (XO (XO (XI (XI (XO (XO (XO (XI (XI (XI (XO (XI (XI (XI (XO (XO (XO (XI
    (XI (XO (XO (XO (XI (XO (XO (XO (XO (XI (XI (XO (XI (XI (XI (XI (XO (XO
    (XO (XI (XO (XI (XI (XO (XO (XI
    XH))))))))))))))))))))))))))))))))))))))))))))))))))))))))))))))) :: ((Npos
    (XO (XI (XO (XI (XO (XI (XO (XO (XI (XI (XI (XO (XI (XI (XI (XI (XI (XI
    (XI (XI (XO (XI (XO (XI (XO (XI (XI (XO (XI (XI (XO (XI (XI (XO (XI (XI
    (XO (XI (XO (XO (XO (XI (XI (XI (XO (XO (XI (XO (XO (XO (XI (XI (XO (XI
    (XO (XO (XO (XO (XI (XO
    XH))))))))))))))))))))))))))))))))))))))))))))))))))))))))))))) :: ((Npos
    (XO (XI (XO (XI (XI (XO (XO (XO (XI (XI (XI (XO (XI (XI (XI (XO (XO (XI
    (XI (XO (XO (XI (XO (XI (XI (XO (XO (XO (XO (XO (XI (XI (XO (XO (XI (XO
    (XI (XI (XO (XO (XI (XO (XO (XO (XO (XO (XI (XI (XO (XI (XI (XI (XO (XI
    (XO (XO (XI (XO (XO (XI (XI (XI (XI
    XH)))))))))))))))))))))))))))))))))))))))))))))))))))))))))))))))) :: ((Npos
    (XO (XI (XI (XO (XI (XO (XI (XO (XO (XI (XO (XO (XI (XO (XI (XI (XO (XI
    (XI (XI (XI (XO (XI (XI (XI (XO (XO (XO (XI (XO (XO (XI (XI (XI (XO (XO
    (XO (XI (XI (XO (XO (XI (XI (XI (XO (XO (XO (XO (XO (XO (XO (XO (XI (XO
    (XO (XO (XI (XI (XI
    XH)))))))))))))))))))))))))))))))))))))))))))))))))))))))))))) :: ((Npos
    (XI (XO (XI (XI (XI (XO (XO (XO (XO (XI (XO (XI (XO (XI (XO (XO (XO (XI
    (XO (XO (XI (XO (XI (XI (XI (XO (XO (XO (XI (XO (XI (XI (XI (XO (XI (XI
    (XI (XI (XI (XI (XO (XO (XI (XI (XO (XO (XO (XI (XI (XO (XO (XO (XO (XI
    (XO (XO (XO (XI (XI (XI
    XH))))))))))))))))))))))))))))))))))))))))))))))))))))))))))))) :: ((Npos
    (XO (XO (XI (XI (XO (XI (XO (XI (XO (XO (XI (XI (XO (XI (XO (XI (XO (XI
    (XI (XI (XO (XI (XO (XO (XI (XO (XI (XI (XO (XO (XI (XI (XI (XI (XO (XO
    (XO (XI (XI (XI (XI (XO (XO (XO (XI (XI (XI (XO (XI (XI (XO (XO (XO (XI
    (XI (XI (XI (XI (XI (XI (XO (XI (XO
    XH)))))))))))))))))))))))))))))))))))))))))))))))))))))))))))))))) :: ((Npos
    (XO (XO (XO (XO (XI (XO (XO (XO (XO (XO (XI (XI (XI (XO (XO (XI (XI (XI
    (XI (XI (XO (XO (XO (XI (XO (XI (XI (XO (XI (XO (XO (XO (XO (XI (XO (XI
    (XI (XI (XO (XI (XI (XO (XI (XI (XO (XI (XI (XO (XO (XI (XO (XO (XO (XO
    (XO (XI (XO (XI (XO (XO (XO (XI (XI
    XH)))))))))))))))))))))))))))))))))))))))))))))))))))))))))))))))) :: ((Npos
    (XO (XI (XO (XI (XI (XO (XO (XO (XI (XI (XI (XO (XO (XO (XO (XI (XO (XI
    (XO (XO (XO (XI (XO (XO (XI (XI (XI (XO (XO (XI (XO (XI (XI (XO (XI (XO
    (XI (XO (XO (XO (XO (XI (XI (XO (XI (XO (XI (XI (XI (XO (XO (XI (XI (XO
    (XO (XO (XO (XO (XI (XO (XO (XI
    XH))))))))))))))))))))))))))))))))))))))))))))))))))))))))))))))) :: ((Npos
    (XI (XO (XO (XI (XO (XI (XI (XI (XI (XI (XO (XO (XO (XO (XO (XO (XI (XI
    (XI (XI (XO (XI (XI (XO (XO (XI (XO (XO (XI (XO (XO (XO (XO (XO (XO (XI
    (XO (XI (XI (XI (XO (XI (XO (XI (XO (XO (XI (XI (XO (XO (XO (XO (XI (XO
    (XI (XO (XO (XI (XI (XO (XI (XI (XI
    XH)))))))))))))))))))))))))))))))))))))))))))))))))))))))))))))))) :: ((Npos
    (XI (XO (XO (XI (XI (XI (XO (XI (XO (XO (XO (XO (XO (XI (XI (XI (XI (XO
    (XI (XI (XI (XI (XI (XO (XO (XO (XI (XI (XI (XO (XI (XO (XO (XO (XO (XI
    (XI (XI (XI (XO (XI (XO (XO (XI (XO (XI (XI (XO (XI (XI (XO (XI (XI (XI
    (XO (XO (XI (XO (XI (XO (XO
    XH)))))))))))))))))))))))))))))))))))))))))))))))))))))))))))))) :: ((Npos
    (XO (XO (XI (XI (XO (XO (XO (XO (XI (XI (XO (XI (XI (XI (XO (XO (XI (XI
    (XI (XO (XI (XI (XI (XO (XI (XI (XO (XI (XI (XI (XO (XO (XO (XI (XO (XI
    (XO (XI (XO (XI (XO (XI (XI (XI (XI (XO (XI (XI (XO (XI (XI (XI (XI (XO
    (XO (XO (XI (XI (XI (XO (XO (XI
    XH))))))))))))))))))))))))))))))))))))))))))))))))))))))))))))))) :: ((Npos
    (XI (XO (XI (XO (XI (XO (XI (XI (XO (XI (XO (XI (XI (XO (XO (XI (XO (XI
    (XO (XO (XO (XI (XO (XO (XO (XO (XO (XO (XO (XI (XO (XO (XO (XI (XO (XO
    (XO (XO (XI (XI (XO (XI (XO (XO (XI (XI (XI (XI (XO (XO (XI (XI (XO (XO
    (XO (XO (XO (XI (XO (XO (XO (XI (XO
    XH)))))))))))))))))))))))))))))))))))))))))))))))))))))))))))))))) :: ((Npos
    (XO (XO (XO (XI (XO (XO (XI (XI (XI (XO (XI (XI (XI (XI (XO (XI (XO (XI
    (XI (XO (XI (XI (XI (XO (XO (XI (XO (XI (XO (XO (XI (XI (XO (XO (XI (XO
    (XO (XI (XI (XI (XO (XI (XO (XI (XO (XI (XO (XO (XI (XO (XO (XO (XI (XI
    (XI (XO (XO (XO
    XH))))))))))))))))))))))))))))))))))))))))))))))))))))))))))) :: ((Npos
    (XI (XO (XI (XI (XI (XI (XO (XI (XI (XI (XI (XI (XO (XO (XO (XI (XI (XI
    (XI (XI (XI (XO (XO (XI (XI (XI (XO (XO (XO (XO (XO (XI (XI (XI (XI (XI
    (XO (XI (XO (XI (XO (XI (XO (XI (XO (XI (XO (XO (XO (XI (XI (XO (XI (XI
    (XI (XI (XO (XO (XO (XO (XO (XI (XO
    XH)))))))))))))))))))))))))))))))))))))))))))))))))))))))))))))))) :: ((Npos
    (XI (XI (XI (XO (XI (XI (XO (XI (XO (XO (XO (XI (XO (XO (XO (XI (XI (XO
    (XO (XO (XO (XO (XO (XI (XO (XO (XI (XI (XO (XO (XI (XI (XO (XO (XO (XO
    (XO (XI (XI (XI (XI (XO (XO (XO (XI (XI (XO (XO (XO (XI (XO (XO (XO (XI
    (XI (XO (XI (XO (XO (XI (XO (XI (XI
    XH)))))))))))))))))))))))))))))))))))))))))))))))))))))))))))))))) :: ((Npos
    (XI (XI (XI (XI (XO (XI (XO (XO (XI (XI (XI (XI (XO (XI (XI (XI (XI (XI
    (XI (XO (XI (XO (XI (XI (XI (XO (XI (XI (XI (XO (XI (XO (XI (XI (XO (XO
    (XI (XO (XO (XI (XO (XO (XI (XI (XO (XO (XI (XO (XO (XI (XI (XI (XI (XI
    (XO (XI (XI (XI (XI (XO (XI (XO (XI
    XH)))))))))))))))))))))))))))))))))))))))))))))))))))))))))))))))) :: ((Npos
    (XI (XI (XO (XO (XO (XO (XO (XI (XI (XI (XO (XO (XI (XO (XI (XO (XO (XI
    (XO (XI (XI (XO (XO (XO (XO (XI (XI (XO (XO (XI (XO (XI (XI (XI (XI (XI
    (XI (XO (XI (XO (XI (XI (XO (XI (XI (XO (XI (XO (XI (XO (XO (XO (XO (XO
    (XI (XO (XI (XO (XO (XI (XI (XO (XI
    XH)))))))))))))))))))))))))))))))))))))))))))))))))))))))))))))))) :: ((Npos
    (XO (XI (XO (XO (XI (XO (XI (XI (XI (XO (XI (XO (XI (XO (XO (XO (XI (XI
    (XI (XO (XO (XO (XO (XO (XI (XO (XI (XO (XO (XO (XO (XO (XI (XI (XO (XI
    (XI (XI (XO (XI (XI (XI (XO (XO (XI (XO (XO (XO (XO (XO (XO (XO (XO (XO
    (XI (XO (XO (XI (XI (XI
    XH))))))))))))))))))))))))))))))))))))))))))))))))))))))))))))) :: ((Npos
    (XO (XI (XI (XI (XO (XO (XO (XO (XI (XI (XI (XO (XI (XO (XO (XO (XO (XO
    (XO (XO (XO (XO (XI (XO (XO (XO (XO (XO (XO (XI (XO (XO (XO (XO (XI (XO
    (XO (XO (XO (XO (XI (XO (XO (XO (XO (XO (XO (XI (XI (XI (XO (XI (XO (XI
    (XI (XI (XO (XO (XO (XO (XI
    XH)))))))))))))))))))))))))))))))))))))))))))))))))))))))))))))) :: ((Npos
    (XI (XI (XO (XO (XI (XO (XO (XO (XI (XI (XO (XO (XI (XI (XO (XI (XO (XI
    (XI (XO (XI (XO (XI (XI (XO (XI (XI (XO (XI (XO (XO (XO (XO (XI (XI (XO
    (XO (XI (XI (XI (XI (XI (XI (XI (XI (XO (XO (XI (XO (XO (XI (XI (XO (XI
    (XI (XI (XI (XI (XI (XI (XI (XI (XI
    XH)))))))))))))))))))))))))))))))))))))))))))))))))))))))))))))))) :: ((Npos
    (XI (XI (XI (XI (XO (XO (XO (XO (XI (XO (XO (XI (XI (XI (XO (XO (XO (XI
    (XO (XO (XI (XO (XI (XI (XO (XI (XI (XO (XO (XI (XO (XI (XO (XO (XI (XO
    (XI (XO (XI (XI (XI (XI (XO (XO (XI (XO (XI (XI (XI (XI (XO (XI (XI (XO
    (XO (XO (XO (XO (XI (XI (XI (XI (XI
    XH)))))))))))))))))))))))))))))))))))))))))))))))))))))))))))))))) :: ((Npos
    (XO (XI (XO (XO (XI (XI (XI (XI (XO (XO (XO (XI (XI (XI (XI (XI (XI (XI
    (XO (XO (XI (XO (XO (XI (XI (XI (XO (XI (XO (XI (XI (XI (XO (XO (XI (XO
    (XO (XO (XI (XI (XI (XI (XO (XO (XI (XO (XO (XI (XO (XO (XI (XO (XI (XO
    (XO (XI (XO (XI (XI (XO (XO (XI (XI
    XH)))))))))))))))))))))))))))))))))))))))))))))))))))))))))))))))) :: ((Npos
    (XI (XO (XI (XI (XI (XI (XI (XI (XI (XI (XI (XO (XO (XO (XO (XI (XI (XO
    (XO (XI (XI (XI (XO (XO (XO (XO (XI (XO (XO (XI (XO (XO (XO (XO (XO (XI
    (XI (XO (XO (XO (XO (XI (XO (XO (XO (XO (XO (XO (XO (XO (XO (XI (XO (XI
    (XO (XI (XO (XO (XI (XO (XI (XO (XI
    XH)))))))))))))))))))))))))))))))))))))))))))))))))))))))))))))))) :: ((Npos
    (XI (XI (XO (XI (XO (XO (XI (XI (XI (XO (XO (XI (XI (XO (XO (XO (XI (XI
    (XI (XI (XO (XO (XI (XI (XI (XO (XO (XO (XI (XO (XO (XI (XI (XO (XI (XO
    (XI (XO (XO (XO (XO (XI (XI (XI (XO (XO (XI (XI (XI (XO (XI (XI (XO (XI
    (XI (XI (XO (XO (XO (XO (XI
    XH)))))))))))))))))))))))))))))))))))))))))))))))))))))))))))))) :: ((Npos
    (XO (XO (XI (XI (XO (XO (XI (XI (XO (XO (XI (XO (XO (XO (XI (XI (XI (XI
    (XI (XI (XI (XI (XI (XI (XI (XI (XI (XI (XO (XI (XO (XI (XO (XO (XI (XO
    (XI (XO (XO (XO (XI (XI (XO (XI (XI (XO (XI (XI (XO (XI (XO (XO (XI (XO
    (XO (XO (XI (XO (XI (XI (XI (XI
    XH))))))))))))))))))))))))))))))))))))))))))))))))))))))))))))))) :: ((Npos
    (XI (XI (XO (XO (XO (XI (XO (XO (XI (XI (XO (XI (XI (XI (XI (XO (XI (XI
    (XI (XI (XI (XO (XO (XI (XO (XO (XI (XO (XI (XI (XI (XI (XO (XO (XO (XO
    (XO (XI (XI (XO (XO (XO (XO (XI (XI (XO (XO (XO (XO (XI (XO (XO (XO (XO
    (XI (XI (XI (XI (XO (XI (XI (XI
    XH))))))))))))))))))))))))))))))))))))))))))))))))))))))))))))))) :: ((Npos
    (XI (XI (XI (XO (XI (XI (XO (XO (XO (XI (XO (XI (XO (XO (XI (XI (XI (XI
    (XO (XO (XO (XI (XO (XO (XO (XO (XO (XO (XO (XO (XI (XI (XO (XI (XI (XO
    (XI (XI (XI (XO (XI (XI (XO (XO (XI (XO (XI (XI (XO (XI (XI (XI (XI (XI
    (XO (XO (XI (XO (XI (XO (XO (XI (XO
    XH)))))))))))))))))))))))))))))))))))))))))))))))))))))))))))))))) :: ((Npos
    (XI (XO (XO (XO (XO (XO (XO (XO (XI (XO (XI (XI (XI (XI (XI (XO (XI (XI
    (XO (XI (XI (XI (XI (XO (XI (XI (XO (XO (XI (XO (XO (XI (XI (XI (XI (XO
    (XO (XO (XI (XI (XI (XO (XO (XO (XO (XO (XO (XO (XO (XO (XI (XO (XI (XI
    (XO (XO (XO (XI (XI (XO (XO
    XH)))))))))))))))))))))))))))))))))))))))))))))))))))))))))))))) :: ((Npos
    (XO (XI (XI (XI (XO (XO (XO (XO (XO (XI (XO (XI (XI (XO (XO (XO (XO (XI
    (XI (XI (XO (XI (XO (XI (XO (XI (XO (XI (XI (XO (XO (XI (XI (XI (XO (XI
    (XO (XO (XO (XO (XI (XO (XI (XI (XO (XO (XO (XI (XO (XI (XO (XI (XO (XO
    (XI (XI (XO (XO (XI (XI (XO (XI
    XH))))))))))))))))))))))))))))))))))))))))))))))))))))))))))))))) :: ((Npos
    (XO (XI (XO (XO (XO (XO (XI (XO (XO (XO (XI (XI (XO (XO (XO (XO (XI (XI
    (XI (XO (XO (XO (XO (XO (XO (XO (XO (XI (XO (XI (XO (XO (XO (XO (XI (XI
    (XI (XO (XO (XI (XI (XO (XO (XO (XI (XI (XO (XI (XO (XI (XI (XI (XO (XI
    (XO (XO (XI (XO (XO (XI (XO (XO
    XH))))))))))))))))))))))))))))))))))))))))))))))))))))))))))))))) :: ((Npos
    (XO (XI (XI (XO (XI (XI (XI (XI (XI (XI (XI (XI (XI (XI (XO (XI (XO (XO
    (XI (XI (XI (XI (XO (XI (XO (XO (XI (XI (XI (XO (XO (XI (XI (XO (XO (XI
    (XO (XO (XI (XO (XI (XI (XO (XO (XI (XI (XI (XO (XI (XO (XI (XO (XO (XI
    (XO (XI (XI (XO (XO (XO (XO (XI (XI
    XH)))))))))))))))))))))))))))))))))))))))))))))))))))))))))))))))) :: ((Npos
    (XI (XO (XO (XO (XO (XI (XO (XI (XO (XO (XI (XI (XO (XO (XI (XI (XI (XI
    (XO (XO (XO (XO (XI (XI (XI (XO (XO (XO (XI (XI (XI (XI (XO (XI (XI (XI
    (XI (XO (XO (XO (XI (XO (XO (XI (XI (XO (XI (XO (XI (XI (XI (XO (XI (XO
    (XI (XO (XO (XO (XI (XI (XO (XO (XI
    XH)))))))))))))))))))))))))))))))))))))))))))))))))))))))))))))))) :: ((Npos
    (XI (XO (XI (XI (XO (XI (XO (XO (XO (XO (XI (XI (XO (XO (XI (XI (XI (XO
    (XI (XO (XI (XO (XI (XO (XO (XO (XI (XI (XO (XI (XI (XI (XO (XO (XO (XI
    (XI (XI (XO (XI (XO (XO (XO (XI (XO (XO (XI (XI (XI (XI (XO (XI (XO (XO
    (XI (XO (XO (XO (XO (XI (XI (XI (XI
    XH)))))))))))))))))))))))))))))))))))))))))))))))))))))))))))))))) :: [])))))))))))))))))))))))))))))))))))))))))))))))))))))))))))))))) :: [])))))))))))

(** val pUSH_VALUES : n list list **)

let pUSH_VALUES =
  ((Npos (XO (XO (XO (XI (XO (XI (XI (XO (XI (XO (XO (XO (XO (XI (XI (XO (XO
    (XO (XI (XO (XO (XO (XI (XI (XI (XI (XO (XO (XO (XI (XO (XO (XO (XI (XO
    (XI (XO (XO (XO (XI (XO (XO (XI (XO (XO (XO (XO (XI (XO (XO (XI (XI (XI
    (XI (XO (XO (XI (XO (XO (XO (XO (XO (XI
    XH)))))))))))))))))))))))))))))))))))))))))))))))))))))))))))))))) :: ((Npos
    (XO (XO (XI (XI (XI (XI (XI (XI (XO (XI (XI (XO (XO (XI (XO (XO (XI (XI
    (XO (XO (XI (XO (XI (XI (XO (XI (XO (XO (XI (XO (XO (XO (XI (XI (XO (XO
    (XO (XI (XO (XO (XO (XI (XI (XO (XI (XI (XI (XO (XO (XO (XI (XO (XO (XI
    (XI (XI (XI (XO (XI
    XH)))))))))))))))))))))))))))))))))))))))))))))))))))))))))))) :: ((Npos
    (XO (XI (XI (XI (XO (XI (XI (XO (XO (XI (XO (XO (XI (XI (XO (XO (XI (XO
    (XO (XO (XO (XO (XI (XI (XI (XO (XO (XO (XI (XI (XO (XI (XO (XO (XO (XI
    (XI (XO (XI (XO (XO (XI (XI (XO (XO (XO (XO (XI (XI (XO (XO (XI (XO (XO
    (XI (XO (XI (XI (XO (XI (XI (XO
    XH))))))))))))))))))))))))))))))))))))))))))))))))))))))))))))))) :: ((Npos
    (XO (XI (XO (XI (XI (XO (XO (XI (XO (XI (XO (XO (XI (XO (XI (XI (XI (XO
    (XI (XI (XI (XI (XO (XI (XO (XI (XO (XO (XI (XO (XO (XI (XO (XI (XO (XO
    (XI (XO (XI (XO (XI (XO (XO (XO (XO (XI (XI (XO (XI (XO (XI (XI (XI (XI
    (XO (XO (XI (XO (XI (XO (XO (XI
    XH))))))))))))))))))))))))))))))))))))))))))))))))))))))))))))))) :: ((Npos
    (XI (XO (XI (XI (XI (XI (XI (XO (XI (XI (XI (XO (XI (XO (XI (XO (XI (XO
    (XI (XI (XO (XO (XO (XI (XI (XI (XI (XO (XO (XO (XI (XI (XO (XI (XI (XO
    (XO (XO (XO (XI (XO (XI (XO (XO (XI (XI (XI (XI (XI (XI (XO (XO (XO (XI
    (XI (XO (XI (XO (XI (XI (XO (XI (XI
    XH)))))))))))))))))))))))))))))))))))))))))))))))))))))))))))))))) :: ((Npos
    (XO (XI (XO (XO (XO (XO (XI (XO (XI (XO (XI (XO (XO (XO (XI (XI (XO (XO
    (XI (XI (XO (XI (XI (XO (XO (XO (XO (XI (XO (XO (XI (XO (XI (XO (XI (XO
    (XO (XO (XO (XI (XO (XO (XO (XO (XI (XI (XI (XI (XO (XO (XI (XI (XI (XO
    (XO (XI (XO (XI (XO (XI (XI (XO (XO
    XH)))))))))))))))))))))))))))))))))))))))))))))))))))))))))))))))) :: ((Npos
    (XI (XI (XI (XI (XI (XO (XI (XI (XI (XI (XO (XI (XO (XO (XO (XI (XI (XI
    (XI (XO (XO (XI (XO (XI (XO (XO (XO (XI (XO (XI (XO (XI (XI (XO (XO (XI
    (XO (XI (XI (XO (XO (XO (XO (XI (XI (XI (XI (XI (XI (XI (XO (XO (XO (XO
    (XO (XI (XO (XI (XI (XO (XI (XI (XI
    XH)))))))))))))))))))))))))))))))))))))))))))))))))))))))))))))))) :: ((Npos
    (XI (XO (XI (XI (XO (XI (XI (XI (XO (XI (XO (XO (XI (XI (XO (XO (XI (XO
    (XI (XI (XI (XI (XI (XI (XO (XO (XO (XO (XO (XI (XO (XI (XI (XI (XI (XI
    (XI (XO (XO (XO (XI (XO (XI (XI (XO (XO (XI (XO (XO (XI (XO (XO (XI (XI
    (XO (XI (XI (XO (XI (XI (XI
    XH)))))))))))))))))))))))))))))))))))))))))))))))))))))))))))))) :: ((Npos
    (XI (XO (XI (XO (XO (XI (XO (XI (XO (XI (XI (XI (XI (XI (XO (XI (XI (XO
    (XI (XO (XO (XI (XO (XO (XO (XO (XI (XO (XO (XI (XO (XI (XO (XO (XI (XO
    (XI (XI (XI (XO (XO (XI (XO (XI (XO (XO (XI (XO (XI (XI (XO (XO (XI (XO
    (XO (XI (XI (XI (XO (XI (XI
    XH)))))))))))))))))))))))))))))))))))))))))))))))))))))))))))))) :: ((Npos
    (XO (XO (XO (XO (XO (XO (XI (XO (XO (XO (XO (XI (XO (XO (XO (XI (XO (XI
    (XI (XI (XO (XI (XI (XI (XO (XO (XO (XO (XO (XI (XO (XO (XO (XI (XO (XI
    (XI (XI (XI (XI (XO (XO (XI (XO (XO (XI (XI (XO (XO (XO (XI (XI (XI (XO
    (XI (XO (XI (XO (XI (XI (XO (XI
    XH))))))))))))))))))))))))))))))))))))))))))))))))))))))))))))))) :: ((Npos
    (XI (XI (XO (XI (XO (XO (XI (XO (XI (XI (XO (XI (XI (XI (XO (XI (XO (XI
    (XI (XI (XI (XI (XO (XO (XO (XO (XO (XO (XO (XO (XO (XI (XO (XI (XI (XO
    (XO (XO (XO (XI (XO (XO (XI (XO (XO (XI (XO (XI (XO (XO (XI (XI (XO (XO
    (XO (XO (XI (XI (XO (XO (XO (XI (XI
    XH)))))))))))))))))))))))))))))))))))))))))))))))))))))))))))))))) :: ((Npos
    (XO (XI (XO (XO (XO (XO (XO (XO (XO (XO (XO (XI (XO (XI (XO (XO (XI (XO
    (XI (XI (XI (XO (XI (XI (XI (XI (XO (XI (XO (XI (XO (XO (XI (XO (XO (XI
    (XO (XO (XO (XO (XO (XI (XO (XI (XI (XI (XI (XO (XO (XO (XO (XI (XI (XO
    (XO (XO (XI (XI (XI (XI (XO (XI (XI
    XH)))))))))))))))))))))))))))))))))))))))))))))))))))))))))))))))) :: ((Npos
    (XI (XI (XO (XI (XI (XO (XO (XO (XO (XO (XO (XI (XO (XO (XI (XI (XI (XO
    (XO (XO (XI (XI (XI (XO (XI (XI (XI (XI (XI (XO (XO (XI (XO (XO (XO (XO
    (XO (XI (XI (XO (XI (XO (XO (XO (XI (XO (XI (XO (XO (XI (XO (XO (XI (XO
    (XI (XI (XI (XO (XO (XO (XI (XO
    XH))))))))))))))))))))))))))))))))))))))))))))))))))))))))))))))) :: ((Npos
    (XI (XO (XI (XI (XO (XO (XO (XI (XO (XO (XI (XI (XO (XI (XI (XO (XI (XI
    (XI (XO (XI (XI (XO (XI (XI (XI (XO (XI (XO (XO (XI (XI (XI (XI (XI (XI
    (XO (XO (XI (XO (XO (XO (XI (XO (XO (XI (XI (XI (XI (XO (XI (XO (XI (XI
    (XI (XI (XI (XI (XO (XI (XI
    XH)))))))))))))))))))))))))))))))))))))))))))))))))))))))))))))) :: ((Npos
    (XI (XI (XO (XI (XI (XO (XI (XO (XO (XI (XI (XI (XO (XI (XI (XO (XI (XI
    (XO (XO (XI (XI (XO (XO (XO (XI (XO (XO (XI (XI (XO (XI (XO (XI (XO (XO
    (XI (XO (XI (XO (XI (XI (XI (XI (XO (XI (XI (XO (XO (XO (XO (XI (XO (XI
    (XI (XO (XI (XO (XI (XI (XO (XI (XI
    XH)))))))))))))))))))))))))))))))))))))))))))))))))))))))))))))))) :: ((Npos
    (XI (XI (XO (XO (XO (XO (XI (XO (XO (XI (XI (XI (XO (XO (XI (XO (XI (XI
    (XO (XO (XO (XO (XI (XI (XI (XO (XO (XI (XI (XI (XI (XO (XO (XO (XO (XO
    (XO (XI (XI (XO (XO (XI (XO (XO (XO (XI (XO (XO (XI (XO (XO (XO (XO (XI
    (XI (XO (XO (XI (XI (XO (XI
    XH)))))))))))))))))))))))))))))))))))))))))))))))))))))))))))))) :: ((Npos
    (XI (XO (XO (XI (XI (XO (XI (XO (XO (XO (XO (XO (XO (XI (XO (XI (XO (XO
    (XI (XI (XI (XI (XI (XI (XI (XI (XO (XO (XI (XI (XI (XO (XO (XI (XI (XI
    (XI (XO (XO (XI (XI (XO (XI (XO (XI (XO (XO (XI (XI (XI (XO (XI (XI (XI
    (XO (XI (XI (XO (XI (XO (XI
    XH)))))))))))))))))))))))))))))))))))))))))))))))))))))))))))))) :: ((Npos
    (XO (XO (XI (XI (XO (XI (XI (XO (XI (XI (XO (XO (XI (XO (XI (XO (XO (XI
    (XO (XI (XO (XI (XO (XI (XO (XI (XI (XO (XO (XO (XI (XO (XI (XO (XI (XI
    (XO (XI (XO (XO (XO (XO (XI (XI (XO (XI (XI (XO (XI (XI (XI (XO (XO (XI
    (XI (XO (XO (XO (XI (XO (XI (XO (XO
    XH)))))))))))))))))))))))))))))))))))))))))))))))))))))))))))))))) :: ((Npos
    (XO (XO (XI (XO (XO (XO (XI (XI (XO (XI (XI (XO (XI (XI (XI (XI (XO (XI
    (XI (XO (XI (XO (XO (XO (XI (XI (XI (XO (XI (XO (XI (XO (XO (XI (XI (XI
    (XO (XO (XO (XO (XI (XO (XO (XI (XO (XI (XO (XI (XI (XI (XO (XO (XI (XO
    (XO (XI (XI (XI (XO (XO (XO (XI (XI
    XH)))))))))))))))))))))))))))))))))))))))))))))))))))))))))))))))) :: ((Npos
    (XI (XO (XO (XI (XO (XO (XI (XI (XO (XO (XI (XO (XI (XI (XI (XO (XO (XI
    (XI (XO (XI (XI (XI (XO (XI (XI (XI (XO (XO (XO (XI (XI (XO (XO (XI (XI
    (XI (XO (XI (XI (XI (XI (XO (XI (XO (XI (XI (XO (XO (XI (XI (XI (XI (XI
    (XI (XI (XI (XI (XO (XI (XI (XI
    XH))))))))))))))))))))))))))))))))))))))))))))))))))))))))))))))) :: ((Npos
    (XO (XI (XI (XI (XO (XI (XI (XI (XI (XI (XO (XI (XO (XI (XI (XI (XO (XI
    (XI (XI (XO (XO (XI (XI (XO (XO (XI (XI (XO (XI (XI (XI (XI (XO (XI (XI
    (XI (XI (XO (XI (XO (XI (XI (XI (XO (XI (XO (XI (XI (XI (XI (XI (XI (XO
    (XO (XI (XI (XO (XI (XI (XO (XI
    XH))))))))))))))))))))))))))))))))))))))))))))))))))))))))))))))) :: ((Npos
    (XI (XI (XI (XO (XO (XI (XI (XI (XI (XO (XI (XO (XO (XO (XI (XO (XO (XI
    (XI (XI (XI (XI (XO (XI (XI (XO (XI (XO (XI (XI (XO (XO (XO (XI (XI (XI
    (XO (XI (XI (XO (XO (XI (XO (XO (XI (XO (XI (XI (XO (XO (XO (XO (XO (XI
    (XO (XO (XO (XO (XI (XI (XO (XO
    XH))))))))))))))))))))))))))))))))))))))))))))))))))))))))))))))) :: ((Npos
    (XO (XI (XO (XI (XO (XI (XO (XI (XO (XI (XO (XI (XI (XO (XI (XO (XO (XI
    (XO (XO (XI (XO (XO (XI (XO (XO (XO (XI (XO (XI (XO (XO (XI (XI (XO (XO
    (XI (XI (XI (XO (XI (XI (XI (XO (XI (XI (XO (XI (XI (XI (XI (XI (XI (XI
    (XI (XO (XO (XI (XO (XI (XO (XO (XO
    XH)))))))))))))))))))))))))))))))))))))))))))))))))))))))))))))))) :: ((Npos
    (XO (XO (XO (XI (XI (XI (XO (XI (XO (XO (XI (XO (XI (XI (XI (XI (XO (XO
    (XO (XO (XO (XI (XI (XO (XO (XO (XO (XI (XI (XI (XI (XI (XO (XI (XI (XI
    (XO (XI (XI (XI (XI (XI (XI (XO (XI (XI (XI (XO (XO (XO (XO (XO (XI (XO
    (XO (XI (XI (XO (XO (XI (XO (XI (XI
    XH)))))))))))))))))))))))))))))))))))))))))))))))))))))))))))))))) :: ((Npos
    (XI (XO (XO (XO (XO (XI (XO (XO (XO (XO (XO (XO (XO (XO (XO (XI (XI (XO
    (XO (XO (XI (XI (XO (XI (XI (XI (XO (XO (XO (XO (XI (XO (XO (XO (XI (XO
    (XI (XI (XI (XO (XO (XI (XI (XO (XI (XI (XI (XI (XI (XO (XI (XO (XO (XO
    (XI (XO (XI (XI (XO (XO (XO
    XH)))))))))))))))))))))))))))))))))))))))))))))))))))))))))))))) :: ((Npos
    (XO (XI (XO (XO (XI (XI (XO (XI (XO (XO (XO (XO (XO (XI (XI (XO (XI (XO
    (XO (XI (XI (XI (XO (XI (XI (XO (XI (XI (XO (XO (XI (XO (XI (XO (XI (XI
    (XO (XI (XI (XO (XO (XI (XO (XO (XO (XO (XI (XI (XI (XI (XI (XO (XO (XO
    (XI (XI (XO (XI (XO (XO (XO
    XH)))))))))))))))))))))))))))))))))))))))))))))))))))))))))))))) :: ((Npos
    (XO (XI (XI (XO (XO (XO (XO (XI (XO (XI (XI (XI (XI (XI (XO (XO (XO (XO
    (XO (XI (XI (XI (XI (XO (XI (XO (XO (XI (XI (XO (XO (XO (XI (XI (XO (XI
    (XI (XI (XO (XI (XI (XI (XO (XI (XI (XO (XO (XI (XO (XO (XI (XO (XI (XO
    (XO (XI (XI (XI (XI (XI
    XH))))))))))))))))))))))))))))))))))))))))))))))))))))))))))))) :: ((Npos
    (XO (XO (XI (XO (XO (XO (XO (XI (XO (XI (XI (XI (XO (XI (XI (XI (XO (XO
    (XI (XO (XO (XI (XI (XO (XI (XO (XI (XO (XO (XI (XO (XI (XO (XO (XI (XO
    (XO (XO (XI (XI (XO (XI (XO (XI (XO (XO (XI (XI (XI (XO (XO (XI (XO (XI
    (XO (XO (XI (XI (XI (XI (XI (XO
    XH))))))))))))))))))))))))))))))))))))))))))))))))))))))))))))))) :: ((Npos
    (XO (XI (XO (XO (XI (XO (XI (XO (XO (XI (XI (XI (XI (XO (XI (XI (XI (XI
    (XO (XO (XI (XO (XI (XI (XO (XI (XI (XI (XO (XI (XO (XI (XO (XO (XI (XI
    (XI (XI (XO (XI (XI (XO (XI (XI (XO (XI (XO (XI (XI (XI (XI (XO (XI (XI
    (XI (XI (XO (XO (XI (XO (XO (XI (XI
    XH)))))))))))))))))))))))))))))))))))))))))))))))))))))))))))))))) :: ((Npos
    (XO (XO (XI (XI (XI (XI (XO (XI (XO (XO (XI (XO (XO (XO (XI (XO (XO (XO
    (XI (XI (XO (XI (XI (XI (XO (XI (XO (XO (XI (XO (XO (XI (XO (XO (XI (XI
    (XI (XO (XO (XI (XI (XO (XO (XI (XO (XI (XI (XI (XI (XO (XI (XI (XI (XO
    (XI (XO (XO (XO (XI (XO (XI (XI
    XH))))))))))))))))))))))))))))))))))))))))))))))))))))))))))))))) :: ((Npos
    (XI (XO (XO (XO (XI (XI (XO (XI (XI (XI (XO (XO (XI (XO (XI (XI (XO (XO
    (XO (XI (XO (XO (XO (XI (XO (XO (XO (XO (XI (XO (XO (XO (XI (XO (XI (XI
    (XI (XI (XI (XI (XO (XO (XI (XI (XO (XO (XO (XO (XI (XI (XO (XI (XI (XO
    (XI (XO (XO (XO (XO (XO (XO (XI (XO
    XH)))))))))))))))))))))))))))))))))))))))))))))))))))))))))))))))) :: ((Npos
    (XO (XO (XI (XO (XI (XO (XO (XO (XI (XI (XO (XO (XI (XI (XO (XO (XO (XI
    (XI (XI (XO (XI (XO (XO (XO (XI (XO (XI (XO (XO (XO (XI (XI (XO (XI (XO
    (XI (XO (XO (XO (XI (XI (XI (XO (XI (XI (XO (XI (XI (XO (XO (XO (XI (XI
    (XO (XO (XI (XI (XI (XO (XI (XI
    XH))))))))))))))))))))))))))))))))))))))))))))))))))))))))))))))) :: ((Npos
    (XI (XO (XI (XI (XO (XI (XI (XO (XI (XI (XO (XI (XO (XI (XO (XI (XO (XO
    (XI (XI (XO (XO (XI (XI (XI (XO (XI (XI (XI (XO (XI (XO (XO (XI (XI (XI
    (XI (XI (XI (XI (XO (XO (XO (XI (XO (XI (XI (XI (XI (XO (XO (XO (XI (XI
    (XO (XO (XI (XI (XI (XO (XO (XO (XI
    XH)))))))))))))))))))))))))))))))))))))))))))))))))))))))))))))))) :: ((Npos
    (XI (XI (XO (XO (XO (XO (XO (XO (XO (XI (XI (XO (XO (XO (XO (XO (XO (XI
    (XI (XO (XI (XI (XO (XI (XO (XI (XO (XI (XI (XI (XI (XI (XO (XO (XI (XO
    (XO (XO (XO (XI (XO (XO (XO (XO (XI (XO (XI (XO (XO (XO (XI (XI (XO (XI
    (XO (XO (XO (XO (XO (XO (XO (XI (XI
    XH)))))))))))))))))))))))))))))))))))))))))))))))))))))))))))))))) :: ((Npos
    (XO (XO (XI (XO (XI (XI (XI (XO (XO (XO (XI (XI (XI (XO (XI (XI (XI (XI
    (XI (XO (XI (XI (XO (XO (XO (XO (XO (XO (XO (XO (XI (XO (XI (XO (XO (XO
    (XO (XO (XO (XO (XI (XI (XO (XI (XO (XI (XI (XI (XO (XI (XI (XO (XI (XO
    (XI (XO (XI (XO (XI (XI (XI
    XH)))))))))))))))))))))))))))))))))))))))))))))))))))))))))))))) :: ((Npos
    (XO (XO (XO (XO (XI (XO (XI (XI (XO (XO (XI (XO (XI (XI (XO (XO (XO (XI
    (XI (XO (XI (XO (XO (XI (XI (XO (XO (XI (XI (XI (XO (XO (XO (XO (XO (XO
    (XI (XO (XO (XO (XI (XI (XO (XI (XI (XI (XO (XO (XO (XO (XO (XO (XI (XO
    (XI (XO (XO (XI (XO (XO (XI (XI (XO
    XH)))))))))))))))))))))))))))))))))))))))))))))))))))))))))))))))) :: ((Npos
    (XI (XO (XI (XO (XI (XI (XI (XI (XO (XO (XO (XO (XO (XI (XI (XI (XO (XO
    (XI (XI (XI (XI (XO (XI (XI (XO (XO (XO (XI (XI (XI (XO (XO (XI (XO (XI
    (XO (XI (XI (XO (XO (XO (XO (XI (XO (XO (XI (XI (XI (XO (XO (XI (XO (XO
    (XI (XO (XI (XO (XO (XI (XO (XI
    XH))))))))))))))))))))))))))))))))))))))))))))))))))))))))))))))) :: ((Npos
    (XO (XI (XI (XI (XI (XO (XI (XO (XO (XO (XI (XI (XI (XI (XO (XI (XO (XI
    (XO (XO (XI (XI (XI (XO (XO (XO (XO (XI (XO (XO (XI (XI (XI (XI (XI (XO
    (XI (XI (XO (XO (XI (XO (XO (XO (XO (XO (XO (XI (XI (XO (XI (XO (XI (XI
    (XI (XI (XI (XO (XO (XI (XO (XI (XO
    XH)))))))))))))))))))))))))))))))))))))))))))))))))))))))))))))))) :: ((Npos
    (XI (XO (XO (XI (XO (XI (XI (XO (XI (XI (XI (XI (XI (XI (XI (XO (XI (XO
    (XO (XI (XI (XO (XI (XI (XI (XO (XI (XI (XO (XI (XO (XO (XO (XI (XO (XO
    (XI (XO (XO (XO (XO (XO (XO (XI (XO (XI (XI (XO (XI (XO (XO (XI (XO (XI
    (XO (XI (XO (XO (XI (XO (XO (XI
    XH))))))))))))))))))))))))))))))))))))))))))))))))))))))))))))))) :: ((Npos
    (XI (XO (XI (XO (XI (XO (XO (XO (XO (XO (XI (XO (XO (XI (XO (XI (XO (XO
    (XI (XI (XI (XO (XO (XI (XO (XI (XI (XO (XO (XI (XO (XO (XO (XO (XI (XO
    (XI (XI (XI (XO (XO (XO (XO (XO (XO (XI (XI (XO (XO (XO (XI (XO (XI (XO
    (XO (XI (XI (XO (XI (XI (XI (XO
    XH))))))))))))))))))))))))))))))))))))))))))))))))))))))))))))))) :: ((Npos
    (XO (XO (XO (XI (XI (XI (XI (XO (XO (XI (XI (XI (XO (XI (XO (XO (XO (XO
    (XI (XI (XO (XI (XO (XO (XI (XI (XI (XI (XO (XI (XO (XI (XI (XI (XO (XI
    (XI (XI (XO (XI (XI (XI (XO (XO (XI (XO (XO (XO (XO (XO (XI (XO (XO (XO
    (XI (XI (XI (XO (XO (XO (XI (XO (XI
    XH)))))))))))))))))))))))))))))))))))))))))))))))))))))))))))))))) :: ((Npos
    (XO (XO (XO (XI (XI (XO (XO (XI (XO (XI (XI (XO (XI (XO (XI (XO (XO (XI
    (XO (XO (XO (XO (XO (XO (XI (XI (XO (XO (XI (XI (XI (XO (XO (XI (XO (XI
    (XO (XO (XO (XI (XI (XI (XI (XI (XO (XO (XO (XO (XI (XO (XI (XI (XI (XO
    (XI (XO (XO (XO (XI (XI (XO (XO
    XH))))))))))))))))))))))))))))))))))))))))))))))))))))))))))))))) :: ((Npos
    (XI (XO (XI (XO (XO (XI (XI (XO (XO (XI (XO (XI (XO (XO (XI (XI (XO (XI
    (XO (XO (XO (XO (XI (XI (XI (XI (XO (XO (XO (XI (XO (XI (XI (XI (XO (XO
    (XO (XO (XI (XO (XI (XI (XO (XO (XI (XI (XO (XO (XO (XI (XI (XO (XI (XO
    (XO (XI (XO (XI (XO (XI (XO (XO (XI
    XH)))))))))))))))))))))))))))))))))))))))))))))))))))))))))))))))) :: ((Npos
    (XI (XI (XO (XI (XI (XI (XI (XI (XI (XI (XO (XI (XO (XO (XI (XI (XO (XI
    (XO (XI (XO (XO (XI (XI (XO (XO (XI (XI (XI (XI (XO (XI (XI (XI (XI (XI
    (XO (XI (XO (XO (XO (XO (XI (XI (XI (XO (XI (XO (XO (XI (XI (XI (XO (XO
    (XO (XO (XI (XI (XO (XO
    XH))))))))))))))))))))))))))))))))))))))))))))))))))))))))))))) :: ((Npos
    (XI (XI (XI (XO (XI (XO (XO (XI (XO (XO (XO (XI (XO (XO (XO (XO (XI (XI
    (XO (XO (XI (XO (XO (XO (XO (XI (XI (XI (XO (XO (XO (XI (XO (XO (XO (XO
    (XO (XO (XO (XO (XO (XI (XI (XO (XO (XI (XI (XO (XI (XO (XO (XO (XI (XO
    (XO (XI (XI (XI (XI (XI (XI (XI
    XH))))))))))))))))))))))))))))))))))))))))))))))))))))))))))))))) :: ((Npos
    (XI (XI (XI (XO (XI (XO (XO (XO (XO (XI (XI (XI (XI (XI (XO (XO (XO (XO
    (XO (XI (XI (XI (XO (XI (XO (XI (XI (XO (XO (XI (XO (XO (XO (XO (XO (XO
    (XO (XI (XI (XI (XO (XO (XI (XI (XI (XO (XI (XO (XO (XI (XI (XI (XO (XO
    (XI (XO (XI (XI (XO (XO
    XH))))))))))))))))))))))))))))))))))))))))))))))))))))))))))))) :: ((Npos
    (XO (XO (XO (XO (XI (XO (XO (XO (XI (XO (XI (XI (XI (XI (XI (XO (XO (XO
    (XI (XI (XO (XO (XI (XI (XO (XI (XO (XO (XI (XI (XO (XI (XI (XO (XI (XI
    (XO (XO (XI (XI (XI (XI (XO (XO (XO (XO (XI (XI (XO (XI (XO (XO (XI (XI
    (XO (XO (XI (XI (XO (XI (XI (XI (XO
    XH)))))))))))))))))))))))))))))))))))))))))))))))))))))))))))))))) :: ((Npos
    (XO (XO (XO (XI (XO (XO (XI (XI (XO (XO (XI (XO (XI (XI (XI (XI (XI (XO
    (XI (XI (XI (XO (XI (XI (XO (XI (XI (XI (XI (XI (XO (XI (XI (XO (XO (XI
    (XI (XO (XI (XO (XO (XI (XO (XO (XO (XO (XI (XO (XO (XO (XI (XO (XI (XO
    (XI (XI (XO (XI (XI (XO (XI (XO (XI
    XH)))))))))))))))))))))))))))))))))))))))))))))))))))))))))))))))) :: ((Npos
    (XO (XO (XO (XO (XI (XI (XO (XO (XO (XO (XO (XI (XI (XO (XI (XI (XO (XO
    (XO (XI (XO (XI (XI (XO (XI (XI (XO (XI (XI (XI (XO (XI (XI (XO (XO (XI
    (XI (XI (XI (XI (XI (XO (XI (XO (XO (XI (XI (XO (XI (XO (XO (XI (XI (XI
    (XI (XI (XI (XI (XO (XO (XI (XI (XO
    XH)))))))))))))))))))))))))))))))))))))))))))))))))))))))))))))))) :: ((Npos
    (XI (XO (XO (XI (XI (XO (XI (XI (XO (XI (XO (XI (XI (XI (XI (XO (XI (XI
    (XI (XO (XO (XI (XO (XO (XO (XI (XO (XI (XO (XO (XI (XI (XI (XO (XI (XI
    (XI (XI (XO (XI (XI (XI (XI (XI (XI (XO (XI (XI (XO (XI (XI (XI (XI (XI
    (XO (XO (XO (XO (XI (XI (XO (XI (XI
    XH)))))))))))))))))))))))))))))))))))))))))))))))))))))))))))))))) :: ((Npos
    (XI (XI (XI (XO (XI (XI (XI (XO (XI (XO (XO (XO (XO (XO (XI (XO (XO (XI
    (XO (XO (XI (XI (XO (XI (XI (XI (XO (XI (XO (XO (XO (XI (XI (XO (XI (XO
    (XI (XO (XO (XO (XI (XI (XI (XI (XO (XO (XI (XI (XO (XI (XO (XI (XI (XO
    (XO (XI (XO (XO (XO (XI (XI (XO (XO
    XH)))))))))))))))))))))))))))))))))))))))))))))))))))))))))))))))) :: ((Npos
    (XO (XI (XI (XO (XO (XI (XO (XI (XI (XI (XI (XI (XO (XO (XO (XO (XI (XO
    (XI (XO (XO (XO (XI (XI (XO (XI (XI (XI (XO (XO (XO (XI (XO (XI (XI (XI
    (XO (XO (XI (XO (XI (XO (XO (XI (XI (XI (XI (XO (XI (XO (XO (XO (XI (XI
    (XI (XO (XI (XO (XI (XO (XO (XO (XO
    XH)))))))))))))))))))))))))))))))))))))))))))))))))))))))))))))))) :: ((Npos
    (XO (XI (XI (XO (XI (XO (XO (XI (XO (XO (XO (XO (XO (XO (XI (XI (XI (XO
    (XO (XO (XO (XI (XI (XI (XO (XO (XI (XO (XO (XO (XI (XO (XI (XI (XO (XI
    (XO (XI (XO (XI (XO (XO (XO (XO (XI (XO (XO (XO (XO (XO (XI (XO (XO (XO
    (XO (XI (XI (XO (XO
    XH)))))))))))))))))))))))))))))))))))))))))))))))))))))))))))) :: ((Npos
    (XO (XI (XO (XO (XO (XI (XO (XI (XO (XO (XO (XI (XO (XI (XI (XO (XI (XI
    (XO (XO (XO (XI (XO (XI (XI (XI (XO (XI (XO (XI (XI (XI (XO (XI (XI (XI
    (XO (XI (XO (XO (XO (XO (XI (XI (XO (XO (XI (XI (XI (XI (XI (XO (XI (XI
    (XO (XO (XI (XO (XI (XI (XO (XO (XO
    XH)))))))))))))))))))))))))))))))))))))))))))))))))))))))))))))))) :: ((Npos
    (XO (XI (XI (XI (XI (XO (XI (XI (XO (XO (XO (XO (XI (XO (XO (XI (XI (XO
    (XO (XO (XO (XI (XO (XI (XI (XI (XO (XO (XI (XI (XI (XI (XO (XO (XO (XO
    (XO (XO (XI (XO (XO (XI (XI (XI (XI (XI (XI (XI (XI (XO (XI (XO (XO (XI
    (XI (XI (XI (XO (XO (XO (XO (XO (XI
    XH)))))))))))))))))))))))))))))))))))))))))))))))))))))))))))))))) :: ((Npos
    (XO (XO (XI (XO (XO (XO (XI (XO (XO (XO (XI (XO (XI (XI (XO (XI (XI (XO
    (XO (XI (XI (XO (XI (XO (XO (XO (XO (XO (XI (XI (XI (XI (XI (XI (XI (XI
    (XO (XI (XO (XI (XI (XO (XI (XI (XI (XO (XO (XI (XI (XI (XI (XI (XI (XO
    (XI (XI (XI (XI (XO (XI (XO (XI (XO
    XH)))))))))))))))))))))))))))))))))))))))))))))))))))))))))))))))) :: ((Npos
    (XI (XI (XO (XI (XI (XI (XI (XI (XO (XO (XO (XO (XI (XI (XI (XO (XI (XO
    (XI (XO (XI (XO (XO (XI (XO (XI (XO (XI (XO (XO (XO (XI (XO (XI (XI (XI
    (XI (XI (XO (XO (XO (XO (XO (XO (XI (XI (XI (XI (XO (XO (XI (XI (XI (XI
    (XI (XO (XO (XO (XI (XI (XI (XI (XI
    XH)))))))))))))))))))))))))))))))))))))))))))))))))))))))))))))))) :: ((Npos
    (XO (XI (XO (XI (XO (XI (XI (XI (XI (XO (XI (XO (XO (XI (XI (XO (XI (XI
    (XO (XO (XI (XI (XO (XI (XI (XO (XO (XO (XI (XO (XO (XI (XI (XO (XO (XI
    (XI (XO (XO (XO (XI (XO (XO (XO (XI (XI (XI (XO (XO (XI (XO (XI (XO (XO
    (XO (XI (XI (XI (XO (XI (XI (XO
    XH))))))))))))))))))))))))))))))))))))))))))))))))))))))))))))))) :: ((Npos
    (XO (XO (XO (XI (XO (XI (XO (XI (XO (XI (XO (XO (XI (XI (XI (XO (XI (XI
    (XO (XO (XO (XI (XI (XI (XI (XI (XI (XI (XO (XO (XO (XO (XI (XO (XI (XI
    (XO (XO (XO (XO (XO (XI (XO (XI (XI (XI (XI (XI (XO (XI (XO (XI (XO (XO
    (XO (XO (XO (XI (XI (XI (XO (XO (XI
    XH)))))))))))))))))))))))))))))))))))))))))))))))))))))))))))))))) :: ((Npos
    (XI (XO (XO (XI (XO (XI (XI (XO (XO (XO (XO (XO (XO (XI (XO (XI (XI (XO
    (XI (XI (XO (XI (XI (XI (XO (XI (XI (XI (XO (XI (XO (XO (XI (XI (XI (XI
    (XI (XO (XI (XI (XO (XO (XO (XI (XO (XO (XI (XO (XI (XI (XO (XO (XO (XI
    (XO (XI (XO (XI (XO (XI (XO (XI (XO
    XH)))))))))))))))))))))))))))))))))))))))))))))))))))))))))))))))) :: ((Npos
    (XI (XI (XI (XO (XI (XI (XO (XO (XO (XO (XI (XO (XI (XO (XO (XI (XO (XO
    (XI (XI (XI (XO (XI (XI (XI (XI (XO (XO (XI (XI (XI (XO (XO (XO (XI (XO
    (XO (XI (XI (XO (XI (XO (XO (XO (XI (XO (XO (XO (XO (XO (XI (XI (XO (XO
    (XI (XI (XI (XO (XO (XO (XO (XO (XO
    XH)))))))))))))))))))))))))))))))))))))))))))))))))))))))))))))))) :: ((Npos
    (XO (XI (XI (XI (XO (XI (XI (XO (XO (XO (XO (XI (XI (XI (XO (XO (XO (XO
    (XI (XO (XI (XO (XO (XO (XO (XI (XI (XI (XI (XI (XO (XO (XO (XO (XI (XI
    (XO (XI (XI (XI (XI (XI (XO (XI (XO (XO (XI (XO (XI (XO (XO (XI (XI (XO
    (XO (XO (XO (XI (XI (XI (XO (XI (XO
    XH)))))))))))))))))))))))))))))))))))))))))))))))))))))))))))))))) :: ((Npos
    (XO (XO (XO (XI (XO (XI (XI (XI (XI (XI (XO (XO (XI (XO (XO (XI (XO (XO
    (XO (XO (XI (XO (XO (XI (XO (XO (XI (XO (XI (XO (XI (XI (XO (XI (XI (XI
    (XO (XO (XI (XI (XI (XO (XI (XI (XI (XO (XO (XI (XO (XI (XO (XI (XI (XO
    (XI (XO (XO (XO (XO (XO (XI (XI (XO
    XH)))))))))))))))))))))))))))))))))))))))))))))))))))))))))))))))) :: ((Npos
    (XO (XO (XO (XI (XO (XO (XO (XI (XI (XO (XO (XI (XO (XI (XO (XO (XO (XO
    (XO (XI (XO (XI (XO (XO (XO (XI (XI (XO (XI (XO (XO (XI (XO (XO (XI (XI
    (XI (XO (XO (XI (XI (XO (XO (XI (XI (XI (XI (XO (XO (XI (XO (XO (XI (XO
    (XI (XI (XI (XI (XI
    XH)))))))))))))))))))))))))))))))))))))))))))))))))))))))))))) :: [])))))))))))))))))))))))))))))))))))))))))))))))))))))))))))))))) :: (((Npos
    (XO (XO (XI (XO (XO (XO (XO (XI (XO (XO (XI (XO (XI (XO (XO (XI (XI (XI
    (XO (XI (XO (XI (XO (XI (XI (XO (XO (XI (XI (XO (XO (XO (XO (XI (XO (XI
    (XI (XI (XI (XI (XO (XO (XI (XI (XO (XI (XI (XO (XO (XO (XI (XO (XI (XO
    (XI (XO (XI (XI (XO (XO (XO (XI (XO
    XH)))))))))))))))))))))))))))))))))))))))))))))))))))))))))))))))) :: ((Npos
    (XO (XI (XI (XO (XO (XO (XO (XI (XI (XI (XO (XO (XI (XO (XO (XO (XO (XO
    (XI (XI (XI (XO (XI (XO (XO (XO (XI (XI (XI (XI (XI (XO (XO (XO (XO (XI
    (XI (XO (XO (XI (XO (XI (XI (XO (XI (XO (XO (XI (XO (XI (XO (XI (XI (XI
    (XI (XO (XO (XI (XO (XI (XO
    XH)))))))))))))))))))))))))))))))))))))))))))))))))))))))))))))) :: ((Npos
    (XI (XO (XO (XO (XO (XI (XO (XI (XO (XI (XI (XI (XI (XO (XO (XI (XO (XI
    (XI (XI (XO (XO (XI (XI (XI (XI (XO (XI (XI (XO (XI (XI (XI (XO (XO (XI
    (XI (XO (XO (XO (XO (XI (XI (XI (XO (XI (XO (XO (XI (XO (XO (XO (XO (XO
    (XO (XO (XO (XI (XO (XI (XO (XO
    XH))))))))))))))))))))))))))))))))))))))))))))))))))))))))))))))) :: ((Npos
    (XO (XO (XO (XO (XO (XO (XO (XO (XO (XO (XI (XI (XO (XI (XI (XO (XI (XI
    (XO (XI (XO (XO (XI (XO (XO (XO (XI (XO (XO (XO (XI (XI (XI (XI (XI (XI
    (XI (XO (XO (XO (XO (XI (XI (XO (XI (XO (XO (XI (XO (XI (XO (XO (XI (XI
    (XO (XI (XO (XI (XO (XO (XI (XO (XO
    XH)))))))))))))))))))))))))))))))))))))))))))))))))))))))))))))))) :: ((Npos
    (XO (XI (XO (XO (XO (XI (XO (XO (XO (XO (XI (XI (XO (XI (XI (XO (XO (XO
    (XI (XO (XI (XI (XI (XI (XO (XI (XI (XI (XI (XI (XO (XO (XI (XI (XO (XI
    (XO (XO (XI (XI (XI (XO (XO (XI (XI (XI (XO (XO (XI (XI (XI (XO (XO (XI
    (XO (XO (XI (XO (XI (XI (XI (XO
    XH))))))))))))))))))))))))))))))))))))))))))))))))))))))))))))))) :: ((Npos
    (XO (XO (XO (XI (XI (XO (XI (XO (XO (XO (XI (XI (XI (XO (XI (XI (XO (XI
    (XO (XI (XI (XO (XO (XO (XO (XI (XO (XO (XI (XO (XI (XO (XO (XO (XO (XO
    (XO (XO (XI (XO (XO (XO (XO (XI (XO (XO (XO (XI (XO (XI (XO (XO (XI (XI
    (XI (XO (XI (XO (XO (XI (XI (XI (XO
    XH)))))))))))))))))))))))))))))))))))))))))))))))))))))))))))))))) :: ((Npos
    (XO (XO (XI (XO (XO (XO (XI (XO (XO (XI (XO (XI (XI (XI (XO (XO (XO (XO
    (XO (XO (XI (XI (XO (XI (XI (XO (XO (XO (XI (XO (XI (XO (XI (XO (XO (XI
    (XI (XO (XO (XO (XI (XI (XI (XO (XO (XO (XO (XO (XO (XO (XO (XO (XI (XI
    (XI (XI (XO (XO (XI (XO
    XH))))))))))))))))))))))))))))))))))))))))))))))))))))))))))))) :: ((Npos
    (XI (XO (XO (XO (XO (XI (XI (XI (XO (XI (XI (XI (XO (XO (XI (XO (XI (XO
    (XO (XO (XO (XO (XO (XI (XO (XO (XO (XO (XO (XO (XO (XO (XO (XO (XO (XO
    (XO (XI (XO (XI (XI (XO (XO (XI (XO (XO (XI (XO (XI (XO (XO (XI (XO (XI
    (XI (XO (XI (XO (XI (XI (XO (XO (XO
    XH)))))))))))))))))))))))))))))))))))))))))))))))))))))))))))))))) :: ((Npos
    (XO (XI (XI (XI (XI (XI (XI (XI (XI (XI (XO (XI (XI (XO (XI (XO (XI (XI
    (XI (XI (XI (XO (XO (XO (XO (XO (XO (XO (XO (XI (XI (XO (XO (XO (XI (XI
    (XO (XO (XI (XO (XO (XO (XO (XO (XO (XI (XO (XO (XI (XO (XO (XI (XO (XI
    (XO (XO (XO (XI (XI (XO (XO (XI
    XH))))))))))))))))))))))))))))))))))))))))))))))))))))))))))))))) :: ((Npos
    (XO (XO (XI (XI (XI (XI (XI (XI (XO (XI (XI (XO (XI (XO (XI (XI (XI (XO
    (XI (XO (XI (XI (XO (XI (XO (XO (XO (XO (XO (XO (XO (XO (XI (XO (XI (XI
    (XI (XI (XI (XO (XO (XO (XI (XO (XI (XO (XO (XO (XO (XI (XI (XO (XI (XO
    (XI (XI (XI (XO (XI (XI (XI (XO (XI
    XH)))))))))))))))))))))))))))))))))))))))))))))))))))))))))))))))) :: ((Npos
    (XI (XI (XI (XI (XO (XI (XI (XO (XO (XO (XO (XI (XO (XO (XO (XI (XO (XI
    (XI (XO (XI (XO (XI (XO (XI (XI (XI (XI (XI (XO (XO (XO (XO (XO (XO (XO
    (XI (XO (XI (XI (XO (XI (XO (XO (XI (XI (XI (XO (XO (XI (XO (XO (XO (XO
    (XO (XO (XI (XI (XO (XI (XI (XO (XI
    XH)))))))))))))))))))))))))))))))))))))))))))))))))))))))))))))))) :: ((Npos
    (XI (XI (XO (XI (XO (XI (XI (XO (XO (XI (XO (XO (XO (XO (XO (XI (XI (XI
    (XO (XO (XI (XO (XO (XI (XO (XO (XI (XI (XI (XO (XO (XO (XO (XI (XO (XI
    (XO (XO (XI (XI (XI (XI (XI (XO (XI (XO (XI (XI (XO (XO (XO (XI (XI (XO
    (XI (XO (XI (XI (XO (XO (XI (XI
    XH))))))))))))))))))))))))))))))))))))))))))))))))))))))))))))))) :: ((Npos
    (XO (XO (XI (XI (XI (XI (XI (XI (XO (XI (XI (XI (XI (XO (XO (XO (XI (XI
    (XI (XI (XO (XO (XO (XO (XI (XI (XI (XI (XI (XO (XI (XI (XI (XO (XI (XI
    (XI (XO (XI (XO (XI (XI (XO (XO (XO (XI (XO (XI (XO (XO (XO (XO (XO (XI
    (XO (XI (XI (XI (XI (XI (XI (XI (XO
    XH)))))))))))))))))))))))))))))))))))))))))))))))))))))))))))))))) :: ((Npos
    (XO (XI (XI (XO (XI (XI (XO (XO (XO (XI (XO (XO (XO (XI (XI (XI (XO (XO
    (XI (XI (XI (XO (XI (XI (XI (XI (XO (XI (XO (XO (XI (XO (XO (XI (XO (XO
    (XO (XO (XI (XI (XO (XI (XO (XI (XO (XI (XO (XI (XO (XI (XI (XO (XI (XO
    (XO (XO (XO (XO (XO (XI (XO (XI (XO
    XH)))))))))))))))))))))))))))))))))))))))))))))))))))))))))))))))) :: ((Npos
    (XO (XO (XO (XI (XO (XO (XO (XI (XI (XO (XO (XI (XI (XO (XI (XO (XI (XI
    (XI (XI (XI (XO (XI (XI (XO (XI (XO (XI (XO (XI (XO (XO (XI (XI (XI (XI
    (XO (XO (XO (XI (XI (XO (XI (XO (XI (XO (XO (XI (XO (XI (XO (XI (XO (XO
    (XI (XI (XO (XO (XI (XI (XO (XI (XI
    XH)))))))))))))))))))))))))))))))))))))))))))))))))))))))))))))))) :: ((Npos
    (XO (XO (XO (XI (XO (XI (XO (XO (XO (XO (XO (XO (XI (XI (XO (XO (XO (XI
    (XI (XI (XI (XO (XO (XO (XI (XI (XO (XI (XI (XO (XI (XI (XO (XI (XO (XI
    (XO (XI (XO (XO (XI (XI (XI (XI (XO (XO (XO (XO (XO (XO (XI (XO (XI (XI
    (XI (XI (XI (XI (XO (XI (XO (XI
    XH))))))))))))))))))))))))))))))))))))))))))))))))))))))))))))))) :: ((Npos
    (XI (XO (XO (XI (XO (XO (XO (XO (XO (XI (XI (XO (XO (XO (XI (XI (XI (XI
    (XO (XO (XO (XI (XI (XI (XO (XI (XO (XO (XI (XI (XI (XO (XI (XO (XO (XI
    (XI (XI (XI (XO (XO (XO (XO (XI (XO (XI (XO (XO (XO (XI (XO (XO (XI (XI
    (XI (XO (XO (XI (XI (XO (XI
    XH)))))))))))))))))))))))))))))))))))))))))))))))))))))))))))))) :: ((Npos
    (XO (XI (XI (XI (XO (XI (XO (XO (XO (XI (XO (XI (XI (XO (XO (XI (XI (XI
    (XI (XO (XO (XO (XO (XO (XI (XO (XI (XI (XI (XI (XO (XI (XI (XO (XI (XO
    (XO (XI (XI (XI (XI (XI (XO (XI (XI (XO (XI (XI (XO (XO (XO (XI (XI (XI
    (XI (XO (XI (XO (XO
    XH)))))))))))))))))))))))))))))))))))))))))))))))))))))))))))) :: ((Npos
    (XI (XO (XI (XI (XO (XO (XI (XI (XI (XO (XO (XO (XO (XO (XI (XO (XI (XI
    (XO (XO (XI (XO (XO (XI (XO (XI (XI (XO (XI (XO (XI (XO (XO (XO (XI (XO
    (XO (XI (XI (XI (XI (XI (XI (XI (XO (XI (XI (XO (XI (XI (XI (XI (XI (XO
    (XI (XO (XI (XO (XI (XO (XO (XO
    XH))))))))))))))))))))))))))))))))))))))))))))))))))))))))))))))) :: ((Npos
    (XI (XI (XO (XI (XO (XI (XI (XO (XI (XI (XO (XO (XO (XO (XO (XI (XI (XI
    (XO (XO (XO (XI (XI (XO (XI (XO (XI (XO (XO (XO (XO (XO (XO (XO (XO (XI
    (XI (XO (XO (XI (XI (XI (XO (XI (XO (XI (XI (XI (XO (XI (XI (XO (XO (XO
    (XO (XO (XO (XO (XO (XI (XI (XO
    XH))))))))))))))))))))))))))))))))))))))))))))))))))))))))))))))) :: ((Npos
    (XI (XO (XO (XI (XI (XI (XO (XO (XO (XO (XI (XO (XO (XI (XI (XO (XO (XO
    (XI (XO (XI (XI (XO (XO (XO (XI (XO (XI (XO (XO (XI (XI (XO (XO (XI (XI
    (XO (XO (XI (XI (XO (XI (XI (XO (XI (XO (XO (XO (XO (XI (XO (XI (XI (XO
    (XI (XO (XI (XO (XI (XI (XO (XO (XO
    XH)))))))))))))))))))))))))))))))))))))))))))))))))))))))))))))))) :: ((Npos
    (XO (XI (XI (XI (XO (XI (XI (XO (XI (XO (XO (XI (XI (XI (XI (XI (XO (XI
    (XI (XI (XI (XI (XO (XI (XO (XO (XO (XI (XO (XI (XI (XI (XO (XO (XO (XI
    (XO (XO (XO (XO (XO (XI (XO (XO (XO (XO (XO (XI (XO (XI (XI (XI (XO (XO
    (XO (XO (XI (XO (XI (XO (XI (XO (XO
    XH)))))))))))))))))))))))))))))))))))))))))))))))))))))))))))))))) :: ((Npos
    (XI (XI (XI (XO (XI (XI (XI (XI (XO (XI (XI (XI (XO (XI (XI (XI (XI (XI
    (XO (XO (XO (XI (XO (XO (XI (XO (XO (XI (XO (XI (XO (XI (XO (XO (XO (XI
    (XO (XI (XO (XO (XO (XO (XO (XI (XO (XO (XI (XI (XI (XO (XO (XO (XI (XI
    (XO (XI (XI (XO (XO (XO (XI
    XH)))))))))))))))))))))))))))))))))))))))))))))))))))))))))))))) :: ((Npos
    (XI (XI (XO (XI (XO (XI (XI (XO (XO (XI (XI (XO (XI (XI (XO (XI (XO (XI
    (XO (XI (XI (XI (XI (XI (XI (XI (XI (XO (XI (XI (XI (XI (XI (XI (XO (XO
    (XO (XO (XO (XI (XI (XI (XO (XI (XI (XI (XI (XI (XI (XO (XI (XO (XI (XO
    (XO (XO (XI (XI (XO (XI (XO (XI (XI
    XH)))))))))))))))))))))))))))))))))))))))))))))))))))))))))))))))) :: ((Npos
    (XI (XI (XI (XI (XO (XI (XI (XO (XI (XI (XO (XI (XO (XO (XO (XO (XO (XO
    (XI (XO (XI (XO (XO (XI (XI (XI (XI (XO (XO (XO (XI (XI (XI (XO (XI (XI
    (XI (XO (XI (XI (XI (XI (XI (XI (XO (XI (XO (XO (XI (XO (XI (XI (XO (XI
    (XO (XI (XI
    XH)))))))))))))))))))))))))))))))))))))))))))))))))))))))))) :: ((Npos
    (XI (XO (XO (XI (XO (XI (XI (XI (XI (XI (XO (XI (XI (XI (XO (XI (XO (XO
    (XI (XI (XI (XO (XI (XO (XO (XI (XO (XI (XI (XO (XI (XI (XO (XO (XO (XO
    (XO (XO (XI (XO (XO (XI (XO (XO (XI (XO (XI (XI (XI (XI (XI (XO (XO (XO
    (XI (XI (XO (XO (XO (XO (XI
    XH)))))))))))))))))))))))))))))))))))))))))))))))))))))))))))))) :: ((Npos
    (XI (XO (XI (XI (XI (XI (XI (XI (XI (XO (XI (XI (XI (XI (XO (XI (XO (XO
    (XO (XO (XI (XO (XO (XI (XI (XO (XO (XI (XO (XO (XO (XO (XI (XO (XI (XI
    (XI (XI (XO (XO (XO (XO (XO (XI (XI (XO (XO (XI (XI (XO (XO (XO (XO (XI
    (XI (XO (XI (XI (XI (XO (XI (XI (XO
    XH)))))))))))))))))))))))))))))))))))))))))))))))))))))))))))))))) :: ((Npos
    (XI (XI (XO (XO (XO (XO (XO (XI (XI (XO (XI (XI (XI (XO (XO (XO (XO (XI
    (XI (XI (XI (XI (XI (XI (XI (XO (XO (XI (XI (XI (XI (XI (XO (XO (XI (XI
    (XO (XI (XO (XI (XO (XI (XO (XO (XO (XO (XO (XO (XO (XO (XI (XI (XO (XO
    (XI (XI (XO (XO (XI (XI (XI (XO
    XH))))))))))))))))))))))))))))))))))))))))))))))))))))))))))))))) :: ((Npos
    (XI (XI (XI (XI (XI (XI (XI (XO (XI (XI (XI (XI (XO (XO (XI (XI (XI (XI
    (XI (XI (XI (XI (XO (XO (XI (XO (XI (XO (XI (XI (XO (XI (XI (XI (XO (XO
    (XI (XO (XO (XO (XI (XI (XI (XO (XI (XO (XI (XI (XO (XI (XI (XO (XI (XO
    (XI (XO (XI (XO (XO (XO (XO (XI (XO
    XH)))))))))))))))))))))))))))))))))))))))))))))))))))))))))))))))) :: ((Npos
    (XI (XI (XO (XI (XO (XI (XO (XO (XO (XI (XO (XO (XI (XI (XI (XO (XI (XO
    (XO (XO (XI (XO (XI (XI (XI (XI (XI (XO (XI (XO (XI (XO (XO (XI (XO (XI
    (XI (XI (XO (XI (XO (XO (XI (XO (XO (XO (XO (XI (XO (XO (XO (XO (XO (XO
    (XI (XI (XI (XI (XI (XO (XO (XO (XI
    XH)))))))))))))))))))))))))))))))))))))))))))))))))))))))))))))))) :: ((Npos
    (XO (XI (XI (XI (XI (XI (XO (XI (XI (XO (XI (XI (XI (XI (XO (XO (XI (XO
    (XO (XI (XO (XI (XO (XO (XO (XI (XO (XI (XI (XI (XO (XO (XI (XO (XO (XI
    (XO (XO (XI (XI (XI (XI (XO (XI (XO (XI (XI (XI (XI (XO (XI (XO (XI (XO
    (XI (XI (XO (XI (XI (XO (XI (XI (XO
    XH)))))))))))))))))))))))))))))))))))))))))))))))))))))))))))))))) :: ((Npos
    (XO (XO (XO (XI (XO (XI (XO (XO (XO (XO (XO (XO (XO (XO (XI (XI (XO (XO
    (XI (XI (XI (XO (XI (XO (XO (XI (XI (XI (XO (XO (XI (XO (XI (XI (XI (XO
    (XI (XI (XI (XI (XO (XO (XO (XO (XI (XO (XI (XI (XI (XO (XO (XI (XI (XO
    (XO (XO (XO (XO (XI (XI (XO (XI (XO
    XH)))))))))))))))))))))))))))))))))))))))))))))))))))))))))))))))) :: ((Npos
    (XO (XI (XO (XO (XO (XO (XO (XO (XI (XI (XI (XI (XI (XO (XI (XO (XO (XI
    (XI (XI (XI (XI (XO (XO (XI (XO (XI (XI (XO (XO (XI (XI (XO (XO (XO (XI
    (XI (XO (XO (XO (XO (XO (XI (XI (XI (XO (XO (XO (XO (XO (XO (XO (XO (XO
    (XI (XI (XI (XI (XO (XI (XO (XI
    XH))))))))))))))))))))))))))))))))))))))))))))))))))))))))))))))) :: ((Npos
    (XO (XI (XO (XI (XO (XO (XO (XO (XI (XI (XI (XI (XO (XO (XO (XO (XI (XI
    (XI (XO (XI (XO (XO (XO (XO (XI (XI (XI (XI (XO (XI (XO (XO (XO (XO (XO
    (XO (XI (XO (XO (XI (XO (XO (XI (XI (XI (XO (XI (XO (XO (XO (XI (XI (XI
    (XO (XO (XI (XI (XO (XO (XO
    XH)))))))))))))))))))))))))))))))))))))))))))))))))))))))))))))) :: ((Npos
    (XO (XI (XI (XO (XO (XI (XI (XI (XI (XI (XO (XI (XO (XO (XI (XO (XO (XI
    (XO (XO (XO (XO (XI (XI (XI (XO (XI (XI (XI (XO (XI (XI (XI (XI (XO (XO
    (XI (XO (XI (XI (XI (XI (XO (XO (XO (XI (XI (XO (XI (XI (XI (XI (XO (XI
    (XI (XI (XO (XI (XI (XI (XO (XO (XI
    XH)))))))))))))))))))))))))))))))))))))))))))))))))))))))))))))))) :: ((Npos
    (XO (XI (XO (XI (XI (XO (XI (XO (XO (XI (XO (XO (XI (XI (XI (XO (XO (XI
    (XO (XO (XI (XI (XI (XO (XO (XO (XO (XO (XO (XO (XO (XI (XO (XO (XI (XI
    (XO (XO (XO (XI (XO (XI (XO (XI (XO (XI (XI (XO (XI (XO (XO (XI (XO (XO
    (XI (XO (XO (XO (XI (XI (XO (XO (XO
    XH)))))))))))))))))))))))))))))))))))))))))))))))))))))))))))))))) :: ((Npos
    (XI (XO (XI (XO (XI (XI (XO (XI (XO (XI (XI (XI (XO (XI (XI (XI (XI (XO
    (XI (XI (XI (XO (XI (XI (XO (XO (XO (XI (XO (XO (XI (XI (XI (XI (XO (XI
    (XI (XI (XO (XO (XO (XI (XI (XO (XI (XI (XI (XI (XI (XO (XO (XI (XO (XI
    (XI (XO (XO (XI (XO (XO (XO (XI (XO
    XH)))))))))))))))))))))))))))))))))))))))))))))))))))))))))))))))) :: ((Npos
    (XO (XO (XO (XO (XI (XI (XO (XO (XI (XO (XI (XI (XI (XI (XO (XI (XI (XI
    (XO (XO (XI (XI (XI (XI (XO (XI (XO (XI (XI (XO (XO (XI (XO (XI (XI (XO
    (XO (XI (XI (XI (XI (XO (XO (XI (XI (XI (XO (XI (XO (XO (XI (XO (XI (XI
    (XO (XO (XO (XO (XO (XO (XI (XI (XO
    XH)))))))))))))))))))))))))))))))))))))))))))))))))))))))))))))))) :: ((Npos
    (XI (XO (XO (XI (XI (XI (XO (XI (XO (XO (XO (XI (XI (XO (XO (XO (XI (XO
    (XO (XI (XI (XO (XI (XI (XO (XO (XO (XI (XO (XO (XI (XI (XI (XI (XI (XI
    (XO (XI (XI (XO (XO (XI (XI (XI (XO (XO (XO (XO (XI (XI (XO (XO (XO (XI
    (XI (XO (XO (XO (XO (XO
    XH))))))))))))))))))))))))))))))))))))))))))))))))))))))))))))) :: ((Npos
    (XI (XO (XO (XI (XO (XO (XI (XI (XO (XO (XI (XO (XI (XO (XO (XI (XI (XO
    (XO (XI (XO (XI (XO (XO (XO (XI (XO (XI (XI (XO (XI (XO (XO (XI (XI (XO
    (XI (XO (XO (XI (XI (XI (XO (XI (XI (XI (XI (XI (XI (XI (XI (XO (XI (XI
    (XI (XI (XO (XI (XO (XI (XO (XO (XI
    XH)))))))))))))))))))))))))))))))))))))))))))))))))))))))))))))))) :: ((Npos
    (XI (XI (XO (XO (XO (XO (XO (XO (XO (XI (XO (XI (XO (XI (XI (XI (XO (XO
    (XO (XO (XI (XO (XI (XI (XI (XI (XI (XO (XI (XO (XO (XI (XI (XO (XO (XI
    (XO (XO (XO (XI (XI (XO (XI (XO (XO (XI (XO (XO (XI (XO (XI (XO (XO (XI
    (XO (XO (XO (XO (XI (XI
    XH))))))))))))))))))))))))))))))))))))))))))))))))))))))))))))) :: ((Npos
    (XI (XI (XO (XO (XI (XO (XO (XO (XI (XO (XO (XO (XI (XO (XI (XO (XO (XO
    (XO (XO (XI (XI (XO (XO (XI (XO (XO (XO (XO (XO (XO (XI (XO (XO (XI (XO
    (XI (XO (XI (XI (XI (XO (XO (XO (XI (XO (XI (XI (XO (XO (XO (XI (XO (XI
    (XO (XO (XI (XO (XI (XI (XI
    XH)))))))))))))))))))))))))))))))))))))))))))))))))))))))))))))) :: ((Npos
    (XO (XI (XI (XO (XI (XI (XI (XI (XO (XO (XO (XI (XI (XO (XI (XO (XO (XI
    (XO (XI (XI (XI (XI (XI (XI (XI (XI (XI (XO (XI (XO (XI (XO (XI (XO (XO
    (XO (XI (XI (XI (XO (XO (XI (XI (XI (XI (XO (XI (XO (XO (XO (XO (XO (XI
    (XO (XI (XI (XI (XO (XO (XO (XI (XI
    XH)))))))))))))))))))))))))))))))))))))))))))))))))))))))))))))))) :: ((Npos
    (XO (XO (XO (XI (XO (XO (XI (XO (XO (XO (XO (XO (XI (XO (XI (XO (XI (XI
    (XO (XI (XO (XO (XI (XO (XI (XI (XO (XI (XI (XO (XI (XO (XO (XI (XO (XI
    (XO (XI (XO (XI (XI (XI (XO (XO (XO (XI (XI (XI (XI (XO (XO (XO (XO (XO
    (XI (XI (XI (XI (XI (XI (XO (XO
    XH))))))))))))))))))))))))))))))))))))))))))))))))))))))))))))))) :: ((Npos
    (XO (XO (XO (XI (XI (XI (XO (XI (XO (XO (XO (XO (XO (XI (XI (XI (XO (XI
    (XI (XO (XI (XI (XI (XO (XI (XI (XO (XO (XO (XO (XI (XO (XI (XI (XO (XI
    (XI (XO (XI (XI (XO (XO (XI (XO (XO (XO (XO (XO (XI (XO (XI (XI (XI (XI
    (XI (XO (XO (XO (XI (XI (XO (XO (XO
    XH)))))))))))))))))))))))))))))))))))))))))))))))))))))))))))))))) :: ((Npos
    (XO (XI (XO (XO (XO (XI (XI (XO (XI (XI (XO (XI (XO (XI (XO (XI (XI (XI
    (XO (XO (XI (XO (XI (XO (XO (XI (XO (XI (XO (XI (XI (XO (XO (XO (XO (XO
    (XI (XO (XO (XO (XO (XI (XO (XO (XI (XI (XI (XI (XO (XO (XO (XO (XI (XO
    (XI (XI (XO (XI (XO (XO (XI (XI (XO
    XH)))))))))))))))))))))))))))))))))))))))))))))))))))))))))))))))) :: ((Npos
    (XI (XI (XI (XI (XO (XO (XO (XI (XI (XI (XO (XO (XI (XI (XO (XO (XI (XI
    (XO (XO (XI (XI (XI (XO (XO (XO (XO (XO (XI (XI (XI (XO (XO (XI (XO (XI
    (XO (XI (XO (XI (XI (XO (XI (XO (XO (XO (XI (XO (XI (XO (XI (XI (XI (XO
    (XI (XI (XO (XI (XO (XO (XI (XI (XI
    XH)))))))))))))))))))))))))))))))))))))))))))))))))))))))))))))))) :: ((Npos
    (XI (XI (XI (XI (XI (XO (XO (XO (XI (XI (XI (XI (XI (XI (XO (XI (XI (XO
    (XI (XO (XO (XI (XI (XI (XO (XI (XO (XI (XI (XI (XO (XO (XO (XO (XO (XO
    (XI (XI (XI (XO (XO (XO (XO (XI (XI (XI (XI (XI (XO (XI (XO (XI (XI (XI
    (XI (XI (XI (XI (XI (XO (XI (XI (XI
    XH)))))))))))))))))))))))))))))))))))))))))))))))))))))))))))))))) :: ((Npos
    (XI (XO (XO (XI (XO (XI (XO (XO (XO (XO (XI (XI (XO (XI (XO (XI (XI (XI
    (XO (XI (XO (XO (XI (XI (XI (XI (XO (XI (XO (XI (XI (XI (XO (XO (XO (XI
    (XI (XO (XI (XO (XO (XO (XI (XI (XI (XI (XI (XI (XI (XI (XI (XI (XO (XI
    (XO (XO (XO (XI (XO (XO (XO (XO (XI
    XH)))))))))))))))))))))))))))))))))))))))))))))))))))))))))))))))) :: ((Npos
    (XI (XI (XI (XI (XI (XO (XO (XI (XI (XO (XI (XO (XO (XO (XO (XO (XI (XI
    (XO (XI (XI (XI (XO (XO (XI (XI (XO (XO (XO (XO (XI (XI (XI (XI (XO (XO
    (XO (XO (XO (XI (XI (XI (XI (XI (XI (XI (XI (XI (XO (XI (XI (XO (XO (XO
    (XI (XI (XI (XO (XI (XO (XI (XI (XI
    XH)))))))))))))))))))))))))))))))))))))))))))))))))))))))))))))))) :: ((Npos
    (XO (XO (XI (XI (XO (XI (XI (XI (XO (XO (XO (XO (XI (XO (XO (XI (XI (XI
    (XI (XO (XI (XI (XO (XO (XI (XO (XI (XI (XO (XO (XO (XO (XO (XI (XO (XO
    (XO (XI (XI (XI (XI (XO (XO (XO (XO (XI (XI (XI (XI (XO (XI (XO (XO (XO
    (XI (XO (XO (XO (XO (XO (XI
    XH)))))))))))))))))))))))))))))))))))))))))))))))))))))))))))))) :: ((Npos
    (XO (XI (XI (XI (XO (XO (XI (XI (XO (XI (XO (XI (XO (XI (XI (XI (XO (XO
    (XI (XI (XO (XO (XO (XO (XI (XI (XI (XI (XO (XO (XO (XO (XI (XO (XO (XO
    (XI (XI (XO (XI (XI (XI (XI (XI (XO (XO (XO (XI (XI (XI (XI (XO (XI (XI
    (XI (XO (XI (XO (XO (XO (XI (XI (XI
    XH)))))))))))))))))))))))))))))))))))))))))))))))))))))))))))))))) :: ((Npos
    (XO (XO (XI (XI (XI (XI (XO (XI (XI (XI (XO (XO (XO (XI (XO (XO (XO (XO
    (XI (XO (XO (XO (XO (XO (XO (XO (XO (XI (XO (XI (XI (XO (XO (XI (XI (XI
    (XI (XO (XO (XO (XO (XI (XI (XO (XI (XI (XI (XO (XI (XI (XI (XI (XI (XO
    (XI (XO (XO (XO (XO (XO (XO (XI (XI
    XH)))))))))))))))))))))))))))))))))))))))))))))))))))))))))))))))) :: ((Npos
    (XO (XI (XI (XO (XO (XO (XO (XO (XI (XI (XI (XI (XI (XO (XO (XO (XO (XO
    (XI (XI (XO (XO (XO (XO (XO (XI (XO (XO (XO (XO (XI (XI (XI (XO (XO (XO
    (XO (XI (XO (XI (XI (XO (XO (XI (XI (XO (XO (XI (XO (XO (XO (XI (XO (XO
    (XO (XO (XI (XI (XI (XI (XI (XI (XO
    XH)))))))))))))))))))))))))))))))))))))))))))))))))))))))))))))))) :: ((Npos
    (XO (XO (XO (XI (XI (XI (XO (XO (XI (XI (XO (XO (XI (XI (XI (XI (XI (XO
    (XI (XI (XI (XO (XO (XO (XI (XI (XO (XI (XI (XO (XO (XI (XI (XI (XI (XO
    (XO (XO (XI (XI (XI (XO (XI (XI (XI (XO (XO (XI (XO (XI (XO (XI (XO (XO
    (XO (XO (XO (XI (XI (XI (XI (XO (XI
    XH)))))))))))))))))))))))))))))))))))))))))))))))))))))))))))))))) :: ((Npos
    (XI (XI (XI (XI (XI (XI (XI (XI (XO (XI (XO (XI (XO (XO (XO (XI (XI (XO
    (XO (XO (XO (XO (XO (XO (XO (XO (XO (XI (XO (XO (XI (XI (XO (XI (XO (XI
    (XO (XI (XO (XO (XI (XI (XI (XO (XI (XI (XO (XO (XI (XI (XI (XI (XI (XO
    (XO (XO (XI (XO (XI (XO (XI (XI (XO
    XH)))))))))))))))))))))))))))))))))))))))))))))))))))))))))))))))) :: ((Npos
    (XI (XI (XO (XO (XO (XO (XI (XO (XI (XI (XI (XO (XO (XI (XO (XI (XI (XO
    (XO (XO (XI (XO (XI (XO (XI (XI (XI (XI (XO (XO (XI (XO (XO (XI (XI (XO
    (XO (XO (XO (XI (XO (XI (XO (XO (XO (XI (XO (XO (XI (XI (XO (XO (XO (XO
    (XI (XO (XI (XO (XO (XO (XO (XI (XI
    XH)))))))))))))))))))))))))))))))))))))))))))))))))))))))))))))))) :: ((Npos
    (XO (XO (XI (XI (XI (XO (XO (XO (XO (XO (XI (XO (XO (XO (XO (XO (XI (XO
    (XO (XI (XI (XI (XO (XO (XI (XO (XO (XO (XO (XO (XI (XI (XO (XO (XI (XI
    (XO (XI (XO (XO (XO (XI (XO (XO (XI (XO (XI (XI (XO (XO (XO (XO (XI (XO
    (XO (XI (XO (XO (XO (XO (XI (XI
    XH))))))))))))))))))))))))))))))))))))))))))))))))))))))))))))))) :: ((Npos
    (XI (XO (XO (XI (XI (XI (XI (XI (XI (XI (XO (XI (XI (XO (XI (XI (XO (XI
    (XO (XI (XI (XO (XO (XI (XI (XI (XO (XI (XO (XI (XI (XI (XI (XO (XI (XI
    (XI (XO (XO (XI (XO (XI (XO (XI (XI (XO (XO (XO (XO (XI (XI (XI (XI (XO
    (XO (XO (XO (XO (XO (XO (XI (XO (XO
    XH)))))))))))))))))))))))))))))))))))))))))))))))))))))))))))))))) :: ((Npos
    (XI (XO (XO (XO (XI (XO (XI (XO (XI (XI (XI (XI (XO (XO (XI (XI (XI (XI
    (XI (XO (XO (XO (XI (XI (XO (XO (XO (XI (XI (XI (XO (XO (XI (XI (XI (XO
    (XO (XO (XI (XO (XI (XI (XI (XI (XI (XI (XI (XI (XO (XO (XO (XI (XO (XI
    (XI (XO (XO (XO (XI (XO (XI (XO (XI
    XH)))))))))))))))))))))))))))))))))))))))))))))))))))))))))))))))) :: ((Npos
    (XI (XI (XI (XO (XO (XO (XI (XI (XI (XI (XI (XI (XO (XO (XO (XO (XI (XI
    (XI (XO (XO (XI (XO (XO (XI (XI (XO (XI (XI (XI (XO (XO (XO (XI (XO (XO
    (XO (XO (XO (XI (XI (XI (XO (XI (XO (XI (XI (XO (XI (XI (XO (XI (XI (XO
    (XI (XI (XI (XO (XI (XI (XO (XI (XO
    XH)))))))))))))))))))))))))))))))))))))))))))))))))))))))))))))))) :: ((Npos
    (XI (XO (XO (XO (XI (XI (XI (XI (XO (XO (XO (XI (XO (XO (XI (XI (XO (XO
    (XI (XO (XI (XI (XI (XI (XO (XO (XO (XI (XO (XO (XI (XI (XI (XO (XI (XO
    (XI (XI (XO (XI (XI (XI (XI (XO (XO (XI (XO (XI (XI (XI (XO (XI (XI (XI
    (XO (XI (XI (XI (XO (XI (XI (XO (XI
    XH)))))))))))))))))))))))))))))))))))))))))))))))))))))))))))))))) :: ((Npos
    (XO (XI (XI (XI (XO (XI (XO (XI (XI (XO (XI (XI (XI (XO (XO (XO (XO (XO
    (XI (XI (XI (XO (XO (XI (XO (XI (XI (XI (XI (XO (XI (XI (XO (XI (XI (XO
    (XI (XI (XO (XO (XI (XO (XI (XI (XO (XI (XI (XI (XI (XO (XO (XO (XI (XO
    (XI (XI (XO (XO (XI (XO (XI (XO (XO
    XH)))))))))))))))))))))))))))))))))))))))))))))))))))))))))))))))) :: ((Npos
    (XI (XI (XO (XI (XO (XI (XI (XI (XI (XI (XI (XO (XO (XI (XI (XO (XO (XO
    (XI (XO (XO (XO (XI (XI (XO (XO (XO (XI (XI (XI (XO (XI (XI (XO (XO (XI
    (XI (XO (XO (XO (XI (XI (XI (XO (XO (XI (XI (XI (XI (XO (XO (XO (XO (XI
    (XI (XO (XO (XO (XI (XI
    XH))))))))))))))))))))))))))))))))))))))))))))))))))))))))))))) :: [])))))))))))))))))))))))))))))))))))))))))))))))))))))))))))))))) :: (((Npos
    (XI (XI (XO (XI (XI (XI (XO (XO (XI (XI (XO (XO (XI (XI (XI (XO (XI (XO
    (XI (XI (XO (XI (XI (XI (XO (XO (XO (XI (XO (XO (XI (XO (XI (XO (XI (XI
    (XI (XI (XI (XO (XO (XO (XI (XO (XO (XI (XI (XI (XI (XO (XO (XI (XO (XI
    (XI (XO (XI (XI (XI (XO (XO (XO (XO
    XH)))))))))))))))))))))))))))))))))))))))))))))))))))))))))))))))) :: ((Npos
    (XI (XO (XI (XI (XI (XI (XO (XO (XO (XO (XO (XI (XI (XI (XI (XI (XO (XI
    (XO (XO (XO (XO (XI (XO (XI (XI (XI (XO (XO (XI (XI (XO (XI (XO (XI (XI
    (XO (XI (XI (XI (XI (XO (XO (XO (XO (XO (XO (XI (XO (XI (XI (XI (XI (XI
    (XO (XO (XI (XI (XO (XI (XI (XO
    XH))))))))))))))))))))))))))))))))))))))))))))))))))))))))))))))) :: ((Npos
    (XI (XI (XO (XO (XI (XO (XI (XI (XO (XO (XI (XO (XI (XO (XI (XI (XI (XI
    (XO (XI (XO (XI (XO (XI (XO (XO (XO (XO (XO (XI (XO (XO (XO (XO (XO (XO
    (XI (XO (XO (XI (XO (XI (XI (XI (XI (XI (XO (XI (XO (XI (XI (XO (XO (XO
    (XO (XI (XI (XI (XO (XO (XI (XO (XI
    XH)))))))))))))))))))))))))))))))))))))))))))))))))))))))))))))))) :: ((Npos
    (XI (XO (XI (XO (XI (XI (XI (XI (XI (XO (XI (XI (XO (XO (XO (XO (XI (XI
    (XO (XI (XI (XI (XI (XO (XO (XI (XI (XI (XO (XI (XO (XI (XO (XI (XI (XO
    (XO (XI (XI (XO (XI (XI (XI (XI (XO (XI (XI (XO (XO (XI (XI (XO (XI (XO
    (XO (XI (XO (XI (XO (XO (XI (XO
    XH))))))))))))))))))))))))))))))))))))))))))))))))))))))))))))))) :: ((Npos
    (XO (XI (XI (XI (XI (XO (XI (XO (XI (XI (XI (XO (XI (XO (XI (XO (XI (XI
    (XI (XI (XO (XO (XO (XO (XI (XO (XI (XI (XO (XI (XO (XI (XO (XI (XO (XI
    (XI (XI (XI (XI (XI (XO (XO (XI (XI (XI (XO (XI (XI (XI (XO (XI (XI (XO
    (XI (XI (XO (XO (XO (XI
    XH))))))))))))))))))))))))))))))))))))))))))))))))))))))))))))) :: ((Npos
    (XO (XI (XO (XI (XI (XI (XO (XI (XO (XO (XI (XO (XO (XO (XI (XO (XO (XI
    (XI (XI (XI (XO (XO (XI (XO (XI (XO (XO (XO (XO (XI (XO (XI (XO (XI (XO
    (XI (XI (XI (XI (XI (XO (XI (XI (XI (XI (XI (XI (XI (XO (XI (XI (XI (XO
    (XO (XO (XO (XI (XO (XO (XI (XI
    XH))))))))))))))))))))))))))))))))))))))))))))))))))))))))))))))) :: ((Npos
    (XO (XI (XO (XO (XI (XO (XO (XI (XI (XI (XO (XI (XI (XI (XI (XO (XI (XI
    (XI (XI (XI (XO (XO (XO (XI (XI (XI (XO (XO (XO (XI (XO (XO (XO (XI (XO
    (XO (XO (XI (XI (XI (XO (XI (XI (XI (XO (XO (XO (XO (XO (XO (XO (XI (XI
    (XI (XO (XO (XI (XI (XO (XI (XO (XI
    XH)))))))))))))))))))))))))))))))))))))))))))))))))))))))))))))))) :: ((Npos
    (XI (XO (XI (XO (XI (XO (XI (XO (XI (XO (XI (XI (XI (XO (XO (XO (XI (XO
    (XI (XO (XI (XO (XI (XO (XI (XI (XO (XI (XO (XI (XO (XO (XI (XO (XO (XI
    (XI (XI (XI (XI (XO (XI (XO (XO (XI (XI (XI (XI (XI (XI (XO (XO (XO (XI
    (XO (XI (XI (XI (XI (XI
    XH))))))))))))))))))))))))))))))))))))))))))))))))))))))))))))) :: ((Npos
    (XI (XI (XO (XI (XI (XI (XO (XO (XO (XO (XO (XI (XO (XO (XO (XO (XO (XO
    (XI (XI (XI (XI (XI (XO (XO (XO (XI (XO (XI (XI (XI (XO (XO (XO (XI (XO
    (XI (XI (XI (XO (XO (XI (XO (XO (XI (XI (XI (XI (XI (XI (XI (XI (XI (XI
    (XI (XI (XI (XO (XI (XI
    XH))))))))))))))))))))))))))))))))))))))))))))))))))))))))))))) :: ((Npos
    (XO (XO (XI (XI (XO (XO (XI (XI (XI (XO (XO (XO (XI (XI (XI (XO (XI (XI
    (XI (XI (XI (XO (XI (XO (XI (XI (XI (XI (XI (XO (XO (XI (XI (XI (XI (XO
    (XI (XI (XO (XI (XI (XO (XI (XO (XI (XO (XI (XO (XI (XO (XO (XI (XO (XI
    (XO (XI (XI (XO (XI (XI (XI (XI (XO
    XH)))))))))))))))))))))))))))))))))))))))))))))))))))))))))))))))) :: ((Npos
    (XI (XO (XO (XI (XI (XO (XI (XO (XO (XO (XO (XO (XI (XI (XO (XI (XO (XI
    (XO (XO (XI (XO (XO (XI (XI (XI (XO (XI (XO (XO (XI (XI (XI (XI (XO (XI
    (XO (XI (XO (XO (XO (XO (XI (XI (XI (XI (XI (XI (XI (XI (XI (XI (XI (XO
    (XI (XI (XO (XO (XI (XO (XO (XI (XI
    XH)))))))))))))))))))))))))))))))))))))))))))))))))))))))))))))))) :: ((Npos
    (XO (XO (XO (XO (XO (XI (XO (XO (XO (XO (XI (XI (XI (XO (XI (XO (XI (XI
    (XI (XO (XI (XI (XO (XO (XO (XI (XO (XO (XI (XI (XI (XO (XO (XI (XO (XI
    (XI (XI (XI (XO (XO (XO (XO (XO (XI (XO (XO (XI (XO (XO (XO (XI (XI (XO
    (XO (XI (XO (XO (XO (XI (XI (XO (XI
    XH)))))))))))))))))))))))))))))))))))))))))))))))))))))))))))))))) :: ((Npos
    (XO (XI (XO (XO (XO (XI (XO (XO (XO (XO (XI (XO (XI (XI (XO (XO (XO (XI
    (XO (XI (XI (XO (XO (XI (XO (XO (XI (XI (XO (XI (XI (XO (XO (XO (XI (XI
    (XI (XI (XO (XI (XO (XI (XI (XO (XO (XO (XO (XI (XI (XI (XI (XI (XI (XI
    (XI (XI (XI (XO (XI (XO (XI (XO
    XH))))))))))))))))))))))))))))))))))))))))))))))))))))))))))))))) :: ((Npos
    (XO (XO (XO (XI (XI (XO (XO (XI (XI (XO (XO (XI (XI (XO (XI (XI (XO (XO
    (XI (XO (XI (XI (XI (XO (XO (XI (XO (XI (XI (XI (XO (XO (XO (XI (XO (XO
    (XI (XO (XI (XI (XI (XI (XO (XI (XI (XI (XO (XO (XO (XI (XO (XO (XO (XI
    (XO (XI (XI (XO (XI (XO (XI (XO
    XH))))))))))))))))))))))))))))))))))))))))))))))))))))))))))))))) :: ((Npos
    (XI (XO (XO (XI (XO (XO (XO (XO (XO (XI (XO (XI (XI (XI (XO (XO (XO (XO
    (XI (XO (XI (XO (XI (XO (XI (XI (XO (XO (XI (XO (XO (XI (XO (XO (XI (XO
    (XI (XI (XI (XI (XO (XO (XI (XO (XO (XI (XI (XI (XI (XO (XI (XO (XO (XI
    (XI (XI (XI (XO (XO (XO (XI (XO (XI
    XH)))))))))))))))))))))))))))))))))))))))))))))))))))))))))))))))) :: ((Npos
    (XI (XI (XO (XI (XO (XI (XO (XO (XI (XO (XI (XI (XI (XI (XO (XI (XO (XI
    (XI (XI (XO (XI (XI (XO (XO (XO (XI (XI (XO (XO (XO (XI (XI (XI (XI (XI
    (XO (XI (XI (XO (XO (XI (XO (XO (XO (XI (XI (XI (XO (XO (XI (XO (XO (XI
    (XI (XO (XO (XI (XO (XO (XI (XO
    XH))))))))))))))))))))))))))))))))))))))))))))))))))))))))))))))) :: ((Npos
    (XI (XO (XI (XO (XI (XI (XI (XO (XO (XO (XO (XO (XO (XI (XO (XO (XI (XI
    (XI (XI (XO (XO (XO (XI (XO (XI (XI (XO (XO (XI (XI (XO (XI (XO (XO (XO
    (XO (XO (XI (XO (XI (XO (XI (XO (XI (XO (XO (XO (XI (XO (XO (XO (XI (XO
    (XI (XO (XI (XO (XO (XI (XI (XI (XO
    XH)))))))))))))))))))))))))))))))))))))))))))))))))))))))))))))))) :: ((Npos
    (XO (XO (XO (XO (XI (XI (XO (XI (XI (XO (XI (XI (XI (XI (XO (XI (XI (XI
    (XO (XO (XI (XO (XI (XO (XI (XO (XI (XO (XI (XI (XO (XI (XI (XI (XO (XI
    (XI (XI (XI (XO (XO (XO (XO (XO (XI (XO (XI (XI (XO (XO (XI (XI (XO (XO
    (XI (XO (XI (XO (XI (XI (XO (XO
    XH))))))))))))))))))))))))))))))))))))))))))))))))))))))))))))))) :: ((Npos
    (XI (XO (XI (XO (XI (XO (XO (XI (XI (XI (XO (XO (XO (XI (XO (XO (XO (XO
    (XI (XI (XI (XO (XI (XI (XO (XO (XI (XI (XO (XI (XI (XO (XI (XO (XO (XO
    (XI (XI (XO (XO (XO (XI (XI (XO (XI (XO (XI (XO (XI (XI (XO (XO (XI (XI
    (XO (XO (XI (XI (XO (XO (XI (XI
    XH))))))))))))))))))))))))))))))))))))))))))))))))))))))))))))))) :: ((Npos
    (XO (XO (XI (XI (XO (XO (XI (XO (XI (XI (XI (XI (XI (XO (XI (XI (XO (XO
    (XI (XO (XI (XO (XO (XO (XO (XO (XI (XI (XO (XI (XI (XI (XI (XO (XI (XO
    (XI (XO (XI (XI (XI (XI (XI (XO (XO (XO (XI (XI (XO (XO (XI (XO (XO (XO
    (XO (XI (XI (XI (XO
    XH)))))))))))))))))))))))))))))))))))))))))))))))))))))))))))) :: ((Npos
    (XI (XO (XO (XO (XO (XO (XI (XO (XO (XO (XI (XI (XO (XO (XO (XO (XI (XO
    (XI (XO (XO (XI (XI (XO (XI (XO (XI (XO (XO (XO (XO (XI (XO (XI (XO (XO
    (XI (XO (XO (XO (XI (XI (XI (XI (XO (XI (XI (XI (XI (XI (XI (XO (XI (XI
    (XI (XI (XO (XI (XO (XI (XI (XO (XO
    XH)))))))))))))))))))))))))))))))))))))))))))))))))))))))))))))))) :: ((Npos
    (XI (XI (XO (XO (XI (XO (XO (XO (XI (XO (XO (XI (XI (XI (XO (XO (XI (XI
    (XO (XO (XI (XI (XO (XO (XO (XO (XI (XO (XI (XO (XI (XO (XI (XO (XI (XI
    (XO (XI (XO (XO (XO (XO (XO (XO (XI (XI (XI (XO (XI (XI (XO (XO (XI (XO
    (XI (XO (XI (XI (XO (XO (XO (XO (XI
    XH)))))))))))))))))))))))))))))))))))))))))))))))))))))))))))))))) :: ((Npos
    (XI (XI (XI (XI (XI (XI (XO (XI (XO (XI (XO (XO (XI (XI (XO (XI (XI (XI
    (XO (XO (XI (XI (XI (XI (XI (XI (XI (XI (XI (XO (XO (XI (XI (XI (XI (XO
    (XO (XI (XO (XO (XI (XI (XI (XO (XI (XI (XI (XO (XI (XO (XI (XO (XI (XO
    (XI (XI (XI (XO (XI (XO (XO (XI
    XH))))))))))))))))))))))))))))))))))))))))))))))))))))))))))))))) :: ((Npos
    (XO (XO (XO (XI (XO (XO (XI (XO (XI (XO (XI (XO (XO (XI (XI (XI (XI (XI
    (XI (XO (XO (XO (XO (XO (XO (XI (XI (XO (XO (XI (XI (XI (XO (XI (XO (XO
    (XO (XO (XO (XI (XO (XO (XI (XI (XI (XO (XI (XO (XI (XO (XO (XI (XI (XI
    (XI (XO (XO (XO (XO (XI (XO (XO (XI
    XH)))))))))))))))))))))))))))))))))))))))))))))))))))))))))))))))) :: ((Npos
    (XO (XI (XI (XO (XO (XI (XI (XI (XO (XO (XO (XI (XI (XI (XI (XI (XI (XO
    (XI (XI (XI (XI (XO (XI (XO (XI (XI (XO (XO (XI (XO (XO (XI (XO (XI (XI
    (XI (XI (XI (XI (XO (XO (XI (XI (XI (XO (XO (XO (XI (XI (XO (XO (XO (XI
    (XO (XO (XO (XI (XO (XO (XO (XO
    XH))))))))))))))))))))))))))))))))))))))))))))))))))))))))))))))) :: ((Npos
    (XO (XO (XI (XO (XI (XO (XO (XI (XI (XI (XO (XI (XI (XI (XO (XI (XO (XI
    (XI (XO (XO (XI (XI (XI (XI (XO (XO (XO (XI (XI (XO (XI (XO (XO (XO (XO
    (XO (XI (XO (XO (XI (XO (XO (XO (XO (XO (XI (XO (XO (XI (XI (XO (XO (XI
    (XI (XI (XI (XO (XO (XI (XI (XI (XO
    XH)))))))))))))))))))))))))))))))))))))))))))))))))))))))))))))))) :: ((Npos
    (XI (XI (XI (XI (XI (XO (XI (XO (XI (XO (XI (XI (XI (XI (XO (XI (XI (XI
    (XI (XO (XO (XI (XI (XI (XO (XO (XO (XI (XO (XO (XO (XO (XO (XI (XI (XO
    (XO (XI (XI (XI (XI (XI (XI (XO (XI (XO (XI (XI (XI (XI (XI (XO (XI (XI
    (XO (XI (XI (XI (XI (XO (XO (XI (XI
    XH)))))))))))))))))))))))))))))))))))))))))))))))))))))))))))))))) :: ((Npos
    (XO (XO (XI (XO (XI (XO (XO (XI (XO (XO (XO (XI (XO (XI (XO (XO (XO (XO
    (XO (XI (XO (XI (XO (XO (XO (XO (XO (XI (XI (XO (XI (XO (XI (XO (XI (XI
    (XO (XO (XO (XO (XO (XO (XO (XI (XI (XI (XO (XI (XO (XO (XO (XI (XO (XI
    (XI (XI (XI (XI (XI (XI (XO (XO (XI
    XH)))))))))))))))))))))))))))))))))))))))))))))))))))))))))))))))) :: ((Npos
    (XO (XI (XI (XI (XI (XO (XO (XI (XI (XI (XI (XO (XO (XI (XI (XI (XO (XO
    (XI (XO (XO (XI (XO (XO (XO (XI (XO (XI (XI (XI (XO (XI (XO (XI (XI (XO
    (XO (XI (XO (XO (XO (XO (XO (XO (XI (XO (XI (XI (XO (XO (XI (XI (XI (XO
    (XO (XI (XO (XI (XI (XI (XO (XO (XO
    XH)))))))))))))))))))))))))))))))))))))))))))))))))))))))))))))))) :: ((Npos
    (XO (XI (XO (XI (XI (XO (XI (XI (XI (XO (XI (XO (XO (XI (XO (XO (XI (XO
    (XO (XO (XO (XO (XO (XO (XI (XI (XO (XI (XI (XI (XI (XO (XI (XI (XI (XO
    (XI (XO (XO (XI (XO (XI (XI (XI (XO (XI (XI (XO (XO (XI (XI (XI (XO (XI
    (XO (XO (XO (XI (XI (XO (XI (XI
    XH))))))))))))))))))))))))))))))))))))))))))))))))))))))))))))))) :: ((Npos
    (XI (XI (XO (XO (XO (XI (XO (XI (XI (XO (XI (XI (XO (XO (XI (XI (XO (XO
    (XO (XI (XO (XO (XI (XI (XI (XI (XI (XI (XO (XO (XO (XI (XO (XI (XO (XI
    (XI (XI (XO (XI (XI (XO (XI (XI (XO (XO (XI (XO (XI (XO (XO (XO (XI (XO
    (XO (XO (XO (XI (XO (XI
    XH))))))))))))))))))))))))))))))))))))))))))))))))))))))))))))) :: ((Npos
    (XO (XO (XO (XO (XO (XO (XO (XI (XO (XO (XI (XI (XI (XI (XI (XI (XO (XI
    (XI (XO (XI (XI (XI (XI (XO (XO (XO (XI (XI (XI (XO (XI (XO (XI (XO (XI
    (XI (XO (XO (XO (XI (XO (XI (XO (XI (XO (XO (XI (XI (XI (XO (XO (XO (XI
    (XI (XO (XO (XO (XO (XI
    XH))))))))))))))))))))))))))))))))))))))))))))))))))))))))))))) :: ((Npos
    (XO (XO (XO (XI (XO (XI (XO (XO (XO (XI (XI (XO (XO (XO (XO (XI (XO (XO
    (XI (XI (XO (XO (XI (XO (XI (XI (XI (XI (XO (XO (XO (XO (XO (XI (XI (XI
    (XO (XO (XI (XI (XO (XI (XI (XO (XO (XI (XI (XO (XO (XI (XI (XI (XI (XO
    (XI (XI (XO (XI (XI (XO (XO (XO
    XH))))))))))))))))))))))))))))))))))))))))))))))))))))))))))))))) :: ((Npos
    (XO (XO (XO (XI (XI (XI (XO (XO (XI (XO (XI (XO (XO (XO (XO (XO (XO (XI
    (XI (XI (XO (XO (XI (XI (XI (XO (XO (XO (XO (XI (XI (XO (XI (XO (XO (XO
    (XI (XO (XI (XI (XO (XI (XO (XO (XI (XI (XO (XI (XI (XI (XO (XI (XI (XI
    (XI (XO (XO (XO (XI (XO (XO (XI
    XH))))))))))))))))))))))))))))))))))))))))))))))))))))))))))))))) :: ((Npos
    (XO (XO (XI (XI (XI (XI (XO (XO (XO (XO (XO (XI (XI (XO (XO (XO (XI (XO
    (XI (XO (XO (XO (XO (XI (XI (XI (XO (XO (XO (XO (XI (XO (XO (XI (XI (XO
    (XI (XI (XO (XI (XO (XO (XI (XO (XI (XI (XO (XI (XO (XI (XI (XI (XO (XI
    (XO (XO (XI (XI (XO (XO (XI (XI (XO
    XH)))))))))))))))))))))))))))))))))))))))))))))))))))))))))))))))) :: ((Npos
    (XI (XI (XO (XO (XO (XI (XI (XI (XI (XI (XO (XI (XI (XI (XI (XI (XI (XI
    (XO (XO (XI (XI (XO (XI (XI (XI (XO (XI (XI (XO (XO (XO (XO (XI (XI (XI
    (XI (XO (XI (XO (XO (XO (XO (XI (XI (XI (XI (XO (XO (XI (XO (XI (XI (XO
    (XO (XI (XO (XI (XI (XO (XI (XO (XI
    XH)))))))))))))))))))))))))))))))))))))))))))))))))))))))))))))))) :: ((Npos
    (XO (XO (XI (XO (XO (XO (XO (XO (XI (XI (XI (XO (XO (XO (XO (XI (XI (XO
    (XI (XO (XO (XI (XI (XO (XI (XI (XO (XO (XO (XI (XO (XI (XO (XI (XI (XO
    (XI (XI (XI (XI (XI (XO (XI (XI (XI (XI (XI (XI (XI (XI (XO (XO (XO (XI
    (XO (XO (XI (XO (XI (XI (XO
    XH)))))))))))))))))))))))))))))))))))))))))))))))))))))))))))))) :: ((Npos
    (XI (XI (XI (XI (XO (XI (XO (XI (XI (XO (XO (XI (XI (XI (XI (XO (XI (XI
    (XI (XI (XO (XO (XI (XO (XI (XI (XO (XO (XI (XI (XI (XI (XI (XO (XO (XI
    (XI (XO (XO (XO (XO (XO (XO (XI (XI (XI (XO (XO (XI (XO (XO (XO (XI (XI
    (XO (XI (XO (XI (XI
    XH)))))))))))))))))))))))))))))))))))))))))))))))))))))))))))) :: ((Npos
    (XI (XI (XI (XI (XI (XI (XO (XI (XO (XO (XO (XI (XO (XI (XI (XI (XO (XI
    (XI (XO (XO (XI (XO (XO (XO (XI (XO (XO (XO (XO (XI (XI (XO (XO (XO (XO
    (XI (XO (XO (XO (XI (XO (XI (XI (XO (XI (XO (XI (XI (XI (XI (XI (XI (XO
    (XI (XI (XI (XI (XO (XI (XI (XI (XO
    XH)))))))))))))))))))))))))))))))))))))))))))))))))))))))))))))))) :: ((Npos
    (XI (XI (XO (XI (XI (XI (XI (XI (XO (XI (XI (XI (XO (XO (XI (XO (XO (XI
    (XI (XI (XI (XO (XI (XO (XI (XI (XI (XI (XI (XI (XO (XO (XO (XO (XI (XI
    (XO (XI (XO (XI (XO (XI (XO (XO (XI (XI (XO (XO (XI (XO (XO (XO (XI (XI
    (XO (XI (XI (XI (XO (XO (XI (XI (XI
    XH)))))))))))))))))))))))))))))))))))))))))))))))))))))))))))))))) :: ((Npos
    (XI (XO (XO (XI (XO (XO (XO (XO (XO (XO (XI (XO (XO (XI (XI (XO (XI (XI
    (XI (XI (XO (XO (XI (XI (XI (XI (XI (XI (XI (XO (XI (XO (XO (XO (XI (XI
    (XO (XO (XI (XO (XO (XI (XI (XO (XO (XI (XO (XI (XO (XI (XI (XO (XI (XO
    (XO (XI (XO (XI (XI (XO (XI (XI
    XH))))))))))))))))))))))))))))))))))))))))))))))))))))))))))))))) :: ((Npos
    (XO (XI (XO (XO (XO (XO (XO (XI (XO (XI (XO (XI (XI (XI (XI (XO (XO (XI
    (XI (XO (XO (XO (XI (XO (XO (XO (XO (XO (XI (XO (XI (XO (XI (XO (XO (XO
    (XO (XO (XO (XI (XO (XI (XI (XI (XI (XO (XI (XI (XI (XI (XI (XI (XI (XI
    (XI (XI (XO (XO (XO (XO (XO (XO
    XH))))))))))))))))))))))))))))))))))))))))))))))))))))))))))))))) :: ((Npos
    (XI (XO (XO (XO (XO (XO (XO (XO (XO (XO (XI (XO (XO (XI (XO (XO (XO (XO
    (XI (XI (XO (XI (XI (XO (XI (XO (XI (XI (XI (XI (XI (XI (XI (XI (XI (XI
    (XO (XI (XO (XO (XI (XO (XI (XO (XO (XI (XO (XO (XI (XI (XO (XI (XI (XI
    (XI (XI (XO (XI (XO (XI (XI (XI (XO
    XH)))))))))))))))))))))))))))))))))))))))))))))))))))))))))))))))) :: ((Npos
    (XI (XO (XO (XO (XO (XO (XI (XI (XO (XI (XO (XO (XO (XO (XI (XO (XI (XI
    (XO (XI (XO (XO (XO (XO (XI (XO (XI (XI (XO (XO (XO (XO (XO (XO (XO (XO
    (XI (XI (XO (XO (XO (XO (XI (XI (XI (XO (XO (XI (XI (XI (XI (XO (XO (XI
    (XO (XO (XI (XO (XI (XO (XO (XO (XI
    XH)))))))))))))))))))))))))))))))))))))))))))))))))))))))))))))))) :: ((Npos
    (XO (XI (XO (XI (XO (XO (XO (XO (XI (XO (XO (XI (XO (XI (XI (XI (XI (XI
    (XI (XI (XO (XI (XO (XI (XI (XI (XI (XI (XO (XO (XI (XI (XO (XI (XI (XO
    (XI (XI (XO (XO (XI (XO (XO (XO (XO (XO (XI (XI (XI (XO (XO (XO (XO (XO
    (XI (XI (XO (XO (XO (XI (XO (XI (XO
    XH)))))))))))))))))))))))))))))))))))))))))))))))))))))))))))))))) :: ((Npos
    (XI (XO (XI (XI (XO (XI (XI (XO (XI (XO (XO (XO (XO (XO (XI (XO (XO (XO
    (XO (XI (XI (XI (XO (XO (XO (XO (XO (XI (XO (XO (XI (XO (XI (XI (XO (XI
    (XO (XI (XO (XO (XI (XO (XO (XI (XI (XI (XO (XO (XI (XO (XI (XO (XI (XO
    (XI (XI (XI (XO (XI (XO (XO (XI (XI
    XH)))))))))))))))))))))))))))))))))))))))))))))))))))))))))))))))) :: ((Npos
    (XO (XI (XI (XO (XO (XI (XI (XI (XO (XI (XI (XI (XI (XO (XO (XI (XI (XO
    (XO (XO (XI (XI (XI (XI (XO (XO (XO (XO (XO (XO (XI (XI (XO (XO (XI (XO
    (XO (XI (XO (XO (XO (XO (XI (XI (XO (XO (XO (XI (XO (XI (XO (XO (XO (XI
    (XI (XI (XO (XI (XI (XI (XI (XO (XI
    XH)))))))))))))))))))))))))))))))))))))))))))))))))))))))))))))))) :: ((Npos
    (XI (XO (XI (XO (XO (XO (XO (XO (XO (XO (XO (XO (XO (XI (XI (XI (XI (XI
    (XO (XI (XO (XI (XO (XO (XI (XO (XI (XI (XO (XI (XO (XI (XO (XO (XO (XO
    (XO (XI (XO (XO (XO (XI (XI (XI (XI (XO (XI (XO (XO (XO (XO (XI (XI (XO
    (XI (XI (XO (XO (XO (XI (XI (XI (XI
    XH)))))))))))))))))))))))))))))))))))))))))))))))))))))))))))))))) :: ((Npos
    (XO (XI (XI (XI (XO (XO (XI (XO (XO (XI (XO (XI (XI (XO (XI (XI (XO (XO
    (XO (XI (XI (XO (XO (XO (XO (XO (XO (XO (XI (XO (XO (XO (XO (XI (XI (XO
    (XI (XI (XI (XI (XO (XI (XI (XI (XI (XO (XO (XI (XO (XO (XI (XI (XI (XO
    (XO (XI (XO (XI (XI (XO (XI (XI (XI
    XH)))))))))))))))))))))))))))))))))))))))))))))))))))))))))))))))) :: ((Npos
    (XI (XI (XO (XI (XI (XI (XO (XO (XO (XO (XI (XI (XO (XI (XO (XI (XI (XO
    (XI (XO (XO (XO (XI (XI (XI (XO (XI (XI (XI (XI (XI (XI (XI (XI (XO (XO
    (XI (XI (XI (XI (XO (XO (XO (XI (XO (XI (XI (XI (XO (XO (XI (XO (XI (XI
    (XI (XO (XI (XO (XO (XO
    XH))))))))))))))))))))))))))))))))))))))))))))))))))))))))))))) :: ((Npos
    (XI (XO (XO (XI (XI (XI (XO (XI (XO (XI (XO (XO (XO (XO (XI (XI (XI (XO
    (XO (XO (XO (XI (XO (XI (XI (XO (XI (XO (XI (XO (XI (XO (XO (XI (XI (XO
    (XO (XI (XO (XI (XI (XO (XI (XO (XO (XI (XO (XO (XI (XO (XO (XO (XI (XI
    (XO (XO (XO (XI (XO (XO (XO (XI (XO
    XH)))))))))))))))))))))))))))))))))))))))))))))))))))))))))))))))) :: ((Npos
    (XO (XO (XO (XI (XO (XI (XI (XO (XI (XO (XO (XO (XI (XO (XI (XO (XI (XI
    (XO (XI (XI (XI (XI (XO (XI (XO (XI (XI (XI (XO (XI (XO (XI (XI (XI (XO
    (XI (XO (XI (XI (XO (XI (XI (XO (XI (XO (XO (XI (XO (XI (XI (XO (XI (XO
    (XO (XO (XO (XO (XO (XI (XI (XO (XI
    XH)))))))))))))))))))))))))))))))))))))))))))))))))))))))))))))))) :: ((Npos
    (XO (XI (XO (XO (XO (XO (XI (XO (XO (XI (XO (XI (XO (XI (XI (XO (XI (XI
    (XO (XI (XO (XI (XO (XO (XO (XI (XI (XI (XI (XI (XO (XI (XO (XI (XO (XO
    (XI (XI (XO (XO (XO (XO (XO (XI (XI (XO (XI (XI (XO (XO (XO (XO (XO (XI
    (XO (XO (XO (XI (XO (XI (XI (XO
    XH))))))))))))))))))))))))))))))))))))))))))))))))))))))))))))))) :: ((Npos
    (XO (XI (XI (XI (XO (XI (XO (XO (XI (XI (XI (XO (XO (XO (XO (XI (XI (XO
    (XI (XO (XI (XO (XO (XI (XO (XO (XI (XI (XI (XO (XI (XI (XI (XO (XI (XI
    (XI (XO (XO (XI (XO (XO (XI (XI (XI (XO (XI (XI (XO (XO (XI (XI (XO (XI
    (XO (XO (XI (XO (XI (XI (XO
    XH)))))))))))))))))))))))))))))))))))))))))))))))))))))))))))))) :: ((Npos
    (XO (XI (XO (XI (XI (XO (XO (XI (XI (XI (XO (XI (XO (XI (XO (XO (XI (XO
    (XI (XI (XO (XO (XI (XI (XO (XO (XI (XI (XO (XO (XO (XO (XI (XO (XO (XI
    (XI (XO (XO (XI (XO (XO (XO (XI (XI (XI (XI (XO (XI (XI (XO (XI (XO (XI
    (XO (XO (XI (XO (XI (XO (XI (XO (XO
    XH)))))))))))))))))))))))))))))))))))))))))))))))))))))))))))))))) :: ((Npos
    (XI (XO (XO (XO (XI (XO (XO (XO (XI (XO (XO (XI (XI (XI (XI (XO (XI (XO
    (XO (XI (XI (XI (XO (XI (XO (XI (XI (XO (XO (XI (XI (XI (XO (XO (XO (XI
    (XI (XI (XO (XI (XI (XO (XI (XI (XO (XO (XO (XI (XI (XO (XI (XO (XO (XI
    (XO (XI (XO (XO (XO (XO (XI (XI (XI
    XH)))))))))))))))))))))))))))))))))))))))))))))))))))))))))))))))) :: ((Npos
    (XO (XO (XO (XO (XO (XI (XO (XO (XI (XI (XI (XI (XO (XO (XI (XO (XI (XO
    (XO (XI (XI (XO (XI (XI (XO (XO (XO (XO (XO (XO (XI (XO (XO (XO (XO (XI
    (XI (XI (XO (XO (XI (XO (XO (XO (XO (XO (XO (XO (XO (XO (XO (XO (XI (XO
    (XI (XO (XO (XI (XI (XO (XI (XI (XO
    XH)))))))))))))))))))))))))))))))))))))))))))))))))))))))))))))))) :: ((Npos
    (XI (XI (XO (XO (XI (XI (XO (XO (XO (XI (XO (XI (XO (XO (XI (XI (XI (XI
    (XO (XO (XI (XO (XO (XI (XO (XO (XO (XO (XI (XO (XI (XI (XO (XI (XO (XO
    (XO (XI (XI (XO (XI (XI (XI (XO (XI (XO (XO (XO (XI (XI (XI (XI (XI (XI
    (XO (XI (XO (XO (XI (XI (XO (XO (XO
    XH)))))))))))))))))))))))))))))))))))))))))))))))))))))))))))))))) :: ((Npos
    (XO (XI (XO (XO (XI (XI (XO (XO (XO (XI (XO (XI (XI (XI (XI (XI (XO (XO
    (XO (XI (XO (XI (XI (XI (XO (XI (XO (XO (XI (XI (XO (XI (XI (XO (XO (XI
    (XO (XI (XI (XO (XO (XO (XI (XO (XO (XO (XO (XO (XO (XI (XO (XI (XI (XI
    (XO (XO (XI (XI (XI (XI (XI (XI (XO
    XH)))))))))))))))))))))))))))))))))))))))))))))))))))))))))))))))) :: ((Npos
    (XI (XI (XI (XI (XO (XI (XI (XO (XI (XO (XO (XI (XI (XI (XO (XO (XO (XI
    (XO (XO (XO (XI (XO (XO (XI (XO (XI (XI (XO (XI (XI (XO (XO (XO (XI (XI
    (XI (XO (XO (XO (XO (XI (XO (XO (XO (XO (XI (XI (XI (XO (XO (XI (XI (XI
    (XI (XI (XI (XO (XO (XO (XO (XO
    XH))))))))))))))))))))))))))))))))))))))))))))))))))))))))))))))) :: ((Npos
    (XO (XI (XI (XO (XI (XI (XI (XI (XI (XI (XI (XO (XO (XI (XO (XO (XI (XO
    (XI (XI (XI (XI (XO (XO (XO (XO (XI (XO (XO (XI (XO (XO (XI (XI (XI (XO
    (XI (XO (XO (XO (XO (XI (XO (XI (XI (XI (XO (XO (XI (XI (XI (XI (XO (XO
    (XI (XI (XO (XI (XI (XO (XI (XO
    XH))))))))))))))))))))))))))))))))))))))))))))))))))))))))))))))) :: ((Npos
    (XI (XI (XI (XI (XI (XO (XI (XO (XO (XI (XO (XI (XO (XI (XI (XO (XI (XO
    (XO (XI (XI (XO (XO (XO (XI (XI (XO (XO (XO (XI (XO (XO (XO (XI (XI (XO
    (XI (XO (XI (XO (XO (XI (XI (XO (XI (XO (XO (XI (XO (XI (XI (XO (XO (XO
    (XI (XO (XI (XI (XI (XO (XO (XI
    XH))))))))))))))))))))))))))))))))))))))))))))))))))))))))))))))) :: ((Npos
    (XO (XI (XI (XO (XI (XI (XI (XI (XO (XO (XI (XO (XO (XI (XO (XI (XI (XO
    (XO (XO (XO (XI (XO (XO (XI (XO (XI (XI (XI (XI (XO (XO (XO (XO (XO (XI
    (XO (XI (XO (XO (XI (XI (XI (XI (XO (XO (XO (XI (XI (XI (XI (XI (XO (XI
    (XO (XO (XI (XI (XO (XI (XI (XO (XO
    XH)))))))))))))))))))))))))))))))))))))))))))))))))))))))))))))))) :: ((Npos
    (XI (XI (XO (XI (XO (XI (XO (XO (XO (XI (XI (XO (XO (XO (XI (XI (XI (XO
    (XO (XO (XI (XO (XI (XI (XO (XI (XO (XI (XI (XI (XI (XI (XO (XI (XI (XI
    (XO (XI (XO (XO (XO (XO (XI (XO (XO (XI (XI (XI (XI (XO (XI (XI (XI (XI
    (XO (XO (XO (XI (XI (XI (XI (XO
    XH))))))))))))))))))))))))))))))))))))))))))))))))))))))))))))))) :: [])))))))))))))))))))))))))))))))))))))))))))))))))))))))))))))))) :: (((Npos
    (XO (XI (XI (XI (XO (XI (XI (XO (XO (XI (XI (XI (XO (XO (XI (XO (XO (XO
    (XI (XO (XI (XI (XI (XO (XO (XO (XI (XI (XI (XO (XI (XO (XI (XI (XI (XO
    (XO (XO (XO (XO (XO (XI (XI (XO (XO (XI (XI (XI (XI (XI (XO (XI (XI (XO
    (XI (XO (XI (XI (XI (XI (XO (XI (XI
    XH)))))))))))))))))))))))))))))))))))))))))))))))))))))))))))))))) :: ((Npos
    (XI (XO (XI (XI (XO (XI (XI (XI (XO (XO (XO (XI (XI (XO (XI (XI (XO (XO
    (XI (XO (XO (XI (XO (XI (XO (XO (XO (XO (XI (XI (XI (XO (XO (XI (XI (XO
    (XI (XO (XO (XO (XO (XO (XI (XO (XO (XO (XO (XO (XI (XO (XO (XI (XI (XI
    (XI (XO (XI (XI (XI (XI
    XH))))))))))))))))))))))))))))))))))))))))))))))))))))))))))))) :: ((Npos
    (XO (XO (XO (XI (XI (XI (XI (XI (XO (XO (XI (XI (XI (XO (XI (XO (XO (XO
    (XO (XI (XO (XO (XO (XI (XI (XO (XI (XO (XO (XO (XO (XO (XI (XO (XO (XI
    (XO (XI (XI (XI (XI (XI (XI (XI (XI (XO (XI (XI (XI (XI (XI (XI (XI (XI
    (XI (XO (XO (XO (XI (XO (XI (XI
    XH))))))))))))))))))))))))))))))))))))))))))))))))))))))))))))))) :: ((Npos
    (XI (XI (XO (XI (XO (XI (XI (XI (XO (XO (XO (XO (XO (XO (XI (XI (XO (XO
    (XI (XI (XI (XI (XI (XO (XI (XO (XI (XO (XO (XI (XO (XI (XI (XI (XI (XI
    (XI (XI (XI (XI (XO (XO (XI (XO (XI (XO (XO (XI (XI (XI (XI (XO (XO (XI
    (XO (XI (XI (XI (XI (XO (XI (XO
    XH))))))))))))))))))))))))))))))))))))))))))))))))))))))))))))))) :: ((Npos
    (XI (XO (XO (XO (XI (XI (XI (XO (XO (XO (XI (XI (XO (XO (XO (XO (XI (XI
    (XO (XO (XO (XI (XI (XI (XO (XI (XI (XO (XI (XI (XO (XI (XI (XO (XI (XI
    (XI (XO (XI (XO (XO (XO (XI (XO (XI (XO (XO (XO (XI (XO (XO (XI (XO (XI
    (XI (XI (XI (XO (XO (XI (XI (XI (XO
    XH)))))))))))))))))))))))))))))))))))))))))))))))))))))))))))))))) :: ((Npos
    (XI (XO (XO (XO (XI (XI (XI (XI (XI (XO (XI (XO (XO (XO (XI (XI (XO (XO
    (XI (XO (XO (XO (XI (XO (XI (XI (XI (XO (XI (XO (XO (XO (XO (XI (XO (XO
    (XI (XI (XI (XI (XI (XO (XI (XI (XO (XI (XI (XO (XI (XI (XO (XO (XO (XI
    (XI (XI (XO (XO (XO (XI (XO (XO (XI
    XH)))))))))))))))))))))))))))))))))))))))))))))))))))))))))))))))) :: ((Npos
    (XI (XI (XO (XI (XO (XI (XO (XO (XO (XO (XI (XO (XI (XO (XI (XI (XO (XO
    (XI (XI (XO (XO (XO (XI (XI (XO (XI (XO (XI (XI (XO (XI (XO (XI (XI (XI
    (XI (XO (XI (XI (XI (XI (XI (XO (XO (XI (XI (XO (XI (XO (XI (XI (XO (XO
    (XO (XO (XI (XI (XO (XO (XI (XI
    XH))))))))))))))))))))))))))))))))))))))))))))))))))))))))))))))) :: ((Npos
    (XI (XO (XI (XO (XO (XI (XO (XI (XI (XI (XO (XI (XO (XO (XO (XI (XO (XI
    (XI (XI (XI (XI (XI (XI (XO (XI (XO (XI (XO (XO (XO (XO (XO (XO (XI (XI
    (XI (XO (XO (XO (XO (XI (XI (XO (XO (XI (XO (XO (XO (XI (XO (XI (XO (XI
    (XI (XO (XO (XO (XI (XO (XO (XO (XI
    XH)))))))))))))))))))))))))))))))))))))))))))))))))))))))))))))))) :: ((Npos
    (XI (XO (XO (XI (XO (XI (XO (XI (XI (XI (XI (XI (XI (XI (XO (XI (XI (XI
    (XO (XO (XO (XO (XO (XI (XI (XI (XO (XO (XI (XI (XI (XO (XO (XI (XI (XI
    (XI (XO (XI (XO (XO (XO (XI (XI (XI (XO (XO (XO (XI (XI (XO (XI (XO (XO
    (XI (XI (XI (XI (XO (XI (XI (XI
    XH))))))))))))))))))))))))))))))))))))))))))))))))))))))))))))))) :: ((Npos
    (XO (XO (XO (XI (XI (XI (XO (XI (XO (XI (XO (XO (XO (XO (XO (XI (XO (XI
    (XO (XI (XO (XO (XO (XI (XO (XI (XO (XI (XI (XI (XI (XI (XI (XI (XI (XI
    (XI (XI (XI (XI (XO (XO (XI (XO (XI (XI (XO (XI (XO (XO (XO (XO (XO (XI
    (XO (XI (XO (XI (XI (XI (XO (XO
    XH))))))))))))))))))))))))))))))))))))))))))))))))))))))))))))))) :: ((Npos
    (XI (XI (XI (XO (XO (XI (XO (XO (XO (XO (XO (XO (XI (XI (XO (XO (XI (XO
    (XI (XI (XI (XO (XO (XO (XO (XO (XO (XI (XO (XI (XO (XO (XO (XI (XI (XI
    (XI (XO (XO (XI (XO (XI (XI (XI (XO (XI (XI (XI (XI (XI (XI (XI (XO (XO
    (XI (XI (XI (XO (XO (XO (XI (XI
    XH))))))))))))))))))))))))))))))))))))))))))))))))))))))))))))))) :: ((Npos
    (XI (XI (XO (XI (XI (XO (XI (XI (XO (XI (XO (XO (XI (XO (XI (XO (XI (XI
    (XI (XI (XO (XI (XO (XO (XI (XO (XI (XI (XO (XO (XI (XO (XO (XI (XI (XI
    (XO (XO (XI (XI (XI (XO (XI (XO (XI (XI (XO (XO (XI (XI (XI (XI (XO (XI
    (XI (XI (XO (XI (XI (XO (XO (XO (XI
    XH)))))))))))))))))))))))))))))))))))))))))))))))))))))))))))))))) :: ((Npos
    (XI (XO (XI (XO (XO (XI (XI (XI (XI (XI (XO (XO (XO (XI (XI (XO (XI (XI
    (XO (XO (XO (XI (XO (XI (XO (XI (XI (XI (XI (XI (XO (XI (XO (XI (XO (XO
    (XO (XO (XI (XI (XO (XO (XO (XO (XI (XO (XO (XI (XO (XO (XI (XO (XI (XO
    (XO (XI (XO (XO (XI (XI (XO (XI (XO
    XH)))))))))))))))))))))))))))))))))))))))))))))))))))))))))))))))) :: ((Npos
    (XI (XI (XO (XO (XI (XI (XO (XO (XO (XI (XO (XO (XI (XO (XO (XO (XI (XI
    (XO (XI (XI (XI (XI (XI (XI (XI (XI (XO (XI (XI (XI (XI (XO (XO (XO (XI
    (XI (XO (XO (XI (XO (XO (XO (XI (XI (XI (XI (XO (XI (XO (XO (XI (XO (XO
    (XO (XO (XI (XO (XO (XO (XI
    XH)))))))))))))))))))))))))))))))))))))))))))))))))))))))))))))) :: ((Npos
    (XO (XO (XO (XO (XO (XI (XI (XO (XO (XI (XO (XO (XO (XI (XO (XO (XI (XI
    (XO (XO (XO (XO (XI (XO (XI (XO (XI (XO (XO (XI (XO (XO (XO (XI (XO (XO
    (XI (XI (XI (XO (XO (XO (XI (XI (XI (XO (XO (XO (XI (XO (XO (XO (XO (XI
    (XO (XO (XO (XI (XO (XI (XI
    XH)))))))))))))))))))))))))))))))))))))))))))))))))))))))))))))) :: ((Npos
    (XI (XO (XI (XI (XO (XI (XO (XI (XI (XI (XO (XI (XO (XI (XO (XI (XO (XO
    (XO (XI (XI (XO (XO (XO (XO (XO (XI (XI (XI (XI (XO (XO (XO (XO (XO (XO
    (XO (XI (XI (XI (XO (XO (XO (XO (XO (XO (XI (XO (XI (XI (XO (XO (XI (XO
    (XO (XO (XI (XI (XI (XO (XI (XO (XI
    XH)))))))))))))))))))))))))))))))))))))))))))))))))))))))))))))))) :: ((Npos
    (XO (XI (XI (XI (XO (XO (XO (XO (XI (XI (XO (XO (XI (XI (XO (XO (XO (XI
    (XO (XO (XI (XI (XI (XO (XI (XI (XI (XI (XI (XO (XO (XI (XI (XI (XI (XI
    (XI (XI (XO (XI (XI (XO (XO (XO (XO (XI (XI (XI (XO (XI (XI (XO (XI (XO
    (XI (XI (XI (XI (XO
    XH)))))))))))))))))))))))))))))))))))))))))))))))))))))))))))) :: ((Npos
    (XI (XI (XO (XI (XI (XI (XI (XO (XO (XI (XO (XO (XO (XO (XI (XO (XO (XO
    (XO (XI (XI (XO (XI (XI (XI (XO (XI (XO (XO (XO (XO (XO (XO (XO (XI (XI
    (XO (XO (XI (XO (XI (XO (XO (XI (XO (XI (XI (XO (XO (XI (XO (XO (XO (XO
    (XO (XO (XO (XO (XI (XO (XO
    XH)))))))))))))))))))))))))))))))))))))))))))))))))))))))))))))) :: ((Npos
    (XI (XO (XI (XI (XO (XI (XO (XI (XO (XO (XI (XI (XO (XO (XI (XO (XO (XI
    (XO (XI (XO (XI (XI (XO (XO (XI (XI (XO (XI (XI (XI (XI (XO (XO (XO (XI
    (XI (XI (XI (XO (XI (XO (XO (XO (XO (XI (XI (XO (XO (XI (XI (XO (XI (XI
    (XI (XO (XI (XI (XI (XO (XI (XI (XI
    XH)))))))))))))))))))))))))))))))))))))))))))))))))))))))))))))))) :: ((Npos
    (XI (XO (XO (XO (XO (XO (XI (XI (XO (XI (XO (XI (XI (XO (XI (XO (XO (XI
    (XO (XI (XO (XO (XI (XI (XI (XI (XI (XI (XO (XO (XI (XO (XO (XI (XO (XO
    (XI (XI (XO (XI (XI (XO (XO (XO (XO (XI (XI (XI (XI (XO (XO (XI (XO (XI
    (XO (XO (XI (XI (XI (XI (XI (XI (XI
    XH)))))))))))))))))))))))))))))))))))))))))))))))))))))))))))))))) :: ((Npos
    (XI (XO (XI (XO (XI (XI (XI (XI (XI (XI (XI (XO (XO (XI (XO (XO (XI (XO
    (XO (XO (XO (XI (XO (XO (XO (XI (XI (XO (XI (XI (XO (XI (XI (XI (XO (XO
    (XO (XO (XO (XO (XO (XO (XI (XI (XI (XO (XO (XI (XI (XO (XO (XI (XI (XI
    (XI (XI (XO (XO (XI (XI (XI (XO (XO
    XH)))))))))))))))))))))))))))))))))))))))))))))))))))))))))))))))) :: ((Npos
    (XO (XI (XI (XI (XO (XI (XI (XI (XI (XO (XO (XI (XO (XO (XI (XI (XO (XO
    (XI (XI (XO (XO (XO (XO (XI (XO (XO (XO (XI (XO (XO (XI (XO (XI (XO (XI
    (XI (XO (XO (XI (XI (XO (XO (XI (XI (XO (XO (XI (XO (XI (XO (XI (XO (XI
    (XI (XO (XO (XO (XI (XO (XO (XO (XO
    XH)))))))))))))))))))))))))))))))))))))))))))))))))))))))))))))))) :: ((Npos
    (XI (XO (XO (XO (XI (XO (XO (XO (XI (XO (XI (XI (XI (XI (XI (XI (XI (XI
    (XI (XI (XO (XO (XO (XO (XO (XI (XI (XI (XO (XI (XI (XI (XO (XO (XO (XI
    (XI (XO (XI (XO (XI (XO (XO (XO (XI (XO (XI (XO (XO (XO (XO (XO (XO (XI
    (XO (XO (XI (XI (XO (XI (XI (XI (XO
    XH)))))))))))))))))))))))))))))))))))))))))))))))))))))))))))))))) :: ((Npos
    (XI (XI (XI (XI (XI (XI (XI (XI (XO (XI (XI (XO (XI (XO (XO (XI (XO (XI
    (XI (XI (XI (XI (XO (XO (XO (XI (XO (XI (XI (XI (XO (XO (XO (XI (XO (XI
    (XI (XO (XO (XI (XI (XO (XO (XO (XO (XO (XO (XI (XI (XI (XO (XO (XI (XO
    (XI (XI (XO (XI (XO (XI (XI (XI
    XH))))))))))))))))))))))))))))))))))))))))))))))))))))))))))))))) :: ((Npos
    (XI (XI (XI (XI (XI (XO (XO (XI (XO (XI (XI (XI (XO (XO (XO (XI (XI (XO
    (XO (XO (XI (XI (XI (XI (XO (XI (XI (XO (XO (XO (XI (XI (XO (XI (XO (XO
    (XI (XI (XO (XO (XI (XI (XO (XI (XI (XO (XI (XO (XI (XO (XO (XI (XI (XI
    (XI (XI (XO
    XH)))))))))))))))))))))))))))))))))))))))))))))))))))))))))) :: ((Npos
    (XI (XI (XO (XI (XI (XO (XO (XO (XO (XI (XI (XI (XO (XO (XO (XO (XO (XO
    (XI (XO (XI (XO (XO (XI (XO (XO (XO (XI (XO (XI (XI (XO (XO (XO (XO (XI
    (XI (XO (XO (XO (XO (XI (XI (XI (XO (XO (XO (XI (XO (XO (XO (XI (XO (XI
    (XO (XO (XO (XI (XO (XI (XO (XO
    XH))))))))))))))))))))))))))))))))))))))))))))))))))))))))))))))) :: ((Npos
    (XI (XI (XO (XI (XI (XI (XO (XO (XI (XI (XI (XI (XI (XI (XO (XO (XO (XO
    (XI (XI (XO (XO (XO (XO (XO (XI (XO (XI (XO (XI (XO (XO (XO (XO (XI (XI
    (XI (XO (XO (XO (XO (XI (XO (XI (XO (XI (XO (XI (XI (XI (XO (XO (XO (XO
    (XO (XI (XI (XO (XO (XI (XO (XO (XI
    XH)))))))))))))))))))))))))))))))))))))))))))))))))))))))))))))))) :: ((Npos
    (XO (XI (XO (XO (XO (XI (XI (XO (XO (XI (XO (XO (XO (XI (XO (XI (XI (XO
    (XO (XI (XI (XO (XO (XO (XI (XI (XO (XO (XI (XI (XO (XI (XO (XI (XI (XI
    (XO (XI (XO (XO (XI (XI (XO (XO (XO (XI (XI (XO (XI (XI (XI (XI (XI (XI
    (XO (XI (XI (XO (XI (XI (XI (XO (XO
    XH)))))))))))))))))))))))))))))))))))))))))))))))))))))))))))))))) :: ((Npos
    (XO (XO (XI (XO (XI (XO (XO (XO (XI (XI (XI (XO (XI (XI (XO (XI (XI (XI
    (XO (XI (XO (XI (XI (XI (XO (XO (XO (XI (XI (XI (XI (XI (XO (XO (XI (XI
    (XI (XO (XO (XI (XI (XO (XO (XO (XO (XI (XI (XO (XI (XI (XI (XI (XI (XI
    (XI (XO (XI (XO (XI (XO (XO
    XH)))))))))))))))))))))))))))))))))))))))))))))))))))))))))))))) :: ((Npos
    (XO (XO (XI (XI (XI (XO (XO (XO (XI (XO (XO (XO (XO (XO (XI (XI (XI (XO
    (XO (XI (XI (XO (XI (XO (XO (XI (XI (XO (XI (XO (XI (XI (XO (XO (XO (XO
    (XO (XI (XI (XO (XO (XO (XO (XO (XO (XO (XO (XO (XO (XO (XO (XO (XO (XO
    (XO (XI (XI (XI (XI (XI (XI (XO (XO
    XH)))))))))))))))))))))))))))))))))))))))))))))))))))))))))))))))) :: ((Npos
    (XO (XO (XI (XI (XO (XI (XI (XI (XO (XI (XI (XO (XI (XI (XI (XI (XO (XI
    (XO (XI (XO (XI (XO (XO (XO (XO (XO (XO (XO (XO (XO (XI (XO (XO (XI (XO
    (XO (XI (XI (XO (XI (XO (XI (XI (XO (XI (XI (XI (XO (XI (XI (XO (XO (XI
    (XO (XO (XI (XO (XI (XO (XI (XO (XO
    XH)))))))))))))))))))))))))))))))))))))))))))))))))))))))))))))))) :: ((Npos
    (XI (XI (XI (XO (XI (XI (XI (XO (XO (XI (XO (XI (XI (XO (XO (XI (XI (XO
    (XI (XI (XI (XO (XI (XI (XO (XI (XO (XI (XI (XI (XO (XO (XI (XO (XO (XO
    (XO (XI (XO (XI (XI (XI (XI (XI (XO (XI (XI (XI (XO (XI (XI (XI (XO (XO
    (XO (XO (XI (XI (XO (XO (XO (XI (XI
    XH)))))))))))))))))))))))))))))))))))))))))))))))))))))))))))))))) :: ((Npos
    (XI (XO (XI (XI (XI (XO (XO (XI (XO (XI (XI (XI (XO (XO (XO (XO (XI (XO
    (XO (XO (XO (XI (XO (XI (XO (XO (XI (XO (XI (XO (XI (XO (XI (XI (XO (XO
    (XI (XO (XO (XI (XO (XI (XO (XO (XI (XI (XO (XI (XO (XO (XO (XO (XO (XI
    (XO (XI (XO (XI (XI (XO (XI (XO (XI
    XH)))))))))))))))))))))))))))))))))))))))))))))))))))))))))))))))) :: ((Npos
    (XO (XI (XI (XO (XO (XI (XO (XI (XI (XO (XO (XI (XO (XO (XO (XI (XI (XI
    (XI (XI (XO (XI (XO (XO (XI (XI (XI (XI (XO (XO (XO (XI (XO (XO (XI (XI
    (XI (XO (XI (XI (XI (XO (XO (XO (XO (XI (XI (XI (XO (XI (XO (XI (XI (XI
    (XO (XO (XI (XI (XI (XO (XO (XI (XO
    XH)))))))))))))))))))))))))))))))))))))))))))))))))))))))))))))))) :: ((Npos
    (XI (XI (XO (XO (XO (XI (XI (XI (XO (XO (XI (XO (XO (XI (XO (XI (XI (XO
    (XI (XI (XO (XI (XI (XI (XO (XI (XO (XO (XO (XI (XO (XO (XO (XI (XO (XI
    (XO (XI (XO (XI (XO (XI (XI (XI (XO (XI (XO (XO (XO (XO (XI (XO (XI (XO
    (XI (XO (XO (XI (XO (XO
    XH))))))))))))))))))))))))))))))))))))))))))))))))))))))))))))) :: ((Npos
    (XI (XI (XI (XI (XI (XI (XO (XO (XO (XO (XI (XI (XI (XI (XO (XO (XO (XO
    (XI (XI (XI (XO (XO (XI (XI (XO (XI (XO (XO (XO (XI (XO (XO (XI (XO (XO
    (XO (XI (XI (XI (XO (XI (XO (XI (XO (XO (XO (XO (XI (XO (XO (XI (XI (XO
    (XO (XI (XO (XO (XO (XI (XI (XO
    XH))))))))))))))))))))))))))))))))))))))))))))))))))))))))))))))) :: ((Npos
    (XI (XO (XO (XI (XI (XO (XI (XI (XI (XI (XO (XO (XO (XO (XO (XI (XO (XO
    (XO (XO (XI (XO (XI (XO (XO (XO (XI (XI (XO (XO (XO (XI (XI (XI (XO (XO
    (XI (XI (XI (XI (XI (XI (XI (XO (XO (XI (XI (XO (XI (XO (XI (XI (XO (XI
    (XI (XO (XI (XO (XI (XI
    XH))))))))))))))))))))))))))))))))))))))))))))))))))))))))))))) :: ((Npos
    (XO (XO (XI (XO (XO (XI (XO (XO (XI (XI (XO (XI (XO (XI (XI (XO (XO (XO
    (XO (XO (XI (XO (XO (XO (XI (XI (XO (XI (XI (XO (XI (XO (XI (XO (XI (XI
    (XI (XO (XO (XI (XI (XI (XI (XO (XI (XO (XO (XO (XO (XO (XI (XI (XO (XO
    (XO (XI (XI (XO (XO (XO (XO (XO (XO
    XH)))))))))))))))))))))))))))))))))))))))))))))))))))))))))))))))) :: ((Npos
    (XO (XI (XO (XI (XO (XO (XO (XO (XI (XO (XI (XI (XO (XI (XO (XI (XI (XO
    (XO (XO (XO (XI (XI (XO (XO (XO (XO (XO (XO (XO (XO (XO (XI (XO (XI (XO
    (XO (XI (XI (XO (XO (XO (XI (XO (XI (XI (XI (XI (XO (XI (XO (XO (XO (XI
    (XI (XI (XO (XI (XI (XI (XI (XO
    XH))))))))))))))))))))))))))))))))))))))))))))))))))))))))))))))) :: ((Npos
    (XI (XI (XI (XO (XI (XO (XI (XO (XO (XI (XI (XO (XI (XI (XO (XO (XO (XI
    (XO (XI (XI (XI (XO (XI (XO (XO (XI (XO (XI (XO (XI (XI (XO (XO (XI (XI
    (XI (XO (XI (XI (XI (XI (XO (XI (XI (XO (XI (XO (XI (XO (XO (XI (XI (XO
    (XO (XO (XO (XI (XI (XI (XI (XI (XO
    XH)))))))))))))))))))))))))))))))))))))))))))))))))))))))))))))))) :: ((Npos
    (XI (XO (XO (XI (XI (XI (XI (XO (XI (XI (XI (XI (XO (XO (XO (XO (XO (XI
    (XI (XO (XO (XO (XO (XO (XI (XI (XI (XO (XO (XI (XI (XI (XI (XI (XI (XO
    (XO (XI (XI (XO (XO (XI (XO (XI (XI (XO (XI (XO (XI (XO (XO (XO (XI (XI
    (XO (XO (XO (XI (XO (XO (XI
    XH)))))))))))))))))))))))))))))))))))))))))))))))))))))))))))))) :: ((Npos
    (XI (XI (XO (XO (XO (XI (XI (XI (XI (XO (XO (XI (XI (XO (XO (XI (XO (XO
    (XO (XI (XI (XO (XI (XO (XO (XO (XO (XO (XO (XI (XI (XO (XO (XI (XO (XI
    (XO (XO (XI (XI (XO (XO (XI (XO (XO (XO (XO (XI (XO (XO (XO (XI (XO (XI
    (XI (XO (XO (XI (XI (XO
    XH))))))))))))))))))))))))))))))))))))))))))))))))))))))))))))) :: ((Npos
    (XI (XO (XO (XI (XI (XO (XI (XI (XO (XO (XO (XO (XI (XI (XI (XO (XI (XO
    (XO (XO (XO (XO (XO (XO (XO (XI (XI (XO (XI (XI (XI (XI (XI (XI (XI (XI
    (XI (XI (XI (XO (XO (XI (XI (XI (XI (XO (XI (XI (XI (XI (XO (XO (XO (XO
    (XI (XI (XO (XO (XI (XI (XO
    XH)))))))))))))))))))))))))))))))))))))))))))))))))))))))))))))) :: ((Npos
    (XI (XI (XO (XI (XO (XO (XI (XO (XI (XO (XI (XI (XI (XI (XI (XO (XO (XO
    (XO (XO (XO (XI (XI (XO (XO (XI (XO (XI (XO (XO (XI (XO (XI (XO (XO (XO
    (XO (XI (XO (XI (XI (XI (XO (XO (XI (XO (XO (XI (XI (XI (XO (XI (XO (XO
    (XI (XI (XO (XO (XI (XI (XO (XI (XO
    XH)))))))))))))))))))))))))))))))))))))))))))))))))))))))))))))))) :: ((Npos
    (XI (XI (XI (XI (XO (XO (XI (XO (XO (XI (XI (XO (XO (XI (XI (XI (XO (XI
    (XO (XI (XO (XI (XI (XI (XI (XO (XO (XI (XO (XO (XO (XO (XI (XI (XO (XO
    (XO (XO (XO (XO (XI (XO (XI (XI (XI (XI (XI (XO (XI (XO (XI (XI (XO (XI
    (XI (XI (XI (XO (XI (XO (XI (XO (XO
    XH)))))))))))))))))))))))))))))))))))))))))))))))))))))))))))))))) :: ((Npos
    (XO (XO (XO (XI (XI (XO (XI (XO (XI (XO (XO (XI (XO (XI (XO (XI (XO (XO
    (XI (XI (XI (XO (XI (XO (XO (XO (XO (XI (XO (XI (XI (XI (XI (XO (XO (XI
    (XI (XI (XO (XO (XO (XO (XI (XI (XO (XI (XI (XI (XO (XI (XI (XI (XI (XO
    (XI (XO (XO (XO (XO (XI (XO (XI
    XH))))))))))))))))))))))))))))))))))))))))))))))))))))))))))))))) :: ((Npos
    (XI (XO (XO (XI (XI (XI (XI (XO (XI (XO (XI (XO (XI (XO (XO (XI (XI (XO
    (XO (XO (XI (XO (XO (XI (XO (XI (XO (XI (XO (XO (XO (XI (XO (XO (XO (XO
    (XI (XO (XO (XI (XI (XO (XO (XO (XO (XO (XI (XI (XI (XI (XO (XI (XI (XO
    (XO (XO (XO (XI (XO (XI (XO (XO
    XH))))))))))))))))))))))))))))))))))))))))))))))))))))))))))))))) :: ((Npos
    (XI (XI (XI (XO (XI (XO (XO (XO (XI (XO (XO (XO (XI (XO (XO (XI (XO (XI
    (XI (XO (XI (XO (XI (XO (XO (XO (XI (XI (XO (XO (XO (XI (XI (XO (XI (XI
    (XO (XI (XO (XO (XI (XO (XI (XO (XI (XI (XI (XI (XI (XI (XO (XI (XO (XO
    (XI (XI (XI (XI (XO (XO (XO (XI
    XH))))))))))))))))))))))))))))))))))))))))))))))))))))))))))))))) :: ((Npos
    (XI (XI (XI (XI (XI (XI (XO (XI (XI (XO (XO (XI (XO (XO (XO (XI (XO (XI
    (XI (XI (XO (XO (XI (XI (XI (XO (XO (XO (XI (XO (XI (XI (XO (XI (XO (XI
    (XI (XI (XO (XI (XO (XI (XI (XO (XI (XI (XI (XI (XO (XO (XO (XO (XI (XI
    (XI (XI (XI (XO (XI (XO (XO (XO (XI
    XH)))))))))))))))))))))))))))))))))))))))))))))))))))))))))))))))) :: ((Npos
    (XO (XI (XO (XO (XI (XI (XI (XI (XI (XI (XI (XO (XI (XI (XI (XO (XO (XI
    (XI (XI (XI (XO (XI (XO (XI (XO (XO (XO (XO (XO (XI (XI (XI (XO (XO (XI
    (XO (XI (XI (XI (XO (XO (XO (XO (XO (XI (XO (XI (XO (XI (XO (XI (XI (XI
    (XI (XO (XO (XO (XI (XO (XI (XO (XO
    XH)))))))))))))))))))))))))))))))))))))))))))))))))))))))))))))))) :: ((Npos
    (XI (XO (XO (XO (XI (XO (XI (XO (XI (XI (XI (XO (XO (XO (XI (XI (XO (XO
    (XO (XO (XI (XO (XO (XO (XO (XO (XO (XI (XI (XO (XO (XO (XI (XO (XO (XI
    (XO (XO (XO (XI (XI (XO (XO (XI (XI (XO (XI (XO (XO (XO (XI (XO (XI (XO
    (XO (XO (XI (XI (XI (XI (XI (XO (XO
    XH)))))))))))))))))))))))))))))))))))))))))))))))))))))))))))))))) :: ((Npos
    (XO (XO (XO (XI (XI (XO (XI (XO (XO (XO (XO (XO (XO (XO (XI (XO (XI (XI
    (XI (XI (XI (XO (XO (XO (XI (XO (XO (XO (XI (XO (XI (XO (XI (XI (XI (XI
    (XI (XI (XI (XI (XO (XI (XO (XO (XO (XI (XO (XO (XI (XI (XO (XO (XO (XI
    (XI (XI (XI (XO (XO (XO (XI (XI (XI
    XH)))))))))))))))))))))))))))))))))))))))))))))))))))))))))))))))) :: ((Npos
    (XI (XI (XO (XI (XO (XO (XO (XI (XO (XO (XO (XI (XI (XO (XO (XI (XI (XO
    (XO (XI (XI (XO (XI (XI (XO (XI (XO (XO (XO (XI (XO (XI (XI (XI (XO (XO
    (XO (XO (XO (XI (XI (XO (XO (XI (XI (XO (XI (XO (XI (XI (XI (XI (XI (XO
    (XI (XI (XO (XI (XO (XI (XO (XI
    XH))))))))))))))))))))))))))))))))))))))))))))))))))))))))))))))) :: ((Npos
    (XI (XI (XI (XI (XI (XO (XI (XI (XO (XO (XI (XO (XI (XO (XI (XO (XO (XO
    (XI (XI (XI (XO (XI (XO (XO (XI (XO (XI (XI (XO (XO (XO (XO (XO (XI (XO
    (XI (XI (XI (XO (XO (XO (XO (XO (XI (XI (XI (XI (XO (XI (XO (XO (XI (XI
    (XI (XO (XO (XI (XO
    XH)))))))))))))))))))))))))))))))))))))))))))))))))))))))))))) :: ((Npos
    (XI (XI (XI (XO (XI (XO (XO (XO (XI (XO (XO (XI (XI (XO (XO (XO (XO (XO
    (XO (XO (XO (XO (XI (XI (XI (XI (XI (XO (XI (XO (XO (XI (XI (XI (XO (XI
    (XO (XI (XO (XI (XO (XO (XO (XI (XI (XO (XO (XO (XI (XO (XI (XI (XO (XO
    (XI (XO (XO (XO (XI (XI (XO (XO (XO
    XH)))))))))))))))))))))))))))))))))))))))))))))))))))))))))))))))) :: ((Npos
    (XI (XO (XO (XO (XI (XO (XI (XI (XI (XI (XO (XI (XO (XO (XO (XO (XO (XO
    (XI (XI (XO (XI (XI (XO (XO (XI (XI (XI (XI (XI (XO (XO (XO (XO (XI (XI
    (XO (XO (XO (XO (XO (XO (XI (XO (XI (XO (XI (XI (XO (XI (XI (XO (XI (XO
    (XI (XI (XO (XI (XO (XI (XI (XI (XO
    XH)))))))))))))))))))))))))))))))))))))))))))))))))))))))))))))))) :: ((Npos
    (XO (XO (XO (XO (XO (XI (XO (XI (XI (XI (XI (XO (XO (XI (XI (XO (XO (XI
    (XI (XI (XI (XO (XO (XO (XI (XO (XI (XO (XI (XO (XO (XO (XI (XO (XO (XI
    (XO (XO (XI (XI (XI (XI (XO (XI (XI (XI (XI (XI (XO (XI (XI (XI (XI (XO
    (XI (XO (XI (XO (XO (XI (XO (XI
    XH))))))))))))))))))))))))))))))))))))))))))))))))))))))))))))))) :: ((Npos
    (XI (XO (XO (XO (XO (XI (XO (XI (XO (XO (XI (XI (XI (XO (XI (XO (XI (XI
    (XI (XI (XI (XI (XO (XI (XO (XO (XO (XO (XO (XI (XI (XI (XO (XI (XO (XI
    (XO (XI (XO (XO (XI (XI (XI (XI (XO (XI (XI (XI (XI (XI (XO (XI (XO (XI
    (XI (XO (XI (XO (XI (XI (XI (XO (XI
    XH)))))))))))))))))))))))))))))))))))))))))))))))))))))))))))))))) :: ((Npos
    (XI (XO (XO (XO (XI (XI (XI (XO (XI (XO (XI (XI (XI (XO (XO (XO (XI (XI
    (XO (XI (XI (XI (XO (XO (XO (XO (XO (XI (XO (XO (XI (XI (XO (XI (XO (XI
    (XO (XI (XO (XI (XO (XI (XO (XI (XI (XI (XI (XO (XO (XO (XI (XO (XI (XO
    (XI (XO (XO (XO (XO (XI (XI (XI (XI
    XH)))))))))))))))))))))))))))))))))))))))))))))))))))))))))))))))) :: ((Npos
    (XO (XI (XO (XI (XO (XO (XI (XO (XO (XI (XO (XI (XI (XO (XO (XI (XO (XO
    (XI (XI (XI (XO (XI (XO (XI (XO (XO (XO (XI (XO (XO (XI (XO (XI (XI (XI
    (XI (XO (XI (XI (XO (XI (XI (XO (XI (XI (XO (XI (XI (XI (XO (XO (XO (XO
    (XI (XI (XO (XO (XI (XO (XI (XO
    XH))))))))))))))))))))))))))))))))))))))))))))))))))))))))))))))) :: ((Npos
    (XO (XI (XI (XI (XI (XI (XI (XI (XO (XI (XI (XO (XO (XI (XI (XI (XI (XI
    (XO (XO (XI (XO (XI (XI (XI (XI (XO (XO (XO (XI (XI (XO (XO (XO (XI (XO
    (XI (XI (XI (XI (XI (XO (XI (XI (XO (XO (XI (XO (XO (XO (XO (XO (XI (XI
    (XI (XO (XO (XI (XO (XI (XI (XI (XI
    XH)))))))))))))))))))))))))))))))))))))))))))))))))))))))))))))))) :: ((Npos
    (XI (XO (XO (XI (XI (XO (XO (XO (XI (XI (XO (XI (XI (XO (XI (XI (XI (XO
    (XO (XO (XO (XI (XI (XI (XI (XO (XO (XO (XO (XO (XO (XO (XO (XI (XI (XO
    (XO (XO (XO (XI (XO (XI (XI (XI (XI (XI (XO (XO (XI (XO (XI (XI (XO (XI
    (XO (XO (XO (XO (XO (XO (XI (XI (XO
    XH)))))))))))))))))))))))))))))))))))))))))))))))))))))))))))))))) :: ((Npos
    (XO (XI (XI (XI (XI (XI (XO (XI (XO (XO (XI (XI (XI (XO (XO (XI (XO (XI
    (XO (XO (XO (XO (XO (XI (XI (XI (XI (XO (XO (XI (XI (XI (XI (XI (XI (XO
    (XI (XI (XI (XI (XI (XO (XO (XO (XI (XO (XI (XI (XI (XO (XI (XI (XO (XI
    (XI (XI (XI (XI (XI (XI (XO (XO (XO
    XH)))))))))))))))))))))))))))))))))))))))))))))))))))))))))))))))) :: ((Npos
    (XI (XI (XI (XI (XI (XI (XO (XO (XO (XO (XI (XO (XI (XI (XO (XI (XO (XO
    (XI (XI (XI (XI (XO (XI (XO (XO (XO (XI (XO (XO (XO (XI (XI (XI (XI (XI
    (XO (XI (XO (XI (XO (XO (XI (XO (XI (XO (XO (XO (XO (XO (XO (XO (XO (XO
    (XI (XI (XO (XI (XO (XO (XO
    XH)))))))))))))))))))))))))))))))))))))))))))))))))))))))))))))) :: [])))))))))))))))))))))))))))))))))))))))))))))))))))))))))))))))) :: (((Npos
    (XO (XO (XI (XO (XO (XO (XI (XI (XO (XI (XI (XI (XI (XO (XI (XI (XI (XO
    (XI (XI (XO (XI (XI (XO (XO (XO (XO (XO (XO (XI (XO (XO (XI (XI (XI (XI
    (XI (XO (XI (XI (XI (XI (XI (XI (XI (XI (XO (XI (XO (XO (XI (XO (XO (XO
    (XO (XO (XO (XI (XI (XI
    XH))))))))))))))))))))))))))))))))))))))))))))))))))))))))))))) :: ((Npos
    (XO (XI (XO (XI (XI (XO (XO (XI (XI (XO (XO (XI (XO (XO (XI (XO (XI (XI
    (XI (XO (XI (XI (XI (XO (XO (XI (XO (XI (XO (XO (XO (XO (XI (XI (XO (XO
    (XI (XI (XI (XI (XI (XO (XI (XO (XO (XO (XI (XO (XI (XI (XI (XO (XO (XI
    (XO (XO (XO (XI (XO (XI (XO (XI
    XH))))))))))))))))))))))))))))))))))))))))))))))))))))))))))))))) :: ((Npos
    (XO (XO (XI (XI (XO (XO (XI (XO (XO (XO (XI (XO (XI (XI (XI (XI (XI (XI
    (XO (XO (XO (XO (XI (XO (XI (XI (XO (XO (XI (XI (XO (XI (XI (XO (XO (XI
    (XI (XO (XO (XI (XO (XO (XI (XI (XO (XI (XO (XO (XI (XI (XO (XI (XO (XO
    (XI (XI (XO (XI (XO (XI (XO (XI (XI
    XH)))))))))))))))))))))))))))))))))))))))))))))))))))))))))))))))) :: ((Npos
    (XO (XI (XO (XI (XI (XI (XO (XI (XO (XI (XO (XO (XO (XI (XO (XI (XI (XI
    (XO (XI (XI (XO (XI (XI (XO (XI (XO (XO (XO (XI (XI (XO (XI (XI (XI (XO
    (XO (XI (XO (XO (XO (XO (XI (XO (XI (XO (XO (XO (XO (XO (XO (XO (XO (XI
    (XI (XO (XI (XO (XI (XI (XI (XI (XO
    XH)))))))))))))))))))))))))))))))))))))))))))))))))))))))))))))))) :: ((Npos
    (XI (XO (XO (XO (XI (XI (XI (XI (XI (XO (XI (XI (XO (XI (XI (XI (XO (XO
    (XO (XO (XO (XO (XO (XI (XI (XO (XI (XI (XI (XO (XO (XO (XI (XI (XI (XI
    (XI (XO (XI (XO (XO (XI (XO (XO (XO (XI (XI (XI (XO (XI (XO (XI (XO (XO
    (XO (XO (XO (XO (XI (XI (XO (XO
    XH))))))))))))))))))))))))))))))))))))))))))))))))))))))))))))))) :: ((Npos
    (XI (XI (XO (XI (XO (XO (XO (XI (XO (XI (XI (XI (XI (XO (XO (XO (XO (XO
    (XO (XO (XI (XO (XO (XO (XO (XO (XI (XO (XO (XI (XO (XI (XI (XI (XO (XO
    (XI (XO (XO (XO (XI (XO (XO (XI (XI (XO (XO (XI (XI (XO (XO (XI (XO (XI
    (XO (XO (XI (XI (XI (XI (XI (XI (XO
    XH)))))))))))))))))))))))))))))))))))))))))))))))))))))))))))))))) :: ((Npos
    (XO (XO (XI (XO (XO (XI (XI (XO (XO (XI (XO (XO (XO (XI (XO (XI (XO (XO
    (XO (XI (XI (XI (XI (XO (XO (XO (XI (XO (XO (XO (XI (XO (XI (XI (XO (XI
    (XO (XO (XI (XI (XO (XO (XO (XI (XO (XO (XI (XO (XI (XI (XO (XO (XI (XO
    (XO (XI (XI (XO (XO (XI (XI (XO (XO
    XH)))))))))))))))))))))))))))))))))))))))))))))))))))))))))))))))) :: ((Npos
    (XO (XO (XO (XI (XO (XO (XO (XO (XO (XO (XO (XI (XO (XI (XO (XO (XO (XI
    (XO (XI (XI (XO (XI (XI (XO (XO (XO (XO (XO (XO (XI (XO (XO (XO (XO (XI
    (XO (XO (XO (XI (XO (XO (XI (XI (XO (XI (XI (XI (XO (XO (XO (XI (XO (XI
    (XI (XI (XO (XO (XI (XI (XI (XO (XI
    XH)))))))))))))))))))))))))))))))))))))))))))))))))))))))))))))))) :: ((Npos
    (XO (XO (XI (XI (XI (XO (XI (XO (XO (XO (XO (XO (XI (XI (XO (XO (XI (XI
    (XI (XO (XI (XO (XO (XO (XI (XO (XI (XO (XO (XI (XI (XI (XO (XO (XO (XI
    (XI (XO (XO (XI (XO (XO (XI (XO (XI (XO (XI (XO (XI (XI (XO (XO (XI (XO
    (XI (XI (XO (XI (XO (XO (XO (XI
    XH))))))))))))))))))))))))))))))))))))))))))))))))))))))))))))))) :: ((Npos
    (XO (XI (XO (XO (XO (XO (XI (XO (XI (XI (XO (XO (XI (XO (XO (XI (XO (XI
    (XO (XO (XO (XI (XI (XO (XI (XO (XI (XI (XI (XO (XO (XO (XO (XO (XI (XI
    (XI (XO (XO (XI (XO (XO (XO (XO (XI (XI (XI (XO (XO (XO (XO (XI (XO (XO
    (XI (XO (XO (XI (XO (XO (XI (XI (XI
    XH)))))))))))))))))))))))))))))))))))))))))))))))))))))))))))))))) :: ((Npos
    (XO (XO (XI (XI (XO (XI (XO (XI (XO (XO (XO (XO (XI (XO (XI (XO (XI (XI
    (XO (XI (XO (XI (XI (XI (XI (XO (XI (XO (XI (XO (XO (XO (XI (XO (XI (XO
    (XI (XO (XO (XO (XO (XI (XI (XI (XI (XI (XO (XI (XI (XI (XI (XO (XO (XI
    (XI (XO (XI (XO
    XH))))))))))))))))))))))))))))))))))))))))))))))))))))))))))) :: ((Npos
    (XO (XO (XI (XI (XI (XI (XI (XI (XO (XO (XI (XI (XO (XO (XI (XO (XO (XO
    (XO (XO (XI (XO (XO (XO (XI (XI (XI (XI (XI (XI (XI (XO (XO (XI (XI (XI
    (XO (XO (XI (XI (XO (XI (XI (XO (XO (XI (XI (XI (XI (XO (XI (XI (XO (XO
    (XI (XI (XI (XI (XO (XI
    XH))))))))))))))))))))))))))))))))))))))))))))))))))))))))))))) :: ((Npos
    (XO (XO (XI (XO (XI (XO (XI (XI (XO (XO (XI (XI (XI (XO (XI (XO (XO (XI
    (XI (XO (XI (XO (XO (XO (XO (XO (XO (XI (XI (XI (XI (XI (XI (XO (XO (XO
    (XO (XI (XI (XO (XI (XI (XI (XO (XO (XO (XO (XO (XI (XO (XI (XO (XI (XO
    (XO (XO (XI (XO (XI (XO (XI (XI
    XH))))))))))))))))))))))))))))))))))))))))))))))))))))))))))))))) :: ((Npos
    (XI (XO (XI (XI (XO (XO (XO (XO (XO (XI (XO (XI (XI (XI (XO (XI (XO (XO
    (XI (XI (XO (XO (XI (XI (XI (XO (XO (XI (XI (XI (XI (XI (XI (XI (XO (XI
    (XI (XI (XI (XO (XI (XO (XI (XO (XO (XI (XI (XI (XI (XI (XO (XI (XO (XO
    (XI (XO (XI (XI (XI (XI (XO (XI (XO
    XH)))))))))))))))))))))))))))))))))))))))))))))))))))))))))))))))) :: ((Npos
    (XI (XI (XI (XI (XO (XO (XO (XO (XI (XO (XI (XO (XI (XO (XI (XO (XI (XO
    (XO (XI (XI (XO (XI (XI (XI (XO (XO (XO (XO (XI (XO (XI (XI (XI (XO (XO
    (XO (XI (XI (XI (XO (XO (XI (XO (XO (XO (XO (XI (XO (XO (XO (XI (XO (XO
    (XO (XI (XI (XI (XI (XO (XI (XO
    XH))))))))))))))))))))))))))))))))))))))))))))))))))))))))))))))) :: ((Npos
    (XI (XO (XI (XO (XO (XI (XO (XO (XI (XI (XO (XI (XI (XI (XO (XI (XO (XI
    (XO (XI (XI (XO (XI (XO (XI (XI (XO (XO (XO (XO (XI (XO (XI (XI (XO (XI
    (XI (XI (XO (XI (XO (XI (XI (XI (XI (XO (XO (XO (XI (XO (XO (XI (XI (XI
    (XI (XI (XI (XO (XI (XI (XO (XI
    XH))))))))))))))))))))))))))))))))))))))))))))))))))))))))))))))) :: ((Npos
    (XO (XI (XO (XI (XO (XI (XI (XI (XI (XO (XO (XO (XI (XO (XI (XI (XO (XO
    (XI (XO (XO (XI (XO (XI (XO (XI (XO (XI (XI (XO (XO (XI (XI (XI (XO (XO
    (XI (XI (XI (XO (XI (XI (XI (XI (XO (XO (XI (XI (XI (XO (XO (XO (XI (XO
    (XI (XO (XI (XO (XI (XO (XO (XI (XO
    XH)))))))))))))))))))))))))))))))))))))))))))))))))))))))))))))))) :: ((Npos
    (XI (XI (XI (XI (XO (XO (XO (XI (XI (XI (XI (XO (XO (XO (XI (XI (XO (XI
    (XI (XO (XO (XI (XI (XI (XO (XO (XI (XO (XO (XO (XO (XO (XI (XO (XO (XO
    (XI (XI (XO (XI (XO (XI (XO (XI (XO (XI (XI (XI (XO (XO (XI (XI (XI (XI
    (XO (XI (XO (XI
    XH))))))))))))))))))))))))))))))))))))))))))))))))))))))))))) :: ((Npos
    (XI (XI (XI (XO (XO (XO (XO (XO (XI (XI (XO (XI (XI (XI (XI (XI (XO (XO
    (XO (XO (XI (XI (XO (XO (XO (XI (XI (XO (XI (XI (XO (XI (XI (XO (XO (XO
    (XI (XI (XI (XI (XI (XI (XI (XO (XO (XI (XO (XI (XI (XO (XO (XI (XO (XI
    (XO (XO (XO (XO (XO (XO (XI (XI (XI
    XH)))))))))))))))))))))))))))))))))))))))))))))))))))))))))))))))) :: ((Npos
    (XI (XI (XO (XI (XO (XI (XO (XI (XI (XO (XI (XI (XO (XI (XI (XI (XI (XO
    (XI (XI (XI (XI (XI (XO (XI (XO (XI (XI (XO (XO (XO (XI (XO (XI (XO (XO
    (XI (XO (XO (XI (XO (XO (XO (XI (XI (XI (XO (XI (XO (XI (XO (XI (XI (XO
    (XI (XI (XO (XI (XO (XI (XI (XO (XO
    XH)))))))))))))))))))))))))))))))))))))))))))))))))))))))))))))))) :: ((Npos
    (XI (XI (XI (XO (XI (XO (XI (XI (XI (XI (XO (XO (XO (XI (XO (XI (XI (XI
    (XO (XO (XO (XI (XI (XO (XI (XI (XI (XI (XO (XI (XI (XO (XI (XO (XI (XI
    (XO (XI (XI (XI (XI (XO (XI (XO (XI (XO (XI (XO (XO (XO (XI (XO (XI (XI
    (XI (XI (XI (XO (XO (XO (XO (XI (XO
    XH)))))))))))))))))))))))))))))))))))))))))))))))))))))))))))))))) :: ((Npos
    (XI (XO (XI (XI (XI (XI (XO (XI (XO (XO (XI (XO (XI (XI (XO (XI (XO (XO
    (XI (XO (XO (XI (XI (XI (XI (XO (XI (XO (XO (XI (XO (XO (XI (XI (XO (XO
    (XI (XI (XO (XO (XO (XO (XO (XO (XO (XO (XO (XI (XI (XO (XO (XI (XI (XI
    (XI (XO (XO (XI (XI (XI (XO (XI
    XH))))))))))))))))))))))))))))))))))))))))))))))))))))))))))))))) :: ((Npos
    (XI (XI (XO (XI (XO (XI (XO (XO (XO (XO (XI (XI (XI (XI (XI (XI (XO (XI
    (XO (XI (XI (XO (XO (XI (XO (XO (XI (XI (XO (XI (XI (XO (XO (XO (XI (XO
    (XI (XO (XI (XO (XI (XO (XO (XI (XI (XI (XO (XO (XO (XI (XO (XI (XI (XO
    (XO (XO (XI (XI (XO (XO (XI
    XH)))))))))))))))))))))))))))))))))))))))))))))))))))))))))))))) :: ((Npos
    (XO (XI (XO (XO (XO (XI (XI (XI (XO (XI (XO (XI (XO (XI (XI (XO (XO (XI
    (XO (XI (XO (XI (XI (XO (XO (XO (XI (XO (XO (XI (XI (XO (XI (XO (XO (XO
    (XO (XI (XO (XO (XO (XO (XI (XI (XO (XO (XI (XO (XO (XO (XI (XI (XO (XI
    (XO (XO (XI (XO (XI
    XH)))))))))))))))))))))))))))))))))))))))))))))))))))))))))))) :: ((Npos
    (XI (XI (XI (XO (XI (XI (XI (XI (XI (XO (XO (XI (XI (XO (XO (XI (XO (XO
    (XO (XO (XI (XO (XI (XO (XI (XI (XO (XO (XO (XO (XO (XO (XI (XO (XO (XI
    (XO (XI (XI (XO (XI (XO (XI (XO (XI (XO (XI (XO (XI (XI (XI (XO (XO (XO
    (XI (XI (XO (XI (XO (XO (XO (XO (XO
    XH)))))))))))))))))))))))))))))))))))))))))))))))))))))))))))))))) :: ((Npos
    (XI (XO (XO (XI (XO (XI (XI (XO (XI (XI (XI (XI (XO (XI (XI (XI (XI (XI
    (XI (XO (XO (XO (XI (XO (XO (XI (XI (XO (XI (XO (XO (XO (XO (XI (XO (XO
    (XI (XO (XI (XO (XI (XI (XI (XI (XI (XI (XI (XO (XI (XO (XI (XO (XI (XI
    (XO (XO (XI (XI (XI (XO (XO (XI (XI
    XH)))))))))))))))))))))))))))))))))))))))))))))))))))))))))))))))) :: ((Npos
    (XI (XI (XI (XO (XO (XO (XO (XO (XI (XO (XI (XO (XO (XI (XO (XO (XI (XO
    (XO (XI (XO (XO (XO (XI (XO (XO (XI (XO (XO (XI (XO (XI (XI (XI (XI (XO
    (XO (XO (XI (XO (XO (XI (XI (XO (XO (XO (XI (XI (XO (XO (XI (XI (XO (XO
    (XO (XO (XO (XI (XI (XO (XO (XO
    XH))))))))))))))))))))))))))))))))))))))))))))))))))))))))))))))) :: ((Npos
    (XO (XI (XI (XO (XI (XO (XI (XO (XI (XI (XI (XI (XI (XI (XI (XI (XI (XO
    (XI (XO (XO (XO (XI (XI (XO (XO (XI (XI (XI (XI (XI (XI (XI (XI (XI (XI
    (XO (XO (XI (XO (XO (XO (XI (XI (XO (XO (XI (XO (XI (XO (XO (XO (XO (XO
    (XI (XI (XI (XI (XO (XO (XO (XI (XO
    XH)))))))))))))))))))))))))))))))))))))))))))))))))))))))))))))))) :: ((Npos
    (XI (XO (XO (XO (XO (XO (XI (XI (XI (XI (XI (XI (XI (XO (XO (XO (XO (XO
    (XI (XO (XO (XI (XI (XO (XI (XO (XO (XO (XI (XI (XI (XI (XO (XO (XI (XO
    (XO (XO (XI (XI (XO (XI (XI (XO (XI (XO (XI (XI (XI (XO (XO (XO (XO (XO
    (XI (XO (XO (XI (XI (XO (XI (XI (XO
    XH)))))))))))))))))))))))))))))))))))))))))))))))))))))))))))))))) :: ((Npos
    (XO (XI (XO (XI (XI (XO (XO (XO (XI (XI (XI (XI (XI (XI (XI (XO (XO (XO
    (XO (XI (XO (XO (XO (XO (XI (XO (XI (XI (XO (XI (XO (XO (XI (XO (XO (XO
    (XI (XO (XI (XI (XI (XO (XO (XO (XO (XO (XO (XO (XO (XO (XO (XO (XO (XO
    (XI (XO (XO (XO (XO (XO (XO (XI (XO
    XH)))))))))))))))))))))))))))))))))))))))))))))))))))))))))))))))) :: ((Npos
    (XI (XO (XI (XI (XO (XI (XI (XO (XI (XO (XI (XI (XO (XO (XI (XI (XO (XO
    (XI (XI (XO (XO (XO (XO (XO (XI (XO (XI (XI (XI (XI (XI (XI (XO (XI (XO
    (XI (XI (XI (XI (XO (XI (XI (XI (XI (XI (XI (XI (XI (XO (XO (XO (XO (XI
    (XI (XO (XI (XO (XO (XO (XI (XO (XI
    XH)))))))))))))))))))))))))))))))))))))))))))))))))))))))))))))))) :: ((Npos
    (XO (XO (XI (XO (XO (XI (XI (XI (XI (XO (XI (XI (XO (XO (XO (XO (XI (XO
    (XI (XI (XI (XI (XI (XO (XI (XO (XI (XI (XI (XI (XO (XO (XO (XO (XO (XI
    (XO (XI (XO (XO (XI (XO (XI (XO (XO (XI (XO (XI (XI (XI (XO (XO (XI (XO
    (XI (XO (XI (XO (XI (XO (XO (XI (XI
    XH)))))))))))))))))))))))))))))))))))))))))))))))))))))))))))))))) :: ((Npos
    (XI (XO (XO (XI (XO (XI (XI (XO (XI (XI (XI (XI (XO (XO (XO (XI (XO (XI
    (XI (XI (XI (XI (XI (XI (XI (XI (XI (XO (XI (XO (XI (XI (XO (XI (XI (XI
    (XI (XI (XI (XO (XI (XI (XO (XO (XO (XO (XO (XO (XO (XI (XO (XI (XI (XI
    (XI (XO (XI (XO (XI (XO (XO (XO (XO
    XH)))))))))))))))))))))))))))))))))))))))))))))))))))))))))))))))) :: ((Npos
    (XI (XO (XI (XO (XO (XO (XO (XI (XI (XI (XI (XI (XO (XI (XO (XO (XO (XO
    (XO (XO (XO (XI (XI (XO (XI (XO (XO (XI (XO (XO (XI (XO (XO (XO (XI (XI
    (XO (XI (XO (XO (XI (XI (XO (XI (XI (XO (XO (XO (XO (XO (XO (XI (XI (XI
    (XO (XI (XI (XI (XI (XO (XO (XO (XI
    XH)))))))))))))))))))))))))))))))))))))))))))))))))))))))))))))))) :: ((Npos
    (XI (XI (XO (XI (XI (XO (XI (XI (XO (XO (XO (XO (XI (XO (XI (XI (XI (XO
    (XI (XO (XO (XO (XI (XO (XI (XO (XO (XO (XO (XO (XI (XI (XI (XO (XO (XI
    (XO (XO (XO (XO (XI (XI (XI (XI (XI (XI (XO (XO (XI (XI (XI (XI (XI (XO
    (XI (XO (XI (XO (XI (XI (XI (XO
    XH))))))))))))))))))))))))))))))))))))))))))))))))))))))))))))))) :: ((Npos
    (XI (XO (XO (XO (XI (XI (XO (XI (XO (XI (XI (XO (XO (XI (XO (XI (XI (XO
    (XO (XI (XI (XI (XI (XI (XI (XI (XI (XI (XO (XI (XI (XO (XI (XI (XI (XI
    (XO (XI (XO (XI (XO (XI (XO (XI (XO (XI (XO (XI (XO (XO (XI (XI (XO (XI
    (XO (XO (XI (XO (XI (XI
    XH))))))))))))))))))))))))))))))))))))))))))))))))))))))))))))) :: ((Npos
    (XO (XO (XI (XO (XO (XO (XI (XO (XO (XO (XO (XO (XO (XI (XI (XI (XI (XO
    (XO (XO (XI (XO (XO (XI (XI (XO (XO (XI (XI (XO (XO (XO (XO (XO (XO (XO
    (XO (XO (XI (XO (XI (XO (XO (XI (XO (XI (XI (XI (XI (XO (XI (XI (XO (XO
    (XO (XI (XO (XO (XO (XO (XO (XI (XI
    XH)))))))))))))))))))))))))))))))))))))))))))))))))))))))))))))))) :: ((Npos
    (XO (XO (XO (XO (XO (XO (XI (XO (XO (XI (XO (XI (XI (XI (XI (XO (XO (XI
    (XI (XI (XI (XI (XO (XO (XO (XI (XO (XI (XO (XO (XI (XI (XO (XI (XO (XI
    (XO (XO (XI (XO (XO (XO (XI (XI (XI (XO (XO (XO (XI (XO (XI (XO (XI (XI
    (XI (XO (XI (XI (XO (XO (XO (XI (XI
    XH)))))))))))))))))))))))))))))))))))))))))))))))))))))))))))))))) :: ((Npos
    (XI (XO (XI (XO (XO (XO (XI (XI (XO (XI (XI (XO (XI (XO (XO (XI (XO (XI
    (XO (XI (XI (XO (XO (XO (XO (XO (XO (XO (XI (XI (XI (XI (XO (XO (XI (XI
    (XI (XO (XI (XO (XI (XO (XO (XO (XO (XI (XO (XI (XI (XO (XO (XO (XI (XI
    (XO (XI (XI (XO (XI (XO (XI (XI (XO
    XH)))))))))))))))))))))))))))))))))))))))))))))))))))))))))))))))) :: ((Npos
    (XI (XI (XO (XO (XO (XI (XI (XO (XO (XI (XO (XO (XO (XI (XO (XI (XI (XI
    (XO (XO (XI (XI (XI (XI (XO (XO (XI (XI (XO (XO (XO (XI (XI (XI (XO (XI
    (XI (XI (XI (XO (XI (XI (XO (XO (XO (XI (XO (XO (XO (XI (XO (XI (XI (XO
    (XI (XO (XI (XO (XI (XI (XO
    XH)))))))))))))))))))))))))))))))))))))))))))))))))))))))))))))) :: ((Npos
    (XI (XI (XI (XO (XI (XI (XI (XI (XI (XI (XO (XI (XI (XO (XO (XO (XO (XI
    (XI (XI (XI (XO (XI (XI (XO (XO (XO (XI (XO (XO (XI (XO (XI (XO (XO (XO
    (XI (XI (XO (XO (XI (XI (XO (XI (XI (XO (XO (XI (XI (XO (XI (XO (XO (XO
    (XO (XO (XI (XI (XI (XI (XO (XO
    XH))))))))))))))))))))))))))))))))))))))))))))))))))))))))))))))) :: ((Npos
    (XO (XO (XO (XO (XI (XO (XO (XO (XO (XI (XI (XI (XO (XI (XO (XO (XI (XI
    (XO (XO (XI (XI (XI (XO (XO (XI (XO (XO (XO (XO (XO (XI (XI (XO (XO (XO
    (XI (XI (XO (XO (XO (XI (XI (XO (XO (XI (XI (XO (XI (XO (XI (XI (XO (XO
    (XI (XI (XO (XO (XI (XI (XO (XO (XI
    XH)))))))))))))))))))))))))))))))))))))))))))))))))))))))))))))))) :: ((Npos
    (XO (XO (XO (XO (XO (XI (XI (XI (XI (XO (XI (XI (XI (XI (XO (XO (XO (XI
    (XO (XI (XO (XI (XI (XI (XI (XI (XI (XO (XI (XO (XO (XI (XI (XI (XO (XI
    (XO (XI (XI (XI (XO (XI (XI (XI (XI (XO (XO (XO (XI (XI (XO (XO (XI (XI
    (XO (XI (XI (XO (XO (XI
    XH))))))))))))))))))))))))))))))))))))))))))))))))))))))))))))) :: ((Npos
    (XO (XO (XO (XI (XO (XO (XO (XI (XO (XI (XO (XI (XO (XI (XI (XO (XO (XO
    (XO (XI (XI (XI (XI (XI (XO (XI (XO (XO (XI (XO (XO (XO (XI (XO (XO (XO
    (XO (XI (XI (XO (XO (XO (XO (XI (XI (XI (XI (XO (XI (XO (XI (XO (XO (XO
    (XO (XO (XO (XI (XO (XI (XO (XI (XO
    XH)))))))))))))))))))))))))))))))))))))))))))))))))))))))))))))))) :: ((Npos
    (XO (XO (XI (XI (XI (XO (XI (XO (XO (XI (XI (XI (XO (XI (XO (XI (XI (XO
    (XI (XI (XO (XI (XO (XO (XI (XO (XI (XI (XI (XI (XO (XO (XI (XO (XI (XI
    (XO (XI (XI (XI (XO (XI (XI (XO (XO (XO (XO (XI (XI (XI (XO (XO (XI (XO
    (XO (XO (XI (XI
    XH))))))))))))))))))))))))))))))))))))))))))))))))))))))))))) :: ((Npos
    (XO (XO (XO (XO (XI (XI (XO (XI (XO (XO (XI (XO (XI (XO (XO (XI (XI (XI
    (XO (XI (XO (XO (XI (XI (XO (XI (XI (XO (XI (XI (XI (XI (XO (XI (XO (XI
    (XI (XO (XI (XO (XI (XI (XO (XO (XO (XI (XI (XO (XO (XI (XO (XO (XO (XO
    (XO (XO (XO (XI (XI (XI (XO (XO
    XH))))))))))))))))))))))))))))))))))))))))))))))))))))))))))))))) :: ((Npos
    (XO (XI (XI (XO (XI (XO (XO (XI (XI (XO (XO (XI (XI (XO (XO (XO (XI (XO
    (XI (XI (XO (XO (XO (XI (XI (XO (XI (XO (XO (XI (XI (XO (XO (XI (XO (XO
    (XO (XO (XI (XI (XO (XI (XI (XI (XO (XI (XI (XO (XI (XO (XO (XO (XO (XI
    (XI (XI (XO (XI (XI (XO (XO (XI (XO
    XH)))))))))))))))))))))))))))))))))))))))))))))))))))))))))))))))) :: ((Npos
    (XI (XO (XI (XO (XI (XO (XI (XI (XO (XO (XI (XI (XO (XI (XO (XO (XO (XO
    (XI (XO (XI (XI (XO (XO (XI (XO (XI (XO (XO (XI (XO (XI (XI (XI (XO (XI
    (XO (XI (XI (XO (XI (XI (XO (XO (XO (XO (XO (XI (XO (XI (XI (XI (XO (XI
    (XO (XO (XO (XO (XO (XO (XI (XO (XO
    XH)))))))))))))))))))))))))))))))))))))))))))))))))))))))))))))))) :: ((Npos
    (XO (XI (XO (XI (XI (XO (XO (XI (XI (XI (XI (XI (XO (XI (XI (XO (XI (XI
    (XI (XI (XO (XO (XO (XO (XI (XI (XO (XO (XI (XI (XO (XI (XO (XO (XI (XO
    (XO (XO (XI (XO (XI (XI (XI (XO (XI (XI (XO (XO (XI (XI (XO (XI (XO (XO
    (XI (XI (XO (XO (XO (XI (XO (XI
    XH))))))))))))))))))))))))))))))))))))))))))))))))))))))))))))))) :: ((Npos
    (XI (XO (XI (XI (XI (XI (XI (XI (XO (XI (XO (XO (XO (XI (XI (XO (XO (XO
    (XO (XO (XO (XO (XO (XO (XI (XO (XO (XO (XI (XO (XI (XI (XO (XO (XO (XO
    (XO (XI (XI (XO (XO (XO (XO (XI (XI (XO (XO (XO (XI (XO (XO (XO (XI (XI
    (XO (XO (XO (XO (XI (XI (XO (XI (XI
    XH)))))))))))))))))))))))))))))))))))))))))))))))))))))))))))))))) :: ((Npos
    (XI (XO (XO (XI (XI (XI (XO (XI (XI (XI (XI (XI (XO (XO (XI (XO (XI (XO
    (XO (XO (XI (XO (XI (XO (XI (XI (XO (XO (XO (XO (XO (XO (XO (XI (XO (XI
    (XI (XI (XO (XO (XI (XO (XO (XI (XO (XO (XO (XI (XO (XO (XO (XO (XO (XO
    (XO (XO (XI (XO (XO (XO (XO (XO (XO
    XH)))))))))))))))))))))))))))))))))))))))))))))))))))))))))))))))) :: ((Npos
    (XO (XI (XO (XO (XI (XO (XO (XI (XO (XI (XO (XI (XO (XO (XO (XO (XO (XI
    (XO (XO (XO (XO (XO (XO (XO (XO (XO (XO (XO (XO (XI (XI (XO (XI (XI (XO
    (XO (XO (XI (XO (XO (XO (XI (XI (XI (XI (XO (XI (XI (XI (XI (XI (XO (XI
    (XO (XO (XO (XI
    XH))))))))))))))))))))))))))))))))))))))))))))))))))))))))))) :: ((Npos
    (XI (XO (XO (XO (XI (XI (XI (XO (XO (XI (XO (XI (XI (XO (XI (XI (XO (XO
    (XO (XO (XO (XO (XO (XI (XO (XO (XI (XO (XI (XO (XI (XO (XI (XI (XI (XO
    (XO (XI (XO (XI (XI (XI (XI (XI (XO (XI (XI (XI (XO (XO (XI (XO (XI (XI
    (XI (XO (XO (XI (XO (XI (XO (XO (XI
    XH)))))))))))))))))))))))))))))))))))))))))))))))))))))))))))))))) :: ((Npos
    (XO (XO (XI (XO (XI (XO (XO (XI (XO (XI (XO (XI (XI (XI (XI (XI (XI (XI
    (XO (XO (XI (XI (XO (XI (XI (XO (XI (XO (XO (XI (XO (XI (XI (XI (XI (XO
    (XI (XI (XI (XI (XO (XO (XI (XO (XO (XO (XO (XO (XI (XO (XI (XI (XO (XO
    (XI (XO (XI (XI (XI (XO (XI
    XH)))))))))))))))))))))))))))))))))))))))))))))))))))))))))))))) :: ((Npos
    (XI (XO (XO (XO (XO (XI (XI (XO (XI (XO (XO (XI (XO (XO (XO (XI (XO (XO
    (XI (XO (XI (XI (XO (XO (XO (XI (XI (XI (XI (XI (XI (XI (XI (XO (XI (XO
    (XO (XI (XO (XO (XI (XO (XI (XI (XI (XO (XO (XI (XI (XI (XO (XO (XO (XI
    (XO (XO (XO (XI (XI (XO (XI (XO
    XH))))))))))))))))))))))))))))))))))))))))))))))))))))))))))))))) :: ((Npos
    (XO (XI (XO (XI (XI (XO (XO (XI (XO (XI (XO (XI (XI (XO (XI (XO (XO (XO
    (XI (XO (XI (XI (XI (XO (XI (XI (XO (XO (XO (XI (XI (XO (XI (XI (XO (XO
    (XI (XI (XO (XO (XO (XO (XI (XI (XO (XO (XI (XO (XO (XI (XI (XO (XI (XI
    (XO (XI (XO (XO (XO (XI
    XH))))))))))))))))))))))))))))))))))))))))))))))))))))))))))))) :: ((Npos
    (XI (XI (XO (XO (XI (XI (XI (XO (XI (XI (XI (XO (XI (XI (XI (XO (XI (XI
    (XI (XO (XI (XI (XO (XI (XO (XO (XO (XI (XI (XO (XO (XO (XO (XI (XI (XI
    (XI (XO (XO (XO (XI (XO (XO (XI (XO (XI (XI (XO (XO (XO (XO (XI (XO (XO
    (XI (XI (XO (XI (XI (XI (XI (XO (XO
    XH)))))))))))))))))))))))))))))))))))))))))))))))))))))))))))))))) :: ((Npos
    (XO (XO (XO (XI (XI (XI (XI (XI (XO (XI (XO (XO (XI (XI (XI (XI (XI (XI
    (XI (XI (XI (XO (XI (XO (XO (XO (XO (XI (XI (XO (XO (XI (XI (XI (XO (XI
    (XI (XO (XO (XI (XI (XO (XI (XO (XI (XI (XI (XO (XO (XI (XO (XO (XO (XI
    (XO (XI (XI (XI (XO (XI (XI
    XH)))))))))))))))))))))))))))))))))))))))))))))))))))))))))))))) :: ((Npos
    (XI (XI (XO (XI (XI (XI (XI (XO (XI (XO (XO (XO (XO (XO (XO (XO (XI (XO
    (XO (XO (XI (XI (XI (XI (XI (XI (XI (XI (XI (XI (XI (XI (XO (XI (XO (XO
    (XI (XI (XI (XI (XO (XO (XI (XI (XI (XO (XO (XI (XI (XI (XO (XO (XO (XO
    (XI (XO (XO (XI (XO (XO (XO (XO
    XH))))))))))))))))))))))))))))))))))))))))))))))))))))))))))))))) :: ((Npos
    (XO (XI (XO (XO (XO (XO (XO (XO (XO (XI (XI (XI (XI (XO (XO (XO (XO (XI
    (XO (XI (XI (XI (XO (XI (XO (XO (XI (XO (XO (XO (XO (XI (XI (XI (XI (XI
    (XO (XI (XO (XI (XO (XO (XO (XI (XO (XI (XI (XO (XI (XO (XO (XI (XO (XO
    (XI (XI (XO (XO (XO (XI (XI (XO
    XH))))))))))))))))))))))))))))))))))))))))))))))))))))))))))))))) :: ((Npos
    (XO (XI (XO (XO (XO (XO (XI (XI (XI (XO (XO (XO (XO (XI (XI (XO (XO (XO
    (XO (XI (XO (XI (XO (XO (XO (XO (XI (XI (XI (XO (XI (XO (XO (XO (XO (XO
    (XI (XI (XO (XO (XO (XI (XO (XO (XI (XO (XO (XI (XI (XI (XI (XI (XI (XI
    (XI (XO (XI (XI (XO (XI (XO (XO (XI
    XH)))))))))))))))))))))))))))))))))))))))))))))))))))))))))))))))) :: ((Npos
    (XO (XI (XI (XI (XO (XO (XO (XO (XI (XO (XI (XI (XO (XI (XI (XO (XO (XO
    (XI (XO (XO (XO (XO (XO (XI (XI (XI (XO (XI (XO (XI (XO (XO (XI (XI (XO
    (XI (XI (XI (XI (XI (XI (XI (XI (XO (XI (XO (XI (XO (XI (XI (XI (XI (XI
    (XI (XO (XI (XO (XO (XI (XO (XO
    XH))))))))))))))))))))))))))))))))))))))))))))))))))))))))))))))) :: ((Npos
    (XI (XO (XI (XI (XO (XO (XO (XI (XI (XI (XO (XI (XO (XO (XO (XO (XI (XI
    (XI (XI (XI (XO (XO (XO (XO (XI (XI (XI (XI (XO (XI (XI (XI (XI (XO (XI
    (XO (XO (XO (XI (XO (XO (XI (XI (XI (XI (XO (XI (XO (XO (XI (XI (XO (XO
    (XO (XI (XI (XI (XO (XO (XI (XO (XO
    XH)))))))))))))))))))))))))))))))))))))))))))))))))))))))))))))))) :: ((Npos
    (XI (XI (XO (XO (XI (XO (XI (XI (XO (XO (XO (XO (XI (XO (XO (XO (XI (XO
    (XO (XI (XO (XO (XI (XO (XI (XI (XO (XI (XO (XI (XI (XO (XI (XO (XO (XO
    (XI (XO (XI (XI (XI (XI (XI (XI (XO (XO (XO (XI (XO (XI (XI (XO (XI (XI
    (XO (XI (XI (XI (XO (XI (XI (XI (XI
    XH)))))))))))))))))))))))))))))))))))))))))))))))))))))))))))))))) :: [])))))))))))))))))))))))))))))))))))))))))))))))))))))))))))))))) :: []))))

(** val pOSSIBLE_PULL_VALUES : n list list **)

let pOSSIBLE_PULL_VALUES =
  ((Npos (XO (XO (XO (XO (XO (XI (XO (XO (XO (XO (XO (XI (XO (XO (XI (XI (XI
    (XI (XI (XI (XO (XO (XO (XO (XO (XO (XI (XI (XO (XO (XO (XO (XI (XO (XI
    (XO (XO (XO (XI (XI (XI (XI (XI (XO (XO (XI (XI (XI (XI (XI (XO (XI (XO
    (XO (XO (XO (XO (XI (XO (XO (XO
    XH)))))))))))))))))))))))))))))))))))))))))))))))))))))))))))))) :: ((Npos
    (XO (XO (XO (XO (XO (XO (XI (XI (XI (XO (XI (XI (XI (XI (XO (XI (XI (XI
    (XI (XI (XO (XI (XO (XI (XI (XI (XI (XO (XO (XO (XI (XI (XI (XO (XI (XI
    (XI (XO (XI (XI (XI (XI (XI (XO (XO (XO (XO (XO (XO (XI (XO (XI (XI (XI
    (XI (XI (XI (XI (XI (XI (XO (XI (XI
    XH)))))))))))))))))))))))))))))))))))))))))))))))))))))))))))))))) :: ((Npos
    (XO (XI (XI (XO (XO (XI (XI (XO (XO (XI (XO (XO (XO (XO (XI (XO (XI (XO
    (XO (XI (XI (XI (XO (XI (XO (XI (XO (XO (XO (XO (XI (XI (XO (XO (XO (XI
    (XO (XO (XO (XO (XO (XO (XI (XO (XI (XI (XI (XI (XO (XI (XO (XI (XO (XO
    (XI (XI (XO (XO (XO (XI (XO (XO (XI
    XH)))))))))))))))))))))))))))))))))))))))))))))))))))))))))))))))) :: ((Npos
    (XI (XO (XI (XO (XI (XI (XI (XO (XO (XO (XI (XI (XI (XI (XI (XI (XI (XI
    (XO (XO (XI (XI (XI (XO (XO (XO (XI (XO (XO (XI (XI (XO (XI (XI (XO (XI
    (XI (XI (XI (XI (XI (XI (XI (XO (XO (XO (XO (XI (XO (XI (XO (XI (XI (XI
    (XO (XI (XI (XI (XO (XO (XO (XO (XI
    XH)))))))))))))))))))))))))))))))))))))))))))))))))))))))))))))))) :: ((Npos
    (XI (XI (XI (XI (XI (XO (XO (XI (XO (XO (XI (XO (XI (XI (XO (XI (XI (XO
    (XI (XO (XO (XO (XO (XI (XO (XO (XI (XO (XI (XO (XO (XO (XO (XO (XO (XO
    (XO (XI (XO (XO (XO (XI (XI (XO (XI (XI (XO (XI (XI (XI (XO (XO (XO (XI
    (XO (XI (XO (XI (XI (XO (XO (XO (XO
    XH)))))))))))))))))))))))))))))))))))))))))))))))))))))))))))))))) :: ((Npos
    (XI (XO (XI (XO (XI (XO (XI (XO (XI (XO (XO (XO (XI (XO (XO (XI (XO (XI
    (XO (XI (XO (XO (XO (XO (XI (XI (XO (XI (XI (XO (XO (XI (XO (XO (XI (XO
    (XO (XO (XO (XO (XI (XI (XO (XI (XO (XI (XI (XI (XI (XI (XI (XI (XO (XO
    (XI (XO (XI (XI (XO (XO (XI (XI
    XH))))))))))))))))))))))))))))))))))))))))))))))))))))))))))))))) :: ((Npos
    (XO (XI (XO (XI (XI (XI (XI (XO (XI (XI (XI (XO (XI (XI (XI (XO (XO (XO
    (XO (XI (XI (XI (XO (XO (XO (XO (XO (XO (XO (XO (XI (XO (XO (XO (XI (XO
    (XI (XO (XO (XI (XI (XO (XI (XO (XI (XO (XI (XO (XO (XO (XI (XO (XO (XO
    (XO (XI (XO (XI (XI (XO (XO (XO (XI
    XH)))))))))))))))))))))))))))))))))))))))))))))))))))))))))))))))) :: ((Npos
    (XO (XI (XO (XO (XI (XO (XO (XI (XI (XO (XI (XI (XO (XO (XI (XI (XO (XO
    (XI (XI (XI (XO (XI (XI (XO (XO (XI (XO (XI (XI (XO (XI (XI (XO (XI (XI
    (XI (XI (XI (XI (XO (XI (XI (XI (XO (XI (XI (XI (XO (XO (XO (XI (XI (XO
    (XO (XO (XO (XO (XO (XI (XO (XO (XO
    XH)))))))))))))))))))))))))))))))))))))))))))))))))))))))))))))))) :: ((Npos
    (XI (XI (XI (XO (XI (XI (XI (XI (XI (XO (XI (XI (XI (XO (XO (XI (XI (XI
    (XI (XO (XI (XO (XO (XO (XI (XI (XO (XO (XO (XO (XI (XO (XI (XI (XO (XO
    (XI (XO (XI (XI (XO (XO (XI (XO (XO (XI (XI (XO (XO (XO (XI (XO (XI (XO
    (XI (XO (XI (XI (XI (XO (XI (XI
    XH))))))))))))))))))))))))))))))))))))))))))))))))))))))))))))))) :: ((Npos
    (XO (XO (XI (XO (XI (XI (XI (XI (XO (XO (XO (XI (XO (XI (XI (XI (XI (XO
    (XI (XI (XI (XO (XO (XO (XO (XI (XO (XI (XO (XO (XO (XI (XO (XO (XI (XO
    (XO (XI (XI (XO (XI (XO (XI (XO (XO (XO (XI (XI (XO (XI (XO (XI (XI (XI
    (XI (XO (XI (XI (XI (XO (XI (XO (XI
    XH)))))))))))))))))))))))))))))))))))))))))))))))))))))))))))))))) :: ((Npos
    (XI (XO (XO (XO (XO (XI (XI (XO (XI (XI (XI (XO (XI (XI (XO (XI (XO (XO
    (XI (XI (XI (XI (XO (XI (XO (XI (XI (XO (XO (XO (XO (XO (XI (XO (XI (XO
    (XO (XI (XI (XO (XI (XO (XI (XO (XO (XI (XO (XO (XO (XI (XO (XI (XI (XO
    (XI (XO (XI (XO (XO (XI (XI (XI (XI
    XH)))))))))))))))))))))))))))))))))))))))))))))))))))))))))))))))) :: ((Npos
    (XO (XO (XO (XI (XI (XO (XO (XI (XI (XO (XI (XI (XI (XI (XO (XO (XO (XI
    (XI (XO (XO (XI (XO (XO (XO (XI (XI (XI (XI (XO (XO (XO (XO (XI (XI (XI
    (XO (XI (XI (XI (XO (XO (XO (XO (XI (XO (XI (XO (XI (XI (XO (XI (XI (XI
    (XO (XI (XO (XO (XI (XO (XO
    XH)))))))))))))))))))))))))))))))))))))))))))))))))))))))))))))) :: ((Npos
    (XO (XI (XI (XO (XI (XI (XO (XI (XI (XO (XI (XO (XI (XO (XI (XO (XI (XI
    (XI (XI (XI (XI (XI (XO (XI (XI (XI (XI (XI (XO (XO (XO (XO (XI (XI (XI
    (XO (XI (XI (XI (XO (XO (XO (XO (XI (XO (XI (XI (XI (XO (XI (XO (XI (XI
    (XO (XI (XI (XI (XO (XO (XO (XI (XI
    XH)))))))))))))))))))))))))))))))))))))))))))))))))))))))))))))))) :: ((Npos
    (XI (XO (XO (XI (XI (XI (XI (XO (XI (XO (XO (XO (XO (XI (XI (XO (XI (XI
    (XI (XO (XO (XI (XI (XO (XI (XI (XI (XI (XO (XI (XI (XI (XO (XO (XI (XO
    (XI (XO (XO (XO (XI (XO (XO (XI (XO (XI (XO (XI (XI (XO (XO (XO (XO (XO
    (XO (XI (XI (XO (XO (XO (XI (XO (XO
    XH)))))))))))))))))))))))))))))))))))))))))))))))))))))))))))))))) :: ((Npos
    (XO (XO (XI (XO (XO (XI (XI (XO (XI (XI (XI (XO (XI (XO (XO (XI (XI (XI
    (XI (XI (XO (XI (XI (XO (XO (XI (XO (XO (XI (XI (XO (XO (XI (XI (XI (XI
    (XO (XI (XO (XO (XI (XO (XO (XI (XO (XO (XI (XI (XI (XI (XI (XI (XO (XI
    (XI (XI (XO (XO (XI (XI (XO (XO
    XH))))))))))))))))))))))))))))))))))))))))))))))))))))))))))))))) :: ((Npos
    (XI (XI (XO (XI (XI (XI (XO (XI (XO (XO (XI (XO (XI (XO (XI (XO (XI (XI
    (XI (XO (XO (XI (XI (XI (XO (XI (XO (XO (XI (XI (XO (XO (XO (XO (XO (XI
    (XO (XO (XI (XO (XO (XO (XO (XO (XO (XI (XI (XO (XO (XO (XO (XO (XO (XO
    (XI (XI (XI (XI (XI (XO (XI (XI (XO
    XH)))))))))))))))))))))))))))))))))))))))))))))))))))))))))))))))) :: ((Npos
    (XO (XO (XO (XO (XO (XO (XO (XI (XI (XO (XI (XI (XI (XI (XI (XO (XO (XI
    (XI (XI (XO (XO (XO (XO (XO (XO (XI (XO (XI (XI (XI (XO (XI (XO (XI (XI
    (XO (XI (XO (XI (XO (XO (XO (XO (XI (XO (XI (XI (XO (XO (XO (XI (XI (XI
    (XI (XO (XI (XI (XO (XI (XI (XO (XI
    XH)))))))))))))))))))))))))))))))))))))))))))))))))))))))))))))))) :: ((Npos
    (XO (XO (XO (XI (XI (XI (XO (XO (XO (XI (XO (XO (XI (XO (XO (XI (XO (XO
    (XO (XI (XO (XI (XI (XO (XO (XO (XI (XI (XO (XI (XO (XI (XO (XI (XI (XI
    (XO (XO (XO (XI (XI (XI (XO (XI (XI (XO (XI (XI (XI (XI (XI (XI (XI (XI
    (XI (XO (XI (XO (XI (XI
    XH))))))))))))))))))))))))))))))))))))))))))))))))))))))))))))) :: ((Npos
    (XO (XO (XI (XO (XO (XO (XO (XI (XI (XO (XO (XI (XI (XO (XO (XI (XO (XI
    (XI (XO (XO (XO (XO (XI (XI (XO (XO (XI (XI (XO (XO (XO (XI (XO (XO (XO
    (XO (XO (XI (XI (XO (XI (XI (XI (XO (XO (XO (XI (XO (XI (XO (XI (XI (XO
    (XO (XI (XI (XI (XO (XI (XI
    XH)))))))))))))))))))))))))))))))))))))))))))))))))))))))))))))) :: ((Npos
    (XI (XO (XI (XI (XO (XO (XO (XO (XO (XI (XO (XI (XO (XI (XO (XO (XO (XI
    (XI (XI (XI (XI (XI (XO (XI (XI (XI (XO (XI (XO (XO (XI (XI (XI (XO (XO
    (XO (XI (XO (XO (XO (XO (XI (XO (XI (XO (XO (XO (XI (XO (XI (XO (XI (XO
    (XO (XO (XO (XI (XO (XI (XI (XO (XI
    XH)))))))))))))))))))))))))))))))))))))))))))))))))))))))))))))))) :: ((Npos
    (XI (XO (XO (XO (XI (XI (XO (XO (XI (XO (XO (XO (XO (XO (XO (XO (XO (XO
    (XO (XI (XO (XI (XI (XO (XI (XO (XI (XO (XI (XO (XO (XI (XI (XO (XI (XI
    (XI (XO (XI (XO (XO (XO (XO (XI (XI (XI (XO (XO (XO (XI (XI (XO (XI (XO
    (XI (XO (XI (XI (XI (XI (XI (XI (XO
    XH)))))))))))))))))))))))))))))))))))))))))))))))))))))))))))))))) :: ((Npos
    (XO (XO (XO (XO (XO (XI (XI (XI (XO (XI (XO (XO (XO (XO (XI (XO (XO (XI
    (XO (XO (XO (XO (XI (XI (XO (XO (XO (XO (XI (XI (XO (XI (XO (XO (XO (XO
    (XI (XI (XO (XI (XI (XI (XI (XI (XI (XI (XI (XO (XI (XO (XO (XI (XI (XO
    (XI (XI (XO (XI (XO (XO (XO (XO (XO
    XH)))))))))))))))))))))))))))))))))))))))))))))))))))))))))))))))) :: ((Npos
    (XO (XI (XI (XI (XO (XO (XI (XI (XO (XI (XO (XI (XO (XO (XO (XO (XI (XI
    (XI (XI (XO (XI (XI (XI (XO (XI (XI (XO (XI (XO (XI (XO (XI (XI (XO (XI
    (XO (XI (XI (XO (XO (XO (XO (XI (XO (XI (XO (XI (XO (XI (XO (XO (XO (XO
    (XI (XI (XO (XI (XO (XI (XI (XO
    XH))))))))))))))))))))))))))))))))))))))))))))))))))))))))))))))) :: ((Npos
    (XI (XI (XI (XI (XO (XI (XO (XO (XO (XO (XI (XO (XI (XO (XO (XI (XO (XI
    (XO (XI (XI (XI (XO (XO (XO (XO (XO (XO (XO (XO (XO (XO (XO (XI (XI (XO
    (XI (XI (XI (XI (XO (XI (XI (XO (XI (XI (XI (XO (XO (XO (XI (XI (XO (XI
    (XI (XI (XO (XO (XI (XI (XI (XI
    XH))))))))))))))))))))))))))))))))))))))))))))))))))))))))))))))) :: ((Npos
    (XO (XI (XI (XI (XO (XO (XO (XO (XO (XI (XO (XI (XI (XI (XO (XI (XO (XO
    (XI (XO (XO (XI (XO (XI (XO (XO (XO (XI (XI (XI (XO (XO (XO (XO (XI (XO
    (XO (XI (XO (XI (XI (XI (XO (XO (XO (XI (XO (XI (XI (XO (XI (XO (XI (XI
    (XO (XO (XO (XO (XI (XI (XI
    XH)))))))))))))))))))))))))))))))))))))))))))))))))))))))))))))) :: ((Npos
    (XO (XO (XI (XO (XI (XI (XI (XI (XO (XI (XO (XI (XO (XI (XI (XO (XO (XO
    (XO (XI (XO (XI (XI (XO (XO (XO (XO (XO (XO (XI (XI (XI (XO (XO (XI (XI
    (XO (XO (XO (XO (XO (XI (XO (XI (XO (XO (XI (XO (XI (XI (XO (XI (XO (XI
    (XI (XO (XO (XI (XI (XO (XI (XI (XO
    XH)))))))))))))))))))))))))))))))))))))))))))))))))))))))))))))))) :: ((Npos
    (XO (XO (XI (XO (XO (XI (XO (XO (XI (XI (XI (XO (XO (XO (XI (XO (XI (XI
    (XI (XO (XI (XO (XO (XO (XI (XO (XI (XO (XO (XO (XI (XI (XO (XO (XO (XI
    (XI (XI (XO (XI (XO (XO (XO (XI (XI (XI (XO (XI (XI (XI (XI (XO (XI (XO
    (XO (XO (XI (XO (XI (XO (XO (XO (XO
    XH)))))))))))))))))))))))))))))))))))))))))))))))))))))))))))))))) :: ((Npos
    (XO (XO (XI (XI (XO (XI (XI (XI (XO (XI (XO (XO (XI (XI (XO (XI (XI (XO
    (XO (XO (XI (XI (XO (XO (XI (XI (XO (XO (XI (XI (XO (XO (XI (XO (XI (XI
    (XI (XO (XO (XI (XI (XI (XO (XI (XI (XI (XI (XI (XI (XO (XI (XI (XO (XO
    (XI (XI (XO (XI (XI (XI (XO (XO (XI
    XH)))))))))))))))))))))))))))))))))))))))))))))))))))))))))))))))) :: ((Npos
    (XO (XI (XI (XO (XO (XO (XI (XO (XI (XO (XO (XI (XO (XI (XI (XO (XO (XI
    (XI (XI (XO (XI (XO (XO (XI (XI (XI (XO (XI (XI (XO (XI (XI (XO (XO (XO
    (XI (XI (XI (XI (XO (XO (XO (XI (XI (XO (XI (XI (XO (XI (XO (XO (XO (XI
    (XO (XO (XO (XI (XI (XO (XI (XI (XI
    XH)))))))))))))))))))))))))))))))))))))))))))))))))))))))))))))))) :: ((Npos
    (XI (XI (XO (XI (XI (XI (XO (XI (XO (XI (XO (XI (XI (XO (XI (XI (XI (XO
    (XO (XI (XO (XO (XO (XO (XI (XI (XI (XI (XI (XO (XO (XO (XI (XO (XO (XO
    (XI (XI (XO (XI (XO (XO (XI (XO (XI (XO (XI (XO (XO (XI (XI (XO (XI (XI
    (XI (XO (XI (XO (XI (XO (XI
    XH)))))))))))))))))))))))))))))))))))))))))))))))))))))))))))))) :: ((Npos
    (XO (XI (XO (XI (XI (XO (XI (XO (XI (XO (XI (XI (XI (XO (XI (XO (XO (XI
    (XO (XI (XO (XI (XI (XI (XO (XO (XO (XO (XO (XI (XO (XO (XO (XI (XI (XI
    (XI (XO (XO (XI (XI (XI (XO (XI (XO (XI (XO (XI (XI (XO (XO (XI (XO (XO
    (XI (XI (XI (XI
    XH))))))))))))))))))))))))))))))))))))))))))))))))))))))))))) :: ((Npos
    (XO (XI (XO (XI (XI (XO (XO (XI (XO (XI (XI (XI (XO (XO (XI (XO (XI (XO
    (XI (XI (XO (XI (XI (XI (XI (XO (XI (XI (XO (XI (XI (XI (XI (XI (XI (XI
    (XI (XO (XO (XI (XO (XO (XO (XO (XO (XI (XI (XO (XI (XO (XO (XO (XO (XI
    (XO (XO (XI (XI (XO (XO (XI
    XH)))))))))))))))))))))))))))))))))))))))))))))))))))))))))))))) :: ((Npos
    (XI (XI (XI (XO (XI (XO (XI (XI (XO (XI (XI (XO (XO (XI (XO (XI (XI (XI
    (XI (XO (XO (XI (XI (XI (XI (XO (XI (XI (XI (XO (XO (XO (XI (XO (XO (XO
    (XO (XI (XO (XI (XI (XO (XI (XI (XI (XI (XI (XO (XI (XO (XI (XO (XO (XI
    (XI (XI (XO (XO (XO (XI (XI
    XH)))))))))))))))))))))))))))))))))))))))))))))))))))))))))))))) :: ((Npos
    (XO (XI (XI (XI (XI (XO (XO (XO (XO (XI (XO (XO (XO (XO (XO (XI (XO (XO
    (XI (XI (XO (XO (XO (XO (XI (XO (XO (XI (XO (XI (XI (XI (XI (XO (XI (XO
    (XI (XO (XI (XI (XI (XO (XO (XI (XI (XO (XO (XO (XI (XI (XO (XI (XO (XO
    (XO (XO (XI (XO (XI (XO (XO (XO (XI
    XH)))))))))))))))))))))))))))))))))))))))))))))))))))))))))))))))) :: ((Npos
    (XI (XO (XI (XO (XO (XO (XI (XO (XO (XI (XI (XI (XO (XO (XI (XO (XO (XO
    (XO (XI (XO (XI (XI (XO (XI (XO (XI (XO (XO (XI (XO (XO (XI (XO (XI (XI
    (XO (XI (XI (XI (XI (XI (XI (XO (XI (XI (XO (XO (XI (XO (XI (XI (XI (XI
    (XO (XO (XO (XO (XI (XI (XO (XO (XO
    XH)))))))))))))))))))))))))))))))))))))))))))))))))))))))))))))))) :: ((Npos
    (XO (XI (XI (XI (XI (XI (XO (XI (XI (XO (XO (XO (XO (XO (XI (XI (XO (XO
    (XI (XO (XI (XO (XO (XO (XI (XO (XO (XI (XI (XI (XO (XI (XO (XI (XI (XO
    (XI (XO (XI (XO (XI (XO (XI (XO (XO (XO (XO (XI (XO (XO (XI (XO (XO (XO
    (XO (XI (XO (XI (XO (XO (XO
    XH)))))))))))))))))))))))))))))))))))))))))))))))))))))))))))))) :: ((Npos
    (XI (XO (XI (XO (XI (XO (XI (XO (XI (XO (XI (XI (XI (XO (XO (XO (XO (XI
    (XI (XI (XI (XO (XO (XO (XI (XI (XI (XI (XI (XO (XI (XO (XI (XI (XI (XO
    (XI (XO (XI (XO (XO (XI (XO (XO (XO (XO (XO (XO (XI (XO (XI (XO (XI (XO
    (XI (XO (XI (XI (XO (XO
    XH))))))))))))))))))))))))))))))))))))))))))))))))))))))))))))) :: ((Npos
    (XO (XO (XO (XO (XO (XO (XI (XO (XO (XI (XI (XI (XO (XI (XI (XO (XI (XI
    (XI (XI (XO (XI (XO (XI (XO (XI (XI (XI (XI (XI (XO (XI (XI (XO (XI (XO
    (XI (XO (XO (XI (XI (XO (XO (XI (XI (XO (XO (XO (XI (XO (XO (XI (XO (XO
    (XI (XO (XI (XO (XI (XI (XO (XO (XO
    XH)))))))))))))))))))))))))))))))))))))))))))))))))))))))))))))))) :: ((Npos
    (XO (XO (XI (XO (XI (XI (XI (XO (XI (XO (XO (XO (XO (XO (XI (XI (XO (XO
    (XI (XO (XI (XO (XI (XI (XI (XI (XO (XI (XO (XO (XI (XI (XO (XI (XI (XI
    (XI (XI (XO (XI (XO (XI (XO (XI (XO (XO (XI (XI (XO (XI (XO (XI (XI (XO
    (XO (XO (XO (XO (XO (XI (XI (XI (XI
    XH)))))))))))))))))))))))))))))))))))))))))))))))))))))))))))))))) :: ((Npos
    (XI (XO (XO (XI (XO (XO (XO (XO (XI (XI (XI (XI (XI (XI (XI (XI (XO (XO
    (XI (XO (XO (XO (XI (XI (XO (XI (XI (XO (XI (XI (XI (XI (XO (XI (XI (XO
    (XI (XO (XO (XI (XI (XO (XI (XI (XO (XO (XI (XI (XO (XI (XO (XO (XI (XO
    (XI (XO (XO (XO (XO (XI (XO (XI (XI
    XH)))))))))))))))))))))))))))))))))))))))))))))))))))))))))))))))) :: ((Npos
    (XI (XO (XI (XO (XI (XO (XI (XI (XO (XO (XO (XI (XO (XO (XO (XI (XO (XO
    (XI (XI (XI (XO (XO (XO (XI (XI (XO (XI (XO (XI (XO (XI (XI (XO (XO (XI
    (XI (XI (XI (XI (XO (XI (XO (XI (XO (XO (XO (XI (XI (XI (XI (XI (XO (XO
    (XO (XO (XO (XI (XI (XI (XO (XO (XI
    XH)))))))))))))))))))))))))))))))))))))))))))))))))))))))))))))))) :: ((Npos
    (XI (XO (XI (XI (XO (XO (XI (XO (XO (XO (XI (XI (XO (XO (XI (XI (XO (XO
    (XO (XO (XI (XI (XI (XI (XO (XO (XO (XO (XI (XI (XO (XO (XO (XO (XI (XI
    (XO (XI (XI (XI (XI (XO (XI (XO (XO (XI (XO (XO (XO (XI (XO (XO (XI (XO
    (XI (XI (XO (XO (XO (XI (XI (XI
    XH))))))))))))))))))))))))))))))))))))))))))))))))))))))))))))))) :: ((Npos
    (XI (XO (XI (XI (XO (XI (XI (XI (XO (XO (XO (XI (XI (XI (XO (XI (XI (XO
    (XI (XO (XI (XI (XO (XI (XO (XI (XO (XO (XI (XI (XO (XI (XO (XI (XI (XO
    (XO (XO (XI (XI (XI (XI (XI (XO (XO (XO (XI (XO (XO (XI (XO (XI (XO (XO
    (XO (XO (XO (XI (XI (XI (XI (XI (XO
    XH)))))))))))))))))))))))))))))))))))))))))))))))))))))))))))))))) :: ((Npos
    (XO (XO (XI (XI (XO (XO (XO (XO (XI (XO (XO (XO (XI (XO (XI (XI (XI (XI
    (XO (XI (XI (XI (XO (XI (XO (XI (XO (XO (XI (XI (XI (XI (XI (XO (XI (XI
    (XO (XI (XI (XI (XI (XI (XO (XO (XI (XO (XI (XO (XO (XI (XI (XO (XO (XI
    (XO (XO (XO (XI (XI (XO (XI (XO (XO
    XH)))))))))))))))))))))))))))))))))))))))))))))))))))))))))))))))) :: ((Npos
    (XI (XI (XO (XI (XO (XI (XI (XO (XO (XI (XO (XI (XI (XO (XI (XI (XO (XO
    (XI (XI (XO (XI (XI (XO (XO (XO (XO (XI (XI (XI (XO (XI (XO (XI (XO (XI
    (XI (XI (XO (XI (XI (XO (XO (XI (XO (XI (XO (XO (XO (XI (XO (XO (XO (XO
    (XI (XO (XI (XI (XI (XO (XO (XO
    XH))))))))))))))))))))))))))))))))))))))))))))))))))))))))))))))) :: ((Npos
    (XO (XO (XI (XI (XO (XO (XO (XO (XI (XI (XI (XI (XI (XI (XO (XO (XI (XO
    (XO (XI (XI (XI (XI (XI (XI (XI (XO (XI (XI (XO (XI (XO (XI (XO (XO (XO
    (XO (XO (XO (XI (XO (XO (XI (XI (XI (XO (XO (XI (XO (XI (XI (XO (XO (XO
    (XI (XI (XI (XO (XI (XI (XO (XO (XO
    XH)))))))))))))))))))))))))))))))))))))))))))))))))))))))))))))))) :: ((Npos
    (XI (XO (XI (XI (XI (XI (XI (XI (XI (XO (XI (XO (XO (XI (XI (XO (XI (XO
    (XO (XI (XO (XO (XI (XI (XI (XO (XI (XO (XI (XI (XO (XI (XO (XO (XI (XI
    (XI (XO (XO (XO (XO (XO (XI (XO (XO (XO (XI (XO (XO (XI (XI (XO (XO (XO
    (XI (XO (XO (XO (XO (XI (XO (XO (XI
    XH)))))))))))))))))))))))))))))))))))))))))))))))))))))))))))))))) :: ((Npos
    (XI (XO (XO (XO (XI (XI (XO (XO (XI (XO (XO (XI (XI (XI (XO (XI (XO (XO
    (XI (XI (XO (XO (XI (XO (XI (XO (XI (XO (XI (XO (XO (XI (XI (XI (XO (XI
    (XI (XI (XI (XO (XO (XI (XI (XO (XO (XI (XI (XI (XO (XO (XI (XO (XO (XO
    (XO (XI (XI (XI (XO (XO (XO (XI (XO
    XH)))))))))))))))))))))))))))))))))))))))))))))))))))))))))))))))) :: ((Npos
    (XI (XO (XI (XO (XI (XO (XI (XI (XI (XI (XI (XO (XO (XI (XI (XO (XO (XO
    (XO (XO (XI (XO (XO (XO (XI (XO (XI (XI (XO (XI (XO (XO (XI (XO (XO (XI
    (XI (XO (XI (XO (XO (XO (XI (XO (XI (XO (XI (XI (XI (XO (XI (XO (XI (XO
    (XI (XI (XI (XI (XI (XO (XI
    XH)))))))))))))))))))))))))))))))))))))))))))))))))))))))))))))) :: ((Npos
    (XO (XO (XI (XI (XO (XI (XO (XI (XO (XO (XI (XI (XO (XO (XO (XO (XO (XO
    (XO (XO (XO (XO (XI (XO (XI (XI (XO (XI (XI (XO (XI (XO (XI (XO (XO (XO
    (XI (XO (XO (XO (XO (XO (XO (XO (XO (XO (XI (XO (XO (XI (XI (XO (XI (XI
    (XO (XO (XO (XI (XI (XI (XI (XO (XO
    XH)))))))))))))))))))))))))))))))))))))))))))))))))))))))))))))))) :: ((Npos
    (XO (XO (XI (XI (XI (XO (XO (XI (XI (XI (XI (XI (XO (XI (XO (XI (XI (XO
    (XO (XI (XI (XO (XO (XI (XO (XI (XI (XI (XO (XI (XI (XI (XO (XO (XO (XO
    (XI (XO (XO (XO (XI (XI (XO (XO (XI (XO (XO (XI (XO (XO (XI (XO (XO (XI
    (XI (XI (XO (XO (XO (XI (XO (XO (XI
    XH)))))))))))))))))))))))))))))))))))))))))))))))))))))))))))))))) :: ((Npos
    (XO (XO (XI (XI (XO (XI (XO (XI (XO (XI (XO (XI (XI (XI (XI (XO (XI (XO
    (XO (XI (XO (XO (XO (XO (XO (XO (XO (XI (XI (XO (XO (XO (XI (XI (XO (XO
    (XI (XO (XI (XO (XO (XI (XO (XO (XO (XI (XI (XO (XI (XO (XI (XO (XI (XI
    (XO (XI (XO (XI (XI (XO (XO (XI (XI
    XH)))))))))))))))))))))))))))))))))))))))))))))))))))))))))))))))) :: ((Npos
    (XI (XO (XO (XI (XI (XI (XO (XO (XO (XI (XI (XO (XO (XO (XO (XI (XI (XI
    (XO (XI (XI (XO (XO (XO (XI (XI (XI (XI (XI (XO (XI (XO (XO (XO (XO (XI
    (XO (XI (XO (XI (XI (XI (XI (XO (XO (XO (XI (XI (XO (XO (XI (XO (XI (XI
    (XI (XI (XO (XO (XI (XO (XI
    XH)))))))))))))))))))))))))))))))))))))))))))))))))))))))))))))) :: ((Npos
    (XO (XO (XI (XO (XO (XI (XI (XO (XI (XI (XO (XO (XO (XO (XI (XO (XO (XI
    (XO (XI (XI (XO (XO (XO (XO (XI (XI (XI (XO (XO (XI (XO (XI (XO (XO (XO
    (XI (XO (XI (XI (XI (XO (XI (XI (XO (XI (XO (XI (XO (XI (XI (XO (XO (XI
    (XO (XI (XO (XO (XI (XI (XI (XI
    XH))))))))))))))))))))))))))))))))))))))))))))))))))))))))))))))) :: ((Npos
    (XO (XO (XO (XI (XI (XI (XI (XI (XO (XO (XI (XI (XI (XI (XO (XO (XO (XO
    (XO (XO (XI (XI (XO (XI (XO (XI (XI (XO (XO (XO (XO (XO (XO (XO (XO (XI
    (XI (XO (XO (XI (XO (XI (XI (XI (XI (XI (XI (XO (XO (XI (XI (XI (XO (XI
    (XI (XO (XO (XO (XO (XI
    XH))))))))))))))))))))))))))))))))))))))))))))))))))))))))))))) :: ((Npos
    (XI (XO (XO (XO (XO (XO (XI (XI (XI (XO (XO (XO (XI (XO (XO (XO (XO (XO
    (XI (XI (XI (XI (XO (XI (XO (XO (XO (XI (XI (XI (XO (XI (XI (XO (XI (XO
    (XI (XO (XI (XO (XI (XI (XO (XI (XI (XO (XI (XI (XO (XO (XO (XO (XO (XO
    (XI (XI (XI (XO (XI (XO
    XH))))))))))))))))))))))))))))))))))))))))))))))))))))))))))))) :: ((Npos
    (XI (XO (XO (XI (XO (XI (XO (XI (XI (XI (XO (XO (XO (XI (XO (XO (XO (XI
    (XO (XI (XO (XI (XO (XO (XI (XI (XO (XO (XI (XO (XO (XI (XO (XO (XO (XI
    (XO (XI (XO (XO (XO (XO (XI (XI (XO (XO (XI (XO (XO (XI (XO (XO (XI (XO
    (XI (XO (XI (XO (XO (XO (XI
    XH)))))))))))))))))))))))))))))))))))))))))))))))))))))))))))))) :: ((Npos
    (XO (XO (XO (XI (XI (XO (XO (XO (XO (XO (XI (XO (XO (XO (XO (XI (XO (XI
    (XO (XO (XO (XO (XI (XO (XO (XO (XO (XO (XI (XO (XI (XO (XI (XI (XO (XO
    (XI (XI (XI (XO (XI (XO (XO (XO (XI (XI (XI (XO (XI (XI (XI (XO (XO (XO
    (XI (XO (XI (XO (XO (XO (XI (XI (XO
    XH)))))))))))))))))))))))))))))))))))))))))))))))))))))))))))))))) :: ((Npos
    (XO (XI (XI (XO (XO (XO (XI (XO (XO (XO (XO (XI (XO (XI (XI (XI (XO (XI
    (XI (XO (XO (XI (XO (XI (XI (XO (XI (XO (XI (XO (XI (XI (XI (XI (XO (XO
    (XI (XI (XO (XI (XO (XO (XI (XO (XI (XO (XI (XI (XI (XO (XO (XO (XO (XO
    (XI (XO (XI (XO (XO (XI (XO
    XH)))))))))))))))))))))))))))))))))))))))))))))))))))))))))))))) :: ((Npos
    (XO (XI (XO (XO (XO (XI (XI (XI (XI (XI (XO (XI (XI (XO (XI (XO (XI (XO
    (XO (XI (XO (XI (XI (XO (XO (XI (XI (XO (XI (XI (XO (XO (XI (XO (XO (XI
    (XO (XO (XO (XI (XI (XO (XO (XO (XI (XO (XI (XO (XO (XO (XO (XO (XI (XI
    (XO (XO (XI (XI
    XH))))))))))))))))))))))))))))))))))))))))))))))))))))))))))) :: ((Npos
    (XO (XO (XI (XI (XI (XI (XO (XI (XO (XI (XO (XO (XO (XO (XO (XI (XO (XO
    (XO (XI (XO (XO (XI (XO (XO (XO (XO (XI (XI (XO (XO (XI (XI (XO (XO (XI
    (XO (XO (XI (XO (XO (XI (XI (XO (XO (XI (XI (XO (XI (XO (XI (XI (XO (XO
    (XO (XI (XI (XI (XO (XO (XI (XO
    XH))))))))))))))))))))))))))))))))))))))))))))))))))))))))))))))) :: ((Npos
    (XO (XO (XO (XI (XO (XO (XO (XI (XI (XO (XI (XI (XI (XI (XO (XI (XO (XI
    (XI (XI (XI (XO (XO (XO (XI (XO (XI (XI (XI (XI (XI (XO (XO (XO (XO (XO
    (XO (XI (XI (XO (XO (XO (XI (XO (XO (XO (XO (XI (XO (XI (XO (XI (XO (XO
    (XO (XI (XO (XI (XI (XO (XO (XO
    XH))))))))))))))))))))))))))))))))))))))))))))))))))))))))))))))) :: ((Npos
    (XO (XI (XO (XI (XO (XO (XI (XI (XI (XO (XO (XO (XI (XI (XO (XO (XI (XO
    (XI (XI (XI (XI (XI (XO (XO (XI (XI (XI (XO (XI (XI (XO (XI (XO (XO (XO
    (XO (XI (XO (XO (XI (XI (XO (XO (XO (XO (XO (XI (XO (XI (XI (XI (XO (XI
    (XI (XO (XO (XO (XO (XO (XO (XI
    XH))))))))))))))))))))))))))))))))))))))))))))))))))))))))))))))) :: ((Npos
    (XO (XO (XI (XI (XI (XO (XO (XI (XO (XO (XO (XO (XO (XI (XO (XO (XI (XO
    (XO (XI (XI (XO (XO (XO (XO (XO (XO (XI (XI (XO (XI (XI (XO (XO (XI (XI
    (XI (XI (XO (XO (XI (XI (XO (XI (XI (XI (XO (XO (XO (XO (XO (XI (XI (XI
    (XO (XI (XI
    XH)))))))))))))))))))))))))))))))))))))))))))))))))))))))))) :: [])))))))))))))))))))))))))))))))))))))))))))))))))))))))))))))))) :: (((Npos
    (XI (XI (XI (XO (XI (XI (XI (XI (XO (XO (XI (XI (XI (XI (XO (XI (XI (XO
    (XO (XO (XO (XO (XO (XI (XI (XO (XO (XI (XO (XO (XO (XI (XO (XO (XO (XO
    (XO (XO (XO (XI (XI (XO (XI (XI (XI (XO (XI (XI (XI (XO (XI (XO (XO (XO
    (XI (XI (XO (XO (XO (XI (XI
    XH)))))))))))))))))))))))))))))))))))))))))))))))))))))))))))))) :: ((Npos
    (XI (XI (XI (XO (XI (XI (XI (XI (XO (XO (XO (XI (XO (XI (XI (XO (XI (XO
    (XO (XI (XI (XO (XO (XO (XI (XI (XO (XO (XI (XO (XI (XO (XO (XO (XI (XO
    (XO (XO (XI (XO (XO (XO (XO (XO (XI (XI (XI (XI (XO (XO (XI (XI (XO (XI
    (XO (XO (XO (XI (XI
    XH)))))))))))))))))))))))))))))))))))))))))))))))))))))))))))) :: ((Npos
    (XO (XO (XO (XO (XI (XI (XI (XI (XO (XI (XO (XI (XO (XI (XO (XO (XO (XI
    (XO (XI (XO (XI (XI (XO (XO (XO (XI (XI (XI (XI (XI (XO (XI (XO (XI (XI
    (XO (XO (XI (XI (XO (XO (XO (XO (XI (XI (XI (XO (XI (XO (XI (XI (XI (XO
    (XI (XI (XI (XO
    XH))))))))))))))))))))))))))))))))))))))))))))))))))))))))))) :: ((Npos
    (XO (XO (XO (XO (XI (XO (XI (XO (XO (XO (XI (XI (XO (XI (XO (XO (XO (XI
    (XI (XI (XO (XO (XI (XI (XI (XI (XI (XI (XO (XO (XI (XI (XI (XO (XO (XI
    (XO (XI (XI (XO (XI (XI (XI (XI (XO (XO (XO (XI (XO (XO (XO (XI (XO (XO
    (XI (XO (XI (XO (XO (XO (XO (XO
    XH))))))))))))))))))))))))))))))))))))))))))))))))))))))))))))))) :: ((Npos
    (XO (XI (XO (XO (XI (XO (XI (XO (XI (XI (XI (XO (XO (XO (XI (XI (XO (XI
    (XO (XI (XO (XI (XO (XO (XI (XI (XO (XO (XO (XI (XI (XO (XI (XO (XI (XI
    (XI (XI (XI (XO (XI (XO (XI (XI (XI (XI (XO (XO (XO (XI (XO (XI (XI (XO
    (XO (XI (XI (XI (XO (XI (XI (XO (XI
    XH)))))))))))))))))))))))))))))))))))))))))))))))))))))))))))))))) :: ((Npos
    (XO (XI (XI (XO (XI (XI (XO (XI (XO (XI (XI (XO (XO (XO (XO (XI (XI (XI
    (XI (XO (XO (XI (XO (XO (XI (XO (XI (XO (XI (XI (XI (XO (XO (XO (XI (XI
    (XI (XO (XO (XO (XO (XI (XO (XI (XI (XI (XO (XI (XO (XI (XO (XO (XI (XI
    (XO (XI (XI (XO (XO (XO (XI (XI (XO
    XH)))))))))))))))))))))))))))))))))))))))))))))))))))))))))))))))) :: ((Npos
    (XI (XI (XI (XO (XO (XO (XI (XO (XI (XI (XO (XI (XI (XO (XI (XO (XO (XI
    (XO (XI (XO (XI (XI (XI (XI (XO (XO (XO (XI (XO (XO (XO (XO (XI (XO (XO
    (XI (XO (XO (XO (XI (XO (XI (XO (XO (XI (XI (XO (XI (XO (XO (XI (XO (XO
    (XI (XO (XO (XO (XI (XO (XI (XI (XO
    XH)))))))))))))))))))))))))))))))))))))))))))))))))))))))))))))))) :: ((Npos
    (XO (XI (XI (XO (XI (XO (XI (XO (XI (XI (XI (XI (XI (XI (XI (XO (XI (XI
    (XI (XI (XI (XI (XI (XO (XI (XO (XI (XO (XO (XI (XI (XO (XO (XO (XO (XI
    (XI (XI (XI (XI (XI (XO (XI (XI (XI (XO (XI (XO (XO (XO (XI (XO (XO (XO
    (XO (XI (XI (XO (XI (XO (XI (XO (XI
    XH)))))))))))))))))))))))))))))))))))))))))))))))))))))))))))))))) :: ((Npos
    (XO (XO (XO (XI (XO (XI (XI (XI (XI (XI (XO (XI (XO (XO (XO (XO (XI (XO
    (XO (XO (XI (XI (XO (XI (XO (XO (XO (XI (XI (XI (XI (XO (XI (XO (XO (XI
    (XI (XI (XI (XO (XO (XI (XI (XO (XO (XI (XI (XO (XO (XI (XI (XO (XI (XI
    (XI (XI (XO (XI (XO (XO (XI (XO
    XH))))))))))))))))))))))))))))))))))))))))))))))))))))))))))))))) :: ((Npos
    (XI (XO (XO (XI (XI (XO (XI (XO (XO (XI (XI (XI (XO (XI (XI (XO (XO (XO
    (XI (XO (XI (XI (XI (XO (XI (XI (XI (XO (XI (XI (XO (XO (XO (XI (XO (XI
    (XO (XO (XO (XI (XI (XO (XI (XI (XO (XI (XI (XI (XI (XO (XI (XI (XO (XO
    (XI (XI (XI (XI (XI (XI (XI (XO
    XH))))))))))))))))))))))))))))))))))))))))))))))))))))))))))))))) :: ((Npos
    (XI (XI (XI (XO (XI (XI (XI (XI (XO (XO (XO (XI (XI (XO (XO (XI (XO (XI
    (XO (XI (XO (XO (XO (XO (XO (XO (XO (XO (XI (XI (XI (XO (XI (XO (XI (XI
    (XI (XI (XO (XI (XO (XI (XI (XI (XO (XI (XI (XO (XO (XI (XO (XI (XO (XI
    (XO (XI (XI (XI (XO (XO (XI (XI (XO
    XH)))))))))))))))))))))))))))))))))))))))))))))))))))))))))))))))) :: ((Npos
    (XO (XO (XO (XO (XO (XO (XI (XI (XI (XI (XI (XO (XO (XO (XO (XO (XI (XO
    (XO (XO (XO (XI (XI (XO (XO (XO (XI (XO (XO (XO (XI (XI (XO (XO (XI (XO
    (XI (XI (XI (XO (XO (XI (XO (XO (XI (XI (XI (XI (XO (XO (XI (XO (XO (XI
    (XO (XI (XO (XI (XI (XO (XO (XI
    XH))))))))))))))))))))))))))))))))))))))))))))))))))))))))))))))) :: ((Npos
    (XI (XO (XO (XI (XI (XO (XI (XO (XI (XI (XO (XO (XI (XI (XI (XO (XO (XO
    (XO (XO (XO (XI (XI (XI (XO (XO (XO (XO (XI (XI (XI (XO (XO (XO (XO (XI
    (XO (XI (XO (XO (XI (XI (XI (XI (XO (XO (XI (XO (XI (XO (XO (XO (XI (XI
    (XI (XI (XI (XI (XO (XI (XI (XI
    XH))))))))))))))))))))))))))))))))))))))))))))))))))))))))))))))) :: ((Npos
    (XI (XO (XO (XI (XI (XO (XO (XO (XO (XI (XI (XI (XO (XI (XO (XO (XI (XO
    (XI (XI (XI (XO (XI (XO (XO (XI (XI (XI (XI (XO (XO (XI (XI (XI (XO (XI
    (XO (XO (XO (XO (XO (XO (XI (XO (XO (XO (XO (XI (XI (XO (XI (XO (XO (XI
    (XI (XI (XO (XO (XO (XO (XO (XO (XO
    XH)))))))))))))))))))))))))))))))))))))))))))))))))))))))))))))))) :: ((Npos
    (XI (XI (XI (XO (XO (XO (XI (XO (XI (XO (XO (XO (XO (XO (XI (XO (XO (XI
    (XO (XO (XO (XO (XI (XO (XI (XO (XI (XI (XI (XO (XO (XI (XO (XI (XI (XI
    (XO (XO (XO (XO (XI (XI (XO (XI (XI (XI (XO (XO (XI (XI (XI (XO (XI (XO
    (XO (XO (XO (XO (XO (XI (XO (XO
    XH))))))))))))))))))))))))))))))))))))))))))))))))))))))))))))))) :: ((Npos
    (XO (XI (XO (XO (XI (XI (XI (XI (XI (XI (XO (XO (XI (XO (XI (XO (XI (XI
    (XI (XO (XO (XO (XO (XI (XI (XO (XI (XO (XI (XO (XO (XI (XI (XO (XI (XI
    (XI (XO (XI (XO (XI (XO (XO (XO (XI (XI (XI (XI (XI (XO (XI (XI (XI (XO
    (XO (XI (XO (XO (XI (XO (XO (XI (XI
    XH)))))))))))))))))))))))))))))))))))))))))))))))))))))))))))))))) :: ((Npos
    (XI (XI (XO (XO (XO (XI (XO (XI (XI (XI (XO (XI (XO (XI (XO (XO (XO (XI
    (XI (XI (XI (XI (XI (XI (XO (XI (XO (XI (XI (XO (XI (XO (XO (XI (XO (XI
    (XO (XI (XO (XO (XI (XI (XI (XO (XO (XO (XO (XI (XI (XO (XI (XO (XO (XO
    (XO (XI (XI (XI (XO (XI (XO (XO (XI
    XH)))))))))))))))))))))))))))))))))))))))))))))))))))))))))))))))) :: ((Npos
    (XO (XI (XO (XO (XO (XO (XI (XO (XI (XI (XI (XI (XO (XO (XI (XO (XO (XO
    (XI (XO (XI (XI (XI (XO (XO (XI (XI (XO (XI (XI (XI (XI (XO (XO (XO (XI
    (XO (XI (XI (XI (XI (XI (XO (XI (XI (XO (XI (XI (XO (XO (XI (XO (XO (XI
    (XI (XI (XO (XO (XO (XI (XO (XI (XI
    XH)))))))))))))))))))))))))))))))))))))))))))))))))))))))))))))))) :: ((Npos
    (XI (XI (XI (XO (XO (XO (XI (XI (XI (XI (XO (XI (XO (XO (XO (XI (XO (XI
    (XI (XO (XI (XO (XO (XI (XI (XI (XO (XI (XO (XI (XI (XO (XI (XI (XO (XI
    (XI (XO (XI (XI (XI (XI (XI (XO (XO (XO (XO (XI (XO (XI (XO (XO (XO (XO
    (XI (XO (XO (XO (XI (XI (XI (XO (XO
    XH)))))))))))))))))))))))))))))))))))))))))))))))))))))))))))))))) :: ((Npos
    (XO (XI (XI (XI (XI (XI (XO (XO (XO (XO (XO (XI (XO (XI (XI (XO (XI (XO
    (XO (XO (XO (XI (XO (XI (XI (XI (XO (XO (XI (XI (XI (XI (XO (XI (XI (XO
    (XI (XI (XI (XO (XO (XI (XO (XI (XI (XI (XI (XI (XO (XO (XI (XO (XI (XI
    (XO (XI (XI (XO (XI (XI (XO (XI
    XH))))))))))))))))))))))))))))))))))))))))))))))))))))))))))))))) :: ((Npos
    (XO (XI (XI (XI (XI (XO (XO (XI (XI (XO (XO (XO (XI (XI (XO (XI (XO (XI
    (XI (XI (XI (XI (XI (XO (XO (XO (XO (XO (XI (XO (XO (XO (XO (XI (XI (XI
    (XO (XI (XO (XI (XO (XI (XO (XI (XI (XO (XI (XO (XI (XI (XI (XI (XI (XI
    (XO (XI (XI (XI (XO (XO
    XH))))))))))))))))))))))))))))))))))))))))))))))))))))))))))))) :: ((Npos
    (XI (XO (XI (XO (XI (XI (XI (XI (XI (XO (XI (XO (XI (XO (XO (XO (XI (XI
    (XO (XO (XO (XO (XI (XI (XI (XI (XO (XO (XO (XO (XO (XO (XO (XI (XI (XO
    (XO (XI (XO (XI (XI (XO (XO (XO (XO (XI (XO (XI (XO (XO (XO (XO (XO (XO
    (XO (XO (XO (XO (XI (XI (XO (XI
    XH))))))))))))))))))))))))))))))))))))))))))))))))))))))))))))))) :: ((Npos
    (XO (XO (XO (XO (XI (XO (XO (XO (XI (XO (XI (XI (XO (XI (XO (XO (XO (XI
    (XI (XO (XO (XI (XO (XO (XI (XI (XO (XI (XO (XO (XO (XI (XO (XI (XI (XI
    (XI (XO (XO (XO (XO (XO (XI (XO (XO (XI (XI (XO (XO (XI (XI (XI (XO (XO
    (XI (XI (XO (XI (XO (XO (XO (XO
    XH))))))))))))))))))))))))))))))))))))))))))))))))))))))))))))))) :: ((Npos
    (XI (XO (XI (XI (XO (XO (XO (XO (XI (XO (XI (XI (XO (XI (XI (XO (XO (XO
    (XI (XO (XO (XO (XO (XO (XI (XI (XI (XI (XI (XI (XO (XO (XO (XO (XO (XI
    (XI (XO (XI (XO (XO (XI (XO (XO (XI (XO (XO (XO (XI (XI (XO (XI (XO (XO
    (XI (XO (XI (XI (XO (XO (XO (XI
    XH))))))))))))))))))))))))))))))))))))))))))))))))))))))))))))))) :: ((Npos
    (XI (XI (XI (XO (XO (XO (XI (XI (XI (XO (XO (XO (XI (XI (XI (XI (XO (XO
    (XO (XO (XI (XI (XI (XI (XI (XO (XO (XI (XI (XO (XI (XO (XO (XO (XO (XI
    (XO (XI (XO (XO (XI (XI (XI (XO (XI (XI (XO (XO (XO (XO (XO (XO (XO (XO
    (XI (XI (XO (XI (XO (XI (XO (XI (XI
    XH)))))))))))))))))))))))))))))))))))))))))))))))))))))))))))))))) :: ((Npos
    (XO (XO (XI (XI (XI (XI (XI (XI (XI (XO (XI (XO (XO (XO (XI (XO (XI (XO
    (XO (XO (XI (XI (XI (XI (XO (XO (XI (XI (XI (XO (XI (XI (XO (XO (XI (XO
    (XO (XO (XI (XO (XO (XO (XI (XI (XI (XO (XI (XI (XI (XI (XI (XI (XO (XI
    (XI (XI (XO (XO (XI (XI (XO (XI
    XH))))))))))))))))))))))))))))))))))))))))))))))))))))))))))))))) :: ((Npos
    (XI (XO (XO (XI (XO (XO (XI (XI (XI (XO (XI (XO (XO (XO (XO (XO (XO (XI
    (XI (XO (XO (XI (XI (XO (XI (XO (XI (XI (XI (XO (XO (XI (XI (XI (XO (XI
    (XI (XI (XO (XO (XO (XO (XO (XO (XO (XO (XI (XO (XO (XI (XI (XO (XO (XO
    (XO (XO (XI (XI (XO (XI (XO (XO (XO
    XH)))))))))))))))))))))))))))))))))))))))))))))))))))))))))))))))) :: ((Npos
    (XO (XO (XO (XO (XI (XI (XO (XO (XO (XI (XI (XI (XO (XI (XI (XI (XI (XI
    (XI (XO (XI (XI (XI (XI (XO (XO (XO (XI (XO (XO (XI (XI (XO (XI (XI (XI
    (XI (XI (XO (XO (XO (XO (XI (XO (XI (XO (XO (XI (XO (XO (XI (XI (XI (XO
    (XO (XI (XI (XO (XO (XI (XI (XI (XI
    XH)))))))))))))))))))))))))))))))))))))))))))))))))))))))))))))))) :: ((Npos
    (XI (XO (XO (XO (XI (XO (XI (XO (XI (XI (XO (XI (XI (XI (XO (XI (XI (XO
    (XI (XI (XI (XO (XO (XO (XI (XO (XO (XO (XO (XO (XI (XO (XO (XI (XO (XO
    (XI (XI (XI (XO (XO (XO (XI (XI (XO (XI (XI (XO (XI (XI (XI (XO (XO (XO
    (XI (XI (XO (XI (XI (XO (XI (XO
    XH))))))))))))))))))))))))))))))))))))))))))))))))))))))))))))))) :: ((Npos
    (XO (XI (XI (XO (XO (XI (XI (XO (XO (XI (XI (XO (XI (XO (XI (XI (XI (XI
    (XO (XI (XI (XI (XI (XI (XO (XI (XI (XI (XO (XO (XI (XI (XI (XI (XO (XO
    (XO (XI (XO (XI (XO (XI (XO (XI (XO (XI (XO (XI (XO (XO (XI (XI (XO (XI
    (XI (XI (XI (XO (XO (XI (XO (XI (XO
    XH)))))))))))))))))))))))))))))))))))))))))))))))))))))))))))))))) :: ((Npos
    (XI (XI (XI (XI (XO (XI (XI (XO (XI (XO (XO (XI (XI (XI (XO (XI (XI (XI
    (XI (XO (XI (XI (XI (XI (XI (XI (XI (XI (XO (XI (XO (XO (XO (XO (XI (XI
    (XI (XO (XO (XI (XO (XI (XO (XO (XO (XO (XI (XI (XI (XO (XO (XO (XO (XO
    (XO (XO (XI (XO (XO (XO (XI
    XH)))))))))))))))))))))))))))))))))))))))))))))))))))))))))))))) :: ((Npos
    (XO (XO (XO (XO (XI (XO (XI (XI (XO (XO (XO (XI (XO (XI (XO (XO (XO (XO
    (XI (XI (XO (XI (XO (XI (XI (XI (XO (XO (XI (XI (XI (XO (XO (XI (XO (XO
    (XI (XO (XI (XO (XI (XO (XI (XI (XO (XI (XO (XO (XO (XI (XI (XO (XI (XI
    (XI (XO (XI (XI (XI (XO (XO (XI (XO
    XH)))))))))))))))))))))))))))))))))))))))))))))))))))))))))))))))) :: ((Npos
    (XO (XO (XO (XI (XO (XO (XO (XO (XI (XO (XO (XO (XI (XO (XO (XO (XO (XO
    (XI (XO (XI (XO (XO (XI (XO (XI (XI (XO (XO (XI (XI (XI (XI (XO (XI (XI
    (XO (XO (XI (XO (XI (XI (XO (XI (XO (XI (XI (XI (XO (XI (XI (XI (XO (XO
    (XI (XI (XI (XO (XO (XI (XO (XO (XO
    XH)))))))))))))))))))))))))))))))))))))))))))))))))))))))))))))))) :: ((Npos
    (XO (XI (XO (XI (XO (XI (XO (XI (XO (XI (XO (XO (XO (XI (XI (XO (XO (XI
    (XI (XI (XI (XI (XO (XI (XI (XI (XO (XI (XO (XO (XI (XO (XI (XI (XI (XO
    (XI (XO (XO (XO (XO (XI (XO (XO (XO (XO (XO (XI (XO (XI (XO (XO (XI (XO
    (XO (XI (XI (XI (XO
    XH)))))))))))))))))))))))))))))))))))))))))))))))))))))))))))) :: ((Npos
    (XI (XI (XI (XO (XI (XO (XI (XO (XI (XI (XO (XI (XI (XO (XO (XO (XI (XO
    (XO (XI (XO (XI (XI (XI (XI (XO (XI (XI (XI (XI (XI (XI (XI (XO (XI (XI
    (XI (XO (XI (XO (XI (XO (XI (XI (XO (XO (XI (XI (XO (XI (XI (XO (XI (XO
    (XO (XO (XO (XO (XI (XO (XO (XI (XI
    XH)))))))))))))))))))))))))))))))))))))))))))))))))))))))))))))))) :: ((Npos
    (XO (XO (XO (XO (XI (XI (XI (XI (XO (XI (XO (XO (XO (XI (XI (XO (XI (XI
    (XO (XI (XI (XO (XI (XI (XI (XI (XI (XI (XO (XI (XO (XO (XO (XO (XO (XO
    (XO (XO (XO (XO (XO (XI (XO (XI (XI (XO (XO (XI (XO (XO (XO (XI (XI (XI
    (XI (XI (XO (XO (XI (XI (XO (XI (XI
    XH)))))))))))))))))))))))))))))))))))))))))))))))))))))))))))))))) :: ((Npos
    (XI (XO (XO (XO (XO (XO (XO (XO (XI (XI (XI (XI (XO (XO (XI (XI (XO (XI
    (XO (XI (XO (XI (XO (XO (XO (XO (XI (XI (XI (XI (XI (XO (XI (XI (XI (XI
    (XO (XI (XI (XI (XO (XI (XO (XI (XI (XI (XI (XO (XI (XI (XO (XI (XO (XI
    (XO (XO (XO (XI (XI (XI (XI (XO
    XH))))))))))))))))))))))))))))))))))))))))))))))))))))))))))))))) :: ((Npos
    (XI (XO (XO (XI (XI (XO (XO (XI (XI (XO (XO (XI (XO (XO (XO (XO (XO (XI
    (XO (XO (XO (XI (XI (XI (XI (XI (XO (XO (XI (XO (XI (XO (XI (XI (XI (XI
    (XI (XO (XI (XI (XI (XO (XI (XO (XO (XO (XO (XO (XO (XI (XI (XO (XO (XO
    (XI (XI (XO (XI (XI (XI (XO (XI (XO
    XH)))))))))))))))))))))))))))))))))))))))))))))))))))))))))))))))) :: ((Npos
    (XO (XI (XO (XI (XI (XO (XI (XO (XO (XI (XO (XI (XI (XO (XO (XO (XI (XO
    (XO (XI (XI (XI (XI (XO (XO (XO (XI (XI (XI (XO (XO (XO (XI (XI (XO (XO
    (XI (XI (XI (XI (XO (XI (XI (XO (XI (XI (XO (XO (XI (XO (XI (XI (XO (XO
    (XI (XO (XI (XI (XO (XI (XI
    XH)))))))))))))))))))))))))))))))))))))))))))))))))))))))))))))) :: ((Npos
    (XI (XI (XI (XO (XI (XI (XI (XO (XI (XO (XO (XI (XI (XI (XO (XO (XO (XO
    (XI (XO (XO (XO (XI (XO (XO (XO (XO (XI (XI (XO (XO (XI (XI (XO (XI (XO
    (XI (XI (XI (XI (XI (XI (XI (XO (XO (XO (XO (XO (XI (XO (XO (XO (XO (XI
    (XO (XI (XO (XO (XI (XI (XI (XI (XI
    XH)))))))))))))))))))))))))))))))))))))))))))))))))))))))))))))))) :: ((Npos
    (XO (XO (XO (XI (XO (XO (XO (XO (XI (XI (XO (XO (XO (XO (XO (XO (XI (XI
    (XI (XO (XO (XO (XI (XI (XO (XI (XI (XI (XI (XO (XI (XI (XO (XI (XI (XI
    (XI (XI (XO (XI (XO (XI (XI (XO (XO (XO (XI (XI (XO (XI (XO (XI (XI (XO
    (XO (XO (XO (XI (XO (XO (XO (XO (XO
    XH)))))))))))))))))))))))))))))))))))))))))))))))))))))))))))))))) :: ((Npos
    (XI (XI (XI (XI (XI (XO (XI (XI (XI (XO (XO (XI (XO (XO (XO (XI (XI (XI
    (XO (XO (XI (XI (XO (XI (XI (XI (XO (XO (XI (XO (XI (XO (XI (XI (XO (XO
    (XO (XO (XO (XI (XO (XI (XI (XO (XI (XO (XI (XI (XI (XO (XI (XO (XI (XO
    (XI (XI (XO (XI (XI (XO (XO
    XH)))))))))))))))))))))))))))))))))))))))))))))))))))))))))))))) :: ((Npos
    (XO (XO (XO (XO (XI (XO (XO (XO (XI (XO (XI (XI (XI (XO (XI (XI (XO (XO
    (XI (XI (XO (XO (XO (XI (XI (XI (XO (XI (XI (XI (XO (XI (XO (XI (XO (XO
    (XI (XI (XO (XI (XI (XO (XI (XO (XI (XI (XO (XO (XI (XO (XI (XI (XI (XI
    (XO (XI (XI (XO (XO (XI (XO (XI (XI
    XH)))))))))))))))))))))))))))))))))))))))))))))))))))))))))))))))) :: ((Npos
    (XI (XI (XO (XI (XI (XI (XI (XI (XO (XI (XI (XO (XO (XO (XO (XO (XI (XI
    (XO (XI (XO (XI (XO (XO (XO (XO (XI (XI (XI (XI (XO (XI (XI (XO (XI (XO
    (XI (XO (XI (XI (XO (XI (XO (XI (XO (XO (XI (XI (XI (XO (XO (XO (XO (XI
    (XI (XI (XI (XO (XI (XO (XO (XO (XO
    XH)))))))))))))))))))))))))))))))))))))))))))))))))))))))))))))))) :: ((Npos
    (XI (XI (XI (XI (XO (XO (XO (XI (XO (XO (XO (XO (XO (XI (XO (XO (XO (XO
    (XO (XI (XO (XI (XI (XI (XI (XO (XI (XO (XI (XO (XO (XI (XI (XO (XI (XO
    (XO (XO (XI (XO (XI (XO (XI (XI (XI (XI (XO (XI (XI (XO (XO (XO (XI (XI
    (XO (XO (XO (XO (XI (XO (XI (XO (XO
    XH)))))))))))))))))))))))))))))))))))))))))))))))))))))))))))))))) :: ((Npos
    (XI (XI (XO (XO (XI (XO (XI (XO (XO (XO (XI (XI (XI (XI (XO (XI (XI (XI
    (XI (XO (XO (XI (XO (XO (XO (XI (XI (XO (XI (XO (XO (XO (XI (XO (XO (XI
    (XI (XO (XI (XI (XI (XO (XI (XO (XO (XI (XO (XI (XO (XO (XI (XO (XI (XI
    (XI (XO (XI (XI (XI (XI (XI (XO (XO
    XH)))))))))))))))))))))))))))))))))))))))))))))))))))))))))))))))) :: ((Npos
    (XI (XI (XO (XO (XI (XI (XO (XO (XO (XI (XO (XI (XO (XO (XO (XI (XI (XI
    (XO (XO (XI (XI (XO (XO (XO (XO (XO (XI (XO (XI (XI (XO (XO (XO (XI (XO
    (XI (XO (XI (XO (XO (XO (XI (XO (XO (XO (XO (XI (XO (XO (XI (XI (XO (XO
    (XO (XI (XO (XI (XO (XO (XI (XI
    XH))))))))))))))))))))))))))))))))))))))))))))))))))))))))))))))) :: ((Npos
    (XO (XO (XO (XO (XO (XO (XI (XO (XO (XI (XO (XO (XI (XI (XO (XI (XO (XI
    (XI (XO (XI (XO (XI (XI (XO (XO (XI (XI (XO (XI (XO (XI (XO (XO (XO (XI
    (XO (XO (XI (XO (XO (XI (XI (XI (XO (XO (XI (XO (XI (XI (XO (XO (XO (XI
    (XO (XI (XI
    XH)))))))))))))))))))))))))))))))))))))))))))))))))))))))))) :: ((Npos
    (XI (XO (XO (XI (XI (XO (XO (XI (XO (XI (XI (XO (XO (XO (XO (XO (XO (XI
    (XO (XO (XI (XI (XO (XI (XO (XO (XO (XI (XO (XI (XI (XO (XO (XI (XO (XO
    (XO (XI (XI (XO (XO (XO (XO (XI (XO (XI (XO (XI (XO (XO (XI (XO (XI (XO
    (XO (XI (XI (XI (XI (XO (XO
    XH)))))))))))))))))))))))))))))))))))))))))))))))))))))))))))))) :: ((Npos
    (XO (XI (XO (XI (XO (XO (XI (XO (XI (XI (XO (XO (XO (XO (XI (XI (XI (XI
    (XO (XO (XI (XI (XI (XO (XO (XO (XO (XO (XI (XI (XI (XI (XO (XO (XO (XO
    (XO (XO (XO (XO (XI (XO (XI (XI (XI (XI (XI (XI (XO (XI (XI (XI (XO (XO
    (XO (XI (XI (XI (XI (XI (XI (XI
    XH))))))))))))))))))))))))))))))))))))))))))))))))))))))))))))))) :: ((Npos
    (XO (XI (XI (XO (XO (XI (XO (XI (XI (XO (XO (XO (XO (XI (XI (XI (XO (XO
    (XO (XO (XO (XO (XI (XO (XO (XO (XO (XI (XI (XO (XI (XO (XI (XI (XI (XI
    (XO (XO (XO (XO (XO (XI (XO (XO (XO (XI (XI (XO (XO (XO (XI (XI (XO (XO
    (XO (XI (XO (XO (XI (XO (XI (XI
    XH))))))))))))))))))))))))))))))))))))))))))))))))))))))))))))))) :: ((Npos
    (XI (XI (XI (XO (XO (XO (XO (XO (XI (XI (XI (XI (XO (XI (XI (XO (XI (XI
    (XI (XO (XI (XI (XI (XI (XO (XO (XO (XI (XI (XO (XI (XI (XO (XO (XO (XO
    (XO (XI (XO (XO (XO (XI (XO (XO (XI (XO (XI (XI (XI (XI (XO (XI (XI (XO
    (XI (XI (XO (XO (XI
    XH)))))))))))))))))))))))))))))))))))))))))))))))))))))))))))) :: ((Npos
    (XI (XI (XO (XO (XI (XO (XO (XI (XI (XO (XI (XO (XO (XO (XO (XI (XO (XO
    (XI (XI (XO (XO (XO (XO (XO (XO (XO (XI (XI (XO (XO (XO (XO (XI (XO (XO
    (XO (XI (XO (XO (XI (XI (XI (XO (XI (XO (XO (XI (XI (XO (XI (XI (XO (XO
    (XO (XO (XO (XI (XI (XO (XO (XI (XO
    XH)))))))))))))))))))))))))))))))))))))))))))))))))))))))))))))))) :: ((Npos
    (XO (XI (XO (XO (XI (XO (XI (XI (XO (XO (XO (XO (XO (XI (XI (XI (XO (XI
    (XI (XO (XI (XO (XO (XI (XO (XI (XI (XO (XI (XO (XO (XI (XO (XI (XI (XI
    (XI (XI (XO (XO (XO (XI (XO (XI (XI (XI (XO (XI (XO (XO (XI (XI (XI (XI
    (XI (XO (XO (XI (XI (XO
    XH))))))))))))))))))))))))))))))))))))))))))))))))))))))))))))) :: ((Npos
    (XI (XO (XI (XI (XI (XI (XO (XI (XO (XI (XO (XI (XI (XI (XO (XI (XO (XO
    (XO (XI (XI (XI (XI (XI (XO (XO (XI (XI (XO (XO (XO (XO (XI (XO (XI (XO
    (XO (XI (XI (XO (XO (XI (XI (XI (XI (XI (XO (XI (XI (XO (XO (XI (XI (XO
    (XI (XI (XI (XI (XI (XI (XI (XO
    XH))))))))))))))))))))))))))))))))))))))))))))))))))))))))))))))) :: ((Npos
    (XO (XO (XI (XO (XO (XI (XI (XI (XI (XO (XO (XO (XI (XO (XI (XO (XI (XO
    (XO (XI (XO (XO (XI (XO (XO (XO (XO (XO (XO (XI (XO (XO (XO (XO (XO (XO
    (XI (XI (XI (XI (XI (XI (XO (XO (XO (XI (XI (XI (XO (XO (XI (XI (XO (XI
    (XO (XI (XI (XI (XO (XI
    XH))))))))))))))))))))))))))))))))))))))))))))))))))))))))))))) :: ((Npos
    (XO (XO (XI (XI (XI (XO (XI (XI (XI (XI (XO (XI (XO (XI (XI (XI (XO (XO
    (XI (XI (XO (XO (XI (XI (XI (XO (XI (XO (XO (XI (XI (XO (XI (XO (XI (XI
    (XI (XI (XO (XI (XO (XO (XO (XI (XI (XO (XO (XI (XI (XI (XI (XO (XO (XO
    (XO (XI (XI (XI (XI (XI (XI (XI (XO
    XH)))))))))))))))))))))))))))))))))))))))))))))))))))))))))))))))) :: ((Npos
    (XO (XI (XO (XI (XO (XO (XO (XI (XI (XO (XO (XO (XI (XO (XO (XO (XI (XO
    (XO (XI (XO (XI (XI (XI (XI (XI (XO (XO (XO (XI (XO (XO (XI (XO (XO (XI
    (XI (XI (XI (XO (XI (XI (XI (XI (XO (XO (XI (XO (XI (XO (XO (XO (XI (XI
    (XI (XO (XO (XI (XO (XI (XI (XO
    XH))))))))))))))))))))))))))))))))))))))))))))))))))))))))))))))) :: ((Npos
    (XO (XO (XI (XO (XI (XI (XI (XI (XI (XO (XO (XI (XI (XI (XI (XI (XI (XI
    (XO (XI (XO (XI (XO (XI (XO (XO (XI (XI (XO (XI (XI (XI (XO (XO (XI (XI
    (XI (XO (XI (XO (XO (XI (XO (XI (XI (XO (XI (XO (XO (XO (XI (XO (XI (XO
    (XO (XO (XO (XO (XO (XO (XI (XI
    XH))))))))))))))))))))))))))))))))))))))))))))))))))))))))))))))) :: ((Npos
    (XI (XO (XO (XO (XO (XO (XO (XI (XO (XI (XO (XO (XO (XI (XI (XO (XI (XO
    (XI (XI (XI (XI (XI (XO (XO (XI (XO (XI (XI (XO (XO (XO (XO (XI (XI (XI
    (XO (XI (XO (XO (XI (XI (XO (XO (XI (XI (XO (XI (XO (XO (XI (XI (XI (XI
    (XO (XO (XI (XO (XI (XO
    XH))))))))))))))))))))))))))))))))))))))))))))))))))))))))))))) :: ((Npos
    (XI (XO (XO (XI (XO (XO (XI (XO (XO (XO (XO (XI (XO (XO (XO (XI (XO (XO
    (XI (XI (XI (XO (XI (XO (XI (XO (XO (XO (XO (XI (XO (XI (XI (XI (XI (XI
    (XI (XI (XO (XO (XI (XO (XO (XI (XO (XO (XI (XI (XO (XI (XO (XO (XI (XI
    (XI (XO (XO (XI (XO
    XH)))))))))))))))))))))))))))))))))))))))))))))))))))))))))))) :: ((Npos
    (XI (XO (XO (XO (XI (XI (XI (XO (XO (XI (XO (XO (XI (XO (XI (XI (XI (XI
    (XO (XI (XO (XO (XO (XI (XO (XI (XI (XI (XO (XI (XO (XO (XI (XO (XI (XO
    (XO (XO (XI (XO (XI (XO (XI (XI (XI (XI (XI (XI (XI (XI (XO (XI (XI (XI
    (XI (XI (XI (XO (XI (XO (XI (XO
    XH))))))))))))))))))))))))))))))))))))))))))))))))))))))))))))))) :: ((Npos
    (XO (XI (XO (XI (XO (XI (XO (XO (XI (XO (XI (XO (XO (XO (XI (XI (XI (XI
    (XI (XO (XO (XO (XO (XI (XO (XI (XO (XI (XI (XI (XI (XI (XI (XI (XI (XI
    (XO (XI (XO (XO (XO (XI (XI (XI (XI (XI (XO (XO (XO (XI (XO (XO (XO (XI
    (XO (XI (XI (XI (XI (XO (XI (XO (XI
    XH)))))))))))))))))))))))))))))))))))))))))))))))))))))))))))))))) :: ((Npos
    (XI (XO (XO (XO (XI (XO (XO (XI (XO (XI (XO (XI (XI (XI (XI (XI (XO (XI
    (XI (XO (XI (XO (XO (XO (XI (XI (XO (XO (XI (XI (XI (XO (XO (XI (XI (XO
    (XO (XO (XI (XO (XO (XO (XO (XI (XO (XO (XO (XO (XI (XI (XO (XO (XO (XO
    (XI (XO (XO (XI (XI (XI (XO
    XH)))))))))))))))))))))))))))))))))))))))))))))))))))))))))))))) :: [])))))))))))))))))))))))))))))))))))))))))))))))))))))))))))))))) :: (((Npos
    (XO (XO (XI (XI (XI (XI (XI (XO (XI (XO (XI (XO (XO (XO (XI (XI (XI (XO
    (XI (XI (XO (XI (XI (XO (XO (XO (XO (XO (XO (XI (XI (XI (XO (XI (XI (XO
    (XO (XO (XO (XO (XI (XO (XI (XO (XI (XO (XO (XI (XO (XO (XI (XO (XI (XI
    (XO (XO (XI (XI (XI (XI (XI (XO (XO
    XH)))))))))))))))))))))))))))))))))))))))))))))))))))))))))))))))) :: ((Npos
    (XO (XO (XO (XO (XI (XO (XO (XO (XO (XI (XI (XI (XO (XI (XI (XO (XO (XI
    (XI (XO (XI (XO (XI (XO (XO (XI (XI (XO (XI (XO (XO (XI (XO (XI (XI (XO
    (XI (XI (XI (XO (XO (XO (XI (XO (XI (XI (XO (XI (XI (XI (XO (XI (XI (XO
    (XO (XI (XI (XI (XI (XO (XO (XI (XI
    XH)))))))))))))))))))))))))))))))))))))))))))))))))))))))))))))))) :: ((Npos
    (XI (XO (XI (XI (XI (XO (XO (XO (XI (XO (XI (XI (XI (XO (XI (XI (XI (XI
    (XI (XI (XI (XI (XI (XO (XI (XI (XO (XI (XO (XO (XO (XI (XI (XO (XO (XI
    (XI (XO (XI (XO (XO (XI (XI (XI (XO (XI (XO (XO (XO (XI (XI (XI (XI (XI
    (XO (XI (XI (XI (XI (XO (XO (XO (XI
    XH)))))))))))))))))))))))))))))))))))))))))))))))))))))))))))))))) :: ((Npos
    (XO (XO (XI (XO (XO (XO (XO (XI (XI (XO (XO (XI (XO (XI (XO (XO (XO (XO
    (XO (XI (XO (XI (XO (XI (XO (XI (XI (XI (XO (XI (XI (XI (XI (XI (XO (XI
    (XI (XI (XO (XO (XI (XI (XO (XI (XO (XI (XI (XO (XO (XI (XI (XI (XO (XO
    (XO (XI (XI (XO (XO (XI (XO (XI
    XH))))))))))))))))))))))))))))))))))))))))))))))))))))))))))))))) :: ((Npos
    (XI (XO (XI (XO (XI (XI (XI (XO (XO (XI (XO (XI (XO (XI (XO (XO (XI (XI
    (XO (XO (XI (XI (XO (XI (XO (XO (XI (XI (XI (XO (XI (XI (XI (XI (XI (XO
    (XO (XI (XO (XO (XO (XO (XO (XI (XI (XI (XI (XI (XO (XI (XO (XO (XO (XI
    (XO (XO (XI (XI (XI
    XH)))))))))))))))))))))))))))))))))))))))))))))))))))))))))))) :: ((Npos
    (XI (XI (XO (XO (XI (XO (XO (XI (XO (XO (XI (XI (XI (XO (XO (XO (XI (XI
    (XI (XI (XO (XI (XO (XI (XO (XI (XI (XO (XO (XI (XO (XI (XI (XO (XO (XI
    (XO (XO (XO (XO (XI (XO (XI (XI (XI (XI (XO (XO (XI (XO (XO (XI (XI (XO
    (XI (XO (XO (XO (XI (XI (XI (XO
    XH))))))))))))))))))))))))))))))))))))))))))))))))))))))))))))))) :: ((Npos
    (XI (XI (XO (XO (XI (XO (XO (XO (XO (XO (XO (XI (XO (XI (XO (XI (XO (XI
    (XO (XO (XI (XI (XO (XI (XO (XI (XI (XO (XO (XI (XO (XO (XI (XI (XO (XO
    (XO (XO (XO (XO (XO (XI (XO (XO (XI (XO (XO (XO (XO (XO (XI (XI (XO (XI
    (XI (XI (XO (XO (XO (XO (XI (XI (XI
    XH)))))))))))))))))))))))))))))))))))))))))))))))))))))))))))))))) :: ((Npos
    (XO (XI (XI (XO (XO (XO (XI (XI (XI (XO (XI (XI (XO (XO (XI (XI (XO (XO
    (XO (XO (XI (XI (XO (XI (XO (XI (XO (XI (XI (XI (XO (XO (XO (XI (XI (XO
    (XI (XO (XO (XO (XI (XI (XO (XO (XO (XO (XI (XO (XO (XO (XO (XO (XO (XI
    (XO (XI (XO (XI (XI (XO (XI (XI (XO
    XH)))))))))))))))))))))))))))))))))))))))))))))))))))))))))))))))) :: ((Npos
    (XO (XI (XI (XO (XO (XO (XO (XI (XI (XO (XO (XO (XO (XO (XO (XI (XO (XO
    (XI (XI (XO (XI (XO (XI (XO (XO (XI (XO (XO (XI (XI (XI (XI (XO (XO (XO
    (XO (XI (XO (XI (XI (XO (XI (XO (XI (XI (XO (XI (XI (XO (XO (XO (XO (XO
    (XO (XO (XO (XO (XO (XI (XO
    XH)))))))))))))))))))))))))))))))))))))))))))))))))))))))))))))) :: ((Npos
    (XI (XI (XI (XO (XI (XO (XI (XI (XO (XI (XO (XO (XO (XO (XI (XI (XO (XO
    (XI (XI (XI (XO (XO (XO (XI (XI (XI (XI (XO (XO (XO (XO (XI (XI (XI (XI
    (XO (XI (XO (XI (XO (XO (XI (XI (XO (XO (XO (XO (XI (XO (XO (XO (XO (XO
    (XI (XI (XI (XI (XO (XO (XO (XI (XI
    XH)))))))))))))))))))))))))))))))))))))))))))))))))))))))))))))))) :: ((Npos
    (XO (XO (XI (XO (XO (XI (XO (XO (XO (XI (XI (XI (XO (XI (XI (XI (XI (XI
    (XI (XO (XO (XO (XO (XI (XI (XI (XO (XI (XO (XI (XO (XI (XO (XO (XI (XO
    (XI (XO (XI (XO (XO (XO (XI (XO (XI (XO (XO (XI (XI (XO (XI (XI (XO (XO
    (XI (XO (XO (XO (XI (XI (XO (XI (XO
    XH)))))))))))))))))))))))))))))))))))))))))))))))))))))))))))))))) :: ((Npos
    (XO (XI (XI (XI (XO (XO (XO (XO (XO (XO (XO (XI (XO (XI (XO (XO (XO (XI
    (XO (XI (XI (XO (XO (XI (XI (XO (XO (XI (XI (XI (XI (XI (XO (XI (XI (XI
    (XI (XO (XI (XI (XI (XI (XO (XO (XO (XO (XI (XO (XI (XI (XO (XI (XI (XI
    (XO (XO (XO (XI (XI (XO (XO (XO (XI
    XH)))))))))))))))))))))))))))))))))))))))))))))))))))))))))))))))) :: ((Npos
    (XO (XI (XO (XO (XI (XO (XI (XI (XO (XI (XI (XI (XO (XO (XI (XI (XO (XI
    (XO (XI (XO (XI (XI (XI (XI (XO (XO (XI (XO (XO (XI (XI (XO (XI (XI (XO
    (XI (XO (XI (XI (XO (XI (XI (XI (XI (XI (XI (XI (XO (XO (XO (XO (XI (XO
    (XI (XI (XO (XO (XO (XI (XO (XI
    XH))))))))))))))))))))))))))))))))))))))))))))))))))))))))))))))) :: ((Npos
    (XI (XO (XI (XI (XI (XI (XO (XO (XI (XO (XI (XO (XI (XI (XO (XO (XI (XI
    (XI (XI (XO (XI (XO (XO (XI (XI (XI (XO (XI (XI (XI (XI (XO (XI (XO (XO
    (XO (XO (XO (XI (XI (XI (XO (XO (XI (XO (XO (XI (XO (XI (XO (XO (XO (XI
    (XO (XI (XO (XI (XO (XO (XO (XO (XO
    XH)))))))))))))))))))))))))))))))))))))))))))))))))))))))))))))))) :: ((Npos
    (XI (XO (XO (XI (XI (XI (XI (XO (XI (XI (XI (XI (XI (XI (XO (XI (XI (XO
    (XO (XO (XO (XO (XI (XI (XO (XI (XO (XI (XI (XI (XI (XI (XI (XO (XI (XO
    (XO (XO (XO (XI (XO (XO (XI (XO (XI (XO (XO (XI (XI (XO (XO (XI (XI (XO
    (XO (XO (XI (XI (XO (XO (XI (XO (XO
    XH)))))))))))))))))))))))))))))))))))))))))))))))))))))))))))))))) :: ((Npos
    (XI (XO (XO (XI (XO (XI (XI (XO (XO (XO (XI (XO (XO (XI (XI (XI (XO (XI
    (XO (XO (XI (XO (XI (XI (XO (XO (XI (XI (XO (XI (XO (XO (XI (XO (XO (XI
    (XI (XI (XO (XO (XI (XI (XO (XI (XO (XI (XI (XO (XI (XO (XO (XI (XI (XO
    (XO (XO (XI (XO (XI (XI (XO (XI (XI
    XH)))))))))))))))))))))))))))))))))))))))))))))))))))))))))))))))) :: ((Npos
    (XO (XI (XI (XO (XO (XO (XI (XI (XO (XO (XI (XO (XI (XI (XI (XI (XI (XI
    (XI (XO (XI (XI (XI (XI (XO (XI (XI (XI (XO (XO (XO (XI (XI (XO (XO (XI
    (XI (XI (XO (XO (XI (XI (XI (XO (XO (XI (XO (XI (XI (XO (XO (XO (XO (XO
    XH))))))))))))))))))))))))))))))))))))))))))))))))))))))) :: ((Npos (XO
    (XI (XO (XI (XO (XI (XO (XI (XI (XI (XO (XI (XO (XO (XI (XI (XI (XI (XO
    (XI (XO (XI (XI (XI (XI (XO (XO (XO (XI (XI (XI (XO (XI (XI (XO (XI (XO
    (XO (XI (XO (XO (XO (XI (XO (XI (XO (XI (XO (XI (XO (XI (XO (XI (XO (XI
    (XO (XO (XI (XI (XI (XI (XI
    XH))))))))))))))))))))))))))))))))))))))))))))))))))))))))))))))) :: ((Npos
    (XO (XO (XO (XO (XI (XO (XI (XO (XO (XO (XO (XI (XI (XO (XI (XO (XO (XI
    (XI (XI (XO (XO (XO (XI (XI (XI (XI (XO (XI (XI (XI (XI (XI (XI (XO (XI
    (XO (XI (XI (XI (XI (XO (XI (XI (XO (XO (XO (XI (XO (XI (XO (XI (XI (XO
    (XI (XO (XI (XO (XI (XO (XI (XI (XI
    XH)))))))))))))))))))))))))))))))))))))))))))))))))))))))))))))))) :: ((Npos
    (XO (XO (XO (XI (XI (XO (XI (XO (XO (XO (XI (XO (XO (XI (XO (XO (XI (XO
    (XI (XO (XO (XO (XI (XO (XO (XI (XI (XI (XO (XI (XO (XO (XI (XO (XO (XO
    (XI (XI (XO (XO (XO (XO (XO (XI (XO (XI (XO (XI (XI (XO (XO (XI (XO (XO
    (XI (XO (XI (XI (XI
    XH)))))))))))))))))))))))))))))))))))))))))))))))))))))))))))) :: ((Npos
    (XI (XO (XO (XI (XO (XI (XO (XO (XI (XO (XO (XI (XO (XI (XO (XO (XO (XI
    (XI (XI (XI (XI (XI (XI (XO (XI (XO (XI (XI (XI (XO (XI (XO (XO (XI (XI
    (XI (XO (XI (XO (XO (XO (XI (XI (XI (XI (XO (XI (XO (XO (XO (XI (XO (XI
    (XI (XO (XO (XO (XI (XO (XI (XI (XI
    XH)))))))))))))))))))))))))))))))))))))))))))))))))))))))))))))))) :: ((Npos
    (XI (XO (XO (XI (XI (XI (XO (XI (XO (XI (XI (XI (XO (XO (XO (XI (XO (XO
    (XO (XO (XO (XI (XO (XO (XI (XI (XI (XO (XI (XO (XI (XO (XI (XO (XI (XI
    (XI (XO (XI (XI (XO (XI (XI (XO (XI (XI (XI (XI (XO (XO (XI (XI (XO (XI
    (XI (XO (XI (XO
    XH))))))))))))))))))))))))))))))))))))))))))))))))))))))))))) :: ((Npos
    (XI (XI (XI (XO (XO (XI (XI (XO (XO (XO (XO (XI (XO (XI (XI (XI (XO (XI
    (XI (XO (XI (XO (XI (XI (XI (XI (XI (XI (XO (XI (XI (XO (XO (XO (XO (XO
    (XO (XI (XO (XI (XI (XO (XI (XI (XI (XO (XI (XO (XI (XO (XO (XO (XI (XI
    (XO (XO (XO (XI (XI (XI
    XH))))))))))))))))))))))))))))))))))))))))))))))))))))))))))))) :: ((Npos
    (XI (XO (XI (XO (XI (XO (XO (XI (XO (XI (XO (XI (XO (XI (XI (XO (XO (XI
    (XO (XO (XI (XO (XO (XO (XI (XO (XO (XI (XI (XI (XO (XI (XI (XO (XI (XI
    (XO (XO (XI (XI (XI (XI (XO (XI (XI (XI (XO (XO (XI (XO (XI (XI (XO (XO
    (XI (XI (XI (XI (XI (XI (XI (XI (XI
    XH)))))))))))))))))))))))))))))))))))))))))))))))))))))))))))))))) :: ((Npos
    (XI (XI (XO (XI (XI (XI (XI (XO (XI (XI (XI (XO (XO (XO (XO (XI (XI (XI
    (XO (XO (XO (XI (XO (XI (XO (XI (XI (XI (XO (XO (XI (XO (XO (XO (XO (XI
    (XO (XO (XI (XI (XO (XO (XO (XO (XO (XI (XO (XI (XI (XI (XO (XI (XI (XO
    (XI (XO (XI (XO (XI (XI (XI (XI (XO
    XH)))))))))))))))))))))))))))))))))))))))))))))))))))))))))))))))) :: ((Npos
    (XO (XO (XO (XI (XO (XO (XO (XI (XI (XO (XI (XO (XI (XI (XO (XO (XI (XI
    (XO (XO (XI (XO (XO (XI (XO (XI (XO (XI (XO (XO (XO (XO (XI (XO (XO (XI
    (XO (XO (XI (XO (XO (XO (XO (XO (XI (XI (XI (XO (XO (XO (XO (XO (XO (XI
    (XI (XI (XO (XI (XO (XO (XI (XO
    XH))))))))))))))))))))))))))))))))))))))))))))))))))))))))))))))) :: ((Npos
    (XO (XI (XI (XI (XO (XI (XO (XO (XI (XI (XO (XI (XI (XO (XO (XO (XI (XI
    (XI (XO (XO (XO (XO (XI (XO (XO (XI (XI (XI (XI (XO (XO (XO (XI (XI (XO
    (XO (XI (XO (XO (XI (XO (XI (XO (XO (XO (XO (XO (XO (XO (XI (XO (XO (XI
    (XI (XI (XI (XO (XI (XI (XI (XI (XI
    XH)))))))))))))))))))))))))))))))))))))))))))))))))))))))))))))))) :: ((Npos
    (XO (XI (XO (XI (XI (XI (XI (XI (XO (XO (XO (XI (XI (XI (XI (XO (XI (XO
    (XO (XI (XO (XO (XI (XO (XI (XO (XO (XO (XI (XO (XI (XO (XI (XI (XO (XI
    (XO (XI (XO (XO (XI (XO (XI (XI (XO (XO (XI (XO (XO (XO (XO (XO (XO (XO
    (XI (XI (XO (XI (XI (XI (XO (XO (XI
    XH)))))))))))))))))))))))))))))))))))))))))))))))))))))))))))))))) :: ((Npos
    (XO (XO (XI (XI (XO (XO (XO (XI (XO (XI (XO (XI (XO (XO (XI (XO (XI (XO
    (XI (XO (XI (XO (XI (XO (XI (XI (XI (XI (XO (XO (XI (XI (XO (XO (XI (XO
    (XO (XI (XO (XO (XO (XO (XO (XO (XI (XO (XI (XO (XI (XI (XO (XI (XO (XO
    (XI (XI (XI (XI (XO (XI (XI
    XH)))))))))))))))))))))))))))))))))))))))))))))))))))))))))))))) :: ((Npos
    (XI (XI (XO (XO (XO (XO (XO (XI (XO (XI (XI (XI (XO (XI (XI (XI (XI (XI
    (XO (XO (XO (XI (XI (XI (XO (XO (XI (XO (XI (XO (XO (XO (XO (XI (XO (XI
    (XO (XO (XO (XI (XO (XO (XI (XI (XO (XO (XO (XI (XI (XI (XI (XI (XI (XI
    (XO (XO (XI (XI (XI (XI (XI (XO (XO
    XH)))))))))))))))))))))))))))))))))))))))))))))))))))))))))))))))) :: ((Npos
    (XO (XI (XO (XI (XO (XI (XO (XI (XI (XI (XI (XI (XO (XO (XO (XI (XI (XI
    (XO (XO (XI (XO (XI (XI (XO (XO (XO (XI (XO (XO (XO (XI (XO (XO (XI (XI
    (XO (XO (XO (XI (XO (XO (XO (XI (XI (XO (XO (XI (XI (XI (XO (XI (XO (XI
    (XO (XO (XO (XI (XI (XI (XI (XI (XO
    XH)))))))))))))))))))))))))))))))))))))))))))))))))))))))))))))))) :: ((Npos
    (XI (XO (XI (XI (XO (XO (XO (XI (XI (XI (XI (XO (XI (XO (XI (XO (XO (XI
    (XI (XO (XI (XI (XO (XO (XI (XI (XI (XI (XI (XI (XI (XO (XO (XI (XO (XO
    (XI (XO (XO (XO (XI (XI (XI (XI (XO (XI (XI (XI (XI (XI (XI (XI (XO (XO
    (XI (XI (XI
    XH)))))))))))))))))))))))))))))))))))))))))))))))))))))))))) :: ((Npos
    (XI (XI (XO (XO (XO (XI (XI (XO (XI (XO (XO (XI (XI (XI (XO (XO (XO (XO
    (XO (XO (XI (XO (XO (XI (XI (XI (XO (XO (XI (XI (XI (XO (XI (XI (XI (XO
    (XI (XI (XO (XO (XO (XO (XO (XO (XO (XO (XI (XI (XI (XI (XI (XO (XO (XO
    (XI (XO (XI (XI (XI (XI (XI (XO (XO
    XH)))))))))))))))))))))))))))))))))))))))))))))))))))))))))))))))) :: ((Npos
    (XI (XI (XI (XO (XI (XI (XI (XI (XI (XO (XO (XO (XI (XO (XO (XO (XO (XI
    (XO (XO (XO (XO (XO (XO (XO (XI (XO (XO (XI (XO (XO (XI (XO (XI (XI (XO
    (XO (XI (XI (XI (XI (XO (XI (XI (XI (XI (XI (XI (XI (XO (XO (XO (XI (XO
    (XI (XI (XO (XO (XI (XO (XO (XI (XI
    XH)))))))))))))))))))))))))))))))))))))))))))))))))))))))))))))))) :: ((Npos
    (XI (XI (XI (XI (XI (XI (XI (XO (XO (XO (XO (XI (XI (XI (XI (XI (XI (XO
    (XO (XO (XO (XO (XO (XI (XO (XI (XO (XO (XO (XI (XO (XO (XI (XI (XO (XI
    (XO (XI (XI (XO (XO (XI (XI (XO (XI (XO (XI (XO (XO (XO (XO (XO (XI (XO
    (XI (XO (XO (XO (XI (XI
    XH))))))))))))))))))))))))))))))))))))))))))))))))))))))))))))) :: ((Npos
    (XI (XO (XI (XO (XI (XO (XO (XO (XO (XO (XO (XI (XI (XO (XO (XO (XO (XI
    (XI (XI (XI (XI (XO (XO (XO (XI (XO (XO (XO (XO (XI (XI (XI (XO (XO (XO
    (XI (XO (XI (XO (XI (XO (XI (XO (XO (XO (XO (XI (XI (XO (XI (XI (XI (XO
    (XI (XO (XO (XI (XO (XO (XO (XO (XI
    XH)))))))))))))))))))))))))))))))))))))))))))))))))))))))))))))))) :: ((Npos
    (XO (XO (XO (XI (XI (XI (XI (XO (XI (XO (XI (XO (XO (XO (XO (XI (XI (XI
    (XO (XO (XI (XO (XI (XI (XI (XO (XO (XI (XO (XO (XI (XI (XI (XI (XI (XO
    (XO (XO (XO (XO (XO (XO (XO (XO (XO (XO (XO (XO (XO (XI (XI (XO (XO (XI
    (XI (XI (XI (XO (XO (XO (XI (XI (XI
    XH)))))))))))))))))))))))))))))))))))))))))))))))))))))))))))))))) :: ((Npos
    (XO (XI (XI (XO (XO (XO (XO (XI (XO (XO (XO (XO (XO (XO (XO (XI (XI (XO
    (XI (XI (XI (XO (XI (XI (XI (XI (XO (XI (XI (XI (XI (XI (XI (XO (XI (XO
    (XI (XI (XO (XO (XI (XI (XO (XI (XI (XI (XI (XI (XI (XO (XI (XI (XO (XI
    (XI (XO (XO (XO (XI (XI (XI (XO
    XH))))))))))))))))))))))))))))))))))))))))))))))))))))))))))))))) :: ((Npos
    (XI (XI (XO (XI (XO (XI (XO (XI (XO (XO (XO (XI (XO (XI (XO (XO (XI (XI
    (XI (XI (XI (XI (XI (XO (XO (XO (XO (XO (XO (XO (XI (XI (XI (XO (XO (XI
    (XI (XI (XO (XI (XO (XO (XI (XI (XI (XO (XI (XO (XI (XI (XI (XO (XO (XO
    (XO (XI (XO (XI (XO (XI (XO (XI (XI
    XH)))))))))))))))))))))))))))))))))))))))))))))))))))))))))))))))) :: ((Npos
    (XO (XI (XI (XI (XO (XO (XO (XO (XO (XO (XI (XI (XI (XI (XI (XI (XO (XI
    (XI (XI (XI (XI (XI (XI (XI (XO (XI (XO (XO (XO (XI (XO (XI (XO (XO (XO
    (XI (XO (XO (XI (XO (XI (XI (XI (XI (XO (XI (XI (XO (XO (XO (XO (XI (XI
    (XI (XI (XO (XI (XI (XO (XI (XO
    XH))))))))))))))))))))))))))))))))))))))))))))))))))))))))))))))) :: ((Npos
    (XO (XI (XO (XO (XI (XI (XO (XO (XO (XI (XO (XI (XO (XI (XI (XI (XI (XI
    (XI (XI (XI (XO (XO (XO (XI (XI (XI (XO (XI (XI (XO (XO (XI (XO (XO (XO
    (XO (XO (XO (XO (XI (XI (XI (XI (XI (XI (XI (XO (XO (XO (XI (XO (XI (XO
    (XO (XO (XI (XO (XO (XI (XO (XI (XI
    XH)))))))))))))))))))))))))))))))))))))))))))))))))))))))))))))))) :: ((Npos
    (XI (XI (XO (XO (XI (XO (XO (XI (XI (XO (XI (XI (XO (XO (XI (XI (XO (XO
    (XI (XO (XO (XI (XO (XI (XO (XI (XI (XO (XO (XO (XO (XI (XI (XI (XO (XO
    (XO (XO (XO (XO (XO (XO (XO (XI (XI (XO (XI (XI (XI (XO (XO (XO (XO (XI
    (XI (XO (XI (XI (XI (XI (XI (XO (XI
    XH)))))))))))))))))))))))))))))))))))))))))))))))))))))))))))))))) :: ((Npos
    (XI (XI (XI (XI (XO (XI (XO (XI (XI (XI (XO (XI (XI (XI (XO (XO (XI (XI
    (XO (XO (XI (XI (XI (XO (XO (XO (XI (XI (XI (XI (XO (XI (XO (XI (XO (XI
    (XO (XI (XI (XO (XO (XO (XI (XI (XI (XO (XI (XI (XO (XO (XI (XI (XO (XO
    (XO (XO (XI (XI (XO (XO (XO
    XH)))))))))))))))))))))))))))))))))))))))))))))))))))))))))))))) :: ((Npos
    (XO (XI (XO (XI (XI (XO (XI (XO (XI (XO (XI (XI (XO (XI (XI (XO (XI (XI
    (XI (XI (XI (XO (XI (XI (XI (XO (XI (XI (XO (XI (XI (XI (XI (XO (XO (XO
    (XO (XI (XO (XO (XI (XO (XO (XO (XO (XO (XI (XO (XI (XI (XO (XO (XO (XI
    (XO (XO (XI (XI (XO (XI (XO (XO (XI
    XH)))))))))))))))))))))))))))))))))))))))))))))))))))))))))))))))) :: ((Npos
    (XI (XO (XI (XO (XI (XI (XI (XO (XI (XO (XI (XI (XI (XI (XO (XO (XO (XI
    (XI (XI (XO (XI (XO (XO (XI (XI (XI (XO (XO (XI (XO (XI (XI (XI (XI (XO
    (XI (XI (XO (XO (XO (XO (XI (XO (XO (XI (XI (XI (XI (XI (XI (XO (XI (XI
    (XO (XO (XI (XI (XO (XI (XI (XI (XI
    XH)))))))))))))))))))))))))))))))))))))))))))))))))))))))))))))))) :: ((Npos
    (XI (XI (XI (XO (XI (XI (XO (XI (XI (XO (XI (XO (XO (XI (XI (XI (XI (XI
    (XI (XO (XI (XI (XI (XO (XO (XI (XI (XO (XI (XI (XI (XO (XI (XO (XI (XO
    (XO (XI (XI (XO (XO (XI (XI (XI (XI (XO (XI (XO (XI (XO (XI (XO (XO (XI
    (XI (XO (XO (XO (XI (XO (XI (XO
    XH))))))))))))))))))))))))))))))))))))))))))))))))))))))))))))))) :: ((Npos
    (XO (XI (XI (XI (XI (XI (XI (XO (XO (XO (XO (XI (XO (XI (XI (XI (XO (XO
    (XO (XO (XI (XO (XI (XO (XI (XI (XI (XI (XO (XO (XI (XO (XO (XO (XO (XO
    (XO (XO (XO (XI (XO (XO (XI (XI (XO (XO (XO (XO (XI (XO (XO (XI (XI (XO
    (XO (XO (XI (XI (XI (XI (XO (XI (XO
    XH)))))))))))))))))))))))))))))))))))))))))))))))))))))))))))))))) :: ((Npos
    (XO (XI (XI (XI (XO (XO (XI (XO (XO (XO (XO (XI (XO (XI (XO (XO (XO (XO
    (XI (XI (XO (XI (XO (XO (XI (XO (XO (XI (XI (XI (XO (XI (XO (XI (XI (XI
    (XI (XI (XI (XI (XO (XO (XI (XO (XO (XI (XO (XI (XI (XO (XI (XO (XI (XI
    (XI (XI (XI (XO (XO (XI (XI (XO (XO
    XH)))))))))))))))))))))))))))))))))))))))))))))))))))))))))))))))) :: ((Npos
    (XO (XO (XO (XI (XI (XI (XO (XO (XI (XI (XI (XI (XO (XO (XO (XO (XI (XI
    (XO (XO (XI (XO (XO (XI (XI (XO (XI (XO (XO (XI (XI (XO (XO (XI (XO (XO
    (XI (XO (XI (XO (XI (XI (XO (XI (XI (XI (XI (XO (XI (XO (XO (XI (XI (XI
    (XO (XO (XI (XI (XO (XI (XO (XI (XI
    XH)))))))))))))))))))))))))))))))))))))))))))))))))))))))))))))))) :: ((Npos
    (XO (XI (XI (XI (XI (XO (XI (XO (XI (XO (XO (XI (XO (XI (XO (XI (XO (XO
    (XO (XI (XI (XO (XO (XI (XO (XI (XO (XO (XI (XI (XO (XO (XO (XI (XI (XO
    (XI (XO (XO (XO (XO (XI (XO (XI (XO (XI (XI (XI (XI (XI (XO (XI (XO (XO
    (XI (XO (XI (XI (XO (XO (XI (XO (XO
    XH)))))))))))))))))))))))))))))))))))))))))))))))))))))))))))))))) :: ((Npos
    (XO (XI (XI (XO (XO (XI (XI (XI (XO (XO (XO (XO (XO (XO (XI (XO (XI (XI
    (XI (XO (XO (XI (XO (XI (XI (XI (XO (XO (XI (XO (XO (XO (XO (XO (XO (XO
    (XO (XI (XO (XO (XI (XI (XO (XI (XO (XO (XO (XI (XO (XI (XO (XO (XI (XI
    (XO (XO (XO (XI (XI (XI (XO (XI
    XH))))))))))))))))))))))))))))))))))))))))))))))))))))))))))))))) :: ((Npos
    (XO (XO (XO (XI (XO (XI (XO (XO (XO (XI (XI (XI (XI (XI (XO (XO (XI (XO
    (XI (XO (XI (XI (XO (XI (XO (XO (XO (XI (XI (XO (XO (XI (XI (XO (XO (XO
    (XO (XO (XI (XI (XI (XI (XI (XO (XI (XO (XI (XO (XI (XO (XO (XI (XI (XI
    (XI (XI (XO (XO (XO (XO (XI (XI (XO
    XH)))))))))))))))))))))))))))))))))))))))))))))))))))))))))))))))) :: ((Npos
    (XO (XI (XO (XO (XI (XO (XI (XI (XI (XI (XO (XO (XI (XI (XO (XO (XO (XI
    (XO (XO (XO (XO (XO (XO (XO (XO (XO (XO (XI (XO (XO (XI (XI (XO (XI (XI
    (XI (XO (XO (XO (XI (XO (XI (XI (XO (XI (XO (XI (XO (XO (XO (XO (XI (XI
    (XO (XI (XO (XO (XO (XI (XI (XO
    XH))))))))))))))))))))))))))))))))))))))))))))))))))))))))))))))) :: ((Npos
    (XO (XO (XO (XI (XO (XI (XI (XI (XO (XO (XO (XO (XO (XI (XO (XI (XO (XI
    (XO (XI (XO (XO (XI (XO (XI (XI (XO (XI (XO (XO (XO (XI (XI (XO (XO (XI
    (XO (XO (XO (XI (XO (XO (XO (XI (XO (XI (XO (XO (XI (XO (XI (XO (XI (XI
    (XI (XO (XO (XI (XI (XO (XI
    XH)))))))))))))))))))))))))))))))))))))))))))))))))))))))))))))) :: ((Npos
    (XI (XI (XO (XO (XI (XI (XI (XO (XI (XI (XI (XO (XO (XO (XI (XO (XI (XI
    (XO (XO (XI (XO (XO (XO (XI (XI (XO (XI (XI (XI (XI (XI (XI (XO (XO (XI
    (XI (XO (XI (XI (XI (XO (XI (XO (XI (XI (XI (XO (XO (XI (XO (XO (XO (XO
    (XI (XO (XI (XI (XO (XI (XI (XI (XI
    XH)))))))))))))))))))))))))))))))))))))))))))))))))))))))))))))))) :: ((Npos
    (XI (XI (XI (XO (XI (XI (XO (XO (XI (XI (XO (XO (XI (XO (XI (XI (XO (XO
    (XI (XO (XO (XI (XI (XO (XO (XO (XO (XI (XO (XO (XI (XO (XI (XO (XI (XO
    (XI (XO (XO (XO (XO (XO (XI (XI (XO (XI (XI (XO (XO (XI (XO (XI (XO (XI
    (XO (XI (XO (XI (XI (XI (XO (XI
    XH))))))))))))))))))))))))))))))))))))))))))))))))))))))))))))))) :: ((Npos
    (XI (XO (XO (XI (XI (XO (XO (XI (XI (XO (XI (XI (XO (XI (XI (XO (XO (XI
    (XO (XO (XI (XO (XO (XO (XO (XI (XO (XI (XI (XO (XO (XO (XO (XO (XO (XI
    (XI (XI (XO (XO (XO (XO (XI (XI (XO (XI (XI (XO (XI (XO (XI (XO (XI (XI
    (XO (XI (XO (XO (XO (XI (XO (XO
    XH))))))))))))))))))))))))))))))))))))))))))))))))))))))))))))))) :: ((Npos
    (XO (XI (XO (XI (XO (XO (XI (XO (XO (XO (XO (XO (XI (XO (XI (XO (XI (XO
    (XI (XO (XO (XI (XO (XI (XI (XO (XI (XO (XO (XO (XI (XO (XI (XO (XO (XO
    (XI (XO (XI (XI (XI (XI (XO (XI (XI (XO (XI (XO (XO (XO (XO (XO (XO (XO
    (XI (XO (XI (XI (XI (XO (XO (XI (XO
    XH)))))))))))))))))))))))))))))))))))))))))))))))))))))))))))))))) :: ((Npos
    (XO (XO (XI (XI (XO (XI (XO (XI (XI (XI (XO (XI (XO (XI (XO (XI (XI (XI
    (XI (XO (XI (XI (XO (XO (XO (XI (XO (XO (XI (XI (XO (XI (XI (XI (XI (XI
    (XO (XI (XO (XI (XO (XO (XI (XO (XO (XO (XO (XI (XI (XO (XI (XI (XI (XO
    (XI (XO (XO (XO (XO (XO (XO (XO
    XH))))))))))))))))))))))))))))))))))))))))))))))))))))))))))))))) :: ((Npos
    (XI (XO (XO (XO (XO (XO (XO (XO (XI (XO (XI (XO (XO (XI (XI (XO (XO (XO
    (XO (XI (XO (XI (XI (XI (XO (XO (XI (XI (XO (XI (XI (XI (XI (XO (XI (XI
    (XO (XI (XO (XI (XI (XO (XO (XO (XO (XI (XO (XI (XO (XO (XO (XI (XI (XO
    (XO (XI (XI (XI (XO (XO (XI (XI (XI
    XH)))))))))))))))))))))))))))))))))))))))))))))))))))))))))))))))) :: ((Npos
    (XI (XI (XI (XO (XO (XI (XI (XI (XI (XO (XO (XO (XI (XO (XO (XO (XI (XO
    (XO (XO (XI (XO (XI (XO (XI (XO (XI (XO (XO (XO (XO (XO (XO (XI (XO (XO
    (XI (XO (XI (XI (XO (XI (XI (XI (XI (XI (XI (XO (XI (XI (XI (XO (XO (XO
    (XI (XO (XO (XI (XI (XO (XI (XO (XI
    XH)))))))))))))))))))))))))))))))))))))))))))))))))))))))))))))))) :: ((Npos
    (XI (XO (XO (XO (XO (XO (XI (XO (XI (XO (XI (XO (XO (XO (XI (XO (XI (XO
    (XO (XO (XI (XO (XI (XO (XO (XO (XO (XI (XO (XI (XO (XI (XI (XI (XI (XO
    (XO (XO (XO (XO (XI (XO (XI (XI (XO (XI (XO (XI (XO (XI (XO (XI (XO (XI
    (XI (XO (XO (XI (XO (XO (XO (XI (XO
    XH)))))))))))))))))))))))))))))))))))))))))))))))))))))))))))))))) :: ((Npos
    (XO (XO (XO (XI (XI (XI (XO (XI (XO (XO (XO (XI (XO (XI (XI (XI (XO (XI
    (XO (XI (XO (XO (XO (XI (XO (XO (XO (XO (XO (XO (XO (XO (XO (XI (XI (XI
    (XI (XO (XO (XI (XI (XO (XI (XI (XI (XI (XI (XO (XI (XO (XO (XO (XI (XI
    (XO (XI (XO (XI (XO (XI (XI (XO (XO
    XH)))))))))))))))))))))))))))))))))))))))))))))))))))))))))))))))) :: ((Npos
    (XO (XO (XI (XI (XI (XI (XI (XI (XO (XO (XO (XI (XI (XI (XI (XI (XO (XO
    (XO (XI (XO (XO (XI (XO (XI (XO (XO (XI (XO (XI (XO (XO (XI (XI (XO (XO
    (XO (XI (XI (XI (XI (XO (XO (XI (XI (XO (XO (XI (XI (XI (XI (XO (XO (XO
    (XO (XI (XI (XI (XI (XO (XI (XO
    XH))))))))))))))))))))))))))))))))))))))))))))))))))))))))))))))) :: [])))))))))))))))))))))))))))))))))))))))))))))))))))))))))))))))) :: (((Npos
    (XO (XO (XI (XO (XI (XI (XO (XI (XI (XO (XI (XO (XI (XI (XO (XO (XO (XO
    (XI (XO (XI (XI (XI (XI (XI (XO (XI (XI (XI (XI (XO (XI (XI (XI (XI (XI
    (XO (XO (XO (XI (XI (XO (XO (XO (XO (XO (XI (XI (XI (XI (XO (XO (XO (XI
    (XO (XI (XI (XI (XI (XI
    XH))))))))))))))))))))))))))))))))))))))))))))))))))))))))))))) :: ((Npos
    (XO (XI (XO (XO (XI (XI (XO (XI (XO (XO (XI (XI (XO (XI (XO (XI (XO (XI
    (XO (XI (XI (XO (XO (XI (XI (XO (XI (XI (XI (XI (XI (XI (XO (XI (XI (XO
    (XI (XO (XO (XI (XO (XI (XO (XO (XO (XO (XI (XO (XO (XI (XO (XO (XI (XO
    (XI (XI (XI (XI (XI (XO
    XH))))))))))))))))))))))))))))))))))))))))))))))))))))))))))))) :: ((Npos
    (XO (XI (XI (XO (XO (XI (XO (XO (XI (XO (XO (XO (XO (XO (XI (XO (XO (XI
    (XI (XO (XI (XI (XO (XO (XO (XO (XO (XO (XI (XO (XI (XI (XO (XI (XI (XO
    (XO (XO (XI (XO (XO (XI (XO (XO (XI (XI (XI (XI (XI (XO (XO (XO (XI (XI
    (XO (XO (XO (XO (XI (XO (XI (XI (XI
    XH)))))))))))))))))))))))))))))))))))))))))))))))))))))))))))))))) :: ((Npos
    (XO (XI (XO (XO (XO (XI (XO (XO (XO (XO (XI (XO (XI (XI (XI (XO (XI (XI
    (XI (XO (XO (XO (XO (XO (XO (XO (XO (XI (XO (XO (XO (XO (XO (XO (XO (XO
    (XO (XI (XO (XO (XO (XI (XO (XI (XI (XI (XI (XO (XO (XO (XO (XI (XO (XI
    (XI (XI (XO (XO (XO (XO (XO (XI
    XH))))))))))))))))))))))))))))))))))))))))))))))))))))))))))))))) :: ((Npos
    (XI (XO (XI (XO (XI (XI (XO (XI (XI (XI (XI (XO (XO (XI (XI (XI (XO (XI
    (XI (XI (XI (XO (XI (XI (XO (XI (XO (XI (XI (XI (XI (XI (XO (XI (XI (XO
    (XO (XO (XI (XO (XO (XO (XI (XI (XO (XI (XO (XI (XI (XI (XI (XI (XI (XI
    (XI (XI (XI (XO (XO (XI (XI (XO
    XH))))))))))))))))))))))))))))))))))))))))))))))))))))))))))))))) :: ((Npos
    (XO (XO (XO (XO (XO (XI (XI (XO (XI (XO (XO (XI (XO (XI (XO (XO (XO (XI
    (XI (XI (XO (XI (XI (XI (XI (XO (XI (XO (XO (XI (XI (XO (XO (XO (XO (XI
    (XO (XO (XI (XO (XO (XO (XI (XI (XO (XI (XI (XO (XO (XI (XO (XO (XO (XI
    (XI (XI (XI (XI (XO (XI (XI (XO
    XH))))))))))))))))))))))))))))))))))))))))))))))))))))))))))))))) :: ((Npos
    (XI (XO (XI (XI (XI (XI (XO (XO (XO (XI (XI (XO (XI (XI (XI (XO (XI (XO
    (XO (XO (XI (XI (XI (XI (XI (XO (XO (XO (XO (XO (XI (XO (XI (XI (XI (XO
    (XO (XI (XO (XI (XI (XI (XO (XI (XO (XI (XI (XO (XO (XO (XI (XO (XO (XI
    (XI (XO (XI (XI (XO (XI (XI
    XH)))))))))))))))))))))))))))))))))))))))))))))))))))))))))))))) :: ((Npos
    (XO (XO (XO (XO (XI (XI (XO (XI (XO (XI (XO (XI (XO (XI (XO (XO (XI (XO
    (XI (XI (XO (XI (XI (XO (XO (XI (XO (XO (XI (XO (XI (XI (XO (XI (XI (XI
    (XO (XI (XO (XO (XO (XI (XO (XO (XO (XO (XO (XI (XI (XO (XI (XI (XO (XO
    (XO (XO (XO (XI (XO (XO (XI (XO
    XH))))))))))))))))))))))))))))))))))))))))))))))))))))))))))))))) :: ((Npos
    (XO (XI (XI (XO (XI (XI (XO (XO (XO (XI (XI (XI (XO (XI (XO (XO (XO (XO
    (XO (XO (XO (XO (XI (XI (XI (XO (XO (XO (XI (XO (XO (XI (XO (XO (XO (XO
    (XO (XO (XO (XI (XO (XI (XO (XO (XO (XO (XO (XO (XO (XO (XI (XI (XO (XO
    (XO (XO (XI (XI (XO (XI (XO
    XH)))))))))))))))))))))))))))))))))))))))))))))))))))))))))))))) :: ((Npos
    (XO (XI (XO (XI (XI (XI (XI (XO (XO (XI (XO (XI (XO (XO (XO (XI (XO (XO
    (XO (XI (XO (XI (XI (XI (XI (XO (XO (XI (XO (XI (XI (XO (XI (XO (XO (XO
    (XI (XI (XO (XI (XO (XI (XO (XO (XI (XI (XI (XO (XO (XO (XI (XO (XI (XI
    (XO (XO (XI (XI (XO (XI
    XH))))))))))))))))))))))))))))))))))))))))))))))))))))))))))))) :: ((Npos
    (XI (XO (XO (XI (XI (XI (XO (XI (XI (XO (XI (XI (XO (XI (XO (XO (XO (XI
    (XO (XO (XI (XO (XI (XI (XO (XI (XI (XO (XO (XO (XI (XO (XI (XI (XO (XO
    (XI (XI (XI (XO (XO (XO (XO (XI (XO (XO (XO (XO (XI (XO (XI (XI (XO (XO
    (XO (XO (XI (XO (XI (XO (XO (XO
    XH))))))))))))))))))))))))))))))))))))))))))))))))))))))))))))))) :: ((Npos
    (XO (XI (XO (XO (XO (XI (XI (XO (XI (XO (XO (XI (XI (XI (XO (XI (XI (XO
    (XO (XO (XO (XO (XO (XO (XO (XO (XI (XI (XO (XI (XO (XI (XO (XI (XO (XI
    (XI (XI (XI (XI (XI (XO (XO (XO (XO (XO (XO (XI (XI (XO (XI (XO (XO (XI
    (XO (XO (XO (XI (XO (XI (XO (XI
    XH))))))))))))))))))))))))))))))))))))))))))))))))))))))))))))))) :: ((Npos
    (XI (XO (XI (XI (XO (XO (XO (XI (XO (XO (XI (XI (XO (XI (XO (XO (XI (XO
    (XI (XI (XI (XI (XO (XI (XO (XI (XI (XI (XI (XI (XI (XO (XI (XO (XI (XO
    (XI (XO (XI (XO (XI (XO (XO (XO (XO (XI (XO (XO (XO (XI (XO (XO (XO (XO
    (XI (XO (XO (XO (XO (XI (XO (XO (XO
    XH)))))))))))))))))))))))))))))))))))))))))))))))))))))))))))))))) :: ((Npos
    (XI (XI (XO (XI (XO (XO (XI (XO (XO (XO (XO (XI (XI (XO (XO (XI (XO (XI
    (XO (XO (XO (XI (XO (XI (XI (XO (XO (XI (XO (XI (XO (XI (XO (XI (XI (XO
    (XI (XI (XO (XO (XO (XI (XO (XI (XI (XI (XI (XO (XO (XI (XO (XO (XO (XO
    (XI (XI (XO (XO (XO (XI
    XH))))))))))))))))))))))))))))))))))))))))))))))))))))))))))))) :: ((Npos
    (XO (XO (XO (XO (XI (XO (XI (XO (XO (XI (XI (XI (XO (XO (XO (XI (XI (XO
    (XO (XO (XO (XO (XO (XI (XI (XO (XO (XI (XI (XO (XI (XO (XI (XO (XO (XO
    (XI (XO (XO (XI (XI (XI (XI (XO (XO (XI (XO (XI (XO (XI (XI (XI (XO (XO
    (XO (XO (XO (XO (XO (XO (XI (XI (XO
    XH)))))))))))))))))))))))))))))))))))))))))))))))))))))))))))))))) :: ((Npos
    (XO (XO (XO (XI (XI (XI (XO (XI (XI (XI (XI (XI (XO (XI (XI (XO (XI (XO
    (XO (XO (XO (XO (XO (XI (XI (XO (XI (XO (XO (XI (XO (XI (XO (XI (XO (XO
    (XI (XI (XO (XO (XI (XI (XI (XO (XO (XO (XI (XO (XI (XI (XO (XO (XI (XO
    (XI (XI (XI (XO (XO (XO (XI (XO (XO
    XH)))))))))))))))))))))))))))))))))))))))))))))))))))))))))))))))) :: ((Npos
    (XI (XI (XI (XI (XI (XO (XO (XI (XO (XI (XO (XI (XI (XI (XO (XI (XI (XO
    (XO (XO (XI (XI (XI (XO (XI (XI (XI (XO (XI (XO (XO (XO (XI (XI (XI (XI
    (XO (XI (XI (XO (XO (XO (XI (XO (XO (XO (XI (XO (XO (XO (XI (XO (XO (XI
    (XI (XI (XI (XO (XI (XO (XI (XI
    XH))))))))))))))))))))))))))))))))))))))))))))))))))))))))))))))) :: ((Npos
    (XO (XI (XI (XI (XO (XI (XI (XI (XO (XO (XI (XO (XI (XO (XI (XO (XO (XI
    (XI (XO (XI (XI (XI (XI (XI (XO (XI (XO (XI (XI (XO (XI (XO (XI (XI (XI
    (XI (XI (XO (XO (XI (XI (XO (XI (XI (XI (XI (XI (XO (XI (XI (XO (XI (XO
    (XI (XO (XI (XO (XI (XO (XI
    XH)))))))))))))))))))))))))))))))))))))))))))))))))))))))))))))) :: ((Npos
    (XO (XO (XI (XO (XI (XO (XI (XO (XI (XI (XI (XI (XI (XO (XO (XI (XO (XO
    (XI (XI (XO (XO (XO (XO (XI (XO (XO (XO (XO (XI (XO (XI (XI (XI (XO (XO
    (XI (XO (XI (XI (XO (XO (XI (XO (XO (XO (XI (XO (XI (XO (XO (XI (XI (XO
    (XI (XI (XO (XI
    XH))))))))))))))))))))))))))))))))))))))))))))))))))))))))))) :: ((Npos
    (XO (XI (XI (XO (XI (XI (XO (XO (XO (XI (XO (XO (XI (XI (XO (XO (XI (XI
    (XI (XO (XO (XI (XI (XI (XO (XI (XI (XO (XO (XI (XO (XI (XO (XI (XO (XO
    (XI (XI (XO (XI (XI (XI (XO (XI (XI (XO (XO (XO (XO (XI (XI (XO (XO (XO
    (XI (XI (XO (XI (XI (XO (XO (XI (XI
    XH)))))))))))))))))))))))))))))))))))))))))))))))))))))))))))))))) :: ((Npos
    (XI (XO (XI (XI (XI (XI (XI (XI (XO (XO (XI (XI (XI (XO (XI (XO (XO (XO
    (XO (XO (XI (XI (XO (XO (XI (XO (XI (XI (XI (XO (XI (XI (XI (XO (XO (XO
    (XI (XI (XO (XI (XI (XI (XI (XI (XI (XO (XI (XI (XO (XO (XI (XO (XO (XO
    (XI (XI (XO (XO
    XH))))))))))))))))))))))))))))))))))))))))))))))))))))))))))) :: ((Npos
    (XI (XO (XO (XO (XO (XO (XI (XI (XI (XI (XO (XO (XI (XO (XI (XO (XO (XO
    (XO (XI (XI (XI (XI (XO (XO (XO (XI (XI (XO (XO (XO (XO (XO (XO (XO (XO
    (XO (XO (XO (XI (XO (XO (XO (XO (XO (XO (XO (XO (XO (XI (XO (XO (XI (XO
    (XI (XO (XO (XO (XI (XO (XI (XO (XO
    XH)))))))))))))))))))))))))))))))))))))))))))))))))))))))))))))))) :: ((Npos
    (XO (XI (XO (XI (XO (XI (XO (XO (XI (XI (XO (XI (XO (XI (XI (XO (XI (XI
    (XO (XO (XO (XO (XI (XI (XO (XO (XO (XI (XO (XI (XO (XI (XI (XI (XO (XI
    (XI (XI (XI (XO (XI (XO (XI (XO (XO (XI (XI (XI (XO (XI (XO (XI (XI (XO
    (XO (XO (XO (XO (XI (XO (XI (XO (XO
    XH)))))))))))))))))))))))))))))))))))))))))))))))))))))))))))))))) :: ((Npos
    (XO (XO (XO (XO (XI (XO (XI (XO (XO (XO (XO (XI (XI (XO (XI (XI (XI (XI
    (XO (XO (XO (XI (XO (XO (XO (XO (XO (XO (XI (XO (XO (XI (XI (XI (XO (XO
    (XI (XO (XI (XO (XI (XO (XO (XI (XO (XO (XI (XO (XO (XO (XI (XO (XI (XO
    (XI (XO (XI (XI (XO (XI (XO (XO
    XH))))))))))))))))))))))))))))))))))))))))))))))))))))))))))))))) :: ((Npos
    (XI (XO (XO (XO (XO (XI (XI (XI (XO (XO (XO (XO (XI (XI (XI (XO (XI (XI
    (XO (XI (XI (XI (XO (XI (XO (XO (XI (XI (XO (XI (XI (XI (XI (XI (XI (XO
    (XI (XO (XO (XI (XO (XO (XO (XO (XO (XO (XI (XO (XI (XI (XI (XI (XI (XI
    (XO (XI (XI
    XH)))))))))))))))))))))))))))))))))))))))))))))))))))))))))) :: ((Npos
    (XI (XO (XO (XO (XO (XI (XO (XO (XI (XO (XO (XI (XI (XO (XI (XO (XI (XI
    (XI (XI (XO (XO (XO (XO (XI (XI (XI (XI (XI (XI (XO (XO (XO (XI (XO (XI
    (XO (XI (XI (XO (XI (XI (XO (XI (XO (XI (XI (XO (XI (XI (XO (XI (XI (XI
    (XI (XO (XO (XO (XO (XO
    XH))))))))))))))))))))))))))))))))))))))))))))))))))))))))))))) :: ((Npos
    (XO (XI (XI (XI (XO (XO (XO (XO (XO (XO (XO (XI (XI (XI (XI (XI (XO (XI
    (XI (XO (XO (XO (XI (XO (XI (XI (XO (XO (XI (XI (XI (XO (XO (XO (XO (XO
    (XO (XI (XO (XO (XI (XI (XO (XO (XI (XI (XI (XO (XO (XI (XI (XO (XO (XI
    (XO (XI (XI (XO (XI (XO (XO (XI (XI
    XH)))))))))))))))))))))))))))))))))))))))))))))))))))))))))))))))) :: ((Npos
    (XI (XO (XO (XI (XI (XO (XO (XI (XI (XI (XO (XO (XO (XO (XO (XI (XO (XI
    (XI (XI (XI (XI (XO (XO (XI (XO (XI (XO (XI (XI (XI (XI (XI (XO (XI (XO
    (XO (XI (XI (XI (XO (XO (XO (XO (XO (XO (XI (XO (XI (XO (XO (XO (XI (XO
    (XO (XI (XI (XO (XO (XO (XO (XI
    XH))))))))))))))))))))))))))))))))))))))))))))))))))))))))))))))) :: ((Npos
    (XI (XI (XO (XO (XO (XO (XO (XO (XI (XI (XO (XI (XI (XI (XO (XO (XO (XI
    (XO (XI (XO (XO (XI (XO (XO (XI (XO (XO (XO (XO (XO (XO (XO (XO (XO (XO
    (XO (XI (XI (XO (XO (XI (XO (XI (XO (XO (XO (XI (XO (XO (XI (XO (XI (XO
    (XO (XI (XI (XO (XO (XI (XO (XO (XI
    XH)))))))))))))))))))))))))))))))))))))))))))))))))))))))))))))))) :: ((Npos
    (XI (XI (XI (XO (XI (XO (XO (XO (XO (XO (XI (XO (XO (XI (XO (XI (XI (XO
    (XO (XO (XO (XO (XO (XI (XI (XO (XO (XO (XO (XI (XO (XO (XO (XO (XI (XI
    (XI (XO (XO (XI (XO (XI (XI (XI (XI (XI (XO (XO (XI (XO (XO (XO (XO (XI
    (XI (XI (XO (XO (XO (XO (XI (XI (XO
    XH)))))))))))))))))))))))))))))))))))))))))))))))))))))))))))))))) :: ((Npos
    (XI (XI (XI (XI (XO (XI (XI (XI (XO (XI (XO (XO (XI (XO (XI (XI (XI (XI
    (XI (XO (XO (XO (XI (XI (XO (XO (XO (XO (XO (XI (XI (XO (XO (XI (XO (XI
    (XO (XO (XI (XO (XI (XI (XO (XO (XO (XO (XI (XI (XI (XO (XO (XI (XO (XO
    (XI (XO (XO (XI (XO (XI (XI (XO (XI
    XH)))))))))))))))))))))))))))))))))))))))))))))))))))))))))))))))) :: ((Npos
    (XI (XO (XO (XI (XO (XO (XO (XI (XI (XI (XO (XI (XI (XO (XO (XO (XO (XI
    (XO (XO (XI (XI (XI (XI (XO (XI (XO (XO (XO (XO (XO (XI (XO (XI (XI (XO
    (XI (XO (XO (XO (XI (XI (XI (XI (XI (XO (XO (XO (XO (XI (XO (XI (XI (XI
    (XI (XO (XI (XO (XI (XO (XI (XI (XO
    XH)))))))))))))))))))))))))))))))))))))))))))))))))))))))))))))))) :: ((Npos
    (XO (XO (XO (XO (XI (XO (XI (XI (XO (XI (XO (XO (XI (XI (XI (XI (XI (XI
    (XO (XI (XO (XI (XO (XI (XI (XI (XI (XO (XI (XI (XI (XO (XI (XO (XO (XI
    (XI (XO (XO (XO (XI (XO (XO (XI (XO (XO (XO (XO (XO (XO (XI (XO (XO (XO
    XH))))))))))))))))))))))))))))))))))))))))))))))))))))))) :: ((Npos (XI
    (XO (XO (XI (XO (XI (XO (XI (XO (XO (XI (XI (XI (XI (XO (XI (XI (XI (XI
    (XI (XO (XI (XO (XO (XO (XO (XI (XI (XI (XO (XI (XO (XO (XO (XO (XO (XO
    (XI (XI (XI (XO (XI (XI (XI (XO (XO (XI (XO (XI (XO (XO (XI (XI (XI (XI
    (XO (XI (XO (XO (XI (XO (XO
    XH))))))))))))))))))))))))))))))))))))))))))))))))))))))))))))))) :: ((Npos
    (XI (XO (XI (XI (XI (XO (XO (XO (XO (XI (XI (XI (XI (XO (XO (XO (XO (XO
    (XI (XO (XO (XI (XI (XO (XI (XI (XI (XI (XI (XO (XI (XO (XI (XI (XI (XI
    (XO (XO (XO (XO (XI (XI (XI (XI (XI (XO (XI (XO (XO (XI (XO (XO (XI (XI
    (XI (XI (XI (XI (XI (XO (XO
    XH)))))))))))))))))))))))))))))))))))))))))))))))))))))))))))))) :: ((Npos
    (XO (XO (XI (XO (XI (XO (XI (XO (XI (XO (XO (XI (XO (XI (XO (XO (XI (XO
    (XO (XI (XI (XI (XO (XO (XI (XI (XI (XO (XO (XO (XI (XO (XI (XO (XO (XI
    (XI (XO (XI (XI (XO (XO (XI (XI (XO (XI (XO (XO (XI (XI (XO (XO (XO (XO
    (XI (XI (XI (XI (XO (XO (XI (XI
    XH))))))))))))))))))))))))))))))))))))))))))))))))))))))))))))))) :: ((Npos
    (XO (XI (XO (XO (XI (XO (XO (XI (XI (XO (XI (XI (XO (XO (XO (XO (XI (XI
    (XO (XO (XI (XI (XO (XI (XO (XO (XI (XI (XI (XO (XO (XO (XO (XO (XI (XI
    (XI (XO (XO (XI (XO (XI (XO (XI (XO (XI (XO (XI (XO (XO (XI (XO (XO (XO
    (XI (XO (XO (XO (XO (XI (XI (XO
    XH))))))))))))))))))))))))))))))))))))))))))))))))))))))))))))))) :: ((Npos
    (XI (XI (XI (XO (XI (XO (XO (XO (XO (XO (XO (XI (XI (XO (XO (XI (XO (XI
    (XI (XI (XO (XO (XI (XO (XI (XO (XO (XI (XI (XO (XO (XI (XI (XI (XO (XI
    (XO (XI (XO (XI (XI (XO (XO (XI (XO (XO (XI (XI (XO (XI (XI (XI (XI (XI
    (XI (XI (XO (XI (XI (XI
    XH))))))))))))))))))))))))))))))))))))))))))))))))))))))))))))) :: ((Npos
    (XO (XO (XI (XI (XI (XO (XO (XI (XO (XI (XO (XI (XO (XO (XO (XO (XI (XO
    (XO (XI (XO (XO (XI (XI (XI (XI (XI (XO (XO (XO (XI (XI (XO (XI (XO (XO
    (XO (XO (XI (XI (XO (XI (XI (XO (XO (XI (XI (XI (XI (XO (XI (XI (XI (XO
    (XO (XO (XO (XO
    XH))))))))))))))))))))))))))))))))))))))))))))))))))))))))))) :: ((Npos
    (XI (XO (XI (XI (XI (XO (XO (XI (XO (XO (XI (XI (XO (XI (XO (XI (XO (XO
    (XI (XI (XI (XO (XI (XI (XI (XI (XI (XI (XI (XI (XI (XI (XO (XO (XI (XI
    (XO (XO (XI (XI (XO (XI (XO (XI (XO (XO (XI (XO (XO (XI (XO (XO (XI (XO
    (XO (XI (XO (XO (XO (XO (XO
    XH)))))))))))))))))))))))))))))))))))))))))))))))))))))))))))))) :: ((Npos
    (XI (XO (XI (XO (XO (XO (XO (XO (XO (XO (XO (XI (XI (XI (XO (XI (XO (XO
    (XI (XO (XO (XO (XO (XO (XI (XO (XI (XO (XI (XO (XO (XI (XO (XO (XI (XI
    (XO (XI (XI (XO (XO (XI (XO (XO (XO (XI (XO (XI (XO (XO (XO (XO (XO (XO
    (XO (XO (XO (XI (XO (XI (XI (XO (XI
    XH)))))))))))))))))))))))))))))))))))))))))))))))))))))))))))))))) :: ((Npos
    (XO (XI (XO (XO (XO (XO (XO (XI (XO (XI (XO (XI (XI (XO (XI (XI (XO (XI
    (XI (XI (XI (XO (XI (XI (XO (XI (XO (XO (XO (XO (XO (XI (XI (XI (XO (XI
    (XI (XI (XI (XO (XI (XO (XO (XO (XO (XI (XO (XO (XO (XI (XO (XI (XI (XO
    (XI (XO (XO (XO (XI (XI (XI (XO (XO
    XH)))))))))))))))))))))))))))))))))))))))))))))))))))))))))))))))) :: ((Npos
    (XI (XO (XI (XO (XO (XO (XO (XO (XI (XO (XO (XO (XI (XO (XI (XI (XI (XI
    (XI (XO (XI (XI (XO (XI (XI (XI (XI (XI (XI (XO (XI (XI (XI (XI (XO (XO
    (XI (XO (XO (XI (XI (XI (XO (XO (XO (XI (XI (XO (XO (XO (XI (XI (XI (XI
    (XI (XI (XO (XO (XO (XI (XI (XI (XO
    XH)))))))))))))))))))))))))))))))))))))))))))))))))))))))))))))))) :: ((Npos
    (XO (XO (XO (XI (XO (XO (XO (XO (XI (XI (XO (XI (XI (XI (XI (XO (XI (XO
    (XO (XO (XO (XI (XI (XO (XO (XI (XO (XO (XI (XI (XO (XI (XO (XO (XI (XO
    (XI (XO (XI (XI (XO (XO (XI (XO (XI (XO (XI (XI (XI (XO (XI (XI (XI (XO
    (XO (XO (XO (XO (XI
    XH)))))))))))))))))))))))))))))))))))))))))))))))))))))))))))) :: ((Npos
    (XI (XI (XO (XI (XO (XO (XO (XO (XO (XO (XO (XO (XO (XO (XO (XO (XO (XO
    (XO (XO (XI (XI (XO (XO (XI (XI (XI (XI (XI (XO (XO (XO (XI (XI (XO (XI
    (XO (XO (XO (XO (XI (XO (XO (XO (XO (XO (XI (XO (XO (XO (XO (XO (XO (XI
    (XI (XI (XI (XO (XO (XO (XI
    XH)))))))))))))))))))))))))))))))))))))))))))))))))))))))))))))) :: ((Npos
    (XO (XI (XO (XI (XI (XI (XI (XO (XO (XI (XI (XO (XO (XO (XI (XI (XO (XI
    (XO (XI (XO (XI (XI (XI (XI (XI (XO (XI (XO (XO (XO (XO (XO (XO (XO (XI
    (XI (XI (XI (XO (XI (XI (XO (XI (XO (XI (XO (XI (XI (XO (XI (XO (XI (XI
    (XO (XI (XI (XO (XI (XO (XI (XI (XO
    XH)))))))))))))))))))))))))))))))))))))))))))))))))))))))))))))))) :: ((Npos
    (XO (XI (XO (XI (XI (XO (XI (XO (XI (XO (XI (XO (XI (XO (XI (XI (XO (XI
    (XI (XI (XO (XO (XO (XO (XO (XO (XI (XO (XI (XO (XI (XI (XI (XO (XI (XO
    (XI (XO (XI (XO (XI (XO (XO (XO (XO (XO (XI (XI (XO (XI (XO (XO (XO (XO
    (XO (XO (XO (XO (XI (XI (XI (XI (XO
    XH)))))))))))))))))))))))))))))))))))))))))))))))))))))))))))))))) :: ((Npos
    (XO (XI (XO (XI (XI (XO (XI (XI (XO (XO (XI (XO (XO (XO (XO (XO (XO (XO
    (XO (XI (XO (XO (XI (XO (XI (XO (XO (XO (XO (XO (XI (XI (XO (XO (XO (XI
    (XI (XO (XO (XI (XI (XO (XI (XO (XI (XI (XI (XO (XI (XO (XO (XI (XI (XI
    (XO (XO (XO (XI (XO (XO (XO (XI (XO
    XH)))))))))))))))))))))))))))))))))))))))))))))))))))))))))))))))) :: ((Npos
    (XI (XO (XI (XO (XO (XO (XO (XI (XI (XO (XO (XI (XO (XI (XO (XI (XO (XO
    (XO (XI (XO (XO (XO (XO (XO (XO (XO (XO (XI (XO (XO (XI (XI (XO (XI (XO
    (XI (XI (XI (XO (XI (XO (XI (XO (XO (XI (XI (XO (XO (XI (XI (XO (XI (XI
    (XO (XI (XO (XO (XO (XI (XI (XI
    XH))))))))))))))))))))))))))))))))))))))))))))))))))))))))))))))) :: ((Npos
    (XO (XI (XO (XO (XO (XI (XI (XI (XI (XO (XI (XI (XI (XO (XI (XO (XO (XI
    (XI (XI (XO (XI (XO (XO (XO (XI (XI (XO (XI (XI (XO (XO (XI (XO (XI (XO
    (XI (XI (XI (XO (XO (XI (XI (XI (XI (XO (XI (XI (XI (XO (XI (XO (XI (XI
    (XI (XO (XO (XO (XI (XI (XO (XI (XI
    XH)))))))))))))))))))))))))))))))))))))))))))))))))))))))))))))))) :: ((Npos
    (XI (XI (XO (XO (XO (XO (XI (XI (XI (XI (XI (XI (XO (XO (XO (XO (XI (XO
    (XO (XI (XI (XI (XO (XI (XO (XI (XI (XI (XI (XO (XI (XO (XO (XI (XI (XI
    (XO (XI (XI (XO (XI (XI (XI (XI (XO (XO (XI (XI (XI (XI (XI (XO (XI (XO
    (XO (XI (XO (XO (XO (XO (XI (XI (XO
    XH)))))))))))))))))))))))))))))))))))))))))))))))))))))))))))))))) :: ((Npos
    (XI (XO (XI (XO (XI (XI (XO (XO (XO (XO (XO (XI (XI (XO (XI (XI (XO (XI
    (XO (XI (XO (XI (XO (XI (XO (XI (XO (XO (XI (XI (XI (XI (XO (XI (XO (XO
    (XI (XI (XI (XI (XO (XO (XO (XO (XI (XI (XI (XI (XO (XO (XO (XO (XI (XO
    (XI (XI (XI (XO (XO (XO (XI (XI (XI
    XH)))))))))))))))))))))))))))))))))))))))))))))))))))))))))))))))) :: ((Npos
    (XO (XI (XI (XO (XO (XI (XO (XO (XI (XI (XI (XI (XO (XI (XO (XO (XI (XI
    (XI (XO (XO (XO (XO (XO (XI (XI (XO (XI (XO (XI (XO (XO (XI (XI (XI (XI
    (XI (XO (XO (XO (XI (XO (XI (XI (XI (XO (XO (XI (XO (XI (XO (XO (XI (XI
    (XO (XI (XO (XI (XO (XI (XO (XO (XI
    XH)))))))))))))))))))))))))))))))))))))))))))))))))))))))))))))))) :: ((Npos
    (XI (XI (XI (XO (XO (XO (XI (XI (XO (XO (XO (XO (XI (XO (XO (XI (XO (XI
    (XI (XI (XI (XI (XO (XI (XO (XI (XO (XO (XI (XI (XI (XI (XI (XO (XO (XO
    (XI (XO (XI (XO (XI (XO (XI (XI (XO (XI (XI (XI (XO (XO (XI (XI (XI (XO
    (XO (XI (XO (XO (XO (XO (XI (XI
    XH))))))))))))))))))))))))))))))))))))))))))))))))))))))))))))))) :: ((Npos
    (XI (XO (XO (XO (XI (XI (XO (XO (XI (XO (XI (XI (XO (XO (XI (XI (XO (XO
    (XO (XI (XI (XI (XI (XO (XO (XI (XI (XI (XO (XI (XI (XO (XO (XO (XO (XO
    (XO (XO (XI (XO (XI (XO (XO (XO (XO (XO (XI (XO (XO (XO (XI (XI (XI (XI
    (XI (XI (XI (XO (XI (XI (XI (XI
    XH))))))))))))))))))))))))))))))))))))))))))))))))))))))))))))))) :: ((Npos
    (XI (XO (XI (XI (XI (XO (XO (XO (XO (XI (XO (XO (XO (XO (XI (XI (XO (XO
    (XO (XO (XO (XO (XO (XO (XI (XO (XI (XI (XO (XI (XI (XO (XI (XO (XO (XI
    (XI (XI (XO (XI (XO (XI (XO (XI (XI (XO (XI (XI (XO (XI (XO (XO (XI (XO
    (XO (XI (XI (XO (XO (XO (XI
    XH)))))))))))))))))))))))))))))))))))))))))))))))))))))))))))))) :: ((Npos
    (XO (XO (XI (XO (XI (XO (XO (XI (XI (XO (XI (XI (XI (XO (XI (XI (XI (XO
    (XI (XO (XO (XO (XO (XI (XI (XO (XO (XO (XO (XO (XI (XI (XI (XO (XO (XI
    (XI (XO (XI (XO (XI (XO (XO (XO (XI (XI (XO (XI (XO (XI (XO (XO (XO (XO
    (XI (XI (XO (XO (XI (XO (XO (XI
    XH))))))))))))))))))))))))))))))))))))))))))))))))))))))))))))))) :: ((Npos
    (XO (XO (XI (XO (XO (XO (XO (XO (XO (XI (XI (XO (XO (XO (XO (XI (XI (XO
    (XO (XI (XI (XI (XO (XI (XO (XI (XI (XI (XO (XI (XO (XO (XO (XO (XI (XO
    (XO (XO (XI (XO (XO (XI (XI (XO (XO (XI (XI (XI (XI (XO (XO (XI (XO (XO
    (XI (XO (XI (XI (XI (XO (XI (XO (XI
    XH)))))))))))))))))))))))))))))))))))))))))))))))))))))))))))))))) :: ((Npos
    (XO (XI (XI (XO (XO (XI (XO (XO (XO (XI (XI (XI (XI (XI (XO (XO (XI (XI
    (XO (XO (XI (XO (XO (XI (XO (XO (XO (XI (XI (XI (XI (XO (XO (XO (XO (XI
    (XO (XI (XI (XO (XO (XO (XI (XI (XO (XI (XO (XO (XO (XO (XO (XO (XI (XO
    (XI (XI (XI (XO (XI (XI (XI (XO
    XH))))))))))))))))))))))))))))))))))))))))))))))))))))))))))))))) :: ((Npos
    (XI (XO (XI (XO (XO (XI (XO (XO (XI (XO (XO (XO (XO (XO (XO (XI (XO (XO
    (XO (XO (XI (XI (XI (XI (XO (XO (XO (XO (XI (XI (XI (XO (XI (XO (XO (XI
    (XI (XO (XO (XI (XO (XO (XI (XI (XO (XO (XI (XI (XI (XI (XO (XO (XI (XI
    (XO (XI (XI (XI (XI (XO (XO (XO (XI
    XH)))))))))))))))))))))))))))))))))))))))))))))))))))))))))))))))) :: ((Npos
    (XI (XO (XI (XI (XI (XI (XO (XI (XI (XI (XI (XO (XI (XO (XI (XO (XI (XO
    (XO (XO (XO (XO (XO (XI (XI (XI (XO (XI (XI (XO (XO (XO (XI (XI (XI (XI
    (XO (XO (XI (XO (XI (XI (XO (XO (XI (XI (XO (XO (XI (XI (XI (XI (XI (XI
    (XO (XI (XI (XO (XO (XI (XO (XI (XO
    XH)))))))))))))))))))))))))))))))))))))))))))))))))))))))))))))))) :: ((Npos
    (XI (XO (XI (XO (XI (XI (XO (XI (XI (XI (XO (XO (XI (XO (XI (XI (XO (XI
    (XO (XO (XI (XI (XI (XI (XO (XO (XI (XO (XI (XO (XO (XO (XI (XI (XO (XI
    (XO (XO (XO (XI (XO (XI (XI (XI (XI (XO (XI (XO (XO (XO (XO (XO (XI (XI
    (XI (XI (XI (XI (XO (XI (XO
    XH)))))))))))))))))))))))))))))))))))))))))))))))))))))))))))))) :: ((Npos
    (XI (XO (XO (XI (XO (XO (XO (XI (XO (XI (XI (XI (XI (XO (XO (XI (XI (XO
    (XI (XI (XO (XI (XO (XI (XO (XI (XO (XO (XI (XI (XO (XI (XO (XI (XI (XO
    (XI (XI (XO (XO (XI (XI (XO (XI (XO (XI (XO (XI (XI (XI (XO (XI (XO (XO
    (XO (XO (XO (XI (XI (XO (XO
    XH)))))))))))))))))))))))))))))))))))))))))))))))))))))))))))))) :: ((Npos
    (XI (XO (XO (XO (XI (XO (XO (XI (XI (XI (XI (XO (XI (XI (XO (XI (XI (XI
    (XO (XI (XI (XI (XO (XI (XO (XO (XO (XO (XO (XO (XO (XO (XI (XI (XO (XO
    (XI (XO (XI (XO (XI (XO (XI (XO (XO (XO (XO (XO (XI (XO (XI (XO (XO (XI
    (XO (XO (XO (XI (XO (XI (XI (XI
    XH))))))))))))))))))))))))))))))))))))))))))))))))))))))))))))))) :: [])))))))))))))))))))))))))))))))))))))))))))))))))))))))))))))))) :: (((Npos
    (XO (XO (XI (XO (XO (XO (XO (XI (XO (XI (XO (XI (XO (XI (XI (XO (XI (XI
    (XI (XI (XI (XI (XO (XO (XI (XI (XI (XI (XO (XI (XO (XO (XI (XI (XI (XO
    (XI (XO (XI (XO (XO (XI (XO (XO (XI (XI (XO (XO (XO (XO (XO (XO (XI (XO
    (XI (XO (XI (XO (XO (XI (XO (XO
    XH))))))))))))))))))))))))))))))))))))))))))))))))))))))))))))))) :: ((Npos
    (XI (XO (XI (XO (XO (XO (XO (XO (XO (XI (XI (XO (XO (XI (XO (XO (XI (XI
    (XO (XI (XI (XI (XI (XI (XI (XI (XO (XI (XO (XI (XO (XI (XO (XI (XI (XI
    (XI (XI (XI (XI (XI (XO (XI (XI (XI (XO (XI (XI (XO (XI (XO (XO (XI (XO
    (XI (XO (XI (XO (XI (XI (XO (XI (XI
    XH)))))))))))))))))))))))))))))))))))))))))))))))))))))))))))))))) :: ((Npos
    (XO (XO (XO (XO (XI (XI (XO (XI (XI (XI (XI (XO (XI (XO (XI (XO (XO (XO
    (XO (XI (XI (XI (XO (XO (XO (XI (XI (XO (XI (XO (XI (XO (XI (XO (XI (XO
    (XO (XI (XO (XO (XO (XO (XI (XO (XO (XI (XI (XO (XI (XO (XI (XO (XI (XO
    (XO (XI (XI (XI (XO (XI (XI (XO
    XH))))))))))))))))))))))))))))))))))))))))))))))))))))))))))))))) :: ((Npos
    (XI (XO (XI (XO (XO (XI (XO (XI (XI (XO (XI (XO (XO (XI (XO (XI (XO (XI
    (XI (XI (XO (XO (XI (XI (XO (XO (XO (XO (XO (XI (XO (XI (XO (XI (XI (XI
    (XI (XI (XI (XI (XO (XI (XI (XO (XI (XI (XI (XI (XO (XO (XI (XI (XO (XO
    (XI (XO (XO (XI (XO (XO (XO (XI (XI
    XH)))))))))))))))))))))))))))))))))))))))))))))))))))))))))))))))) :: ((Npos
    (XI (XI (XO (XI (XI (XO (XO (XI (XI (XO (XI (XI (XO (XO (XO (XI (XI (XI
    (XO (XO (XO (XI (XI (XO (XI (XO (XO (XO (XO (XO (XI (XO (XO (XO (XI (XI
    (XO (XO (XI (XO (XO (XO (XI (XO (XI (XI (XO (XI (XI (XI (XI (XO (XO (XO
    (XI (XI (XO (XI (XO (XI (XI (XO (XO
    XH)))))))))))))))))))))))))))))))))))))))))))))))))))))))))))))))) :: ((Npos
    (XI (XO (XI (XO (XO (XO (XI (XI (XI (XO (XI (XI (XI (XI (XI (XI (XO (XO
    (XO (XI (XI (XI (XO (XO (XI (XI (XI (XO (XO (XI (XO (XO (XO (XO (XO (XO
    (XI (XO (XO (XI (XO (XI (XI (XI (XO (XO (XO (XO (XI (XO (XI (XO (XI (XO
    (XO (XO (XO (XI (XI (XO (XO (XI (XI
    XH)))))))))))))))))))))))))))))))))))))))))))))))))))))))))))))))) :: ((Npos
    (XI (XO (XI (XO (XO (XI (XI (XO (XI (XI (XO (XI (XO (XO (XI (XO (XO (XI
    (XI (XO (XI (XI (XO (XI (XI (XI (XO (XO (XO (XI (XO (XO (XI (XI (XO (XO
    (XI (XO (XI (XO (XI (XO (XI (XI (XO (XI (XI (XI (XO (XI (XI (XI (XO (XO
    (XI (XO (XO (XO (XI (XI (XI (XO
    XH))))))))))))))))))))))))))))))))))))))))))))))))))))))))))))))) :: ((Npos
    (XI (XI (XI (XO (XI (XO (XI (XI (XI (XO (XI (XI (XO (XI (XO (XO (XI (XI
    (XI (XO (XO (XO (XI (XO (XI (XO (XI (XI (XO (XI (XI (XO (XI (XI (XI (XO
    (XI (XI (XO (XI (XO (XI (XI (XO (XI (XO (XO (XO (XO (XI (XI (XO (XI (XO
    (XO (XO (XO (XI (XI (XI (XI (XI
    XH))))))))))))))))))))))))))))))))))))))))))))))))))))))))))))))) :: ((Npos
    (XO (XO (XI (XI (XI (XI (XO (XI (XI (XI (XI (XO (XI (XI (XI (XI (XI (XO
    (XO (XI (XO (XO (XO (XI (XI (XI (XO (XO (XI (XI (XI (XO (XO (XO (XO (XI
    (XO (XO (XO (XI (XI (XI (XO (XO (XO (XO (XI (XI (XI (XI (XI (XO (XI (XI
    (XO (XI (XI (XO (XI (XO (XI (XO
    XH))))))))))))))))))))))))))))))))))))))))))))))))))))))))))))))) :: ((Npos
    (XI (XO (XO (XO (XO (XI (XO (XO (XO (XO (XI (XO (XO (XO (XI (XO (XI (XI
    (XO (XI (XO (XO (XO (XI (XO (XI (XO (XI (XI (XO (XI (XO (XO (XO (XI (XI
    (XI (XI (XI (XO (XI (XI (XO (XI (XO (XI (XI (XI (XI (XO (XO (XI (XO (XO
    (XI (XI (XI (XI (XI (XO (XI (XI (XO
    XH)))))))))))))))))))))))))))))))))))))))))))))))))))))))))))))))) :: ((Npos
    (XI (XO (XO (XO (XO (XI (XI (XO (XI (XO (XI (XO (XI (XO (XO (XO (XI (XO
    (XI (XO (XO (XI (XO (XO (XI (XI (XI (XO (XI (XO (XO (XO (XI (XI (XI (XO
    (XO (XO (XI (XO (XO (XI (XO (XI (XO (XO (XO (XI (XI (XI (XO (XO (XO (XO
    (XI (XO (XO (XI (XO (XI (XI
    XH)))))))))))))))))))))))))))))))))))))))))))))))))))))))))))))) :: ((Npos
    (XO (XO (XO (XO (XI (XI (XO (XO (XO (XI (XI (XI (XI (XI (XI (XI (XO (XI
    (XI (XO (XI (XO (XI (XI (XI (XI (XI (XO (XI (XI (XI (XO (XO (XI (XI (XO
    (XI (XI (XO (XI (XO (XO (XO (XI (XI (XI (XI (XI (XI (XI (XI (XI (XO (XO
    (XO (XO (XI (XO (XO (XO (XO (XO
    XH))))))))))))))))))))))))))))))))))))))))))))))))))))))))))))))) :: ((Npos
    (XO (XI (XI (XI (XI (XO (XI (XI (XI (XI (XI (XO (XI (XI (XI (XO (XI (XI
    (XO (XI (XI (XO (XO (XO (XI (XO (XI (XI (XO (XI (XO (XO (XI (XO (XI (XI
    (XI (XO (XI (XO (XI (XO (XI (XO (XI (XO (XI (XI (XI (XI (XO (XO (XO (XI
    (XO (XI (XO (XO (XO (XI (XI (XI (XI
    XH)))))))))))))))))))))))))))))))))))))))))))))))))))))))))))))))) :: ((Npos
    (XI (XI (XI (XI (XO (XI (XI (XO (XI (XI (XO (XO (XO (XI (XO (XI (XO (XI
    (XO (XI (XO (XI (XO (XO (XO (XO (XI (XO (XO (XI (XI (XO (XI (XO (XI (XO
    (XO (XI (XO (XI (XI (XI (XO (XI (XI (XI (XI (XI (XI (XO (XI (XI (XO (XO
    (XI (XO (XI (XI (XI (XO (XI (XO
    XH))))))))))))))))))))))))))))))))))))))))))))))))))))))))))))))) :: ((Npos
    (XI (XI (XI (XO (XO (XO (XI (XO (XO (XO (XI (XO (XI (XO (XI (XI (XI (XI
    (XO (XI (XI (XO (XO (XI (XO (XI (XI (XI (XO (XO (XO (XI (XO (XI (XI (XI
    (XI (XI (XO (XO (XO (XI (XO (XO (XO (XO (XO (XI (XI (XI (XO (XO (XO (XI
    (XI (XI (XI (XI
    XH))))))))))))))))))))))))))))))))))))))))))))))))))))))))))) :: ((Npos
    (XI (XI (XO (XI (XI (XO (XO (XI (XO (XO (XO (XI (XI (XI (XO (XO (XO (XO
    (XI (XI (XO (XI (XI (XO (XI (XO (XO (XO (XO (XO (XO (XI (XO (XI (XI (XO
    (XI (XI (XO (XI (XI (XI (XO (XI (XO (XO (XO (XO (XI (XO (XO (XI (XI (XO
    (XO (XI (XO (XI (XI (XI (XO (XI (XI
    XH)))))))))))))))))))))))))))))))))))))))))))))))))))))))))))))))) :: ((Npos
    (XO (XO (XO (XO (XO (XO (XO (XO (XO (XO (XI (XI (XI (XI (XI (XO (XO (XO
    (XI (XO (XI (XO (XI (XI (XO (XI (XI (XI (XI (XI (XI (XO (XI (XO (XI (XO
    (XO (XO (XI (XI (XO (XI (XO (XI (XI (XI (XI (XI (XO (XI (XI (XO (XI (XO
    (XI (XI (XO (XI (XO (XI (XO (XO (XI
    XH)))))))))))))))))))))))))))))))))))))))))))))))))))))))))))))))) :: ((Npos
    (XO (XO (XO (XI (XO (XO (XO (XI (XI (XI (XI (XI (XO (XO (XO (XO (XO (XO
    (XO (XI (XI (XO (XI (XI (XI (XO (XI (XI (XI (XO (XO (XO (XI (XI (XI (XI
    (XI (XI (XI (XO (XO (XI (XO (XO (XO (XO (XI (XI (XI (XO (XI (XO (XO (XO
    (XO (XO (XI (XO (XO (XO (XO (XO (XO
    XH)))))))))))))))))))))))))))))))))))))))))))))))))))))))))))))))) :: ((Npos
    (XI (XI (XI (XO (XO (XO (XO (XO (XI (XI (XI (XO (XI (XI (XI (XO (XI (XI
    (XO (XO (XI (XI (XI (XI (XO (XO (XI (XI (XO (XO (XO (XO (XO (XO (XI (XO
    (XI (XI (XO (XO (XO (XO (XO (XI (XO (XO (XI (XO (XO (XI (XO (XI (XO (XI
    (XO (XI (XO (XO (XI (XO (XO
    XH)))))))))))))))))))))))))))))))))))))))))))))))))))))))))))))) :: ((Npos
    (XO (XO (XI (XO (XO (XO (XI (XO (XI (XI (XO (XI (XI (XO (XI (XI (XI (XO
    (XI (XI (XO (XO (XO (XI (XI (XI (XO (XO (XI (XI (XI (XO (XI (XO (XI (XO
    (XI (XO (XI (XO (XO (XO (XO (XI (XO (XI (XO (XI (XO (XO (XO (XO (XI (XO
    (XI (XO (XI (XO (XO (XO (XO (XO (XO
    XH)))))))))))))))))))))))))))))))))))))))))))))))))))))))))))))))) :: ((Npos
    (XO (XO (XI (XO (XI (XO (XO (XO (XO (XI (XO (XI (XO (XI (XO (XO (XO (XI
    (XI (XI (XI (XI (XO (XI (XO (XO (XO (XO (XI (XI (XI (XI (XI (XI (XI (XO
    (XI (XI (XO (XO (XI (XI (XI (XO (XI (XI (XI (XO (XO (XI (XI (XI (XO (XO
    (XO (XO (XI (XI (XI (XI (XI
    XH)))))))))))))))))))))))))))))))))))))))))))))))))))))))))))))) :: ((Npos
    (XI (XI (XI (XI (XI (XI (XO (XI (XI (XO (XI (XI (XI (XO (XI (XO (XO (XO
    (XI (XI (XI (XI (XO (XO (XO (XO (XO (XI (XO (XI (XO (XO (XO (XI (XO (XI
    (XO (XO (XI (XO (XI (XO (XO (XI (XO (XI (XI (XI (XO (XI (XO (XI (XI (XO
    (XO (XO (XO (XI (XO (XI (XI (XI (XI
    XH)))))))))))))))))))))))))))))))))))))))))))))))))))))))))))))))) :: ((Npos
    (XI (XO (XI (XI (XI (XI (XO (XO (XI (XO (XI (XI (XO (XO (XO (XI (XO (XO
    (XO (XO (XI (XI (XI (XO (XO (XO (XI (XI (XI (XO (XI (XI (XO (XI (XI (XI
    (XO (XO (XO (XO (XO (XO (XI (XI (XO (XI (XI (XI (XO (XI (XI (XO (XO (XO
    (XO (XO (XO (XO (XI (XO (XI (XI (XO
    XH)))))))))))))))))))))))))))))))))))))))))))))))))))))))))))))))) :: ((Npos
    (XI (XI (XI (XO (XO (XO (XO (XO (XO (XI (XI (XO (XI (XI (XO (XI (XO (XI
    (XI (XO (XI (XO (XI (XI (XO (XI (XO (XO (XI (XO (XI (XO (XI (XI (XI (XO
    (XO (XI (XI (XI (XI (XI (XO (XO (XI (XI (XI (XI (XI (XO (XI (XI (XI (XI
    (XO (XI
    XH))))))))))))))))))))))))))))))))))))))))))))))))))))))))) :: ((Npos (XI
    (XO (XI (XI (XO (XO (XI (XO (XO (XO (XO (XO (XI (XO (XO (XI (XO (XI (XO
    (XO (XI (XI (XO (XO (XO (XI (XI (XO (XI (XO (XI (XI (XO (XI (XI (XI (XI
    (XI (XI (XO (XI (XI (XO (XI (XO (XI (XI (XI (XI (XI (XI (XO (XO (XO (XI
    (XO (XO (XI (XO (XI (XO (XO (XO
    XH)))))))))))))))))))))))))))))))))))))))))))))))))))))))))))))))) :: ((Npos
    (XO (XI (XI (XI (XO (XI (XO (XO (XO (XO (XI (XO (XI (XO (XO (XI (XO (XI
    (XO (XO (XI (XO (XO (XO (XI (XI (XI (XI (XI (XI (XO (XO (XI (XO (XO (XO
    (XO (XO (XI (XO (XO (XO (XI (XO (XO (XO (XO (XI (XO (XO (XI (XO (XO (XO
    (XO (XI (XI (XO (XI (XO (XO (XI (XI
    XH)))))))))))))))))))))))))))))))))))))))))))))))))))))))))))))))) :: ((Npos
    (XI (XI (XI (XI (XI (XI (XI (XI (XI (XO (XO (XO (XI (XO (XO (XO (XI (XO
    (XO (XO (XI (XI (XI (XO (XI (XO (XO (XI (XO (XO (XO (XI (XO (XI (XO (XI
    (XI (XO (XI (XI (XI (XO (XO (XI (XI (XO (XI (XO (XI (XI (XI (XI (XI (XI
    (XI (XO (XO (XI (XI (XO (XO (XI (XI
    XH)))))))))))))))))))))))))))))))))))))))))))))))))))))))))))))))) :: ((Npos
    (XI (XI (XI (XO (XI (XO (XO (XO (XO (XO (XO (XI (XO (XO (XI (XI (XI (XO
    (XO (XI (XO (XO (XO (XO (XI (XI (XI (XI (XI (XI (XO (XO (XO (XI (XI (XO
    (XO (XI (XI (XO (XI (XO (XO (XI (XI (XI (XI (XI (XO (XO (XO (XO (XI (XI
    (XI (XO (XI (XI (XI (XO (XI (XI (XI
    XH)))))))))))))))))))))))))))))))))))))))))))))))))))))))))))))))) :: ((Npos
    (XI (XI (XI (XI (XO (XO (XO (XO (XO (XO (XO (XI (XO (XI (XO (XI (XI (XI
    (XO (XO (XI (XO (XO (XO (XI (XO (XO (XI (XO (XO (XI (XO (XI (XO (XI (XI
    (XI (XO (XI (XO (XI (XI (XO (XO (XI (XO (XO (XO (XO (XI (XI (XI (XO (XO
    (XI (XO (XI (XI (XI (XI (XI (XI (XO
    XH)))))))))))))))))))))))))))))))))))))))))))))))))))))))))))))))) :: ((Npos
    (XO (XI (XO (XO (XI (XI (XO (XO (XI (XI (XI (XO (XI (XI (XI (XO (XO (XI
    (XO (XI (XO (XI (XO (XO (XO (XI (XO (XO (XO (XO (XO (XO (XO (XO (XI (XO
    (XI (XI (XO (XI (XO (XI (XO (XI (XO (XI (XI (XO (XI (XI (XO (XO (XO (XI
    (XI (XO (XO (XO (XO (XO (XO (XO (XO
    XH)))))))))))))))))))))))))))))))))))))))))))))))))))))))))))))))) :: ((Npos
    (XO (XI (XO (XO (XO (XO (XO (XO (XI (XI (XO (XO (XO (XI (XI (XO (XO (XI
    (XO (XO (XO (XI (XI (XO (XI (XI (XI (XO (XI (XO (XO (XO (XO (XO (XI (XI
    (XI (XO (XO (XO (XO (XI (XI (XI (XO (XO (XI (XI (XI (XO (XI (XI (XI (XI
    (XI (XI (XO (XI (XI (XI (XO (XO (XI
    XH)))))))))))))))))))))))))))))))))))))))))))))))))))))))))))))))) :: ((Npos
    (XO (XO (XO (XI (XO (XI (XI (XO (XO (XO (XO (XI (XO (XI (XI (XI (XO (XO
    (XO (XO (XO (XO (XI (XI (XI (XO (XI (XO (XI (XO (XI (XO (XI (XI (XO (XI
    (XO (XO (XO (XI (XI (XI (XI (XI (XI (XI (XI (XI (XI (XI (XO (XI (XO (XO
    (XI (XI (XO (XI (XO
    XH)))))))))))))))))))))))))))))))))))))))))))))))))))))))))))) :: ((Npos
    (XI (XO (XO (XI (XO (XO (XO (XO (XO (XO (XO (XO (XO (XO (XI (XO (XI (XI
    (XO (XI (XI (XO (XO (XI (XO (XO (XO (XI (XO (XO (XO (XO (XO (XI (XO (XI
    (XI (XO (XO (XI (XO (XO (XO (XO (XI (XI (XI (XO (XI (XI (XO (XO (XO (XO
    (XI (XO (XI (XI (XO (XO (XO (XO (XI
    XH)))))))))))))))))))))))))))))))))))))))))))))))))))))))))))))))) :: ((Npos
    (XO (XI (XI (XO (XO (XI (XO (XO (XI (XO (XI (XO (XI (XI (XI (XO (XO (XI
    (XI (XO (XI (XI (XO (XI (XI (XO (XO (XI (XI (XI (XO (XO (XO (XI (XI (XO
    (XI (XO (XI (XO (XO (XI (XO (XO (XI (XO (XI (XI (XI (XO (XO (XI (XI (XO
    (XI (XO (XO (XI (XI
    XH)))))))))))))))))))))))))))))))))))))))))))))))))))))))))))) :: ((Npos
    (XO (XI (XO (XI (XO (XO (XO (XO (XO (XO (XI (XI (XO (XO (XI (XI (XI (XO
    (XI (XI (XI (XI (XO (XO (XO (XI (XO (XI (XI (XI (XO (XI (XI (XI (XO (XI
    (XO (XI (XI (XI (XO (XO (XO (XI (XI (XO (XI (XI (XO (XO (XO (XO (XI (XI
    (XI (XI (XI (XO (XO (XI (XI (XI
    XH))))))))))))))))))))))))))))))))))))))))))))))))))))))))))))))) :: ((Npos
    (XO (XO (XI (XI (XO (XO (XI (XI (XO (XI (XI (XI (XO (XI (XO (XI (XI (XI
    (XI (XI (XO (XO (XI (XO (XI (XI (XO (XI (XI (XO (XI (XI (XO (XI (XI (XI
    (XI (XI (XO (XI (XI (XO (XO (XO (XO (XO (XO (XI (XO (XI (XI (XO (XO (XI
    (XO (XO (XO (XI (XI (XO (XO (XI (XO
    XH)))))))))))))))))))))))))))))))))))))))))))))))))))))))))))))))) :: ((Npos
    (XO (XI (XI (XI (XO (XO (XO (XO (XO (XI (XI (XO (XI (XI (XI (XI (XI (XO
    (XI (XO (XI (XO (XI (XI (XI (XO (XO (XI (XO (XI (XI (XI (XO (XO (XI (XO
    (XI (XO (XI (XI (XO (XO (XI (XO (XI (XI (XO (XO (XI (XO (XO (XI (XO (XO
    (XI (XI (XO (XO (XO (XI (XO (XI
    XH))))))))))))))))))))))))))))))))))))))))))))))))))))))))))))))) :: ((Npos
    (XO (XI (XI (XI (XO (XI (XO (XO (XI (XO (XO (XI (XO (XO (XI (XO (XO (XO
    (XI (XI (XI (XI (XI (XI (XO (XO (XO (XO (XO (XO (XO (XO (XI (XI (XI (XI
    (XI (XO (XI (XI (XO (XI (XI (XO (XI (XI (XI (XI (XI (XO (XO (XO (XO (XI
    (XI (XO (XI (XO (XO (XI (XI (XO (XO
    XH)))))))))))))))))))))))))))))))))))))))))))))))))))))))))))))))) :: ((Npos
    (XO (XO (XI (XO (XI (XO (XO (XI (XI (XI (XO (XI (XO (XO (XO (XI (XO (XO
    (XO (XI (XI (XI (XO (XO (XI (XI (XI (XO (XI (XO (XI (XI (XO (XI (XI (XI
    (XO (XO (XI (XI (XI (XI (XI (XO (XO (XO (XO (XI (XO (XI (XI (XO (XO (XI
    (XI (XO (XI (XI (XI (XI (XI (XI (XO
    XH)))))))))))))))))))))))))))))))))))))))))))))))))))))))))))))))) :: ((Npos
    (XI (XO (XO (XO (XI (XI (XO (XI (XI (XO (XO (XI (XO (XO (XI (XI (XI (XI
    (XI (XI (XO (XI (XO (XO (XO (XI (XI (XI (XO (XI (XO (XO (XO (XI (XO (XI
    (XO (XI (XI (XO (XI (XI (XI (XO (XI (XO (XO (XO (XI (XI (XI (XI (XI (XI
    (XI (XI (XO (XI (XI (XI
    XH))))))))))))))))))))))))))))))))))))))))))))))))))))))))))))) :: ((Npos
    (XO (XO (XI (XI (XO (XI (XI (XO (XO (XI (XI (XI (XI (XO (XI (XO (XO (XI
    (XI (XO (XI (XO (XI (XI (XI (XO (XO (XI (XI (XO (XO (XO (XO (XI (XI (XI
    (XO (XO (XI (XO (XO (XI (XI (XI (XO (XO (XO (XI (XO (XI (XO (XI (XO (XO
    (XO (XI (XI (XI (XO (XO (XI (XI (XO
    XH)))))))))))))))))))))))))))))))))))))))))))))))))))))))))))))))) :: ((Npos
    (XO (XI (XO (XI (XI (XO (XI (XO (XO (XI (XI (XI (XI (XO (XI (XO (XI (XO
    (XI (XO (XI (XO (XO (XO (XI (XO (XO (XO (XO (XI (XI (XI (XI (XO (XI (XI
    (XI (XI (XO (XO (XI (XI (XI (XO (XO (XO (XO (XO (XI (XO (XI (XO (XI (XO
    (XO (XI (XO (XI (XO (XO (XI (XO (XO
    XH)))))))))))))))))))))))))))))))))))))))))))))))))))))))))))))))) :: ((Npos
    (XO (XO (XI (XO (XO (XO (XO (XI (XI (XO (XO (XO (XO (XI (XI (XO (XO (XI
    (XI (XO (XI (XO (XI (XI (XI (XO (XO (XI (XI (XI (XI (XO (XI (XO (XI (XI
    (XI (XI (XO (XO (XI (XI (XI (XI (XI (XI (XO (XO (XO (XI (XO (XO (XO (XI
    (XI (XO (XI (XO (XO (XI (XO (XO (XO
    XH)))))))))))))))))))))))))))))))))))))))))))))))))))))))))))))))) :: ((Npos
    (XO (XO (XI (XI (XI (XO (XI (XO (XI (XO (XO (XO (XO (XI (XI (XO (XI (XO
    (XO (XO (XI (XO (XO (XO (XO (XO (XO (XI (XI (XO (XO (XI (XO (XO (XI (XI
    (XI (XI (XO (XI (XI (XO (XI (XO (XO (XI (XI (XO (XI (XI (XI (XI (XI (XO
    (XO (XO (XI (XO (XO (XO (XI (XI (XI
    XH)))))))))))))))))))))))))))))))))))))))))))))))))))))))))))))))) :: ((Npos
    (XO (XO (XI (XI (XO (XI (XI (XO (XI (XO (XO (XI (XI (XI (XO (XO (XI (XI
    (XO (XO (XO (XI (XI (XI (XI (XI (XO (XO (XI (XI (XI (XI (XO (XI (XO (XI
    (XI (XI (XO (XI (XO (XO (XO (XI (XO (XI (XI (XI (XO (XI (XI (XI (XO (XO
    (XO (XO (XI (XI (XI (XO (XI (XO (XO
    XH)))))))))))))))))))))))))))))))))))))))))))))))))))))))))))))))) :: ((Npos
    (XI (XI (XO (XO (XI (XI (XO (XI (XI (XO (XI (XO (XI (XO (XO (XO (XO (XO
    (XO (XO (XI (XI (XI (XI (XI (XI (XI (XI (XI (XO (XI (XI (XO (XI (XI (XI
    (XO (XI (XI (XI (XI (XI (XI (XI (XO (XI (XI (XO (XO (XI (XO (XO (XI (XI
    (XI (XO (XI (XI (XO (XI (XI (XO (XO
    XH)))))))))))))))))))))))))))))))))))))))))))))))))))))))))))))))) :: ((Npos
    (XI (XI (XI (XO (XO (XO (XI (XO (XO (XO (XI (XI (XI (XI (XO (XI (XO (XO
    (XO (XO (XO (XI (XO (XO (XO (XI (XI (XI (XI (XI (XO (XO (XO (XI (XI (XO
    (XI (XI (XI (XO (XO (XI (XO (XO (XO (XI (XO (XO (XO (XO (XI (XO (XI (XO
    (XI (XI (XO (XO (XO (XO
    XH))))))))))))))))))))))))))))))))))))))))))))))))))))))))))))) :: ((Npos
    (XO (XO (XI (XO (XI (XI (XI (XO (XO (XO (XO (XI (XI (XO (XO (XO (XO (XO
    (XO (XO (XI (XO (XI (XI (XI (XO (XI (XI (XO (XI (XI (XO (XI (XO (XO (XI
    (XO (XO (XI (XI (XI (XO (XO (XI (XI (XI (XI (XO (XI (XO (XI (XI (XI (XI
    (XI (XI (XI (XO (XI (XO (XI (XI (XI
    XH)))))))))))))))))))))))))))))))))))))))))))))))))))))))))))))))) :: ((Npos
    (XO (XI (XI (XI (XI (XO (XI (XI (XI (XO (XO (XO (XO (XO (XO (XO (XO (XI
    (XI (XI (XO (XO (XI (XI (XI (XI (XO (XO (XI (XI (XO (XI (XI (XI (XO (XI
    (XI (XI (XO (XI (XI (XO (XI (XO (XI (XO (XI (XI (XO (XI (XI (XI (XI (XI
    (XI (XI (XO (XO (XI (XO (XI (XO (XO
    XH)))))))))))))))))))))))))))))))))))))))))))))))))))))))))))))))) :: ((Npos
    (XO (XI (XI (XI (XI (XI (XO (XI (XI (XI (XO (XO (XI (XO (XO (XO (XI (XI
    (XO (XO (XI (XI (XO (XO (XO (XI (XI (XO (XI (XI (XO (XI (XO (XO (XI (XI
    (XI (XO (XI (XO (XI (XO (XI (XO (XO (XI (XO (XI (XO (XI (XO (XI (XI (XO
    (XO (XO (XI (XI (XO (XI
    XH))))))))))))))))))))))))))))))))))))))))))))))))))))))))))))) :: ((Npos
    (XI (XI (XO (XI (XO (XO (XI (XO (XO (XO (XO (XI (XI (XI (XI (XI (XO (XI
    (XO (XI (XO (XI (XO (XO (XI (XO (XI (XO (XI (XI (XI (XI (XO (XO (XI (XO
    (XO (XO (XI (XO (XI (XO (XO (XI (XI (XI (XO (XI (XI (XO (XI (XI (XI (XO
    (XO (XO (XO (XI (XO (XO (XO (XO
    XH))))))))))))))))))))))))))))))))))))))))))))))))))))))))))))))) :: ((Npos
    (XO (XO (XO (XO (XI (XI (XI (XI (XI (XI (XO (XO (XO (XI (XI (XI (XI (XO
    (XI (XI (XO (XO (XO (XO (XI (XI (XI (XI (XI (XO (XI (XO (XI (XI (XO (XI
    (XI (XI (XO (XI (XI (XO (XI (XI (XI (XI (XO (XI (XO (XO (XO (XO (XI (XI
    (XI (XI (XI (XI (XO (XI (XI (XI (XO
    XH)))))))))))))))))))))))))))))))))))))))))))))))))))))))))))))))) :: ((Npos
    (XI (XO (XI (XO (XI (XI (XO (XO (XO (XO (XI (XO (XI (XO (XO (XI (XO (XO
    (XI (XI (XO (XO (XO (XI (XO (XO (XO (XI (XO (XI (XO (XI (XI (XO (XO (XO
    (XI (XO (XI (XI (XI (XI (XI (XI (XI (XI (XI (XI (XI (XI (XI (XO (XO (XI
    (XI (XO (XO (XI (XO (XO (XO (XO (XO
    XH)))))))))))))))))))))))))))))))))))))))))))))))))))))))))))))))) :: ((Npos
    (XI (XO (XO (XI (XO (XO (XO (XI (XO (XI (XI (XO (XO (XO (XO (XI (XI (XO
    (XI (XO (XO (XI (XI (XO (XO (XO (XO (XI (XI (XO (XI (XO (XI (XI (XO (XI
    (XI (XI (XI (XI (XO (XI (XI (XO (XI (XI (XI (XI (XI (XI (XO (XO (XO (XI
    (XI (XO (XO (XO (XI (XI (XI (XI
    XH))))))))))))))))))))))))))))))))))))))))))))))))))))))))))))))) :: ((Npos
    (XI (XI (XO (XI (XI (XO (XI (XI (XI (XI (XO (XI (XO (XO (XI (XI (XI (XI
    (XO (XO (XI (XI (XI (XI (XO (XO (XI (XO (XO (XI (XI (XI (XO (XI (XO (XO
    (XO (XO (XO (XI (XI (XI (XO (XI (XI (XI (XI (XI (XI (XI (XO (XO (XI (XO
    (XO (XO (XO (XI (XO (XO (XI
    XH)))))))))))))))))))))))))))))))))))))))))))))))))))))))))))))) :: ((Npos
    (XO (XI (XO (XO (XI (XI (XO (XI (XI (XO (XI (XI (XO (XO (XO (XI (XI (XO
    (XI (XI (XO (XI (XI (XI (XI (XI (XO (XO (XO (XO (XO (XI (XO (XI (XI (XI
    (XI (XI (XI (XI (XI (XI (XO (XI (XO (XI (XO (XI (XI (XO (XI (XI (XO (XO
    (XI (XO (XO (XO (XI (XI (XI (XI (XO
    XH)))))))))))))))))))))))))))))))))))))))))))))))))))))))))))))))) :: ((Npos
    (XO (XO (XO (XO (XI (XI (XI (XO (XO (XI (XO (XI (XI (XI (XI (XI (XO (XI
    (XO (XI (XI (XO (XI (XI (XI (XO (XO (XO (XI (XI (XI (XI (XI (XO (XO (XI
    (XI (XI (XO (XO (XO (XI (XI (XO (XI (XI (XI (XI (XO (XO (XI (XO (XO (XI
    (XI (XI (XO (XI (XO (XI (XI (XO (XI
    XH)))))))))))))))))))))))))))))))))))))))))))))))))))))))))))))))) :: ((Npos
    (XI (XO (XI (XI (XO (XI (XO (XO (XI (XO (XO (XI (XO (XO (XO (XO (XO (XO
    (XI (XO (XI (XI (XO (XI (XI (XI (XI (XI (XO (XI (XO (XO (XO (XO (XO (XO
    (XO (XI (XI (XI (XI (XO (XI (XI (XO (XI (XO (XI (XO (XI (XO (XO (XO (XO
    (XO (XI (XI (XI (XO (XO (XO (XI (XO
    XH)))))))))))))))))))))))))))))))))))))))))))))))))))))))))))))))) :: ((Npos
    (XO (XI (XO (XO (XI (XI (XI (XO (XI (XO (XO (XI (XI (XO (XI (XO (XO (XO
    (XI (XI (XO (XO (XI (XI (XO (XI (XO (XI (XO (XO (XI (XI (XO (XI (XO (XI
    (XO (XO (XI (XI (XO (XI (XI (XO (XO (XO (XI (XI (XI (XI (XO (XO (XO (XI
    (XO (XI (XO (XI (XO (XO
    XH))))))))))))))))))))))))))))))))))))))))))))))))))))))))))))) :: ((Npos
    (XO (XI (XO (XI (XI (XI (XO (XO (XI (XO (XI (XO (XI (XO (XI (XO (XO (XO
    (XO (XI (XO (XO (XI (XO (XO (XO (XI (XI (XO (XO (XI (XO (XO (XI (XO (XI
    (XI (XO (XI (XO (XI (XI (XO (XI (XO (XO (XO (XI (XI (XI (XI (XO (XO (XO
    (XO (XI (XO (XO (XO (XI (XI (XI (XO
    XH)))))))))))))))))))))))))))))))))))))))))))))))))))))))))))))))) :: ((Npos
    (XI (XI (XI (XO (XO (XI (XO (XI (XO (XI (XI (XO (XI (XI (XI (XO (XO (XI
    (XO (XO (XO (XI (XO (XI (XO (XI (XO (XI (XI (XO (XO (XO (XO (XO (XI (XO
    (XI (XO (XI (XI (XO (XO (XO (XO (XO (XI (XI (XI (XI (XI (XI (XI (XO (XO
    (XI (XI (XI (XI (XI (XO (XI (XO (XO
    XH)))))))))))))))))))))))))))))))))))))))))))))))))))))))))))))))) :: ((Npos
    (XO (XI (XO (XO (XI (XI (XO (XO (XI (XO (XI (XO (XI (XO (XO (XI (XO (XO
    (XO (XI (XI (XO (XO (XI (XO (XI (XO (XI (XI (XI (XO (XO (XO (XO (XI (XO
    (XI (XO (XI (XI (XO (XI (XI (XI (XI (XI (XI (XI (XO (XI (XI (XI (XO (XO
    (XO (XI (XO (XO (XO (XI
    XH))))))))))))))))))))))))))))))))))))))))))))))))))))))))))))) :: ((Npos
    (XO (XO (XI (XO (XO (XO (XI (XI (XO (XI (XI (XI (XI (XI (XI (XO (XO (XI
    (XO (XO (XI (XO (XI (XI (XO (XO (XI (XO (XI (XO (XI (XO (XO (XI (XO (XO
    (XI (XO (XO (XO (XO (XO (XO (XO (XI (XO (XO (XI (XI (XI (XO (XO (XO (XO
    (XI (XI (XI (XI (XO
    XH)))))))))))))))))))))))))))))))))))))))))))))))))))))))))))) :: ((Npos
    (XO (XI (XO (XI (XO (XO (XO (XI (XO (XI (XO (XI (XI (XO (XO (XO (XI (XO
    (XO (XI (XI (XO (XI (XI (XI (XO (XI (XI (XO (XO (XI (XO (XO (XO (XO (XI
    (XO (XO (XO (XO (XO (XO (XO (XI (XI (XI (XO (XO (XO (XI (XO (XI (XI (XO
    (XO (XO (XO
    XH)))))))))))))))))))))))))))))))))))))))))))))))))))))))))) :: [])))))))))))))))))))))))))))))))))))))))))))))))))))))))))))))))) :: []))))

(** val nthN : 'a1 list -> n -> 'a1 -> 'a1 **)

let nthN l i d =
  nth (N.to_nat i) l d

(** val step_val : n -> n **)

let step_val i =
  nthN sTEP_VALUES i N0

(** val table2 : n list list -> n -> n -> n **)

let table2 t i j =
  nthN (nthN t i []) j N0

(** val piece_value : square -> piece -> bool -> n **)

let piece_value s k is_p1 =
  match square_piece_idx k with
  | Some i ->
    table2 sQUARE_VALUES
      (N.add i (if is_p1 then sQUARE_P1_OFFSET else sQUARE_P2_OFFSET))
      (sq_index s)
  | None -> N0

(** val push_piece_value : square -> piece -> n **)

let push_piece_value s k =
  match push_piece_idx k with
  | Some i -> table2 pUSH_VALUES i (sq_index s)
  | None -> N0

(** val pull_piece_value : square -> piece -> n **)

let pull_piece_value s k =
  match pull_piece_idx k with
  | Some i -> table2 pOSSIBLE_PULL_VALUES i (sq_index s)
  | None -> N0

(** val sides : bool list **)

let sides =
  true :: (false :: [])

(** val z_from_piece_board : pbs -> bool -> n -> n **)

let z_from_piece_board b is_p1_to_move step =
  let h = if is_p1_to_move then iNITIAL else N.coq_lxor iNITIAL pLAYER_TO_MOVE
  in
  let h0 = N.coq_lxor h (step_val step) in
  fold_left (fun acc side0 ->
    fold_left (fun acc0 k ->
      fold_left (fun acc1 sq -> N.coq_lxor acc1 (piece_value sq k side0))
        (bits_of (bits_for_piece b k side0)) acc0) pIECE_ALL acc) sides h0

(** val piece_board_value : pbs -> pbs -> n **)

let piece_board_value pb nb =
  fold_left (fun acc side0 ->
    fold_left (fun acc0 k ->
      let diff =
        N.coq_lxor (bits_for_piece pb k side0) (bits_for_piece nb k side0)
      in
      fold_left (fun acc1 sq -> N.coq_lxor acc1 (piece_value sq k side0))
        (bits_of diff) acc0) pIECE_ALL acc) sides N0

(** val z_move_piece : n -> bool -> pbs -> n -> pbs -> n -> bool -> n **)

let z_move_piece h prev_side prev_board prev_step new_board new_step new_side =
  let ptm = if eqb prev_side new_side then N0 else pLAYER_TO_MOVE in
  N.coq_lxor
    (N.coq_lxor (N.coq_lxor h ptm) (piece_board_value prev_board new_board))
    (N.coq_lxor (step_val prev_step) (step_val new_step))

(** val z_place_piece : n -> piece -> square -> bool -> bool -> bool -> n **)

let z_place_piece h k s place_is_p1 switch_players switch_phases =
  let ptm = if (||) switch_players switch_phases then pLAYER_TO_MOVE else N0
  in
  let sv = if switch_phases then step_val N0 else N0 in
  N.coq_lxor (N.coq_lxor (N.coq_lxor h ptm) (piece_value s k place_is_p1)) sv

(** val z_pass : n -> n -> n **)

let z_pass h step =
  N.coq_lxor (N.coq_lxor (N.coq_lxor h pLAYER_TO_MOVE) (step_val N0))
    (step_val step)

(** val z_exclude_step : n -> n -> n **)

let z_exclude_step h step =
  N.coq_lxor (N.coq_lxor h (step_val N0)) (step_val step)

type action =
| Place of piece
| Move of square * dir
| Pass

(** val action_eqb : action -> action -> bool **)

let action_eqb a b =
  match a with
  | Place k -> (match b with
                | Place k' -> piece_eqb k k'
                | _ -> false)
  | Move (s, d) ->
    (match b with
     | Move (s', d') -> (&&) (N.eqb s s') (dir_eqb d d')
     | _ -> false)
  | Pass -> (match b with
             | Pass -> true
             | _ -> false)

type pps =
| PPNone
| PossiblePull of square * piece
| MustCompletePush of square * piece

type play = { prev : pbs list; pstate : pps; init_hash : n; hist : n list;
              trapped : bool }

type phase =
| PlacePhase
| PlayPhase of play

type state = { side : bool; move_no : n; ph : phase; board : pbs; hash : n }

type terminal =
| GoldWin
| SilverWin

(** val play_initial : n -> n list -> play **)

let play_initial h hh =
  { prev = []; pstate = PPNone; init_hash = h; hist = hh; trapped = false }

(** val step_of : play -> n **)

let step_of pp =
  N.of_nat (length pp.prev)

(** val initial : state **)

let initial =
  { side = true; move_no = (Npos XH); ph = PlacePhase; board = empty_board;
    hash = iNITIAL }

(** val is_mcp : pps -> bool **)

let is_mcp = function
| MustCompletePush (_, _) -> true
| _ -> false

(** val as_play_phase : state -> play option **)

let as_play_phase s =
  match s.ph with
  | PlacePhase -> None
  | PlayPhase pp -> Some pp

(** val dummy_play : play **)

let dummy_play =
  { prev = []; pstate = PPNone; init_hash = N0; hist = []; trapped = false }

(** val unwrap_play_phase : state -> play **)

let unwrap_play_phase s =
  match s.ph with
  | PlacePhase -> dummy_play
  | PlayPhase pp -> pp

(** val current_step : state -> n **)

let current_step s =
  step_of (unwrap_play_phase s)

(** val curr_player_piece_mask : state -> pbs -> n **)

let curr_player_piece_mask s b =
  if s.side then b.p1 else N.coq_land (bnot b.p1) b.allp

(** val opponent_piece_mask : state -> pbs -> n **)

let opponent_piece_mask s b =
  if s.side then N.coq_land (bnot b.p1) b.allp else b.p1

(** val threatened_pieces : n -> n -> pbs -> n **)

let threatened_pieces predator prey b =
  let e_inf = influenced_squares (N.coq_land b.el predator) in
  let m_inf = influenced_squares (N.coq_land b.ca predator) in
  let h_inf = influenced_squares (N.coq_land b.ho predator) in
  let d_inf = influenced_squares (N.coq_land b.dg predator) in
  let c_inf = influenced_squares (N.coq_land b.ct predator) in
  let horse_threats = N.coq_lor e_inf m_inf in
  let dog_threats = N.coq_lor horse_threats h_inf in
  let cat_threats = N.coq_lor dog_threats d_inf in
  let rabbit_threats = N.coq_lor cat_threats c_inf in
  let t =
    N.coq_lor
      (N.coq_lor
        (N.coq_lor
          (N.coq_lor (N.coq_land b.ca e_inf) (N.coq_land b.ho horse_threats))
          (N.coq_land b.dg dog_threats)) (N.coq_land b.ct cat_threats))
      (N.coq_land b.rb rabbit_threats)
  in
  N.coq_land t prey

(** val curr_player_non_frozen_pieces : state -> pbs -> n **)

let curr_player_non_frozen_pieces s b =
  let opp = opponent_piece_mask s b in
  let cur = N.coq_land (bnot opp) b.allp in
  let thr = threatened_pieces opp cur b in
  N.coq_land cur (N.coq_lor (bnot thr) (supported_pieces cur))

(** val invalid_rabbit_moves : state -> dir -> pbs -> n **)

let invalid_rabbit_moves s d b =
  let backward = if s.side then Down else Up in
  if dir_eqb d backward
  then N.coq_land (if s.side then b.p1 else bnot b.p1) b.rb
  else N0

(** val lesser_pieces : piece -> pbs -> n **)

let lesser_pieces k b =
  match k with
  | Rabbit -> N0
  | Cat -> b.rb
  | Dog -> N.coq_lor b.rb b.ct
  | Horse -> N.coq_lor (N.coq_lor b.rb b.ct) b.dg
  | Camel -> N.coq_lor (N.coq_lor (N.coq_lor b.rb b.ct) b.dg) b.ho
  | Elephant ->
    N.coq_lor (N.coq_lor (N.coq_lor (N.coq_lor b.rb b.ct) b.dg) b.ho) b.ca

(** val moves_of : n -> dir -> action list **)

let moves_of bits d =
  map (fun sq -> Move (sq, d)) (bits_of bits)

(** val extend_with_valid_curr_player_piece_moves :
    state -> pbs -> action list **)

let extend_with_valid_curr_player_piece_moves s b =
  let nf = curr_player_non_frozen_pieces s b in
  flat_map (fun d ->
    let v =
      N.coq_land (N.coq_land (can_move_in_direction d b) nf)
        (bnot (invalid_rabbit_moves s d b))
    in
    moves_of v d) dIR_ALL

(** val contains : action list -> action -> bool **)

let contains l a =
  existsb (action_eqb a) l

(** val extend_with_pull_piece_actions :
    state -> pbs -> action list -> action list **)

let extend_with_pull_piece_actions s b acc =
  match as_play_phase s with
  | Some pp ->
    (match pp.pstate with
     | PossiblePull (sq, k) ->
       let lesser = N.coq_land (lesser_pieces k b) (opponent_piece_mask s b)
       in
       let bit = sq_as_bit_board sq in
       fold_left (fun acc0 d ->
         if negb
              (N.eqb (N.coq_land (shift_pieces_in_direction lesser d) bit) N0)
         then let a = Move
                ((sq_from_bit_board (shift_pieces_in_opp_direction bit d)), d)
              in
              if contains acc0 a then acc0 else app acc0 (a :: [])
         else acc0) dIR_ALL acc
     | _ -> acc)
  | None -> acc

(** val extend_with_push_piece_actions : state -> pbs -> action list **)

let extend_with_push_piece_actions s b =
  match as_play_phase s with
  | Some pp ->
    if (&&) (negb (is_mcp pp.pstate)) (N.ltb (step_of pp) (Npos (XI XH)))
    then let pred = curr_player_non_frozen_pieces s b in
         let opp = opponent_piece_mask s b in
         let thr = threatened_pieces pred opp b in
         if negb (N.eqb thr N0)
         then flat_map (fun d ->
                moves_of (N.coq_land (can_move_in_direction d b) thr) d)
                dIR_ALL
         else []
    else []
  | None -> []

(** val must_complete_push_actions : state -> pbs -> action list **)

let must_complete_push_actions s b =
  match (unwrap_play_phase s).pstate with
  | MustCompletePush (sq, pushed) ->
    let nf = curr_player_non_frozen_pieces s b in
    let bit = sq_as_bit_board sq in
    flat_map (fun d ->
      let pbit = N.coq_land (shift_pieces_in_opp_direction bit d) nf in
      if (&&) (negb (N.eqb pbit N0))
           (piece_gtb (piece_type_at_bit pbit b) pushed)
      then (Move ((sq_from_bit_board pbit), d)) :: []
      else []) dIR_ALL
  | _ -> []

(** val count_hash : n -> n list -> nat **)

let count_hash h l =
  length (filter (N.eqb h) l)

(** val hash_history_contains_hash_twice : n list -> n -> bool **)

let hash_history_contains_hash_twice l h =
  leb (S (S O)) (count_hash h l)

(** val can_pass : state -> bool -> bool **)

let can_pass s check_rep =
  match as_play_phase s with
  | Some pp ->
    (&&) ((&&) (N.leb (Npos XH) (step_of pp)) (negb (is_mcp pp.pstate)))
      ((||) (negb check_rep)
        ((&&)
          (negb (N.eqb pp.init_hash (z_exclude_step s.hash (step_of pp))))
          (negb
            (hash_history_contains_hash_twice pp.hist
              (z_pass s.hash (step_of pp))))))
  | None -> false

(** val is_passing_like_action : state -> action -> bool **)

let is_passing_like_action s a =
  let pp = unwrap_play_phase s in
  (match a with
   | Move (sq, d) ->
     let nb = fst (pb_take_move s.board sq d) in
     let h_same =
       z_move_piece s.hash s.side s.board (current_step s) nb N0 s.side
     in
     let h_switch =
       z_move_piece s.hash s.side s.board (current_step s) nb N0 (negb s.side)
     in
     (||) (N.eqb h_same pp.init_hash)
       (hash_history_contains_hash_twice pp.hist h_switch)
   | _ -> false)

(** val remove_passing_like_actions : state -> action list -> action list **)

let remove_passing_like_actions s l =
  let pp = unwrap_play_phase s in
  if (&&) (N.eqb (step_of pp) (Npos (XI XH))) (negb pp.trapped)
  then filter (fun a -> negb (is_passing_like_action s a)) l
  else l

(** val has_non_passing_like_action : state -> action list -> bool **)

let has_non_passing_like_action s l = match l with
| [] -> false
| _ :: _ ->
  let pp = unwrap_play_phase s in
  if (||) (N.ltb (step_of pp) (Npos (XI XH))) pp.trapped
  then true
  else existsb (fun a -> negb (is_passing_like_action s a)) l

(** val valid_placement : state -> action list **)

let valid_placement s =
  let b = s.board in
  let cur = curr_player_piece_mask s b in
  app (if N.eqb (N.coq_land b.el cur) N0 then (Place Elephant) :: [] else [])
    (app (if N.eqb (N.coq_land b.ca cur) N0 then (Place Camel) :: [] else [])
      (app
        (if N.ltb (count_ones (N.coq_land b.ho cur)) (Npos (XO XH))
         then (Place Horse) :: []
         else [])
        (app
          (if N.ltb (count_ones (N.coq_land b.dg cur)) (Npos (XO XH))
           then (Place Dog) :: []
           else [])
          (app
            (if N.ltb (count_ones (N.coq_land b.ct cur)) (Npos (XO XH))
             then (Place Cat) :: []
             else [])
            (if N.ltb (count_ones (N.coq_land b.rb cur)) (Npos (XO (XO (XO
                  XH))))
             then (Place Rabbit) :: []
             else [])))))

(** val valid_actions_ : state -> bool -> action list **)

let valid_actions_ s check_rep =
  match s.ph with
  | PlacePhase -> valid_placement s
  | PlayPhase pp ->
    let b = s.board in
    let va =
      if is_mcp pp.pstate
      then must_complete_push_actions s b
      else let v = extend_with_push_piece_actions s b in
           let v0 = extend_with_pull_piece_actions s b v in
           let v1 = app v0 (extend_with_valid_curr_player_piece_moves s b) in
           if can_pass s check_rep then app v1 (Pass :: []) else v1
    in
    if check_rep then remove_passing_like_actions s va else va

(** val valid_actions : state -> action list **)

let valid_actions s =
  valid_actions_ s true

(** val valid_actions_no_rep : state -> action list **)

let valid_actions_no_rep s =
  valid_actions_ s false

(** val loss_for_mover : state -> terminal **)

let loss_for_mover s =
  if s.side then SilverWin else GoldWin

(** val has_move : state -> pbs -> terminal option **)

let has_move s b =
  let hm =
    match s.ph with
    | PlacePhase -> true
    | PlayPhase pp ->
      if is_mcp pp.pstate
      then has_non_passing_like_action s (must_complete_push_actions s b)
      else if can_pass s true
           then true
           else if has_non_passing_like_action s
                     (extend_with_valid_curr_player_piece_moves s b)
                then true
                else if has_non_passing_like_action s
                          (extend_with_pull_piece_actions s b [])
                     then true
                     else has_non_passing_like_action s
                            (extend_with_push_piece_actions s b)
  in
  if hm then None else Some (loss_for_mover s)

(** val won_by : bool -> terminal **)

let won_by = function
| true -> GoldWin
| false -> SilverWin

(** val rabbit_at_goal : state -> pbs -> terminal option **)

let rabbit_at_goal s b =
  let p1_met =
    negb (N.eqb (N.coq_land (N.coq_land b.p1 b.rb) p1_OBJECTIVE_MASK) N0)
  in
  let p2_met =
    negb
      (N.eqb (N.coq_land (N.coq_land (bnot b.p1) b.rb) p2_OBJECTIVE_MASK) N0)
  in
  if (||) p1_met p2_met
  then let last_is_p1 = negb s.side in
       let last_met = if last_is_p1 then p1_met else p2_met in
       Some (won_by (negb (xorb last_is_p1 last_met)))
  else None

(** val lost_all_rabbits : state -> pbs -> terminal option **)

let lost_all_rabbits s b =
  let p1_lost = N.eqb (N.coq_land b.p1 b.rb) N0 in
  let p2_lost = N.eqb (N.coq_land (bnot b.p1) b.rb) N0 in
  if (||) p1_lost p2_lost
  then let last_is_p1 = negb s.side in
       let last_met = if last_is_p1 then p2_lost else p1_lost in
       Some (won_by (negb (xorb last_is_p1 last_met)))
  else None

(** val or_else : 'a1 option -> 'a1 option -> 'a1 option **)

let or_else a b =
  match a with
  | Some _ -> a
  | None -> b

(** val is_terminal : state -> terminal option **)

let is_terminal s =
  match as_play_phase s with
  | Some pp ->
    let b = s.board in
    if N.ltb N0 (step_of pp)
    then has_move s b
    else or_else (rabbit_at_goal s b)
           (or_else (lost_all_rabbits s b) (has_move s b))
  | None -> None

(** val is_their_piece : state -> n -> pbs -> bool **)

let is_their_piece s bit b =
  xorb s.side (negb (N.eqb (N.coq_land bit b.p1) N0))

(** val move_can_be_counted_as_pull : state -> n -> dir -> pbs -> bool **)

let move_can_be_counted_as_pull s new_bit d b =
  match (unwrap_play_phase s).pstate with
  | PossiblePull (psq, my_piece) ->
    if N.eqb (sq_as_bit_board psq) (shift_in_direction new_bit d)
    then piece_gtb my_piece (piece_type_at_bit new_bit b)
    else false
  | _ -> false

(** val next_push_pull_state : state -> square -> dir -> pps **)

let next_push_pull_state s sq d =
  let bit = sq_as_bit_board sq in
  let b = s.board in
  let opp = is_their_piece s bit b in
  let pp = unwrap_play_phase s in
  let k = piece_type_at_bit bit b in
  if (&&) opp (negb (move_can_be_counted_as_pull s bit d b))
  then MustCompletePush (sq, k)
  else if (&&) ((&&) (negb opp) (negb (is_mcp pp.pstate)))
            (negb (piece_eqb k Rabbit))
       then PossiblePull (sq, k)
       else PPNone

(** val place : state -> piece -> state **)

let place s k =
  let b = s.board in
  let bit = placement_bit b in
  let add0 = fun t x -> if piece_eqb k t then N.coq_lor x bit else x in
  let np1 = N.coq_lor b.p1 (if s.side then bit else N0) in
  let nb =
    pb_new np1 (add0 Elephant b.el) (add0 Camel b.ca) (add0 Horse b.ho)
      (add0 Dog b.dg) (add0 Cat b.ct) (add0 Rabbit b.rb)
  in
  let switch_players = N.eqb bit lAST_P1_PLACEMENT_MASK in
  let switch_phases = N.eqb bit lAST_P2_PLACEMENT_MASK in
  let nside =
    if switch_players then false else if switch_phases then true else s.side
  in
  let nh =
    z_place_piece s.hash k (sq_from_bit_board bit) s.side switch_players
      switch_phases
  in
  let nph =
    if switch_phases
    then PlayPhase (play_initial nh (nh :: []))
    else PlacePhase
  in
  { side = nside; move_no =
  (if switch_phases then Npos (XO XH) else Npos XH); ph = nph; board = nb;
  hash = nh }

(** val pass : state -> state **)

let pass s =
  let h = z_pass s.hash (current_step s) in
  let pp = unwrap_play_phase s in
  let nh = if pp.trapped then [] else pp.hist in
  { side = (negb s.side); move_no =
  (wadd s.move_no (if s.side then N0 else Npos XH)); ph = (PlayPhase
  (play_initial h (h :: nh))); board = s.board; hash = h }

(** val move_piece : state -> square -> dir -> state **)

let move_piece s sq d =
  let pp = unwrap_play_phase s in
  let cs = current_step s in
  let last = N.leb (Npos (XI XH)) cs in
  let (nb, was_trapped) = pb_take_move s.board sq d in
  let nside = if last then negb s.side else s.side in
  let nstep = if last then N0 else N.add cs (Npos XH) in
  let nmove = wadd s.move_no (if (&&) last nside then Npos XH else N0) in
  let nh = z_move_piece s.hash s.side s.board cs nb nstep nside in
  let nhist = if was_trapped then [] else pp.hist in
  let npp =
    if last
    then play_initial nh (nh :: nhist)
    else { prev = (app pp.prev (s.board :: [])); pstate =
           (next_push_pull_state s sq d); init_hash = pp.init_hash; hist =
           nhist; trapped = ((||) pp.trapped was_trapped) }
  in
  { side = nside; move_no = nmove; ph = (PlayPhase npp); board = nb; hash =
  nh }

(** val take_action : state -> action -> state **)

let take_action s = function
| Place k -> place s k
| Move (sq, d) -> move_piece s sq d
| Pass -> pass s

(** val trapped_animal_for_action :
    state -> action -> ((square * piece) * bool) option **)

let trapped_animal_for_action s = function
| Move (sq, d) ->
  let b = pb_move_piece s.board sq d in
  let t = trapped_piece_bits b in
  if negb (N.eqb t N0)
  then let tsq = sq_from_bit_board t in
       let k = match piece_type_at_square b tsq with
               | Some k -> k
               | None -> Cat
       in
       Some ((tsq, k),
       (negb
         (N.eqb (N.coq_land (bits_for_piece b k true) (sq_as_bit_board tsq))
           N0)))
  else None
| _ -> None

(** val piece_board_for_step : state -> n -> pbs **)

let piece_board_for_step s i =
  if N.eqb i (current_step s)
  then s.board
  else nth (N.to_nat i) (unwrap_play_phase s).prev empty_board

(** val transposition_hash : state -> n **)

let transposition_hash s =
  match s.ph with
  | PlacePhase -> s.hash
  | PlayPhase pp ->
    N.coq_lxor s.hash
      (match pp.pstate with
       | PPNone -> N0
       | PossiblePull (sq, k) -> pull_piece_value sq k
       | MustCompletePush (sq, k) -> push_piece_value sq k)

(** val state_eqb : state -> state -> bool **)

let state_eqb a b =
  N.eqb a.hash b.hash

type 'a outcome =
| Ok of 'a
| Err
| Panic

type text = n list

(** val utf8_len : n -> n **)

let utf8_len c =
  if N.ltb c (Npos (XO (XO (XO (XO (XO (XO (XO XH))))))))
  then Npos XH
  else if N.ltb c (Npos (XO (XO (XO (XO (XO (XO (XO (XO (XO (XO (XO
            XH))))))))))))
       then Npos (XO XH)
       else if N.ltb c (Npos (XO (XO (XO (XO (XO (XO (XO (XO (XO (XO (XO (XO
                 (XO (XO (XO (XO XH)))))))))))))))))
            then Npos (XI XH)
            else Npos (XO (XO XH))

(** val uint_digits : uint -> n list **)

let rec uint_digits = function
| Nil -> []
| D0 r -> (Npos (XO (XO (XO (XO (XI XH)))))) :: (uint_digits r)
| D1 r -> (Npos (XI (XO (XO (XO (XI XH)))))) :: (uint_digits r)
| D2 r -> (Npos (XO (XI (XO (XO (XI XH)))))) :: (uint_digits r)
| D3 r -> (Npos (XI (XI (XO (XO (XI XH)))))) :: (uint_digits r)
| D4 r -> (Npos (XO (XO (XI (XO (XI XH)))))) :: (uint_digits r)
| D5 r -> (Npos (XI (XO (XI (XO (XI XH)))))) :: (uint_digits r)
| D6 r -> (Npos (XO (XI (XI (XO (XI XH)))))) :: (uint_digits r)
| D7 r -> (Npos (XI (XI (XI (XO (XI XH)))))) :: (uint_digits r)
| D8 r -> (Npos (XO (XO (XO (XI (XI XH)))))) :: (uint_digits r)
| D9 r -> (Npos (XI (XO (XO (XI (XI XH)))))) :: (uint_digits r)

(** val print_dec : n -> text **)

let print_dec n0 =
  uint_digits (N.to_uint n0)

(** val print_piece : piece -> text **)

let print_piece k =
  (piece_letter k) :: []

(** val print_dir : dir -> text **)

let print_dir d =
  (dir_letter d) :: []

(** val print_square : square -> text **)

let print_square s =
  (sq_column_char s) :: (print_dec (sq_row s))

(** val print_action : action -> text **)

let print_action = function
| Place k -> print_piece k
| Move (s, d) -> app (print_square s) (print_dir d)
| Pass -> (Npos (XO (XO (XO (XO (XI (XI XH))))))) :: []

(** val assoc : n -> (n * 'a1) list -> 'a1 option **)

let rec assoc c = function
| [] -> None
| p :: r -> let (c', v) = p in if N.eqb c c' then Some v else assoc c r

(** val parse_piece : text -> piece outcome **)

let parse_piece = function
| [] -> Err
| c :: l ->
  (match l with
   | [] ->
     (match assoc c piece_of_letter_table with
      | Some k -> Ok k
      | None -> Err)
   | _ :: _ -> Err)

(** val parse_dir : text -> dir outcome **)

let parse_dir = function
| [] -> Err
| c :: l ->
  (match l with
   | [] ->
     (match assoc c dir_of_letter_table with
      | Some d -> Ok d
      | None -> Err)
   | _ :: _ -> Err)

(** val is_ascii_digit : n -> bool **)

let is_ascii_digit c =
  (&&) (N.leb (Npos (XO (XO (XO (XO (XI XH)))))) c)
    (N.leb c (Npos (XI (XO (XO (XI (XI XH)))))))

(** val parse_square_orig : bool -> text -> square outcome **)

let parse_square_orig dbg = function
| [] -> Err
| column :: l ->
  (match l with
   | [] -> Err
   | row :: l0 ->
     (match l0 with
      | [] ->
        if is_ascii_digit row
        then let r = N.sub row (Npos (XO (XO (XO (XO (XI XH)))))) in
             let cu =
               N.modulo column (Npos (XO (XO (XO (XO (XO (XO (XO (XO
                 XH)))))))))
             in
             if (&&) dbg (N.ltb cu aSCII_LETTER_A)
             then Panic
             else let c1 =
                    N.modulo
                      (N.sub
                        (N.add cu (Npos (XO (XO (XO (XO (XO (XO (XO (XO
                          XH)))))))))) aSCII_LETTER_A) (Npos (XO (XO (XO (XO
                      (XO (XO (XO (XO XH)))))))))
                  in
                  if (&&) dbg
                       (N.eqb c1 (Npos (XI (XI (XI (XI (XI (XI (XI XH)))))))))
                  then Panic
                  else let num =
                         N.modulo (N.add c1 (Npos XH)) (Npos (XO (XO (XO (XO
                           (XO (XO (XO (XO XH)))))))))
                       in
                       if (&&)
                            ((&&)
                              ((&&) (N.leb (Npos XH) num)
                                (N.leb num
                                  (N.modulo bOARD_WIDTH (Npos (XO (XO (XO (XO
                                    (XO (XO (XO (XO XH))))))))))))
                              (N.leb (Npos XH) r)) (N.leb r bOARD_HEIGHT)
                       then Ok (sq_new column r)
                       else Err
        else Err
      | _ :: _ -> Err))

(** val parse_action_orig : bool -> text -> action outcome **)

let parse_action_orig dbg = function
| [] -> Err
| c0 :: l ->
  (match l with
   | [] ->
     if N.eqb c0 (Npos (XO (XO (XO (XO (XI (XI XH)))))))
     then Ok Pass
     else (match parse_piece (c0 :: []) with
           | Ok k -> Ok (Place k)
           | _ -> Err)
   | c1 :: l0 ->
     (match l0 with
      | [] -> Err
      | c2 :: l1 ->
        (match l1 with
         | [] ->
           let l2 = utf8_len c0 in
           let l3 = utf8_len c1 in
           if N.eqb l2 (Npos (XO XH))
           then Err
           else if (&&) (N.eqb l2 (Npos XH)) (N.eqb l3 (Npos XH))
                then (match parse_square_orig dbg (c0 :: (c1 :: [])) with
                      | Ok s ->
                        (match parse_dir (c2 :: []) with
                         | Ok d -> Ok (Move (s, d))
                         | Err -> Err
                         | Panic -> Panic)
                      | Err -> Err
                      | Panic -> Panic)
                else Panic
         | _ :: _ -> Err)))

(** val wHITE_SPACE : (n * n) list **)

let wHITE_SPACE =
  ((Npos (XI (XO (XO XH)))), (Npos (XI (XO (XI XH))))) :: (((Npos (XO (XO (XO
    (XO (XO XH)))))), (Npos (XO (XO (XO (XO (XO XH))))))) :: (((Npos (XI (XO
    (XI (XO (XO (XO (XO XH)))))))), (Npos (XI (XO (XI (XO (XO (XO (XO
    XH))))))))) :: (((Npos (XO (XO (XO (XO (XO (XI (XO XH)))))))), (Npos (XO
    (XO (XO (XO (XO (XI (XO XH))))))))) :: (((Npos (XO (XO (XO (XO (XO (XO
    (XO (XI (XO (XI (XI (XO XH))))))))))))), (Npos (XO (XO (XO (XO (XO (XO
    (XO (XI (XO (XI (XI (XO XH)))))))))))))) :: (((Npos (XO (XO (XO (XO (XO
    (XO (XO (XO (XO (XO (XO (XO (XO XH)))))))))))))), (Npos (XO (XI (XO (XI
    (XO (XO (XO (XO (XO (XO (XO (XO (XO XH))))))))))))))) :: (((Npos (XO (XO
    (XO (XI (XO (XI (XO (XO (XO (XO (XO (XO (XO XH)))))))))))))), (Npos (XI
    (XO (XO (XI (XO (XI (XO (XO (XO (XO (XO (XO (XO
    XH))))))))))))))) :: (((Npos (XI (XI (XI (XI (XO (XI (XO (XO (XO (XO (XO
    (XO (XO XH)))))))))))))), (Npos (XI (XI (XI (XI (XO (XI (XO (XO (XO (XO
    (XO (XO (XO XH))))))))))))))) :: (((Npos (XI (XI (XI (XI (XI (XO (XI (XO
    (XO (XO (XO (XO (XO XH)))))))))))))), (Npos (XI (XI (XI (XI (XI (XO (XI
    (XO (XO (XO (XO (XO (XO XH))))))))))))))) :: (((Npos (XO (XO (XO (XO (XO
    (XO (XO (XO (XO (XO (XO (XO (XI XH)))))))))))))), (Npos (XO (XO (XO (XO
    (XO (XO (XO (XO (XO (XO (XO (XO (XI XH))))))))))))))) :: [])))))))))

(** val dECIMAL_NUMBER : (n * n) list **)

let dECIMAL_NUMBER =
  ((Npos (XO (XO (XO (XO (XI XH)))))), (Npos (XI (XO (XO (XI (XI
    XH))))))) :: (((Npos (XO (XO (XO (XO (XO (XI (XI (XO (XO (XI
    XH))))))))))), (Npos (XI (XO (XO (XI (XO (XI (XI (XO (XO (XI
    XH)))))))))))) :: (((Npos (XO (XO (XO (XO (XI (XI (XI (XI (XO (XI
    XH))))))))))), (Npos (XI (XO (XO (XI (XI (XI (XI (XI (XO (XI
    XH)))))))))))) :: (((Npos (XO (XO (XO (XO (XO (XO (XI (XI (XI (XI
    XH))))))))))), (Npos (XI (XO (XO (XI (XO (XO (XI (XI (XI (XI
    XH)))))))))))) :: (((Npos (XO (XI (XI (XO (XO (XI (XI (XO (XI (XO (XO
    XH)))))))))))), (Npos (XI (XI (XI (XI (XO (XI (XI (XO (XI (XO (XO
    XH))))))))))))) :: (((Npos (XO (XI (XI (XO (XO (XI (XI (XI (XI (XO (XO
    XH)))))))))))), (Npos (XI (XI (XI (XI (XO (XI (XI (XI (XI (XO (XO
    XH))))))))))))) :: (((Npos (XO (XI (XI (XO (XO (XI (XI (XO (XO (XI (XO
    XH)))))))))))), (Npos (XI (XI (XI (XI (XO (XI (XI (XO (XO (XI (XO
    XH))))))))))))) :: (((Npos (XO (XI (XI (XO (XO (XI (XI (XI (XO (XI (XO
    XH)))))))))))), (Npos (XI (XI (XI (XI (XO (XI (XI (XI (XO (XI (XO
    XH))))))))))))) :: (((Npos (XO (XI (XI (XO (XO (XI (XI (XO (XI (XI (XO
    XH)))))))))))), (Npos (XI (XI (XI (XI (XO (XI (XI (XO (XI (XI (XO
    XH))))))))))))) :: (((Npos (XO (XI (XI (XO (XO (XI (XI (XI (XI (XI (XO
    XH)))))))))))), (Npos (XI (XI (XI (XI (XO (XI (XI (XI (XI (XI (XO
    XH))))))))))))) :: (((Npos (XO (XI (XI (XO (XO (XI (XI (XO (XO (XO (XI
    XH)))))))))))), (Npos (XI (XI (XI (XI (XO (XI (XI (XO (XO (XO (XI
    XH))))))))))))) :: (((Npos (XO (XI (XI (XO (XO (XI (XI (XI (XO (XO (XI
    XH)))))))))))), (Npos (XI (XI (XI (XI (XO (XI (XI (XI (XO (XO (XI
    XH))))))))))))) :: (((Npos (XO (XI (XI (XO (XO (XI (XI (XO (XI (XO (XI
    XH)))))))))))), (Npos (XI (XI (XI (XI (XO (XI (XI (XO (XI (XO (XI
    XH))))))))))))) :: (((Npos (XO (XI (XI (XO (XO (XI (XI (XI (XI (XO (XI
    XH)))))))))))), (Npos (XI (XI (XI (XI (XO (XI (XI (XI (XI (XO (XI
    XH))))))))))))) :: (((Npos (XO (XO (XO (XO (XI (XO (XI (XO (XO (XI (XI
    XH)))))))))))), (Npos (XI (XO (XO (XI (XI (XO (XI (XO (XO (XI (XI
    XH))))))))))))) :: (((Npos (XO (XO (XO (XO (XI (XO (XI (XI (XO (XI (XI
    XH)))))))))))), (Npos (XI (XO (XO (XI (XI (XO (XI (XI (XO (XI (XI
    XH))))))))))))) :: (((Npos (XO (XO (XO (XO (XO (XI (XO (XO (XI (XI (XI
    XH)))))))))))), (Npos (XI (XO (XO (XI (XO (XI (XO (XO (XI (XI (XI
    XH))))))))))))) :: (((Npos (XO (XO (XO (XO (XO (XO (XI (XO (XO (XO (XO
    (XO XH))))))))))))), (Npos (XI (XO (XO (XI (XO (XO (XI (XO (XO (XO (XO
    (XO XH)))))))))))))) :: (((Npos (XO (XO (XO (XO (XI (XO (XO (XI (XO (XO
    (XO (XO XH))))))))))))), (Npos (XI (XO (XO (XI (XI (XO (XO (XI (XO (XO
    (XO (XO XH)))))))))))))) :: (((Npos (XO (XO (XO (XO (XO (XI (XI (XI (XI
    (XI (XI (XO XH))))))))))))), (Npos (XI (XO (XO (XI (XO (XI (XI (XI (XI
    (XI (XI (XO XH)))))))))))))) :: (((Npos (XO (XO (XO (XO (XI (XO (XO (XO
    (XO (XO (XO (XI XH))))))))))))), (Npos (XI (XO (XO (XI (XI (XO (XO (XO
    (XO (XO (XO (XI XH)))))))))))))) :: (((Npos (XO (XI (XI (XO (XO (XO (XI
    (XO (XI (XO (XO (XI XH))))))))))))), (Npos (XI (XI (XI (XI (XO (XO (XI
    (XO (XI (XO (XO (XI XH)))))))))))))) :: (((Npos (XO (XO (XO (XO (XI (XO
    (XI (XI (XI (XO (XO (XI XH))))))))))))), (Npos (XI (XO (XO (XI (XI (XO
    (XI (XI (XI (XO (XO (XI XH)))))))))))))) :: (((Npos (XO (XO (XO (XO (XO
    (XO (XO (XI (XO (XI (XO (XI XH))))))))))))), (Npos (XI (XO (XO (XI (XO
    (XO (XO (XI (XO (XI (XO (XI XH)))))))))))))) :: (((Npos (XO (XO (XO (XO
    (XI (XO (XO (XI (XO (XI (XO (XI XH))))))))))))), (Npos (XI (XO (XO (XI
    (XI (XO (XO (XI (XO (XI (XO (XI XH)))))))))))))) :: (((Npos (XO (XO (XO
    (XO (XI (XO (XI (XO (XI (XI (XO (XI XH))))))))))))), (Npos (XI (XO (XO
    (XI (XI (XO (XI (XO (XI (XI (XO (XI XH)))))))))))))) :: (((Npos (XO (XO
    (XO (XO (XI (XI (XO (XI (XI (XI (XO (XI XH))))))))))))), (Npos (XI (XO
    (XO (XI (XI (XI (XO (XI (XI (XI (XO (XI XH)))))))))))))) :: (((Npos (XO
    (XO (XO (XO (XO (XO (XI (XO (XO (XO (XI (XI XH))))))))))))), (Npos (XI
    (XO (XO (XI (XO (XO (XI (XO (XO (XO (XI (XI XH)))))))))))))) :: (((Npos
    (XO (XO (XO (XO (XI (XO (XI (XO (XO (XO (XI (XI XH))))))))))))), (Npos
    (XI (XO (XO (XI (XI (XO (XI (XO (XO (XO (XI (XI
    XH)))))))))))))) :: (((Npos (XO (XO (XO (XO (XO (XI (XO (XO (XO (XI (XI
    (XO (XO (XI (XO XH)))))))))))))))), (Npos (XI (XO (XO (XI (XO (XI (XO (XO
    (XO (XI (XI (XO (XO (XI (XO XH))))))))))))))))) :: (((Npos (XO (XO (XO
    (XO (XI (XO (XI (XI (XO (XO (XO (XI (XO (XI (XO XH)))))))))))))))), (Npos
    (XI (XO (XO (XI (XI (XO (XI (XI (XO (XO (XO (XI (XO (XI (XO
    XH))))))))))))))))) :: (((Npos (XO (XO (XO (XO (XO (XO (XO (XO (XI (XO
    (XO (XI (XO (XI (XO XH)))))))))))))))), (Npos (XI (XO (XO (XI (XO (XO (XO
    (XO (XI (XO (XO (XI (XO (XI (XO XH))))))))))))))))) :: (((Npos (XO (XO
    (XO (XO (XI (XO (XI (XI (XI (XO (XO (XI (XO (XI (XO XH)))))))))))))))),
    (Npos (XI (XO (XO (XI (XI (XO (XI (XI (XI (XO (XO (XI (XO (XI (XO
    XH))))))))))))))))) :: (((Npos (XO (XO (XO (XO (XI (XI (XI (XI (XI (XO
    (XO (XI (XO (XI (XO XH)))))))))))))))), (Npos (XI (XO (XO (XI (XI (XI (XI
    (XI (XI (XO (XO (XI (XO (XI (XO XH))))))))))))))))) :: (((Npos (XO (XO
    (XO (XO (XI (XO (XI (XO (XO (XI (XO (XI (XO (XI (XO XH)))))))))))))))),
    (Npos (XI (XO (XO (XI (XI (XO (XI (XO (XO (XI (XO (XI (XO (XI (XO
    XH))))))))))))))))) :: (((Npos (XO (XO (XO (XO (XI (XI (XI (XI (XI (XI
    (XO (XI (XO (XI (XO XH)))))))))))))))), (Npos (XI (XO (XO (XI (XI (XI (XI
    (XI (XI (XI (XO (XI (XO (XI (XO XH))))))))))))))))) :: (((Npos (XO (XO
    (XO (XO (XI (XO (XO (XO (XI (XI (XI (XI (XI (XI (XI XH)))))))))))))))),
    (Npos (XI (XO (XO (XI (XI (XO (XO (XO (XI (XI (XI (XI (XI (XI (XI
    XH))))))))))))))))) :: (((Npos (XO (XO (XO (XO (XO (XI (XO (XI (XO (XO
    (XI (XO (XO (XO (XO (XO XH))))))))))))))))), (Npos (XI (XO (XO (XI (XO
    (XI (XO (XI (XO (XO (XI (XO (XO (XO (XO (XO
    XH)))))))))))))))))) :: (((Npos (XO (XO (XO (XO (XI (XI (XO (XO (XI (XO
    (XI (XI (XO (XO (XO (XO XH))))))))))))))))), (Npos (XI (XO (XO (XI (XI
    (XI (XO (XO (XI (XO (XI (XI (XO (XO (XO (XO
    XH)))))))))))))))))) :: (((Npos (XO (XI (XI (XO (XO (XI (XI (XO (XO (XO
    (XO (XO (XI (XO (XO (XO XH))))))))))))))))), (Npos (XI (XI (XI (XI (XO
    (XI (XI (XO (XO (XO (XO (XO (XI (XO (XO (XO
    XH)))))))))))))))))) :: (((Npos (XO (XO (XO (XO (XI (XI (XI (XI (XO (XO
    (XO (XO (XI (XO (XO (XO XH))))))))))))))))), (Npos (XI (XO (XO (XI (XI
    (XI (XI (XI (XO (XO (XO (XO (XI (XO (XO (XO
    XH)))))))))))))))))) :: (((Npos (XO (XI (XI (XO (XI (XI (XO (XO (XI (XO
    (XO (XO (XI (XO (XO (XO XH))))))))))))))))), (Npos (XI (XI (XI (XI (XI
    (XI (XO (XO (XI (XO (XO (XO (XI (XO (XO (XO
    XH)))))))))))))))))) :: (((Npos (XO (XO (XO (XO (XI (XO (XI (XI (XI (XO
    (XO (XO (XI (XO (XO (XO XH))))))))))))))))), (Npos (XI (XO (XO (XI (XI
    (XO (XI (XI (XI (XO (XO (XO (XI (XO (XO (XO
    XH)))))))))))))))))) :: (((Npos (XO (XO (XO (XO (XI (XI (XI (XI (XO (XI
    (XO (XO (XI (XO (XO (XO XH))))))))))))))))), (Npos (XI (XO (XO (XI (XI
    (XI (XI (XI (XO (XI (XO (XO (XI (XO (XO (XO
    XH)))))))))))))))))) :: (((Npos (XO (XO (XO (XO (XI (XO (XI (XO (XO (XO
    (XI (XO (XI (XO (XO (XO XH))))))))))))))))), (Npos (XI (XO (XO (XI (XI
    (XO (XI (XO (XO (XO (XI (XO (XI (XO (XO (XO
    XH)))))))))))))))))) :: (((Npos (XO (XO (XO (XO (XI (XO (XI (XI (XO (XO
    (XI (XO (XI (XO (XO (XO XH))))))))))))))))), (Npos (XI (XO (XO (XI (XI
    (XO (XI (XI (XO (XO (XI (XO (XI (XO (XO (XO
    XH)))))))))))))))))) :: (((Npos (XO (XO (XO (XO (XI (XO (XI (XO (XO (XI
    (XI (XO (XI (XO (XO (XO XH))))))))))))))))), (Npos (XI (XO (XO (XI (XI
    (XO (XI (XO (XO (XI (XI (XO (XI (XO (XO (XO
    XH)))))))))))))))))) :: (((Npos (XO (XO (XO (XO (XO (XO (XI (XI (XO (XI
    (XI (XO (XI (XO (XO (XO XH))))))))))))))))), (Npos (XI (XO (XO (XI (XO
    (XO (XI (XI (XO (XI (XI (XO (XI (XO (XO (XO
    XH)))))))))))))))))) :: (((Npos (XO (XO (XO (XO (XI (XI (XO (XO (XI (XI
    (XI (XO (XI (XO (XO (XO XH))))))))))))))))), (Npos (XI (XO (XO (XI (XI
    (XI (XO (XO (XI (XI (XI (XO (XI (XO (XO (XO
    XH)))))))))))))))))) :: (((Npos (XO (XO (XO (XO (XO (XI (XI (XI (XO (XO
    (XO (XI (XI (XO (XO (XO XH))))))))))))))))), (Npos (XI (XO (XO (XI (XO
    (XI (XI (XI (XO (XO (XO (XI (XI (XO (XO (XO
    XH)))))))))))))))))) :: (((Npos (XO (XO (XO (XO (XI (XO (XI (XO (XI (XO
    (XO (XI (XI (XO (XO (XO XH))))))))))))))))), (Npos (XI (XO (XO (XI (XI
    (XO (XI (XO (XI (XO (XO (XI (XI (XO (XO (XO
    XH)))))))))))))))))) :: (((Npos (XO (XO (XO (XO (XI (XO (XI (XO (XO (XO
    (XI (XI (XI (XO (XO (XO XH))))))))))))))))), (Npos (XI (XO (XO (XI (XI
    (XO (XI (XO (XO (XO (XI (XI (XI (XO (XO (XO
    XH)))))))))))))))))) :: (((Npos (XO (XO (XO (XO (XI (XO (XI (XO (XI (XO
    (XI (XI (XI (XO (XO (XO XH))))))))))))))))), (Npos (XI (XO (XO (XI (XI
    (XO (XI (XO (XI (XO (XI (XI (XI (XO (XO (XO
    XH)))))))))))))))))) :: (((Npos (XO (XO (XO (XO (XO (XI (XO (XI (XI (XO
    (XI (XI (XI (XO (XO (XO XH))))))))))))))))), (Npos (XI (XO (XO (XI (XO
    (XI (XO (XI (XI (XO (XI (XI (XI (XO (XO (XO
    XH)))))))))))))))))) :: (((Npos (XO (XO (XO (XO (XO (XI (XI (XO (XO (XI
    (XO (XI (XO (XI (XI (XO XH))))))))))))))))), (Npos (XI (XO (XO (XI (XO
    (XI (XI (XO (XO (XI (XO (XI (XO (XI (XI (XO
    XH)))))))))))))))))) :: (((Npos (XO (XO (XO (XO (XI (XO (XI (XO (XI (XI
    (XO (XI (XO (XI (XI (XO XH))))))))))))))))), (Npos (XI (XO (XO (XI (XI
    (XO (XI (XO (XI (XI (XO (XI (XO (XI (XI (XO
    XH)))))))))))))))))) :: (((Npos (XO (XI (XI (XI (XO (XO (XI (XI (XI (XI
    (XI (XO (XI (XO (XI (XI XH))))))))))))))))), (Npos (XI (XI (XI (XI (XI
    (XI (XI (XI (XI (XI (XI (XO (XI (XO (XI (XI
    XH)))))))))))))))))) :: (((Npos (XO (XO (XO (XO (XO (XO (XI (XO (XI (XO
    (XO (XO (XO (XI (XI (XI XH))))))))))))))))), (Npos (XI (XO (XO (XI (XO
    (XO (XI (XO (XI (XO (XO (XO (XO (XI (XI (XI
    XH)))))))))))))))))) :: (((Npos (XO (XO (XO (XO (XI (XI (XI (XI (XO (XI
    (XO (XO (XO (XI (XI (XI XH))))))))))))))))), (Npos (XI (XO (XO (XI (XI
    (XI (XI (XI (XO (XI (XO (XO (XO (XI (XI (XI
    XH)))))))))))))))))) :: (((Npos (XO (XO (XO (XO (XI (XO (XI (XO (XI (XO
    (XO (XI (XO (XI (XI (XI XH))))))))))))))))), (Npos (XI (XO (XO (XI (XI
    (XO (XI (XO (XI (XO (XO (XI (XO (XI (XI (XI
    XH)))))))))))))))))) :: (((Npos (XO (XO (XO (XO (XI (XI (XI (XI (XI (XI
    (XO (XI (XI (XI (XI (XI XH))))))))))))))))), (Npos (XI (XO (XO (XI (XI
    (XI (XI (XI (XI (XI (XO (XI (XI (XI (XI (XI
    XH)))))))))))))))))) :: []))))))))))))))))))))))))))))))))))))))))))))))))))))))))))))

(** val str : string -> text **)

let str s =
  map n_of_ascii (list_ascii_of_string s)

(** val in_ranges : n -> (n * n) list -> bool **)

let in_ranges c t =
  existsb (fun r -> (&&) (N.leb (fst r) c) (N.leb c (snd r))) t

(** val is_space : n -> bool **)

let is_space c =
  in_ranges c wHITE_SPACE

(** val is_digit : n -> bool **)

let is_digit c =
  in_ranges c dECIMAL_NUMBER

(** val to_ascii_lower : n -> n **)

let to_ascii_lower c =
  if (&&) (N.leb (Npos (XI (XO (XO (XO (XO (XO XH))))))) c)
       (N.leb c (Npos (XO (XI (XO (XI (XI (XO XH))))))))
  then N.add c (Npos (XO (XO (XO (XO (XO XH))))))
  else c

(** val is_ascii_upper : n -> bool **)

let is_ascii_upper c =
  (&&) (N.leb (Npos (XI (XO (XO (XO (XO (XO XH))))))) c)
    (N.leb c (Npos (XO (XI (XO (XI (XI (XO XH))))))))

(** val convert_piece_to_letter : piece -> bool -> n **)

let convert_piece_to_letter k = function
| true -> diagram_upper_letter k
| false -> to_ascii_lower (diagram_upper_letter k)

(** val is_p1_piece : n -> pbs -> bool **)

let is_p1_piece bit b =
  negb (N.eqb (N.coq_land bit (player_piece_mask b true)) N0)

(** val square_letter : pbs -> n -> n **)

let square_letter b idx =
  match piece_type_at_square b idx with
  | Some k -> convert_piece_to_letter k (is_p1_piece (sq_as_bit_board idx) b)
  | None ->
    if existsb (N.eqb idx) dIAGRAM_TRAP_INDICES
    then Npos (XO (XO (XO (XI (XI (XI XH))))))
    else Npos (XO (XO (XO (XO (XO XH)))))

(** val idx8 : n list **)

let idx8 =
  N0 :: ((Npos XH) :: ((Npos (XO XH)) :: ((Npos (XI XH)) :: ((Npos (XO (XO
    XH))) :: ((Npos (XI (XO XH))) :: ((Npos (XO (XI XH))) :: ((Npos (XI (XI
    XH))) :: [])))))))

(** val print_row : pbs -> n -> text **)

let print_row b row_idx =
  app (print_dec (N.sub bOARD_HEIGHT row_idx))
    (app ((Npos (XO (XO (XI (XI (XI (XI XH))))))) :: [])
      (app
        (flat_map (fun col_idx -> (Npos (XO (XO (XO (XO (XO
          XH)))))) :: ((square_letter b
                         (N.modulo
                           (N.add (N.mul row_idx bOARD_WIDTH) col_idx) (Npos
                           (XO (XO (XO (XO (XO (XO (XO (XO XH))))))))))) :: []))
          idx8)
        (app
          (str (String ((Ascii (false, false, false, false, false, true,
            false, false)), (String ((Ascii (false, false, true, true, true,
            true, true, false)), EmptyString))))) ((Npos (XO (XI (XO
          XH)))) :: []))))

(** val border : text **)

let border =
  app
    (str (String ((Ascii (false, false, false, false, false, true, false,
      false)), (String ((Ascii (true, true, false, true, false, true, false,
      false)), (String ((Ascii (true, false, true, true, false, true, false,
      false)), (String ((Ascii (true, false, true, true, false, true, false,
      false)), (String ((Ascii (true, false, true, true, false, true, false,
      false)), (String ((Ascii (true, false, true, true, false, true, false,
      false)), (String ((Ascii (true, false, true, true, false, true, false,
      false)), (String ((Ascii (true, false, true, true, false, true, false,
      false)), (String ((Ascii (true, false, true, true, false, true, false,
      false)), (String ((Ascii (true, false, true, true, false, true, false,
      false)), (String ((Ascii (true, false, true, true, false, true, false,
      false)), (String ((Ascii (true, false, true, true, false, true, false,
      false)), (String ((Ascii (true, false, true, true, false, true, false,
      false)), (String ((Ascii (true, false, true, true, false, true, false,
      false)), (String ((Ascii (true, false, true, true, false, true, false,
      false)), (String ((Ascii (true, false, true, true, false, true, false,
      false)), (String ((Ascii (true, false, true, true, false, true, false,
      false)), (String ((Ascii (true, false, true, true, false, true, false,
      false)), (String ((Ascii (true, false, true, true, false, true, false,
      false)), (String ((Ascii (true, true, false, true, false, true, false,
      false)), EmptyString))))))))))))))))))))))))))))))))))))))))) ((Npos
    (XO (XI (XO XH)))) :: [])

(** val footer : text **)

let footer =
  app
    (str (String ((Ascii (false, false, false, false, false, true, false,
      false)), (String ((Ascii (false, false, false, false, false, true,
      false, false)), (String ((Ascii (false, false, false, false, false,
      true, false, false)), (String ((Ascii (true, false, false, false,
      false, true, true, false)), (String ((Ascii (false, false, false,
      false, false, true, false, false)), (String ((Ascii (false, true,
      false, false, false, true, true, false)), (String ((Ascii (false,
      false, false, false, false, true, false, false)), (String ((Ascii
      (true, true, false, false, false, true, true, false)), (String ((Ascii
      (false, false, false, false, false, true, false, false)), (String
      ((Ascii (false, false, true, false, false, true, true, false)), (String
      ((Ascii (false, false, false, false, false, true, false, false)),
      (String ((Ascii (true, false, true, false, false, true, true, false)),
      (String ((Ascii (false, false, false, false, false, true, false,
      false)), (String ((Ascii (false, true, true, false, false, true, true,
      false)), (String ((Ascii (false, false, false, false, false, true,
      false, false)), (String ((Ascii (true, true, true, false, false, true,
      true, false)), (String ((Ascii (false, false, false, false, false,
      true, false, false)), (String ((Ascii (false, false, false, true,
      false, true, true, false)),
      EmptyString))))))))))))))))))))))))))))))))))))) ((Npos (XO (XI (XO
    XH)))) :: [])

(** val print_state : state -> text **)

let print_state s =
  app (print_dec s.move_no)
    (app
      ((if s.side
        then Npos (XI (XI (XI (XO (XO (XI XH))))))
        else Npos (XI (XI (XO (XO (XI (XI XH))))))) :: [])
      (app ((Npos (XO (XI (XO XH)))) :: [])
        (app border
          (app (flat_map (print_row s.board) idx8) (app border footer)))))

(** val split_on : n -> text -> text list **)

let rec split_on sep = function
| [] -> [] :: []
| c :: r ->
  if N.eqb c sep
  then [] :: (split_on sep r)
  else (match split_on sep r with
        | [] -> (c :: []) :: []
        | seg :: segs -> (c :: seg) :: segs)

(** val odd_elems : 'a1 list -> 'a1 list **)

let rec odd_elems = function
| [] -> []
| _ :: l0 -> (match l0 with
              | [] -> []
              | x :: r -> x :: (odd_elems r))

(** val drop_while : (n -> bool) -> text -> text **)

let rec drop_while p t = match t with
| [] -> []
| c :: r -> if p c then drop_while p r else t

(** val take_while : (n -> bool) -> text -> text **)

let rec take_while p = function
| [] -> []
| c :: r -> if p c then c :: (take_while p r) else []

(** val header_match : text -> (text * n) option **)

let header_match seg =
  let t = drop_while is_space seg in
  let ds = take_while is_digit t in
  (match ds with
   | [] -> None
   | _ :: _ ->
     (match drop_while is_digit t with
      | [] -> None
      | c :: _ ->
        if existsb (N.eqb c) ((Npos (XI (XI (XI (XO (XO (XI
             XH))))))) :: ((Npos (XI (XI (XO (XO (XI (XI XH))))))) :: ((Npos
             (XI (XI (XI (XO (XI (XI XH))))))) :: ((Npos (XO (XI (XO (XO (XO
             (XI XH))))))) :: []))))
        then Some (ds, c)
        else None))

(** val parse_usize : text -> n option **)

let parse_usize ds =
  if forallb is_ascii_digit ds
  then let v =
         fold_left (fun acc c ->
           N.add (N.mul acc (Npos (XO (XI (XO XH)))))
             (N.sub c (Npos (XO (XO (XO (XO (XI XH)))))))) ds N0
       in
       if N.ltb v p64 then Some v else None
  else None

(** val enumerate_from : n -> 'a1 list -> (n * 'a1) list **)

let rec enumerate_from i = function
| [] -> []
| x :: r -> (i, x) :: (enumerate_from (N.add i (Npos XH)) r)

type acc7 = { a_p1 : n; a_e : n; a_m : n; a_h : n; a_d : n; a_c : n; a_r : 
              n; a_panic : bool; a_oob : bool }

(** val add_piece : acc7 -> piece -> bool -> n -> acc7 **)

let add_piece a k is_p1 bit =
  let f = fun t x -> if piece_eqb k t then N.coq_lor x bit else x in
  { a_p1 = (if is_p1 then N.coq_lor a.a_p1 bit else a.a_p1); a_e =
  (f Elephant a.a_e); a_m = (f Camel a.a_m); a_h = (f Horse a.a_h); a_d =
  (f Dog a.a_d); a_c = (f Cat a.a_c); a_r = (f Rabbit a.a_r); a_panic =
  a.a_panic; a_oob = a.a_oob }

(** val scan_cell : n -> n -> n -> acc7 -> acc7 **)

let scan_cell row_idx col_idx c a =
  match assoc c diagram_piece_of_letter_table with
  | Some k ->
    let idx =
      N.modulo (N.add (N.mul row_idx bOARD_WIDTH) col_idx) (Npos (XO (XO (XO
        (XO (XO (XO (XO (XO XH)))))))))
    in
    let a' = add_piece a k (is_ascii_upper c) (sq_as_bit_board idx) in
    { a_p1 = a'.a_p1; a_e = a'.a_e; a_m = a'.a_m; a_h = a'.a_h; a_d = a'.a_d;
    a_c = a'.a_c; a_r = a'.a_r; a_panic =
    ((||) a.a_panic (N.leb (Npos (XO (XO (XO (XO (XO (XO XH))))))) idx));
    a_oob =
    ((||) ((||) a.a_oob (N.leb bOARD_HEIGHT row_idx))
      (N.leb bOARD_WIDTH col_idx)) }
  | None -> a

(** val scan_board : text list -> acc7 **)

let scan_board lines =
  fold_left (fun a rl ->
    fold_left (fun a0 cc -> scan_cell (fst rl) (fst cc) (snd cc) a0)
      (enumerate_from N0 (odd_elems (snd rl))) a) (enumerate_from N0 lines)
    { a_p1 = N0; a_e = N0; a_m = N0; a_h = N0; a_d = N0; a_c = N0; a_r = N0;
    a_panic = false; a_oob = false }

(** val state_of_parse : bool -> n -> acc7 -> state **)

let state_of_parse p1_to_move mv a =
  let b = pb_new a.a_p1 a.a_e a.a_m a.a_h a.a_d a.a_c a.a_r in
  let h = z_from_piece_board b p1_to_move N0 in
  { side = p1_to_move; move_no = mv; ph = (PlayPhase
  (play_initial h (h :: []))); board = b; hash = h }

(** val parse_state_orig : bool -> text -> state outcome **)

let parse_state_orig dbg t =
  let segs = split_on (Npos (XO (XO (XI (XI (XI (XI XH))))))) t in
  let lines = odd_elems segs in
  let hdr = match segs with
            | [] -> []
            | s :: _ -> s in
  let header =
    match header_match hdr with
    | Some p ->
      let (ds, c) = p in
      (match parse_usize ds with
       | Some v -> Ok (v, (negb (existsb (N.eqb c) dIAGRAM_SILVER_LETTERS)))
       | None -> Panic)
    | None -> Ok (dIAGRAM_DEFAULT_MOVE, dIAGRAM_DEFAULT_P1)
  in
  (match header with
   | Ok a ->
     let (mv, p1tm) = a in
     let a0 = scan_board lines in
     if (&&) dbg a0.a_panic then Panic else Ok (state_of_parse p1tm mv a0)
   | Err -> Err
   | Panic -> Panic)

(** val piece_code : piece -> n **)

let piece_code = function
| Rabbit -> N0
| Cat -> Npos XH
| Dog -> Npos (XO XH)
| Horse -> Npos (XI XH)
| Camel -> Npos (XO (XO XH))
| Elephant -> Npos (XI (XO XH))

(** val piece_of_code : n -> piece option **)

let piece_of_code = function
| N0 -> Some Rabbit
| Npos p ->
  (match p with
   | XI p0 ->
     (match p0 with
      | XI _ -> None
      | XO p2 -> (match p2 with
                  | XH -> Some Elephant
                  | _ -> None)
      | XH -> Some Horse)
   | XO p0 ->
     (match p0 with
      | XI _ -> None
      | XO p2 -> (match p2 with
                  | XH -> Some Camel
                  | _ -> None)
      | XH -> Some Dog)
   | XH -> Some Cat)

(** val dir_code : dir -> n **)

let dir_code = function
| Up -> N0
| Right -> Npos XH
| Down -> Npos (XO XH)
| Left -> Npos (XI XH)

(** val dir_of_code : n -> dir option **)

let dir_of_code = function
| N0 -> Some Up
| Npos p ->
  (match p with
   | XI p0 -> (match p0 with
               | XH -> Some Left
               | _ -> None)
   | XO p0 -> (match p0 with
               | XH -> Some Down
               | _ -> None)
   | XH -> Some Right)

(** val enc_action : action -> n **)

let enc_action = function
| Place k -> N.add (Npos XH) (piece_code k)
| Move (s, d) ->
  N.add (N.add (Npos (XO (XO (XO (XO XH))))) (N.mul s (Npos (XO (XO XH)))))
    (dir_code d)
| Pass -> N0

(** val dec_action : n -> action option **)

let dec_action n0 =
  if N.eqb n0 N0
  then Some Pass
  else if N.ltb n0 (Npos (XI (XI XH)))
       then option_map (fun x -> Place x) (piece_of_code (N.sub n0 (Npos XH)))
       else if N.ltb n0 (Npos (XO (XO (XO (XO XH)))))
            then None
            else option_map (fun x -> Move
                   ((N.div (N.sub n0 (Npos (XO (XO (XO (XO XH)))))) (Npos (XO
                      (XO XH)))), x))
                   (dir_of_code
                     (N.modulo (N.sub n0 (Npos (XO (XO (XO (XO XH)))))) (Npos
                       (XO (XO XH)))))

(** val enc_bool : bool -> n **)

let enc_bool = function
| true -> Npos XH
| false -> N0

(** val enc_pbs : pbs -> n list **)

let enc_pbs b =
  b.p1 :: (b.allp :: (b.el :: (b.ca :: (b.ho :: (b.dg :: (b.ct :: (b.rb :: [])))))))

(** val enc_pps : pps -> n list **)

let enc_pps = function
| PPNone -> N0 :: (N0 :: (N0 :: []))
| PossiblePull (s, k) -> (Npos XH) :: (s :: ((piece_code k) :: []))
| MustCompletePush (s, k) -> (Npos (XO XH)) :: (s :: ((piece_code k) :: []))

(** val enc_terminal : terminal option -> n **)

let enc_terminal = function
| Some t0 -> (match t0 with
              | GoldWin -> Npos XH
              | SilverWin -> Npos (XO XH))
| None -> N0

(** val enc_state : state -> n list **)

let enc_state s =
  app (enc_pbs s.board)
    (app ((enc_bool s.side) :: (s.move_no :: (s.hash :: [])))
      (match s.ph with
       | PlacePhase -> N0 :: []
       | PlayPhase pp ->
         app ((Npos XH) :: [])
           (app (enc_pps pp.pstate)
             (app ((enc_bool pp.trapped) :: (pp.init_hash :: []))
               (app ((N.of_nat (length pp.prev)) :: [])
                 (app (flat_map enc_pbs pp.prev)
                   (app ((N.of_nat (length pp.hist)) :: []) pp.hist)))))))

(** val dec_pbs : n list -> (pbs * n list) option **)

let dec_pbs = function
| [] -> None
| a :: l0 ->
  (match l0 with
   | [] -> None
   | b :: l1 ->
     (match l1 with
      | [] -> None
      | c :: l2 ->
        (match l2 with
         | [] -> None
         | d :: l3 ->
           (match l3 with
            | [] -> None
            | e :: l4 ->
              (match l4 with
               | [] -> None
               | f :: l5 ->
                 (match l5 with
                  | [] -> None
                  | g :: l6 ->
                    (match l6 with
                     | [] -> None
                     | h :: r ->
                       Some ({ p1 = a; allp = b; el = c; ca = d; ho = e; dg =
                         f; ct = g; rb = h }, r))))))))

(** val dec_pbs_list : nat -> n list -> (pbs list * n list) option **)

let rec dec_pbs_list n0 l =
  match n0 with
  | O -> Some ([], l)
  | S n' ->
    (match dec_pbs l with
     | Some p ->
       let (b, r) = p in
       (match dec_pbs_list n' r with
        | Some p0 -> let (bs, r') = p0 in Some ((b :: bs), r')
        | None -> None)
     | None -> None)

(** val dec_pps : n -> n -> n -> pps option **)

let dec_pps k s p =
  match k with
  | N0 -> Some PPNone
  | Npos p0 ->
    (match p0 with
     | XI _ -> None
     | XO p2 ->
       (match p2 with
        | XH ->
          option_map (fun x -> MustCompletePush (s, x)) (piece_of_code p)
        | _ -> None)
     | XH -> option_map (fun x -> PossiblePull (s, x)) (piece_of_code p))

(** val dec_state : n list -> state option **)

let dec_state l =
  match dec_pbs l with
  | Some p ->
    let (b, l0) = p in
    (match l0 with
     | [] -> None
     | sd :: l1 ->
       (match l1 with
        | [] -> None
        | mv :: l2 ->
          (match l2 with
           | [] -> None
           | h :: l3 ->
             (match l3 with
              | [] -> None
              | phs :: r ->
                (match phs with
                 | N0 ->
                   Some { side = (negb (N.eqb sd N0)); move_no = mv; ph =
                     PlacePhase; board = b; hash = h }
                 | Npos _ ->
                   (match r with
                    | [] -> None
                    | k :: l4 ->
                      (match l4 with
                       | [] -> None
                       | s :: l5 ->
                         (match l5 with
                          | [] -> None
                          | p0 :: l6 ->
                            (match l6 with
                             | [] -> None
                             | tr :: l7 ->
                               (match l7 with
                                | [] -> None
                                | ih :: l8 ->
                                  (match l8 with
                                   | [] -> None
                                   | np :: r2 ->
                                     (match dec_pps k s p0 with
                                      | Some st ->
                                        (match dec_pbs_list (N.to_nat np) r2 with
                                         | Some p2 ->
                                           let (pv, l9) = p2 in
                                           (match l9 with
                                            | [] -> None
                                            | nh :: hh ->
                                              if N.eqb (N.of_nat (length hh))
                                                   nh
                                              then Some { side =
                                                     (negb (N.eqb sd N0));
                                                     move_no = mv; ph =
                                                     (PlayPhase { prev = pv;
                                                     pstate = st; init_hash =
                                                     ih; hist = hh; trapped =
                                                     (negb (N.eqb tr N0)) });
                                                     board = b; hash = h }
                                              else None)
                                         | None -> None)
                                      | None -> None))))))))))))
  | None -> None

(** val enc_preview : ((square * piece) * bool) option -> n **)

let enc_preview = function
| Some p0 ->
  let (p2, o) = p0 in
  let (s, k) = p2 in
  N.add
    (N.add (Npos XH)
      (N.mul (N.add (N.mul s (Npos (XO (XO (XO XH))))) (piece_code k)) (Npos
        (XO XH)))) (enc_bool o)
| None -> N0

(** val enc_outcome : ('a1 -> n list) -> 'a1 outcome -> n list **)

let enc_outcome f = function
| Ok a -> (Npos (XO XH)) :: (f a)
| Err -> N0 :: []
| Panic -> (Npos XH) :: []

(** val parse_square : bool -> text -> square outcome **)

let parse_square =
  parse_square_orig

(** val parse_action : bool -> text -> action outcome **)

let parse_action =
  parse_action_orig

(** val parse_state : bool -> text -> state outcome **)

let parse_state =
  parse_state_orig

(** val tagS : n **)

let tagS =
  Npos (XI (XI (XO (XO (XI (XO XH))))))

(** val tagH : n **)

let tagH =
  Npos (XO (XO (XO (XI (XO (XO XH))))))

(** val tagF : n **)

let tagF =
  Npos (XO (XI (XI (XO (XO (XO XH))))))

(** val tagV : n **)

let tagV =
  Npos (XO (XI (XI (XO (XI (XO XH))))))

(** val tagN : n **)

let tagN =
  Npos (XO (XI (XI (XI (XO (XO XH))))))

(** val tagT : n **)

let tagT =
  Npos (XO (XO (XI (XO (XI (XO XH))))))

(** val tagK : n **)

let tagK =
  Npos (XI (XI (XO (XI (XO (XO XH))))))

(** val tagB : n **)

let tagB =
  Npos (XO (XI (XO (XO (XO (XO XH))))))

(** val tagD : n **)

let tagD =
  Npos (XO (XO (XI (XO (XO (XO XH))))))

(** val tagR : n **)

let tagR =
  Npos (XO (XI (XO (XO (XI (XO XH))))))

(** val tagE : n **)

let tagE =
  Npos (XI (XO (XI (XO (XO (XO XH))))))

(** val from_scratch : state -> n **)

let from_scratch s =
  z_from_piece_board s.board s.side
    (match s.ph with
     | PlacePhase -> N0
     | PlayPhase pp -> step_of pp)

(** val seqN : n -> n list **)

let seqN n0 =
  map N.of_nat (seq O (N.to_nat n0))

(** val observe : bool -> state -> (n * n list) list **)

let observe dbg s =
  let v = valid_actions s in
  let n0 = valid_actions_no_rep s in
  app ((tagS, (enc_state s)) :: ((tagH,
    ((transposition_hash s) :: [])) :: ((tagF,
    ((from_scratch s) :: [])) :: ((tagV, (map enc_action v)) :: ((tagN,
    (map enc_action n0)) :: ((tagT,
    ((enc_terminal (is_terminal s)) :: ((enc_terminal (has_move s s.board)) :: (
    (enc_bool (can_pass s true)) :: ((enc_bool (can_pass s false)) :: []))))) :: ((tagK,
    (map (fun a -> enc_preview (trapped_animal_for_action s a)) n0)) :: [])))))))
    (app
      (match s.ph with
       | PlacePhase -> []
       | PlayPhase pp ->
         map (fun i -> (tagB, (i :: (enc_pbs (piece_board_for_step s i)))))
           (seqN (N.add (step_of pp) (Npos XH))))
      (let d = print_state s in
       let r = parse_state dbg d in
       (tagD, d) :: ((tagR, (enc_outcome enc_state r)) :: ((tagE,
       (match r with
        | Ok s' ->
          (enc_bool (state_eqb s s')) :: ((transposition_hash s') :: [])
        | _ -> [])) :: []))))

(** val enc_square_full : square -> n list **)

let enc_square_full s =
  s :: []

(** val run_parser : bool -> n -> text -> n list **)

let run_parser dbg which t =
  match which with
  | N0 -> enc_outcome (fun a -> (enc_action a) :: []) (parse_action dbg t)
  | Npos p ->
    (match p with
     | XI p0 ->
       (match p0 with
        | XH -> enc_outcome (fun d -> (dir_code d) :: []) (parse_dir t)
        | _ -> enc_outcome enc_state (parse_state dbg t))
     | XO p0 ->
       (match p0 with
        | XH -> enc_outcome (fun k -> (piece_code k) :: []) (parse_piece t)
        | _ -> enc_outcome enc_state (parse_state dbg t))
     | XH -> enc_outcome enc_square_full (parse_square dbg t))

(** val run_printer : n -> n -> n list **)

let run_printer which v =
  match which with
  | N0 -> (match dec_action v with
           | Some a -> print_action a
           | None -> [])
  | Npos p ->
    (match p with
     | XI _ -> (match dir_of_code v with
                | Some d -> print_dir d
                | None -> [])
     | XO p0 ->
       (match p0 with
        | XH ->
          (match piece_of_code v with
           | Some k -> print_piece k
           | None -> [])
        | _ -> (match dir_of_code v with
                | Some d -> print_dir d
                | None -> []))
     | XH -> print_square v)

(** val run_square_maps : n -> n list **)

let run_square_maps i =
  (sq_as_bit_board i) :: ((sq_from_bit_board (sq_as_bit_board i)) :: (
    (sq_column_char i) :: ((sq_row i) :: ((sq_new (sq_column_char i)
                                            (sq_row i)) :: []))))

(** val state_of_new : n list -> state option **)

let state_of_new = function
| [] -> None
| wp1 :: l0 ->
  (match l0 with
   | [] -> None
   | we :: l1 ->
     (match l1 with
      | [] -> None
      | wm :: l2 ->
        (match l2 with
         | [] -> None
         | wh :: l3 ->
           (match l3 with
            | [] -> None
            | wd :: l4 ->
              (match l4 with
               | [] -> None
               | wc :: l5 ->
                 (match l5 with
                  | [] -> None
                  | wr :: l6 ->
                    (match l6 with
                     | [] -> None
                     | sd :: l7 ->
                       (match l7 with
                        | [] -> None
                        | mv :: l8 ->
                          (match l8 with
                           | [] -> None
                           | stp :: l9 ->
                             (match l9 with
                              | [] -> None
                              | k :: l10 ->
                                (match l10 with
                                 | [] -> None
                                 | sq :: l11 ->
                                   (match l11 with
                                    | [] -> None
                                    | pc :: l12 ->
                                      (match l12 with
                                       | [] -> None
                                       | tr :: l13 ->
                                         (match l13 with
                                          | [] ->
                                            (match dec_pps k sq pc with
                                             | Some st ->
                                               let b =
                                                 pb_new wp1 we wm wh wd wc wr
                                               in
                                               let gold = negb (N.eqb sd N0)
                                               in
                                               let h =
                                                 z_from_piece_board b gold stp
                                               in
                                               let h0 =
                                                 z_from_piece_board b gold N0
                                               in
                                               Some { side = gold; move_no =
                                               mv; ph = (PlayPhase { prev =
                                               (repeat b (N.to_nat stp));
                                               pstate = st; init_hash = h0;
                                               hist = (h0 :: []); trapped =
                                               (negb (N.eqb tr N0)) });
                                               board = b; hash = h }
                                             | None -> None)
                                          | _ :: _ -> None))))))))))))))
