
val xorb : bool -> bool -> bool

val negb : bool -> bool

type nat =
| O
| S of nat

val option_map : ('a1 -> 'a2) -> 'a1 option -> 'a2 option

val fst : ('a1 * 'a2) -> 'a1

val snd : ('a1 * 'a2) -> 'a2

val length : 'a1 list -> nat

val app : 'a1 list -> 'a1 list -> 'a1 list

type comparison =
| Eq
| Lt
| Gt

type uint =
| Nil
| D0 of uint
| D1 of uint
| D2 of uint
| D3 of uint
| D4 of uint
| D5 of uint
| D6 of uint
| D7 of uint
| D8 of uint
| D9 of uint

val revapp : uint -> uint -> uint

val rev : uint -> uint

module Little :
 sig
  val double : uint -> uint

  val succ_double : uint -> uint
 end

val add : nat -> nat -> nat

val leb : nat -> nat -> bool

type positive =
| XI of positive
| XO of positive
| XH

type n =
| N0
| Npos of positive

val eqb : bool -> bool -> bool

module Pos :
 sig
  type mask =
  | IsNul
  | IsPos of positive
  | IsNeg
 end

module Coq_Pos :
 sig
  val succ : positive -> positive

  val add : positive -> positive -> positive

  val add_carry : positive -> positive -> positive

  val pred_double : positive -> positive

  val pred_N : positive -> n

  type mask = Pos.mask =
  | IsNul
  | IsPos of positive
  | IsNeg

  val succ_double_mask : mask -> mask

  val double_mask : mask -> mask

  val double_pred_mask : positive -> mask

  val sub_mask : positive -> positive -> mask

  val sub_mask_carry : positive -> positive -> mask

  val mul : positive -> positive -> positive

  val iter : ('a1 -> 'a1) -> 'a1 -> positive -> 'a1

  val compare_cont : comparison -> positive -> positive -> comparison

  val compare : positive -> positive -> comparison

  val eqb : positive -> positive -> bool

  val coq_Nsucc_double : n -> n

  val coq_Ndouble : n -> n

  val coq_lor : positive -> positive -> positive

  val coq_land : positive -> positive -> n

  val ldiff : positive -> positive -> n

  val coq_lxor : positive -> positive -> n

  val shiftl : positive -> n -> positive

  val testbit : positive -> n -> bool

  val iter_op : ('a1 -> 'a1 -> 'a1) -> positive -> 'a1 -> 'a1

  val to_nat : positive -> nat

  val of_succ_nat : nat -> positive

  val to_little_uint : positive -> uint

  val to_uint : positive -> uint
 end

module N :
 sig
  val succ_double : n -> n

  val double : n -> n

  val add : n -> n -> n

  val sub : n -> n -> n

  val mul : n -> n -> n

  val compare : n -> n -> comparison

  val eqb : n -> n -> bool

  val leb : n -> n -> bool

  val ltb : n -> n -> bool

  val div2 : n -> n

  val pos_div_eucl : positive -> n -> n * n

  val div_eucl : n -> n -> n * n

  val div : n -> n -> n

  val modulo : n -> n -> n

  val coq_lor : n -> n -> n

  val coq_land : n -> n -> n

  val ldiff : n -> n -> n

  val coq_lxor : n -> n -> n

  val shiftl : n -> n -> n

  val shiftr : n -> n -> n

  val testbit : n -> n -> bool

  val to_nat : n -> nat

  val of_nat : nat -> n

  val to_uint : n -> uint
 end

val nth : nat -> 'a1 list -> 'a1 -> 'a1

val map : ('a1 -> 'a2) -> 'a1 list -> 'a2 list

val flat_map : ('a1 -> 'a2 list) -> 'a1 list -> 'a2 list

val fold_left : ('a1 -> 'a2 -> 'a1) -> 'a2 list -> 'a1 -> 'a1

val existsb : ('a1 -> bool) -> 'a1 list -> bool

val forallb : ('a1 -> bool) -> 'a1 list -> bool

val filter : ('a1 -> bool) -> 'a1 list -> 'a1 list

val seq : nat -> nat -> nat list

val repeat : 'a1 -> nat -> 'a1 list

type ascii =
| Ascii of bool * bool * bool * bool * bool * bool * bool * bool

val n_of_digits : bool list -> n

val n_of_ascii : ascii -> n

type string =
| EmptyString
| String of ascii * string

val list_ascii_of_string : string -> ascii list

type piece =
| Rabbit
| Cat
| Dog
| Horse
| Camel
| Elephant

type dir =
| Up
| Right
| Down
| Left

val piece_eqb : piece -> piece -> bool

val dir_eqb : dir -> dir -> bool

val m64 : n

val p64 : n

val bnot : n -> n

val shl : n -> n -> n

val shr : n -> n -> n

val wadd : n -> n -> n

val sq64 : n list

val bits_of : n -> n list

val count_ones : n -> n

val ctz64 : n -> n

val ctz128 : n -> n

val one_shl : n -> n

val lEFT_COLUMN_MASK : n

val rIGHT_COLUMN_MASK : n

val tOP_ROW_MASK : n

val bOTTOM_ROW_MASK : n

val p1_PLACEMENT_MASK : n

val p2_PLACEMENT_MASK : n

val lAST_P1_PLACEMENT_MASK : n

val lAST_P2_PLACEMENT_MASK : n

val tRAP_MASK : n

val p1_OBJECTIVE_MASK : n

val p2_OBJECTIVE_MASK : n

val bOARD_WIDTH : n

val bOARD_HEIGHT : n

val aSCII_LETTER_A : n

val sHIFT_UP : bool * n

val sHIFT_RIGHT : bool * n

val sHIFT_DOWN : bool * n

val sHIFT_LEFT : bool * n

val sHIFT_PIECES_UP_INNER : bool * n

val sHIFT_PIECES_UP_MASK : n

val sHIFT_PIECES_RIGHT_INNER : bool * n

val sHIFT_PIECES_RIGHT_MASK : n

val sHIFT_PIECES_DOWN_INNER : bool * n

val sHIFT_PIECES_DOWN_MASK : n

val sHIFT_PIECES_LEFT_INNER : bool * n

val sHIFT_PIECES_LEFT_MASK : n

val piece_rank : piece -> n

val pIECE_ALL : piece list

val dIR_ALL : dir list

val piece_letter : piece -> n

val dir_letter : dir -> n

val piece_of_letter_table : (n * piece) list

val dir_of_letter_table : (n * dir) list

val diagram_piece_of_letter_table : (n * piece) list

val diagram_upper_letter : piece -> n

val dIAGRAM_TRAP_INDICES : n list

val dIAGRAM_DEFAULT_MOVE : n

val dIAGRAM_DEFAULT_P1 : bool

val dIAGRAM_SILVER_LETTERS : n list

val square_piece_idx : piece -> n option

val sQUARE_P1_OFFSET : n

val sQUARE_P2_OFFSET : n

val push_piece_idx : piece -> n option

val pull_piece_idx : piece -> n option

type pbs = { p1 : n; allp : n; el : n; ca : n; ho : n; dg : n; ct : n; rb : n }

val empty_board : pbs

val pb_new : n -> n -> n -> n -> n -> n -> n -> pbs

val player_piece_mask : pbs -> bool -> n

val bits_by_piece_type : pbs -> piece -> n

val bits_for_piece : pbs -> piece -> bool -> n

type square = n

val sq_as_bit_board : square -> n

val sq_from_bit_board : n -> square

val sq_index : square -> n

val sq_column_char : square -> n

val sq_row : square -> n

val sq_new : n -> n -> square

val first_set_bit : n -> n

val apply_shift : (bool * n) -> n -> n

val shift_up : n -> n

val shift_right : n -> n

val shift_down : n -> n

val shift_left : n -> n

val shift_pieces_up : n -> n

val shift_pieces_right : n -> n

val shift_pieces_down : n -> n

val shift_pieces_left : n -> n

val shift_in_direction : n -> dir -> n

val shift_pieces_in_direction : n -> dir -> n

val shift_pieces_in_opp_direction : n -> dir -> n

val shift_piece_in_direction : n -> n -> dir -> n

val influenced_squares : n -> n

val supported_pieces : n -> n

val both_player_supported_pieces : pbs -> n

val both_player_unsupported_piece_bits : pbs -> n

val animal_is_on_trap : pbs -> bool

val trapped_piece_bits : pbs -> n

val piece_type_at_bit : n -> pbs -> piece

val piece_type_at_square : pbs -> square -> piece option

val placement_bit : pbs -> n

val pb_move_piece : pbs -> square -> dir -> pbs

val pb_remove_trapped : pbs -> pbs * bool

val pb_take_move : pbs -> square -> dir -> pbs * bool

val can_move_in_direction : dir -> pbs -> n

val piece_gtb : piece -> piece -> bool

val iNITIAL : n

val pLAYER_TO_MOVE : n

val sTEP_VALUES : n list

val sQUARE_VALUES : n list list

val pUSH_VALUES : n list list

val pOSSIBLE_PULL_VALUES : n list list

val nthN : 'a1 list -> n -> 'a1 -> 'a1

val step_val : n -> n

val table2 : n list list -> n -> n -> n

val piece_value : square -> piece -> bool -> n

val push_piece_value : square -> piece -> n

val pull_piece_value : square -> piece -> n

val sides : bool list

val z_from_piece_board : pbs -> bool -> n -> n

val piece_board_value : pbs -> pbs -> n

val z_move_piece : n -> bool -> pbs -> n -> pbs -> n -> bool -> n

val z_place_piece : n -> piece -> square -> bool -> bool -> bool -> n

val z_pass : n -> n -> n

val z_exclude_step : n -> n -> n

type action =
| Place of piece
| Move of square * dir
| Pass

val action_eqb : action -> action -> bool

type pps =
| PPNone
| PossiblePull of square * piece
| MustCompletePush of square * piece

type play = { prev : pbs list; pstate : pps; init_hash : n; hist : n list;
              trapped : bool }

type phase =
| PlacePhase
| PlayPhase of play

type state = { side : bool; move_no : n; ph : phase; board : pbs; hash : n }

type terminal =
| GoldWin
| SilverWin

val play_initial : n -> n list -> play

val step_of : play -> n

val initial : state

val is_mcp : pps -> bool

val as_play_phase : state -> play option

val dummy_play : play

val unwrap_play_phase : state -> play

val current_step : state -> n

val curr_player_piece_mask : state -> pbs -> n

val opponent_piece_mask : state -> pbs -> n

val threatened_pieces : n -> n -> pbs -> n

val curr_player_non_frozen_pieces : state -> pbs -> n

val invalid_rabbit_moves : state -> dir -> pbs -> n

val lesser_pieces : piece -> pbs -> n

val moves_of : n -> dir -> action list

val extend_with_valid_curr_player_piece_moves : state -> pbs -> action list

val contains : action list -> action -> bool

val extend_with_pull_piece_actions :
  state -> pbs -> action list -> action list

val extend_with_push_piece_actions : state -> pbs -> action list

val must_complete_push_actions : state -> pbs -> action list

val count_hash : n -> n list -> nat

val hash_history_contains_hash_twice : n list -> n -> bool

val can_pass : state -> bool -> bool

val is_passing_like_action : state -> action -> bool

val remove_passing_like_actions : state -> action list -> action list

val has_non_passing_like_action : state -> action list -> bool

val valid_placement : state -> action list

val valid_actions_ : state -> bool -> action list

val valid_actions : state -> action list

val valid_actions_no_rep : state -> action list

val loss_for_mover : state -> terminal

val has_move : state -> pbs -> terminal option

val won_by : bool -> terminal

val rabbit_at_goal : state -> pbs -> terminal option

val lost_all_rabbits : state -> pbs -> terminal option

val or_else : 'a1 option -> 'a1 option -> 'a1 option

val is_terminal : state -> terminal option

val is_their_piece : state -> n -> pbs -> bool

val move_can_be_counted_as_pull : state -> n -> dir -> pbs -> bool

val next_push_pull_state : state -> square -> dir -> pps

val place : state -> piece -> state

val pass : state -> state

val move_piece : state -> square -> dir -> state

val take_action : state -> action -> state

val trapped_animal_for_action :
  state -> action -> ((square * piece) * bool) option

val piece_board_for_step : state -> n -> pbs

val transposition_hash : state -> n

val state_eqb : state -> state -> bool

type 'a outcome =
| Ok of 'a
| Err
| Panic

type text = n list

val utf8_len : n -> n

val uint_digits : uint -> n list

val print_dec : n -> text

val print_piece : piece -> text

val print_dir : dir -> text

val print_square : square -> text

val print_action : action -> text

val assoc : n -> (n * 'a1) list -> 'a1 option

val parse_piece : text -> piece outcome

val parse_dir : text -> dir outcome

val is_ascii_digit : n -> bool

val parse_square_orig : bool -> text -> square outcome

val parse_action_orig : bool -> text -> action outcome

val wHITE_SPACE : (n * n) list

val dECIMAL_NUMBER : (n * n) list

val str : string -> text

val in_ranges : n -> (n * n) list -> bool

val is_space : n -> bool

val is_digit : n -> bool

val to_ascii_lower : n -> n

val is_ascii_upper : n -> bool

val convert_piece_to_letter : piece -> bool -> n

val is_p1_piece : n -> pbs -> bool

val square_letter : pbs -> n -> n

val idx8 : n list

val print_row : pbs -> n -> text

val border : text

val footer : text

val print_state : state -> text

val split_on : n -> text -> text list

val odd_elems : 'a1 list -> 'a1 list

val drop_while : (n -> bool) -> text -> text

val take_while : (n -> bool) -> text -> text

val header_match : text -> (text * n) option

val parse_usize : text -> n option

val enumerate_from : n -> 'a1 list -> (n * 'a1) list

type acc7 = { a_p1 : n; a_e : n; a_m : n; a_h : n; a_d : n; a_c : n; a_r : 
              n; a_panic : bool; a_oob : bool }

val add_piece : acc7 -> piece -> bool -> n -> acc7

val scan_cell : n -> n -> n -> acc7 -> acc7

val scan_board : text list -> acc7

val state_of_parse : bool -> n -> acc7 -> state

val parse_state_orig : bool -> text -> state outcome

val piece_code : piece -> n

val piece_of_code : n -> piece option

val dir_code : dir -> n

val dir_of_code : n -> dir option

val enc_action : action -> n

val dec_action : n -> action option

val enc_bool : bool -> n

val enc_pbs : pbs -> n list

val enc_pps : pps -> n list

val enc_terminal : terminal option -> n

val enc_state : state -> n list

val dec_pbs : n list -> (pbs * n list) option

val dec_pbs_list : nat -> n list -> (pbs list * n list) option

val dec_pps : n -> n -> n -> pps option

val dec_state : n list -> state option

val enc_preview : ((square * piece) * bool) option -> n

val enc_outcome : ('a1 -> n list) -> 'a1 outcome -> n list

val parse_square : bool -> text -> square outcome

val parse_action : bool -> text -> action outcome

val parse_state : bool -> text -> state outcome

val tagS : n

val tagH : n

val tagF : n

val tagV : n

val tagN : n

val tagT : n

val tagK : n

val tagB : n

val tagD : n

val tagR : n

val tagE : n

val from_scratch : state -> n

val seqN : n -> n list

val observe : bool -> state -> (n * n list) list

val enc_square_full : square -> n list

val run_parser : bool -> n -> text -> n list

val run_printer : n -> n -> n list

val run_square_maps : n -> n list

val state_of_new : n list -> state option
