(* C02 - A step moves one piece one square and captures exactly unsupported trap pieces. *)
From Coq Require Import NArith List Bool.
From Arimaa Require Import Types U64 Board Engine Cells Rules Monitors StepLemmas GenLemmas Refine Invariant TurnLemmas Material.
Open Scope N_scope.

(* bit level = square level, for any well-formed board: the piece on src goes to the empty target t,
   every other cell is unchanged, then exactly the pieces on a trap without a friendly neighbour vanish *)
Theorem C02_step_cells : forall b src d t i, WFb b -> src < 64 -> dst_of src d = Some t -> cell b t = None -> i < 64 ->
  cell (fst (pb_take_move b src d)) i = after_captures (moved (cell b) src t) i.
Proof. exact take_move_cell. Qed.
Print Assumptions C02_step_cells.

Theorem C02_step_wf : forall b src d t, WFb b -> src < 64 -> dst_of src d = Some t -> cell b t = None ->
  WFb (fst (pb_take_move b src d)).
Proof. exact take_move_WFb. Qed.
Print Assumptions C02_step_wf.

(* every offered step satisfies the preconditions: on-board source holding a piece, on-board empty target *)
Theorem C02_offered_preconditions : forall s pp i d, PlayInv s pp -> In (Move i d) (valid_actions_no_rep s) ->
  i < 64 /\ exists t o k, dst_of i d = Some t /\ cell (board s) i = Some (o, k) /\ cell (board s) t = None.
Proof. exact offered_move_pre. Qed.
Print Assumptions C02_offered_preconditions.

Theorem C02_pass_keeps_board : forall s pp, ph s = PlayPhase pp -> move_no s + 1 < P64 ->
  board (take_action s Pass) = board s.
Proof. intros s pp H1 H2. exact (proj1 (proj2 (proj2 (pass_turn s pp H1 H2)))). Qed.
Print Assumptions C02_pass_keeps_board.

(* material never increases: per owner and kind the number of pieces after an offered step is at most the number before
   (no piece changes type or colour, none appears); npk counts the squares holding (owner, kind) *)
Theorem C02_material : forall s pp i d o k, PlayInv s pp -> In (Move i d) (valid_actions_no_rep s) ->
  (npk (cell (board (take_action s (Move i d)))) o k <= npk (cell (board s)) o k)%nat.
Proof. exact step_material. Qed.
Print Assumptions C02_material.
