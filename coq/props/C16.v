(* C16 - Action/square notation round-trips; malformed text is rejected without panic.
   Text is a list of Unicode code points.  The parsers are the models of the repaired code (fix: 9119984);
   C16_original_* record the defects of the unrepaired code (findings F2, F3). *)
From Coq Require Import NArith List Bool.
From Arimaa Require Import Types U64 Board Engine Notation Display Trace Monitors TextLemmas.
Import ListNotations.
Open Scope N_scope.

Theorem C16_action_roundtrip : forall a, (match a with Move s _ => s < 64 | _ => True end) ->
  parse_action_fixed (print_action a) = Ok a.
Proof. exact action_roundtrip. Qed.
Print Assumptions C16_action_roundtrip.

Theorem C16_square_roundtrip : forall s, s < 64 -> parse_square_fixed (print_square s) = Ok s.
Proof. exact square_roundtrip. Qed.
Print Assumptions C16_square_roundtrip.

Theorem C16_piece_roundtrip : forall k, parse_piece (print_piece k) = Ok k.
Proof. exact piece_roundtrip. Qed.
Print Assumptions C16_piece_roundtrip.

Theorem C16_dir_roundtrip : forall d, parse_dir (print_dir d) = Ok d.
Proof. exact dir_roundtrip. Qed.
Print Assumptions C16_dir_roundtrip.

(* file a-h, rank 1-8 consistent with the index and the single-bit board; conversions mutually inverse *)
Theorem C16_square_maps : forall i, i < 64 ->
  sq_as_bit_board i = 2 ^ i /\ sq_from_bit_board (sq_as_bit_board i) = i /\
  sq_column_char i = 97 + i mod 8 /\ sq_row i = 8 - i / 8 /\ sq_new (sq_column_char i) (sq_row i) = i /\
  print_square i = [97 + i mod 8; 48 + (8 - i / 8)].
Proof. exact square_maps. Qed.
Print Assumptions C16_square_maps.

Theorem C16_bits_listed : forall b i, In i (bits_of b) <-> i < 64 /\ N.testbit b i = true.
Proof. exact bits_listed. Qed.
Print Assumptions C16_bits_listed.

(* parsing ANY text never panics *)
Theorem C16_total : forall t, parse_action_fixed t <> Panic /\ parse_square_fixed t <> Panic /\ parse_piece t <> Panic /\ parse_dir t <> Panic.
Proof. intros t. repeat split; [apply parse_action_total|apply parse_square_total|apply parse_piece_total|apply parse_dir_total]. Qed.
Print Assumptions C16_total.

(* ... and succeeds only for the printed form of the result (piece letters may be upper case) *)
Theorem C16_action_exact : forall t a, parse_action_fixed t = Ok a ->
  match a with
  | Place k => up_ok t (print_action a) = true
  | Move s _ => t = print_action a /\ s < 64
  | Pass => t = print_action a
  end.
Proof. exact parse_action_exact. Qed.
Print Assumptions C16_action_exact.

Theorem C16_square_exact : forall t s, parse_square_fixed t = Ok s -> t = print_square s /\ s < 64.
Proof. exact parse_square_exact. Qed.
Print Assumptions C16_square_exact.

Theorem C16_piece_exact : forall t k, parse_piece t = Ok k -> up_ok t (print_piece k) = true.
Proof. exact parse_piece_exact. Qed.
Print Assumptions C16_piece_exact.

Theorem C16_dir_exact : forall t d, parse_dir t = Ok d -> t = print_dir d.
Proof. exact parse_dir_exact. Qed.
Print Assumptions C16_dir_exact.

(* the unrepaired code: "aén" and "€12" panic; "A1" panics under overflow checks; "š1" is accepted as a1 *)
Theorem C16_original_refuted :
  (parse_action_orig true [97; 233; 110] = Panic /\ parse_action_orig false [8364; 49; 50] = Panic) /\
  (parse_square_orig true [65; 49] = Panic /\ parse_square_orig false [353; 49] = Ok 56).
Proof. split; [exact F2_action_orig_panics|exact F3_square_orig_panics]. Qed.
Print Assumptions C16_original_refuted.
