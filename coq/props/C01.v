(* C01 - Offered steps are exactly the legal Arimaa steps, pushes and pulls (step-automaton form).
   PlayInv s pp is the play-phase state invariant (proofs/Invariant.v): well-formed board, step <= 3, and a
   pending status names an empty on-board square; it holds for every start position and is preserved
   by every offered action (C01_invariant_preserved), hence for every reachable play-phase state.
   spec_move_ok / spec_pass_ok (spec/Rules.v) are the square-level rules: single steps of unfrozen
   friendly pieces onto empty adjacent squares (rabbits never backward), first halves of pushes of
   strictly weaker enemy pieces next to an unfrozen stronger friendly piece (not at the last step),
   pull completions into the square just vacated by a stronger friendly piece, and - while a push
   is pending - only its completions.
   C01_rulebook is the property at full strength: the move-level wording of the rule book (spec/Turns.v:
   single steps, pushes and pulls, each legal on the board before it, at most four steps) against
   the engine's step-by-step lists; it composes T1 (engine = step automaton) with T2 (step
   automaton = prefixes of legal move sequences). *)
From Coq Require Import NArith List Bool.
From Arimaa Require Import Types U64 Board Engine Cells Rules Turns Monitors Refine Invariant Traps Pending T2b T2a Playable.
Import ListNotations.
Open Scope N_scope.

Theorem C01_offered_iff_rules : forall s pp i d, PlayInv s pp ->
  (In (Move i d) (valid_actions_no_rep s) <->
   i < 64 /\ spec_move_ok (cell (board s)) (side s) (step_of pp) (sstatus_of (pstate pp)) i d = true).
Proof. intros s pp i d [H1 H2 _ _ H5]. exact (T1_move s pp H1 H2 (status_inv_ok _ _ _ H5) i d). Qed.
Print Assumptions C01_offered_iff_rules.

(* a pass is offered exactly when at least one step has been made and no push is pending *)
Theorem C01_pass_iff : forall s pp, PlayInv s pp ->
  (In Pass (valid_actions_no_rep s) <-> spec_pass_ok (step_of pp) (sstatus_of (pstate pp)) = true).
Proof. intros s pp [H1 H2 _ _ H5]. exact (T1_pass s pp H1 H2 (status_inv_ok _ _ _ H5)). Qed.
Print Assumptions C01_pass_iff.

Theorem C01_no_placement_in_play : forall s pp k, PlayInv s pp -> ~ In (Place k) (valid_actions_no_rep s).
Proof. intros s pp k [H1 H2 _ _ H5]. exact (T1_no_place s pp H1 H2 (status_inv_ok _ _ _ H5) k). Qed.
Print Assumptions C01_no_placement_in_play.

Theorem C01_nodup : forall s pp, PlayInv s pp -> NoDup (valid_actions_no_rep s).
Proof. intros s pp [H1 H2 _ _ H5]. exact (T1_NoDup s pp H1 H2 (status_inv_ok _ _ _ H5)). Qed.
Print Assumptions C01_nodup.

Theorem C01_invariant_preserved : forall s pp a, PlayInv s pp -> In a (valid_actions_no_rep s) ->
  exists pp', PlayInv (take_action s a) pp'.
Proof. exact action_preserves. Qed.
Print Assumptions C01_invariant_preserved.

(* every state inside a turn can be continued to a complete legal turn within the four steps: a pass is offered now,
   or the pending push has an offered completion after which the turn is over (fourth step) or a pass is offered.
   pending_ok holds along every game from the initial state or a legal start position (C12_pending_nonempty). *)
Theorem C01_completable : forall s pp, PlayInv s pp -> pending_ok s pp -> 1 <= step_of pp -> move_no s < P64 ->
  In Pass (valid_actions_no_rep s) \/
  exists i d, In (Move i d) (valid_actions_no_rep s) /\
              (3 <= step_of pp \/ In Pass (valid_actions_no_rep (take_action s (Move i d)))).
Proof. exact completable. Qed.
Print Assumptions C01_completable.

(* strictness: the completer of a push is a friendly, unfrozen, STRICTLY stronger piece stepping into the vacated square *)
Theorem C01_strict_completion : forall s pp sq k i d, PlayInv s pp -> pstate pp = MustCompletePush sq k ->
  In (Move i d) (valid_actions_no_rep s) ->
  exists k', cell (board s) i = Some (side s, k') /\ stronger k' k = true /\ frozen (cell (board s)) i = false /\ dst_of i d = Some sq.
Proof. exact strict_completion. Qed.
Print Assumptions C01_strict_completion.

Theorem C01_equal_strength_never : forall k, stronger k k = false.
Proof. exact stronger_irrefl. Qed.
Print Assumptions C01_equal_strength_never.

Theorem C01_rabbit_never_backward : forall s pp i d, PlayInv s pp -> In (Move i d) (valid_actions_no_rep s) ->
  cell (board s) i = Some (side s, Rabbit) -> backward (side s) d = false.
Proof. exact own_rabbit_not_backward. Qed.
Print Assumptions C01_rabbit_never_backward.

(* THE PROPERTY: from the start of a turn in a position without trap violations, the step sequences the engine lets the
   mover play are exactly the prefixes of legal Arimaa turns.  playable s l: every step of l is in the rule-only list
   of the state reached by the previous ones; mvs_ok c g ms: every move of ms (MSingle / MPush / MPull) is legal on the
   board the previous moves produced; flatten ms: its steps. *)
Theorem C01_rulebook : forall s pp l, PlayInv s pp -> step_of pp = 0 -> pstate pp = PPNone -> legal_traps (cell (board s)) ->
  move_no s < P64 -> (length l <= 4)%nat ->
  (playable s l <->
   exists ms, mvs_ok (cell (board s)) (side s) ms = true /\ is_prefix l (flatten ms) /\ (length (flatten ms) <= 4)%nat).
Proof. exact rulebook. Qed.
Print Assumptions C01_rulebook.

(* its square-level half, independent of the engine: the step automaton accepts exactly the prefixes of legal move sequences *)
Theorem C01_automaton_iff_rulebook : forall c g l, on_board c -> legal_traps c ->
  (accepts c g 0 SNone l = true <->
   exists ms, mvs_ok c g ms = true /\ is_prefix l (flatten ms) /\ (length (flatten ms) <= 4)%nat).
Proof. exact T2. Qed.
Print Assumptions C01_automaton_iff_rulebook.

(* the notion of legal move is not vacuous (gold elephant d4, silver rabbit d5, silver cat e4, gold rabbit h1) *)
Theorem C01_examples :
  mvs_ok ex_cells true [MPush 27 Up 35 Up; MPull 27 Left 36 Up] = false /\
  mvs_ok ex_cells true [MPush 27 Up 35 Up; MSingle 27 Down] = true /\
  mvs_ok ex_cells true [MPull 35 Left 36 Left; MSingle 63 Up] = true /\
  mvs_ok ex_cells true [MPush 36 Right 35 Right; MPush 27 Up 36 Left] = false /\
  accepts ex_cells true 0 SNone [(27, Up); (35, Up); (27, Down)] = true /\
  accepts ex_cells true 0 SNone [(27, Up); (63, Up)] = false.
Proof. exact ex_push_then_pull. Qed.
Print Assumptions C01_examples.
