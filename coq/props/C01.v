(* C01 - Offered steps are exactly the legal Arimaa steps, pushes and pulls (step-automaton form).
   PlayInv s pp is the play-phase state invariant (proofs/Invariant.v): well-formed board, step <= 3, and a
   pending status names an empty on-board square; it holds for every start position and is preserved
   by every offered action (C01_invariant_preserved), hence for every reachable play-phase state.
   spec_move_ok / spec_pass_ok (spec/Rules.v) are the square-level rules: single steps of unfrozen
   friendly pieces onto empty adjacent squares (rabbits never backward), first halves of pushes of
   strictly weaker enemy pieces next to an unfrozen stronger friendly piece (not at the last step),
   pull completions into the square just vacated by a stronger friendly piece, and - while a push
   is pending - only its completions.
   PARTIAL: the equivalence of this step automaton with the move-level wording of the rule book
   (T2 of DESIGN.md: prefixes of legal turns) is not proved here. *)
From Coq Require Import NArith List Bool.
From Arimaa Require Import Types U64 Board Engine Cells Rules Monitors Refine Invariant.
Open Scope N_scope.

Theorem C01_offered_iff_rules : forall s pp i d, PlayInv s pp ->
  (In (Move i d) (valid_actions_no_rep s) <->
   i < 64 /\ spec_move_ok (cell (board s)) (side s) (step_of pp) (sstatus_of (pstate pp)) i d = true).
Proof. intros s pp i d [H1 H2 _ _ H5]. exact (T1_move s pp H1 H2 (status_inv_ok _ _ _ H5) i d). Qed.
Print Assumptions C01_offered_iff_rules.

(* a pass is offered exactly when at least one step has been made and no push is pending *)
Theorem C01_pass_iff : forall s pp, PlayInv s pp ->
  (In Pass (valid_actions_no_rep s) <-> spec_pass_ok (step_of pp) (sstatus_of (pstate pp)) = true).
Proof. intros s pp [H1 H2 _ _ H5]. exact (T1_pass s pp H1 H2 (status_inv_ok _ _ _ H5)). Qed.
Print Assumptions C01_pass_iff.

Theorem C01_no_placement_in_play : forall s pp k, PlayInv s pp -> ~ In (Place k) (valid_actions_no_rep s).
Proof. intros s pp k [H1 H2 _ _ H5]. exact (T1_no_place s pp H1 H2 (status_inv_ok _ _ _ H5) k). Qed.
Print Assumptions C01_no_placement_in_play.

Theorem C01_nodup : forall s pp, PlayInv s pp -> NoDup (valid_actions_no_rep s).
Proof. intros s pp [H1 H2 _ _ H5]. exact (T1_NoDup s pp H1 H2 (status_inv_ok _ _ _ H5)). Qed.
Print Assumptions C01_nodup.

Theorem C01_invariant_preserved : forall s pp a, PlayInv s pp -> In a (valid_actions_no_rep s) ->
  exists pp', PlayInv (take_action s a) pp'.
Proof. exact action_preserves. Qed.
Print Assumptions C01_invariant_preserved.
