(* C07 - Unfinished states always have an action; summary queries match the action list.
   Reach (proofs/Reach.v): closure of the initial state and of every start position (what the diagram
   parser returns for a well-formed board) under actions of the rule-only list - a superset of the
   games playable through the repetition-checked list (C07_rep_games_are_reachable). *)
From Coq Require Import NArith List Bool.
From Arimaa Require Import Types U64 Board Engine Cells Rules Monitors Invariant Live Setup Reach.
Open Scope N_scope.

Theorem C07_live : forall s, Reach s -> is_terminal s = None -> valid_actions s <> nil.
Proof. exact reach_live. Qed.
Print Assumptions C07_live.

Theorem C07_has_move : forall s pp, PlayInv s pp -> (has_move s (board s) = None <-> valid_actions s <> nil).
Proof. exact has_move_iff. Qed.
Print Assumptions C07_has_move.

Theorem C07_can_pass_rep : forall s pp, PlayInv s pp -> (can_pass s true = true <-> In Pass (valid_actions s)).
Proof. exact can_pass_rep_iff. Qed.
Print Assumptions C07_can_pass_rep.

Theorem C07_can_pass_norep : forall s pp, PlayInv s pp -> (can_pass s false = true <-> In Pass (valid_actions_no_rep s)).
Proof. exact can_pass_norep_iff. Qed.
Print Assumptions C07_can_pass_norep.

(* mid-turn: a result is reported exactly when the offered list is empty, and it is a loss for the mover *)
Theorem C07_midturn : forall s pp, PlayInv s pp -> 0 < step_of pp ->
  is_terminal s = if nonempty (valid_actions s) then None else Some (loss_for_mover s).
Proof. exact midturn_result. Qed.
Print Assumptions C07_midturn.

Theorem C07_setup_live : forall s n, SetupInv s n -> valid_placement s <> nil.
Proof. exact setup_live. Qed.
Print Assumptions C07_setup_live.

Theorem C07_rep_games_are_reachable : forall s, ReachRep s -> Reach s.
Proof. exact reach_rep_reach. Qed.
Print Assumptions C07_rep_games_are_reachable.

Theorem C07_reachable_play_states_satisfy_invariant : forall s pp, Reach s -> ph s = PlayPhase pp -> PlayInv s pp.
Proof. intros s pp R P. exact (HashInv.hi_play s pp (reach_play s pp R P)). Qed.
Print Assumptions C07_reachable_play_states_satisfy_invariant.
