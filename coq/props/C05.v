(* C05 - No completed turn leaves the board unchanged or repeats a position a third time.
   Ghost state (never read by the engine): G = the exact turn-start positions (board, side) since the last capture,
   Old = those before it, b0 = the board at the start of the current turn; G ++ Old is the complete list of
   turn-start positions since play began or the position was parsed (C05_history_is_complete).
   ReachH carries the ghost along games through the rule-only list (a superset of games through valid_actions).
   The theorem is UNCONDITIONAL: a 64-bit hash collision can only make the engine withhold more (finding F6 is
   about C06), never allow an unchanged board or a third occurrence, because equal boards have equal hashes. *)
From Coq Require Import NArith List Bool.
From Arimaa Require Import Types U64 Board Engine Cells Rules Monitors Invariant Reach RepInv Material.
Import ListNotations.
Open Scope N_scope.

Theorem C05_turn_end : forall s pp G Old b0 a, ReachH s G Old b0 -> ph s = PlayPhase pp ->
  In a (valid_actions s) -> is_turn_end s a = true ->
  let nb := board (take_action s a) in
  ~ beq nb b0 /\
  forall f, (forall x, In x (G ++ Old) -> f x = true -> peq x (nb, negb (side s))) -> (length (filter f (G ++ Old)) <= 1)%nat.
Proof.
  intros s pp G Old b0 a R P Off TE. destruct (reachH_inv s G Old b0 R) as [pp0 MI].
  exact (turn_end_ok s pp0 G Old b0 a MI Off TE).
Qed.
Print Assumptions C05_turn_end.

(* the ghost history is the complete chronological list of turn-start positions *)
Theorem C05_history_is_complete : forall s pp G Old b0 a, is_turn_end s a = true -> ph s = PlayPhase pp ->
  fst (ghost_next s pp G b0 a) ++ old_next s G Old a = (board (take_action s a), negb (side s)) :: (G ++ Old).
Proof. exact full_history_grows. Qed.
Print Assumptions C05_history_is_complete.

Theorem C05_start : forall s, StartPosition s -> ReachH s [(board s, side s)] [] (board s).
Proof. exact RH_start. Qed.
Print Assumptions C05_start.
