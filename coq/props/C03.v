(* C03 - Turns last 1-4 steps; side, step counter and move number advance accordingly.
   Hypothesis move_no + 1 < 2^64: known finding F4 (C03_overflow_witness shows it cannot be dropped). *)
From Coq Require Import NArith List Bool.
From Arimaa Require Import Types U64 Board Engine Cells Rules Monitors Invariant TurnLemmas Counting.
Open Scope N_scope.

Theorem C03_step : forall s pp i d, ph s = PlayPhase pp -> step_of pp < 3 -> move_no s < P64 ->
  let s' := take_action s (Move i d) in
  side s' = side s /\ move_no s' = move_no s /\
  exists pp', ph s' = PlayPhase pp' /\ step_of pp' = step_of pp + 1 /\ prev pp' = prev pp ++ (board s :: nil) /\
              init_hash pp' = init_hash pp /\ pstate pp' = next_push_pull_state s i d.
Proof. exact step_mid. Qed.
Print Assumptions C03_step.

Theorem C03_fourth_step : forall s pp i d, ph s = PlayPhase pp -> 3 <= step_of pp -> move_no s + 1 < P64 ->
  let s' := take_action s (Move i d) in
  side s' = negb (side s) /\ move_no s' = (if side s then move_no s else move_no s + 1) /\
  exists h l, ph s' = PlayPhase (play_initial h l) /\ h = hash s'.
Proof. exact step_last. Qed.
Print Assumptions C03_fourth_step.

Theorem C03_pass : forall s pp, ph s = PlayPhase pp -> move_no s + 1 < P64 ->
  let s' := take_action s Pass in
  side s' = negb (side s) /\ move_no s' = (if side s then move_no s else move_no s + 1) /\ board s' = board s /\
  exists h l, ph s' = PlayPhase (play_initial h l) /\ h = hash s'.
Proof. exact pass_turn. Qed.
Print Assumptions C03_pass.

(* a fresh per-turn record: step 0, nothing pending, no earlier boards, nothing captured yet *)
Theorem C03_fresh_turn : forall h l, step_of (play_initial h l) = 0 /\ pstate (play_initial h l) = PPNone /\
  prev (play_initial h l) = nil /\ trapped (play_initial h l) = false /\ init_hash (play_initial h l) = h.
Proof. exact play_initial_fresh. Qed.
Print Assumptions C03_fresh_turn.

Theorem C03_range : forall s pp, PlayInv s pp -> step_of pp <= 3.
Proof. intros s pp H. exact (inv_step s pp H). Qed.
Print Assumptions C03_range.

Theorem C03_overflow_witness : wadd 18446744073709551615 1 = 0.
Proof. exact move_number_wraps. Qed.
Print Assumptions C03_overflow_witness.

(* over whole games: after ANY sequence of offered actions from a play-phase state the move number is the starting move
   number plus the number of Silver turn ends (no overflow assumed: F4) *)
Theorem C03_count : forall l s pp, PlayInv s pp -> offered_run s l -> move_no s + silver_ends s l + 1 < P64 ->
  move_no (fold_left take_action l s) = move_no s + silver_ends s l.
Proof. exact move_count. Qed.
Print Assumptions C03_count.
