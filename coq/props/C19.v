(* C19 - No public query or offered action panics on a reachable state.
   model/Safety.v lists one boolean guard per panic site of the crate (shift by >= 64, table index out of
   range, explicit panic!/expect, usize overflow).  The theorems say the guards hold on every reachable state;
   that the guards are where the crate panics is tied by the correspondence (every call under catch_unwind in
   both profiles, plus constructed unreachable states on which the crate does panic and the guard is false).
   Hypothesis move_no + 1 < 2^64: known finding F4. *)
From Coq Require Import NArith List Bool.
From Arimaa Require Import Types U64 Board Engine Safety Invariant Setup Reach SafetyProof.
Import ListNotations.
Open Scope N_scope.

(* listing actions (both lists), result, can_pass, has_move, hashes, printing, capture previews *)
Theorem C19_queries : forall s, Reach s -> queries_safe s = true.
Proof. exact reach_queries_safe. Qed.
Print Assumptions C19_queries.

(* applying any offered action *)
Theorem C19_apply : forall s a, Reach s -> In a (valid_actions_no_rep s) -> move_no s + 1 < P64 -> apply_safe s a = true.
Proof. exact reach_apply_safe. Qed.
Print Assumptions C19_apply.

(* boards of earlier steps of the turn *)
Theorem C19_board_for_step : forall s pp i, Reach s -> ph s = PlayPhase pp -> i <= step_of pp -> board_for_step_safe s i = true.
Proof. exact reach_board_for_step_safe. Qed.
Print Assumptions C19_board_for_step.

(* the guards are not vacuous, and the move-number hypothesis cannot be dropped *)
Theorem C19_guards_not_vacuous :
  status_safe (MustCompletePush 3 Elephant) = false /\ status_safe (PossiblePull 3 Rabbit) = false /\ status_safe (PossiblePull 64 Cat) = false.
Proof. exact unsafe_status. Qed.
Print Assumptions C19_guards_not_vacuous.

Theorem C19_overflow_witness :
  apply_safe (mkstate false 18446744073709551615 (PlayPhase (mkplay [empty_board] PPNone 0 [] false)) empty_board 0) Pass = false.
Proof. exact overflow_needed. Qed.
Print Assumptions C19_overflow_witness.
