(* C14 - Earlier boards of the current turn are reported faithfully. *)
From Coq Require Import NArith List Bool.
From Arimaa Require Import Types U64 Board Engine TurnLemmas.
Open Scope N_scope.

(* from a turn-start state (empty record), after the steps l (at most 3), the board reported for step j
   is the board that was current after the first j steps, for every 0 <= j <= length l *)
Theorem C14_boards_reported : forall s0 pp0 l j, ph s0 = PlayPhase pp0 -> prev pp0 = nil -> N.of_nat (length l) <= 3 ->
  move_no s0 < P64 -> (forall a, In a l -> exists i d, a = Move i d) -> (j <= length l)%nat ->
  piece_board_for_step (fold_left take_action l s0) (N.of_nat j) = board (fold_left take_action (firstn j l) s0).
Proof. exact boards_reported. Qed.
Print Assumptions C14_boards_reported.

Theorem C14_current : forall s pp, ph s = PlayPhase pp -> piece_board_for_step s (step_of pp) = board s.
Proof. exact board_for_step_current. Qed.
Print Assumptions C14_current.
