(* C09 - Setup places 16 pieces per side on home ranks in fixed order, then play starts.
   SetupInv s n: setup phase, n placements made so far (n < 32), occupancy = the n-th shape, mover = Gold iff n < 16,
   move number 1.  target n = 48+n for Gold (a2..h2, a1..h1), n-16 for Silver (a8..h8, a7..h7). *)
From Coq Require Import NArith List Bool.
From Arimaa Require Import Types U64 Board Engine Cells Rules Monitors Invariant HashInv Setup Reach.
Open Scope N_scope.

Theorem C09_initial : SetupInv initial 0.
Proof. exact setup_initial. Qed.
Print Assumptions C09_initial.

(* the n-th placement puts (mover, chosen kind) on the next free home square and changes no other cell *)
Theorem C09_square : forall s n k i, SetupInv s n -> i < 64 ->
  cell (board (place s k)) i = if i =? target n then Some (side s, k) else cell (board s) i.
Proof. intros s n k i H Hi. exact (place_cell s n k H i Hi). Qed.
Print Assumptions C09_square.

(* offered placements: exactly the kinds of which the mover has placed fewer than the complement *)
Theorem C09_offered : forall s k, WFb (board s) ->
  (In (Place k) (valid_placement s) <-> count_kind (board s) k (side s) < complement k).
Proof. exact valid_placement_In. Qed.
Print Assumptions C09_offered.

Theorem C09_offered_only_placements : forall s a, In a (valid_placement s) -> exists k, a = Place k.
Proof. exact valid_placement_only. Qed.
Print Assumptions C09_offered_only_placements.

(* every placement but the last keeps the setup going: after Gold's sixteenth (n = 15) Silver is on move *)
Theorem C09_next : forall s n k, SetupInv s n -> n <> 31 -> SetupInv (place s k) (n + 1).
Proof. exact place_next. Qed.
Print Assumptions C09_next.

Theorem C09_mover : forall s n, SetupInv s n -> side s = (n <? 16) /\ move_no s = 1 /\ ph s = PlacePhase.
Proof. intros s n H. split; [exact (si_side s n H)|split; [exact (si_move s n H)|exact (si_phase s n H)]]. Qed.
Print Assumptions C09_mover.

(* after Silver's sixteenth: play phase, Gold to move, move number 2, step 0, nothing pending *)
Theorem C09_handover : forall s k, SetupInv s 31 ->
  exists h, ph (place s k) = PlayPhase (play_initial h (h :: nil)) /\ h = hash (place s k) /\ side (place s k) = true /\
            move_no (place s k) = 2 /\ HashInv (place s k) (play_initial h (h :: nil)).
Proof. intros s k Inv. exact (place_last s 31 k Inv eq_refl). Qed.
Print Assumptions C09_handover.
