(* C06 - Repetition rules withhold only the turn-ending actions that would break them.
   Proved here (unconditionally, on the model): the offered list is the rule-only list filtered, in the same
   order, by `keep`; `keep` is true for every step that does not end the turn; what `keep` tests for a
   turn-ending action is the engine's 64-bit hash comparison.
   NOT proved: that the hash comparison coincides with the exact-board rule over the full history.  That
   statement is false at full strength (finding F6: a 64-bit collision); the exact rule is evaluated by
   monitors 6.2 / 6.3 on every visited state, with the F6 game as the one listed finding. *)
From Coq Require Import NArith List Bool.
From Arimaa Require Import Types U64 Board Zobrist Engine Cells Rules Monitors Invariant Live RepInv Material.
Open Scope N_scope.

Theorem C06_filter : forall s pp (Inv : PlayInv s pp),
  valid_actions s = filter (keep s pp) (valid_actions_no_rep s).
Proof. exact valid_is_filter. Qed.
Print Assumptions C06_filter.

Theorem C06_non_ending_never_withheld : forall s pp i d, PlayInv s pp -> step_of pp < 3 -> keep s pp (Move i d) = true.
Proof. intros s pp i d _. exact (keep_non_ending s pp i d). Qed.
Print Assumptions C06_non_ending_never_withheld.

(* what is tested for a turn-ending step: not withheld iff the filter is inactive (a capture happened this turn)
   or the engine's hash test `is_passing_like_action` is false; for a pass: the engine's can_pass test *)
Theorem C06_keep_def : forall s pp i d,
  keep s pp (Move i d) = negb ((step_of pp =? 3) && negb (trapped pp)) || negb (is_passing_like_action s (Move i d)).
Proof. reflexivity. Qed.
Print Assumptions C06_keep_def.

(* forgetting the history at a capture never changes the verdict of the exact rule: a position from before the last
   capture has strictly more pieces than any later one, so it cannot be an earlier occurrence *)
Theorem C06_forget : forall s pp G Old b0 nb f, MatInv s pp G Old b0 -> (npc (cell nb) <= npc (cell (board s)))%nat ->
  (forall x, In x (G ++ Old) -> f x = true -> peq x (nb, negb (side s))) ->
  length (filter f (G ++ Old)) = length (filter f G).
Proof. exact forgetting_is_harmless. Qed.
Print Assumptions C06_forget.

(* exactness for the pass, under the hypothesis that no 64-bit collision is involved in the comparisons made in s
   (NoCollisionAt; it cannot be dropped: finding F6): a pass of the rule-only list is withheld only if the board is
   the turn's starting board or the resulting position already occurred twice *)
Theorem C06_pass_exact_partial : forall s pp G b0, RepInv s pp G b0 -> NoCollisionAt s G b0 (board s) ->
  In Pass (valid_actions_no_rep s) -> ~ In Pass (valid_actions s) ->
  beq (board s) b0 \/ (2 <= length (filter (fun x => (z_from_piece_board (board s) (negb (side s)) 0 =? hpos x)%N) G))%nat.
Proof. exact withheld_pass_exact. Qed.
Print Assumptions C06_pass_exact_partial.

(* exactness for a withheld fourth step, under the same no-collision hypothesis: it is withheld only at step 3 of a
   capture-free turn and only if the result is the turn's starting board or already occurred twice *)
Theorem C06_step_exact_partial : forall s pp G b0 i d, RepInv s pp G b0 ->
  let nb := board (take_action s (Move i d)) in
  NoCollisionAt s G b0 nb ->
  In (Move i d) (valid_actions_no_rep s) -> ~ In (Move i d) (valid_actions s) ->
  step_of pp = 3 /\ trapped pp = false /\
  (beq nb b0 \/ (2 <= length (filter (fun x => (z_from_piece_board nb (negb (side s)) 0 =? hpos x)%N) G))%nat).
Proof. exact withheld_step_exact. Qed.
Print Assumptions C06_step_exact_partial.

(* the two directions together: with no collision involved, a turn-ending action of the rule-only list is offered by
   the repetition-checked list IF AND ONLY IF the exact rule allows it - the resulting board differs (on cells) from
   the turn's starting board and the resulting position occurred at most once among the exact turn-start positions
   since the last capture (by C06_forget: in the whole game) *)
Theorem C06_exact_rule : forall G b0 nb sd, exact_allowed G b0 nb sd <->
  (~ beq nb b0 /\ (length (filter (fun x => peqb x (nb, sd)) G) <= 1)%nat).
Proof. intros. reflexivity. Qed.
Print Assumptions C06_exact_rule.

Theorem C06_peqb : forall x y, peqb x y = true <-> peq x y.
Proof. intros x y. split; [apply peqb_peq|apply peqb_true]. Qed.
Print Assumptions C06_peqb.

Theorem C06_pass_iff : forall s pp G b0, RepInv s pp G b0 -> NoCollisionAt s G b0 (board s) -> In Pass (valid_actions_no_rep s) ->
  (In Pass (valid_actions s) <-> exact_allowed G b0 (board s) (negb (side s))).
Proof. exact pass_offered_iff. Qed.
Print Assumptions C06_pass_iff.

Theorem C06_fourth_step_iff : forall s pp G b0 i d, RepInv s pp G b0 ->
  let nb := board (take_action s (Move i d)) in
  NoCollisionAt s G b0 nb -> In (Move i d) (valid_actions_no_rep s) -> step_of pp = 3 -> trapped pp = false ->
  (In (Move i d) (valid_actions s) <-> exact_allowed G b0 nb (negb (side s))).
Proof. exact fourth_step_offered_iff. Qed.
Print Assumptions C06_fourth_step_iff.

(* ... and the same over the WHOLE game: along every game from a start position (ReachH: G = exact turn-start positions
   since the last capture, Old = all earlier ones) the verdict of the exact rule on the complete list G ++ Old is the
   verdict on G, so forgetting the history at captures loses nothing *)
Theorem C06_pass_iff_whole_game : forall s G Old b0, ReachH s G Old b0 -> NoCollisionAt s G b0 (board s) ->
  In Pass (valid_actions_no_rep s) ->
  (In Pass (valid_actions s) <-> exact_allowed (G ++ Old) b0 (board s) (negb (side s))).
Proof. exact pass_offered_iff_whole_game. Qed.
Print Assumptions C06_pass_iff_whole_game.

Theorem C06_fourth_step_iff_whole_game : forall s pp G Old b0 i d, ReachH s G Old b0 -> ph s = PlayPhase pp ->
  let nb := board (take_action s (Move i d)) in
  NoCollisionAt s G b0 nb -> In (Move i d) (valid_actions_no_rep s) -> step_of pp = 3 -> trapped pp = false ->
  (In (Move i d) (valid_actions s) <-> exact_allowed (G ++ Old) b0 nb (negb (side s))).
Proof. exact fourth_step_offered_iff_whole_game. Qed.
Print Assumptions C06_fourth_step_iff_whole_game.

(* after a capture earlier in the turn no fourth step is withheld (no earlier position can recur: C06_forget) *)
Theorem C06_capture_turn : forall s pp i d, PlayInv s pp -> trapped pp = true ->
  In (Move i d) (valid_actions_no_rep s) -> In (Move i d) (valid_actions s).
Proof. exact capture_turn_never_withheld. Qed.
Print Assumptions C06_capture_turn.
