(* C17 - Changing one hashed feature always changes the transposition hash.
   Statements only; each is closed by `exact <lemma>` and followed by Print Assumptions. *)
From Coq Require Import NArith List Bool.
From Arimaa Require Import Types U64 Board Zobrist Engine Cells HashSens.
Open Scope N_scope.

(* the engine's transposition hash IS thash_of of the four hashed features whenever the incremental
   hash equals the from-scratch hash (C08: every reachable play-phase state) *)
Theorem C17_thash_is_feature_hash : forall s pp,
  ph s = PlayPhase pp -> hash s = z_from_piece_board (board s) (side s) (step_of pp) ->
  transposition_hash s = thash_of (board s) (side s) (step_of pp) (pstate pp).
Proof. exact transposition_hash_thash. Qed.
Print Assumptions C17_thash_is_feature_hash.

(* the content of one square (any of the 13 contents, any of the 64 squares, any surrounding board) *)
Theorem C17_one_cell : forall b b' sd stp st i, WFb b -> WFb b' -> i < 64 ->
  (forall j, j < 64 -> j <> i -> cell b j = cell b' j) -> cell b i <> cell b' i ->
  thash_of b sd stp st <> thash_of b' sd stp st.
Proof. exact thash_cell. Qed.
Print Assumptions C17_one_cell.

Theorem C17_side : forall b stp st, WFb b -> thash_of b true stp st <> thash_of b false stp st.
Proof. exact thash_side. Qed.
Print Assumptions C17_side.

Theorem C17_step : forall b sd stp stp' st, WFb b -> stp <= 3 -> stp' <= 3 -> stp <> stp' ->
  thash_of b sd stp st <> thash_of b sd stp' st.
Proof. exact thash_step. Qed.
Print Assumptions C17_step.

(* all 641 admissible statuses: kind, square and piece type *)
Theorem C17_status : forall b sd stp st st', admissible st = true -> admissible st' = true -> st <> st' ->
  thash_of b sd stp st <> thash_of b sd stp st'.
Proof. exact thash_status. Qed.
Print Assumptions C17_status.

(* one piece standing on a different square, everything else equal *)
Theorem C17_moved_piece : forall b b' sd stp st p q o k, WFb b -> WFb b' -> p < 64 -> q < 64 -> p <> q ->
  cell b p = Some (o, k) -> cell b q = None -> cell b' p = None -> cell b' q = Some (o, k) ->
  (forall j, j < 64 -> j <> p -> j <> q -> cell b j = cell b' j) ->
  thash_of b sd stp st <> thash_of b' sd stp st.
Proof. exact thash_moved. Qed.
Print Assumptions C17_moved_piece.
