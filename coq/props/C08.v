(* C08 - Position hash depends only on board, side to move, step and push/pull status. *)
From Coq Require Import NArith List Bool.
From Arimaa Require Import Types U64 Board Zobrist Engine Cells XorFold Hash.
Open Scope N_scope.

(* the from-scratch hash of a well-formed board is a function of its 64 cells, the side and the step:
   the order of the owner x kind x set-bit loops of zobrist.rs is irrelevant *)
Theorem C08_from_scratch_is_cellwise : forall b sd stp, WFb b ->
  z_from_piece_board b sd stp = N.lxor (header_part sd stp) (board_part b).
Proof. exact z_from_piece_board_spec. Qed.
Print Assumptions C08_from_scratch_is_cellwise.
