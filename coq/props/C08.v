(* C08 - Position hash depends only on board, side to move, step and push/pull status. *)
From Coq Require Import NArith List Bool.
From Arimaa Require Import Types U64 Board Zobrist Engine Cells XorFold Hash Invariant HashInv Setup Reach RepInv.
Open Scope N_scope.

(* the from-scratch hash of a well-formed board is a function of its 64 cells, the side and the step:
   the order of the owner x kind x set-bit loops of zobrist.rs is irrelevant *)
Theorem C08_from_scratch_is_cellwise : forall b sd stp, WFb b ->
  z_from_piece_board b sd stp = N.lxor (header_part sd stp) (board_part b).
Proof. exact z_from_piece_board_spec. Qed.
Print Assumptions C08_from_scratch_is_cellwise.

(* every reachable play-phase state - whatever placements, steps, captures and passes produced it - carries the
   from-scratch hash of its board, side and step *)
Theorem C08_inv : forall s pp, Reach s -> ph s = PlayPhase pp ->
  hash s = z_from_piece_board (board s) (side s) (step_of pp).
Proof. intros s pp R P. exact (hi_hash s pp (reach_play s pp R P)). Qed.
Print Assumptions C08_inv.

Theorem C08_transposition_hash : forall s pp, Reach s -> ph s = PlayPhase pp ->
  transposition_hash s = N.lxor (z_from_piece_board (board s) (side s) (step_of pp))
                                (match pstate pp with
                                 | MustCompletePush sq k => push_piece_value sq k
                                 | PossiblePull sq k => pull_piece_value sq k
                                 | PPNone => 0 end).
Proof. intros s pp R P. exact (transposition_hash_from_scratch s pp (reach_play s pp R P)). Qed.
Print Assumptions C08_transposition_hash.

(* the incremental update of one step / one pass *)
Theorem C08_move_update : forall b nb sd nsd cs ns, WFb b -> WFb nb ->
  z_move_piece (z_from_piece_board b sd cs) sd b cs nb ns nsd = z_from_piece_board nb nsd ns.
Proof. exact z_move_piece_spec. Qed.
Print Assumptions C08_move_update.

Theorem C08_pass_update : forall b sd cs, WFb b -> z_pass (z_from_piece_board b sd cs) cs = z_from_piece_board b (negb sd) 0.
Proof. exact z_pass_spec. Qed.
Print Assumptions C08_pass_update.

(* a finished setup is a start position: play phase, step 0, hash = from-scratch hash, history = [hash] -
   exactly what parsing the same position from text yields *)
Theorem C08_setup_end : forall s k, SetupInv s 31 ->
  exists h, ph (place s k) = PlayPhase (play_initial h (h :: nil)) /\ h = hash (place s k) /\ side (place s k) = true /\
            move_no (place s k) = 2 /\ HashInv (place s k) (play_initial h (h :: nil)).
Proof. intros s k Inv. exact (place_last s 31 k Inv eq_refl). Qed.
Print Assumptions C08_setup_end.

(* same board (as cells), side and step => the states compare equal and hash equal *)
Theorem C08_eq : forall s pp s' pp', HashInv s pp -> HashInv s' pp' ->
  (forall i, i < 64 -> cell (board s) i = cell (board s') i) -> side s = side s' -> step_of pp = step_of pp' ->
  state_eqb s s' = true /\ hash s = hash s'.
Proof. exact same_position_equal. Qed.
Print Assumptions C08_eq.

(* the start-of-turn hashes recorded for repetition detection are the from-scratch hashes of the exact turn-start
   positions since the last capture (ghost G), and the turn-start hash is that of the turn's starting board b0 *)
Theorem C08_history : forall s G b0 pp, ReachG s G b0 -> ph s = PlayPhase pp ->
  hist pp = map hpos G /\ init_hash pp = z_from_piece_board b0 (side s) 0.
Proof. exact history_hashes. Qed.
Print Assumptions C08_history.
