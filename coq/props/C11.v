(* C11 - Rules are invariant under file mirroring and under colour swap with rank flip.
   mu  : mirror_sq (file h <-> a), Left <-> Right, owners unchanged.
   kappa: flip_sq (rank 8 <-> 1), Up <-> Down, owners swapped; results swapped (tres).
   SymStates ts tw s s' pp pp': both states satisfy the play invariant, the cells of s' are the image of the cells
   of s, side/step/status correspond.  The theorems transfer the symmetry of the square-level rules (spec/Rules.v)
   to the engine through T1 (C01), the step lemma (C02), the status rule (C12) and the result order (C04); the
   composition of the two symmetries follows by composing them.
   WHOLE GAMES (SymGame): two games that start from corresponding start positions and proceed by corresponding
   rule-only actions stay corresponding at every step - states (cells, side, step, status, also across turn changes)
   and the repetition bookkeeping (exact turn-start positions, turn's starting board, capture flag).  Along such
   games the rule-only offered actions and the capture preview correspond, and so do the actions that the REPETITION
   rules withhold, unless a 64-bit hash collision is involved on one side (NoCollisionAt; that proviso cannot be
   dropped: known finding F6 is a concrete asymmetry).  The metamorphic replay of every generated game through the
   real crate (sym) checks the same on the implementation. *)
From Coq Require Import NArith List Bool.
From Arimaa Require Import Types U64 Board Engine Cells Rules Monitors Invariant Live Reach ResultLemmas Traps RepInv Material Symmetry SymExample.
Import ListNotations.
Open Scope N_scope.

Theorem C11_mirror_offered : forall s s' pp pp' i d, SymStates mirror_sq (fun o => o) s s' pp pp' -> i < 64 ->
  (In (Move i d) (valid_actions_no_rep s) <-> In (Move (mirror_sq i) (mirror_dir d)) (valid_actions_no_rep s')).
Proof. exact mirror_offered. Qed.
Print Assumptions C11_mirror_offered.

Theorem C11_mirror_pass : forall s s' pp pp', SymStates mirror_sq (fun o => o) s s' pp pp' ->
  (In Pass (valid_actions_no_rep s) <-> In Pass (valid_actions_no_rep s')).
Proof. exact mirror_pass. Qed.
Print Assumptions C11_mirror_pass.

Theorem C11_mirror_step : forall s s' pp pp' i d, SymStates mirror_sq (fun o => o) s s' pp pp' ->
  In (Move i d) (valid_actions_no_rep s) -> move_no s < P64 -> move_no s' < P64 -> step_of pp < 3 ->
  exists pp2 pp2', SymStates mirror_sq (fun o => o) (take_action s (Move i d)) (take_action s' (Move (mirror_sq i) (mirror_dir d))) pp2 pp2'.
Proof. exact mirror_step. Qed.
Print Assumptions C11_mirror_step.

Theorem C11_mirror_result : forall s s' pp pp', SymStates mirror_sq (fun o => o) s s' pp pp' -> step_of pp = 0 ->
  nonempty (valid_actions s') = nonempty (valid_actions s) ->
  is_terminal s' = term_of (tres (fun o => o) (spec_result (cell (board s)) (side s) (nonempty (valid_actions s)))) /\
  is_terminal s = term_of (spec_result (cell (board s)) (side s) (nonempty (valid_actions s))).
Proof. exact mirror_result. Qed.
Print Assumptions C11_mirror_result.

Theorem C11_flip_offered : forall s s' pp pp' i d, SymStates flip_sq negb s s' pp pp' -> i < 64 ->
  (In (Move i d) (valid_actions_no_rep s) <-> In (Move (flip_sq i) (flip_dir d)) (valid_actions_no_rep s')).
Proof. exact flip_offered. Qed.
Print Assumptions C11_flip_offered.

Theorem C11_flip_pass : forall s s' pp pp', SymStates flip_sq negb s s' pp pp' ->
  (In Pass (valid_actions_no_rep s) <-> In Pass (valid_actions_no_rep s')).
Proof. exact flip_pass. Qed.
Print Assumptions C11_flip_pass.

Theorem C11_flip_step : forall s s' pp pp' i d, SymStates flip_sq negb s s' pp pp' ->
  In (Move i d) (valid_actions_no_rep s) -> move_no s < P64 -> move_no s' < P64 -> step_of pp < 3 ->
  exists pp2 pp2', SymStates flip_sq negb (take_action s (Move i d)) (take_action s' (Move (flip_sq i) (flip_dir d))) pp2 pp2'.
Proof. exact flip_step. Qed.
Print Assumptions C11_flip_step.

(* colour swap: a Gold win of the original is a Silver win of the image and vice versa *)
Theorem C11_flip_result : forall s s' pp pp', SymStates flip_sq negb s s' pp pp' -> step_of pp = 0 ->
  nonempty (valid_actions s') = nonempty (valid_actions s) ->
  is_terminal s' = term_of (tres negb (spec_result (cell (board s)) (side s) (nonempty (valid_actions s)))) /\
  is_terminal s = term_of (spec_result (cell (board s)) (side s) (nonempty (valid_actions s))).
Proof. exact flip_result. Qed.
Print Assumptions C11_flip_result.

(* the capture preview of corresponding offered steps names corresponding pieces (same kind, mapped square and owner),
   from every position without trap violations (all reachable ones: C10 / C13_legal_after_step) *)
Theorem C11_mirror_preview : forall s s' pp pp' i d, SymStates mirror_sq (fun o => o) s s' pp pp' ->
  In (Move i d) (valid_actions_no_rep s) -> legal_traps (cell (board s)) ->
  trapped_animal_for_action s' (Move (mirror_sq i) (mirror_dir d)) =
  tprev mirror_sq (fun o => o) (trapped_animal_for_action s (Move i d)).
Proof. exact mirror_preview. Qed.
Print Assumptions C11_mirror_preview.

Theorem C11_flip_preview : forall s s' pp pp' i d, SymStates flip_sq negb s s' pp pp' ->
  In (Move i d) (valid_actions_no_rep s) -> legal_traps (cell (board s)) ->
  trapped_animal_for_action s' (Move (flip_sq i) (flip_dir d)) =
  tprev flip_sq negb (trapped_animal_for_action s (Move i d)).
Proof. exact flip_preview. Qed.
Print Assumptions C11_flip_preview.

Theorem C11_preview_image : forall j k o, tprev flip_sq negb (Some (j, k, o)) = Some (flip_sq j, k, negb o) /\ tprev flip_sq negb None = None.
Proof. repeat split. Qed.
Print Assumptions C11_preview_image.

(* ---- whole games ---- *)
(* SymGame ts td tw s s' G G' b0 b0': s and s' are reached from corresponding start positions by corresponding actions;
   G, G' are the exact turn-start positions since the last capture, b0, b0' the boards at the start of the turn *)
Theorem C11_game_definition : forall ts td tw,
  (forall s s', StartPosition s -> StartPosition s' -> img ts tw (cell (board s)) (cell (board s')) -> side s' = tw (side s) ->
     legal_traps (cell (board s)) -> SymGame ts td tw s s' [(board s, side s)] [(board s', side s')] (board s) (board s')) /\
  (forall s s' pp pp' G G' b0 b0' a, SymGame ts td tw s s' G G' b0 b0' -> ph s = PlayPhase pp -> ph s' = PlayPhase pp' ->
     In a (valid_actions_no_rep s) -> move_no s + 1 < P64 -> move_no s' + 1 < P64 ->
     SymGame ts td tw (take_action s a) (take_action s' (tact ts td a))
       (fst (ghost_next s pp G b0 a)) (fst (ghost_next s' pp' G' b0' (tact ts td a)))
       (snd (ghost_next s pp G b0 a)) (snd (ghost_next s' pp' G' b0' (tact ts td a)))).
Proof. intros ts td tw. split; [exact (SG_start ts td tw)|exact (SG_step ts td tw)]. Qed.
Print Assumptions C11_game_definition.

(* corresponding games are in corresponding states (cells, side, step, status), with corresponding repetition data *)
Theorem C11_mirror_game_states : forall s s' G G' b0 b0', SymGame mirror_sq mirror_dir (fun o => o) s s' G G' b0 b0' ->
  exists pp pp', SymRep mirror_sq (fun o => o) s s' pp pp' G G' b0 b0'.
Proof. exact mirror_game_rep. Qed.
Print Assumptions C11_mirror_game_states.

Theorem C11_flip_game_states : forall s s' G G' b0 b0', SymGame flip_sq flip_dir negb s s' G G' b0 b0' ->
  exists pp pp', SymRep flip_sq negb s s' pp pp' G G' b0 b0'.
Proof. exact flip_game_rep. Qed.
Print Assumptions C11_flip_game_states.

Theorem C11_symrep_unfold : forall ts tw s s' pp pp' G G' b0 b0', SymRep ts tw s s' pp pp' G G' b0 b0' ->
  SymStates ts tw s s' pp pp' /\ RepInv s pp G b0 /\ RepInv s' pp' G' b0' /\
  Forall2 (fun x x' => img ts tw (cell (fst x)) (cell (fst x')) /\ snd x' = tw (snd x)) G G' /\
  img ts tw (cell b0) (cell b0') /\ trapped pp' = trapped pp.
Proof. intros ts tw s s' pp pp' G G' b0 b0' [A B C D E F]. split; [exact A|]. split; [exact B|]. split; [exact C|]. split; [exact D|]. split; [exact E|exact F]. Qed.
Print Assumptions C11_symrep_unfold.

(* at every step of corresponding games the rule-only offered actions correspond, in both directions *)
Theorem C11_mirror_game_offered : forall s s' G G' b0 b0' a, SymGame mirror_sq mirror_dir (fun o => o) s s' G G' b0 b0' ->
  (In a (valid_actions_no_rep s) -> In (tact mirror_sq mirror_dir a) (valid_actions_no_rep s')) /\
  (forall i d, i < 64 -> In (Move (mirror_sq i) (mirror_dir d)) (valid_actions_no_rep s') -> In (Move i d) (valid_actions_no_rep s)) /\
  (In Pass (valid_actions_no_rep s') -> In Pass (valid_actions_no_rep s)).
Proof. exact mirror_game_offered. Qed.
Print Assumptions C11_mirror_game_offered.

Theorem C11_flip_game_offered : forall s s' G G' b0 b0' a, SymGame flip_sq flip_dir negb s s' G G' b0 b0' ->
  (In a (valid_actions_no_rep s) -> In (tact flip_sq flip_dir a) (valid_actions_no_rep s')) /\
  (forall i d, i < 64 -> In (Move (flip_sq i) (flip_dir d)) (valid_actions_no_rep s') -> In (Move i d) (valid_actions_no_rep s)) /\
  (In Pass (valid_actions_no_rep s') -> In Pass (valid_actions_no_rep s)).
Proof. exact flip_game_offered. Qed.
Print Assumptions C11_flip_game_offered.

(* ... the capture previews correspond *)
Theorem C11_mirror_game_preview : forall s s' G G' b0 b0' i d, SymGame mirror_sq mirror_dir (fun o => o) s s' G G' b0 b0' ->
  In (Move i d) (valid_actions_no_rep s) ->
  trapped_animal_for_action s' (Move (mirror_sq i) (mirror_dir d)) = tprev mirror_sq (fun o => o) (trapped_animal_for_action s (Move i d)).
Proof. exact mirror_game_preview. Qed.
Print Assumptions C11_mirror_game_preview.

Theorem C11_flip_game_preview : forall s s' G G' b0 b0' i d, SymGame flip_sq flip_dir negb s s' G G' b0 b0' ->
  In (Move i d) (valid_actions_no_rep s) ->
  trapped_animal_for_action s' (Move (flip_sq i) (flip_dir d)) = tprev flip_sq negb (trapped_animal_for_action s (Move i d)).
Proof. exact flip_game_preview. Qed.
Print Assumptions C11_flip_game_preview.

(* ... and which turn-ending actions the repetition rules withhold, up to 64-bit collisions on either side *)
Theorem C11_mirror_game_withheld : forall s s' G G' b0 b0', SymGame mirror_sq mirror_dir (fun o => o) s s' G G' b0 b0' ->
  (NoCollisionAt s G b0 (board s) -> NoCollisionAt s' G' b0' (board s') -> (In Pass (valid_actions s) <-> In Pass (valid_actions s'))) /\
  (forall i d, i < 64 -> NoCollisionAt s G b0 (board (take_action s (Move i d))) ->
     NoCollisionAt s' G' b0' (board (take_action s' (Move (mirror_sq i) (mirror_dir d)))) ->
     (In (Move i d) (valid_actions s) <-> In (Move (mirror_sq i) (mirror_dir d)) (valid_actions s'))).
Proof. exact mirror_game_withheld. Qed.
Print Assumptions C11_mirror_game_withheld.

Theorem C11_flip_game_withheld : forall s s' G G' b0 b0', SymGame flip_sq flip_dir negb s s' G G' b0 b0' ->
  (NoCollisionAt s G b0 (board s) -> NoCollisionAt s' G' b0' (board s') -> (In Pass (valid_actions s) <-> In Pass (valid_actions s'))) /\
  (forall i d, i < 64 -> NoCollisionAt s G b0 (board (take_action s (Move i d))) ->
     NoCollisionAt s' G' b0' (board (take_action s' (Move (flip_sq i) (flip_dir d)))) ->
     (In (Move i d) (valid_actions s) <-> In (Move (flip_sq i) (flip_dir d)) (valid_actions s'))).
Proof. exact flip_game_withheld. Qed.
Print Assumptions C11_flip_game_withheld.

(* ... and the results reported at turn starts (colours swapped by tres), up to collisions on either side *)
Theorem C11_mirror_game_result : forall s s' G G' b0 b0' pp, SymGame mirror_sq mirror_dir (fun o => o) s s' G G' b0 b0' ->
  ph s = PlayPhase pp -> step_of pp = 0 ->
  NoCollisionState s G b0 -> NoCollisionState s' G' b0' ->
  exists r, is_terminal s = term_of r /\ is_terminal s' = term_of (tres (fun o => o) r).
Proof. exact mirror_game_result. Qed.
Print Assumptions C11_mirror_game_result.

Theorem C11_flip_game_result : forall s s' G G' b0 b0' pp, SymGame flip_sq flip_dir negb s s' G G' b0 b0' ->
  ph s = PlayPhase pp -> step_of pp = 0 ->
  NoCollisionState s G b0 -> NoCollisionState s' G' b0' ->
  exists r, is_terminal s = term_of r /\ is_terminal s' = term_of (tres negb r).
Proof. exact flip_game_result. Qed.
Print Assumptions C11_flip_game_result.

Theorem C11_no_collision_state : forall s G b0, NoCollisionState s G b0 <->
  (NoCollisionAt s G b0 (board s) /\ forall i d, NoCollisionAt s G b0 (board (take_action s (Move i d)))).
Proof. intros. reflexivity. Qed.
Print Assumptions C11_no_collision_state.

(* the hypotheses of the whole-game theorems are satisfiable: a concrete position (Gold R c2, D d2; Silver r c7, c d7;
   Gold to move) and its colour-swapped rank-flipped image form a SymGame, a step is offered, and the game proceeds *)
Theorem C11_game_nonvacuous :
  let s := mkstart ex_b true in let s' := mkstart ex_b' false in
  SymGame flip_sq flip_dir negb s s' [(ex_b, true)] [(ex_b', false)] ex_b ex_b' /\
  In (Move 50 Up) (valid_actions_no_rep s) /\ In (Move (flip_sq 50) (flip_dir Up)) (valid_actions_no_rep s') /\
  exists G G' b0 b0', SymGame flip_sq flip_dir negb (take_action s (Move 50 Up)) (take_action s' (Move (flip_sq 50) (flip_dir Up))) G G' b0 b0'.
Proof. exact sym_game_nonvacuous. Qed.
Print Assumptions C11_game_nonvacuous.

Theorem C11_swapped_results : tres negb (Some RGold) = Some RSilver /\ tres negb (Some RSilver) = Some RGold /\ tres negb None = None /\
  tres (fun o => o) (Some RGold) = Some RGold.
Proof. repeat split. Qed.
Print Assumptions C11_swapped_results.
