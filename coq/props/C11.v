(* C11 - Rules are invariant under file mirroring and under colour swap with rank flip.
   mu  : mirror_sq (file h <-> a), Left <-> Right, owners unchanged.
   kappa: flip_sq (rank 8 <-> 1), Up <-> Down, owners swapped; results swapped (tres).
   SymStates ts tw s s' pp pp': both states satisfy the play invariant, the cells of s' are the image of the cells
   of s, side/step/status correspond.  The theorems transfer the symmetry of the square-level rules (spec/Rules.v)
   to the engine through T1 (C01), the step lemma (C02), the status rule (C12) and the result order (C04); the
   composition of the two symmetries follows by composing them.
   PARTIAL: which actions the REPETITION rules withhold is symmetric only up to 64-bit hash collisions (known
   finding F6 is a concrete asymmetry); that part and the capture preview are checked by the metamorphic replay of
   every generated game through the real crate (sym), not proved. *)
From Coq Require Import NArith List Bool.
From Arimaa Require Import Types U64 Board Engine Cells Rules Monitors Invariant Live ResultLemmas Symmetry.
Open Scope N_scope.

Theorem C11_mirror_offered : forall s s' pp pp' i d, SymStates mirror_sq (fun o => o) s s' pp pp' -> i < 64 ->
  (In (Move i d) (valid_actions_no_rep s) <-> In (Move (mirror_sq i) (mirror_dir d)) (valid_actions_no_rep s')).
Proof. exact mirror_offered. Qed.
Print Assumptions C11_mirror_offered.

Theorem C11_mirror_pass : forall s s' pp pp', SymStates mirror_sq (fun o => o) s s' pp pp' ->
  (In Pass (valid_actions_no_rep s) <-> In Pass (valid_actions_no_rep s')).
Proof. exact mirror_pass. Qed.
Print Assumptions C11_mirror_pass.

Theorem C11_mirror_step : forall s s' pp pp' i d, SymStates mirror_sq (fun o => o) s s' pp pp' ->
  In (Move i d) (valid_actions_no_rep s) -> move_no s < P64 -> move_no s' < P64 -> step_of pp < 3 ->
  exists pp2 pp2', SymStates mirror_sq (fun o => o) (take_action s (Move i d)) (take_action s' (Move (mirror_sq i) (mirror_dir d))) pp2 pp2'.
Proof. exact mirror_step. Qed.
Print Assumptions C11_mirror_step.

Theorem C11_mirror_result : forall s s' pp pp', SymStates mirror_sq (fun o => o) s s' pp pp' -> step_of pp = 0 ->
  nonempty (valid_actions s') = nonempty (valid_actions s) ->
  is_terminal s' = term_of (tres (fun o => o) (spec_result (cell (board s)) (side s) (nonempty (valid_actions s)))) /\
  is_terminal s = term_of (spec_result (cell (board s)) (side s) (nonempty (valid_actions s))).
Proof. exact mirror_result. Qed.
Print Assumptions C11_mirror_result.

Theorem C11_flip_offered : forall s s' pp pp' i d, SymStates flip_sq negb s s' pp pp' -> i < 64 ->
  (In (Move i d) (valid_actions_no_rep s) <-> In (Move (flip_sq i) (flip_dir d)) (valid_actions_no_rep s')).
Proof. exact flip_offered. Qed.
Print Assumptions C11_flip_offered.

Theorem C11_flip_pass : forall s s' pp pp', SymStates flip_sq negb s s' pp pp' ->
  (In Pass (valid_actions_no_rep s) <-> In Pass (valid_actions_no_rep s')).
Proof. exact flip_pass. Qed.
Print Assumptions C11_flip_pass.

Theorem C11_flip_step : forall s s' pp pp' i d, SymStates flip_sq negb s s' pp pp' ->
  In (Move i d) (valid_actions_no_rep s) -> move_no s < P64 -> move_no s' < P64 -> step_of pp < 3 ->
  exists pp2 pp2', SymStates flip_sq negb (take_action s (Move i d)) (take_action s' (Move (flip_sq i) (flip_dir d))) pp2 pp2'.
Proof. exact flip_step. Qed.
Print Assumptions C11_flip_step.

(* colour swap: a Gold win of the original is a Silver win of the image and vice versa *)
Theorem C11_flip_result : forall s s' pp pp', SymStates flip_sq negb s s' pp pp' -> step_of pp = 0 ->
  nonempty (valid_actions s') = nonempty (valid_actions s) ->
  is_terminal s' = term_of (tres negb (spec_result (cell (board s)) (side s) (nonempty (valid_actions s)))) /\
  is_terminal s = term_of (spec_result (cell (board s)) (side s) (nonempty (valid_actions s))).
Proof. exact flip_result. Qed.
Print Assumptions C11_flip_result.

Theorem C11_swapped_results : tres negb (Some RGold) = Some RSilver /\ tres negb (Some RSilver) = Some RGold /\ tres negb None = None /\
  tres (fun o => o) (Some RGold) = Some RGold.
Proof. repeat split. Qed.
Print Assumptions C11_swapped_results.
