(* C13 - The capture preview predicts exactly what applying the step removes. *)
From Coq Require Import NArith List Bool.
From Arimaa Require Import Types U64 Board Engine Cells Rules Monitors Invariant Traps.
Open Scope N_scope.

(* the preview returns nothing exactly when the board after the step is the board with only the mover moved *)
Theorem C13_preview_none : forall s pp i d t, PlayInv s pp -> In (Move i d) (valid_actions_no_rep s) -> dst_of i d = Some t ->
  (trapped_animal_for_action s (Move i d) = None <->
   forall j, j < 64 -> cell (board (take_action s (Move i d))) j = moved (cell (board s)) i t j).
Proof. intros s pp i d t Inv Off. exact (preview_none s pp i d Inv Off t). Qed.
Print Assumptions C13_preview_none.

(* otherwise it names the square, type and owner of a piece that stood unsupported on a trap after the move and is
   gone after the step *)
Theorem C13_preview_some : forall s pp i d t j k o, PlayInv s pp -> In (Move i d) (valid_actions_no_rep s) -> dst_of i d = Some t ->
  trapped_animal_for_action s (Move i d) = Some (j, k, o) ->
  j < 64 /\ unsupported_on_trap (moved (cell (board s)) i t) j = true /\ moved (cell (board s)) i t j = Some (o, k) /\
  cell (board (take_action s (Move i d))) j = None.
Proof. intros s pp i d t j k o Inv Off. exact (preview_some s pp i d Inv Off t j k o). Qed.
Print Assumptions C13_preview_some.

(* from a position without trap violations no single step removes more than one piece *)
Theorem C13_one : forall c i d t x y, i < 64 -> dst_of i d = Some t -> c t = None -> legal_traps c ->
  x < 64 -> y < 64 -> unsupported_on_trap (moved c i t) x = true -> unsupported_on_trap (moved c i t) y = true -> x = y.
Proof. exact one_capture. Qed.
Print Assumptions C13_one.

(* ... and every position reached by a step is without trap violations *)
Theorem C13_legal_after_step : forall s pp i d, PlayInv s pp -> In (Move i d) (valid_actions_no_rep s) ->
  legal_traps (cell (board (take_action s (Move i d)))).
Proof. exact step_settles. Qed.
Print Assumptions C13_legal_after_step.

Theorem C13_non_move : forall s k, trapped_animal_for_action s Pass = None /\ trapped_animal_for_action s (Place k) = None.
Proof. intros s k. split; reflexivity. Qed.
Print Assumptions C13_non_move.
