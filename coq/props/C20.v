(* C20 - Arbitrarily long games do not exhaust the stack.
   PARTIAL by nature: frame sizes, codegen and the 2 MiB default are runtime facts (measured by the check: long
   capture-free games dropped on a 2 MiB thread; drop-depth probe of List for lengths up to 10^7).  Logic proved:
   the history grows without bound over capture-free games; with compiler-generated drop glue the recursion depth
   equals the uniquely owned prefix (unbounded: the defect repaired by fix: 6afde1a); the iterative Drop that the
   source now declares has constant depth and the same effect, leaving shared suffixes intact. *)
From Coq Require Import NArith Arith List Bool String.
From Arimaa Require Import Types GenTypes U64 Board Zobrist Engine DropCost.
Import ListNotations.

Theorem C20_source_declares_iterative_drop : In "List"%string DROP_IMPLS.
Proof. exact list_has_iterative_drop. Qed.
Print Assumptions C20_source_declares_iterative_drop.

Theorem C20_growth : forall n s pp, ph s = PlayPhase pp -> trapped pp = false ->
  exists pp', ph (passes n s) = PlayPhase pp' /\ List.length (hist pp') = (n + List.length (hist pp))%nat /\ trapped pp' = false.
Proof. exact passes_grow. Qed.
Print Assumptions C20_growth.

Theorem C20_glue_refuted : forall B, exists c, (B < glue_depth c)%nat.
Proof. exact glue_depth_unbounded. Qed.
Print Assumptions C20_glue_refuted.

Theorem C20_bounded : forall c, (iter_depth c <= 1)%nat.
Proof. exact iter_depth_bounded. Qed.
Print Assumptions C20_bounded.

Theorem C20_same_effect : forall c, iter_result c = glue_result c /\
  iter_result c = match skipn (unique_prefix c) c with [] => [] | n :: r => (n - 1)%nat :: r end.
Proof. intros c. split; [apply iter_same_effect|apply iter_result_spec]. Qed.
Print Assumptions C20_same_effect.

Theorem C20_clone_is_shallow : forall c, (forall n, In n c -> (1 <= n)%nat) -> iter_result (clone_chain c) = c.
Proof. exact clone_then_drop. Qed.
Print Assumptions C20_clone_is_shallow.
