(* C10 - All views of the board describe one consistent legal position. *)
From Coq Require Import NArith List Bool.
From Arimaa Require Import Types U64 Board Engine Cells Rules Monitors StepLemmas GenLemmas Invariant Traps Setup Pending Material Counting HashInv InvExec.
Open Scope N_scope.

(* every state satisfying the (inductive) play-phase invariant has a well-formed board: each occupied
   square holds exactly one type and one owner, all = union of the types, gold pieces are pieces *)
Theorem C10_wf : forall s pp, PlayInv s pp -> WFb (board s) /\ Forall WFb (prev pp).
Proof. intros s pp H. split; [exact (inv_board s pp H)|exact (inv_prev s pp H)]. Qed.
Print Assumptions C10_wf.

(* the views agree with the square-level content *)
Theorem C10_view_owner : forall b o i, WFb b -> i < 64 -> N.testbit (player_piece_mask b o) i = friend_at (cell b) o i.
Proof. exact player_mask_spec. Qed.
Print Assumptions C10_view_owner.

Theorem C10_view_kind : forall b i k, WFb b ->
  N.testbit (bits_by_piece_type b k) i = match cell b i with Some (_, k') => piece_eqb k k' | None => false end.
Proof. exact kind_bit_cell. Qed.
Print Assumptions C10_view_kind.

Theorem C10_view_lookup : forall b i, WFb b -> i < 64 -> piece_type_at_square b i = option_map snd (cell b i).
Proof. exact piece_type_at_square_spec. Qed.
Print Assumptions C10_view_lookup.

(* once a step has been applied no piece stands on a trap square without an adjacent friendly piece *)
Theorem C10_traps : forall s pp i d, PlayInv s pp -> In (Move i d) (valid_actions_no_rep s) ->
  forall j, j < 64 -> unsupported_on_trap (cell (board (take_action s (Move i d)))) j = false.
Proof. exact step_settles. Qed.
Print Assumptions C10_traps.

(* during setup the board is well formed too *)
Theorem C10_wf_setup : forall s n, SetupInv s n -> WFb (board s).
Proof. intros s n H. exact (si_wf s n H). Qed.
Print Assumptions C10_wf_setup.

(* every play-phase state reachable from the initial state or from a legal start position is without trap violations
   (the finished setup occupies the four home ranks only, which contain no trap) *)
Theorem C10_traps_reachable : forall s pp, ReachL s -> ph s = PlayPhase pp -> legal_traps (cell (board s)).
Proof.
  intros s pp R P. destruct (reachL_inv s R) as [[n Inv]|[pp0 (_ & L & _)]]; [|exact L].
  rewrite (si_phase s n Inv) in P. discriminate.
Qed.
Print Assumptions C10_traps_reachable.

(* material: in every state of every game from the initial state each side has at most 1 elephant, 1 camel, 2 horses,
   2 dogs, 2 cats and 8 rabbits (npk counts the squares holding a given owner and kind) *)
Theorem C10_material : forall s, ReachI s -> forall o k, (npk (cell (board s)) o k <= N.to_nat (complement k))%nat.
Proof. intros s R. exact (proj1 (reachI_within s R)). Qed.
Print Assumptions C10_material.

(* soundness of the executable invariant test used by the monitors on states assembled through the public
   constructors (generators G-built, G-trap, G-matrix, G-immobile): a state that passes it satisfies the play
   invariant and the hash invariant under which the `inv`-level monitor clauses are theorems *)
Theorem C10_monitor_invariant_sound : forall s, inv_exec s = true -> exists pp, HashInv s pp.
Proof. exact inv_exec_sound. Qed.
Print Assumptions C10_monitor_invariant_sound.
