(* C04 - At turn start the reported result follows the official win-condition order.
   spec_result (spec/Rules.v) is the literal six-line cascade on squares; the goal ranks are defined from the
   row of a square (rank 8 for Gold, rank 1 for Silver), not from the engine's masks. *)
From Coq Require Import NArith List Bool.
From Arimaa Require Import Types U64 Board Engine Cells Rules Monitors Invariant Live ResultLemmas.
Open Scope N_scope.

Theorem C04_order : forall s pp, PlayInv s pp -> step_of pp = 0 ->
  is_terminal s = term_of (spec_result (cell (board s)) (side s) (nonempty (valid_actions s))).
Proof. exact result_order. Qed.
Print Assumptions C04_order.

(* mid-turn a rabbit on the goal rank or the loss of the last rabbit does not end the game: the result depends on
   the offered list only *)
Theorem C04_midturn : forall s pp, PlayInv s pp -> 0 < step_of pp ->
  is_terminal s = if nonempty (valid_actions s) then None else Some (loss_for_mover s).
Proof. exact midturn_result. Qed.
Print Assumptions C04_midturn.

Theorem C04_setup : forall s, ph s = PlacePhase -> is_terminal s = None.
Proof. exact result_setup. Qed.
Print Assumptions C04_setup.
