(* C15 - Printing and parsing positions round-trips, and parsing never crashes.
   Text is a list of Unicode code points; parse_state_fixed is the model of the repaired parser (fix: 382635e),
   parse_state_orig of the unrepaired one (finding F1). *)
From Coq Require Import NArith List Bool.
From Arimaa Require Import Types U64 Board Zobrist Engine Cells Notation Display Trace Monitors DiagramLemmas DiagramRoundtrip Reach ParserWF.
Import ListNotations.
Open Scope N_scope.

(* parsing the printed diagram of ANY state with a well-formed board and a move number below 2^64 (any phase, any
   step) yields a start-of-turn state with the same board, side and move number, status None, history = [hash] *)
Theorem C15_roundtrip : forall s, WFb (board s) -> move_no s < P64 ->
  parse_state_fixed (print_state s) = Ok (reparsed s).
Proof. exact parse_print. Qed.
Print Assumptions C15_roundtrip.

Theorem C15_reparsed_state : forall s, board (reparsed s) = board s /\ side (reparsed s) = side s /\ move_no (reparsed s) = move_no s /\
  exists h, ph (reparsed s) = PlayPhase (play_initial h [h]) /\ h = hash (reparsed s) /\
            hash (reparsed s) = z_from_piece_board (board (reparsed s)) (side (reparsed s)) 0.
Proof. exact reparsed_fields. Qed.
Print Assumptions C15_reparsed_state.

(* whatever text the parser accepts - not only printed diagrams - the result is a start position: well-formed board
   (kinds disjoint, words within 64 bits), step 0, nothing pending, from-scratch hash, history = [hash].  This discharges
   the StartPosition premise of Reach / ReachRep / ReachG / ReachH / ReachL for every parsed state. *)
Theorem C15_accepted_is_start : forall t s, parse_state_fixed t = Ok s -> StartPosition s.
Proof. exact parse_start. Qed.
Print Assumptions C15_accepted_is_start.

(* its printed form is identical *)
Theorem C15_reprint : forall s, print_state (reparsed s) = print_state s.
Proof. exact reprint_identical. Qed.
Print Assumptions C15_reprint.

(* for start-of-turn states (hash = from-scratch hash: every reachable one, C08) the transposition hash is the same
   and the two states compare equal *)
Theorem C15_hash : forall s pp, ph s = PlayPhase pp -> step_of pp = 0 -> pstate pp = PPNone ->
  hash s = z_from_piece_board (board s) (side s) 0 ->
  transposition_hash (reparsed s) = transposition_hash s /\ state_eqb s (reparsed s) = true.
Proof. exact reparsed_hash. Qed.
Print Assumptions C15_hash.

(* parsing ANY text returns a state or an error, never a panic *)
Theorem C15_total : forall t, parse_state_fixed t <> Panic.
Proof. exact parse_state_total. Qed.
Print Assumptions C15_total.

Theorem C15_move_number_roundtrip : forall n, n < P64 -> parse_usize (print_dec n) = Some n.
Proof. exact parse_print_dec. Qed.
Print Assumptions C15_move_number_roundtrip.

Theorem C15_letters : forall b i, WFb b -> i < 64 ->
  letter_decodes (cell b i) (square_letter b i) = true /\ square_letter b i <> 124.
Proof. exact diagram_letter_decodes. Qed.
Print Assumptions C15_letters.

(* the unrepaired parser panicked on "99999999999999999999999g" (both profiles) and on U+0661 "g" *)
Theorem C15_original_refuted :
  parse_state_orig true txt_huge = Panic /\ parse_state_orig false txt_huge = Panic /\
  parse_state_orig false txt_arabic_digit = Panic.
Proof. exact F1_parse_orig_panics. Qed.
Print Assumptions C15_original_refuted.

Theorem C15_repaired_rejects : parse_state_fixed txt_huge = Err /\ parse_state_fixed txt_arabic_digit = Err.
Proof. exact F1_fixed_rejects. Qed.
Print Assumptions C15_repaired_rejects.
