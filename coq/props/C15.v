(* C15 - Printing and parsing positions round-trips, and parsing never crashes.
   Proved: totality of the (repaired) parser on ALL texts; the decimal header round trip for every move number
   below 2^64; every letter the printer emits for a square decodes to that square's content and is never
   the separator.  PARTIAL: the assembly of these into `parse (print s) = Ok s'` with `board s' = board s`
   (list surgery over the 8 rows) is not proved; monitors 15.1-15.4 check it on every visited state. *)
From Coq Require Import NArith List Bool.
From Arimaa Require Import Types U64 Board Engine Cells Notation Display Trace Monitors DiagramLemmas.
Import ListNotations.
Open Scope N_scope.

Theorem C15_total : forall t, parse_state_fixed t <> Panic.
Proof. exact parse_state_total. Qed.
Print Assumptions C15_total.

Theorem C15_move_number_roundtrip : forall n, n < P64 -> parse_usize (print_dec n) = Some n.
Proof. exact parse_print_dec. Qed.
Print Assumptions C15_move_number_roundtrip.

Theorem C15_letters_partial : forall b i, WFb b -> i < 64 ->
  letter_decodes (cell b i) (square_letter b i) = true /\ square_letter b i <> 124.
Proof. exact diagram_letter_decodes. Qed.
Print Assumptions C15_letters_partial.

(* the unrepaired parser panicked on "99999999999999999999999g" (both profiles) and on U+0661 "g" *)
Theorem C15_original_refuted :
  parse_state_orig true txt_huge = Panic /\ parse_state_orig false txt_huge = Panic /\
  parse_state_orig false txt_arabic_digit = Panic.
Proof. exact F1_parse_orig_panics. Qed.
Print Assumptions C15_original_refuted.

Theorem C15_repaired_rejects : parse_state_fixed txt_huge = Err /\ parse_state_fixed txt_arabic_digit = Err.
Proof. exact F1_fixed_rejects. Qed.
Print Assumptions C15_repaired_rejects.
