(* C18 - Game states can be shared between threads and expanded concurrently.
   PARTIAL by nature: Send/Sync are facts of rustc's trait solver and data-race freedom is a theorem about Rust's
   memory model; what is logic is proved here on the type structure regenerated from the source (GenTypes.v)
   and on a model of readers of an immutable store.  The compile oracle (harness/src/bin/sendsync.rs) and a
   16-thread differential run are the tie to the code. *)
From Coq Require Import NArith List Bool String.
From Arimaa Require Import Types GenTypes Conc.
Import ListNotations.

(* structural auto-trait derivation: every public type, and the history list at Zobrist, is Send + Sync *)
Theorem C18_auto_traits : forallb send_sync public_types = true /\ send_sync "Zobrist" = true /\
  derive 40 not_thread_safe [] (TApp "List" [TApp "Zobrist" []]) = true.
Proof. exact auto_traits. Qed.
Print Assumptions C18_auto_traits.

(* a state is never modified after construction: no interior mutability is reachable from the public types,
   no unsafe impl Send/Sync, no static mut, and no public method takes &mut self *)
Theorem C18_frozen : (forallb frozen public_types = true /\ derive 40 interior_mut [] (TApp "List" [TApp "Zobrist" []]) = true) /\
  (UNSAFE_AUTO_IMPLS = [] /\ STATIC_MUTS = []) /\ existsb (fun e => recv_is_mut (snd e)) PUB_FNS = false.
Proof. split; [exact no_interior_mutability|split; [exact no_escape_hatches|exact no_mut_receivers]]. Qed.
Print Assumptions C18_frozen.

(* for EVERY schedule of n threads reading a shared immutable state, each thread's results are those of running alone *)
Theorem C18_interleaving : forall (St Q R : Type) (run : St -> Q -> R) st sched ts0,
  Forall2 (alone_inv St Q R run st) ts0 (exec St Q R run st sched ts0).
Proof. exact interleaving. Qed.
Print Assumptions C18_interleaving.

Theorem C18_finished_thread : forall (St Q R : Type) (run : St -> Q -> R) st sched ts0 n t0 t,
  nth_error ts0 n = Some t0 -> nth_error (exec St Q R run st sched ts0) n = Some t -> fst t = [] ->
  snd t = (snd t0 ++ map (run st) (fst t0))%list.
Proof. exact finished_thread_has_sequential_results. Qed.
Print Assumptions C18_finished_thread.

(* the derivation rejects what must be rejected *)
Theorem C18_not_vacuous : derive 40 not_thread_safe [] (TApp "Option" [TApp "Rc" [TPrim "u64"]]) = false /\
  derive 40 interior_mut [] (TApp "Vec" [TApp "RefCell" [TPrim "u64"]]) = false.
Proof. split; [exact rc_rejected|exact refcell_rejected]. Qed.
Print Assumptions C18_not_vacuous.
