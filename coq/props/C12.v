(* C12 - The reported push/pull status always describes the previous step. *)
From Coq Require Import NArith List Bool.
From Arimaa Require Import Types U64 Board Engine Cells Rules Monitors Refine Invariant TurnLemmas Traps Pending.
Open Scope N_scope.

(* the status after a step of the piece (o,k) on square i is the three-way rule of spec/Rules.v:
   enemy piece displaced and no pull completed -> push pending (i, k); friendly non-rabbit stepped and
   no push was pending -> possible pull (i, k); otherwise nothing *)
Theorem C12_next_status : forall s pp i d t o k, PlayInv s pp -> i < 64 -> dst_of i d = Some t ->
  cell (board s) i = Some (o, k) ->
  sstatus_of (next_push_pull_state s i d) = spec_next_status (cell (board s)) (side s) (sstatus_of (pstate pp)) i d.
Proof. exact next_status_spec. Qed.
Print Assumptions C12_next_status.

(* ... and that is the status of the next state when the step is not the fourth *)
Theorem C12_status_recorded : forall s pp i d, ph s = PlayPhase pp -> step_of pp < 3 -> move_no s < P64 ->
  exists pp', ph (take_action s (Move i d)) = PlayPhase pp' /\ pstate pp' = next_push_pull_state s i d.
Proof.
  intros s pp i d H1 H2 H3. destruct (step_mid s pp i d H1 H2 H3) as (_ & _ & pp' & A & _ & _ & _ & B). exists pp'. split; assumption.
Qed.
Print Assumptions C12_status_recorded.

(* nothing pending at the start of every turn *)
Theorem C12_turn_start : forall h l, pstate (play_initial h l) = PPNone.
Proof. reflexivity. Qed.
Print Assumptions C12_turn_start.

(* while a push is pending the rule-only list is exactly the steps of unfrozen, strictly stronger friendly pieces
   into the vacated square *)
Theorem C12_pending : forall s pp sq k i d, PlayInv s pp -> pstate pp = MustCompletePush sq k ->
  (In (Move i d) (valid_actions_no_rep s) <-> i < 64 /\ push_finish_ok (cell (board s)) (side s) sq k i d = true).
Proof.
  intros s pp sq k i d Inv E. destruct Inv as [H1 H2 H3 H4 H5].
  pose proof (T1_move s pp H1 H2 (status_inv_ok _ _ _ H5) i d) as T. rewrite E in T. exact T.
Qed.
Print Assumptions C12_pending.

(* ... and there is at least one: along every game from the initial state or from a legal start position (ReachL),
   a state with a push pending offers a completion.  Displacing the victim can neither capture nor freeze its pusher. *)
Theorem C12_pending_nonempty : forall s pp sq k, ReachL s -> ph s = PlayPhase pp -> pstate pp = MustCompletePush sq k ->
  valid_actions_no_rep s <> nil.
Proof. exact reach_pending_nonempty. Qed.
Print Assumptions C12_pending_nonempty.

Theorem C12_pusher_stays_unfrozen : forall c m v t kv, c v = Some (negb m, kv) -> c t = None -> legal_traps c ->
  forall p kp, p < 64 -> c p = Some (m, kp) -> stronger kp kv = true -> frozen c p = false ->
  frozen (after_captures (moved c v t)) p = false.
Proof. exact pusher_not_frozen. Qed.
Print Assumptions C12_pusher_stays_unfrozen.
