(* C13 (capture preview) and the trap clause of C10: after any step no unsupported piece stands on a trap,
   and from such a position a step removes at most one piece. *)
From Coq Require Import NArith ZArith List Bool Lia ZifyBool ZifyN.
From Arimaa Require Import Types U64 GenMasks GenEnums GenZobrist Board Zobrist Engine Notation Display Trace Cells Rules Monitors
  Fin XorFold Hash BitLemmas StepLemmas GenLemmas Refine Invariant.
Import ListNotations.
Open Scope N_scope.
Strategy opaque [bits_of].

Definition legal_traps (c : cellf) : Prop := forall j, j < 64 -> unsupported_on_trap c j = false.

(* ---- geometry of traps, by sweep ---- *)
Definition memb (x : N) (l : list N) : bool := existsb (N.eqb x) l.
(* (g2a) a neighbour of a trap is not a trap; (g2b) a square and its step target see at most one trap between them:
   every trap among target :: nbrs(source) is the same square *)
Definition trap_geom_ok (i : N) : bool :=
  (negb (is_trap i) || forallb (fun j => negb (is_trap j)) (nbrs i)) &&
  forallb (fun d => match dst_of i d with
                    | Some t => forallb (fun x => forallb (fun y => negb (is_trap x && is_trap y) || (x =? y)) (t :: nbrs i)) (t :: nbrs i)
                    | None => true end) all_dirs_list &&
  forallb (fun j => memb i (nbrs j)) (nbrs i).
Lemma trap_geom_sweep : forallb trap_geom_ok sq64 = true.
Proof. vm_compute. reflexivity. Qed.

Lemma memb_In x l : memb x l = true <-> In x l.
Proof.
  unfold memb. rewrite existsb_exists. split; [intros [y [H E]]; apply N.eqb_eq in E; now subst|intros H; exists x; split; [exact H|apply N.eqb_refl]].
Qed.

Lemma trap_nbr_not_trap i j : i < 64 -> is_trap i = true -> In j (nbrs i) -> is_trap j = false.
Proof.
  intros Hi Ht Hj. pose proof (forall_sq64 _ trap_geom_sweep i Hi) as G. unfold trap_geom_ok in G.
  apply andb_prop in G. destruct G as [G _]. apply andb_prop in G. destruct G as [G _]. rewrite Ht in G. cbn in G.
  rewrite forallb_forall in G. specialize (G j Hj). now apply negb_true_iff.
Qed.

Lemma one_trap_near i d t x y : i < 64 -> dst_of i d = Some t -> In x (t :: nbrs i) -> In y (t :: nbrs i) ->
  is_trap x = true -> is_trap y = true -> x = y.
Proof.
  intros Hi Hd Hx Hy Tx Ty. pose proof (forall_sq64 _ trap_geom_sweep i Hi) as G. unfold trap_geom_ok in G.
  apply andb_prop in G. destruct G as [G _]. apply andb_prop in G. destruct G as [_ G].
  pose proof (forall_dirs _ G d) as G'. cbv beta in G'. rewrite Hd in G'.
  rewrite forallb_forall in G'. specialize (G' x Hx). rewrite forallb_forall in G'. specialize (G' y Hy).
  rewrite Tx, Ty in G'. cbn in G'. now apply N.eqb_eq.
Qed.

Lemma nbrs_sym i j : i < 64 -> In j (nbrs i) -> In i (nbrs j).
Proof.
  intros Hi Hj. pose proof (forall_sq64 _ trap_geom_sweep i Hi) as G. unfold trap_geom_ok in G.
  apply andb_prop in G. destruct G as [_ G]. rewrite forallb_forall in G. specialize (G j Hj). now apply memb_In.
Qed.

(* ---- support after a move ---- *)
Lemma friend_moved c i t o j : j <> i -> j <> t -> friend_at (moved c i t) o j = friend_at c o j.
Proof. intros H1 H2. unfold friend_at, moved. destruct (N.eqb_spec j t); [contradiction|]. destruct (N.eqb_spec j i); [contradiction|reflexivity]. Qed.

(* a square away from the step keeps its friendly neighbours, unless the mover was one of them *)
Lemma support_kept c i t o j : c t = None -> ~ In i (nbrs j) -> has_friend_nbr c o j = true -> has_friend_nbr (moved c i t) o j = true.
Proof.
  intros Ht Hni H. unfold has_friend_nbr in *. apply existsb_exists in H. destruct H as [n [Hn F]].
  apply existsb_exists. exists n. split; [exact Hn|].
  assert (n <> i) by (intros ->; contradiction).
  assert (n <> t) by (intros ->; unfold friend_at in F; rewrite Ht in F; discriminate).
  now rewrite friend_moved.
Qed.

(* C13_one: from a position without trap violations a step leaves at most one unsupported trap piece *)
Theorem one_capture c i d t x y : i < 64 -> dst_of i d = Some t -> c t = None -> legal_traps c ->
  x < 64 -> y < 64 -> unsupported_on_trap (moved c i t) x = true -> unsupported_on_trap (moved c i t) y = true -> x = y.
Proof.
  intros Hi Hd Ht Leg Hx Hy Ux Uy.
  assert (forall z, z < 64 -> unsupported_on_trap (moved c i t) z = true -> is_trap z = true /\ In z (t :: nbrs i)) as Near.
  { intros z Hz U. unfold unsupported_on_trap in U. apply andb_prop in U. destruct U as [Tz U]. split; [exact Tz|].
    destruct (N.eq_dec z t) as [->|Hzt]; [now left|]. right.
    destruct (in_dec N.eq_dec i (nbrs z)) as [Hin|Hnin]; [apply (nbrs_sym z i Hz Hin)|]. exfalso.
    assert (z <> i) as Hzi.
    { intros ->. unfold moved in U. destruct (N.eqb_spec i t); [contradiction|]. rewrite N.eqb_refl in U. discriminate. }
    assert (moved c i t z = c z) as Mz by (unfold moved; destruct (N.eqb_spec z t); [contradiction|]; destruct (N.eqb_spec z i); [contradiction|reflexivity]).
    rewrite Mz in U. destruct (c z) as [[o k]|] eqn:Cz; [|discriminate].
    pose proof (Leg z Hz) as L. unfold unsupported_on_trap in L. rewrite Tz, Cz in L. cbn [andb] in L.
    apply negb_false_iff in L. apply (support_kept c i t o z Ht Hnin) in L. rewrite L in U. discriminate. }
  destruct (Near x Hx Ux) as [Tx Ix]. destruct (Near y Hy Uy) as [Ty Iy].
  now apply (one_trap_near i d t x y).
Qed.

(* after the removal no violation is left (removed pieces stood on traps, which support nobody on another trap) *)
Theorem captures_settle c : legal_traps (after_captures c).
Proof.
  intros j Hj. unfold unsupported_on_trap at 1. destruct (is_trap j) eqn:Tj; [|reflexivity]. cbn [andb].
  unfold after_captures at 1. destruct (unsupported_on_trap c j) eqn:U; [reflexivity|].
  destruct (c j) as [[o k]|] eqn:Cj; [|reflexivity].
  unfold unsupported_on_trap in U. rewrite Tj, Cj in U. cbn [andb] in U. apply negb_false_iff in U.
  apply negb_false_iff. unfold has_friend_nbr in *. apply existsb_exists in U. destruct U as [n [Hn F]].
  apply existsb_exists. exists n. split; [exact Hn|]. unfold friend_at, after_captures in *.
  assert (unsupported_on_trap c n = false) as Un.
  { unfold unsupported_on_trap. now rewrite (trap_nbr_not_trap j n Hj Tj Hn). }
  now rewrite Un.
Qed.

(* ---- the preview ---- *)
Lemma head_bits_of x : wf64 x -> x <> 0 -> exists j l, bits_of x = j :: l /\ j < 64 /\ N.testbit x j = true.
Proof.
  intros W Hne. destruct (bits_of x) as [|j l] eqn:E.
  - exfalso. apply Hne. pose proof (testbit_zero_iff x W) as Z.
    assert (existsb (N.testbit x) sq64 = false) as F.
    { apply not_true_iff_false. intros T. apply exists_sq64 in T. destruct T as [i [Hi Ti]].
      assert (In i (bits_of x)) by (apply In_bits_of; tauto). rewrite E in H. destruct H. }
    rewrite F in Z. cbn in Z. now apply N.eqb_eq.
  - exists j, l. split; [reflexivity|]. assert (In j (bits_of x)) as I by (rewrite E; now left). now apply In_bits_of in I.
Qed.

Lemma ctz128_eq x j l : bits_of x = j :: l -> ctz128 x = j.
Proof. intros E. unfold ctz128. now rewrite E. Qed.

Lemma unsupported_ext (c c' : cellf) j : (forall z, c z = c' z) -> unsupported_on_trap c j = unsupported_on_trap c' j.
Proof.
  intros H. unfold unsupported_on_trap, has_friend_nbr. rewrite H. destruct (c' j) as [[o k]|]; [|reflexivity].
  f_equal. f_equal. apply existsb_ext_in. intros n _. unfold friend_at. now rewrite H.
Qed.

Section Preview.
  Variable s : state.
  Variable pp : play.
  Variable i : N.
  Variable d : dir.
  Hypothesis Inv : PlayInv s pp.
  Hypothesis Off : In (Move i d) (valid_actions_no_rep s).
  Let b := board s.
  Let c := cell b.

  (* the preview names an unsupported trap piece of the board in which only the mover has moved *)
  Theorem preview_some t j k o : dst_of i d = Some t ->
    trapped_animal_for_action s (Move i d) = Some (j, k, o) ->
    j < 64 /\ unsupported_on_trap (moved c i t) j = true /\ moved c i t j = Some (o, k) /\
    cell (board (take_action s (Move i d))) j = None.
  Proof.
    intros Hd. pose proof (offered_move_pre s pp i d Inv Off) as [Hi (t' & o0 & k0 & Hd' & Hc & Ht)].
    rewrite Hd in Hd'. injection Hd' as <-. pose proof (inv_board s pp Inv) as W. fold b in W, Hc, Ht.
    pose proof (move_piece_WFb b i d t W Hi Hd Ht) as W1.
    cbn [trapped_animal_for_action]. fold b. set (b1 := pb_move_piece b i d) in *.
    destruct (trapped_piece_bits b1 =? 0) eqn:Z; cbn [negb]; [discriminate|]. apply N.eqb_neq in Z.
    destruct (head_bits_of _ (trapped_bits_wf64 b1) Z) as (j0 & l & E & Hj0 & Tj0).
    unfold sq_from_bit_board. rewrite (ctz128_eq _ j0 l E). rewrite N.mod_small by lia.
    rewrite trapped_bits_spec in Tj0 by assumption.
    rewrite piece_type_at_square_spec by assumption.
    assert (forall z, cell b1 z = moved c i t z) as Cm by (intros z; now apply move_piece_cell).
    pose proof Tj0 as U. unfold unsupported_on_trap in U. rewrite Cm in U.
    destruct (moved c i t j0) as [[o1 k1]|] eqn:M; [|now rewrite andb_false_r in U].
    rewrite Cm, M. cbn [option_map snd]. rewrite land_bit_zero, negb_involutive by exact Hj0.
    rewrite bits_for_piece_cell by assumption. unfold is_piece. rewrite Cm, M.
    assert (o1 = cell_eqb (Some (o1, k1)) (Some (true, k1))) as Eo.
    { cbn [cell_eqb]. destruct (piece_eqb_spec k1 k1); [|congruence]. rewrite andb_true_r. destruct o1; reflexivity. }
    rewrite <- Eo. intros [= <- <- <-]. split; [exact Hj0|].
    assert (unsupported_on_trap (moved c i t) j0 = true) as U' by (now rewrite <- (unsupported_ext (cell b1) (moved c i t) j0 Cm)).
    split; [exact U'|]. split; [exact M|].
    cbn [take_action]. rewrite (move_piece_unfold s pp i d (inv_phase s pp Inv)). cbv zeta. cbn [board].
    fold b. rewrite (take_move_cell b i d t j0 W Hi Hd Ht Hj0). unfold after_captures. fold c. now rewrite U'.
  Qed.

  (* the preview returns nothing exactly when the step removes nothing *)
  Theorem preview_none t : dst_of i d = Some t ->
    (trapped_animal_for_action s (Move i d) = None <->
     forall j, j < 64 -> cell (board (take_action s (Move i d))) j = moved c i t j).
  Proof.
    intros Hd. pose proof (offered_move_pre s pp i d Inv Off) as [Hi (t' & o0 & k0 & Hd' & Hc & Ht)].
    rewrite Hd in Hd'. injection Hd' as <-. pose proof (inv_board s pp Inv) as W. fold b in W, Hc, Ht.
    pose proof (move_piece_WFb b i d t W Hi Hd Ht) as W1.
    assert (forall z, cell (pb_move_piece b i d) z = moved c i t z) as Cm by (intros z; now apply move_piece_cell).
    assert (forall j, j < 64 -> unsupported_on_trap (cell (pb_move_piece b i d)) j = unsupported_on_trap (moved c i t) j) as Um
      by (intros j _; now apply unsupported_ext).
    assert (forall j, j < 64 -> cell (board (take_action s (Move i d))) j = after_captures (moved c i t) j) as After.
    { intros j Hj. cbn [take_action]. rewrite (move_piece_unfold s pp i d (inv_phase s pp Inv)). cbv zeta. cbn [board].
      fold b. now rewrite (take_move_cell b i d t j W Hi Hd Ht Hj). }
    cbn [trapped_animal_for_action]. fold b. split.
    - intros H j Hj. rewrite (After j Hj). unfold after_captures.
      destruct (trapped_piece_bits (pb_move_piece b i d) =? 0) eqn:Z; cbn [negb] in H; [|discriminate].
      apply N.eqb_eq in Z. pose proof (trapped_bits_spec (pb_move_piece b i d) j W1 Hj) as T. rewrite Z, N.bits_0, Um in T by exact Hj.
      now rewrite <- T.
    - intros H. destruct (trapped_piece_bits (pb_move_piece b i d) =? 0) eqn:Z; cbn [negb]; [reflexivity|]. exfalso.
      apply N.eqb_neq in Z. destruct (head_bits_of _ (trapped_bits_wf64 _) Z) as (j0 & l & E & Hj0 & Tj0).
      rewrite trapped_bits_spec, Um in Tj0 by assumption.
      specialize (H j0 Hj0). rewrite (After j0 Hj0) in H. unfold after_captures in H. rewrite Tj0 in H.
      unfold unsupported_on_trap in Tj0. destruct (moved c i t j0); [discriminate|now rewrite andb_false_r in Tj0].
  Qed.
End Preview.

(* ---- the trap clause of C10 as an invariant ---- *)
Theorem step_settles s pp i d : PlayInv s pp -> In (Move i d) (valid_actions_no_rep s) ->
  legal_traps (cell (board (take_action s (Move i d)))).
Proof.
  intros Inv Off. pose proof (offered_move_pre s pp i d Inv Off) as [Hi (t & o0 & k0 & Hd & Hc & Ht)].
  pose proof (inv_board s pp Inv) as W.
  intros j Hj. cbn [take_action]. rewrite (move_piece_unfold s pp i d (inv_phase s pp Inv)). cbv zeta. cbn [board].
  pose proof (captures_settle (moved (cell (board s)) i t) j Hj) as L.
  rewrite <- L. unfold unsupported_on_trap, has_friend_nbr.
  rewrite (take_move_cell (board s) i d t j W Hi Hd Ht Hj).
  destruct (after_captures (moved (cell (board s)) i t) j) as [[o k]|]; [|reflexivity].
  f_equal. f_equal. apply existsb_ext_in. intros n Hn. unfold friend_at.
  now rewrite (take_move_cell (board s) i d t n W Hi Hd Ht (nbrs_lt64 j n Hj Hn)).
Qed.
