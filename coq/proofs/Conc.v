(* C18: what is logic about thread-safety.
   (a) the auto-trait derivation of the Rust reference (structural Send/Sync) evaluated on the crate's type
       structure as regenerated from the source (GenTypes.v): every public type is Send + Sync, there is no
       interior mutability, no unsafe impl, no static mut, and no public method takes &mut self;
   (b) readers of an immutable shared store: under every schedule each thread obtains exactly the results
       of running alone.
   The meaning of Send/Sync, Arc's atomics and the memory model are rustc/std's (trusted; the compile oracle
   harness/src/bin/sendsync.rs and the 16-thread differential run are the tie). *)
From Coq Require Import NArith Arith PeanoNat List Bool String Lia.
From Arimaa Require Import Types GenTypes.
Import ListNotations.
Open Scope string_scope.

Definition lookup (name : string) : option (list string * list rty) :=
  match find (fun e => String.eqb (fst (fst e)) name) CRATE_TYPES with
  | Some (_, ps, fs) => Some (ps, fs)
  | None => None
  end.

Definition interior_mut (h : string) : bool :=
  existsb (String.eqb h) ["Cell"; "RefCell"; "UnsafeCell"; "OnceCell"; "Mutex"; "RwLock"; "AtomicUsize"; "AtomicU64"; "AtomicBool"; "AtomicPtr"; "LazyCell"].
Definition not_thread_safe (h : string) : bool :=
  existsb (String.eqb h) ["Rc"; "Cell"; "RefCell"; "UnsafeCell"; "OnceCell"; "LazyCell"; "NonNull"; "Weak_rc"].
Definition transparent_container (h : string) : bool :=
  existsb (String.eqb h) ["Arc"; "Option"; "Vec"; "Box"; "Result"].

(* structural derivation with an assumption set for the recursive types (coinductive reading): a type already
   being examined is assumed to hold *)
Fixpoint derive (fuel : nat) (bad : string -> bool) (visiting : list string) (t : rty) : bool :=
  match fuel with
  | O => false
  | S f =>
    match t with
    | TPrim _ => true
    | TParam _ => true                       (* instantiated with crate types only, checked at the use site *)
    | TRef u => derive f bad visiting u
    | TRefMut u => derive f bad visiting u
    | TRawPtr => false
    | TApp h args =>
      if bad h then false
      else if transparent_container h then forallb (derive f bad visiting) args
      else if existsb (String.eqb h) visiting then forallb (derive f bad visiting) args
      else match lookup h with
           | Some (_, fields) => forallb (derive f bad (h :: visiting)) fields && forallb (derive f bad visiting) args
           | None => false                    (* unknown foreign type: not derivable *)
           end
    end
  end.

Definition public_types : list string :=
  ["GameState"; "PieceBoard"; "PieceBoardState"; "Phase"; "PlayPhase"; "PushPullState"; "Action"; "Square"; "Piece"; "Direction"; "Zobrist"; "Terminal"].

Definition send_sync (name : string) : bool := derive 40 not_thread_safe [] (TApp name []).
Definition frozen (name : string) : bool := derive 40 interior_mut [] (TApp name []).

Lemma auto_traits : forallb send_sync public_types = true /\ send_sync "Zobrist" = true /\
  derive 40 not_thread_safe [] (TApp "List" [TApp "Zobrist" []]) = true.
Proof. repeat split; vm_compute; reflexivity. Qed.

Lemma no_interior_mutability : forallb frozen public_types = true /\ derive 40 interior_mut [] (TApp "List" [TApp "Zobrist" []]) = true.
Proof. split; vm_compute; reflexivity. Qed.

Lemma no_escape_hatches : UNSAFE_AUTO_IMPLS = [] /\ STATIC_MUTS = [].
Proof. split; reflexivity. Qed.

Definition recv_is_mut (r : recv) : bool := match r with RecvMut => true | _ => false end.
Lemma no_mut_receivers : existsb (fun e => recv_is_mut (snd e)) PUB_FNS = false.
Proof. vm_compute. reflexivity. Qed.

(* the derivation is not vacuous: a history list behind Rc, or a RefCell field, is rejected *)
Example rc_rejected : derive 40 not_thread_safe [] (TApp "Option" [TApp "Rc" [TPrim "u64"]]) = false.
Proof. reflexivity. Qed.
Example refcell_rejected : derive 40 interior_mut [] (TApp "Vec" [TApp "RefCell" [TPrim "u64"]]) = false.
Proof. reflexivity. Qed.

(* ---- (b) readers of an immutable store ---- *)
Close Scope string_scope.
Open Scope list_scope.
Lemma skipn_S_cons {A} (l : list A) k q qs : skipn k l = q :: qs -> skipn (S k) l = qs.
Proof.
  revert l. induction k as [|k IH]; intros l H; [cbn in H; subst; reflexivity|].
  destruct l as [|a l]; [discriminate|]. cbn [skipn] in H. apply IH in H. exact H.
Qed.

Section Readers.
  Variables St Q R : Type.
  Variable run : St -> Q -> R.            (* every API call is a function of the (never modified) state *)

  (* thread = queries still to run (next first) and results so far (oldest first) *)
  Definition thread := (list Q * list R)%type.

  Definition step_thread (st : St) (t : thread) : thread :=
    match fst t with [] => t | q :: qs => (qs, snd t ++ [run st q]) end.

  Fixpoint update (i : nat) (ts : list thread) (f : thread -> thread) : list thread :=
    match ts, i with
    | [], _ => []
    | t :: r, O => f t :: r
    | t :: r, S j => t :: update j r f
    end.

  (* a schedule is any list of thread indices; the shared state st is the same at every step *)
  Definition exec (st : St) (sched : list nat) (ts : list thread) : list thread :=
    fold_left (fun ts i => update i ts (step_thread st)) sched ts.

  Definition alone_inv (st : St) (t0 t : thread) : Prop :=
    exists k, fst t = skipn k (fst t0) /\ snd t = snd t0 ++ map (run st) (firstn k (fst t0)) /\ k <= List.length (fst t0).

  Lemma step_alone st t0 t : alone_inv st t0 t -> alone_inv st t0 (step_thread st t).
  Proof.
    intros [k (H1 & H2 & H3)]. unfold step_thread. destruct (fst t) as [|q qs] eqn:E; [exists k; rewrite E; auto|].
    exists (S k). cbn [fst snd].
    assert (k < List.length (fst t0)) as Hk.
    { destruct (Nat.eq_dec k (List.length (fst t0))) as [->|]; [rewrite skipn_all in H1; discriminate|]. lia. }
    assert (skipn k (fst t0) = q :: qs) as Hs by now rewrite <- H1.
    split; [|split; [|exact Hk]].
    - symmetry. now apply (skipn_S_cons _ k q).
    - rewrite H2, <- app_assoc. f_equal.
      assert (firstn (S k) (fst t0) = firstn k (fst t0) ++ [q]) as F.
      { rewrite <- (firstn_skipn k (fst t0)) at 1. rewrite Hs.
        rewrite firstn_app, firstn_firstn. rewrite firstn_length_le by lia.
        replace (Nat.min (S k) k) with k by lia. replace (S k - k) with 1 by lia. reflexivity. }
      rewrite F, map_app. reflexivity.
  Qed.

  Lemma update_Forall2 st i ts0 ts :
    Forall2 (alone_inv st) ts0 ts -> Forall2 (alone_inv st) ts0 (update i ts (step_thread st)).
  Proof.
    intros H. revert i. induction H as [|t0 t l0 l Ht Hl IH]; intros i; [destruct i; constructor|].
    destruct i; cbn [update]; constructor; auto. now apply step_alone.
  Qed.

  (* every interleaving: each thread's results are a prefix of the results it gets when running alone, and they
     are complete as soon as it has run all its queries *)
  Theorem interleaving st sched ts0 :
    Forall2 (alone_inv st) ts0 (exec st sched ts0).
  Proof.
    unfold exec. assert (Forall2 (alone_inv st) ts0 ts0) as H0.
    { induction ts0 as [|t l IH]; constructor; [|exact IH]. exists 0. cbn. rewrite app_nil_r. repeat split. lia. }
    revert H0. generalize ts0 at 2 4 as ts. induction sched as [|i sched IH]; intros ts H; cbn [fold_left]; [exact H|].
    apply IH. now apply update_Forall2.
  Qed.

  Corollary finished_thread_has_sequential_results st sched ts0 n t0 t :
    nth_error ts0 n = Some t0 -> nth_error (exec st sched ts0) n = Some t -> fst t = [] ->
    snd t = snd t0 ++ map (run st) (fst t0).
  Proof.
    intros H0 H1 Hd. pose proof (interleaving st sched ts0) as F.
    assert (alone_inv st t0 t) as [k (K1 & K2 & K3)].
    { revert n H0 H1. induction F as [|a b l0 l Hab Hl IH]; intros n H0 H1; [destruct n; discriminate|].
      destruct n; cbn in H0, H1; [injection H0 as <-; injection H1 as <-; exact Hab|now apply (IH n)]. }
    rewrite Hd in K1. assert (k = List.length (fst t0)) as ->.
    { destruct (Nat.eq_dec k (List.length (fst t0))); [assumption|]. exfalso.
      assert (List.length (skipn k (fst t0)) = List.length (fst t0) - k) as L by apply skipn_length. rewrite <- K1 in L. cbn in L. lia. }
    now rewrite firstn_all in K2.
  Qed.
End Readers.
