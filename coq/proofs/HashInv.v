(* C08: the incrementally maintained hash equals the from-scratch hash, inductively. *)
From Coq Require Import NArith ZArith List Bool Lia ZifyBool ZifyN.
From Arimaa Require Import Types U64 GenMasks GenEnums GenZobrist Board Zobrist Engine Notation Display Trace Cells Rules Monitors
  Fin XorFold Hash BitLemmas StepLemmas GenLemmas Refine Invariant TurnLemmas.
Import ListNotations.
Open Scope N_scope.
Strategy opaque [bits_of].

(* decide an equation between xor-expressions bitwise *)
Ltac xor_solve :=
  apply N.bits_inj; let n := fresh "n" in intros n; rewrite ?N.lxor_spec, ?N.bits_0;
  repeat match goal with |- context [N.testbit ?x n] => let b := fresh "b" in generalize (N.testbit x n); intros b end;
  repeat match goal with b : bool |- _ => destruct b end; reflexivity.

Lemma testbit_lxor_sum (v : N) (a b : bool) :
  (if xorb a b then v else 0) = N.lxor (if a then v else 0) (if b then v else 0).
Proof. destruct a, b; cbn; now rewrite ?N.lxor_0_l, ?N.lxor_0_r, ?N.lxor_nilpotent. Qed.

Lemma piece_board_value_spec b b' : WFb b -> WFb b' ->
  piece_board_value b b' = N.lxor (board_part b) (board_part b').
Proof.
  intros W W'. unfold piece_board_value.
  rewrite (side_fold_gen piece_value (fun k sd => bits_of (N.lxor (bits_for_piece b k sd) (bits_for_piece b' k sd)))).
  rewrite N.lxor_0_l.
  rewrite <- (board_fold_spec b W), <- (board_fold_spec b' W').
  rewrite <- xsum_xor. apply xsum_ext. intros sd _.
  rewrite <- xsum_xor. apply xsum_ext. intros k _.
  rewrite !xsum_bits_of, <- xsum_xor. apply xsum_ext. intros i _.
  rewrite N.lxor_spec. apply testbit_lxor_sum.
Qed.

Lemma from_scratch_eq b sd stp : WFb b -> z_from_piece_board b sd stp = N.lxor (header_part sd stp) (board_part b).
Proof. apply z_from_piece_board_spec. Qed.

Lemma header_side sd stp : header_part (negb sd) stp = N.lxor (header_part sd stp) PLAYER_TO_MOVE.
Proof. unfold header_part. destruct sd; cbn [negb]; generalize INITIAL PLAYER_TO_MOVE (step_val stp); intros; xor_solve. Qed.

Lemma header_step sd a b : header_part sd b = N.lxor (header_part sd a) (N.lxor (step_val a) (step_val b)).
Proof. unfold header_part. generalize (if sd then INITIAL else N.lxor INITIAL PLAYER_TO_MOVE) (step_val a) (step_val b). intros; xor_solve. Qed.

(* Zobrist::move_piece keeps "hash = from-scratch hash" *)
Lemma z_move_piece_spec b nb sd nsd cs ns : WFb b -> WFb nb ->
  z_move_piece (z_from_piece_board b sd cs) sd b cs nb ns nsd = z_from_piece_board nb nsd ns.
Proof.
  intros W W'. unfold z_move_piece. rewrite piece_board_value_spec, !from_scratch_eq by assumption.
  rewrite (header_step nsd cs ns).
  destruct (Bool.eqb sd nsd) eqn:E.
  - apply eqb_prop in E. subst nsd. generalize (header_part sd cs) (board_part b) (board_part nb) (step_val cs) (step_val ns). intros; xor_solve.
  - assert (nsd = negb sd) as -> by (destruct sd, nsd; try discriminate; reflexivity).
    rewrite header_side. generalize (header_part sd cs) PLAYER_TO_MOVE (board_part b) (board_part nb) (step_val cs) (step_val ns). intros; xor_solve.
Qed.

Lemma z_pass_spec b sd cs : WFb b -> z_pass (z_from_piece_board b sd cs) cs = z_from_piece_board b (negb sd) 0.
Proof.
  intros W. unfold z_pass. rewrite !from_scratch_eq by assumption. rewrite header_side, (header_step sd cs 0).
  generalize (header_part sd cs) PLAYER_TO_MOVE (board_part b) (step_val cs) (step_val 0). intros; xor_solve.
Qed.

Lemma z_exclude_step_spec b sd cs : WFb b -> z_exclude_step (z_from_piece_board b sd cs) cs = z_from_piece_board b sd 0.
Proof.
  intros W. unfold z_exclude_step. rewrite !from_scratch_eq by assumption. rewrite (header_step sd cs 0).
  generalize (header_part sd cs) (board_part b) (step_val cs) (step_val 0). intros; xor_solve.
Qed.

(* equal boards (as cells) have equal hashes, whatever bit patterns produced them *)
Lemma board_part_ext b b' : (forall i, i < 64 -> cell b i = cell b' i) -> board_part b = board_part b'.
Proof. intros H. unfold board_part. apply xsum_ext. intros i Hi. apply In_sq64 in Hi. now rewrite H. Qed.

(* ---- the invariant with hashes ---- *)
Record HashInv (s : state) (pp : play) : Prop := {
  hi_play : PlayInv s pp;
  hi_hash : hash s = z_from_piece_board (board s) (side s) (step_of pp);
}.

Theorem hash_preserved s pp a : HashInv s pp -> In a (valid_actions_no_rep s) -> exists pp', HashInv (take_action s a) pp'.
Proof.
  intros [Inv Hh] H. destruct (action_preserves s pp a Inv H) as [pp' Inv'].
  exists pp'. split; [exact Inv'|].
  pose proof Inv as [Hph W Wp Hs Hst]. pose proof Inv' as [Hph' W' _ _ _].
  destruct a as [k|i d|].
  - exfalso. now apply (T1_no_place s pp Hph W (status_inv_ok _ _ _ Hst) k).
  - cbn [take_action] in *. rewrite (move_piece_unfold s pp i d Hph) in *. cbv zeta in *. cbn [hash board side ph] in *.
    rewrite Hh. rewrite z_move_piece_spec by assumption.
    injection Hph' as <-. destruct (3 <=? step_of pp) eqn:L; [reflexivity|].
    unfold step_of. cbn [prev]. rewrite app_length. cbn [length]. f_equal. lia.
  - cbn [take_action] in *. unfold pass, current_step, unwrap_play_phase in *. rewrite Hph in *. cbn [hash board side ph] in *.
    injection Hph' as <-. rewrite Hh. now apply z_pass_spec.
Qed.

Theorem transposition_hash_from_scratch s pp : HashInv s pp ->
  transposition_hash s = N.lxor (z_from_piece_board (board s) (side s) (step_of pp))
                                (match pstate pp with
                                 | MustCompletePush sq k => push_piece_value sq k
                                 | PossiblePull sq k => pull_piece_value sq k
                                 | PPNone => 0 end).
Proof.
  intros [[Hph _ _ _ _] Hh]. unfold transposition_hash. rewrite Hph, Hh. reflexivity.
Qed.

(* two states with the same board, side and step compare equal (==) and hash equal *)
Theorem same_position_equal s pp s' pp' : HashInv s pp -> HashInv s' pp' ->
  (forall i, i < 64 -> cell (board s) i = cell (board s') i) -> side s = side s' -> step_of pp = step_of pp' ->
  state_eqb s s' = true /\ hash s = hash s'.
Proof.
  intros [[_ W _ _ _] Hh] [[_ W' _ _ _] Hh'] Hc Hs Hst. unfold state_eqb.
  assert (hash s = hash s') as E.
  { rewrite Hh, Hh', !from_scratch_eq by assumption. rewrite Hs, Hst. f_equal. now apply board_part_ext. }
  split; [now apply N.eqb_eq|exact E].
Qed.
