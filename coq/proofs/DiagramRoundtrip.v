(* C15: parse (print s) = Ok s' with the same board, side and move number, for every state with a well-formed
   board and a move number below 2^64. *)
From Coq Require Import NArith ZArith List Bool Lia ZifyBool ZifyN String.
From Arimaa Require Import Types U64 GenMasks GenEnums GenUnicode GenZobrist Board Zobrist Engine Notation Display Trace Cells Rules Monitors
  Fin BitLemmas StepLemmas GenLemmas DiagramLemmas.
Import ListNotations.
Open Scope N_scope.

Definition bar : N := 124.
Definition no_bar (t : text) : Prop := forall c, In c t -> c <> bar.

(* ---- splitting at the separator ---- *)
Lemma split_on_cons_nonsep c t : c <> bar -> split_on bar (c :: t) =
  match split_on bar t with seg :: segs => (c :: seg) :: segs | [] => [[c]] end.
Proof. intros H. cbn [split_on]. destruct (N.eqb_spec c bar); [contradiction|reflexivity]. Qed.

Lemma split_on_nonempty t : split_on bar t <> [].
Proof.
  induction t as [|c t IH]; [discriminate|]. cbn [split_on]. destruct (c =? bar); [discriminate|].
  destruct (split_on bar t); [contradiction|discriminate].
Qed.

Lemma split_on_nobar t : no_bar t -> split_on bar t = [t].
Proof.
  induction t as [|c t IH]; intros H; [reflexivity|].
  rewrite split_on_cons_nonsep by (apply H; now left). rewrite IH by (intros x Hx; apply H; now right). reflexivity.
Qed.

Lemma split_on_app t rest : no_bar t -> split_on bar (t ++ bar :: rest) = t :: split_on bar rest.
Proof.
  induction t as [|c t IH]; intros H.
  - cbn [app split_on]. now rewrite N.eqb_refl.
  - cbn [app]. rewrite split_on_cons_nonsep by (apply H; now left). rewrite IH by (intros x Hx; apply H; now right). reflexivity.
Qed.

Lemma no_bar_app a b : no_bar a -> no_bar b -> no_bar (a ++ b).
Proof. intros Ha Hb c Hc. apply in_app_or in Hc. destruct Hc; auto. Qed.

(* ---- the rows ---- *)
Section Rows.
  Variable L : N -> N -> N.                 (* the letter printed for (row, column) *)
  Hypothesis L_nobar : forall r col, L r col <> bar.
  Variable pre : N -> text.                 (* the rank label *)
  Hypothesis pre_nobar : forall r, no_bar (pre r).

  Definition body (r : N) : text := flat_map (fun col => [32; L r col]) idx8 ++ [32].
  Definition row (r : N) : text := pre r ++ bar :: body r ++ bar :: [10].

  Lemma body_nobar r : no_bar (body r).
  Proof.
    unfold body, idx8. cbn [flat_map app]. intros c Hc. cbn [In] in Hc.
    repeat (destruct Hc as [<-|Hc]; [first [apply L_nobar|discriminate]|]). contradiction.
  Qed.

  (* segments of  pfx ++ rows ++ tail : alternately a label part and a row body *)
  Fixpoint segs (pfx : text) (l : list N) (tail : text) : list text :=
    match l with
    | [] => [pfx ++ tail]
    | r :: l' => (pfx ++ pre r) :: body r :: segs [10] l' tail
    end.

  Lemma split_rows l : forall pfx tail, no_bar pfx -> no_bar tail ->
    split_on bar (pfx ++ flat_map row l ++ tail) = segs pfx l tail.
  Proof.
    induction l as [|r l IH]; intros pfx tail Hp Ht.
    - cbn [flat_map app segs]. apply split_on_nobar. now apply no_bar_app.
    - cbn [flat_map segs]. unfold row at 1.
      rewrite <- !app_assoc. cbn [app]. rewrite <- !app_assoc. cbn [app].
      rewrite (app_assoc pfx (pre r)).
      rewrite split_on_app by (apply no_bar_app; [exact Hp|apply pre_nobar]).
      rewrite split_on_app by apply body_nobar. f_equal. f_equal.
      change (10 :: flat_map row l ++ tail) with ([10] ++ flat_map row l ++ tail).
      apply IH; [intros c [<-|[]]; discriminate|exact Ht].
  Qed.

  Lemma odd_segs l : forall pfx tail, odd_elems (segs pfx l tail) = map body l.
  Proof. induction l as [|r l IH]; intros pfx tail; [reflexivity|]. cbn [segs odd_elems map]. now rewrite IH. Qed.

  Lemma hd_segs l pfx tail : match segs pfx l tail with s :: _ => s | [] => [] end =
    match l with [] => pfx ++ tail | r :: _ => pfx ++ pre r end.
  Proof. destruct l; reflexivity. Qed.

  Lemma odd_body r : odd_elems (body r) = map (L r) idx8.
  Proof. reflexivity. Qed.
End Rows.

(* ---- the header ---- *)
Lemma take_while_app (p : N -> bool) a x r : (forall c, In c a -> p c = true) -> p x = false -> take_while p (a ++ x :: r) = a.
Proof.
  induction a as [|c a IH]; intros Ha Hx; cbn [app take_while]; [now rewrite Hx|].
  rewrite (Ha c (or_introl eq_refl)). f_equal. apply IH; [intros y Hy; apply Ha; now right|exact Hx].
Qed.
Lemma drop_while_app (p : N -> bool) a x r : (forall c, In c a -> p c = true) -> p x = false -> drop_while p (a ++ x :: r) = x :: r.
Proof.
  induction a as [|c a IH]; intros Ha Hx; cbn [app drop_while]; [now rewrite Hx|].
  rewrite (Ha c (or_introl eq_refl)). apply IH; [intros y Hy; apply Ha; now right|exact Hx].
Qed.

Definition ascii_digit_facts : bool :=
  forallb (fun c => is_digit c && negb (is_space c) && negb (c =? bar)) [48; 49; 50; 51; 52; 53; 54; 55; 56; 57] &&
  negb (is_digit 103) && negb (is_digit 115).
Lemma ascii_digit_sweep : ascii_digit_facts = true.
Proof. vm_compute. reflexivity. Qed.

Lemma In_digits c : is_ascii_digit c = true -> In c [48; 49; 50; 51; 52; 53; 54; 55; 56; 57].
Proof. unfold is_ascii_digit. intros H. cbn [In]. lia. Qed.

Lemma digit_props c : is_ascii_digit c = true -> is_digit c = true /\ is_space c = false /\ c <> bar.
Proof.
  intros H. apply In_digits in H. pose proof ascii_digit_sweep as S. unfold ascii_digit_facts in S.
  apply andb_prop in S. destruct S as [S _]. apply andb_prop in S. destruct S as [S _].
  rewrite forallb_forall in S. specialize (S c H). apply andb_prop in S. destruct S as [S S3]. apply andb_prop in S. destruct S as [S1 S2].
  split; [exact S1|]. split; [now apply negb_true_iff|]. apply negb_true_iff in S3. now apply N.eqb_neq.
Qed.

Lemma print_dec_digits n c : In c (print_dec n) -> is_ascii_digit c = true.
Proof. intros H. pose proof (digits_ascii (N.to_uint n)) as D. rewrite forallb_forall in D. now apply D. Qed.

Lemma print_dec_nobar n : no_bar (print_dec n).
Proof. intros c Hc. apply print_dec_digits in Hc. apply digit_props in Hc. tauto. Qed.

Lemma header_of mv (gold : bool) rest : mv < P64 ->
  header_match (print_dec mv ++ (if gold then 103 else 115) :: rest) = Some (print_dec mv, if gold then 103 else 115).
Proof.
  intros Hm. unfold header_match.
  assert (forall c, In c (print_dec mv) -> is_digit c = true) as Dg by (intros c Hc; apply digit_props; now apply (print_dec_digits mv)).
  assert (is_digit (if gold then 103 else 115) = false) as Sd.
  { pose proof ascii_digit_sweep as S. unfold ascii_digit_facts in S. apply andb_prop in S. destruct S as [S S2]. apply andb_prop in S. destruct S as [_ S1].
    destruct gold; now apply negb_true_iff. }
  assert (drop_while is_space (print_dec mv ++ (if gold then 103 else 115) :: rest) = print_dec mv ++ (if gold then 103 else 115) :: rest) as Dr.
  { destruct (print_dec mv) as [|c0 r0] eqn:E; [exfalso; now apply (print_dec_nonempty mv)|].
    cbn [app drop_while]. assert (is_space c0 = false) as Sp by (apply digit_props; apply (print_dec_digits mv); rewrite E; now left). now rewrite Sp. }
  rewrite Dr, (take_while_app is_digit _ _ _ Dg Sd), (drop_while_app is_digit _ _ _ Dg Sd).
  destruct (print_dec mv) eqn:E; [exfalso; now apply (print_dec_nonempty mv)|]. destruct gold; reflexivity.
Qed.

(* ---- scanning the 64 letters ---- *)
Definition cells64 (L : N -> N -> N) : list (N * N * N) := map (fun n => (n / 8, n mod 8, L (n / 8) (n mod 8))) sq64.

Lemma scan_generic {A} (f : N -> N -> N -> A -> A) (L : N -> N -> N) (a0 : A) :
  fold_left (fun a rl => fold_left (fun a cc => f (fst rl) (fst cc) (snd cc) a) (enumerate_from 0 (odd_elems (snd rl))) a)
            (enumerate_from 0 (map (body L) idx8)) a0
  = fold_left (fun a x => f (fst (fst x)) (snd (fst x)) (snd x) a) (cells64 L) a0.
Proof. reflexivity. Qed.

(* the accumulator after the first n squares: every word cut to its low n bits *)
Definition acc_upto (b : pbs) (n : N) : acc7 :=
  mkacc (N.land (p1 b) (N.ones n)) (N.land (el b) (N.ones n)) (N.land (ca b) (N.ones n)) (N.land (ho b) (N.ones n))
        (N.land (dg b) (N.ones n)) (N.land (ct b) (N.ones n)) (N.land (rb b) (N.ones n)) false false.

Lemma acc_upto_0 b : acc_upto b 0 = mkacc 0 0 0 0 0 0 0 false false.
Proof. unfold acc_upto. change (N.ones 0) with 0. now rewrite !N.land_0_r. Qed.

Lemma land_ones_step w n : N.land w (N.ones (n + 1)) = if N.testbit w n then N.lor (N.land w (N.ones n)) (2 ^ n) else N.land w (N.ones n).
Proof.
  apply N.bits_inj. intros i. destruct (N.testbit w n) eqn:E; rewrite ?N.lor_spec, !N.land_spec, ?N.pow2_bits_eqb.
  - destruct (N.lt_trichotomy i n) as [H|[->|H]].
    + rewrite !N.ones_spec_low by lia. destruct (N.eqb_spec n i); [lia|]. now rewrite orb_false_r.
    + rewrite N.ones_spec_low, N.ones_spec_high, N.eqb_refl, E by lia. reflexivity.
    + rewrite !N.ones_spec_high by lia. destruct (N.eqb_spec n i); [lia|]. now rewrite !andb_false_r.
  - destruct (N.lt_trichotomy i n) as [H|[->|H]].
    + now rewrite !N.ones_spec_low by lia.
    + rewrite E. reflexivity.
    + now rewrite !N.ones_spec_high by lia.
Qed.

Lemma acc_eq a a' : a_p1 a = a_p1 a' -> a_e a = a_e a' -> a_m a = a_m a' -> a_h a = a_h a' -> a_d a = a_d a' -> a_c a = a_c a' ->
  a_r a = a_r a' -> a_panic a = a_panic a' -> a_oob a = a_oob a' -> a = a'.
Proof. destruct a, a'; cbn; intros; subst; reflexivity. Qed.

Lemma scan_step b n : WFb b -> n < 64 ->
  scan_cell (n / 8) (n mod 8) (square_letter b n) (acc_upto b n) = acc_upto b (n + 1).
Proof.
  intros W Hn. destruct (diagram_letter_decodes b n W Hn) as [D _]. unfold letter_decodes in D. unfold scan_cell.
  assert ((n / 8 * BOARD_WIDTH + n mod 8) mod 256 = n) as Idx.
  { change BOARD_WIDTH with 8. rewrite N.mod_small; lia. }
  pose proof (kind_bit_cell b n) as K. unfold kind_bit in K.
  pose proof (K Elephant W) as KE. pose proof (K Camel W) as KM. pose proof (K Horse W) as KH. pose proof (K Dog W) as KD.
  pose proof (K Cat W) as KC. pose proof (K Rabbit W) as KR. cbn [bits_by_piece_type] in *. clear K.
  assert (N.testbit (p1 b) n = match cell b n with Some (o, _) => o | None => false end) as KP.
  { destruct W as [_ W]. specialize (W n). unfold cell. unfold wf_at in W.
    destruct (N.testbit (allp b) n), (N.testbit (p1 b) n); try reflexivity. cbn [implb] in W. now rewrite andb_false_r in W. }
  destruct (cell b n) as [[o k]|] eqn:Cn.
  - destruct (assoc (square_letter b n) diagram_piece_of_letter_table) as [k'|]; [|discriminate].
    apply andb_prop in D. destruct D as [D1 D2]. destruct (piece_eqb_spec k k'); [subst k'|discriminate]. apply eqb_prop in D2. subst o.
    rewrite Idx. apply acc_eq; cbn [a_p1 a_e a_m a_h a_d a_c a_r a_panic a_oob add_piece acc_upto];
      rewrite ?land_ones_step, ?KE, ?KM, ?KH, ?KD, ?KC, ?KR, ?KP, ?sq_bit_eq by exact Hn; try (destruct k; reflexivity).
    all: try (destruct (is_ascii_upper (square_letter b n)); reflexivity).
    all: try (destruct (N.leb_spec 64 n); [lia|reflexivity]).
    all: change BOARD_HEIGHT with 8; change BOARD_WIDTH with 8; destruct (N.leb_spec 8 (n / 8)), (N.leb_spec 8 (n mod 8)); try lia; reflexivity.
  - destruct (assoc (square_letter b n) diagram_piece_of_letter_table); [discriminate|].
    apply acc_eq; cbn [a_p1 a_e a_m a_h a_d a_c a_r a_panic a_oob acc_upto]; rewrite ?land_ones_step, ?KE, ?KM, ?KH, ?KD, ?KC, ?KR, ?KP; reflexivity.
Qed.

Lemma firstn_S_nth {A} (l : list A) n d : (n < List.length l)%nat -> firstn (S n) l = firstn n l ++ [nth n l d].
Proof.
  revert n. induction l as [|x l IH]; intros n H; [cbn in H; lia|]. destruct n; [reflexivity|].
  cbn [firstn nth app]. f_equal. apply IH. cbn in H. lia.
Qed.

Lemma nth_sq64 n : (n < 64)%nat -> nth n sq64 0 = N.of_nat n.
Proof. intros H. rewrite sq64_seq. change 0 with (N.of_nat 0). rewrite (map_nth N.of_nat (seq 0 64) 0%nat n). now rewrite seq_nth. Qed.

Lemma scan_prefix b n : WFb b -> (n <= 64)%nat ->
  fold_left (fun a x => scan_cell (fst (fst x)) (snd (fst x)) (snd x) a)
            (map (fun i => (i / 8, i mod 8, square_letter b i)) (firstn n sq64)) (acc_upto b 0) = acc_upto b (N.of_nat n).
Proof.
  intros W. induction n as [|n IH]; intros H; [reflexivity|].
  assert (List.length sq64 = 64%nat) as Len by reflexivity.
  rewrite (firstn_S_nth sq64 n 0) by lia. rewrite map_app, fold_left_app, IH by lia. cbn [map fold_left fst snd].
  rewrite nth_sq64 by lia. rewrite scan_step by (try exact W; lia). f_equal. lia.
Qed.

Lemma land_ones64 w : wf64 w -> N.land w (N.ones 64) = w.
Proof.
  intros H. apply N.bits_inj. intros i. rewrite N.land_spec. destruct (N.lt_ge_cases i 64).
  - rewrite N.ones_spec_low by lia. apply andb_true_r.
  - rewrite (wf64_high w i H) by lia. reflexivity.
Qed.

Lemma or_kinds' b : WFb b -> N.lor (N.lor (N.lor (N.lor (N.lor (el b) (ca b)) (ho b)) (dg b)) (ct b)) (rb b) = allp b.
Proof.
  intros [_ W]. apply N.bits_inj. intros i. rewrite !N.lor_spec. specialize (W i). unfold wf_at in W.
  apply andb_prop in W. destruct W as [W _]. apply andb_prop in W. destruct W as [W _]. apply eqb_prop in W. now rewrite W.
Qed.

(* ---- the round trip ---- *)
Definition letter_of (b : pbs) (r col : N) : N := square_letter b ((r * BOARD_WIDTH + col) mod 256).

Lemma print_row_eq b r : print_row b r = row (letter_of b) (fun r => print_dec (BOARD_HEIGHT - r)) r.
Proof.
  unfold print_row, row, body, letter_of. change (str " |") with [32; bar]. change [124] with [bar].
  rewrite <- !app_assoc. cbn [app]. reflexivity.
Qed.

Lemma cells64_letters b : cells64 (letter_of b) = map (fun i => (i / 8, i mod 8, square_letter b i)) sq64.
Proof.
  unfold cells64. apply map_ext_in. intros n Hn. apply In_sq64 in Hn. unfold letter_of. change BOARD_WIDTH with 8.
  f_equal. f_equal. rewrite N.mod_small; lia.
Qed.

Definition border_footer_nobar : bool :=
  forallb (fun c => negb (c =? bar)) (border ++ footer) && forallb (fun c => negb (c =? bar)) border.
Lemma border_footer_sweep : border_footer_nobar = true.
Proof. vm_compute. reflexivity. Qed.

Lemma forallb_nobar t : forallb (fun c => negb (c =? bar)) t = true -> no_bar t.
Proof. intros H c Hc. rewrite forallb_forall in H. specialize (H c Hc). apply negb_true_iff in H. now apply N.eqb_neq. Qed.

Theorem parse_print s : WFb (board s) -> move_no s < P64 ->
  parse_state_fixed (print_state s) = Ok (mkstate (side s) (move_no s)
     (PlayPhase (play_initial (z_from_piece_board (board s) (side s) 0) [z_from_piece_board (board s) (side s) 0]))
     (board s) (z_from_piece_board (board s) (side s) 0)).
Proof.
  intros W Hm. set (b := board s).
  pose proof border_footer_sweep as BF. unfold border_footer_nobar in BF. apply andb_prop in BF. destruct BF as [BF1 BF2].
  assert (forall r col, letter_of b r col <> bar) as Lnb.
  { intros r col. unfold letter_of. set (i := (r * BOARD_WIDTH + col) mod 256).
    destruct (N.lt_ge_cases i 64) as [Hi|Hi]; [apply (diagram_letter_decodes b i W Hi)|].
    unfold square_letter, piece_type_at_square.
    assert (N.testbit (allp b) i = false) as Z by (apply wf64_high; [apply (WFb_words b W)|exact Hi]).
    unfold sq_as_bit_board, one_shl.
    destruct (N.land (N.shiftl 1 (i mod 64)) (allp b) =? 0) eqn:E; cbn [negb].
    - destruct (existsb (N.eqb i) DIAGRAM_TRAP_INDICES); discriminate.
    - unfold convert_piece_to_letter, is_p1_piece. destruct (piece_type_at_bit _ b), (negb _); vm_compute; discriminate. }
  assert (forall r, no_bar (print_dec (BOARD_HEIGHT - r))) as Pnb by (intros r; apply print_dec_nobar).
  unfold print_state. fold b.
  assert (flat_map (print_row b) idx8 = flat_map (row (letter_of b) (fun r => print_dec (BOARD_HEIGHT - r))) idx8) as RowsEq.
  { apply flat_map_ext. intros r. apply print_row_eq. }
  rewrite RowsEq.
  set (pfx := print_dec (move_no s) ++ [if side s then 103 else 115] ++ [10] ++ border).
  replace (print_dec (move_no s) ++ [if side s then 103 else 115] ++ [10] ++ border ++
           flat_map (row (letter_of b) (fun r => print_dec (BOARD_HEIGHT - r))) idx8 ++ border ++ footer)
    with (pfx ++ flat_map (row (letter_of b) (fun r => print_dec (BOARD_HEIGHT - r))) idx8 ++ (border ++ footer))
    by (unfold pfx; rewrite <- !app_assoc; reflexivity).
  unfold parse_state_fixed. change 124 with bar.
  assert (no_bar pfx) as Pfx.
  { unfold pfx. apply no_bar_app; [apply print_dec_nobar|]. apply no_bar_app; [intros c [<-|[]]; destruct (side s); discriminate|].
    apply no_bar_app; [intros c [<-|[]]; discriminate|now apply forallb_nobar]. }
  rewrite (split_rows (letter_of b) Lnb _ Pnb idx8 pfx (border ++ footer) Pfx (forallb_nobar _ BF1)).
  cbv zeta. rewrite odd_segs, hd_segs.
  (* the scan *)
  unfold scan_board. rewrite (scan_generic scan_cell (letter_of b)). rewrite cells64_letters.
  assert (map (fun i => (i / 8, i mod 8, square_letter b i)) sq64 = map (fun i => (i / 8, i mod 8, square_letter b i)) (firstn 64 sq64)) as F64 by reflexivity.
  rewrite F64. rewrite <- (acc_upto_0 b).
  rewrite (scan_prefix b 64 W (le_n _)). change (N.of_nat 64) with 64.
  (* the header *)
  unfold idx8. cbv iota. unfold pfx. rewrite <- !app_assoc. cbn [app].
  rewrite header_of by exact Hm. rewrite parse_print_dec by exact Hm.
  assert (negb (existsb (N.eqb (if side s then 103 else 115)) DIAGRAM_SILVER_LETTERS) = side s) as Sd by (destruct (side s); reflexivity).
  rewrite Sd.
  cbn [a_oob acc_upto]. unfold state_of_parse. cbn [a_p1 a_e a_m a_h a_d a_c a_r acc_upto].
  pose proof (WFb_words b W) as (W1 & W2 & W3 & W4 & W5 & W6 & W7 & W8).
  rewrite !land_ones64 by assumption.
  assert (pb_new (p1 b) (el b) (ca b) (ho b) (dg b) (ct b) (rb b) = b) as PB.
  { unfold pb_new. rewrite (or_kinds' b W). destruct b; reflexivity. }
  rewrite PB. reflexivity.
Qed.

(* corollaries *)
Definition reparsed (s : state) : state :=
  mkstate (side s) (move_no s)
    (PlayPhase (play_initial (z_from_piece_board (board s) (side s) 0) [z_from_piece_board (board s) (side s) 0]))
    (board s) (z_from_piece_board (board s) (side s) 0).

Lemma reprint_identical s : print_state (reparsed s) = print_state s.
Proof. unfold print_state, reparsed. cbn [move_no side board]. reflexivity. Qed.

Lemma reparsed_fields s : board (reparsed s) = board s /\ side (reparsed s) = side s /\ move_no (reparsed s) = move_no s /\
  exists h, ph (reparsed s) = PlayPhase (play_initial h [h]) /\ h = hash (reparsed s) /\
            hash (reparsed s) = z_from_piece_board (board (reparsed s)) (side (reparsed s)) 0.
Proof.
  unfold reparsed. cbn [board side move_no ph hash]. split; [reflexivity|]. split; [reflexivity|]. split; [reflexivity|].
  exists (z_from_piece_board (board s) (side s) 0). split; [reflexivity|]. split; reflexivity.
Qed.

(* a start-of-turn state whose hash is the from-scratch hash re-parses to a state with the same transposition hash
   that compares equal to it *)
Lemma reparsed_hash s pp : ph s = PlayPhase pp -> step_of pp = 0 -> pstate pp = PPNone ->
  hash s = z_from_piece_board (board s) (side s) 0 ->
  transposition_hash (reparsed s) = transposition_hash s /\ state_eqb s (reparsed s) = true.
Proof.
  intros P S0 St H. unfold transposition_hash, state_eqb, reparsed. rewrite P, St. cbn [ph pstate play_initial hash].
  rewrite H. rewrite N.lxor_0_r. split; [reflexivity|apply N.eqb_refl].
Qed.
