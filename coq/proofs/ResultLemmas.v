(* C04: at turn start the reported result is the official win-condition cascade on squares. *)
From Coq Require Import NArith ZArith List Bool Lia ZifyBool ZifyN.
From Arimaa Require Import Types U64 GenMasks GenEnums GenZobrist Board Zobrist Engine Notation Display Trace Cells Rules Monitors
  Fin XorFold Hash BitLemmas StepLemmas GenLemmas Refine Invariant Live.
Import ListNotations.
Open Scope N_scope.
Strategy opaque [bits_of].

Definition term_of (r : option result) : option terminal :=
  match r with
  | Some x => match x with RGold => Some GoldWin | RSilver => Some SilverWin end
  | None => None
  end.

Lemma nonzero_exists x : wf64 x -> negb (x =? 0) = existsb (N.testbit x) sq64.
Proof. intros H. rewrite (testbit_zero_iff x H). apply negb_involutive. Qed.

Lemma rabbit_bits b (o : bool) i : WFb b -> i < 64 ->
  (if o then N.testbit (p1 b) i else negb (N.testbit (p1 b) i)) && N.testbit (rb b) i
  = match cell b i with Some (o', Rabbit) => Bool.eqb o o' | _ => false end.
Proof.
  intros W Hi. pose proof (kind_bit_cell b i Rabbit W) as K. unfold kind_bit in K. cbn [bits_by_piece_type] in K. rewrite K.
  unfold cell. destruct (N.testbit (allp b) i); [|now rewrite andb_false_r].
  destruct (kind_at b i), o, (N.testbit (p1 b) i); reflexivity.
Qed.

Section Result.
  Variable b : pbs.
  Hypothesis W : WFb b.
  Let c := cell b.

  Lemma goal_gold : negb (N.land (N.land (p1 b) (rb b)) P1_OBJECTIVE_MASK =? 0) = goal_reached c true.
  Proof.
    pose proof (WFb_words b W) as (W1 & _).
    rewrite nonzero_exists by (apply land_wf64_l, land_wf64_l, W1).
    unfold goal_reached, rabbit_on_row, exists_sq. apply existsb_ext_in. intros i Hi. apply In_sq64 in Hi.
    rewrite !N.land_spec, P1_OBJECTIVE_spec. pose proof (rabbit_bits b true i W Hi) as R. cbv iota in R. rewrite R.
    destruct (N.ltb_spec i 64); [|lia]. fold c. cbn [andb]. apply andb_comm.
  Qed.

  Lemma goal_silver : negb (N.land (N.land (bnot (p1 b)) (rb b)) P2_OBJECTIVE_MASK =? 0) = goal_reached c false.
  Proof.
    rewrite nonzero_exists by (apply land_wf64_l, land_wf64_l, bnot_wf64).
    unfold goal_reached, rabbit_on_row, exists_sq. apply existsb_ext_in. intros i Hi. apply In_sq64 in Hi.
    rewrite !N.land_spec, bnot_spec, P2_OBJECTIVE_spec. pose proof (rabbit_bits b false i W Hi) as R. cbv iota in R.
    destruct (N.ltb_spec i 64); [|lia]. cbn [andb]. rewrite R. fold c. apply andb_comm.
  Qed.

  Lemma lost_gold : (N.land (p1 b) (rb b) =? 0) = negb (has_rabbit c true).
  Proof.
    pose proof (WFb_words b W) as (W1 & _).
    rewrite <- (negb_involutive (N.land (p1 b) (rb b) =? 0)), nonzero_exists by (apply land_wf64_l, W1). f_equal.
    unfold has_rabbit, exists_sq. apply existsb_ext_in. intros i Hi. apply In_sq64 in Hi.
    rewrite N.land_spec. pose proof (rabbit_bits b true i W Hi) as R. cbv iota in R. now rewrite R.
  Qed.

  Lemma lost_silver : (N.land (bnot (p1 b)) (rb b) =? 0) = negb (has_rabbit c false).
  Proof.
    rewrite <- (negb_involutive (N.land (bnot (p1 b)) (rb b) =? 0)), nonzero_exists by (apply land_wf64_l, bnot_wf64). f_equal.
    unfold has_rabbit, exists_sq. apply existsb_ext_in. intros i Hi. apply In_sq64 in Hi.
    rewrite N.land_spec, bnot_spec. pose proof (rabbit_bits b false i W Hi) as R. cbv iota in R.
    destruct (N.ltb_spec i 64); [|lia]. cbn [andb]. now rewrite R.
  Qed.
End Result.

(* C04: the six-way order, for every turn-start state satisfying the invariant *)
Theorem result_order s pp : PlayInv s pp -> step_of pp = 0 ->
  is_terminal s = term_of (spec_result (cell (board s)) (side s) (nonempty (valid_actions s))).
Proof.
  intros Inv S0. pose proof (inv_board s pp Inv) as W.
  unfold is_terminal, as_play_phase. rewrite (inv_phase s pp Inv), S0. cbn [N.ltb N.compare].
  unfold rabbit_at_goal, lost_all_rabbits.
  rewrite (goal_gold (board s) W), (goal_silver (board s) W), (lost_gold (board s) W), (lost_silver (board s) W).
  assert (has_move s (board s) = if nonempty (valid_actions s) then None else Some (loss_for_mover s)) as HM.
  { destruct (has_move s (board s)) eqn:E.
    - assert (valid_actions s = []) as Z.
      { destruct (valid_actions s) eqn:V; [reflexivity|]. assert (has_move s (board s) = None) by (apply (has_move_iff s pp Inv); rewrite V; discriminate). congruence. }
      rewrite Z. cbn. unfold has_move in E. rewrite (inv_phase s pp Inv) in E.
      match type of E with (if ?c then _ else _) = _ => destruct c end; [discriminate|symmetry; exact E].
    - apply (has_move_iff s pp Inv) in E. destruct (valid_actions s); [congruence|reflexivity]. }
  rewrite HM. unfold spec_result, loss_for_mover, or_else, won_by, win_for, term_of.
  destruct (side s); cbn [negb];
  destruct (goal_reached (cell (board s)) true), (goal_reached (cell (board s)) false),
    (has_rabbit (cell (board s)) true), (has_rabbit (cell (board s)) false), (nonempty (valid_actions s)); reflexivity.
Qed.

Theorem result_setup s : ph s = PlacePhase -> is_terminal s = None.
Proof. intros H. unfold is_terminal, as_play_phase. now rewrite H. Qed.
