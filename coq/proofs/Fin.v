(* Finite sweeps over the 64 squares, lifted to universally quantified statements. *)
From Coq Require Import NArith List Bool Lia FinFun.
From Arimaa Require Import Types U64.
Import ListNotations.
Open Scope N_scope.

Lemma sq64_seq : sq64 = map N.of_nat (seq 0 64).
Proof. vm_compute. reflexivity. Qed.

Lemma In_sq64 i : In i sq64 <-> i < 64.
Proof.
  rewrite sq64_seq, in_map_iff. split.
  - intros [n [<- Hn]]. apply in_seq in Hn. lia.
  - intros H. exists (N.to_nat i). split; [apply N2Nat.id|]. apply in_seq. lia.
Qed.

Lemma NoDup_sq64 : NoDup sq64.
Proof.
  rewrite sq64_seq. apply FinFun.Injective_map_NoDup; [|apply seq_NoDup].
  intros a b H. now apply Nat2N.inj.
Qed.

Lemma forall_sq64 (p : N -> bool) : forallb p sq64 = true -> forall i, i < 64 -> p i = true.
Proof. intros H i Hi. rewrite forallb_forall in H. apply H, In_sq64, Hi. Qed.

Lemma forall_sq64_iff (p : N -> bool) : forallb p sq64 = true <-> forall i, i < 64 -> p i = true.
Proof.
  split; [apply forall_sq64|]. intros H. apply forallb_forall. intros i Hi. apply H, In_sq64, Hi.
Qed.

Lemma exists_sq64 (p : N -> bool) : existsb p sq64 = true <-> exists i, i < 64 /\ p i = true.
Proof.
  rewrite existsb_exists. split; intros [i [H1 H2]]; exists i; split; auto; now apply In_sq64.
Qed.

Definition all_pieces_list : list piece := [Rabbit; Cat; Dog; Horse; Camel; Elephant].
Lemma In_all_pieces k : In k all_pieces_list.
Proof. destruct k; cbn; tauto. Qed.
Definition all_dirs_list : list dir := [Up; Right; Down; Left].
Lemma In_all_dirs d : In d all_dirs_list.
Proof. destruct d; cbn; tauto. Qed.

Lemma forall_pieces (p : piece -> bool) : forallb p all_pieces_list = true -> forall k, p k = true.
Proof. intros H k. rewrite forallb_forall in H. apply H, In_all_pieces. Qed.
Lemma forall_dirs (p : dir -> bool) : forallb p all_dirs_list = true -> forall d, p d = true.
Proof. intros H d. rewrite forallb_forall in H. apply H, In_all_dirs. Qed.
Lemma forall_bools (p : bool -> bool) : p true && p false = true -> forall b, p b = true.
Proof. intros H b. apply andb_prop in H. destruct b; tauto. Qed.
