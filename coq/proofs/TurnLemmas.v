(* Turn structure (C03), per-turn board record (C14), board effect of actions (C02) at the state level. *)
From Coq Require Import NArith ZArith List Bool Lia ZifyBool ZifyN.
From Arimaa Require Import Types U64 GenMasks GenEnums GenZobrist Board Zobrist Engine Notation Display Trace Cells Rules Monitors
  Fin XorFold Hash BitLemmas StepLemmas GenLemmas Refine Invariant.
Import ListNotations.
Open Scope N_scope.
Ltac Zify.zify_post_hook ::= Z.div_mod_to_equations.
Strategy opaque [bits_of].

Lemma wadd_0 x : x < P64 -> wadd x 0 = x.
Proof. intros H. unfold wadd. rewrite N.add_0_r. now apply N.mod_small. Qed.
Lemma wadd_1 x : x + 1 < P64 -> wadd x 1 = x + 1.
Proof. intros H. unfold wadd. now apply N.mod_small. Qed.

(* a step that is not the fourth of the turn *)
Theorem step_mid s pp i d : ph s = PlayPhase pp -> step_of pp < 3 -> move_no s < P64 ->
  let s' := take_action s (Move i d) in
  side s' = side s /\ move_no s' = move_no s /\
  exists pp', ph s' = PlayPhase pp' /\ step_of pp' = step_of pp + 1 /\ prev pp' = prev pp ++ [board s] /\
              init_hash pp' = init_hash pp /\ pstate pp' = next_push_pull_state s i d.
Proof.
  intros Hph H3 Hm. cbv zeta. cbn [take_action]. rewrite (move_piece_unfold s pp i d Hph). cbv zeta.
  assert ((3 <=? step_of pp) = false) as L by (apply N.leb_gt; exact H3). rewrite L. cbn [side move_no ph andb].
  split; [reflexivity|]. split; [now apply wadd_0|]. eexists. split; [reflexivity|]. unfold step_of. cbn [prev init_hash pstate].
  rewrite app_length. cbn [length]. repeat split. lia.
Qed.

(* the fourth step ends the turn *)
Theorem step_last s pp i d : ph s = PlayPhase pp -> 3 <= step_of pp -> move_no s + 1 < P64 ->
  let s' := take_action s (Move i d) in
  side s' = negb (side s) /\ move_no s' = (if side s then move_no s else move_no s + 1) /\
  exists h l, ph s' = PlayPhase (play_initial h l) /\ h = hash s'.
Proof.
  intros Hph H3 Hm. cbv zeta. cbn [take_action]. rewrite (move_piece_unfold s pp i d Hph). cbv zeta.
  assert ((3 <=? step_of pp) = true) as L by (apply N.leb_le; exact H3). rewrite L. cbn [side move_no ph andb hash].
  split; [reflexivity|]. split.
  - destruct (side s); cbn [negb]; [apply wadd_0; lia|now apply wadd_1].
  - eexists. eexists. split; reflexivity.
Qed.

Theorem pass_turn s pp : ph s = PlayPhase pp -> move_no s + 1 < P64 ->
  let s' := take_action s Pass in
  side s' = negb (side s) /\ move_no s' = (if side s then move_no s else move_no s + 1) /\ board s' = board s /\
  exists h l, ph s' = PlayPhase (play_initial h l) /\ h = hash s'.
Proof.
  intros Hph Hm. cbv zeta. cbn [take_action]. unfold pass, unwrap_play_phase. rewrite Hph. cbn [side move_no ph board hash].
  split; [reflexivity|]. split; [|split; [reflexivity|eexists; eexists; split; reflexivity]].
  destruct (side s); [apply wadd_0; lia|now apply wadd_1].
Qed.

Lemma play_initial_fresh h l : step_of (play_initial h l) = 0 /\ pstate (play_initial h l) = PPNone /\
  prev (play_initial h l) = [] /\ trapped (play_initial h l) = false /\ init_hash (play_initial h l) = h.
Proof. repeat split. Qed.

(* F4: the hypothesis move_no + 1 < 2^64 cannot be dropped *)
Lemma move_number_wraps : wadd 18446744073709551615 1 = 0.
Proof. reflexivity. Qed.

(* ---- C14 ---- *)
Theorem board_for_step_current s pp : ph s = PlayPhase pp -> piece_board_for_step s (step_of pp) = board s.
Proof. intros H. unfold piece_board_for_step, current_step, unwrap_play_phase. rewrite H, N.eqb_refl. reflexivity. Qed.

Theorem board_for_step_earlier s pp i : ph s = PlayPhase pp -> i < step_of pp ->
  piece_board_for_step s i = nth (N.to_nat i) (prev pp) empty_board.
Proof.
  intros H Hi. unfold piece_board_for_step, current_step, unwrap_play_phase. rewrite H.
  destruct (N.eqb_spec i (step_of pp)); [lia|reflexivity].
Qed.

(* the boards of a turn: k <= 3 steps from a state of the turn *)
Fixpoint boards_along (s : state) (l : list action) : list pbs :=
  match l with [] => [] | a :: r => board s :: boards_along (take_action s a) r end.

Theorem prev_along s pp l : ph s = PlayPhase pp -> N.of_nat (length l) + step_of pp <= 3 -> move_no s < P64 ->
  (forall a, In a l -> exists i d, a = Move i d) ->
  exists ppk, ph (fold_left take_action l s) = PlayPhase ppk /\ prev ppk = prev pp ++ boards_along s l /\ step_of ppk = step_of pp + N.of_nat (length l).
Proof.
  revert s pp. induction l as [|a l IH]; intros s pp Hph Hlen Hm Hmv.
  - cbn. exists pp. rewrite app_nil_r. repeat split; [exact Hph|lia].
  - destruct (Hmv a (or_introl eq_refl)) as [i [d ->]].
    assert (step_of pp < 3) as H3 by (cbn [length] in Hlen; lia).
    pose proof (step_mid s pp i d Hph H3 Hm) as (S1 & S2 & pp' & P1 & P2 & P3 & _).
    assert (N.of_nat (length l) + step_of pp' <= 3) as Hlen' by (cbn [length] in Hlen; lia).
    assert (move_no (take_action s (Move i d)) < P64) as Hm' by (rewrite S2; exact Hm).
    destruct (IH (take_action s (Move i d)) pp' P1 Hlen' Hm' (fun a Ha => Hmv a (or_intror Ha))) as (ppk & K1 & K2 & K3).
    exists ppk. cbn [fold_left boards_along]. split; [exact K1|]. split; [|cbn [length]; lia].
    rewrite K2, P3, <- app_assoc. reflexivity.
Qed.

(* C14: asking for the board at step j of the turn returns the board that was current after j steps *)
Theorem boards_reported s0 pp0 l j : ph s0 = PlayPhase pp0 -> prev pp0 = [] -> N.of_nat (length l) <= 3 -> move_no s0 < P64 ->
  (forall a, In a l -> exists i d, a = Move i d) -> (j <= length l)%nat ->
  piece_board_for_step (fold_left take_action l s0) (N.of_nat j) = board (fold_left take_action (firstn j l) s0).
Proof.
  intros Hph Hp0 Hlen Hm Hmv Hj.
  assert (step_of pp0 = 0) as S0 by (unfold step_of; now rewrite Hp0).
  assert (N.of_nat (length l) + step_of pp0 <= 3) as Hlen0 by lia.
  destruct (prev_along s0 pp0 l Hph Hlen0 Hm Hmv) as (ppk & K1 & K2 & K3).
  rewrite Hp0 in K2. cbn [app] in K2.
  assert (forall s l j, (j < length l)%nat -> nth j (boards_along s l) empty_board = board (fold_left take_action (firstn j l) s)) as Nth.
  { clear. intros s l. revert s. induction l as [|a l IH]; intros s j Hj; [cbn in Hj; lia|].
    destruct j as [|j]; [reflexivity|]. cbn [boards_along nth firstn fold_left]. apply IH. cbn in Hj. lia. }
  destruct (Nat.eq_dec j (length l)) as [->|Hne].
  - rewrite firstn_all. rewrite <- (N.add_0_l (N.of_nat (length l))), <- S0, <- K3. now apply board_for_step_current.
  - rewrite (board_for_step_earlier _ ppk) by (try exact K1; lia). rewrite K2, Nat2N.id. apply Nth. lia.
Qed.
