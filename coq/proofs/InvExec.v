(* The executable invariant test of the monitors is sound: a state that passes it satisfies the play invariant and
   the hash invariant under which the `inv`-level monitor clauses are theorems. *)
From Coq Require Import NArith ZArith List Bool Lia ZifyBool ZifyN.
From Arimaa Require Import Types U64 GenMasks GenEnums GenZobrist Board Zobrist Engine Notation Display Trace Cells Rules Monitors
  Fin BitLemmas StepLemmas GenLemmas Refine Invariant TurnLemmas HashInv.
Import ListNotations.
Open Scope N_scope.

Lemma wfb_exec_WFb b : wfb_exec b = true -> WFb b.
Proof.
  unfold wfb_exec. intros H. apply andb_prop in H. destruct H as [H1 H2].
  assert (forall w, In w (words b) -> w <= M64) as Hw.
  { intros w Hin. rewrite forallb_forall in H1. specialize (H1 w Hin). now apply N.leb_le in H1. }
  split; [exact Hw|]. intros i. destruct (N.lt_ge_cases i 64) as [Hi|Hi]; [exact (forall_sq64 _ H2 i Hi)|].
  unfold wf_at.
  assert (forall w, In w (words b) -> N.testbit w i = false) as Z by (intros w Hin; apply wf64_high; [exact (Hw w Hin)|exact Hi]).
  rewrite !Z by (unfold words; cbn [In]; tauto). reflexivity.
Qed.

Theorem inv_exec_sound s : inv_exec s = true -> exists pp, HashInv s pp.
Proof.
  unfold inv_exec. destruct (ph s) as [|pp] eqn:P; [discriminate|]. intros H.
  apply andb_prop in H. destruct H as [H Hh]. apply andb_prop in H. destruct H as [H Hst].
  apply andb_prop in H. destruct H as [H H3]. apply andb_prop in H. destruct H as [Hb Hp].
  exists pp. constructor; [constructor|].
  - exact P.
  - now apply wfb_exec_WFb.
  - apply Forall_forall. intros x Hx. rewrite forallb_forall in Hp. apply wfb_exec_WFb. now apply Hp.
  - now apply N.leb_le in H3.
  - destruct (pstate pp) as [|sq k|sq k]; cbn [status_inv]; [exact I| |];
      (apply andb_prop in Hst; destruct Hst as [Hst H1]; apply andb_prop in Hst; destruct Hst as [Hlt Hocc];
       apply N.ltb_lt in Hlt; apply N.leb_le in H1; apply negb_true_iff in Hocc; unfold occupied in Hocc;
       repeat split; auto; destruct (cell (board s) sq); [discriminate|reflexivity]).
  - now apply N.eqb_eq in Hh.
Qed.
