From Coq Require Import NArith ZArith List Bool Lia.
From Arimaa Require Import Types U64 Board Zobrist Engine Cells Rules Monitors Fin HashSens Invariant Reach Traps RepInv Symmetry.
From Arimaa Require Import InvExec.
Import ListNotations.
Open Scope N_scope.

Definition mkstart (b : pbs) (sd : bool) : state :=
  let h := z_from_piece_board b sd 0 in mkstate sd 2 (PlayPhase (play_initial h [h])) b h.

Lemma mkstart_start b sd : wfb_exec b = true -> StartPosition (mkstart b sd).
Proof. intros W. exists (z_from_piece_board b sd 0). split; [reflexivity|]. split; [reflexivity|]. split; [now apply wfb_exec_WFb|reflexivity]. Qed.

Definition bit (i : N) : N := N.shiftl 1 i.
(* Gold: rabbit c2 (50), dog d2 (51); Silver: rabbit c7 (10), cat d7 (11); Gold to move *)
Definition ex_b : pbs := pb_new (N.lor (bit 50) (bit 51)) 0 0 0 (bit 51) (bit 11) (N.lor (bit 50) (bit 10)).
(* its image under colour swap + rank flip: Silver rabbit c7, dog d7; Gold rabbit c2, cat d2; Silver to move *)
Definition ex_b' : pbs := pb_new (N.lor (bit 50) (bit 51)) 0 0 0 (bit 11) (bit 51) (N.lor (bit 50) (bit 10)).

Definition img_exec (ts : N -> N) (tw : bool -> bool) (b b' : pbs) : bool :=
  forallb (fun j => cell_eqb (cell b' (ts j)) (option_map (fun p => (tw (fst p), snd p)) (cell b j))) sq64.

Lemma img_exec_sound ts tw b b' : img_exec ts tw b b' = true -> img ts tw (cell b) (cell b').
Proof. intros H j Hj. apply cell_eqb_eq. exact (forall_sq64 _ H j Hj). Qed.

Lemma legal_exec_sound b : no_trap_violation b = true -> legal_traps (cell b).
Proof. intros H j Hj. apply negb_true_iff. exact (forall_sq64 _ H j Hj). Qed.

(* the hypotheses of the whole-game theorems are satisfiable, and such a game can proceed *)
Example sym_game_nonvacuous :
  let s := mkstart ex_b true in let s' := mkstart ex_b' false in
  SymGame flip_sq flip_dir negb s s' [(ex_b, true)] [(ex_b', false)] ex_b ex_b' /\
  In (Move 50 Up) (valid_actions_no_rep s) /\ In (Move (flip_sq 50) (flip_dir Up)) (valid_actions_no_rep s') /\
  exists G G' b0 b0', SymGame flip_sq flip_dir negb (take_action s (Move 50 Up)) (take_action s' (Move (flip_sq 50) (flip_dir Up))) G G' b0 b0'.
Proof.
  cbv zeta.
  assert (SymGame flip_sq flip_dir negb (mkstart ex_b true) (mkstart ex_b' false) [(ex_b, true)] [(ex_b', false)] ex_b ex_b') as SG.
  { apply (SG_start flip_sq flip_dir negb (mkstart ex_b true) (mkstart ex_b' false)).
    - apply mkstart_start. vm_compute. reflexivity.
    - apply mkstart_start. vm_compute. reflexivity.
    - apply img_exec_sound. vm_compute. reflexivity.
    - reflexivity.
    - apply legal_exec_sound. vm_compute. reflexivity. }
  split; [exact SG|].
  assert (In (Move 50 Up) (valid_actions_no_rep (mkstart ex_b true))) as Off by (vm_compute; tauto).
  split; [exact Off|]. split; [vm_compute; tauto|].
  eexists. eexists. eexists. eexists.
  eapply (SG_step flip_sq flip_dir negb _ _ _ _ _ _ _ _ (Move 50 Up) SG); [reflexivity|reflexivity|exact Off| |]; vm_compute; reflexivity.
Qed.
