(* Square-level meaning of the move generators' building blocks: frozen pieces, threatened pieces,
   free target squares, weaker pieces, piece lookup. *)
From Coq Require Import NArith ZArith List Bool Lia ZifyBool ZifyN.
From Arimaa Require Import Types U64 GenMasks GenEnums GenZobrist Board Zobrist Engine Cells Rules Fin XorFold Hash BitLemmas StepLemmas.
Import ListNotations.
Open Scope N_scope.
Ltac Zify.zify_post_hook ::= Z.div_mod_to_equations.

Lemma eqb_sym (a b : bool) : Bool.eqb a b = Bool.eqb b a.
Proof. destruct a, b; reflexivity. Qed.

(* ---- lists of set bits ---- *)
Lemma In_bits_of x i : In i (bits_of x) <-> i < 64 /\ N.testbit x i = true.
Proof. unfold bits_of. rewrite filter_In, In_sq64. tauto. Qed.

Lemma xsum_bits_of (f : N -> N) x : xsum f (bits_of x) = xsum (fun i => if N.testbit x i then f i else 0) sq64.
Proof. unfold bits_of. apply xsum_filter. Qed.

Lemma NoDup_bits_of x : NoDup (bits_of x).
Proof. unfold bits_of. apply NoDup_filter, NoDup_sq64. Qed.

Lemma In_DIR_ALL d : In d DIR_ALL.
Proof. destruct d; vm_compute; tauto. Qed.
Lemma NoDup_DIR_ALL : NoDup DIR_ALL.
Proof. unfold DIR_ALL. repeat constructor; cbn; intuition discriminate. Qed.

(* the regenerated strength order (derive(PartialOrd) = declaration order) is the order of the rules *)
Lemma piece_gtb_stronger a b : piece_gtb a b = stronger a b.
Proof. destruct a, b; reflexivity. Qed.

(* ---- kinds ---- *)
Definition kind_bit (b : pbs) (k : piece) (i : N) : bool := N.testbit (bits_by_piece_type b k) i.

Lemma kind_bit_cell b i k : WFb b -> kind_bit b k i = match cell b i with Some (_, k') => piece_eqb k k' | None => false end.
Proof.
  intros [_ W]. specialize (W i). unfold kind_bit, cell, kind_at. unfold wf_at in W.
  destruct k; cbn [bits_by_piece_type];
  destruct (N.testbit (allp b) i), (N.testbit (el b) i), (N.testbit (ca b) i), (N.testbit (ho b) i),
    (N.testbit (dg b) i), (N.testbit (ct b) i), (N.testbit (rb b) i); try reflexivity;
    cbn in W; try discriminate W; destruct (N.testbit (p1 b) i); discriminate W.
Qed.

Lemma occupied_cell b i : N.testbit (allp b) i = occupied (cell b) i.
Proof. unfold occupied, cell. destruct (N.testbit (allp b) i); reflexivity. Qed.

Lemma piece_type_at_bit_spec b i o k : WFb b -> i < 64 -> cell b i = Some (o, k) ->
  piece_type_at_bit (sq_as_bit_board i) b = k.
Proof.
  intros W Hi Hc. unfold piece_type_at_bit. rewrite !land_bit_zero, !negb_involutive by exact Hi.
  pose proof (kind_bit_cell b i) as K. unfold kind_bit in K.
  pose proof (K Rabbit W) as KR. pose proof (K Elephant W) as KE. pose proof (K Camel W) as KM.
  pose proof (K Horse W) as KH. pose proof (K Dog W) as KD. cbn [bits_by_piece_type] in *.
  rewrite KR, KE, KM, KH, KD, Hc. destruct k; reflexivity.
Qed.

Lemma piece_type_at_square_spec b i : WFb b -> i < 64 ->
  piece_type_at_square b i = option_map snd (cell b i).
Proof.
  intros W Hi. unfold piece_type_at_square. rewrite land_bit_zero', negb_involutive, occupied_cell by exact Hi.
  unfold occupied. destruct (cell b i) as [[o k]|] eqn:E; [|reflexivity]. cbn. f_equal. now apply (piece_type_at_bit_spec b i o k).
Qed.

(* ---- weaker pieces ---- *)
Lemma lesser_spec b k i : WFb b ->
  N.testbit (lesser_pieces k b) i = match cell b i with Some (_, k') => stronger k k' | None => false end.
Proof.
  intros W. pose proof (kind_bit_cell b i) as K. unfold kind_bit in K.
  pose proof (K Rabbit W) as KR. pose proof (K Cat W) as KC. pose proof (K Camel W) as KM.
  pose proof (K Horse W) as KH. pose proof (K Dog W) as KD. cbn [bits_by_piece_type] in *.
  destruct k; cbn [lesser_pieces]; rewrite ?N.lor_spec, ?N.bits_0, ?KR, ?KC, ?KM, ?KH, ?KD;
    destruct (cell b i) as [[o []]|]; reflexivity.
Qed.

(* ---- free target squares ---- *)
Lemma can_move_spec b d i : WFb b -> i < 64 ->
  N.testbit (can_move_in_direction d b) i = match dst_of i d with Some t => negb (occupied (cell b) t) | None => false end.
Proof.
  intros W Hi. unfold can_move_in_direction. rewrite sp_opp_dir_spec by exact Hi. unfold from_sq, opt_p.
  destruct (dst_of i d) as [t|] eqn:E; [|reflexivity].
  rewrite bnot_spec, occupied_cell. pose proof (dst_lt64 i d t Hi E). destruct (N.ltb_spec t 64); [reflexivity|lia].
Qed.

(* ---- threatened pieces ---- *)
Lemma existsb_orb {A} (f g : A -> bool) l : existsb (fun a => f a || g a) l = existsb f l || existsb g l.
Proof.
  induction l as [|a l IH]; [reflexivity|]. cbn [existsb]. rewrite IH.
  destruct (f a), (g a), (existsb f l), (existsb g l); reflexivity.
Qed.

Lemma existsb_false {A} (l : list A) : existsb (fun _ => false) l = false.
Proof. induction l; auto. Qed.

Lemma existsb_ext_false {A} (f : A -> bool) l : (forall a, In a l -> f a = false) -> existsb f l = false.
Proof. intros H. rewrite <- (existsb_false l). now apply existsb_ext_in. Qed.

(* P is a set of occupied squares *)
Lemma threatened_spec P Q b i : WFb b -> i < 64 -> (forall j, N.testbit P j = true -> occupied (cell b) j = true) ->
  N.testbit (threatened_pieces P Q b) i =
  N.testbit Q i && match cell b i with
                   | Some (_, k) => existsb (fun j => N.testbit P j && match cell b j with Some (_, k') => stronger k' k | None => false end) (nbrs i)
                   | None => false end.
Proof.
  intros W Hi HP. unfold threatened_pieces.
  rewrite !N.land_spec, !N.lor_spec, !N.land_spec, !N.lor_spec.
  rewrite !influenced_spec by exact Hi.
  pose proof (kind_bit_cell b i) as K. unfold kind_bit in K.
  pose proof (K Rabbit W) as KR. pose proof (K Cat W) as KC. pose proof (K Camel W) as KM.
  pose proof (K Horse W) as KH. pose proof (K Dog W) as KD. cbn [bits_by_piece_type] in *.
  rewrite KR, KC, KM, KH, KD. clear K KR KC KM KH KD.
  rewrite andb_comm. f_equal.
  assert (forall k0, existsb (N.testbit (N.land (bits_by_piece_type b k0) P)) (nbrs i)
            = existsb (fun j => N.testbit P j && match cell b j with Some (_, k') => piece_eqb k0 k' | None => false end) (nbrs i)) as EK.
  { intros k0. apply existsb_ext_in. intros j _. rewrite N.land_spec. fold (kind_bit b k0 j). rewrite kind_bit_cell by exact W. apply andb_comm. }
  pose proof (EK Elephant) as EE. pose proof (EK Camel) as EM. pose proof (EK Horse) as EH. pose proof (EK Dog) as ED. pose proof (EK Cat) as EC.
  cbn [bits_by_piece_type] in *. rewrite EE, EM, EH, ED, EC. clear EK EE EM EH ED EC.
  destruct (cell b i) as [[o k]|]; [|reflexivity].
  destruct k; cbn [piece_eqb andb orb]; rewrite ?orb_false_r, <- ?existsb_orb;
    try (symmetry; apply existsb_ext_false; intros j _; destruct (N.testbit P j); cbn [andb]; try reflexivity;
         destruct (cell b j) as [[o' []]|]; reflexivity);
    apply existsb_ext_in; intros j _; destruct (N.testbit P j); cbn [andb]; try reflexivity;
    destruct (cell b j) as [[o' []]|]; reflexivity.
Qed.

Lemma threatened_wf64 P Q b : wf64 Q -> wf64 (threatened_pieces P Q b).
Proof. intros H. unfold threatened_pieces. now apply land_wf64_r. Qed.

(* ---- the mover's unfrozen pieces ---- *)
Lemma opp_mask_spec s b i : WFb b -> i < 64 ->
  N.testbit (opponent_piece_mask s b) i = friend_at (cell b) (negb (side s)) i.
Proof.
  intros W Hi. unfold opponent_piece_mask. destruct (side s); cbn [negb].
  - change (N.land (bnot (p1 b)) (allp b)) with (player_piece_mask b false). now apply player_mask_spec.
  - change (p1 b) with (player_piece_mask b true). now apply player_mask_spec.
Qed.

Lemma cur_mask_spec s b i : WFb b -> i < 64 ->
  N.testbit (N.land (bnot (opponent_piece_mask s b)) (allp b)) i = friend_at (cell b) (side s) i.
Proof.
  intros W Hi. rewrite N.land_spec, bnot_spec, opp_mask_spec, occupied_cell by assumption.
  destruct (N.ltb_spec i 64); [|lia]. unfold friend_at, occupied. destruct (cell b i) as [[o k]|]; [|reflexivity].
  destruct (side s), o; reflexivity.
Qed.

Lemma non_frozen_spec s b i : WFb b -> i < 64 ->
  N.testbit (curr_player_non_frozen_pieces s b) i = friend_at (cell b) (side s) i && negb (frozen (cell b) i).
Proof.
  intros W Hi. unfold curr_player_non_frozen_pieces.
  set (cur := N.land (bnot (opponent_piece_mask s b)) (allp b)).
  rewrite N.land_spec, N.lor_spec, bnot_spec. destruct (N.ltb_spec i 64); [|lia]. cbn [andb].
  rewrite supported_spec by exact Hi.
  rewrite threatened_spec; [|exact W|exact Hi|].
  2:{ intros j Hj. destruct (N.lt_ge_cases j 64) as [Hj64|Hj64].
      - rewrite opp_mask_spec in Hj by assumption. unfold friend_at in Hj. unfold occupied. destruct (cell b j); [reflexivity|discriminate].
      - pose proof (WFb_words b W) as (W1 & W2 & _).
        assert (wf64 (opponent_piece_mask s b)) as Wo by (unfold opponent_piece_mask; destruct (side s); [now apply land_wf64_r|exact W1]).
        rewrite (wf64_high _ j Wo Hj64) in Hj. discriminate. }
  unfold cur at 1 2 3. rewrite cur_mask_spec by assumption.
  assert (F: friend_at (cell b) (side s) i = match cell b i with Some (o, _) => eqb (side s) o | None => false end) by reflexivity.
  rewrite !F. unfold frozen.
  destruct (cell b i) as [[o k]|] eqn:Ci; [|reflexivity].
  destruct (eqb (side s) o) eqn:Eo; [|reflexivity]. cbn [andb]. apply eqb_prop in Eo. subst o.
  unfold has_stronger_enemy_nbr, has_friend_nbr.
  rewrite (existsb_ext_in (fun j => N.testbit (opponent_piece_mask s b) j && match cell b j with Some (_, k') => stronger k' k | None => false end)
             (fun j => match cell b j with Some (o', k') => negb (eqb (side s) o') && stronger k' k | None => false end) (nbrs i)).
  2:{ intros j Hj. rewrite opp_mask_spec by (try exact W; now apply (nbrs_lt64 i)). unfold friend_at.
      destruct (cell b j) as [[o' k']|]; [|reflexivity]. destruct (side s), o'; reflexivity. }
  rewrite (existsb_ext_in (N.testbit cur) (friend_at (cell b) (side s)) (nbrs i)).
  2:{ intros j Hj. unfold cur. apply cur_mask_spec; [exact W|now apply (nbrs_lt64 i)]. }
  set (E1 := existsb _ (nbrs i)). set (E2 := existsb _ (nbrs i)). destruct E1, E2; reflexivity.
Qed.

Lemma non_frozen_wf64 s b : WFb b -> wf64 (curr_player_non_frozen_pieces s b).
Proof.
  intros W. pose proof (WFb_words b W) as (W1 & W2 & _). unfold curr_player_non_frozen_pieces.
  apply land_wf64_l, land_wf64_r, W2.
Qed.

(* ---- rabbits may not step backward ---- *)
Lemma invalid_rabbit_spec s b d i : WFb b -> i < 64 -> friend_at (cell b) (side s) i = true ->
  N.testbit (invalid_rabbit_moves s d b) i =
  match cell b i with Some (o, Rabbit) => backward o d | _ => false end.
Proof.
  intros W Hi Hf. unfold invalid_rabbit_moves.
  pose proof (kind_bit_cell b i Rabbit W) as KR. unfold kind_bit in KR. cbn [bits_by_piece_type] in KR.
  unfold friend_at in Hf. destruct (cell b i) as [[o k]|] eqn:Ci; [|discriminate]. apply eqb_prop in Hf. subst o.
  assert (N.testbit (p1 b) i = side s) as P1.
  { unfold cell in Ci. destruct (N.testbit (allp b) i); [|discriminate]. now injection Ci as -> _. }
  destruct (side s) eqn:S; destruct d; cbn [dir_eqb backward negb]; rewrite ?N.bits_0, ?N.land_spec, ?bnot_spec, ?KR, ?P1;
    destruct k; try reflexivity; destruct (N.ltb_spec i 64); try lia; reflexivity.
Qed.

(* ---- counting pieces ---- *)
Lemma count_ones_filter x : count_ones x = N.of_nat (length (filter (N.testbit x) sq64)).
Proof. reflexivity. Qed.

Lemma filter_ext_in' {A} (f g : A -> bool) l : (forall a, In a l -> f a = g a) -> filter f l = filter g l.
Proof.
  induction l as [|a l IH]; intros H; [reflexivity|]. cbn [filter]. rewrite (H a (or_introl eq_refl)), IH; [reflexivity|].
  intros x Hx. apply H. now right.
Qed.

Definition is_piece (c : cellf) (o : bool) (k : piece) (i : N) : bool := cell_eqb (c i) (Some (o, k)).

Lemma bits_for_piece_cell b k o i : WFb b -> i < 64 -> N.testbit (bits_for_piece b k o) i = is_piece (cell b) o k i.
Proof.
  intros W Hi. unfold bits_for_piece. rewrite N.land_spec. fold (kind_bit b k i). rewrite kind_bit_cell, player_mask_spec by assumption.
  unfold friend_at, is_piece, cell_eqb. destruct (cell b i) as [[o' k']|]; [|reflexivity].
  destruct k, k', o, o'; reflexivity.
Qed.

Lemma count_kind_cells b k o : WFb b ->
  count_ones (bits_for_piece b k o) = N.of_nat (length (filter (is_piece (cell b) o k) sq64)).
Proof.
  intros W. rewrite count_ones_filter. do 2 f_equal. apply filter_ext_in'. intros i Hi. apply bits_for_piece_cell; [exact W|now apply In_sq64].
Qed.

Lemma land_zero_count x : wf64 x -> (x =? 0) = (count_ones x =? 0).
Proof.
  intros H. rewrite (testbit_zero_iff x H), count_ones_filter.
  induction sq64 as [|a l IH]; [reflexivity|]. cbn [existsb filter]. destruct (N.testbit x a); cbn [orb negb length]; [|exact IH].
  symmetry. apply N.eqb_neq. lia.
Qed.

(* the mover's pieces split by kind *)
Lemma count_partition (c : cellf) o l :
  length (filter (friend_at c o) l) =
  (length (filter (is_piece c o Elephant) l) + length (filter (is_piece c o Camel) l) + length (filter (is_piece c o Horse) l) +
   length (filter (is_piece c o Dog) l) + length (filter (is_piece c o Cat) l) + length (filter (is_piece c o Rabbit) l))%nat.
Proof.
  induction l as [|i l IH]; [reflexivity|]. cbn [filter].
  assert (forall K, is_piece c o K i = match c i with Some (o', k') => Bool.eqb o' o && piece_eqb k' K | None => false end) as HK by reflexivity.
  assert (friend_at c o i = match c i with Some (o', _) => Bool.eqb o o' | None => false end) as HF by reflexivity.
  rewrite !HK, HF.
  destruct (c i) as [[o' k']|]; [destruct o, o', k'|]; cbn [Bool.eqb piece_eqb andb length]; rewrite IH; lia.
Qed.

Lemma player_mask_count b o : WFb b ->
  length (bits_of (player_piece_mask b o)) = length (filter (friend_at (cell b) o) sq64).
Proof.
  intros W. unfold bits_of. f_equal. apply filter_ext_in'. intros i Hi. apply player_mask_spec; [exact W|now apply In_sq64].
Qed.
