(* C09: the setup phase.  The occupancy words during setup take only 33 shapes (n = 0..32 pieces
   placed), so the bit-level part (placement_bit) is settled by computation over the shapes; the
   piece kinds are handled on cells. *)
From Coq Require Import NArith ZArith List Bool Lia ZifyBool ZifyN.
From Arimaa Require Import Types U64 GenMasks GenEnums GenZobrist Board Zobrist Engine Notation Display Trace Cells Rules Monitors
  Fin XorFold Hash HashSens BitLemmas StepLemmas GenLemmas Refine Invariant TurnLemmas HashInv.
Import ListNotations.
Open Scope N_scope.
Strategy opaque [bits_of].

(* target square of the n-th placement overall (n = 0..31): Gold a2..h2 (48..55), a1..h1 (56..63); Silver a8..h8 (0..7), a7..h7 (8..15) *)
Definition target (n : N) : N := if n <? 16 then 48 + n else n - 16.
Definition low_ones (n : N) : N := N.ones n.
(* occupancy after n placements *)
Definition shape_all (n : N) : N :=
  if n <=? 16 then N.shiftl (low_ones n) 48 else N.lor P1_PLACEMENT_MASK (low_ones (n - 16)).
Definition shape_p1 (n : N) : N := if n <=? 16 then N.shiftl (low_ones n) 48 else P1_PLACEMENT_MASK.

Definition idx32 : list N := map N.of_nat (seq 0 32).
Lemma In_idx32 n : n < 32 -> In n idx32.
Proof. intros H. unfold idx32. apply in_map_iff. exists (N.to_nat n). split; [apply N2Nat.id|]. apply in_seq. lia. Qed.

Definition shape_ok (n : N) : bool :=
  let b := mkpbs (shape_p1 n) (shape_all n) 0 0 0 0 0 0 in
  (placement_bit b =? 2 ^ target n) &&
  (shape_all (n + 1) =? N.lor (shape_all n) (2 ^ target n)) &&
  (shape_p1 (n + 1) =? N.lor (shape_p1 n) (if n <? 16 then 2 ^ target n else 0)) &&
  negb (N.testbit (shape_all n) (target n)) &&
  (shape_all n <=? M64) && (shape_p1 n <=? M64) &&
  Bool.eqb (2 ^ target n =? LAST_P1_PLACEMENT_MASK) (n =? 15) &&
  Bool.eqb (2 ^ target n =? LAST_P2_PLACEMENT_MASK) (n =? 31) &&
  (N.of_nat (length (bits_of (if n <? 16 then shape_p1 n else N.land (bnot (shape_p1 n)) (shape_all n)))) =? n mod 16).
Lemma shapes_sweep : forallb shape_ok idx32 = true.
Proof. vm_compute. reflexivity. Qed.

Lemma shape_facts n : n < 32 -> shape_ok n = true.
Proof. intros H. pose proof shapes_sweep as S. rewrite forallb_forall in S. apply S, In_idx32, H. Qed.

(* placement_bit only looks at p1 and all *)
Lemma placement_bit_shape b : placement_bit b = placement_bit (mkpbs (p1 b) (allp b) 0 0 0 0 0 0).
Proof. reflexivity. Qed.

Record SetupInv (s : state) (n : N) : Prop := {
  si_phase : ph s = PlacePhase;
  si_n : n < 32;
  si_wf : WFb (board s);
  si_all : allp (board s) = shape_all n;
  si_p1 : p1 (board s) = shape_p1 n;
  si_side : side s = (n <? 16);
  si_move : move_no s = 1;
  si_hash : hash s = N.lxor (if side s then INITIAL else N.lxor INITIAL PLAYER_TO_MOVE) (board_part (board s));
}.

Lemma board_part_empty : board_part empty_board = 0.
Proof. unfold board_part. apply xsum_zero. intros i _. reflexivity. Qed.

Lemma WFb_empty : WFb empty_board.
Proof. split; [intros w Hw; cbn in Hw; unfold M64; repeat (destruct Hw as [<-|Hw]; [lia|]); contradiction|intros i; unfold wf_at; cbn; reflexivity]. Qed.

Theorem setup_initial : SetupInv initial 0.
Proof.
  constructor; try reflexivity; try (cbn; lia); try exact WFb_empty.
  all: cbn [hash side initial board]; now rewrite board_part_empty, N.lxor_0_r.
Qed.

(* the board after a placement, on bits *)
Lemma or_kinds b : WFb b -> N.lor (N.lor (N.lor (N.lor (N.lor (el b) (ca b)) (ho b)) (dg b)) (ct b)) (rb b) = allp b.
Proof.
  intros [_ W]. apply N.bits_inj. intros i. rewrite !N.lor_spec. specialize (W i). unfold wf_at in W.
  apply andb_prop in W. destruct W as [W _]. apply andb_prop in W. destruct W as [W _]. apply eqb_prop in W. now rewrite W.
Qed.

Lemma place_board s k : WFb (board s) ->
  let b := board s in let bit := placement_bit b in
  let add (t : piece) (x : N) := if piece_eqb k t then N.lor x bit else x in
  board (place s k) = mkpbs (N.lor (p1 b) (if side s then bit else 0)) (N.lor (allp b) bit)
                            (add Elephant (el b)) (add Camel (ca b)) (add Horse (ho b)) (add Dog (dg b)) (add Cat (ct b)) (add Rabbit (rb b)).
Proof.
  intros W. cbv zeta. unfold place. cbn [board]. unfold pb_new. f_equal.
  rewrite <- (or_kinds (board s) W). set (bit := placement_bit (board s)).
  destruct k; cbn [piece_eqb]; apply N.bits_inj; intros i; rewrite !N.lor_spec;
    destruct (N.testbit (el (board s)) i), (N.testbit (ca (board s)) i), (N.testbit (ho (board s)) i),
      (N.testbit (dg (board s)) i), (N.testbit (ct (board s)) i), (N.testbit (rb (board s)) i), (N.testbit bit i); reflexivity.
Qed.

Section Place.
  Variable s : state.
  Variable n : N.
  Variable k : piece.
  Hypothesis Inv : SetupInv s n.
  Let b := board s.
  Let t := target n.

  Lemma Ht64 : t < 64.
  Proof. unfold t, target. pose proof (si_n s n Inv). destruct (N.ltb_spec n 16); lia. Qed.

  Lemma place_bit : placement_bit b = sq_as_bit_board t.
  Proof.
    pose proof (shape_facts n (si_n s n Inv)) as F. unfold shape_ok in F. cbv zeta in F.
    repeat (apply andb_prop in F; destruct F as [F ?]). apply N.eqb_eq in F.
    unfold b. rewrite placement_bit_shape, (si_all s n Inv), (si_p1 s n Inv), F. symmetry. apply sq_bit_eq, Ht64.
  Qed.

  Lemma target_empty : cell b t = None.
  Proof.
    pose proof (shape_facts n (si_n s n Inv)) as F. unfold shape_ok in F. cbv zeta in F.
    repeat (apply andb_prop in F; destruct F as [F ?]).
    match goal with H : negb (N.testbit (shape_all n) (target n)) = true |- _ => apply negb_true_iff in H; rename H into E end.
    unfold cell, b, t. now rewrite (si_all s n Inv), E.
  Qed.

  Lemma place_bits8 i : i < 64 ->
    bits8 (board (place s k)) i =
    if i =? t then [side s; true; piece_eqb k Elephant; piece_eqb k Camel; piece_eqb k Horse; piece_eqb k Dog; piece_eqb k Cat; piece_eqb k Rabbit]
    else bits8 b i.
  Proof.
    intros Hi. rewrite (place_board s k (si_wf s n Inv)). cbv zeta. fold b. rewrite place_bit.
    pose proof (cell_none_bits b t (si_wf s n Inv) target_empty) as Z. unfold bits8 in Z. injection Z as Z1 Z2 Z3 Z4 Z5 Z6 Z7 Z8.
    unfold bits8. cbn [p1 allp el ca ho dg ct rb].
    assert (forall (c : bool) x, N.testbit (if c then N.lor x (sq_as_bit_board t) else x) i = N.testbit x i || (c && (i =? t))) as A.
    { intros c x. destruct c; [rewrite N.lor_spec, sq_bit_spec by exact Ht64; rewrite N.eqb_sym; reflexivity|now rewrite orb_false_r]. }
    rewrite !A. rewrite !N.lor_spec.
    assert (N.testbit (if side s then sq_as_bit_board t else 0) i = side s && (i =? t)) as B.
    { destruct (side s); [rewrite sq_bit_spec by exact Ht64; now rewrite N.eqb_sym|apply N.bits_0]. }
    rewrite B, sq_bit_spec by exact Ht64. rewrite (N.eqb_sym t i).
    destruct (N.eqb_spec i t) as [->|Hne].
    - rewrite Z1, Z2, Z3, Z4, Z5, Z6, Z7, Z8. rewrite !andb_true_r. cbn [orb]. reflexivity.
    - rewrite !andb_false_r, !orb_false_r. reflexivity.
  Qed.

  (* C09: the placement sets exactly the next free home square to (mover, k) *)
  Theorem place_cell i : i < 64 -> cell (board (place s k)) i = if i =? t then Some (side s, k) else cell b i.
  Proof.
    intros Hi. pose proof (place_bits8 i Hi) as H. destruct (i =? t).
    - rewrite (proj1 (cell_bits8_eq _ _ _ _ _ _ _ _ _ _ H)). destruct k; reflexivity.
    - apply (cell_of_bits8 _ _ _ _ H).
  Qed.

  Lemma place_WFb : WFb (board (place s k)).
  Proof.
    pose proof (WFb_words b (si_wf s n Inv)) as (W1 & W2 & W3 & W4 & W5 & W6 & W7 & W8).
    assert (wf64 (sq_as_bit_board t)) as Wt by (apply sq_bit_wf64, Ht64).
    assert (forall (c : bool) x, wf64 x -> wf64 (if c then N.lor x (sq_as_bit_board t) else x)) as A
      by (intros [] x Hx; [now apply lor_wf64|exact Hx]).
    rewrite (place_board s k (si_wf s n Inv)). cbv zeta. fold b. rewrite place_bit.
    apply WFb_intro; cbn [p1 allp el ca ho dg ct rb]; try (now apply A); try (now apply lor_wf64).
    - apply lor_wf64; [exact W1|]. destruct (side s); [exact Wt|unfold wf64, M64; lia].
    - intros i Hi. pose proof (place_bits8 i Hi) as H. rewrite (place_board s k (si_wf s n Inv)) in H. cbv zeta in H. fold b in H. rewrite place_bit in H.
      destruct (i =? t).
      + rewrite (proj2 (cell_bits8_eq _ _ _ _ _ _ _ _ _ _ H)). destruct k, (side s); reflexivity.
      + rewrite (proj2 (cell_of_bits8 _ _ _ _ H)). apply (si_wf s n Inv).
  Qed.

  Lemma place_board_part : board_part (board (place s k)) = N.lxor (board_part b) (piece_value t k (side s)).
  Proof.
    apply N.lxor_eq. rewrite <- N.lxor_assoc, (N.lxor_comm (board_part (board (place s k)))), board_part_diff.
    rewrite (xsum_single _ sq64 t NoDup_sq64).
    - rewrite place_cell, N.eqb_refl, target_empty by exact Ht64. cbn [cv]. rewrite N.lxor_0_l. apply N.lxor_nilpotent.
    - apply In_sq64, Ht64.
    - intros j Hj Hne. apply In_sq64 in Hj. rewrite place_cell by exact Hj. destruct (N.eqb_spec j t); [contradiction|]. apply N.lxor_nilpotent.
  Qed.

  Lemma place_unfold :
    place s k =
    let bit := placement_bit b in
    let switch_players := bit =? LAST_P1_PLACEMENT_MASK in
    let switch_phases := bit =? LAST_P2_PLACEMENT_MASK in
    let nh := z_place_piece (hash s) k (sq_from_bit_board bit) (side s) switch_players switch_phases in
    mkstate (if switch_players then false else if switch_phases then true else side s)
            (if switch_phases then 2 else 1)
            (if switch_phases then PlayPhase (play_initial nh [nh]) else PlacePhase)
            (board (place s k)) nh.
  Proof. reflexivity. Qed.

  Lemma switches : (placement_bit b =? LAST_P1_PLACEMENT_MASK) = (n =? 15) /\ (placement_bit b =? LAST_P2_PLACEMENT_MASK) = (n =? 31).
  Proof.
    pose proof (shape_facts n (si_n s n Inv)) as F. unfold shape_ok in F. cbv zeta in F.
    repeat (apply andb_prop in F; destruct F as [F ?]).
    rewrite place_bit, sq_bit_eq by exact Ht64. unfold t. split; now apply eqb_prop.
  Qed.

  Lemma place_hash : hash (place s k) =
    N.lxor (N.lxor (N.lxor (hash s) (if (n =? 15) || (n =? 31) then PLAYER_TO_MOVE else 0)) (piece_value t k (side s)))
           (if n =? 31 then step_val 0 else 0).
  Proof.
    rewrite place_unfold. cbv zeta. cbn [hash]. unfold z_place_piece. destruct switches as [-> ->].
    rewrite place_bit, sq_from_bit by exact Ht64. reflexivity.
  Qed.

  (* C09: not the last placement of either side: same phase, same mover, next shape *)
  Theorem place_next : n <> 31 -> SetupInv (place s k) (n + 1).
  Proof.
    intros Hn. pose proof (si_n s n Inv) as Hn32.
    pose proof (shape_facts n Hn32) as F. unfold shape_ok in F. cbv zeta in F.
    repeat (apply andb_prop in F; destruct F as [F ?]).
    destruct switches as [S1 S2].
    assert ((n =? 31) = false) as N31 by now apply N.eqb_neq.
    constructor.
    - rewrite place_unfold. cbv zeta. cbn [ph]. now rewrite S2, N31.
    - lia.
    - exact place_WFb.
    - rewrite (place_board s k (si_wf s n Inv)). cbv zeta. cbn [allp]. fold b. rewrite place_bit, sq_bit_eq by exact Ht64.
      unfold b. rewrite (si_all s n Inv). symmetry. fold t.
      match goal with H : (shape_all (n + 1) =? _) = true |- _ => now apply N.eqb_eq in H end.
    - rewrite (place_board s k (si_wf s n Inv)). cbv zeta. cbn [p1]. fold b. rewrite place_bit, sq_bit_eq by exact Ht64.
      unfold b. rewrite (si_p1 s n Inv), (si_side s n Inv). symmetry. fold t.
      match goal with H : (shape_p1 (n + 1) =? _) = true |- _ => now apply N.eqb_eq in H end.
    - rewrite place_unfold. cbv zeta. cbn [side]. rewrite S1, S2, N31, (si_side s n Inv).
      destruct (N.eqb_spec n 15) as [->|]; [reflexivity|]. destruct (N.ltb_spec n 16), (N.ltb_spec (n+1) 16); try reflexivity; lia.
    - rewrite place_unfold. cbv zeta. cbn [move_no]. now rewrite S2, N31.
    - rewrite place_hash, place_board_part, N31, (si_hash s n Inv). cbn [orb]. rewrite N.lxor_0_r.
      rewrite place_unfold. cbv zeta. cbn [side]. rewrite S1, S2, N31.
      fold b. destruct (N.eqb_spec n 15) as [->|Hne]; cbn [orb].
      + rewrite (si_side s 15 Inv). replace (15 <? 16) with true by reflexivity. cbv iota. generalize INITIAL PLAYER_TO_MOVE (board_part b) (piece_value t k true). intros; xor_solve.
      + generalize (if side s then INITIAL else N.lxor INITIAL PLAYER_TO_MOVE) (board_part b) (piece_value t k (side s)). intros; xor_solve.
  Qed.

  (* C09: Silver's sixteenth placement starts the play phase: Gold to move, move 2, step 0, nothing pending *)
  Theorem place_last : n = 31 ->
    exists h, ph (place s k) = PlayPhase (play_initial h [h]) /\ h = hash (place s k) /\ side (place s k) = true /\
              move_no (place s k) = 2 /\ HashInv (place s k) (play_initial h [h]).
  Proof.
    intros Hn. destruct switches as [S1 S2]. rewrite Hn in S1, S2. change (31 =? 15) with false in S1. change (31 =? 31) with true in S2.
    exists (hash (place s k)).
    assert (ph (place s k) = PlayPhase (play_initial (hash (place s k)) [hash (place s k)])) as P
      by (rewrite place_unfold; cbv zeta; cbn [ph hash]; now rewrite S2).
    assert (side (place s k) = true) as Sd by (rewrite place_unfold; cbv zeta; cbn [side]; now rewrite S1, S2).
    split; [exact P|]. split; [reflexivity|]. split; [exact Sd|]. split; [rewrite place_unfold; cbv zeta; cbn [move_no]; now rewrite S2|].
    constructor.
    - constructor; cbn [prev pstate play_initial]; [exact P|exact place_WFb|constructor|unfold step_of; cbn; lia|exact I].
    - rewrite Sd. unfold step_of. cbn [prev play_initial length]. change (N.of_nat 0) with 0.
      rewrite from_scratch_eq by exact place_WFb. rewrite place_hash, place_board_part, (si_hash s n Inv), Hn. cbn [N.eqb orb].
      assert (side s = false) as Ss by (rewrite (si_side s n Inv), Hn; reflexivity). rewrite Ss. unfold header_part. fold b.
      change (Pos.eqb 31 15) with false. change (Pos.eqb 31 31) with true. cbn [orb].
      generalize INITIAL PLAYER_TO_MOVE (board_part b) (piece_value t k false) (step_val 0). intros; xor_solve.
  Qed.
End Place.

(* ---- C09: the placements offered ---- *)
Lemma valid_placement_In s k : WFb (board s) ->
  In (Place k) (valid_placement s) <-> count_kind (board s) k (side s) < complement k.
Proof.
  intros W. unfold valid_placement, count_kind, complement.
  pose proof (WFb_words (board s) W) as (W1 & W2 & W3 & W4 & W5 & W6 & W7 & W8).
  change (curr_player_piece_mask s (board s)) with (player_piece_mask (board s) (side s)).
  change (N.land (el (board s)) (player_piece_mask (board s) (side s))) with (bits_for_piece (board s) Elephant (side s)).
  change (N.land (ca (board s)) (player_piece_mask (board s) (side s))) with (bits_for_piece (board s) Camel (side s)).
  change (N.land (ho (board s)) (player_piece_mask (board s) (side s))) with (bits_for_piece (board s) Horse (side s)).
  change (N.land (dg (board s)) (player_piece_mask (board s) (side s))) with (bits_for_piece (board s) Dog (side s)).
  change (N.land (ct (board s)) (player_piece_mask (board s) (side s))) with (bits_for_piece (board s) Cat (side s)).
  change (N.land (rb (board s)) (player_piece_mask (board s) (side s))) with (bits_for_piece (board s) Rabbit (side s)).
  rewrite (land_zero_count (bits_for_piece (board s) Elephant (side s))) by (unfold bits_for_piece; now apply land_wf64_l).
  rewrite (land_zero_count (bits_for_piece (board s) Camel (side s))) by (unfold bits_for_piece; now apply land_wf64_l).
  assert (forall (c : bool) X, In (Place k) (if c then [Place X] else []) <-> c = true /\ k = X) as One.
  { intros c X. destruct c; cbn; split; try tauto; [intros [H|[]]; injection H; auto|intros [_ ->]; now left|intros [X0 _]; discriminate]. }
  rewrite !in_app_iff, !One.
  set (cE := count_ones (bits_for_piece (board s) Elephant (side s))). set (cM := count_ones (bits_for_piece (board s) Camel (side s))).
  set (cH := count_ones (bits_for_piece (board s) Horse (side s))). set (cD := count_ones (bits_for_piece (board s) Dog (side s))).
  set (cC := count_ones (bits_for_piece (board s) Cat (side s))). set (cR := count_ones (bits_for_piece (board s) Rabbit (side s))).
  destruct k; split.
  all: try (intros H; repeat match goal with H : _ \/ _ |- _ => destruct H | H : _ /\ _ |- _ => destruct H end; try discriminate; lia).
  all: intros H; try (left; split; [lia|reflexivity]); try (right; left; split; [lia|reflexivity]);
       try (right; right; left; split; [lia|reflexivity]); try (right; right; right; left; split; [lia|reflexivity]);
       try (right; right; right; right; left; split; [lia|reflexivity]); try (right; right; right; right; right; split; [lia|reflexivity]).
Qed.

Lemma In_single_if {A} (c : bool) (x a : A) : In a (if c then [x] else []) -> a = x.
Proof. destruct c; cbn; [intros [H|[]]; now symmetry|intros []]. Qed.

Lemma valid_placement_only s a : In a (valid_placement s) -> exists k, a = Place k.
Proof.
  unfold valid_placement. intros H.
  repeat (apply in_app_or in H; destruct H as [H|H]; [apply In_single_if in H; eauto|]).
  apply In_single_if in H. eauto.
Qed.

(* C07 in setup: there is always a placement to offer *)
Theorem setup_live s n : SetupInv s n -> valid_placement s <> [].
Proof.
  intros Inv E. pose proof (si_wf s n Inv) as W. pose proof (si_n s n Inv) as Hn.
  assert (forall k, complement k <= count_kind (board s) k (side s)) as Full.
  { intros k. destruct (N.lt_ge_cases (count_kind (board s) k (side s)) (complement k)) as [L|L]; [|exact L].
    apply (valid_placement_In s k W) in L. rewrite E in L. destruct L. }
  pose proof (shape_facts n Hn) as F. unfold shape_ok in F. cbv zeta in F.
  repeat (apply andb_prop in F; destruct F as [F ?]).
  match goal with H : (N.of_nat (length (bits_of _)) =? n mod 16) = true |- _ => apply N.eqb_eq in H; rename H into Cnt end.
  assert (N.of_nat (length (filter (friend_at (cell (board s)) (side s)) sq64)) = n mod 16) as Cnt'.
  { rewrite <- Cnt. f_equal. rewrite <- (si_all s n Inv), <- (si_p1 s n Inv), <- (si_side s n Inv).
    change (if side s then p1 (board s) else N.land (bnot (p1 (board s))) (allp (board s))) with (player_piece_mask (board s) (side s)).
    symmetry. now apply player_mask_count. }
  rewrite count_partition in Cnt'.
  pose proof (Full Elephant) as FE. pose proof (Full Camel) as FM. pose proof (Full Horse) as FH.
  pose proof (Full Dog) as FD. pose proof (Full Cat) as FC. pose proof (Full Rabbit) as FR.
  unfold count_kind, complement in *. rewrite !count_kind_cells in * by exact W.
  assert (n mod 16 < 16) by (apply N.mod_lt; lia). lia.
Qed.
