(* Cell-level meaning of the board update functions: a step at the bit level is `spec_step` on cells. *)
From Coq Require Import NArith ZArith List Bool Lia ZifyBool ZifyN.
From Arimaa Require Import Types U64 GenMasks GenEnums Board Cells Rules Fin XorFold Hash BitLemmas.
Import ListNotations.
Open Scope N_scope.
Ltac Zify.zify_post_hook ::= Z.div_mod_to_equations.

(* ---- neighbourhood functions ---- *)
Lemma influenced_spec x i : i < 64 -> N.testbit (influenced_squares x) i = existsb (N.testbit x) (nbrs i).
Proof.
  intros Hi. unfold influenced_squares. rewrite !N.lor_spec.
  change (shift_pieces_up x) with (shift_pieces_in_direction x Up).
  change (shift_pieces_right x) with (shift_pieces_in_direction x Right).
  change (shift_pieces_down x) with (shift_pieces_in_direction x Down).
  change (shift_pieces_left x) with (shift_pieces_in_direction x Left).
  rewrite !sp_dir_spec by exact Hi. rewrite existsb_nbrs. cbn [opp_dir]. unfold from_sq.
  destruct (opt_p (N.testbit x) (dst_of i Up)), (opt_p (N.testbit x) (dst_of i Right)),
           (opt_p (N.testbit x) (dst_of i Down)), (opt_p (N.testbit x) (dst_of i Left)); reflexivity.
Qed.

Lemma supported_spec x i : i < 64 ->
  N.testbit (supported_pieces x) i = N.testbit x i && existsb (N.testbit x) (nbrs i).
Proof.
  intros Hi. rewrite <- influenced_spec by exact Hi. unfold supported_pieces, influenced_squares.
  rewrite !N.lor_spec, !N.land_spec. destruct (N.testbit x i); reflexivity.
Qed.

Lemma influenced_wf64 x : wf64 x -> wf64 (influenced_squares x).
Proof.
  intros H. unfold influenced_squares.
  change (shift_pieces_up x) with (shift_pieces_in_direction x Up).
  change (shift_pieces_right x) with (shift_pieces_in_direction x Right).
  change (shift_pieces_down x) with (shift_pieces_in_direction x Down).
  change (shift_pieces_left x) with (shift_pieces_in_direction x Left).
  repeat apply lor_wf64; now apply sp_dir_wf64.
Qed.

(* ---- single-square bitboards ---- *)
Lemma sq_bit_eq s : s < 64 -> sq_as_bit_board s = 2 ^ s.
Proof.
  intros H. unfold sq_as_bit_board, one_shl. rewrite N.mod_small by exact H. apply N.shiftl_1_l.
Qed.

Lemma sq_bit_spec s i : s < 64 -> N.testbit (sq_as_bit_board s) i = (s =? i).
Proof. intros H. rewrite sq_bit_eq by exact H. apply N.pow2_bits_eqb. Qed.

Lemma sq_bit_wf64 s : s < 64 -> wf64 (sq_as_bit_board s).
Proof.
  intros H. apply wf64_of_bits. intros i Hi. rewrite sq_bit_spec by exact H. lia.
Qed.

Lemma land_bit_zero x s : s < 64 -> (N.land x (sq_as_bit_board s) =? 0) = negb (N.testbit x s).
Proof.
  intros H. destruct (N.testbit x s) eqn:E; cbn [negb].
  - apply N.eqb_neq. intros Z. assert (N.testbit (N.land x (sq_as_bit_board s)) s = false) as F by (rewrite Z; apply N.bits_0).
    rewrite N.land_spec, sq_bit_spec, E, N.eqb_refl in F by exact H. discriminate.
  - apply N.eqb_eq. apply N.bits_inj. intros i. rewrite N.land_spec, sq_bit_spec, N.bits_0 by exact H.
    destruct (N.eqb_spec s i) as [->|]; [rewrite E|]; now rewrite ?andb_false_r.
Qed.

Lemma land_bit_zero' x s : s < 64 -> (N.land (sq_as_bit_board s) x =? 0) = negb (N.testbit x s).
Proof. intros H. rewrite N.land_comm. now apply land_bit_zero. Qed.

Lemma filter_pow2_none s l : ~ In s l -> filter (N.testbit (2 ^ s)) l = [].
Proof.
  induction l as [|b l IH]; intros H; [reflexivity|]. cbn [filter]. rewrite N.pow2_bits_eqb.
  destruct (N.eqb_spec s b) as [->|]; [exfalso; apply H; now left|]. apply IH. intros X. apply H. now right.
Qed.

Lemma filter_pow2_one s l : NoDup l -> In s l -> filter (N.testbit (2 ^ s)) l = [s].
Proof.
  induction l as [|a l IH]; intros ND Hin; [contradiction|]. cbn [filter]. rewrite N.pow2_bits_eqb.
  inversion ND as [|? ? Hna ND']; subst. destruct Hin as [->|Hin].
  - rewrite N.eqb_refl. f_equal. now apply filter_pow2_none.
  - destruct (N.eqb_spec s a) as [->|]; [contradiction|]. now apply IH.
Qed.

Lemma ctz_single s : s < 64 -> bits_of (2 ^ s) = [s].
Proof. intros H. unfold bits_of. apply filter_pow2_one; [apply NoDup_sq64|now apply In_sq64]. Qed.

Lemma sq_from_bit s : s < 64 -> sq_from_bit_board (sq_as_bit_board s) = s.
Proof.
  intros H. unfold sq_from_bit_board, ctz128. rewrite sq_bit_eq, ctz_single by exact H. apply N.mod_small. lia.
Qed.

(* ---- shift_piece_in_direction: one word ---- *)
Lemma shift_piece_spec w s d t i : wf64 w -> s < 64 -> dst_of s d = Some t ->
  N.testbit (shift_piece_in_direction w (sq_as_bit_board s) d) i
  = ((i =? t) && N.testbit w s) || (negb (i =? s) && N.testbit w i).
Proof.
  intros Hw Hs Hd.
  assert (Hhigh: 64 <= i -> N.testbit w i = false) by (apply wf64_high; exact Hw).
  unfold shift_piece_in_direction. rewrite N.lor_spec, !N.land_spec, bnot_spec, sq_bit_spec by exact Hs.
  destruct d; cbn [shift_in_direction dst_of] in *; unfold row_of, file_of in Hd;
    rewrite ?shift_up_eq, ?shift_down_eq, ?shift_left_eq, ?shift_right_eq, ?shr_spec, ?shl_spec, !N.land_spec, sq_bit_spec by exact Hs;
    match type of Hd with context [if ?c then _ else _] => destruct c eqn:E end; try discriminate;
    injection Hd as <-.
  - destruct (N.eq_dec s (i + 8)) as [->|Hne].
    + destruct (N.testbit w (i+8)), (N.testbit w i); lia.
    + destruct (N.ltb_spec i 64); [|rewrite (Hhigh ltac:(lia))]; destruct (N.testbit w (i+8)); try destruct (N.testbit w i); lia.
  - destruct (N.eq_dec i (s+1)) as [->|Hne].
    + replace (s + 1 - 1) with s by lia. destruct (N.testbit w s), (N.testbit w (s+1)); lia.
    + destruct (N.ltb_spec i 64); [|rewrite (Hhigh ltac:(lia))]; destruct (N.testbit w (i-1)); try destruct (N.testbit w i); lia.
  - destruct (N.eq_dec i (s+8)) as [->|Hne].
    + replace (s + 8 - 8) with s by lia. destruct (N.testbit w s), (N.testbit w (s+8)); lia.
    + destruct (N.ltb_spec i 64); [|rewrite (Hhigh ltac:(lia))]; destruct (N.testbit w (i-8)); try destruct (N.testbit w i); lia.
  - destruct (N.eq_dec s (i + 1)) as [->|Hne].
    + destruct (N.testbit w (i+1)), (N.testbit w i); lia.
    + destruct (N.ltb_spec i 64); [|rewrite (Hhigh ltac:(lia))]; destruct (N.testbit w (i+1)); try destruct (N.testbit w i); lia.
Qed.

Lemma shift_piece_wf64 w s d : wf64 w -> s < 64 -> wf64 (shift_piece_in_direction w (sq_as_bit_board s) d).
Proof.
  intros Hw Hs. unfold shift_piece_in_direction. apply lor_wf64; [|now apply land_wf64_l].
  destruct d; cbn [shift_in_direction]; rewrite ?shift_up_eq, ?shift_down_eq, ?shift_left_eq, ?shift_right_eq;
    try apply shl_wf64; apply shr_wf64, land_wf64_l, Hw.
Qed.

(* ---- well-formed boards ---- *)
Lemma WFb_words b : WFb b -> wf64 (p1 b) /\ wf64 (allp b) /\ wf64 (el b) /\ wf64 (ca b) /\ wf64 (ho b) /\ wf64 (dg b) /\ wf64 (ct b) /\ wf64 (rb b).
Proof. intros [H _]. unfold wf64. repeat split; apply H; cbn; tauto. Qed.

Lemma WFb_intro b :
  wf64 (p1 b) -> wf64 (allp b) -> wf64 (el b) -> wf64 (ca b) -> wf64 (ho b) -> wf64 (dg b) -> wf64 (ct b) -> wf64 (rb b) ->
  (forall i, i < 64 -> wf_at b i = true) -> WFb b.
Proof.
  intros H1 H2 H3 H4 H5 H6 H7 H8 Hw. split.
  - intros w Hin. cbn in Hin. unfold wf64 in *. repeat (destruct Hin as [<-|Hin]; [assumption|]). contradiction.
  - intros i. destruct (N.lt_ge_cases i 64) as [Hi|Hi]; [now apply Hw|].
    unfold wf_at. rewrite (wf64_high _ i H1 Hi), (wf64_high _ i H2 Hi), (wf64_high _ i H3 Hi), (wf64_high _ i H4 Hi),
      (wf64_high _ i H5 Hi), (wf64_high _ i H6 Hi), (wf64_high _ i H7 Hi), (wf64_high _ i H8 Hi). reflexivity.
Qed.

(* the eight bits of a board at one square *)
Definition bits8 (b : pbs) (i : N) : list bool :=
  [N.testbit (p1 b) i; N.testbit (allp b) i; N.testbit (el b) i; N.testbit (ca b) i;
   N.testbit (ho b) i; N.testbit (dg b) i; N.testbit (ct b) i; N.testbit (rb b) i].

Lemma cell_of_bits8 b b' i j : bits8 b i = bits8 b' j -> cell b i = cell b' j /\ wf_at b i = wf_at b' j.
Proof.
  unfold bits8, cell, kind_at, wf_at. intros H. injection H as -> -> -> -> -> -> -> ->. split; reflexivity.
Qed.

Lemma cell_bits8_eq b i p a e m h d c r : bits8 b i = [p; a; e; m; h; d; c; r] ->
  cell b i = (if a then Some (p, if r then Rabbit else if e then Elephant else if m then Camel else if h then Horse else if d then Dog else Cat) else None) /\
  wf_at b i = (Bool.eqb a (e || m || h || d || c || r) && Nat.leb (count_true [e; m; h; d; c; r]) 1 && implb p a).
Proof.
  unfold bits8, cell, kind_at, wf_at. intros H. injection H as <- <- <- <- <- <- <- <-. split; reflexivity.
Qed.

Lemma cell_none_bits b i : WFb b -> cell b i = None -> bits8 b i = [false; false; false; false; false; false; false; false].
Proof.
  intros [_ W] H. specialize (W i). unfold cell in H. unfold wf_at in W. unfold bits8.
  destruct (N.testbit (allp b) i); [discriminate|].
  destruct (N.testbit (p1 b) i), (N.testbit (el b) i), (N.testbit (ca b) i), (N.testbit (ho b) i),
    (N.testbit (dg b) i), (N.testbit (ct b) i), (N.testbit (rb b) i); try discriminate W; reflexivity.
Qed.

(* ---- PieceBoard::move_piece on cells ---- *)
Lemma move_piece_bits8 b s d t i : WFb b -> s < 64 -> dst_of s d = Some t -> cell b t = None ->
  bits8 (pb_move_piece b s d) i = if i =? t then bits8 b s else if i =? s then bits8 b t else bits8 b i.
Proof.
  intros W Hs Hd Ht. pose proof (WFb_words b W) as (W1 & W2 & W3 & W4 & W5 & W6 & W7 & W8).
  pose proof (cell_none_bits b t W Ht) as Z. unfold bits8 in Z. injection Z as Z1 Z2 Z3 Z4 Z5 Z6 Z7 Z8.
  pose proof (dst_neq s d t Hd Hs) as Hts.
  unfold bits8, pb_move_piece. cbn [p1 allp el ca ho dg ct rb].
  rewrite !(shift_piece_spec _ s d t i) by assumption.
  destruct (N.eqb_spec i t) as [->|Hit].
  - rewrite Z1, Z2, Z3, Z4, Z5, Z6, Z7, Z8. rewrite !andb_false_r, !orb_false_r. reflexivity.
  - destruct (N.eqb_spec i s) as [->|His]; cbn [andb negb orb].
    + rewrite Z1, Z2, Z3, Z4, Z5, Z6, Z7, Z8. reflexivity.
    + reflexivity.
Qed.

Lemma move_piece_cell b s d t i : WFb b -> s < 64 -> dst_of s d = Some t -> cell b t = None ->
  cell (pb_move_piece b s d) i = moved (cell b) s t i.
Proof.
  intros W Hs Hd Ht. pose proof (move_piece_bits8 b s d t i W Hs Hd Ht) as H. unfold moved.
  destruct (N.eqb_spec i t) as [->|Hit]; [apply (cell_of_bits8 _ _ _ _ H)|].
  destruct (N.eqb_spec i s) as [->|His]; [rewrite <- Ht; apply (cell_of_bits8 _ _ _ _ H)|apply (cell_of_bits8 _ _ _ _ H)].
Qed.

Lemma move_piece_WFb b s d t : WFb b -> s < 64 -> dst_of s d = Some t -> cell b t = None -> WFb (pb_move_piece b s d).
Proof.
  intros W Hs Hd Ht. pose proof (WFb_words b W) as (W1 & W2 & W3 & W4 & W5 & W6 & W7 & W8).
  apply WFb_intro; cbn [pb_move_piece p1 allp el ca ho dg ct rb]; try (now apply shift_piece_wf64).
  intros i Hi. pose proof (move_piece_bits8 b s d t i W Hs Hd Ht) as H. destruct W as [_ Wf].
  destruct (N.eqb_spec i t) as [->|Hit]; [rewrite (proj2 (cell_of_bits8 _ _ _ _ H)); apply Wf|].
  destruct (N.eqb_spec i s) as [->|His]; rewrite (proj2 (cell_of_bits8 _ _ _ _ H)); apply Wf.
Qed.

(* ---- trapped pieces ---- *)
Lemma player_mask_spec b o i : WFb b -> i < 64 ->
  N.testbit (player_piece_mask b o) i = friend_at (cell b) o i.
Proof.
  intros [_ W] Hi. specialize (W i). unfold player_piece_mask, friend_at, cell. unfold wf_at in W.
  destruct o.
  - destruct (N.testbit (allp b) i) eqn:A, (N.testbit (p1 b) i) eqn:P; cbn; try reflexivity.
    cbn [implb] in W. rewrite andb_false_r in W. discriminate.
  - rewrite N.land_spec, bnot_spec. destruct (N.ltb_spec i 64); [|lia].
    destruct (N.testbit (allp b) i), (N.testbit (p1 b) i); reflexivity.
Qed.

Lemma silver_mask_eq b : N.land (allp b) (bnot (p1 b)) = player_piece_mask b false.
Proof. unfold player_piece_mask. apply N.land_comm. Qed.

Lemma existsb_ext_in {A} (f g : A -> bool) l : (forall a, In a l -> f a = g a) -> existsb f l = existsb g l.
Proof.
  induction l as [|a l IH]; intros H; [reflexivity|]. cbn [existsb]. rewrite (H a (or_introl eq_refl)).
  f_equal. apply IH. intros x Hx. apply H. now right.
Qed.

Lemma nbrs_lt64 i j : i < 64 -> In j (nbrs i) -> j < 64.
Proof. intros Hi Hj. apply In_nbrs in Hj. destruct Hj as [d Hd]. now apply (dst_lt64 i d j). Qed.

Lemma trapped_bits_spec b i : WFb b -> i < 64 ->
  N.testbit (trapped_piece_bits b) i = unsupported_on_trap (cell b) i.
Proof.
  intros W Hi. pose proof (WFb_words b W) as (W1 & W2 & _).
  unfold trapped_piece_bits, animal_is_on_trap, unsupported_on_trap.
  assert (N.testbit (N.land (both_player_unsupported_piece_bits b) TRAP_MASK) i
          = is_trap i && match cell b i with Some (o, _) => negb (has_friend_nbr (cell b) o i) | None => false end) as Main.
  { unfold both_player_unsupported_piece_bits, both_player_supported_pieces.
    rewrite silver_mask_eq.
    rewrite !N.land_spec, bnot_spec, N.lor_spec, TRAP_spec.
    change (p1 b) with (player_piece_mask b true) at 1.
    rewrite !supported_spec by exact Hi.
    rewrite !player_mask_spec by assumption.
    rewrite (existsb_ext_in (N.testbit (player_piece_mask b true)) (friend_at (cell b) true) (nbrs i))
      by (intros j Hj; apply player_mask_spec; [exact W|now apply (nbrs_lt64 i)]).
    rewrite (existsb_ext_in (N.testbit (player_piece_mask b false)) (friend_at (cell b) false) (nbrs i))
      by (intros j Hj; apply player_mask_spec; [exact W|now apply (nbrs_lt64 i)]).
    destruct (N.ltb_spec i 64); [|lia]. unfold has_friend_nbr.
    assert (N.testbit (allp b) i = match cell b i with Some _ => true | None => false end) as ->
      by (unfold cell; destruct (N.testbit (allp b) i); reflexivity).
    unfold friend_at at 1 3.
    destruct (cell b i) as [[[] k]|]; cbn [eqb negb andb orb];
      destruct (is_trap i), (existsb (friend_at (cell b) true) (nbrs i)), (existsb (friend_at (cell b) false) (nbrs i)); reflexivity. }
  destruct (N.land (allp b) TRAP_MASK =? 0) eqn:E; cbn [negb]; [|exact Main].
  rewrite N.bits_0. apply N.eqb_eq in E.
  assert (N.testbit (N.land (allp b) TRAP_MASK) i = false) as F by (rewrite E; apply N.bits_0).
  rewrite N.land_spec, TRAP_spec in F. destruct (N.ltb_spec i 64); [|lia].
  unfold cell. destruct (N.testbit (allp b) i); cbn [andb] in *; [rewrite F; reflexivity|now rewrite andb_false_r].
Qed.

Lemma trapped_bits_wf64 b : wf64 (trapped_piece_bits b).
Proof.
  unfold trapped_piece_bits. destruct (animal_is_on_trap b); [|unfold wf64, M64; lia].
  apply land_wf64_r. unfold wf64, M64. vm_compute. discriminate.
Qed.

Lemma testbit_zero_iff x : wf64 x -> (x =? 0) = negb (existsb (N.testbit x) sq64).
Proof.
  intros H. destruct (N.eqb_spec x 0) as [->|Hne].
  - symmetry. apply negb_true_iff. apply not_true_iff_false. intros E. apply existsb_exists in E.
    destruct E as [i [_ Hi]]. rewrite N.bits_0 in Hi. discriminate.
  - symmetry. apply negb_false_iff. apply exists_sq64. exists (N.log2 x). split; [|now apply N.bit_log2].
    unfold wf64, M64 in H. apply N.log2_lt_pow2; [lia|]. change (2^64) with 18446744073709551616. lia.
Qed.

(* ---- PieceBoard::remove_trapped_pieces ---- *)
Lemma remove_trapped_bits8 b i : WFb b -> i < 64 ->
  bits8 (fst (pb_remove_trapped b)) i =
  if unsupported_on_trap (cell b) i then [false; false; false; false; false; false; false; false] else bits8 b i.
Proof.
  intros W Hi. unfold pb_remove_trapped.
  pose proof (trapped_bits_spec b i W Hi) as T.
  destruct (trapped_piece_bits b =? 0) eqn:E; cbn [negb fst].
  - apply N.eqb_eq in E. rewrite E, N.bits_0 in T. rewrite <- T. reflexivity.
  - unfold bits8. cbn [p1 allp el ca ho dg ct rb]. rewrite !N.land_spec, bnot_spec, T.
    destruct (N.ltb_spec i 64); [|lia]. destruct (unsupported_on_trap (cell b) i); cbn [negb andb]; rewrite ?andb_false_r, ?andb_true_r; reflexivity.
Qed.

Lemma remove_trapped_cell b i : WFb b -> i < 64 ->
  cell (fst (pb_remove_trapped b)) i = after_captures (cell b) i.
Proof.
  intros W Hi. pose proof (remove_trapped_bits8 b i W Hi) as H. unfold after_captures.
  destruct (unsupported_on_trap (cell b) i).
  - unfold cell, bits8 in *. injection H as _ -> _ _ _ _ _ _. reflexivity.
  - apply (cell_of_bits8 _ _ _ _ H).
Qed.

Lemma remove_trapped_WFb b : WFb b -> WFb (fst (pb_remove_trapped b)).
Proof.
  intros W. pose proof (WFb_words b W) as (W1 & W2 & W3 & W4 & W5 & W6 & W7 & W8).
  unfold pb_remove_trapped. destruct (negb (trapped_piece_bits b =? 0)) eqn:E; [|exact W]. cbn [fst].
  apply WFb_intro; cbn [p1 allp el ca ho dg ct rb]; try (now apply land_wf64_l).
  intros i Hi. pose proof (remove_trapped_bits8 b i W Hi) as H. unfold pb_remove_trapped in H. rewrite E in H. cbn [fst] in H.
  destruct (unsupported_on_trap (cell b) i).
  - unfold wf_at. unfold bits8 in H. cbn [p1 allp el ca ho dg ct rb] in *. injection H as -> -> -> -> -> -> -> ->. reflexivity.
  - rewrite (proj2 (cell_of_bits8 _ _ _ _ H)). apply W.
Qed.

Lemma remove_trapped_flag b : WFb b ->
  snd (pb_remove_trapped b) = existsb (unsupported_on_trap (cell b)) sq64.
Proof.
  intros W. unfold pb_remove_trapped.
  rewrite (testbit_zero_iff _ (trapped_bits_wf64 b)), negb_involutive.
  rewrite (existsb_ext_in _ (unsupported_on_trap (cell b)) sq64)
    by (intros i Hi; apply trapped_bits_spec; [exact W|now apply In_sq64]).
  destruct (existsb (unsupported_on_trap (cell b)) sq64); reflexivity.
Qed.

(* ---- PieceBoard::take_action on cells = spec_step ---- *)
Theorem take_move_cell b s d t i : WFb b -> s < 64 -> dst_of s d = Some t -> cell b t = None -> i < 64 ->
  cell (fst (pb_take_move b s d)) i = after_captures (moved (cell b) s t) i.
Proof.
  intros W Hs Hd Ht Hi. unfold pb_take_move.
  pose proof (move_piece_WFb b s d t W Hs Hd Ht) as W'.
  rewrite remove_trapped_cell by assumption.
  assert (E: forall j, cell (pb_move_piece b s d) j = moved (cell b) s t j) by (intros j; now apply move_piece_cell).
  unfold after_captures, unsupported_on_trap, has_friend_nbr. rewrite E.
  destruct (moved (cell b) s t i) as [[o k]|]; [|reflexivity].
  rewrite (existsb_ext_in (friend_at (cell (pb_move_piece b s d)) o) (friend_at (moved (cell b) s t) o) (nbrs i)); [reflexivity|].
  intros j _. unfold friend_at. now rewrite E.
Qed.

Theorem take_move_WFb b s d t : WFb b -> s < 64 -> dst_of s d = Some t -> cell b t = None ->
  WFb (fst (pb_take_move b s d)).
Proof. intros. unfold pb_take_move. apply remove_trapped_WFb. now apply (move_piece_WFb b s d t). Qed.
