(* Board facts behind T2: what a step of one side can and cannot do to the other side's pieces. *)
From Coq Require Import NArith ZArith List Bool Lia ZifyBool ZifyN.
From Arimaa Require Import Types U64 Rules Turns Fin BitLemmas StepLemmas GenLemmas Traps Pending.
Import ListNotations.
Open Scope N_scope.

(* (g1) two distinct neighbours of a square are never adjacent to each other *)
Definition g1_ok (i : N) : bool :=
  forallb (fun a => forallb (fun b => (a =? b) || negb (memb a (nbrs b))) (nbrs i)) (nbrs i).
Lemma g1_sweep : forallb g1_ok sq64 = true.
Proof. vm_compute. reflexivity. Qed.

Lemma g1 i a b : i < 64 -> In a (nbrs i) -> In b (nbrs i) -> a <> b -> ~ In a (nbrs b).
Proof.
  intros Hi Ha Hb Hne Hin. pose proof (forall_sq64 _ g1_sweep i Hi) as G. unfold g1_ok in G.
  rewrite forallb_forall in G. specialize (G a Ha). rewrite forallb_forall in G. specialize (G b Hb).
  apply orb_prop in G. destruct G as [G|G]; [apply N.eqb_eq in G; contradiction|].
  apply negb_true_iff in G. apply memb_In in Hin. congruence.
Qed.

Lemma nbrs_of_dst i d j : dst_of i d = Some j -> In j (nbrs i).
Proof. intros H. apply In_nbrs. eauto. Qed.

Lemma step_board_some c s d t : dst_of s d = Some t -> step_board c (s, d) = after_captures (moved c s t).
Proof. intros H. unfold step_board. cbn [fst snd]. now rewrite H. Qed.

Lemma step_board_legal c x : legal_traps c -> legal_traps (step_board c x).
Proof.
  intros L. unfold step_board. destruct (dst_of (fst x) (snd x)); [apply captures_settle|exact L].
Qed.

Lemma vacated_empty c s t : s <> t -> after_captures (moved c s t) s = None.
Proof.
  intros H. unfold after_captures.
  assert (moved c s t s = None) as M by (unfold moved; destruct (N.eqb_spec s t); [contradiction|]; now rewrite N.eqb_refl).
  rewrite M. destruct (unsupported_on_trap (moved c s t) s); reflexivity.
Qed.

(* (L-B) a piece of side m adjacent to the displaced piece that was frozen stays frozen: its freezer cannot have been
   captured, because the freezer and the piece would be two mutually adjacent neighbours of the vacated square *)
Section EnemyStep2.
  Variable c : cellf.
  Variable m : bool.
  Variables v t : N.
  Variable kv : piece.
  Hypothesis Hv : c v = Some (negb m, kv).
  Hypothesis Ht : c t = None.
  Hypothesis Hv64 : v < 64.
  Hypothesis Ht64 : t < 64.
  Hypothesis Hvt : v <> t.
  Hypothesis Leg : legal_traps c.
  Let c' := after_captures (moved c v t).

  Lemma frozen_kept p kp : p < 64 -> In v (nbrs p) -> c p = Some (m, kp) -> stronger kp kv = true -> frozen c p = true -> frozen c' p = true.
  Proof.
    intros Hp Hadj Cp St Fr. unfold frozen in *. unfold c'. rewrite (own_kept c m v t kv Hv Ht Leg p kp Hp Cp). rewrite Cp in Fr.
    apply andb_prop in Fr. destruct Fr as [En NoFr].
    assert (has_friend_nbr (after_captures (moved c v t)) m p = has_friend_nbr c m p) as HF.
    { unfold has_friend_nbr. apply existsb_ext_in. intros n Hn. apply (friend_after c m v t kv Hv Ht Leg). now apply (nbrs_lt64 p). }
    rewrite HF, NoFr, andb_true_r.
    unfold has_stronger_enemy_nbr in *. apply existsb_exists in En. destruct En as [e [He Ee]].
    apply existsb_exists. exists e. split; [exact He|].
    destruct (c e) as [[oe ke]|] eqn:Ce; [|discriminate]. apply andb_prop in Ee. destruct Ee as [Ee1 Ee2].
    assert (e < 64) as He64 by now apply (nbrs_lt64 p).
    assert (oe = negb m) as -> by (apply negb_true_iff in Ee1; destruct m, oe; cbn in *; congruence).
    (* e is not the victim (the victim is weaker than p) *)
    assert (e <> v) as Hev.
    { intros ->. rewrite Hv in Ce. injection Ce as ->. destruct kp, ke; cbn in St, Ee2; discriminate. }
    assert (e <> t) as Het by (intros ->; rewrite Ht in Ce; discriminate).
    assert (moved c v t e = Some (negb m, ke)) as Me.
    { unfold moved. destruct (N.eqb_spec e t); [contradiction|]. destruct (N.eqb_spec e v); [contradiction|exact Ce]. }
    (* e is not captured *)
    assert (unsupported_on_trap (moved c v t) e = false) as Ue.
    { destruct (unsupported_on_trap (moved c v t) e) eqn:U; [|reflexivity]. exfalso.
      unfold unsupported_on_trap in U. rewrite Me in U. apply andb_prop in U. destruct U as [Te NoSup]. apply negb_true_iff in NoSup.
      pose proof (Leg e He64) as L. unfold unsupported_on_trap in L. rewrite Te, Ce in L. cbn [andb] in L. apply negb_false_iff in L.
      (* e had a supporter in c; it has none after the move: the supporter was the victim on v *)
      unfold has_friend_nbr in L, NoSup. apply existsb_exists in L. destruct L as [n [Hn Fn]].
      assert (n = v) as ->.
      { destruct (N.eq_dec n v) as [E|Hnv]; [exact E|]. exfalso.
        assert (n <> t) by (intros ->; unfold friend_at in Fn; rewrite Ht in Fn; discriminate).
        assert (friend_at (moved c v t) (negb m) n = true) as X by (rewrite friend_moved; auto).
        assert (existsb (friend_at (moved c v t) (negb m)) (nbrs e) = true) as Y by (apply existsb_exists; eauto). congruence. }
      (* so v is adjacent to e; p and e are both neighbours of v and adjacent to each other: impossible *)
      assert (In e (nbrs v)) as Ev by (apply (nbrs_sym e v He64 Hn)).
      assert (In p (nbrs v)) as Pv by (apply (nbrs_sym p v Hp Hadj)).
      assert (e <> p) as Hep by (intros ->; rewrite Cp in Ce; injection Ce as E _; destruct m; discriminate).
      apply (g1 v e p Hv64 Ev Pv Hep). exact He. }
    unfold after_captures. rewrite Ue, Me. now rewrite Ee1, Ee2.
  Qed.
End EnemyStep2.
