(* The play-phase state invariant and the refinement of take_action to the square-level rules. *)
From Coq Require Import NArith ZArith List Bool Lia ZifyBool ZifyN.
From Arimaa Require Import Types U64 GenMasks GenEnums GenZobrist Board Zobrist Engine Notation Display Trace Cells Rules Monitors
  Fin XorFold Hash BitLemmas StepLemmas GenLemmas Refine.
Import ListNotations.
Open Scope N_scope.
Ltac Zify.zify_post_hook ::= Z.div_mod_to_equations.
Strategy opaque [bits_of].

Definition status_inv (b : pbs) (stp : N) (p : pps) : Prop :=
  match p with
  | PPNone => True
  | PossiblePull sq _ => sq < 64 /\ cell b sq = None /\ 1 <= stp
  | MustCompletePush sq _ => sq < 64 /\ cell b sq = None /\ 1 <= stp
  end.

Record PlayInv (s : state) (pp : play) : Prop := {
  inv_phase : ph s = PlayPhase pp;
  inv_board : WFb (board s);
  inv_prev : Forall WFb (prev pp);
  inv_step : step_of pp <= 3;
  inv_status : status_inv (board s) (step_of pp) (pstate pp);
}.

Lemma status_inv_ok b stp p : status_inv b stp p -> status_ok p.
Proof. destruct p; cbn; tauto. Qed.

(* what an offered move looks like on squares *)
Lemma offered_move_pre s pp i d : PlayInv s pp -> In (Move i d) (valid_actions_no_rep s) ->
  i < 64 /\ exists t o k, dst_of i d = Some t /\ cell (board s) i = Some (o, k) /\ cell (board s) t = None.
Proof.
  intros [Hph W _ _ Hst] H. apply (T1_move s pp Hph W (status_inv_ok _ _ _ Hst)) in H. destruct H as [Hi H].
  split; [exact Hi|]. unfold spec_move_ok in H. set (c := cell (board s)) in *.
  assert (forall o, negb (occupied c o) = true -> c o = None) as Emp by (intros o; unfold occupied; destruct (c o); [discriminate|reflexivity]).
  destruct (pstate pp) as [|sq k0|sq k0] eqn:E; cbn [sstatus_of] in H.
  - apply orb_prop in H. destruct H as [H|H]; [apply orb_prop in H; destruct H as [H|H]; [|discriminate]|apply andb_prop in H; destruct H as [_ H]].
    + unfold own_step_ok in H. destruct (c i) as [[o k]|]; [|discriminate]. destruct (dst_of i d) as [t|]; [|discriminate].
      exists t, o, k. repeat split. apply Emp. apply andb_prop in H. destruct H as [H _]. apply andb_prop in H. destruct H as [H _]. apply andb_prop in H. tauto.
    + unfold push_start_ok in H. destruct (c i) as [[o k]|]; [|discriminate]. destruct (dst_of i d) as [t|]; [|discriminate].
      exists t, o, k. repeat split. apply Emp. apply andb_prop in H. destruct H as [H _]. apply andb_prop in H. tauto.
  - cbn in Hst. destruct Hst as (Hsq & Hemp & _).
    apply orb_prop in H. destruct H as [H|H]; [apply orb_prop in H; destruct H as [H|H]|apply andb_prop in H; destruct H as [_ H]].
    + unfold own_step_ok in H. destruct (c i) as [[o k]|]; [|discriminate]. destruct (dst_of i d) as [t|]; [|discriminate].
      exists t, o, k. repeat split. apply Emp. apply andb_prop in H. destruct H as [H _]. apply andb_prop in H. destruct H as [H _]. apply andb_prop in H. tauto.
    + unfold pull_finish_ok in H. destruct (c i) as [[o k]|]; [|discriminate]. destruct (dst_of i d) as [t|]; [|discriminate].
      exists t, o, k. repeat split. apply andb_prop in H. destruct H as [H _]. apply andb_prop in H. destruct H as [_ H]. apply N.eqb_eq in H. subst t. exact Hemp.
    + unfold push_start_ok in H. destruct (c i) as [[o k]|]; [|discriminate]. destruct (dst_of i d) as [t|]; [|discriminate].
      exists t, o, k. repeat split. apply Emp. apply andb_prop in H. destruct H as [H _]. apply andb_prop in H. tauto.
  - cbn in Hst. destruct Hst as (Hsq & Hemp & _).
    unfold push_finish_ok in H. destruct (c i) as [[o k]|]; [|discriminate]. destruct (dst_of i d) as [t|]; [|discriminate].
    exists t, o, k. repeat split. apply andb_prop in H. destruct H as [H _]. apply andb_prop in H. destruct H as [H _]. apply andb_prop in H. destruct H as [_ H].
    apply N.eqb_eq in H. subst t. exact Hemp.
Qed.

(* ---- the status after a step ---- *)
Lemma pow2_inj_64 a b : a < 64 -> b < 64 -> (sq_as_bit_board a =? sq_as_bit_board b) = (a =? b).
Proof.
  intros Ha Hb. destruct (N.eqb_spec a b) as [->|Hne]; [apply N.eqb_refl|].
  apply N.eqb_neq. intros E. assert (N.testbit (sq_as_bit_board a) a = N.testbit (sq_as_bit_board b) a) as T by now rewrite E.
  rewrite !sq_bit_spec, N.eqb_refl in T by assumption. symmetry in T. apply N.eqb_eq in T. congruence.
Qed.

Lemma next_status_spec s pp i d t o k : PlayInv s pp -> i < 64 -> dst_of i d = Some t -> cell (board s) i = Some (o, k) ->
  sstatus_of (next_push_pull_state s i d) = spec_next_status (cell (board s)) (side s) (sstatus_of (pstate pp)) i d.
Proof.
  intros [Hph W _ _ Hst] Hi Hd Hc. unfold next_push_pull_state, spec_next_status. rewrite Hc.
  rewrite (piece_type_at_bit_spec (board s) i o k W Hi Hc).
  assert (is_their_piece s (sq_as_bit_board i) (board s) = negb (Bool.eqb o (side s))) as Their.
  { unfold is_their_piece. rewrite land_bit_zero', negb_involutive by exact Hi.
    unfold cell in Hc. destruct (N.testbit (allp (board s)) i); [|discriminate]. injection Hc as <- _.
    destruct (side s), (N.testbit (p1 (board s)) i); reflexivity. }
  rewrite Their.
  assert (move_can_be_counted_as_pull s (sq_as_bit_board i) d (board s) = pull_finish_ok (cell (board s)) (side s) (sstatus_of (pstate pp)) i d
          \/ Bool.eqb o (side s) = true) as Pull.
  { destruct (Bool.eqb o (side s)) eqn:Eo; [now right|left].
    unfold move_can_be_counted_as_pull, unwrap_play_phase, pull_finish_ok. rewrite Hph.
    destruct (pstate pp) as [|sq k0|sq k0] eqn:E; cbn [sstatus_of]; try reflexivity.
    cbn in Hst. destruct Hst as (Hsq & _ & _). rewrite Hc, Hd, Eo. cbn [negb andb].
    rewrite (shift_in_single i d t Hi Hd), pow2_inj_64 by (try exact Hsq; now apply (dst_lt64 i d t)).
    rewrite (piece_type_at_bit_spec (board s) i o k W Hi Hc), piece_gtb_stronger, N.eqb_sym.
    destruct (t =? sq); reflexivity. }
  unfold unwrap_play_phase. rewrite Hph.
  destruct (Bool.eqb o (side s)) eqn:Eo; cbn [negb andb].
  - rewrite sstatus_mcp. destruct (sstatus_of (pstate pp)) eqn:Es; cbn [negb andb]; destruct k; reflexivity.
  - destruct Pull as [Pull|Pull]; [|discriminate]. rewrite Pull.
    destruct (pull_finish_ok (cell (board s)) (side s) (sstatus_of (pstate pp)) i d); reflexivity.
Qed.

(* ---- one offered action preserves the invariant ---- *)
Lemma step_of_snoc (l : list pbs) b : N.of_nat (length (l ++ [b])) = N.of_nat (length l) + 1.
Proof. rewrite app_length. cbn. lia. Qed.

Lemma move_piece_unfold s pp i d : ph s = PlayPhase pp ->
  move_piece s i d =
  let cs := step_of pp in
  let last := 3 <=? cs in
  let nb := fst (pb_take_move (board s) i d) in
  let was := snd (pb_take_move (board s) i d) in
  let nside := if last then negb (side s) else side s in
  let nstep := if last then 0 else cs + 1 in
  let nh := z_move_piece (hash s) (side s) (board s) cs nb nstep nside in
  let nhist := if was then [] else hist pp in
  mkstate nside (wadd (move_no s) (if last && nside then 1 else 0))
    (PlayPhase (if last then play_initial nh (nh :: nhist)
                else mkplay (prev pp ++ [board s]) (next_push_pull_state s i d) (init_hash pp) nhist (trapped pp || was)))
    nb nh.
Proof.
  intros H. unfold move_piece, current_step, unwrap_play_phase. rewrite H.
  destruct (pb_take_move (board s) i d) as [nb was]. reflexivity.
Qed.

Theorem move_preserves s pp i d : PlayInv s pp -> In (Move i d) (valid_actions_no_rep s) ->
  exists pp', PlayInv (take_action s (Move i d)) pp'.
Proof.
  intros Inv H. pose proof (offered_move_pre s pp i d Inv H) as [Hi (t & o & k & Hd & Hc & Ht)].
  pose proof Inv as [Hph W Wp Hs Hst].
  cbn [take_action]. rewrite (move_piece_unfold s pp i d Hph). cbv zeta.
  pose proof (take_move_WFb (board s) i d t W Hi Hd Ht) as W'.
  destruct (3 <=? step_of pp) eqn:L.
  - eexists. constructor; cbn [ph board prev pstate play_initial].
    + reflexivity.
    + exact W'.
    + constructor.
    + unfold step_of. cbn. lia.
    + exact I.
  - apply N.leb_gt in L. eexists. constructor; [reflexivity|..]; unfold step_of in *; cbn [ph board prev pstate].
    + exact W'.
    + apply Forall_app. split; [exact Wp|constructor; [exact W|constructor]].
    + rewrite step_of_snoc. lia.
    + assert (cell (fst (pb_take_move (board s) i d)) i = None) as Emp.
      { rewrite (take_move_cell (board s) i d t i W Hi Hd Ht Hi). unfold after_captures.
        assert (moved (cell (board s)) i t i = None) as M.
        { unfold moved. pose proof (dst_neq i d t Hd Hi). destruct (N.eqb_spec i t); [congruence|]. now rewrite N.eqb_refl. }
        rewrite M. destruct (unsupported_on_trap _ i); reflexivity. }
      rewrite step_of_snoc.
      pose proof (next_status_spec s pp i d t o k Inv Hi Hd Hc) as NS.
      destruct (next_push_pull_state s i d) as [|sq k'|sq k'] eqn:En; cbn [status_inv]; [exact I| |];
        cbn [sstatus_of] in NS; unfold spec_next_status in NS; rewrite Hc in NS;
        repeat match type of NS with context [if ?c then _ else _] => destruct c end;
        try discriminate NS; try (destruct (sstatus_of (pstate pp)); try discriminate NS; destruct k; try discriminate NS);
        injection NS as -> _; (split; [exact Hi|split; [exact Emp|lia]]).
Qed.

Theorem pass_preserves s pp : PlayInv s pp -> In Pass (valid_actions_no_rep s) -> exists pp', PlayInv (take_action s Pass) pp'.
Proof.
  intros [Hph W Wp Hs Hst] _. cbn [take_action]. unfold pass, unwrap_play_phase. rewrite Hph.
  eexists. constructor; cbn [ph board prev pstate play_initial].
  - reflexivity.
  - exact W.
  - constructor.
  - unfold step_of. cbn. lia.
  - exact I.
Qed.

Theorem action_preserves s pp a : PlayInv s pp -> In a (valid_actions_no_rep s) -> exists pp', PlayInv (take_action s a) pp'.
Proof.
  intros Inv H. destruct a as [k|i d|].
  - exfalso. destruct Inv as [Hph W _ _ Hst]. now apply (T1_no_place s pp Hph W (status_inv_ok _ _ _ Hst) k).
  - now apply (move_preserves s pp).
  - now apply (pass_preserves s pp).
Qed.
