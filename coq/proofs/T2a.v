(* T2a: every step sequence the automaton accepts is a prefix of the flattening of a legal sequence of moves. *)
From Coq Require Import NArith ZArith List Bool Lia ZifyBool ZifyN.
From Arimaa Require Import Types U64 Rules Turns Fin BitLemmas StepLemmas GenLemmas Traps Pending TurnsLemmas T2b.
Import ListNotations.
Open Scope N_scope.

(* what is still open after the steps read so far *)
Inductive mode :=
| MNone
| MPullOpen (cp : cellf) (s : N) (d : dir) (k : piece)      (* an own single step that may still become a pull *)
| MPushOpen (cp : cellf) (v : N) (dv : dir) (kv : piece).   (* the first half of a push *)

Definition base (c : cellf) (md : mode) : cellf :=
  match md with MNone => c | MPullOpen cp _ _ _ => cp | MPushOpen cp _ _ _ => cp end.
Definition pre (md : mode) : list sstep :=
  match md with MNone => [] | MPullOpen _ s d _ => [(s, d)] | MPushOpen _ v dv _ => [(v, dv)] end.

Definition mode_ok (c : cellf) (g : bool) (stp : N) (st : sstatus) (md : mode) : Prop :=
  match md with
  | MNone => st = SNone \/ exists s k, st = SPull s k /\ False
  | MPullOpen cp s d k =>
    st = SPull s k /\ on_board cp /\ legal_traps cp /\ own_step_ok cp g s d = true /\ cp s = Some (g, k) /\
    c = step_board cp (s, d) /\ 1 <= stp
  | MPushOpen cp v dv kv =>
    st = SPush v kv /\ on_board cp /\ legal_traps cp /\ cp v = Some (negb g, kv) /\
    (exists t, dst_of v dv = Some t /\ cp t = None) /\ c = step_board cp (v, dv) /\ 1 <= stp <= 3 /\
    (exists p dp kp, cp p = Some (g, kp) /\ stronger kp kv = true /\ dst_of p dp = Some v /\ frozen cp p = false)
  end.

Definition claim (g : bool) (l : list sstep) (c : cellf) (stp : N) (md : mode) : Prop :=
  exists ms, mvs_ok (base c md) g ms = true /\ is_prefix (pre md ++ l) (flatten ms) /\
             N.of_nat (length (flatten ms)) + stp <= 4 + N.of_nat (length (pre md)).

Lemma prefix_cons {A} (x : A) l l' : is_prefix l l' -> is_prefix (x :: l) (x :: l').
Proof. intros [r ->]. exists r. reflexivity. Qed.
Lemma prefix_nil {A} (l : list A) : is_prefix [] l.
Proof. exists l. reflexivity. Qed.

Lemma enemy_not_own c g i d k : c i = Some (negb g, k) -> own_step_ok c g i d = false.
Proof. intros H. unfold own_step_ok. rewrite H. destruct (dst_of i d); [|reflexivity]. destruct g; reflexivity. Qed.
Lemma own_not_push c g i d k : c i = Some (g, k) -> push_start_ok c g i d = false.
Proof. intros H. unfold push_start_ok. rewrite H. destruct (dst_of i d); [|reflexivity]. now rewrite eqb_reflx. Qed.
Lemma own_not_pull c g st i d k : c i = Some (g, k) -> pull_finish_ok c g st i d = false.
Proof. intros H. unfold pull_finish_ok. destruct st; try reflexivity. rewrite H. destruct (dst_of i d); [|reflexivity]. now rewrite eqb_reflx. Qed.

Section T2a.
  Variable g : bool.

  (* the case "nothing open" (also used after committing an open single step), given the claim for the rest *)
  Lemma none_case i d r c stp (st : sstatus) :
    (forall c' stp' st' md', on_board c' -> legal_traps c' -> stp' <= 4 -> mode_ok c' g stp' st' md' ->
                              accepts c' g stp' st' r = true -> claim g r c' stp' md') ->
    on_board c -> legal_traps c -> stp < 4 ->
    (st = SNone \/ exists s k, st = SPull s k /\ pull_finish_ok c g st i d = false) ->
    spec_move_ok c g stp st i d = true ->
    accepts (step_board c (i, d)) g (stp + 1) (spec_next_status c g st i d) r = true ->
    claim g ((i, d) :: r) c stp MNone.
  Proof.
    intros IH OB Leg H4 Hst Acc AccR.
    assert (pull_finish_ok c g st i d = false) as NoPull.
    { destruct Hst as [->|(s & k & -> & H)]; [reflexivity|exact H]. }
    assert (spec_move_ok c g stp st i d = own_step_ok c g i d || ((stp <? 3) && push_start_ok c g i d)) as SM.
    { assert (match st with SPush _ _ => False | _ => True end) as NotPush by (destruct Hst as [->|(s & k & -> & _)]; exact I).
      unfold spec_move_ok. destruct st; [| |contradiction]; rewrite NoPull; now rewrite orb_false_r. }
    rewrite SM in Acc.
    destruct (c i) as [[o k]|] eqn:Ci.
    2:{ unfold own_step_ok, push_start_ok in Acc. rewrite Ci in Acc. now rewrite andb_false_r in Acc. }
    pose proof (on_board_lt c i _ OB Ci) as Hi.
    destruct (Bool.eqb o g) eqn:Eo.
    - (* an own step *)
      apply eqb_prop in Eo. subst o. rewrite (own_not_push c g i d k Ci), andb_false_r, orb_false_r in Acc.
      destruct (own_step_owner c g i d Acc) as (k' & t & Ci' & Dd & Ct & Fr). rewrite Ci in Ci'. injection Ci' as <-.
      assert (spec_next_status c g st i d = match k with Rabbit => SNone | _ => SPull i k end) as NS.
      { unfold spec_next_status. rewrite Ci, eqb_reflx. cbn [negb]. destruct Hst as [->|(s & k0 & -> & _)]; reflexivity. }
      rewrite NS in AccR.
      set (c' := step_board c (i, d)) in *.
      assert (on_board c') as OB' by now apply step_board_on_board. assert (legal_traps c') as Leg' by now apply step_board_legal.
      destruct k.
      + (* a rabbit: nothing stays open *)
        destruct (IH c' (stp + 1) SNone MNone OB' Leg' ltac:(lia) (or_introl eq_refl) AccR) as (ms & M1 & M2 & M3). cbn [base pre app length] in *.
        exists (MSingle i d :: ms). cbn [mvs_ok mv_ok base steps_of run_board fold_left]. fold c'. rewrite Acc, M1. split; [reflexivity|].
        split; [unfold flatten; cbn [flat_map steps_of app]; apply prefix_cons; exact M2|].
        unfold flatten in *. cbn [flat_map steps_of app length pre]. lia.
      + destruct (IH c' (stp + 1) (SPull i Cat) (MPullOpen c i d Cat) OB' Leg' ltac:(lia)) as (ms & M1 & M2 & M3); [cbn; repeat split; auto; lia|exact AccR|].
        exists ms. cbn [base pre app length] in *. split; [exact M1|]. split; [exact M2|lia].
      + destruct (IH c' (stp + 1) (SPull i Dog) (MPullOpen c i d Dog) OB' Leg' ltac:(lia)) as (ms & M1 & M2 & M3); [cbn; repeat split; auto; lia|exact AccR|].
        exists ms. cbn [base pre app length] in *. split; [exact M1|]. split; [exact M2|lia].
      + destruct (IH c' (stp + 1) (SPull i Horse) (MPullOpen c i d Horse) OB' Leg' ltac:(lia)) as (ms & M1 & M2 & M3); [cbn; repeat split; auto; lia|exact AccR|].
        exists ms. cbn [base pre app length] in *. split; [exact M1|]. split; [exact M2|lia].
      + destruct (IH c' (stp + 1) (SPull i Camel) (MPullOpen c i d Camel) OB' Leg' ltac:(lia)) as (ms & M1 & M2 & M3); [cbn; repeat split; auto; lia|exact AccR|].
        exists ms. cbn [base pre app length] in *. split; [exact M1|]. split; [exact M2|lia].
      + destruct (IH c' (stp + 1) (SPull i Elephant) (MPullOpen c i d Elephant) OB' Leg' ltac:(lia)) as (ms & M1 & M2 & M3); [cbn; repeat split; auto; lia|exact AccR|].
        exists ms. cbn [base pre app length] in *. split; [exact M1|]. split; [exact M2|lia].
    - (* an enemy piece: the first half of a push *)
      assert (o = negb g) as -> by (destruct o, g; cbn in *; congruence).
      rewrite (enemy_not_own c g i d k Ci) in Acc. cbn [orb] in Acc. apply andb_prop in Acc. destruct Acc as [S3 PS]. apply N.ltb_lt in S3.
      assert (spec_next_status c g st i d = SPush i k) as NS.
      { unfold spec_next_status. rewrite Ci, NoPull. replace (negb (Bool.eqb (negb g) g)) with true by (destruct g; reflexivity). reflexivity. }
      rewrite NS in AccR.
      pose proof PS as PS'. unfold push_start_ok in PS'. rewrite Ci in PS'. destruct (dst_of i d) as [t|] eqn:Dd; [|discriminate].
      apply andb_prop in PS'. destruct PS' as [PS1 PS2]. apply andb_prop in PS1. destruct PS1 as [_ Et].
      assert (c t = None) as Ct by (unfold occupied in Et; destruct (c t); [discriminate|reflexivity]).
      apply existsb_exists in PS2. destruct PS2 as [p [Hp Pp]]. destruct (c p) as [[op kp]|] eqn:Cp; [|discriminate].
      apply andb_prop in Pp. destruct Pp as [Pp NF]. apply andb_prop in Pp. destruct Pp as [Op St]. apply eqb_prop in Op. subst op.
      apply negb_true_iff in NF. apply In_nbrs in Hp. destruct Hp as [dq Hdq]. pose proof (dst_opp i dq p Hi Hdq) as Back.
      set (c' := step_board c (i, d)) in *.
      assert (on_board c') as OB' by now apply step_board_on_board. assert (legal_traps c') as Leg' by now apply step_board_legal.
      destruct (IH c' (stp + 1) (SPush i k) (MPushOpen c i d k) OB' Leg' ltac:(lia)) as (ms & M1 & M2 & M3).
      { cbn. repeat split; auto; try lia; eauto. exists p, (opp_dir dq), kp. auto. }
      { exact AccR. }
      exists ms. cbn [base pre app length] in *. split; [exact M1|]. split; [exact M2|lia].
  Qed.

  Theorem T2a_gen : forall l c stp st md, on_board c -> legal_traps c -> stp <= 4 -> mode_ok c g stp st md ->
    accepts c g stp st l = true -> claim g l c stp md.
  Proof.
    induction l as [|[i d] r IH]; intros c stp st md OB Leg H4 MO Acc.
    - (* nothing more to read: close what is open *)
      destruct md as [|cp s d0 k|cp v dv kv]; cbn [mode_ok] in MO.
      + exists []. unfold flatten. cbn [base pre app length flat_map mvs_ok]. split; [reflexivity|]. split; [apply prefix_nil|lia].
      + destruct MO as (_ & _ & _ & Own & _ & _ & _). exists [MSingle s d0]. cbn [base mvs_ok mv_ok pre app]. rewrite Own. split; [reflexivity|].
        split; [exists []; reflexivity|unfold flatten; cbn [flat_map steps_of app length]; lia].
      + destruct MO as (_ & _ & _ & Cv & (t & Dv & Ct) & _ & H13 & (p & dp & kp & Cp & St & Dp & Fp)).
        exists [MPush v dv p dp]. cbn [base mvs_ok mv_ok pre app]. rewrite Cv, Dv, Cp, Dp, St, Fp, N.eqb_refl, eqb_reflx. unfold occupied. rewrite Ct.
        replace (Bool.eqb (negb g) g) with false by (destruct g; reflexivity). split; [reflexivity|].
        split; [exists [(p, dp)]; reflexivity|unfold flatten; cbn [flat_map steps_of app length]; lia].
    - cbn [accepts fst snd] in Acc. apply andb_prop in Acc. destruct Acc as [Acc AccR]. apply andb_prop in Acc. destruct Acc as [S4 Acc].
      apply N.ltb_lt in S4.
      destruct md as [|cp s d0 k|cp v dv kv]; cbn [mode_ok] in MO.
      + (* nothing open *)
        assert (st = SNone) as -> by (destruct MO as [E|(? & ? & _ & [])]; exact E).
        apply (none_case i d r c stp SNone); auto.
      + (* an own single step is open: it becomes a pull, or is committed as a single step *)
        destruct MO as (-> & OBp & Legp & Own & Cps & Ec & H1).
        destruct (own_step_owner cp g s d0 Own) as (k' & t0 & Cps' & D0 & Ct0 & F0). rewrite Cps in Cps'. injection Cps' as <-.
        pose proof (on_board_lt cp s _ OBp Cps) as Hs.
        assert (s <> t0) as Hst0 by (intros E; apply (dst_neq s d0 t0 D0 Hs); now symmetry).
        rewrite (step_board_some cp s d0 t0 D0) in Ec.
        destruct (pull_finish_ok c g (SPull s k) i d) eqn:PF.
        * (* the victim follows: a pull *)
          pose proof PF as PF'. unfold pull_finish_ok in PF'. destruct (c i) as [[o kv]|] eqn:Ci; [|discriminate].
          destruct (dst_of i d) as [t|] eqn:Dd; [|discriminate]. apply andb_prop in PF'. destruct PF' as [PF1 St]. apply andb_prop in PF1. destruct PF1 as [En Et].
          apply N.eqb_eq in Et. subst t. assert (o = negb g) as -> by (apply negb_true_iff in En; destruct o, g; cbn in *; congruence).
          assert (spec_next_status c g (SPull s k) i d = SNone) as NS.
          { unfold spec_next_status. rewrite Ci, PF. replace (negb (Bool.eqb (negb g) g)) with true by (destruct g; reflexivity). reflexivity. }
          rewrite NS in AccR. set (c' := step_board c (i, d)) in *.
          assert (on_board c') as OB' by now apply step_board_on_board. assert (legal_traps c') as Leg' by now apply step_board_legal.
          destruct (IH c' (stp + 1) SNone MNone OB' Leg' ltac:(lia) (or_introl eq_refl) AccR) as (ms & M1 & M2 & M3). cbn [base pre app length] in *.
          (* the victim stood there before the puller moved *)
          assert (cp i = Some (negb g, kv)) as Cpi.
          { apply (own_only_from cp (negb g) s t0 k); [now rewrite negb_involutive|]. rewrite <- Ec. exact Ci. }
          exists (MPull s d0 i d :: ms). cbn [base pre app length mvs_ok mv_ok steps_of run_board fold_left].
          rewrite Own, Cps, Cpi, Dd, N.eqb_refl, St. replace (Bool.eqb (negb g) g) with false by (destruct g; reflexivity). cbn [negb andb].
          rewrite (step_board_some cp s d0 t0 D0), <- Ec. fold c'. rewrite M1. split; [reflexivity|].
          split; [unfold flatten; cbn [flat_map steps_of app]; do 2 apply prefix_cons; exact M2|].
          unfold flatten in *. cbn [flat_map steps_of app length]. lia.
        * (* commit the single step, then read (i, d) with nothing open *)
          assert (claim g ((i, d) :: r) c stp MNone) as (ms & M1 & M2 & M3).
          { apply (none_case i d r c stp (SPull s k)); auto. right. exists s, k. split; [reflexivity|exact PF]. }
          cbn [base pre app length] in *.
          exists (MSingle s d0 :: ms). cbn [base pre app length mvs_ok mv_ok steps_of run_board fold_left]. rewrite Own, (step_board_some cp s d0 t0 D0), <- Ec, M1.
          split; [reflexivity|]. split; [unfold flatten; cbn [flat_map steps_of app]; apply prefix_cons; exact M2|].
          unfold flatten in *. cbn [flat_map steps_of app length]. lia.
      + (* the first half of a push is open: (i, d) completes it *)
        destruct MO as (-> & OBp & Legp & Cv & (t & Dv & Ct) & Ec & H13 & _).
        cbn [spec_move_ok] in Acc. pose proof Acc as PFin. unfold push_finish_ok in PFin.
        destruct (c i) as [[o kp]|] eqn:Ci; [|discriminate]. destruct (dst_of i d) as [t'|] eqn:Dd; [|discriminate].
        apply andb_prop in PFin. destruct PFin as [PF1 NF]. apply andb_prop in PF1. destruct PF1 as [PF1 St]. apply andb_prop in PF1. destruct PF1 as [Oo Et].
        apply eqb_prop in Oo. subst o. apply N.eqb_eq in Et. subst t'. apply negb_true_iff in NF.
        pose proof (on_board_lt cp v _ OBp Cv) as Hv. pose proof (on_board_lt c i _ OB Ci) as Hi. pose proof (dst_lt64 v dv t Hv Dv) as Ht.
        assert (v <> t) as Hvt by (intros E; apply (dst_neq v dv t Dv Hv); now symmetry).
        rewrite (step_board_some cp v dv t Dv) in Ec.
        assert (spec_next_status c g (SPush v kv) i d = SNone) as NS by (unfold spec_next_status; rewrite Ci, eqb_reflx; reflexivity).
        rewrite NS in AccR. set (c' := step_board c (i, d)) in *.
        assert (on_board c') as OB' by now apply step_board_on_board. assert (legal_traps c') as Leg' by now apply step_board_legal.
        destruct (IH c' (stp + 1) SNone MNone OB' Leg' ltac:(lia) (or_introl eq_refl) AccR) as (ms & M1 & M2 & M3). cbn [base pre app length] in *.
        (* the pusher stood there, unfrozen, before the victim moved *)
        assert (cp i = Some (g, kp)) as Cpi by (apply (own_only_from cp g v t kv Cv); rewrite <- Ec; exact Ci).
        assert (frozen cp i = false) as Fpi.
        { destruct (frozen cp i) eqn:F; [|reflexivity]. exfalso.
          assert (frozen c i = true) as X by (rewrite Ec; apply (frozen_kept cp g v t kv Cv Ct Hv Legp i kp Hi (nbrs_of_dst i d v Dd) Cpi St F)).
          congruence. }
        exists (MPush v dv i d :: ms). cbn [base pre app length mvs_ok mv_ok steps_of run_board fold_left].
        rewrite Cv, Dv, Cpi, Dd, N.eqb_refl, St, Fpi, eqb_reflx. unfold occupied at 1. rewrite Ct.
        replace (Bool.eqb (negb g) g) with false by (destruct g; reflexivity). cbn [negb andb].
        rewrite (step_board_some cp v dv t Dv), <- Ec. fold c'. rewrite M1. split; [reflexivity|].
        split; [unfold flatten; cbn [flat_map steps_of app]; do 2 apply prefix_cons; exact M2|].
        unfold flatten in *. cbn [flat_map steps_of app length]. lia.
  Qed.
End T2a.

Lemma accepts_prefix g l r : forall c stp st, accepts c g stp st (l ++ r) = true -> accepts c g stp st l = true.
Proof.
  induction l as [|x l IH]; intros c stp st A; [reflexivity|]. cbn [app accepts] in *.
  apply andb_prop in A. destruct A as [A1 A2]. apply andb_prop in A1. destruct A1 as [A0 A1].
  rewrite A0, A1. cbn [andb]. now apply IH.
Qed.

(* T2: from a position without trap violations, a step sequence is accepted by the automaton from the start of a turn
   iff it is a prefix of the flattening of a sequence of legal moves using at most four steps *)
Theorem T2 c g l : on_board c -> legal_traps c ->
  (accepts c g 0 SNone l = true <->
   exists ms, mvs_ok c g ms = true /\ is_prefix l (flatten ms) /\ (length (flatten ms) <= 4)%nat).
Proof.
  intros OB Leg. split.
  - intros Acc. destruct (T2a_gen g l c 0 SNone MNone OB Leg ltac:(lia) (or_introl eq_refl) Acc) as (ms & M1 & M2 & M3).
    exists ms. cbn [base pre app length] in *. split; [exact M1|]. split; [exact M2|lia].
  - intros (ms & M1 & [r Er] & M3).
    destruct (T2b ms c g 0 SNone OB Leg I M1 ltac:(lia)) as [A _]. rewrite Er in A. now apply (accepts_prefix g l r).
Qed.
