(* T1: the engine's rule-only action list, read on squares, is exactly the step automaton of
   spec/Rules.v (spec_move_ok / spec_pass_ok), without duplicates. *)
From Coq Require Import NArith ZArith List Bool Lia ZifyBool ZifyN.
From Arimaa Require Import Types U64 GenMasks GenEnums GenZobrist Board Zobrist Engine Notation Display Trace Cells Rules Monitors
  Fin XorFold Hash BitLemmas StepLemmas GenLemmas.
Import ListNotations.
Open Scope N_scope.
Ltac Zify.zify_post_hook ::= Z.div_mod_to_equations.
(* keep the kernel from comparing two unfolded 64-way filters (exponential): unfold bits_of last *)
Strategy opaque [bits_of].

Definition status_ok (p : pps) : Prop :=
  match p with PPNone => True | PossiblePull s _ => s < 64 | MustCompletePush s _ => s < 64 end.

(* ---- list helpers ---- *)
Lemma NoDup_app_intro {A} (l1 l2 : list A) :
  NoDup l1 -> NoDup l2 -> (forall x, In x l1 -> ~ In x l2) -> NoDup (l1 ++ l2).
Proof.
  induction l1 as [|a l1 IH]; intros N1 N2 D; [exact N2|]. cbn [app]. inversion N1 as [|? ? Ha N1']; subst.
  constructor.
  - intros H. apply in_app_or in H. destruct H as [H|H]; [contradiction|]. apply (D a); [now left|exact H].
  - apply IH; auto. intros x Hx. apply D. now right.
Qed.

Lemma fold_left_ext_eq {A B} (f g : A -> B -> A) l a : (forall a b, f a b = g a b) -> fold_left f l a = fold_left g l a.
Proof. intros H. revert a. induction l as [|x l IH]; intros a; cbn [fold_left]; [reflexivity|]. now rewrite H, IH. Qed.

Lemma action_eqb_spec a b : reflect (a = b) (action_eqb a b).
Proof.
  destruct a as [k|s d|], b as [k'|s' d'|]; cbn; try (constructor; congruence).
  - destruct (piece_eqb_spec k k'); constructor; congruence.
  - destruct (N.eqb_spec s s'); cbn; [|constructor; congruence].
    destruct (dir_eqb_spec d d'); constructor; congruence.
Qed.

Lemma contains_In l a : contains l a = true <-> In a l.
Proof.
  unfold contains. rewrite existsb_exists. split.
  - intros [x [Hx E]]. destruct (action_eqb_spec a x); [subst; exact Hx|discriminate].
  - intros H. exists a. split; [exact H|]. destruct (action_eqb_spec a a); congruence.
Qed.

Definition add_new (f : dir -> option action) (acc : list action) (d : dir) : list action :=
  match f d with Some a => if contains acc a then acc else acc ++ [a] | None => acc end.

Lemma fold_add_new_In f l acc x :
  In x (fold_left (add_new f) l acc) <-> In x acc \/ exists d, In d l /\ f d = Some x.
Proof.
  revert acc. induction l as [|d l IH]; intros acc; cbn [fold_left].
  - split; [tauto|]. intros [H|[d [[] _]]]. exact H.
  - rewrite IH. unfold add_new. split.
    + intros [H|[d' [H1 H2]]]; [|right; exists d'; split; [now right|exact H2]].
      destruct (f d) as [a|] eqn:E; [|now left].
      destruct (contains acc a) eqn:C; [now left|]. apply in_app_or in H. destruct H as [H|[<-|[]]]; [now left|].
      right. exists d. split; [now left|exact E].
    + intros [H|[d' [[<-|H1] H2]]].
      * left. destruct (f d) as [a|]; [|exact H]. destruct (contains acc a); [exact H|apply in_or_app; now left].
      * left. rewrite H2. destruct (contains acc x) eqn:C; [now apply contains_In|apply in_or_app; right; now left].
      * right. exists d'. split; assumption.
Qed.

Lemma fold_add_new_NoDup f l acc : NoDup acc -> NoDup (fold_left (add_new f) l acc).
Proof.
  revert acc. induction l as [|d l IH]; intros acc H; cbn [fold_left]; [exact H|].
  apply IH. unfold add_new. destruct (f d) as [a|]; [|exact H].
  destruct (contains acc a) eqn:C; [exact H|].
  apply NoDup_app_intro; [exact H|repeat constructor; intros []|].
  intros x Hx [<-|[]]. apply contains_In in Hx. congruence.
Qed.

Lemma NoDup_moves (g : dir -> list N) l :
  (forall d, NoDup (g d)) -> NoDup l -> NoDup (flat_map (fun d => map (fun sq => Move sq d) (g d)) l).
Proof.
  intros Hg. induction l as [|d l IH]; intros ND; [constructor|]. cbn [flat_map].
  inversion ND as [|? ? Hd ND']; subst. apply NoDup_app_intro.
  - apply FinFun.Injective_map_NoDup; [|apply Hg]. intros a b E. now injection E.
  - now apply IH.
  - intros x Hx Hy. apply in_map_iff in Hx. destruct Hx as [sq [<- _]].
    apply in_flat_map in Hy. destruct Hy as [d' [Hd' Hy]]. apply in_map_iff in Hy. destruct Hy as [sq' [E _]].
    injection E as _ <-. contradiction.
Qed.

Lemma In_moves (g : dir -> N) i d :
  In (Move i d) (flat_map (fun d => moves_of (g d) d) DIR_ALL) <-> i < 64 /\ N.testbit (g d) i = true.
Proof.
  split.
  - intros H. apply in_flat_map in H. destruct H as [d' [_ H]]. unfold moves_of in H.
    apply in_map_iff in H. destruct H as [sq [E H]]. injection E as E1 E2. subst sq d'.
    apply (proj1 (In_bits_of _ _)). exact H.
  - intros H. apply in_flat_map. exists d. split; [apply In_DIR_ALL|]. unfold moves_of. apply in_map_iff. exists i.
    split; [reflexivity|]. apply (proj2 (In_bits_of _ _)). exact H.
Qed.

Lemma moves_no_other (g : dir -> N) a :
  In a (flat_map (fun d => moves_of (g d) d) DIR_ALL) -> exists i d, a = Move i d.
Proof.
  intros H. apply in_flat_map in H. destruct H as [d [_ H]]. unfold moves_of in H. apply in_map_iff in H.
  destruct H as [sq [E _]]. exists sq, d. symmetry. exact E.
Qed.

(* ---- single-bit shifts, by sweep ---- *)
Definition single_shift_ok (sq : N) (d : dir) : bool :=
  shift_pieces_in_opp_direction (2 ^ sq) d =? match dst_of sq (opp_dir d) with Some j => 2 ^ j | None => 0 end.
Lemma single_shift_sweep : forallb (fun sq => forallb (single_shift_ok sq) all_dirs_list) sq64 = true.
Proof. vm_compute. reflexivity. Qed.

Lemma shift_opp_single sq d : sq < 64 ->
  shift_pieces_in_opp_direction (sq_as_bit_board sq) d = match dst_of sq (opp_dir d) with Some j => sq_as_bit_board j | None => 0 end.
Proof.
  intros H. pose proof (forall_sq64 _ single_shift_sweep sq H) as S. cbv beta in S.
  pose proof (forall_dirs _ S d) as S'. unfold single_shift_ok in S'. apply N.eqb_eq in S'.
  rewrite sq_bit_eq by exact H. rewrite S'. destruct (dst_of sq (opp_dir d)) as [j|] eqn:E; [|reflexivity].
  symmetry. apply sq_bit_eq. now apply (dst_lt64 sq (opp_dir d)).
Qed.

Definition shift_in_ok (sq : N) (d : dir) : bool :=
  shift_in_direction (2 ^ sq) d =? match dst_of sq d with Some j => 2 ^ j | None => shift_in_direction (2 ^ sq) d end.
Lemma shift_in_sweep : forallb (fun sq => forallb (shift_in_ok sq) all_dirs_list) sq64 = true.
Proof. vm_compute. reflexivity. Qed.
Lemma shift_in_single sq d j : sq < 64 -> dst_of sq d = Some j -> shift_in_direction (sq_as_bit_board sq) d = sq_as_bit_board j.
Proof.
  intros H E. pose proof (forall_sq64 _ shift_in_sweep sq H) as S. cbv beta in S.
  pose proof (forall_dirs _ S d) as S'. unfold shift_in_ok in S'. rewrite E in S'. apply N.eqb_eq in S'.
  rewrite sq_bit_eq by exact H. rewrite S'. symmetry. apply sq_bit_eq. now apply (dst_lt64 sq d).
Qed.
(* off-board shifts never produce a single on-board bit equal to a square: shifting a8 up gives 0, shifting h-file right
   wraps to the next rank's a-file bit; record which squares are hit so that pull completion is exact *)
Definition shift_in_exact (sq : N) (d : dir) : bool :=
  forallb (fun t => Bool.eqb (shift_in_direction (2 ^ sq) d =? 2 ^ t)
                             (match d, dst_of sq d with
                              | _, Some j => j =? t
                              | Right, None => (sq + 1 =? t)       (* h-file wraps to the a-file of the next rank *)
                              | Left, None => (sq =? t + 1)        (* a-file wraps to the h-file of the previous rank *)
                              | _, None => false end)) sq64.
Lemma shift_in_exact_sweep : forallb (fun sq => forallb (shift_in_exact sq) all_dirs_list) sq64 = true.
Proof. vm_compute. reflexivity. Qed.

Lemma land_single x j : j < 64 -> N.land (sq_as_bit_board j) x = if N.testbit x j then sq_as_bit_board j else 0.
Proof.
  intros H. apply N.bits_inj. intros i. rewrite N.land_spec, sq_bit_spec by exact H.
  destruct (N.eqb_spec j i) as [->|Hne].
  - destruct (N.testbit x i) eqn:E; [now rewrite sq_bit_spec, N.eqb_refl|now rewrite N.bits_0].
  - cbn [andb]. destruct (N.testbit x j); [rewrite sq_bit_spec by exact H; symmetry; now apply N.eqb_neq|now rewrite N.bits_0].
Qed.

Lemma sq_bit_nonzero j : j < 64 -> (sq_as_bit_board j =? 0) = false.
Proof. intros H. rewrite sq_bit_eq by exact H. apply N.eqb_neq. apply N.pow_nonzero. discriminate. Qed.

(* ---- membership in the four generators ---- *)
Section Gen.
  Variable s : state.
  Variable pp : play.
  Hypothesis Hph : ph s = PlayPhase pp.
  Let b := board s.
  Hypothesis W : WFb b.
  Let c := cell b.

  Lemma own_moves_In i d :
    In (Move i d) (extend_with_valid_curr_player_piece_moves s b) <-> i < 64 /\ own_step_ok c (side s) i d = true.
  Proof.
    unfold extend_with_valid_curr_player_piece_moves.
    rewrite (In_moves (fun d => N.land (N.land (can_move_in_direction d b) (curr_player_non_frozen_pieces s b)) (bnot (invalid_rabbit_moves s d b))) i d).
    split; intros [Hi H]; split; try exact Hi.
    - rewrite !N.land_spec, bnot_spec, can_move_spec, non_frozen_spec in H by assumption.
      destruct (N.ltb_spec i 64); [|lia]. apply andb_prop in H. destruct H as [H H3]. apply andb_prop in H. destruct H as [H1 H2].
      apply andb_prop in H2. destruct H2 as [H2 H2'].
      rewrite invalid_rabbit_spec in H3 by assumption. cbn [andb] in H3.
      unfold own_step_ok. fold b c. unfold friend_at in H2. fold c in H2, H2', H3, H1.
      destruct (c i) as [[o k]|]; [|discriminate]. destruct (dst_of i d) as [t|]; [|discriminate].
      rewrite eqb_sym, H2, H1, H2'. cbn [andb]. destruct k; try reflexivity. exact H3.
    - unfold own_step_ok in H. fold c in H.
      destruct (c i) as [[o k]|] eqn:Ci; [|discriminate]. destruct (dst_of i d) as [t|] eqn:Ed; [|discriminate].
      apply andb_prop in H. destruct H as [H H4]. apply andb_prop in H. destruct H as [H H3]. apply andb_prop in H. destruct H as [H1 H2].
      assert (friend_at c (side s) i = true) as Fr by (unfold friend_at; rewrite Ci, eqb_sym; exact H1).
      rewrite !N.land_spec, bnot_spec, can_move_spec, non_frozen_spec by assumption.
      rewrite invalid_rabbit_spec by assumption. fold c. rewrite Ed, Fr, H2, H3, Ci. destruct (N.ltb_spec i 64); [|lia].
      cbn [andb]. destruct k; try reflexivity. exact H4.
  Qed.

  Lemma own_moves_NoDup : NoDup (extend_with_valid_curr_player_piece_moves s b).
  Proof.
    unfold extend_with_valid_curr_player_piece_moves, moves_of.
    apply (NoDup_moves (fun d => bits_of _)); [intros; apply NoDup_bits_of|apply NoDup_DIR_ALL].
  Qed.

  Lemma push_moves_In i d :
    In (Move i d) (extend_with_push_piece_actions s b) <->
    i < 64 /\ is_mcp (pstate pp) = false /\ step_of pp < 3 /\ push_start_ok c (side s) i d = true.
  Proof.
    unfold extend_with_push_piece_actions, as_play_phase. rewrite Hph.
    set (thr := threatened_pieces (curr_player_non_frozen_pieces s b) (opponent_piece_mask s b) b).
    assert (Hthr: forall j, j < 64 -> N.testbit thr j =
              match c j with
              | Some (o, k) => negb (Bool.eqb o (side s)) &&
                  existsb (fun n => match c n with Some (o', k') => Bool.eqb o' (side s) && stronger k' k && negb (frozen c n) | None => false end) (nbrs j)
              | None => false end).
    { intros j Hj. unfold thr. rewrite threatened_spec; [|exact W|exact Hj|].
      2:{ intros n Hn. destruct (N.lt_ge_cases n 64) as [Hn64|Hn64].
          - rewrite non_frozen_spec in Hn by assumption. apply andb_prop in Hn. destruct Hn as [Hn _].
            unfold friend_at in Hn. unfold occupied. destruct (cell b n); [reflexivity|discriminate].
          - rewrite (wf64_high _ n (non_frozen_wf64 s b W) Hn64) in Hn. discriminate. }
      rewrite opp_mask_spec by assumption. unfold friend_at. fold c. destruct (c j) as [[o k]|]; [|reflexivity].
      f_equal; [destruct (side s), o; reflexivity|].
      apply existsb_ext_in. intros n Hn. rewrite non_frozen_spec by (try exact W; now apply (nbrs_lt64 j)).
      unfold friend_at. fold c. destruct (c n) as [[o' k']|]; [|reflexivity].
      rewrite (eqb_sym (side s) o'). destruct (Bool.eqb o' (side s)), (stronger k' k), (frozen c n); reflexivity. }
    destruct (is_mcp (pstate pp)) eqn:M; cbn [negb andb].
    { split; [intros []|intros (_ & X & _); discriminate]. }
    destruct (N.ltb_spec (step_of pp) 3) as [H3|H3].
    2:{ split; [intros []|intros (_ & _ & X & _); lia]. }
    assert (In (Move i d) (flat_map (fun d0 => moves_of (N.land (can_move_in_direction d0 b) thr) d0) DIR_ALL) <->
            i < 64 /\ push_start_ok c (side s) i d = true) as Core.
    { rewrite (In_moves (fun d0 => N.land (can_move_in_direction d0 b) thr) i d).
      split; intros [Hi H]; split; try exact Hi.
      - rewrite N.land_spec, can_move_spec, Hthr in H by assumption. fold c in H. unfold push_start_ok.
        destruct (c i) as [[o k]|]; [|now rewrite andb_false_r in H]. destruct (dst_of i d) as [t|]; [|discriminate].
        apply andb_prop in H. destruct H as [H1 H2]. apply andb_prop in H2. destruct H2 as [H2 H2']. now rewrite H1, H2, H2'.
      - unfold push_start_ok in H. rewrite N.land_spec, can_move_spec, Hthr by assumption. fold c.
        destruct (c i) as [[o k]|]; [|discriminate]. destruct (dst_of i d) as [t|]; [|discriminate].
        apply andb_prop in H. destruct H as [H H3']. apply andb_prop in H. destruct H as [H1 H2]. now rewrite H1, H2, H3'. }
    destruct (thr =? 0) eqn:Z; cbn [negb].
    - split; [intros []|]. intros (Hi & _ & _ & H). exfalso. apply N.eqb_eq in Z.
      assert (i < 64 /\ push_start_ok c (side s) i d = true) as X by tauto. apply Core in X.
      apply (In_moves (fun d0 => N.land (can_move_in_direction d0 b) thr) i d) in X. destruct X as [_ X].
      rewrite N.land_spec, Z, N.bits_0, andb_false_r in X. discriminate.
    - rewrite Core. tauto.
  Qed.

  Lemma push_moves_NoDup : NoDup (extend_with_push_piece_actions s b).
  Proof.
    unfold extend_with_push_piece_actions, as_play_phase. rewrite Hph.
    destruct (negb (is_mcp (pstate pp)) && (step_of pp <? 3)); [|constructor].
    match goal with |- context [if ?c then _ else _] => destruct c end; [|constructor].
    unfold moves_of. apply (NoDup_moves (fun d => bits_of _)); [intros; apply NoDup_bits_of|apply NoDup_DIR_ALL].
  Qed.

  Lemma push_moves_only a : In a (extend_with_push_piece_actions s b) -> exists i d, a = Move i d.
  Proof.
    unfold extend_with_push_piece_actions, as_play_phase. rewrite Hph.
    destruct (negb (is_mcp (pstate pp)) && (step_of pp <? 3)); [|intros []].
    match goal with |- context [if ?c then _ else _] => destruct c end; [|intros []].
    apply moves_no_other.
  Qed.

  (* the pull generator *)
  Definition pull_cand (sq : N) (k : piece) (d : dir) : option action :=
    let lesser := N.land (lesser_pieces k b) (opponent_piece_mask s b) in
    let bit := sq_as_bit_board sq in
    if negb (N.land (shift_pieces_in_direction lesser d) bit =? 0)
    then Some (Move (sq_from_bit_board (shift_pieces_in_opp_direction bit d)) d) else None.

  Lemma pull_fold_eq sq k acc : pstate pp = PossiblePull sq k ->
    extend_with_pull_piece_actions s b acc = fold_left (add_new (pull_cand sq k)) DIR_ALL acc.
  Proof.
    intros E. unfold extend_with_pull_piece_actions, as_play_phase. rewrite Hph, E.
    apply fold_left_ext_eq. intros a d. unfold add_new, pull_cand. cbv zeta.
    destruct (negb (N.land (shift_pieces_in_direction (N.land (lesser_pieces k b) (opponent_piece_mask s b)) d) (sq_as_bit_board sq) =? 0)); reflexivity.
  Qed.

  Lemma pull_cand_spec sq k d x : sq < 64 ->
    pull_cand sq k d = Some x <->
    exists j, x = Move j d /\ j < 64 /\ dst_of j d = Some sq /\
              match c j with Some (o, k') => negb (Bool.eqb o (side s)) && stronger k k' | None => false end = true.
  Proof.
    intros Hsq. unfold pull_cand. cbv zeta. rewrite land_bit_zero, negb_involutive by exact Hsq.
    rewrite sp_dir_spec by exact Hsq. rewrite shift_opp_single by exact Hsq. unfold from_sq, opt_p.
    destruct (dst_of sq (opp_dir d)) as [j|] eqn:E.
    - pose proof (dst_lt64 sq (opp_dir d) j Hsq E) as Hj.
      pose proof (dst_opp sq (opp_dir d) j Hsq E) as Eback. replace (opp_dir (opp_dir d)) with d in Eback by (destruct d; reflexivity).
      rewrite sq_from_bit by exact Hj. rewrite N.land_spec, lesser_spec, opp_mask_spec by assumption.
      unfold friend_at. fold c.
      assert (match c j with Some (_, k') => stronger k k' | None => false end && match c j with Some (o', _) => Bool.eqb (negb (side s)) o' | None => false end
              = match c j with Some (o, k') => negb (Bool.eqb o (side s)) && stronger k k' | None => false end) as R.
      { destruct (c j) as [[o k']|]; [|reflexivity]. destruct (side s), o, (stronger k k'); reflexivity. }
      rewrite R. split.
      + destruct (match c j with Some (o, k') => negb (Bool.eqb o (side s)) && stronger k k' | None => false end) eqn:V; [|discriminate].
        intros [= <-]. exists j. auto.
      + intros [j' (-> & Hj' & Ed & V)].
        assert (j' = j) as ->.
        { pose proof (dst_opp j' d sq Hj' Ed) as X. rewrite E in X. now injection X. }
        now rewrite V.
    - split; [discriminate|]. intros [j' (_ & Hj' & Ed & _)]. pose proof (dst_opp j' d sq Hj' Ed) as X. rewrite E in X. discriminate.
  Qed.

  Lemma pull_moves_In sq k acc x : pstate pp = PossiblePull sq k -> sq < 64 ->
    In x (extend_with_pull_piece_actions s b acc) <->
    In x acc \/ exists j d, x = Move j d /\ j < 64 /\ pull_finish_ok c (side s) (SPull sq k) j d = true.
  Proof.
    intros E Hsq. rewrite (pull_fold_eq sq k acc E), fold_add_new_In. split; (intros [H|H]; [now left|right]).
    - destruct H as [d [_ H]]. apply pull_cand_spec in H; [|exact Hsq]. destruct H as [j (-> & Hj & Ed & V)].
      exists j, d. split; [reflexivity|split; [exact Hj|]]. unfold pull_finish_ok. rewrite Ed.
      destruct (c j) as [[o k']|]; [|discriminate]. now rewrite N.eqb_refl, andb_true_r.
    - destruct H as [j [d (-> & Hj & V)]]. exists d. split; [apply In_DIR_ALL|]. apply pull_cand_spec; [exact Hsq|].
      exists j. split; [reflexivity|split; [exact Hj|]]. unfold pull_finish_ok in V.
      destruct (c j) as [[o k']|]; [|discriminate]. destruct (dst_of j d) as [t|]; [|discriminate].
      apply andb_prop in V. destruct V as [V V3]. apply andb_prop in V. destruct V as [V1 V2]. apply N.eqb_eq in V2. subst t.
      split; [reflexivity|]. now rewrite V1, V3.
  Qed.

  Lemma pull_moves_none acc : (forall sq k, pstate pp <> PossiblePull sq k) -> extend_with_pull_piece_actions s b acc = acc.
  Proof.
    intros H. unfold extend_with_pull_piece_actions, as_play_phase. rewrite Hph.
    destruct (pstate pp) as [|sq k|sq k]; try reflexivity. exfalso. now apply (H sq k).
  Qed.

  Lemma pull_moves_NoDup acc : NoDup acc -> NoDup (extend_with_pull_piece_actions s b acc).
  Proof.
    intros H. unfold extend_with_pull_piece_actions, as_play_phase. rewrite Hph.
    destruct (pstate pp) as [|sq k|sq k] eqn:E; try exact H.
    pose proof (pull_fold_eq sq k acc E) as F. unfold extend_with_pull_piece_actions, as_play_phase in F. rewrite Hph, E in F.
    rewrite F. now apply fold_add_new_NoDup.
  Qed.

  (* completion of a pending push *)
  Lemma mcp_In sq k i d : pstate pp = MustCompletePush sq k -> sq < 64 ->
    In (Move i d) (must_complete_push_actions s b) <-> i < 64 /\ push_finish_ok c (side s) sq k i d = true.
  Proof.
    intros E Hsq. unfold must_complete_push_actions, unwrap_play_phase. rewrite Hph, E. rewrite in_flat_map.
    assert (forall d0, (let pbit := N.land (shift_pieces_in_opp_direction (sq_as_bit_board sq) d0) (curr_player_non_frozen_pieces s b) in
                        if negb (pbit =? 0) && piece_gtb (piece_type_at_bit pbit b) k then [Move (sq_from_bit_board pbit) d0] else [])
                       = match dst_of sq (opp_dir d0) with
                         | Some j => if push_finish_ok c (side s) sq k j d0 then [Move j d0] else []
                         | None => [] end) as Body.
    { intros d0. cbv zeta. rewrite shift_opp_single by exact Hsq.
      destruct (dst_of sq (opp_dir d0)) as [j|] eqn:Ed; [|rewrite N.land_0_l; reflexivity].
      pose proof (dst_lt64 sq (opp_dir d0) j Hsq Ed) as Hj.
      pose proof (dst_opp sq (opp_dir d0) j Hsq Ed) as Eback. replace (opp_dir (opp_dir d0)) with d0 in Eback by (destruct d0; reflexivity).
      rewrite land_single by exact Hj. rewrite non_frozen_spec by assumption. unfold push_finish_ok. fold c. rewrite Eback, N.eqb_refl.
      unfold friend_at. fold c. destruct (c j) as [[o k']|] eqn:Cj; [|reflexivity].
      rewrite (eqb_sym (side s) o). destruct (Bool.eqb o (side s)); cbn [andb]; [|reflexivity].
      destruct (frozen c j); cbn [negb andb]; [now rewrite andb_false_r|].
      rewrite sq_bit_nonzero by exact Hj. cbn [negb andb]. rewrite (piece_type_at_bit_spec b j o k' W Hj Cj), piece_gtb_stronger, andb_true_r.
      destruct (stronger k' k); [now rewrite sq_from_bit|reflexivity]. }
    split.
    - intros [d0 [_ H]]. rewrite Body in H. destruct (dst_of sq (opp_dir d0)) as [j|] eqn:Ed; [|destruct H].
      destruct (push_finish_ok c (side s) sq k j d0) eqn:V; [|destruct H]. destruct H as [H|[]]. injection H as -> ->.
      split; [now apply (dst_lt64 sq (opp_dir d))|exact V].
    - intros [Hi V]. exists d. split; [apply In_DIR_ALL|]. rewrite Body.
      assert (dst_of i d = Some sq) as Ed.
      { unfold push_finish_ok in V. destruct (c i) as [[o k']|]; [|discriminate]. destruct (dst_of i d) as [t|]; [|discriminate].
        apply andb_prop in V. destruct V as [V _]. apply andb_prop in V. destruct V as [V _]. apply andb_prop in V. destruct V as [_ V].
        apply N.eqb_eq in V. now subst. }
      rewrite (dst_opp i d sq Hi Ed), V. now left.
  Qed.

  Lemma mcp_only a : In a (must_complete_push_actions s b) -> exists i d, a = Move i d.
  Proof.
    unfold must_complete_push_actions. destruct (pstate (unwrap_play_phase s)); try (intros []).
    rewrite in_flat_map. intros [d [_ H]]. cbv zeta in H.
    match type of H with In _ (if ?c then _ else _) => destruct c end; [|destruct H]. destruct H as [<-|[]]. eauto.
  Qed.

  Lemma mcp_NoDup : NoDup (must_complete_push_actions s b).
  Proof.
    unfold must_complete_push_actions. destruct (pstate (unwrap_play_phase s)); try constructor.
    assert (forall l (f : dir -> list action), NoDup l -> (forall d, f d = [] \/ exists i, f d = [Move i d]) -> NoDup (flat_map f l)) as G.
    { induction l as [|d l IH]; intros f ND Hf; [constructor|]. cbn [flat_map]. inversion ND as [|? ? Hd ND']; subst.
      apply NoDup_app_intro; [destruct (Hf d) as [->|[i ->]]; repeat constructor; intros []|now apply IH|].
      intros x Hx Hy. destruct (Hf d) as [E|[i E]]; rewrite E in Hx; [destruct Hx|]. destruct Hx as [<-|[]].
      apply in_flat_map in Hy. destruct Hy as [d' [Hd' Hy]]. destruct (Hf d') as [E'|[i' E']]; rewrite E' in Hy; [destruct Hy|].
      destruct Hy as [Hy|[]]. injection Hy as _ ->. contradiction. }
    apply G; [apply NoDup_DIR_ALL|]. intros d. cbv zeta.
    match goal with |- context [if ?c then _ else _] => destruct c end; [right; eauto|now left].
  Qed.
End Gen.

(* ---- T1: the rule-only list on squares ---- *)
Lemma sstatus_mcp p : is_mcp p = match sstatus_of p with SPush _ _ => true | _ => false end.
Proof. destruct p; reflexivity. Qed.

Lemma can_pass_norep s pp : ph s = PlayPhase pp -> can_pass s false = spec_pass_ok (step_of pp) (sstatus_of (pstate pp)).
Proof.
  intros H. unfold can_pass, as_play_phase, spec_pass_ok. rewrite H. cbn [negb orb]. rewrite andb_true_r, sstatus_mcp.
  destruct (sstatus_of (pstate pp)); reflexivity.
Qed.

Lemma valid_norep_unfold s pp : ph s = PlayPhase pp ->
  valid_actions_no_rep s =
  if is_mcp (pstate pp) then must_complete_push_actions s (board s)
  else let v := extend_with_pull_piece_actions s (board s) (extend_with_push_piece_actions s (board s))
                ++ extend_with_valid_curr_player_piece_moves s (board s) in
       if can_pass s false then v ++ [Pass] else v.
Proof. intros H. unfold valid_actions_no_rep, valid_actions_. rewrite H. reflexivity. Qed.

Section T1.
  Variable s : state.
  Variable pp : play.
  Hypothesis Hph : ph s = PlayPhase pp.
  Hypothesis W : WFb (board s).
  Hypothesis Hst : status_ok (pstate pp).
  Let c := cell (board s).
  Let st := sstatus_of (pstate pp).

  Lemma enemy_of_push i d : push_start_ok c (side s) i d = true -> friend_at c (side s) i = false.
  Proof.
    unfold push_start_ok, friend_at. destruct (c i) as [[o k]|]; [|discriminate]. destruct (dst_of i d); [|discriminate].
    intros H. apply andb_prop in H. destruct H as [H _]. apply andb_prop in H. destruct H as [H _].
    rewrite eqb_sym. now apply negb_true_iff.
  Qed.
  Lemma enemy_of_pull st0 i d : pull_finish_ok c (side s) st0 i d = true -> friend_at c (side s) i = false.
  Proof.
    unfold pull_finish_ok, friend_at. destruct st0; try discriminate. destruct (c i) as [[o k']|]; [|discriminate]. destruct (dst_of i d); [|discriminate].
    intros H. apply andb_prop in H. destruct H as [H _]. apply andb_prop in H. destruct H as [H _].
    rewrite eqb_sym. now apply negb_true_iff.
  Qed.
  Lemma friend_of_own i d : own_step_ok c (side s) i d = true -> friend_at c (side s) i = true.
  Proof.
    unfold own_step_ok, friend_at. destruct (c i) as [[o k]|]; [|discriminate]. destruct (dst_of i d); [|discriminate].
    intros H. apply andb_prop in H. destruct H as [H _]. apply andb_prop in H. destruct H as [H _]. apply andb_prop in H. destruct H as [H _].
    now rewrite eqb_sym.
  Qed.

  (* membership in the push+pull segment *)
  Lemma pp_segment_In x :
    In x (extend_with_pull_piece_actions s (board s) (extend_with_push_piece_actions s (board s))) <->
    exists i d, x = Move i d /\ i < 64 /\
      ((is_mcp (pstate pp) = false /\ step_of pp < 3 /\ push_start_ok c (side s) i d = true) \/ pull_finish_ok c (side s) st i d = true).
  Proof.
    destruct (pstate pp) as [|sq k|sq k] eqn:E.
    - rewrite (pull_moves_none s pp Hph) by (intros ? ?; rewrite E; discriminate). split.
      + intros H. destruct (push_moves_only s pp Hph x H) as [i [d ->]]. apply (push_moves_In s pp Hph W) in H. rewrite E in H.
        exists i, d. split; [reflexivity|]. split; [tauto|]. left. tauto.
      + intros [i [d (-> & Hi & [H|H])]]; [|unfold st in H; cbn in H; discriminate].
        apply (push_moves_In s pp Hph W). rewrite E. tauto.
    - rewrite (pull_moves_In s pp Hph W sq k _ x E) by exact Hst. unfold st. cbn [sstatus_of]. split.
      + intros [H|[j [d (-> & Hj & V)]]]; [|exists j, d; tauto].
        destruct (push_moves_only s pp Hph x H) as [i [d ->]]. apply (push_moves_In s pp Hph W) in H. rewrite E in H.
        exists i, d. split; [reflexivity|]. split; [tauto|]. left. tauto.
      + intros [i [d (-> & Hi & [H|H])]]; [left|right; exists i, d; tauto].
        apply (push_moves_In s pp Hph W). rewrite E. tauto.
    - rewrite (pull_moves_none s pp Hph) by (intros ? ?; rewrite E; discriminate). split.
      + intros H. destruct (push_moves_only s pp Hph x H) as [i [d ->]]. apply (push_moves_In s pp Hph W) in H. rewrite E in H.
        destruct H as (_ & X & _). discriminate.
      + intros [i [d (-> & Hi & [H|H])]]; [destruct H as (X & _); discriminate|unfold st in H; cbn in H; discriminate].
  Qed.

  Theorem T1_move i d :
    In (Move i d) (valid_actions_no_rep s) <-> i < 64 /\ spec_move_ok c (side s) (step_of pp) st i d = true.
  Proof.
    rewrite (valid_norep_unfold s pp Hph). unfold spec_move_ok. fold st. pose proof (sstatus_mcp (pstate pp)) as M. fold st in M.
    destruct (is_mcp (pstate pp)) eqn:Em.
    - destruct (pstate pp) as [|sq k|sq k] eqn:E; try discriminate. unfold st. cbn [sstatus_of].
      apply (mcp_In s pp Hph W sq k i d E). exact Hst.
    - assert (match st with SPush _ _ => False | _ => True end) as NotPush by (destruct st; try exact I; discriminate).
      cbv zeta.
      assert (In (Move i d) (extend_with_pull_piece_actions s (board s) (extend_with_push_piece_actions s (board s))
                              ++ extend_with_valid_curr_player_piece_moves s (board s))
              <-> i < 64 /\ (own_step_ok c (side s) i d || pull_finish_ok c (side s) st i d || (step_of pp <? 3) && push_start_ok c (side s) i d) = true) as Core.
      { rewrite in_app_iff, pp_segment_In, (own_moves_In s W). fold c. split.
        - intros [[i' [d' (E & Hi & H)]]|[Hi H]].
          + injection E as <- <-. split; [exact Hi|]. destruct H as [(_ & H3 & H)|H].
            * rewrite H. apply N.ltb_lt in H3. rewrite H3. now rewrite !orb_true_r.
            * rewrite H. now rewrite orb_true_r.
          + split; [exact Hi|]. now rewrite H.
        - intros [Hi H]. apply orb_prop in H. destruct H as [H|H]; [apply orb_prop in H; destruct H as [H|H]|].
          + right. tauto.
          + left. exists i, d. tauto.
          + apply andb_prop in H. destruct H as [H3 H]. apply N.ltb_lt in H3. left. exists i, d. split; [reflexivity|]. split; [exact Hi|]. left. tauto. }
      destruct st; try contradiction.
      + destruct (can_pass s false); [rewrite in_app_iff|]; rewrite Core; [|tauto]. split; [intros [H|[H|[]]]; [exact H|discriminate]|tauto].
      + destruct (can_pass s false); [rewrite in_app_iff|]; rewrite Core; [|tauto]. split; [intros [H|[H|[]]]; [exact H|discriminate]|tauto].
  Qed.

  Lemma moves_only_segment x :
    In x (extend_with_pull_piece_actions s (board s) (extend_with_push_piece_actions s (board s))
          ++ extend_with_valid_curr_player_piece_moves s (board s)) -> exists i d, x = Move i d.
  Proof.
    intros H. apply in_app_or in H. destruct H as [H|H].
    - apply pp_segment_In in H. destruct H as [i [d [-> _]]]. eauto.
    - unfold extend_with_valid_curr_player_piece_moves in H. now apply moves_no_other in H.
  Qed.

  Theorem T1_pass : In Pass (valid_actions_no_rep s) <-> spec_pass_ok (step_of pp) st = true.
  Proof.
    rewrite (valid_norep_unfold s pp Hph). pose proof (can_pass_norep s pp Hph) as CP. fold st in CP.
    pose proof (sstatus_mcp (pstate pp)) as M. fold st in M.
    destruct (is_mcp (pstate pp)) eqn:Em.
    - split.
      + intros H. apply (mcp_only s) in H. destruct H as [i [d H]]. discriminate.
      + unfold spec_pass_ok. destruct st; try discriminate. now rewrite andb_false_r.
    - cbv zeta. rewrite CP. destruct (spec_pass_ok (step_of pp) st).
      + split; [reflexivity|]. intros _. apply in_or_app. right. now left.
      + split; [|discriminate]. intros H. apply moves_only_segment in H. destruct H as [i [d H]]. discriminate.
  Qed.

  Theorem T1_no_place k : ~ In (Place k) (valid_actions_no_rep s).
  Proof.
    rewrite (valid_norep_unfold s pp Hph). destruct (is_mcp (pstate pp)).
    - intros H. apply (mcp_only s) in H. destruct H as [i [d H]]. discriminate.
    - cbv zeta. intros H.
      assert (In (Place k) (extend_with_pull_piece_actions s (board s) (extend_with_push_piece_actions s (board s))
                            ++ extend_with_valid_curr_player_piece_moves s (board s))) as H'.
      { destruct (can_pass s false); [|exact H]. apply in_app_or in H. destruct H as [H|[H|[]]]; [exact H|discriminate]. }
      apply moves_only_segment in H'. destruct H' as [i [d H']]. discriminate.
  Qed.

  Theorem T1_NoDup : NoDup (valid_actions_no_rep s).
  Proof.
    rewrite (valid_norep_unfold s pp Hph). destruct (is_mcp (pstate pp)); [apply mcp_NoDup|]. cbv zeta.
    assert (NoDup (extend_with_pull_piece_actions s (board s) (extend_with_push_piece_actions s (board s))
                   ++ extend_with_valid_curr_player_piece_moves s (board s))) as ND.
    { apply NoDup_app_intro.
      - apply (pull_moves_NoDup s pp Hph). apply (push_moves_NoDup s pp Hph).
      - apply own_moves_NoDup.
      - intros x Hx Hy. apply pp_segment_In in Hx. destruct Hx as [i [d (-> & Hi & H)]].
        apply (own_moves_In s W) in Hy. destruct Hy as [_ Hy]. apply friend_of_own in Hy.
        destruct H as [(_ & _ & H)|H]; [apply enemy_of_push in H|apply enemy_of_pull in H]; congruence. }
    destruct (can_pass s false); [|exact ND]. apply NoDup_app_intro; [exact ND|repeat constructor; intros []|].
    intros x Hx [<-|[]]. apply moves_only_segment in Hx. destruct Hx as [i [d Hx]]. discriminate.
  Qed.
End T1.
