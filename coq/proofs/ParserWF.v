(* Every state the (repaired) diagram parser returns is a start position: well-formed board, step 0, nothing pending,
   from-scratch hash, history = [hash] - for ARBITRARY accepted text, not only for printed diagrams. *)
From Coq Require Import NArith ZArith List Bool Lia ZifyBool ZifyN.
From Arimaa Require Import Types U64 GenMasks GenEnums GenUnicode GenZobrist Board Zobrist Engine Notation Display Trace Cells Rules Monitors
  Fin BitLemmas StepLemmas GenLemmas HashSens Invariant HashInv Setup Reach DiagramLemmas.
Import ListNotations.
Open Scope N_scope.

Lemma fold_enum_inv {A B} (f : A -> N * B -> A) (P : N -> A -> Prop) :
  (forall j x a, P j a -> P (j + 1) (f a (j, x))) ->
  forall l i a, P i a -> P (i + N.of_nat (length l)) (fold_left f (enumerate_from i l) a).
Proof.
  intros Step l. induction l as [|x l IH]; intros i a H.
  - cbn. now rewrite N.add_0_r.
  - cbn [enumerate_from fold_left length]. replace (i + N.of_nat (S (length l))) with ((i + 1) + N.of_nat (length l)) by lia.
    apply IH. now apply Step.
Qed.

Definition kinds_of (a : acc7) : list N := [a_e a; a_m a; a_h a; a_d a; a_c a; a_r a].

(* all bits set so far lie below B (and on the board); the six kind words are pairwise disjoint; gold bits are piece bits *)
Definition acc_inv (B : N) (a : acc7) : Prop :=
  a_oob a = true \/
  ((forall w i, In w (a_p1 a :: kinds_of a) -> N.testbit w i = true -> i < B /\ i < 64) /\
   (forall i, (count_true (map (fun w => N.testbit w i) (kinds_of a)) <= 1)%nat) /\
   (forall i, N.testbit (a_p1 a) i = true -> existsb (fun w => N.testbit w i) (kinds_of a) = true)).

Definition bound (row col : N) : N := row * 8 + N.min col 8.

Lemma acc_inv_mono B B' a : B <= B' -> acc_inv B a -> acc_inv B' a.
Proof.
  intros H [O|(I1 & I2 & I3)]; [now left|right]. split; [|split; assumption].
  intros w i Hw Hb. destruct (I1 w i Hw Hb). split; lia.
Qed.

Lemma lor_bit x n i : N.testbit (N.lor x (2 ^ n)) i = N.testbit x i || (n =? i).
Proof. now rewrite N.lor_spec, N.pow2_bits_eqb. Qed.

Lemma scan_cell_inv row col ch a : acc_inv (bound row col) a -> acc_inv (bound row (col + 1)) (scan_cell row col ch a).
Proof.
  intros H. unfold scan_cell. destruct (assoc ch diagram_piece_of_letter_table) as [k|].
  2:{ apply (acc_inv_mono (bound row col)); [unfold bound; lia|exact H]. }
  destruct H as [O|(I1 & I2 & I3)]; [left; cbn [a_oob]; now rewrite O|].
  change BOARD_WIDTH with 8. change BOARD_HEIGHT with 8.
  destruct (N.leb_spec 8 row) as [Hr|Hr]; [left; cbn [a_oob]; now rewrite orb_true_r|].
  destruct (N.leb_spec 8 col) as [Hc|Hc]; [left; cbn [a_oob]; now rewrite orb_true_r|].
  right. set (idx := (row * 8 + col) mod 256).
  assert (idx = row * 8 + col) as Ei by (unfold idx; apply N.mod_small; lia).
  assert (idx < 64) as Hi by lia.
  assert (bound row col = idx) as Bi by (unfold bound; lia).
  assert (bound row (col + 1) = idx + 1) as Bi' by (unfold bound; lia).
  rewrite (sq_bit_eq idx Hi).
  assert (forall w, In w (a_p1 a :: kinds_of a) -> N.testbit w idx = false) as Fresh.
  { intros w Hw. destruct (N.testbit w idx) eqn:E; [|reflexivity]. destruct (I1 w idx Hw E). lia. }
  unfold acc_inv, kinds_of; simpl a_p1; simpl a_e; simpl a_m; simpl a_h; simpl a_d; simpl a_c; simpl a_r.
  assert (forall (c : bool) w n, N.testbit (if c then N.lor w (2 ^ idx) else w) n = N.testbit w n || (c && (idx =? n))) as LB.
  { intros [] w n; [apply lor_bit|now rewrite orb_false_r]. }
  split; [|split].
  - intros w i Hw Hb. rewrite Bi'.
    assert (i = idx \/ (exists w0, In w0 (a_p1 a :: kinds_of a) /\ N.testbit w0 i = true)) as [->|(w0 & H0 & B0)]; [|lia|destruct (I1 w0 i H0 B0); lia].
    cbn [In kinds_of] in Hw.
    repeat (destruct Hw as [<-|Hw];
            [rewrite LB in Hb; apply orb_prop in Hb; destruct Hb as [Hb|Hb];
             [right; eexists; split; [|exact Hb]; cbn [In kinds_of]; tauto
             |apply andb_prop in Hb; destruct Hb as [_ Hb]; apply N.eqb_eq in Hb; now left]|]).
    contradiction.
  - intros i. cbn [map]. rewrite !LB.
    destruct (N.eqb_spec idx i) as [<-|Hne].
    + rewrite !(Fresh _) by (cbn [In kinds_of]; tauto). rewrite !andb_true_r. cbn [orb]. destruct k; cbn; lia.
    + rewrite !andb_false_r, !orb_false_r. apply I2.
  - intros i. rewrite LB. cbn [existsb]. rewrite !LB. intros Hb.
    destruct (N.eqb_spec idx i) as [E|Hne].
    + rewrite !andb_true_r. destruct k; cbn; now rewrite ?orb_true_r.
    + rewrite !andb_false_r, !orb_false_r in *. specialize (I3 i Hb). cbn [existsb kinds_of] in I3. rewrite orb_false_r in I3. exact I3.
Qed.

Lemma row_inv row line a : acc_inv (bound row 0) a ->
  acc_inv (bound (row + 1) 0)
    (fold_left (fun a cc => scan_cell row (fst cc) (snd cc) a) (enumerate_from 0 (odd_elems line)) a).
Proof.
  intros H.
  pose proof (fold_enum_inv (fun a (cc : N * N) => scan_cell row (fst cc) (snd cc) a) (fun col a => acc_inv (bound row col) a)
                (fun j x a Hj => scan_cell_inv row j x a Hj) (odd_elems line) 0 a H) as R.
  apply (acc_inv_mono (bound row (0 + N.of_nat (length (odd_elems line))))); [unfold bound; lia|exact R].
Qed.

Lemma scan_board_inv lines : acc_inv (bound (N.of_nat (length lines)) 0) (scan_board lines).
Proof.
  unfold scan_board.
  pose proof (fold_enum_inv (fun a (rl : N * text) => fold_left (fun a cc => scan_cell (fst rl) (fst cc) (snd cc) a) (enumerate_from 0 (odd_elems (snd rl))) a)
                (fun row a => acc_inv (bound row 0) a)
                (fun j x a Hj => row_inv j x a Hj) lines 0 (mkacc 0 0 0 0 0 0 0 false false)) as R.
  rewrite N.add_0_l in R. apply R. right. split; [|split].
  - intros w i Hw Hb. cbn in Hw. repeat (destruct Hw as [<-|Hw]; [rewrite N.bits_0 in Hb; discriminate|]). contradiction.
  - intros i. unfold kinds_of. cbn [a_e a_m a_h a_d a_c a_r map]. rewrite N.bits_0. cbn. lia.
  - intros i Hb. cbn [a_p1] in Hb. rewrite N.bits_0 in Hb. discriminate.
Qed.

Theorem scan_board_WFb lines : a_oob (scan_board lines) = false ->
  let a := scan_board lines in WFb (pb_new (a_p1 a) (a_e a) (a_m a) (a_h a) (a_d a) (a_c a) (a_r a)).
Proof.
  intros NoOob. cbv zeta. destruct (scan_board_inv lines) as [O|(I1 & I2 & I3)]; [congruence|].
  set (a := scan_board lines) in *.
  assert (forall w, In w (a_p1 a :: kinds_of a) -> wf64 w) as Wf.
  { intros w Hw. apply wf64_of_bits. intros i Hi. destruct (N.testbit w i) eqn:E; [|reflexivity]. destruct (I1 w i Hw E). lia. }
  unfold pb_new. split.
  - intros w Hw. cbn [words p1 allp el ca ho dg ct rb In] in Hw.
    assert (forall x, In x (a_p1 a :: kinds_of a) -> wf64 x) as Wf' by exact Wf.
    destruct Hw as [<-|[<-|Hw]]; [apply Wf; cbn [In kinds_of]; tauto| |apply Wf; cbn [In kinds_of]; tauto].
    repeat apply lor_wf64; apply Wf; cbn [In kinds_of]; tauto.
  - intros i. unfold wf_at. cbn [p1 allp el ca ho dg ct rb]. rewrite !N.lor_spec.
    specialize (I2 i). specialize (I3 i). cbn [map kinds_of existsb] in I2, I3.
    destruct (N.testbit (a_e a) i), (N.testbit (a_m a) i), (N.testbit (a_h a) i), (N.testbit (a_d a) i), (N.testbit (a_c a) i),
      (N.testbit (a_r a) i); cbn in I2; try lia; cbn [orb Bool.eqb andb count_true filter length Nat.leb];
      destruct (N.testbit (a_p1 a) i); cbn [implb]; try reflexivity; specialize (I3 eq_refl); discriminate.
Qed.

(* C15 / Reach: whatever text the parser accepts, the result is a start position *)
Theorem parse_start t s : parse_state_fixed t = Ok s -> StartPosition s.
Proof.
  unfold parse_state_fixed. cbv zeta.
  match goal with |- context [header_match ?x] => destruct (header_match x) as [[ds c]|] end.
  - destruct (parse_usize ds) as [v|]; [|discriminate].
    destruct (a_oob (scan_board (odd_elems (split_on 124 t)))) eqn:O; [discriminate|]. intros [= <-].
    unfold state_of_parse. eexists. cbn [ph hash board side]. split; [reflexivity|]. split; [reflexivity|]. split; [|reflexivity].
    now apply scan_board_WFb.
  - destruct (a_oob (scan_board (odd_elems (split_on 124 t)))) eqn:O; [discriminate|]. intros [= <-].
    unfold state_of_parse. eexists. cbn [ph hash board side]. split; [reflexivity|]. split; [reflexivity|]. split; [|reflexivity].
    now apply scan_board_WFb.
Qed.
