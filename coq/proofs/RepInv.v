(* C05 / C08-history: the repetition bookkeeping against the EXACT turn-start positions (ghost history). *)
From Coq Require Import NArith ZArith List Bool Lia ZifyBool ZifyN.
From Arimaa Require Import Types U64 GenMasks GenEnums GenZobrist Board Zobrist Engine Notation Display Trace Cells Rules Monitors
  Fin XorFold Hash HashSens BitLemmas StepLemmas GenLemmas Refine Invariant TurnLemmas HashInv Live Setup Reach.
Import ListNotations.
Open Scope N_scope.
Strategy opaque [bits_of].

(* a turn-start position: board and side to move *)
Definition pos := (pbs * bool)%type.
Definition hpos (x : pos) : N := z_from_piece_board (fst x) (snd x) 0.
Definition beq (b b' : pbs) : Prop := forall i, i < 64 -> cell b i = cell b' i.
Definition peq (x y : pos) : Prop := beq (fst x) (fst y) /\ snd x = snd y.

Lemma beq_hash b b' sd stp : WFb b -> WFb b' -> beq b b' -> z_from_piece_board b sd stp = z_from_piece_board b' sd stp.
Proof. intros W W' E. rewrite !from_scratch_eq by assumption. f_equal. now apply board_part_ext. Qed.

(* decidable form of peq *)
Definition peqb (x y : pos) : bool :=
  forallb (fun i => cell_eqb (cell (fst x) i) (cell (fst y) i)) sq64 && Bool.eqb (snd x) (snd y).

Lemma cell_eqb_refl (x : option (bool * piece)) : cell_eqb x x = true.
Proof. destruct x as [[[] []]|]; reflexivity. Qed.

Lemma peqb_true x y : peq x y -> peqb x y = true.
Proof.
  intros [A B]. unfold peqb. apply andb_true_intro. split.
  - apply forallb_forall. intros i Hi. apply In_sq64 in Hi. rewrite (A i Hi). apply cell_eqb_refl.
  - rewrite B. destruct (snd y); reflexivity.
Qed.

Lemma peqb_peq x y : peqb x y = true -> peq x y.
Proof.
  unfold peqb. intros H. apply andb_prop in H. destruct H as [A B]. split.
  - intros i Hi. apply cell_eqb_eq. exact (forall_sq64 _ A i Hi).
  - now apply eqb_prop.
Qed.


(* ghost: G = exact turn-start positions since the last capture (newest first, reset at a capture);
          b0 = the board at the start of the current turn *)
Record RepInv (s : state) (pp : play) (G : list pos) (b0 : pbs) : Prop := {
  ri_hash : HashInv s pp;
  ri_b0 : WFb b0;
  ri_init : init_hash pp = z_from_piece_board b0 (side s) 0;
  ri_hist : hist pp = map hpos G;
  ri_trapped : trapped pp = true -> G = [];
  ri_G : Forall (fun x => WFb (fst x)) G;
}.

Definition ghost_next (s : state) (pp : play) (G : list pos) (b0 : pbs) (a : action) : list pos * pbs :=
  match a with
  | Move i d =>
    let nb := fst (pb_take_move (board s) i d) in
    let was := snd (pb_take_move (board s) i d) in
    let G1 := if was then [] else G in
    if 3 <=? step_of pp then ((nb, negb (side s)) :: G1, nb) else (G1, b0)
  | Pass => ((board s, negb (side s)) :: G, board s)
  | Place _ => (G, b0)
  end.

Theorem rep_start s : StartPosition s -> exists pp, RepInv s pp [(board s, side s)] (board s).
Proof.
  intros Hs. destruct (start_inv s Hs) as [pp [H E]]. destruct Hs as (h & P & Hh & W & Hf).
  pose proof (inv_phase s pp (hi_play s pp H)) as P'. rewrite P in P'. injection P' as <-.
  exists (play_initial h [h]). constructor; cbn [init_hash hist trapped play_initial map hpos fst snd]; auto.
  - now rewrite Hh.
  - now rewrite Hh, Hf.
  - discriminate.
Qed.

Lemma move_fields_last s pp i d : ph s = PlayPhase pp -> 3 <= step_of pp ->
  let s' := take_action s (Move i d) in
  side s' = negb (side s) /\ board s' = fst (pb_take_move (board s) i d) /\
  ph s' = PlayPhase (play_initial (hash s') (hash s' :: (if snd (pb_take_move (board s) i d) then [] else hist pp))).
Proof.
  intros Hph H3. cbv zeta. cbn [take_action]. rewrite (move_piece_unfold s pp i d Hph). cbv zeta.
  assert ((3 <=? step_of pp) = true) as L by (apply N.leb_le; exact H3). rewrite L. cbn [side board ph hash]. auto.
Qed.

Lemma move_fields_mid s pp i d : ph s = PlayPhase pp -> step_of pp < 3 ->
  let s' := take_action s (Move i d) in
  side s' = side s /\ board s' = fst (pb_take_move (board s) i d) /\
  exists pp', ph s' = PlayPhase pp' /\ init_hash pp' = init_hash pp /\
              hist pp' = (if snd (pb_take_move (board s) i d) then [] else hist pp) /\
              trapped pp' = trapped pp || snd (pb_take_move (board s) i d).
Proof.
  intros Hph H3. cbv zeta. cbn [take_action]. rewrite (move_piece_unfold s pp i d Hph). cbv zeta.
  assert ((3 <=? step_of pp) = false) as L by (apply N.leb_gt; exact H3). rewrite L. cbn [side board ph hash].
  split; [reflexivity|]. split; [reflexivity|]. eexists. split; [reflexivity|]. cbn [init_hash hist trapped]. auto.
Qed.

Lemma pass_fields s pp : ph s = PlayPhase pp ->
  let s' := take_action s Pass in
  side s' = negb (side s) /\ board s' = board s /\
  ph s' = PlayPhase (play_initial (hash s') (hash s' :: (if trapped pp then [] else hist pp))).
Proof.
  intros Hph. cbv zeta. cbn [take_action]. unfold pass, unwrap_play_phase. rewrite Hph. cbn [side board ph hash]. auto.
Qed.

Lemma play_initial_step h l : step_of (play_initial h l) = 0.
Proof. reflexivity. Qed.

Theorem rep_preserved s pp G b0 a : RepInv s pp G b0 -> In a (valid_actions_no_rep s) ->
  exists pp', RepInv (take_action s a) pp' (fst (ghost_next s pp G b0 a)) (snd (ghost_next s pp G b0 a)).
Proof.
  intros [HI Wb0 Hin Hh Htr HG] Off. destruct (hash_preserved s pp a HI Off) as [pp' HI']. exists pp'.
  pose proof (hi_play s pp HI) as Inv. pose proof (inv_phase s pp Inv) as Hph. pose proof (inv_board s pp Inv) as W.
  pose proof (inv_phase _ pp' (hi_play _ pp' HI')) as Hph'. pose proof (hi_hash _ pp' HI') as Hhash'.
  destruct a as [k|i d|].
  - exfalso. destruct Inv as [H1 H2 _ _ H5]. now apply (T1_no_place s pp H1 H2 (status_inv_ok _ _ _ H5) k).
  - pose proof (offered_move_pre s pp i d Inv Off) as [Hi (t & o & k & Hd & Hc & Ht)].
    pose proof (take_move_WFb (board s) i d t W Hi Hd Ht) as Wn.
    cbn [ghost_next]. cbv zeta. change (take_action s (Move i d)) with (move_piece s i d) in *.
    destruct (N.leb_spec 3 (step_of pp)) as [L|L]; cbn [fst snd].
    + destruct (move_fields_last s pp i d Hph L) as (F1 & F2 & F3). change (take_action s (Move i d)) with (move_piece s i d) in *. rewrite F3 in Hph'. injection Hph' as <-.
      rewrite play_initial_step, F1, F2 in Hhash'.
      constructor; cbn [init_hash hist trapped play_initial]; auto.
      * now rewrite F1.
      * cbn [map hpos fst snd]. rewrite Hhash'. f_equal. destruct (snd (pb_take_move (board s) i d)); [reflexivity|exact Hh].
      * discriminate.
      * constructor; [exact Wn|]. destruct (snd (pb_take_move (board s) i d)); [constructor|exact HG].
    + destruct (move_fields_mid s pp i d Hph L) as (F1 & F2 & pp2 & F3 & F4 & F5 & F6). change (take_action s (Move i d)) with (move_piece s i d) in *. rewrite F3 in Hph'. injection Hph' as <-.
      constructor; auto.
      * now rewrite F4, F1.
      * rewrite F5. destruct (snd (pb_take_move (board s) i d)); [reflexivity|exact Hh].
      * rewrite F6. intros T. destruct (snd (pb_take_move (board s) i d)); [reflexivity|]. rewrite orb_false_r in T. auto.
      * destruct (snd (pb_take_move (board s) i d)); [constructor|exact HG].
  - destruct (pass_fields s pp Hph) as (F1 & F2 & F3). change (take_action s Pass) with (pass s) in *. rewrite F3 in Hph'. injection Hph' as <-.
    rewrite play_initial_step, F1, F2 in Hhash'. cbn [ghost_next fst snd].
    constructor; cbn [init_hash hist trapped play_initial]; auto.
    + cbn [map hpos fst snd]. change (z_pass (hash s) (current_step s)) with (hash (pass s)). rewrite Hhash'. f_equal.
      destruct (trapped pp) eqn:T; [rewrite (Htr eq_refl); reflexivity|exact Hh].
    + discriminate.
Qed.

(* ---- what the engine's test implies on exact boards ---- *)
Lemma count_hash_map (h : N) (G : list pos) : count_hash h (map hpos G) = length (filter (fun x => h =? hpos x) G).
Proof. unfold count_hash. induction G as [|x G IH]; [reflexivity|]. cbn [map filter]. destruct (h =? hpos x); cbn [length]; now rewrite IH. Qed.

(* every position of G that is cell-equal to (nb, sd) has the hash of (nb, sd): the engine sees at least those *)
Lemma exact_le_hash (f : pos -> bool) nb sd G : WFb nb -> Forall (fun x => WFb (fst x)) G ->
  (forall x, In x G -> f x = true -> peq x (nb, sd)) ->
  (length (filter f G) <= count_hash (z_from_piece_board nb sd 0) (map hpos G))%nat.
Proof.
  intros Wn HG Hf. rewrite count_hash_map. induction G as [|x G IH]; [apply le_n|].
  inversion HG as [|? ? Wx HG']; subst. cbn [filter].
  assert (length (filter f G) <= length (filter (fun x0 => (z_from_piece_board nb sd 0 =? hpos x0)%N) G))%nat as IH'
    by (apply IH; [exact HG'|intros y Hy; apply Hf; now right]).
  destruct (f x) eqn:Fx.
  - destruct (Hf x (or_introl eq_refl) Fx) as [E1 E2]. cbn [fst snd] in E1, E2.
    assert (z_from_piece_board nb sd 0 =? hpos x = true) as ->.
    { apply N.eqb_eq. unfold hpos. rewrite E2. symmetry. now apply beq_hash. }
    cbn [length]. lia.
  - destruct (z_from_piece_board nb sd 0 =? hpos x); cbn [length]; lia.
Qed.

Section TurnEnd.
  Variable s : state.
  Variable pp : play.
  Variable G : list pos.
  Variable b0 : pbs.
  Hypothesis RI : RepInv s pp G b0.

  Let Inv : PlayInv s pp := hi_play s pp (ri_hash s pp G b0 RI).

  (* C05 for a pass offered by the repetition-checked list *)
  Theorem pass_changes_board : In Pass (valid_actions s) ->
    ~ beq (board s) b0 /\
    forall f, (forall x, In x G -> f x = true -> peq x (board s, negb (side s))) -> (length (filter f G) <= 1)%nat.
  Proof.
    intros Off. apply (can_pass_rep_iff s pp Inv) in Off.
    pose proof (ri_hash s pp G b0 RI) as HI. pose proof (inv_board s pp Inv) as W.
    unfold can_pass, as_play_phase in Off. rewrite (inv_phase s pp Inv) in Off. cbn [negb orb] in Off.
    apply andb_prop in Off. destruct Off as [_ Off]. apply andb_prop in Off. destruct Off as [O1 O2].
    rewrite (hi_hash s pp HI) in O1, O2. rewrite z_exclude_step_spec in O1 by exact W. rewrite z_pass_spec in O2 by exact W.
    rewrite (ri_init s pp G b0 RI) in O1. rewrite (ri_hist s pp G b0 RI) in O2.
    split.
    - intros E. apply negb_true_iff, N.eqb_neq in O1. apply O1. symmetry. apply beq_hash; [exact W|exact (ri_b0 s pp G b0 RI)|exact E].
    - intros f Hf. apply negb_true_iff in O2. unfold hash_history_contains_hash_twice in O2. apply Nat.leb_gt in O2.
      pose proof (exact_le_hash f (board s) (negb (side s)) G W (ri_G s pp G b0 RI) Hf). lia.
  Qed.

  (* C05 for a fourth step offered by the repetition-checked list, when no capture happened earlier in the turn *)
  Theorem fourth_step_changes_board i d : In (Move i d) (valid_actions s) -> 3 <= step_of pp -> trapped pp = false ->
    let nb := board (take_action s (Move i d)) in
    ~ beq nb b0 /\
    forall f, (forall x, In x G -> f x = true -> peq x (nb, negb (side s))) -> (length (filter f G) <= 1)%nat.
  Proof.
    intros Off H3 T. cbv zeta.
    pose proof (ri_hash s pp G b0 RI) as HI. pose proof (inv_board s pp Inv) as W. pose proof (inv_phase s pp Inv) as Hph.
    pose proof (inv_step s pp Inv) as Hs3. assert (step_of pp = 3) as S3 by lia.
    rewrite (valid_is_filter s pp Inv) in Off. apply filter_In in Off. destruct Off as [OffN K].
    pose proof (offered_move_pre s pp i d Inv OffN) as [Hi (t & o & k & Hd & Hc & Ht)].
    pose proof (take_move_WFb (board s) i d t W Hi Hd Ht) as Wn.
    unfold keep, rep_active, not_pl in K. rewrite S3, T in K. cbn [N.eqb Pos.eqb negb andb orb] in K.
    apply negb_true_iff in K. unfold is_passing_like_action, current_step, unwrap_play_phase in K. rewrite Hph in K.
    apply orb_false_iff in K. destruct K as [K1 K2].
    rewrite (hi_hash s pp HI) in K1, K2. rewrite !z_move_piece_spec in K1, K2 by assumption.
    rewrite (ri_init s pp G b0 RI) in K1. rewrite (ri_hist s pp G b0 RI) in K2.
    assert (board (take_action s (Move i d)) = fst (pb_take_move (board s) i d)) as Eb.
    { cbn [take_action]. rewrite (move_piece_unfold s pp i d Hph). reflexivity. }
    rewrite Eb. split.
    - intros E. apply N.eqb_neq in K1. apply K1. apply beq_hash; [exact Wn|exact (ri_b0 s pp G b0 RI)|exact E].
    - intros f Hf. unfold hash_history_contains_hash_twice in K2. apply Nat.leb_gt in K2.
      pose proof (exact_le_hash f _ (negb (side s)) G Wn (ri_G s pp G b0 RI) Hf). lia.
  Qed.
End TurnEnd.

(* ---- reachable states carry the ghost invariant ---- *)
Inductive ReachG : state -> list pos -> pbs -> Prop :=
| RG_start s : StartPosition s -> ReachG s [(board s, side s)] (board s)
| RG_step s pp G b0 a : ReachG s G b0 -> ph s = PlayPhase pp -> In a (valid_actions_no_rep s) ->
    ReachG (take_action s a) (fst (ghost_next s pp G b0 a)) (snd (ghost_next s pp G b0 a)).

Theorem reachG_inv s G b0 : ReachG s G b0 -> exists pp, RepInv s pp G b0.
Proof.
  induction 1 as [s Hs|s pp G b0 a R IH P Off].
  - now apply rep_start.
  - destruct IH as [pp0 RI]. pose proof (inv_phase s pp0 (hi_play s pp0 (ri_hash s pp0 G b0 RI))) as P0.
    rewrite P in P0. injection P0 as <-. now apply (rep_preserved s pp G b0 a).
Qed.

(* C08: the recorded hashes are the from-scratch hashes of the exact turn-start positions *)
Theorem history_hashes s G b0 pp : ReachG s G b0 -> ph s = PlayPhase pp ->
  hist pp = map hpos G /\ init_hash pp = z_from_piece_board b0 (side s) 0.
Proof.
  intros R P. destruct (reachG_inv s G b0 R) as [pp0 RI].
  pose proof (inv_phase s pp0 (hi_play s pp0 (ri_hash s pp0 G b0 RI))) as P0. rewrite P in P0. injection P0 as <-.
  split; [exact (ri_hist s pp G b0 RI)|exact (ri_init s pp G b0 RI)].
Qed.
