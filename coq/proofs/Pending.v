(* C12, last clause: while a push is pending at least one completion is offered.  Displacing the victim can neither
   capture nor freeze its pusher: the pusher's friends are untouched (an enemy step removes no friendly piece from a
   position without trap violations) and the only new neighbour it could get is the victim, which is weaker. *)
From Coq Require Import NArith ZArith List Bool Lia ZifyBool ZifyN.
From Arimaa Require Import Types U64 GenMasks GenEnums GenZobrist Board Zobrist Engine Safety Notation Display Trace Cells Rules Monitors
  Fin XorFold Hash BitLemmas StepLemmas GenLemmas Refine Invariant TurnLemmas Live Traps SafetyProof.
Import ListNotations.
Open Scope N_scope.
Strategy opaque [bits_of].

Section EnemyStep.
  Variable c : cellf.
  Variable m : bool.                     (* the mover *)
  Variables v t : N.                     (* the enemy piece on v is displaced to the empty square t *)
  Variable kv : piece.
  Hypothesis Hv : c v = Some (negb m, kv).
  Hypothesis Ht : c t = None.
  Hypothesis Hvt : v <> t.
  Hypothesis Leg : legal_traps c.
  Let c1 := moved c v t.
  Let c' := after_captures c1.

  Lemma friend_moved_enemy n : friend_at c1 m n = friend_at c m n.
  Proof.
    unfold friend_at, c1, moved. destruct (N.eqb_spec n t) as [->|].
    - rewrite Hv, Ht. destruct m; reflexivity.
    - destruct (N.eqb_spec n v) as [->|]; [rewrite Hv; destruct m; reflexivity|reflexivity].
  Qed.

  (* no friendly piece disappears *)
  Lemma own_kept j k : j < 64 -> c j = Some (m, k) -> c' j = Some (m, k).
  Proof.
    intros Hj Cj. assert (j <> v) by (intros ->; rewrite Hv in Cj; injection Cj as E _; destruct m; discriminate).
    assert (j <> t) by (intros ->; rewrite Ht in Cj; discriminate).
    assert (c1 j = Some (m, k)) as C1 by (unfold c1, moved; destruct (N.eqb_spec j t); [contradiction|]; destruct (N.eqb_spec j v); [contradiction|exact Cj]).
    unfold c', after_captures. assert (unsupported_on_trap c1 j = false) as U.
    { pose proof (Leg j Hj) as L. unfold unsupported_on_trap in *. rewrite C1. rewrite Cj in L. unfold has_friend_nbr in *.
      rewrite (existsb_ext_in (friend_at c1 m) (friend_at c m) (nbrs j)) by (intros n _; apply friend_moved_enemy). exact L. }
    now rewrite U.
  Qed.

  Lemma own_only_from j k : c' j = Some (m, k) -> c j = Some (m, k).
  Proof.
    unfold c', after_captures. destruct (unsupported_on_trap c1 j); [discriminate|]. unfold c1, moved.
    destruct (N.eqb_spec j t) as [->|]; [rewrite Hv; intros [= E _]; destruct m; discriminate|].
    destruct (N.eqb_spec j v); [discriminate|auto].
  Qed.

  Lemma friend_after n : n < 64 -> friend_at c' m n = friend_at c m n.
  Proof.
    intros Hn. unfold friend_at. destruct (c n) as [[o k]|] eqn:Cn.
    - destruct (Bool.eqb m o) eqn:E.
      + apply eqb_prop in E. subst o. rewrite (own_kept n k Hn Cn). now rewrite eqb_reflx.
      + destruct (c' n) as [[o' k']|] eqn:C'n; [|reflexivity]. destruct (Bool.eqb m o') eqn:E'; [|reflexivity].
        apply eqb_prop in E'. subst o'. apply own_only_from in C'n. rewrite Cn in C'n. injection C'n as -> _. now rewrite eqb_reflx in E.
    - destruct (c' n) as [[o' k']|] eqn:C'n; [|reflexivity]. destruct (Bool.eqb m o') eqn:E'; [|reflexivity].
      apply eqb_prop in E'. subst o'. apply own_only_from in C'n. congruence.
  Qed.

  (* a pusher stronger than the victim that was unfrozen stays unfrozen *)
  Lemma pusher_not_frozen p kp : p < 64 -> c p = Some (m, kp) -> stronger kp kv = true -> frozen c p = false -> frozen c' p = false.
  Proof.
    intros Hp Cp St Fr. unfold frozen in *. rewrite (own_kept p kp Hp Cp). rewrite Cp in Fr.
    assert (has_friend_nbr c' m p = has_friend_nbr c m p) as HF.
    { unfold has_friend_nbr. apply existsb_ext_in. intros n Hn. apply friend_after. now apply (nbrs_lt64 p). }
    rewrite HF. destruct (has_friend_nbr c m p); [now rewrite andb_false_r in *|]. rewrite andb_true_r in *.
    apply not_true_iff_false. intros E. apply not_true_iff_false in Fr. apply Fr.
    unfold has_stronger_enemy_nbr in *. apply existsb_exists in E. destruct E as [n [Hn En]].
    apply existsb_exists. exists n. split; [exact Hn|].
    unfold c', after_captures in En. destruct (unsupported_on_trap c1 n); [discriminate|]. unfold c1, moved in En.
    destruct (N.eqb_spec n t) as [->|].
    - (* the displaced victim: weaker than the pusher *)
      rewrite Hv in En. apply andb_prop in En. destruct En as [_ En].
      exfalso. destruct kp, kv; cbn in St, En; discriminate.
    - destruct (N.eqb_spec n v); [discriminate|exact En].
  Qed.
End EnemyStep.

(* the invariant: a pending push always has a completion *)
Definition pending_ok (s : state) (pp : play) : Prop :=
  match pstate pp with
  | MustCompletePush sq k => exists i d, i < 64 /\ push_finish_ok (cell (board s)) (side s) sq k i d = true
  | _ => True
  end.

Theorem pending_preserved s pp i d : PlayInv s pp -> legal_traps (cell (board s)) -> In (Move i d) (valid_actions_no_rep s) ->
  step_of pp < 3 -> move_no s < P64 ->
  exists pp', ph (take_action s (Move i d)) = PlayPhase pp' /\ pending_ok (take_action s (Move i d)) pp'.
Proof.
  intros Inv Leg Off H3 Hm.
  pose proof (offered_move_pre s pp i d Inv Off) as [Hi (t & o & k & Hd & Hc & Ht)].
  pose proof (step_mid s pp i d (inv_phase s pp Inv) H3 Hm) as (S1 & _ & pp' & P1 & _ & _ & _ & P5). cbv zeta in *.
  exists pp'. split; [exact P1|]. unfold pending_ok. rewrite P5.
  destruct (next_push_pull_state s i d) as [|sq k'|sq k'] eqn:En; try exact I.
  pose proof (next_status_spec s pp i d t o k Inv Hi Hd Hc) as NS. rewrite En in NS. cbn [sstatus_of] in NS.
  unfold spec_next_status in NS. rewrite Hc in NS.
  destruct (negb (Bool.eqb o (side s))) eqn:Enemy.
  2:{ destruct (sstatus_of (pstate pp)); try discriminate; destruct k; discriminate. }
  destruct (pull_finish_ok (cell (board s)) (side s) (sstatus_of (pstate pp)) i d) eqn:PF; [discriminate|].
  injection NS as -> ->.
  (* the step was offered as the first half of a push *)
  pose proof Inv as [Hph W _ _ Hst].
  pose proof Off as Off'. apply (T1_move s pp Hph W (status_inv_ok _ _ _ Hst)) in Off'. destruct Off' as [_ Off'].
  assert (o = negb (side s)) as -> by (apply negb_true_iff in Enemy; destruct o, (side s); cbn in *; congruence).
  assert (push_start_ok (cell (board s)) (side s) i d = true) as PS.
  { unfold spec_move_ok in Off'. destruct (sstatus_of (pstate pp)) eqn:Es.
    - apply orb_prop in Off'. destruct Off' as [Off'|Off']; [apply orb_prop in Off'; destruct Off' as [Off'|Off']|apply andb_prop in Off'; tauto].
      + unfold own_step_ok in Off'. rewrite Hc, Hd in Off'. destruct (side s); discriminate.
      + congruence.
    - apply orb_prop in Off'. destruct Off' as [Off'|Off']; [apply orb_prop in Off'; destruct Off' as [Off'|Off']|apply andb_prop in Off'; tauto].
      + unfold own_step_ok in Off'. rewrite Hc, Hd in Off'. destruct (side s); discriminate.
      + congruence.
    - unfold push_finish_ok in Off'. rewrite Hc, Hd in Off'. destruct (side s); discriminate. }
  unfold push_start_ok in PS. rewrite Hc, Hd in PS. apply andb_prop in PS. destruct PS as [_ PS].
  apply existsb_exists in PS. destruct PS as [p [Hp PS]].
  destruct (cell (board s) p) as [[o' kp]|] eqn:Cp; [|discriminate].
  apply andb_prop in PS. destruct PS as [PS NF]. apply andb_prop in PS. destruct PS as [Own St].
  apply eqb_prop in Own. subst o'. apply negb_true_iff in NF.
  assert (p < 64) as Hp64 by now apply (nbrs_lt64 i).
  apply In_nbrs in Hp. destruct Hp as [dp Hdp]. pose proof (dst_opp i dp p Hi Hdp) as Back.
  exists p, (opp_dir dp). split; [exact Hp64|].
  (* the board after the step, on cells *)
  assert (i <> t) as Hit by (intros E; apply (dst_neq i d t Hd Hi); now symmetry).
  assert (forall j, j < 64 -> cell (board (take_action s (Move i d))) j = after_captures (moved (cell (board s)) i t) j) as After.
  { intros j Hj. cbn [take_action]. rewrite (move_piece_unfold s pp i d Hph). cbv zeta. cbn [board]. now apply take_move_cell. }
  unfold push_finish_ok. rewrite S1, Back, N.eqb_refl.
  rewrite (After p Hp64).
  rewrite (own_kept (cell (board s)) (side s) i t k Hc Ht Leg p kp Hp64 Cp).
  rewrite eqb_reflx, St. cbn [andb].
  apply negb_true_iff.
  assert (frozen (cell (board (take_action s (Move i d)))) p = frozen (after_captures (moved (cell (board s)) i t)) p) as FE.
  { unfold frozen. rewrite (After p Hp64). destruct (after_captures (moved (cell (board s)) i t) p) as [[o2 k2]|]; [|reflexivity].
    f_equal.
    - unfold has_stronger_enemy_nbr. apply existsb_ext_in. intros n Hn. now rewrite (After n (nbrs_lt64 p n Hp64 Hn)).
    - f_equal. unfold has_friend_nbr. apply existsb_ext_in. intros n Hn. unfold friend_at. now rewrite (After n (nbrs_lt64 p n Hp64 Hn)). }
  rewrite FE. now apply (pusher_not_frozen (cell (board s)) (side s) i t k Hc Ht Leg p kp).
Qed.

(* C12: while a push is pending the rule-only list is non-empty *)
Theorem pending_nonempty s pp sq k : PlayInv s pp -> pstate pp = MustCompletePush sq k -> pending_ok s pp ->
  valid_actions_no_rep s <> [].
Proof.
  intros Inv E P. unfold pending_ok in P. rewrite E in P. destruct P as (i & d & Hi & V).
  destruct Inv as [H1 H2 H3 H4 H5].
  assert (In (Move i d) (valid_actions_no_rep s)) as X.
  { apply (T1_move s pp H1 H2 (status_inv_ok _ _ _ H5)). rewrite E. cbn [sstatus_of spec_move_ok]. tauto. }
  intros Z. rewrite Z in X. destruct X.
Qed.

(* ---- along every game from the initial state or from a legal start position ---- *)
From Arimaa Require Import HashSens HashInv Setup Reach.

Inductive ReachL : state -> Prop :=
| RL_initial : ReachL initial
| RL_position s : StartPosition s -> legal_traps (cell (board s)) -> ReachL s
| RL_step s a : ReachL s -> In a (valid_actions_no_rep s) -> move_no s + 1 < P64 -> ReachL (take_action s a).

Definition shape_no_trap (n : N) : bool := N.land (shape_all n) TRAP_MASK =? 0.
Lemma shapes_no_trap : forallb shape_no_trap (idx32 ++ [32]) = true.
Proof. vm_compute. reflexivity. Qed.

Lemma setup_end_legal s k : SetupInv s 31 -> legal_traps (cell (board (place s k))).
Proof.
  intros Inv j Hj. unfold unsupported_on_trap. destruct (is_trap j) eqn:T; [|reflexivity]. cbn [andb].
  (* the finished setup occupies exactly the four home ranks: shape 32 *)
  pose proof (shape_facts 31 (si_n s 31 Inv)) as F. unfold shape_ok in F. cbv zeta in F.
  repeat (apply andb_prop in F; destruct F as [F ?]).
  assert (allp (board (place s k)) = shape_all 32) as A.
  { rewrite (place_board s k (si_wf s 31 Inv)). cbv zeta. cbn [allp]. rewrite (place_bit s 31 Inv), sq_bit_eq by (apply (Ht64 s 31 Inv)).
    rewrite (si_all s 31 Inv). symmetry.
    match goal with H : (shape_all (31 + 1) =? _) = true |- _ => apply N.eqb_eq in H; exact H end. }
  assert (N.testbit (allp (board (place s k))) j = false) as Z.
  { rewrite A. pose proof shapes_no_trap as S. rewrite forallb_forall in S.
    assert (In 32 (idx32 ++ [32])) as I32 by (apply in_or_app; right; now left).
    specialize (S 32 I32). unfold shape_no_trap in S. apply N.eqb_eq in S.
    assert (N.testbit (N.land (shape_all 32) TRAP_MASK) j = false) as B by (rewrite S; apply N.bits_0).
    rewrite N.land_spec, TRAP_spec, T in B. destruct (N.ltb_spec j 64); [|lia]. now rewrite !andb_true_r in B. }
  unfold cell. now rewrite Z.
Qed.

Theorem reachL_inv s : ReachL s ->
  (exists n, SetupInv s n) \/ (exists pp, PlayInv s pp /\ legal_traps (cell (board s)) /\ pending_ok s pp).
Proof.
  induction 1 as [|s Hs HL|s a Hr IH Ha Hm].
  - left. exists 0. exact setup_initial.
  - right. destruct (start_inv s Hs) as [pp [H _]]. exists pp. split; [exact (hi_play s pp H)|]. split; [exact HL|].
    destruct Hs as (h & P & _). pose proof (inv_phase s pp (hi_play s pp H)) as P'. rewrite P in P'. injection P' as <-. exact I.
  - destruct IH as [[n Inv]|[pp (Inv & Leg & Pend)]].
    + unfold valid_actions_no_rep, valid_actions_ in Ha. rewrite (si_phase s n Inv) in Ha.
      destruct (valid_placement_only s a Ha) as [k ->]. cbn [take_action].
      destruct (N.eq_dec n 31) as [E|E].
      * right. subst n. destruct (place_last s 31 k Inv eq_refl) as (h & P & _ & _ & _ & HI). exists (play_initial h [h]).
        split; [exact (hi_play _ _ HI)|]. split; [now apply setup_end_legal|exact I].
      * left. exists (n + 1). now apply place_next.
    + right. pose proof (inv_phase s pp Inv) as Hph. destruct a as [k|i d|].
      * exfalso. destruct Inv as [H1 H2 _ _ H5]. now apply (T1_no_place s pp H1 H2 (status_inv_ok _ _ _ H5) k).
      * destruct (move_preserves s pp i d Inv Ha) as [pp' Inv']. exists pp'. split; [exact Inv'|]. split; [now apply (step_settles s pp)|].
        destruct (N.lt_ge_cases (step_of pp) 3) as [L|L].
        -- destruct (pending_preserved s pp i d Inv Leg Ha L ltac:(lia)) as (pp2 & P2 & Pd).
           pose proof (inv_phase _ pp' Inv') as P'. rewrite P2 in P'. injection P' as <-. exact Pd.
        -- destruct (step_last s pp i d Hph L Hm) as (_ & _ & h & l & P2 & _). cbv zeta in P2.
           pose proof (inv_phase _ pp' Inv') as P'. rewrite P2 in P'. injection P' as <-. exact I.
      * destruct (pass_preserves s pp Inv Ha) as [pp' Inv']. exists pp'. split; [exact Inv'|].
        destruct (pass_turn s pp Hph Hm) as (_ & _ & B & h & l & P2 & _). cbv zeta in *. split; [now rewrite B|].
        pose proof (inv_phase _ pp' Inv') as P'. rewrite P2 in P'. injection P' as <-. exact I.
Qed.

(* C12: in every reachable mid-turn state with a push pending the rule-only list is non-empty *)
Theorem reach_pending_nonempty s pp sq k : ReachL s -> ph s = PlayPhase pp -> pstate pp = MustCompletePush sq k ->
  valid_actions_no_rep s <> [].
Proof.
  intros R P E. destruct (reachL_inv s R) as [[n Inv]|[pp0 (Inv & _ & Pd)]].
  - rewrite (si_phase s n Inv) in P. discriminate.
  - pose proof (inv_phase s pp0 Inv) as P0. rewrite P in P0. injection P0 as <-. now apply (pending_nonempty s pp sq k).
Qed.

(* C01: every state inside a turn can be continued to a complete legal turn: either a pass is offered now, or the
   pending push has a completion after which the turn is over (fourth step) or a pass is offered *)
Theorem completable s pp : PlayInv s pp -> pending_ok s pp -> 1 <= step_of pp -> move_no s < P64 ->
  In Pass (valid_actions_no_rep s) \/
  exists i d, In (Move i d) (valid_actions_no_rep s) /\
              (3 <= step_of pp \/ In Pass (valid_actions_no_rep (take_action s (Move i d)))).
Proof.
  intros Inv Pd H1 Hm. pose proof Inv as [Hph W _ H3 Hst].
  pose proof (T1_pass s pp Hph W (status_inv_ok _ _ _ Hst)) as TP. pose proof (fun i d => T1_move s pp Hph W (status_inv_ok _ _ _ Hst) i d) as TM.
  destruct (pstate pp) as [|sq k|sq k] eqn:E.
  - left. apply TP. unfold spec_pass_ok. cbn. destruct (N.leb_spec 1 (step_of pp)); [reflexivity|lia].
  - left. apply TP. unfold spec_pass_ok. cbn. destruct (N.leb_spec 1 (step_of pp)); [reflexivity|lia].
  - right. unfold pending_ok in Pd. rewrite E in Pd. destruct Pd as (i & d & Hi & V).
    assert (In (Move i d) (valid_actions_no_rep s)) as Off.
    { apply TM. cbn [sstatus_of spec_move_ok]. tauto. }
    exists i, d. split; [exact Off|].
    destruct (N.lt_ge_cases (step_of pp) 3) as [L|L]; [right|now left].
    destruct (move_preserves s pp i d Inv Off) as [pp' Inv'].
    pose proof (step_mid s pp i d Hph L Hm) as (_ & _ & q & Q1 & Q2 & _ & _ & Q5). cbv zeta in *.
    pose proof (inv_phase _ pp' Inv') as P'. rewrite Q1 in P'. injection P' as <-.
    pose proof Inv' as [Hph' W' _ _ Hst'].
    apply (T1_pass _ q Hph' W' (status_inv_ok _ _ _ Hst')).
    pose proof (offered_move_pre s pp i d Inv Off) as [_ (t & o & k' & Hd & Hc & Ht)].
    rewrite Q5, (next_status_spec s pp i d t o k' Inv Hi Hd Hc), E. cbn [sstatus_of]. unfold spec_next_status. rewrite Hc.
    unfold push_finish_ok in V. rewrite Hc, Hd in V. apply andb_prop in V. destruct V as [V _]. apply andb_prop in V. destruct V as [V _].
    apply andb_prop in V. destruct V as [V _]. rewrite V. cbn [negb]. unfold spec_pass_ok. rewrite Q2.
    destruct (N.leb_spec 1 (step_of pp + 1)); [reflexivity|lia].
Qed.

(* ---- C01: strictness corollaries ---- *)
Lemma stronger_irrefl k : stronger k k = false.
Proof. destruct k; reflexivity. Qed.

Lemma strict_completion s pp sq k i d : PlayInv s pp -> pstate pp = MustCompletePush sq k ->
  In (Move i d) (valid_actions_no_rep s) ->
  exists k', cell (board s) i = Some (side s, k') /\ stronger k' k = true /\ frozen (cell (board s)) i = false /\ dst_of i d = Some sq.
Proof.
  intros Inv E Off. pose proof Inv as [Hph W _ _ Hst].
  pose proof (T1_move s pp Hph W (status_inv_ok _ _ _ Hst) i d) as TM. rewrite E in TM. apply TM in Off. destruct Off as [_ V].
  cbn [sstatus_of spec_move_ok] in V. unfold push_finish_ok in V.
  destruct (cell (board s) i) as [[o k']|]; [|discriminate]. destruct (dst_of i d) as [t|]; [|discriminate].
  apply andb_prop in V. destruct V as [V V4]. apply andb_prop in V. destruct V as [V V3]. apply andb_prop in V. destruct V as [V1 V2].
  apply eqb_prop in V1. apply N.eqb_eq in V2. subst o t. exists k'. repeat split; auto. now apply negb_true_iff.
Qed.

(* a rabbit of the mover is never offered a backward step (it may still be pushed or pulled backward by the opponent:
   those are steps of the OTHER side's turn) *)
Lemma own_rabbit_not_backward s pp i d : PlayInv s pp -> In (Move i d) (valid_actions_no_rep s) ->
  cell (board s) i = Some (side s, Rabbit) -> backward (side s) d = false.
Proof.
  intros Inv Off Hc. pose proof Inv as [Hph W _ _ Hst].
  pose proof (T1_move s pp Hph W (status_inv_ok _ _ _ Hst) i d) as TM. apply TM in Off. destruct Off as [_ V].
  unfold spec_move_ok in V.
  assert (own_step_ok (cell (board s)) (side s) i d = true -> backward (side s) d = false) as Own.
  { unfold own_step_ok. rewrite Hc. destruct (dst_of i d); [|discriminate]. intros H. apply andb_prop in H. destruct H as [_ H]. now apply negb_true_iff. }
  assert (forall st0, pull_finish_ok (cell (board s)) (side s) st0 i d = false) as NoPull.
  { intros st0. unfold pull_finish_ok. destruct st0; try reflexivity. rewrite Hc. destruct (dst_of i d); [|reflexivity]. now rewrite eqb_reflx. }
  assert (push_start_ok (cell (board s)) (side s) i d = false) as NoPush.
  { unfold push_start_ok. rewrite Hc. destruct (dst_of i d); [|reflexivity]. now rewrite eqb_reflx. }
  destruct (sstatus_of (pstate pp)) as [|sq k|sq k].
  - rewrite NoPull, NoPush, andb_false_r, !orb_false_r in V. now apply Own.
  - rewrite NoPull, NoPush, andb_false_r, !orb_false_r in V. now apply Own.
  - unfold push_finish_ok in V. rewrite Hc in V. destruct (dst_of i d); [|discriminate].
    apply andb_prop in V. destruct V as [V _]. apply andb_prop in V. destruct V as [_ V]. destruct k; discriminate.
Qed.
