(* xor-fold algebra on N *)
From Coq Require Import NArith List Bool Lia.
Import ListNotations.
Open Scope N_scope.

Definition xsum {A} (f : A -> N) (l : list A) : N := fold_left (fun acc a => N.lxor acc (f a)) l 0.

Lemma fold_xor_shift {A} (f : A -> N) l h :
  fold_left (fun acc a => N.lxor acc (f a)) l h = N.lxor h (xsum f l).
Proof.
  unfold xsum. revert h. induction l as [|a l IH]; intros h; cbn [fold_left].
  - now rewrite N.lxor_0_r.
  - rewrite IH, (IH (N.lxor 0 (f a))), N.lxor_0_l, N.lxor_assoc. reflexivity.
Qed.

Lemma xsum_nil {A} (f : A -> N) : xsum f [] = 0.
Proof. reflexivity. Qed.

Lemma xsum_cons {A} (f : A -> N) a l : xsum f (a :: l) = N.lxor (f a) (xsum f l).
Proof. unfold xsum at 1. cbn [fold_left]. rewrite fold_xor_shift, N.lxor_0_l. reflexivity. Qed.

Lemma xsum_app {A} (f : A -> N) l1 l2 : xsum f (l1 ++ l2) = N.lxor (xsum f l1) (xsum f l2).
Proof.
  induction l1 as [|a l IH]; cbn [app].
  - now rewrite xsum_nil, N.lxor_0_l.
  - rewrite !xsum_cons, IH, N.lxor_assoc. reflexivity.
Qed.

Lemma xsum_ext {A} (f g : A -> N) l : (forall a, In a l -> f a = g a) -> xsum f l = xsum g l.
Proof.
  induction l as [|a l IH]; intros H; [reflexivity|].
  rewrite !xsum_cons, IH, (H a) by (intros; try apply H; simpl; auto). reflexivity.
Qed.

Lemma xsum_zero {A} (f : A -> N) l : (forall a, In a l -> f a = 0) -> xsum f l = 0.
Proof.
  induction l as [|a l IH]; intros H; [reflexivity|].
  rewrite xsum_cons, IH, (H a) by (intros; try apply H; simpl; auto). reflexivity.
Qed.

Lemma xsum_xor {A} (f g : A -> N) l : xsum (fun a => N.lxor (f a) (g a)) l = N.lxor (xsum f l) (xsum g l).
Proof.
  induction l as [|a l IH]; [reflexivity|].
  rewrite !xsum_cons, IH.
  rewrite !N.lxor_assoc. f_equal.
  rewrite <- !N.lxor_assoc. f_equal. apply N.lxor_comm.
Qed.

Lemma xsum_swap {A B} (f : A -> B -> N) la lb :
  xsum (fun a => xsum (fun b => f a b) lb) la = xsum (fun b => xsum (fun a => f a b) la) lb.
Proof.
  induction la as [|a la IH].
  - rewrite xsum_nil. symmetry. apply xsum_zero. intros; apply xsum_nil.
  - rewrite xsum_cons, IH.
    rewrite <- xsum_xor. apply xsum_ext. intros b _. now rewrite xsum_cons.
Qed.

Lemma xsum_filter {A} (f : A -> N) p l : xsum f (filter p l) = xsum (fun a => if p a then f a else 0) l.
Proof.
  induction l as [|a l IH]; [reflexivity|]. cbn [filter].
  destruct (p a) eqn:E; rewrite ?xsum_cons, IH, ?E, ?N.lxor_0_l; reflexivity.
Qed.

(* a sum with at most one non-zero term *)
Lemma xsum_single {A} (f : A -> N) l a :
  NoDup l -> In a l -> (forall b, In b l -> b <> a -> f b = 0) -> xsum f l = f a.
Proof.
  induction l as [|x l IH]; intros ND Hin Hz; [contradiction|].
  rewrite xsum_cons. inversion ND as [|? ? Hnx ND']; subst.
  destruct Hin as [->|Hin].
  - rewrite xsum_zero, N.lxor_0_r; [reflexivity|].
    intros b Hb. apply Hz; [now right|]. intros ->. contradiction.
  - rewrite (Hz x), N.lxor_0_l; [|now left|intros ->; contradiction].
    apply IH; auto. intros b Hb. apply Hz. now right.
Qed.

Lemma lxor_eq_0 a b : N.lxor a b = 0 -> a = b.
Proof. apply N.lxor_eq. Qed.

Lemma lxor_cancel_l a b c : N.lxor a b = N.lxor a c -> b = c.
Proof.
  intros H. apply N.lxor_eq. 
  assert (N.lxor (N.lxor a b) (N.lxor a c) = 0) as H0 by (rewrite H; apply N.lxor_nilpotent).
  rewrite <- H0.
  rewrite N.lxor_assoc, <- (N.lxor_assoc b a c), (N.lxor_comm b a), N.lxor_assoc, <- N.lxor_assoc, N.lxor_nilpotent, N.lxor_0_l.
  reflexivity.
Qed.
