(* Reachable states and the global invariant. *)
From Coq Require Import NArith ZArith List Bool Lia ZifyBool ZifyN.
From Arimaa Require Import Types U64 GenMasks GenEnums GenZobrist Board Zobrist Engine Notation Display Trace Cells Rules Monitors
  Fin XorFold Hash HashSens BitLemmas StepLemmas GenLemmas Refine Invariant TurnLemmas HashInv Live Setup.
Import ListNotations.
Open Scope N_scope.
Strategy opaque [bits_of].

(* what parsing a diagram yields (display.rs): a turn-start state with from-scratch hashes; the board
   must be well formed (every accepted diagram gives one: see monitors 10.1 / 15.2 and DESIGN) *)
Definition StartPosition (s : state) : Prop :=
  exists h, ph s = PlayPhase (play_initial h [h]) /\ h = hash s /\ WFb (board s) /\
            hash s = z_from_piece_board (board s) (side s) 0.

Inductive Reach : state -> Prop :=
| R_initial : Reach initial
| R_position s : StartPosition s -> Reach s
| R_step s a : Reach s -> In a (valid_actions_no_rep s) -> Reach (take_action s a).

(* games played through the repetition-checked list are reachable in this sense *)
Inductive ReachRep : state -> Prop :=
| RR_initial : ReachRep initial
| RR_position s : StartPosition s -> ReachRep s
| RR_step s a : ReachRep s -> In a (valid_actions s) -> ReachRep (take_action s a).

Lemma start_inv s : StartPosition s -> exists pp, HashInv s pp /\ step_of pp = 0.
Proof.
  intros (h & P & Hh & W & E). exists (play_initial h [h]). split; [|reflexivity]. constructor.
  - constructor; cbn [prev pstate play_initial]; [exact P|exact W|constructor|unfold step_of; cbn; lia|exact I].
  - exact E.
Qed.

Theorem reach_inv s : Reach s -> (exists n, SetupInv s n) \/ (exists pp, HashInv s pp).
Proof.
  induction 1 as [|s Hs|s a Hr IH Ha].
  - left. exists 0. exact setup_initial.
  - right. destruct (start_inv s Hs) as [pp [H _]]. eauto.
  - destruct IH as [[n Inv]|[pp Inv]].
    + unfold valid_actions_no_rep, valid_actions_ in Ha. rewrite (si_phase s n Inv) in Ha.
      destruct (valid_placement_only s a Ha) as [k ->]. cbn [take_action].
      destruct (N.eq_dec n 31) as [E|E].
      * right. destruct (place_last s n k Inv E) as (h & _ & _ & _ & _ & HI). eauto.
      * left. exists (n + 1). now apply place_next.
    + right. now apply (hash_preserved s pp a).
Qed.

Lemma valid_sub s pp a : PlayInv s pp -> In a (valid_actions s) -> In a (valid_actions_no_rep s).
Proof. intros Inv H. rewrite (valid_is_filter s pp Inv) in H. apply filter_In in H. tauto. Qed.

Theorem reach_rep_reach s : ReachRep s -> Reach s.
Proof.
  induction 1 as [|s Hs|s a Hr IH Ha]; [constructor|now constructor|].
  apply R_step; [exact IH|]. destruct (reach_inv s IH) as [[n Inv]|[pp Inv]].
  - unfold valid_actions, valid_actions_no_rep, valid_actions_ in *. now rewrite (si_phase s n Inv) in *.
  - apply (valid_sub s pp a (hi_play s pp Inv) Ha).
Qed.

Theorem reach_play s pp : Reach s -> ph s = PlayPhase pp -> HashInv s pp.
Proof.
  intros R P. destruct (reach_inv s R) as [[n Inv]|[pp' Inv]].
  - rewrite (si_phase s n Inv) in P. discriminate.
  - pose proof (inv_phase s pp' (hi_play s pp' Inv)) as P'. rewrite P in P'. injection P' as ->. exact Inv.
Qed.

(* C07: whenever no result is reported the offered list is non-empty, in setup and in play *)
Theorem reach_live s : Reach s -> is_terminal s = None -> valid_actions s <> [].
Proof.
  intros R T. destruct (reach_inv s R) as [[n Inv]|[pp Inv]].
  - unfold valid_actions, valid_actions_. rewrite (si_phase s n Inv). now apply (setup_live s n).
  - now apply (live s pp (hi_play s pp Inv)).
Qed.
