(* T2b: every legal turn of the rule book is accepted, step by step, by the step automaton. *)
From Coq Require Import NArith ZArith List Bool Lia ZifyBool ZifyN.
From Arimaa Require Import Types U64 Rules Turns Fin BitLemmas StepLemmas GenLemmas Traps Pending TurnsLemmas.
Import ListNotations.
Open Scope N_scope.

Definition on_board (c : cellf) : Prop := forall j, 64 <= j -> c j = None.

Lemma on_board_lt c j x : on_board c -> c j = Some x -> j < 64.
Proof. intros H E. destruct (N.lt_ge_cases j 64) as [L|L]; [exact L|]. rewrite (H j L) in E. discriminate. Qed.

Lemma step_board_on_board c x : on_board c -> on_board (step_board c x).
Proof.
  intros H j Hj. unfold step_board. destruct (dst_of (fst x) (snd x)) as [t|] eqn:E; [|now apply H].
  unfold after_captures. destruct (unsupported_on_trap _ j); [reflexivity|]. unfold moved.
  destruct (N.eqb_spec j t) as [->|].
  - destruct (N.lt_ge_cases (fst x) 64) as [L|L]; [pose proof (dst_lt64 _ _ _ L E); lia|now apply H].
  - destruct (j =? fst x); [reflexivity|now apply H].
Qed.

Definition open_status (st : sstatus) : Prop :=
  match st with SNone => True | SPull sq _ => sq < 64 | SPush _ _ => False end.

Lemma own_status c g st s d k : c s = Some (g, k) -> s < 64 -> open_status st -> open_status (spec_next_status c g st s d).
Proof.
  intros Cs Hs Ho. unfold spec_next_status. rewrite Cs, eqb_reflx. cbn [negb].
  destruct st; try contradiction; destruct k; cbn; auto.
Qed.

Lemma own_accepted c g stp st s d : open_status st -> own_step_ok c g s d = true -> spec_move_ok c g stp st s d = true.
Proof. intros Ho H. unfold spec_move_ok. destruct st; try contradiction; now rewrite H. Qed.

Lemma own_step_owner c g s d : own_step_ok c g s d = true -> exists k t, c s = Some (g, k) /\ dst_of s d = Some t /\ c t = None /\ frozen c s = false.
Proof.
  unfold own_step_ok. destruct (c s) as [[o k]|]; [|discriminate]. destruct (dst_of s d) as [t|]; [|discriminate].
  intros H. apply andb_prop in H. destruct H as [H _]. apply andb_prop in H. destruct H as [H F]. apply andb_prop in H. destruct H as [O E].
  apply eqb_prop in O. subst o. exists k, t. repeat split; auto.
  - unfold occupied in E. destruct (c t); [discriminate|reflexivity].
  - now apply negb_true_iff.
Qed.

Theorem T2b : forall ms c g stp st, on_board c -> legal_traps c -> open_status st ->
  mvs_ok c g ms = true -> N.of_nat (length (flatten ms)) + stp <= 4 ->
  accepts c g stp st (flatten ms) = true /\ open_status (run_status c g st (flatten ms)).
Proof.
  induction ms as [|m ms IH]; intros c g stp st OB Leg Ho Ok Len; [split; [reflexivity|exact Ho]|].
  cbn [mvs_ok] in Ok. apply andb_prop in Ok. destruct Ok as [Mok Rok].
  unfold flatten in *. cbn [flat_map] in *. rewrite app_length in Len.
  destruct m as [s d|v dv p dp|p dp v dv]; cbn [steps_of app length] in *.
  - (* single step *)
    destruct (own_step_owner c g s d Mok) as (k & t & Cs & Ds & Ct & Fs). pose proof (on_board_lt c s _ OB Cs) as Hs.
    cbn [accepts run_status fst snd]. cbn [run_board fold_left] in Rok.
    rewrite (own_accepted c g stp st s d Ho Mok). destruct (N.ltb_spec stp 4); [|lia]. cbn [andb].
    apply IH; auto.
    + now apply step_board_on_board.
    + now apply step_board_legal.
    + now apply (own_status c g st s d k).
    + lia.
  - (* push: victim first, then the pusher *)
    cbn [mv_ok] in Mok.
    destruct (c v) as [[ov kv]|] eqn:Cv; [|discriminate]. destruct (dst_of v dv) as [t|] eqn:Dv; [|discriminate].
    destruct (c p) as [[op kp]|] eqn:Cp; [|discriminate]. destruct (dst_of p dp) as [t'|] eqn:Dp; [|discriminate].
    repeat (apply andb_prop in Mok; destruct Mok as [Mok ?]).
    match goal with H : (t' =? v) = true |- _ => apply N.eqb_eq in H; subst t' end.
    match goal with H : Bool.eqb op g = true |- _ => apply eqb_prop in H; subst op end.
    assert (ov = negb g) as -> by (apply negb_true_iff in Mok; destruct ov, g; cbn in *; congruence).
    match goal with H : negb (frozen c p) = true |- _ => apply negb_true_iff in H; rename H into Fp end.
    match goal with H : stronger kp kv = true |- _ => rename H into St end.
    match goal with H : negb (occupied c t) = true |- _ => rename H into Et end.
    assert (c t = None) as Ct by (unfold occupied in Et; destruct (c t); [discriminate|reflexivity]).
    pose proof (on_board_lt c v _ OB Cv) as Hv. pose proof (on_board_lt c p _ OB Cp) as Hp.
    pose proof (dst_lt64 v dv t Hv Dv) as Ht.
    assert (v <> t) as Hvt by (intros E; apply (dst_neq v dv t Dv Hv); now symmetry).
    assert (In p (nbrs v)) as Pv by (apply (nbrs_sym p v Hp), (nbrs_of_dst p dp v Dp)).
    cbn [accepts run_status fst snd]. cbn [run_board fold_left] in Rok.
    destruct (N.ltb_spec stp 4); [|lia]. destruct (N.ltb_spec (stp + 1) 4); [|lia]. cbn [andb].
    (* the victim's step is accepted (as the first half of a push; it may also count as a pull completion) *)
    assert (push_start_ok c g v dv = true) as PS.
    { unfold push_start_ok. rewrite Cv, Dv, Et. replace (Bool.eqb (negb g) g) with false by (destruct g; reflexivity). cbn [negb andb].
      apply existsb_exists. exists p. split; [exact Pv|]. now rewrite Cp, eqb_reflx, St, Fp. }
    assert (spec_move_ok c g stp st v dv = true) as A1.
    { unfold spec_move_ok. destruct st; try contradiction; rewrite PS; (destruct (N.ltb_spec stp 3); [|lia]); now rewrite !orb_true_r. }
    rewrite A1. cbn [andb].
    rewrite (step_board_some c v dv t Dv) in *.
    set (c1 := after_captures (moved c v t)) in *.
    assert (c1 p = Some (g, kp)) as C1p by (apply (own_kept c g v t kv Cv Ct Leg p kp Hp Cp)).
    assert (frozen c1 p = false) as F1p by (apply (pusher_not_frozen c g v t kv Cv Ct Leg p kp Hp Cp St Fp)).
    assert (c1 v = None) as C1v by (apply vacated_empty; exact Hvt).
    assert (legal_traps c1) as Leg1 by apply captures_settle.
    assert (on_board c1) as OB1 by (pose proof (step_board_on_board c (v, dv) OB) as X; now rewrite (step_board_some c v dv t Dv) in X).
    set (st1 := spec_next_status c g st v dv).
    assert (spec_move_ok c1 g (stp + 1) st1 p dp = true /\ open_status (spec_next_status c1 g st1 p dp)) as [A2 O2].
    { assert (st1 = if pull_finish_ok c g st v dv then SNone else SPush v kv) as E1
        by (unfold st1, spec_next_status; rewrite Cv; destruct g; reflexivity).
      rewrite E1. destruct (pull_finish_ok c g st v dv).
      - split.
        + apply own_accepted; [exact I|]. unfold own_step_ok. rewrite C1p, Dp, eqb_reflx. unfold occupied. rewrite C1v, F1p. cbn.
          destruct kp; try reflexivity. destruct kv; discriminate.
        + apply (own_status c1 g SNone p dp kp C1p Hp I).
      - split.
        + cbn [spec_move_ok]. unfold push_finish_ok. rewrite C1p, Dp, eqb_reflx, N.eqb_refl, St, F1p. reflexivity.
        + unfold spec_next_status. rewrite C1p, eqb_reflx. cbn. exact I. }
    rewrite A2. cbn [andb].
    apply IH; auto.
    + now apply step_board_on_board.
    + now apply step_board_legal.
    + lia.
  - (* pull: the puller first, then the victim *)
    cbn [mv_ok] in Mok. apply andb_prop in Mok. destruct Mok as [Own Rest].
    destruct (own_step_owner c g p dp Own) as (kp & tp & Cp & Dp & Ctp & Fp). rewrite Cp in Rest.
    destruct (c v) as [[ov kv]|] eqn:Cv; [|discriminate]. destruct (dst_of v dv) as [t'|] eqn:Dv; [|discriminate].
    apply andb_prop in Rest. destruct Rest as [Rest E']. apply andb_prop in Rest. destruct Rest as [En St].
    apply N.eqb_eq in E'. subst t'.
    assert (ov = negb g) as -> by (apply negb_true_iff in En; destruct ov, g; cbn in *; congruence).
    pose proof (on_board_lt c p _ OB Cp) as Hp. pose proof (on_board_lt c v _ OB Cv) as Hv.
    assert (p <> tp) as Hptp by (intros E; apply (dst_neq p dp tp Dp Hp); now symmetry).
    cbn [accepts run_status fst snd]. cbn [run_board fold_left] in Rok.
    destruct (N.ltb_spec stp 4); [|lia]. destruct (N.ltb_spec (stp + 1) 4); [|lia]. cbn [andb].
    rewrite (own_accepted c g stp st p dp Ho Own). cbn [andb].
    rewrite (step_board_some c p dp tp Dp) in *.
    set (c1 := after_captures (moved c p tp)) in *.
    assert (spec_next_status c g st p dp = SPull p kp) as S1.
    { unfold spec_next_status. rewrite Cp, eqb_reflx. cbn [negb]. destruct st; try contradiction; destruct kp; try reflexivity; destruct kv; discriminate. }
    rewrite S1.
    (* the victim is still there: a step of one side captures no piece of the other *)
    assert (c1 v = Some (negb g, kv)) as C1v.
    { apply (own_kept c (negb g) p tp kp); try assumption. now rewrite negb_involutive. }
    assert (pull_finish_ok c1 g (SPull p kp) v dv = true) as PF.
    { unfold pull_finish_ok. rewrite C1v, Dv, N.eqb_refl, St. replace (Bool.eqb (negb g) g) with false by (destruct g; reflexivity). reflexivity. }
    assert (spec_move_ok c1 g (stp + 1) (SPull p kp) v dv = true) as A2 by (unfold spec_move_ok; rewrite PF; now rewrite orb_true_r).
    rewrite A2. cbn [andb].
    assert (spec_next_status c1 g (SPull p kp) v dv = SNone) as S2.
    { unfold spec_next_status. rewrite C1v, PF. replace (negb (Bool.eqb (negb g) g)) with true by (destruct g; reflexivity). reflexivity. }
    rewrite S2.
    apply IH; auto.
    + apply step_board_on_board. pose proof (step_board_on_board c (p, dp) OB) as X. now rewrite (step_board_some c p dp tp Dp) in X.
    + apply step_board_legal, captures_settle.
    + exact I.
    + lia.
Qed.
